/-
  C03 - end-to-end theorems for OBJECT STREAMS and HYBRID files (follow-up C03c).
  Proofs: Lemmas/LoaderE2EObjStm.lean (stage), LoaderE2EObjStmW.lean (written object streams), LoaderE2EHybrid.lean,
  LoaderE2EObjStmFile.lean (composition).

    load_defines_exactly_objstm          cross-reference stream file whose type-2 rows name object streams written in
                                         the body (unfiltered or Flate stored blocks; header in any legal layout,
                                         members in any legal spelling, arbitrary gaps): every file-level object AND
                                         every member is bound to the value written, nothing else is defined
    load_defines_exactly_hybrid          hybrid file (classic table + /XRefStm stream), file-level objects
    load_defines_exactly_hybrid_objstm   hybrid file with hidden objects in object streams (free entries in the
                                         table with a generation other than 0 - outside known finding #31)
-/
import Parsley.Lemmas.LoaderE2EObjStmFile
import Parsley.Props.C03E2EXref
namespace Parsley.C03
open Parsley Parsley.Prim Parsley.Obj Parsley.Indirect Parsley.Loader Parsley.C02 Parsley.Spelling Parsley.LoaderE2E
open Parsley.XrefSpec Parsley.C13 Parsley.LoaderObjStm

/-- **load_defines_exactly_objstm** (C03 end to end; cross-reference stream + object streams) -/
theorem load_defines_exactly_objstm (f : XrefStreamFile) (subs : List (Nat × List SEnt)) (w0 w1 w2 : Nat) (root : ObjId)
    (ws : List WCont) (h : f.WFstm subs w0 w1 w2 root ws) :
    ∃ L : Loaded, parseData f.bytes = .ok L ∧ L.root = root ∧
      (∀ q ∈ f.objs, ObjStm.defsGet (q.1.num, q.1.gen) L.defs = some (q.1.val q.2).val) ∧
      (∀ w ∈ ws, ∀ m ∈ w.mems, ObjStm.defsGet (m.num, 0) L.defs = some m.v) ∧
      (∀ k, (∀ q ∈ f.objs, (q.1.num, q.1.gen) ≠ k) → (∀ w ∈ ws, ∀ m ∈ w.mems, (m.num, 0) ≠ k) →
        ObjStm.defsGet k L.defs = none) :=
  load_xrefstream_objstm f subs w0 w1 w2 root ws h

/-- **load_defines_exactly_hybrid** (C03 end to end; hybrid file, file-level objects) -/
theorem load_defines_exactly_hybrid (f : HybridFile) (D : List (Bytes × Obj)) (ssubs : List (Nat × List SEnt))
    (w0 w1 w2 : Nat) (root : ObjId) (h : f.WF D ssubs w0 w1 w2 root) :
    ∃ L : Loaded, parseData f.bytes = .ok L ∧ L.root = root ∧
      (∀ q ∈ f.objs, ObjStm.defsGet (q.1.num, q.1.gen) L.defs = some (q.1.val q.2).val) ∧
      (∀ k, (∀ q ∈ f.objs, (q.1.num, q.1.gen) ≠ k) → ObjStm.defsGet k L.defs = none) :=
  load_hybrid f D ssubs w0 w1 w2 root h

/-- **load_defines_exactly_hybrid_objstm** (C03 end to end; hybrid file with hidden objects in object streams) -/
theorem load_defines_exactly_hybrid_objstm (f : HybridFile) (D : List (Bytes × Obj)) (ssubs : List (Nat × List SEnt))
    (w0 w1 w2 : Nat) (root : ObjId) (ws : List WCont) (h : f.WFstm D ssubs w0 w1 w2 root ws) :
    ∃ L : Loaded, parseData f.bytes = .ok L ∧ L.root = root ∧
      (∀ q ∈ f.objs, ObjStm.defsGet (q.1.num, q.1.gen) L.defs = some (q.1.val q.2).val) ∧
      (∀ w ∈ ws, ∀ m ∈ w.mems, ObjStm.defsGet (m.num, 0) L.defs = some m.v) ∧
      (∀ k, (∀ q ∈ f.objs, (q.1.num, q.1.gen) ≠ k) → (∀ w ∈ ws, ∀ m ∈ w.mems, (m.num, 0) ≠ k) →
        ObjStm.defsGet k L.defs = none) :=
  load_hybrid_objstm f D ssubs w0 w1 w2 root ws h

/-! ## non-vacuity

  Shared pieces: object 1 (`exObj1`: the integer 7), the object stream 3 of Lemmas/LoaderE2EObjStmW.lean
  (`exStm`: header `11 0 12 4`, members 11 = 11 and 12 = true, junk between them). -/

/-- a bracketed list of unsigned integers, each given by its digit string: `[d0 d1 ... ]` -/
def intsBody : List Bytes → Bytes
  | [] => [93]
  | ds :: t => [32] ++ (ds ++ intsBody t)

def DigOK (ds : Bytes) : Prop := ds ≠ [] ∧ (∀ y ∈ ds, isDigit y = true) ∧ digitsVal ds 0 ≤ i64Max

theorem elems_ints : ∀ (l : List Bytes), (∀ ds ∈ l, DigOK ds) →
    SpellsElems 1 true (l.map fun ds => .int (Sign.none.apply (digitsVal ds 0))) (intsBody l)
  | [], _ => by
    have := SpellsElems.nil 1 true [] WsRun.nil
    simpa [intsBody] using this
  | ds :: t, h => by
    obtain ⟨h1, h2, h3⟩ := h ds List.mem_cons_self
    have hx : Spells 1 (.int (Sign.none.apply (digitsVal ds 0))) ds := by
      have := Spells.int 0 .none ds h1 h2 h3
      simpa [Sign.bytes] using this
    exact SpellsElems.cons 1 true _ _ [32] ds (intsBody t) ws32 hx (fun _ _ => by simp)
      (elems_ints t (fun x hx => h x (List.mem_cons_of_mem _ hx)))

theorem arr_ints (d0 : Bytes) (t : List Bytes) (h : ∀ ds ∈ d0 :: t, DigOK ds) :
    Spells 2 (.arr ((d0 :: t).map fun ds => .int (Sign.none.apply (digitsVal ds 0)))) (91 :: (d0 ++ intsBody t)) := by
  obtain ⟨h1, h2, h3⟩ := h d0 List.mem_cons_self
  have hx : Spells 1 (.int (Sign.none.apply (digitsVal d0 0))) d0 := by
    have := Spells.int 0 .none d0 h1 h2 h3
    simpa [Sign.bytes] using this
  have e0 := SpellsElems.cons 1 false _ _ [] d0 (intsBody t) WsRun.nil hx (fun hh => by cases hh)
    (elems_ints t (fun x hx => h x (List.mem_cons_of_mem _ hx)))
  exact Spells.arr 1 _ _ (by simpa using e0)

theorem digOK_dec (ds : Bytes) (h : (ds ≠ [] ∧ (ds.all isDigit = true) ∧ digitsVal ds 0 ≤ i64Max)) : DigOK ds :=
  ⟨h.1, fun y hy => List.all_eq_true.mp h.2.1 y hy, h.2.2⟩

def bI : Bytes := [73, 110, 100, 101, 120]

/-! ### A: cross-reference stream + object stream -/

/-- `[1 1 3 2 11 2]` -/
theorem exIdxA_spells : Spells 2 (.arr [.int 1, .int 1, .int 3, .int 2, .int 11, .int 2])
    [91, 49, 32, 49, 32, 51, 32, 50, 32, 49, 49, 32, 50, 93] := by
  have := arr_ints [49] [[49], [51], [50], [49, 49], [50]] (by
    intro ds hds
    simp only [List.mem_cons, List.mem_nil_iff, or_false] at hds
    rcases hds with rfl | rfl | rfl | rfl | rfl | rfl <;> exact digOK_dec _ (by decide))
  exact this

def exAEnts : List (Bytes × Obj) :=
  [(bT, .name bX), (bS, .int 13), (bW, .arr [.int 1, .int 1, .int 1]),
   (bI, .arr [.int 1, .int 1, .int 3, .int 2, .int 11, .int 2]), (bR, .ref 1 0), (bL, .int 15)]

/-- `<</Type/XRef/Size 13/W[1 1 1]/Index[1 1 3 2 11 2]/Root 1 0 R/Length 15>>` -/
def exATok : Bytes := [60, 60, 47, 84, 121, 112, 101, 47, 88, 82, 101, 102, 47, 83, 105, 122, 101, 32, 49, 51, 47, 87, 91, 49, 32, 49,
  32, 49, 93, 47, 73, 110, 100, 101, 120, 91, 49, 32, 49, 32, 51, 32, 50, 32, 49, 49, 32, 50, 93, 47, 82, 111, 111, 116, 32,
  49, 32, 48, 32, 82, 47, 76, 101, 110, 103, 116, 104, 32, 49, 53, 62, 62]

theorem exADict_spells : Spells 3 (.dict (dictOf exAEnts)) exATok := by
  have vX : Spells 2 (.name bX) (47 :: (nameBody bX (rawCh 4)).1) := Spells.name 1 bX (rawCh 4) (by decide)
  have v13 : Spells 2 (.int 13) [49, 51] := Spells.int 1 .none [49, 51] (by simp) (by decide) (by decide)
  have v15 : Spells 2 (.int 15) [49, 53] := Spells.int 1 .none [49, 53] (by simp) (by decide) (by decide)
  have vR : Spells 2 (.ref 1 0) [49, 32, 48, 32, 82] :=
    Spells.ref 1 [49] [32] [48] [32] (by simp) (by decide) (by decide) (by simp) (by decide) (by decide)
      ws32 (by simp) ws32 (by simp)
  have n6 := SpellsEntries.nil 2 [bL, bR, bI, bW, bS, bT]
  have n5 := SpellsEntries.cons 2 [bR, bI, bW, bS, bT] bL (.int 15) [] [] (rawCh 6) [32] _ [] WsRun.nil (by decide) (by decide) ws32
    v15 (fun _ => by simp) n6
  have n4 := SpellsEntries.cons 2 [bI, bW, bS, bT] bR (.ref 1 0) _ [] (rawCh 4) [32] _ _ WsRun.nil (by decide) (by decide) ws32
    vR (fun _ => by simp) n5
  have n3 := SpellsEntries.cons 2 [bW, bS, bT] bI _ _ [] (rawCh 5) [] _ _ WsRun.nil (by decide) (by decide)
    WsRun.nil exIdxA_spells (fun h => by simp [startsReg] at h) n4
  have n2 := SpellsEntries.cons 2 [bS, bT] bW (.arr [.int 1, .int 1, .int 1]) _ [] (rawCh 1) [] _ _ WsRun.nil (by decide) (by decide)
    WsRun.nil exW_spells (fun h => by simp [startsReg] at h) n3
  have n1 := SpellsEntries.cons 2 [bT] bS (.int 13) _ [] (rawCh 4) [32] _ _ WsRun.nil (by decide) (by decide) ws32
    v13 (fun _ => by simp) n2
  have n0 := SpellsEntries.cons 2 [] bT (.name bX) _ [] (rawCh 4) [] _ _ WsRun.nil (by decide) (by simp) WsRun.nil
    vX (fun h => by simp [startsReg] at h) n1
  have hd := Spells.dict 2 _ _ [] n0 WsRun.nil
  have e : exATok = 60 :: 60 :: (([] : Bytes) ++ (47 :: (nameBody bT (rawCh 4)).1 ++ ([] ++ ((47 :: (nameBody bX (rawCh 4)).1) ++
      ([] ++ (47 :: (nameBody bS (rawCh 4)).1 ++ ([32] ++ ([49, 51] ++
      ([] ++ (47 :: (nameBody bW (rawCh 1)).1 ++ ([] ++ ([91, 49, 32, 49, 32, 49, 93] ++
      ([] ++ (47 :: (nameBody bI (rawCh 5)).1 ++ ([] ++ ([91, 49, 32, 49, 32, 51, 32, 50, 32, 49, 49, 32, 50, 93] ++
      ([] ++ (47 :: (nameBody bR (rawCh 4)).1 ++ ([32] ++ ([49, 32, 48, 32, 82] ++
      ([] ++ (47 :: (nameBody bL (rawCh 6)).1 ++ ([32] ++ ([49, 53] ++ []))))))))))))))))))))))) ++ ([] ++ [62, 62])) := by
    decide +kernel
  rw [e]
  exact hd

/-- rows: 1 -> in use at 9; 3 -> in use at 26, 4 -> in use at 116; 11, 12 -> members 0 and 1 of stream 3 -/
def exAXs : WStm := ⟨[], [52], [32], [48], [32], [], exATok, [], [10],
  [1, 9, 0, 1, 26, 0, 1, 116, 0, 2, 3, 0, 2, 3, 1], [10], [32], dictOf exAEnts, 3⟩

theorem exAXs_ok : exAXs.OK where
  head := {
    pad := WsRun.nil
    nne := by simp [exAXs, WStm.head]
    ndig := by decide
    nfit := by decide
    w1 := ws32
    w1ne := by simp [exAXs, WStm.head]
    gne := by simp [exAXs, WStm.head]
    gdig := by decide
    gfit := by decide
    w2 := ws32
    w3 := WsRun.nil
    spells := exADict_spells
    depth := by decide
    w4 := WsRun.nil
    w4req := by intro h; simp [exAXs, WStm.head, endsReg] at h }
  e1 := by decide
  e2 := by decide
  w4 := ws32

def exASubs : List (Nat × List SEnt) := [(1, [⟨1, 9, 0⟩]), (3, [⟨1, 26, 0⟩, ⟨1, 116, 0⟩]), (11, [⟨2, 3, 0⟩, ⟨2, 3, 1⟩])]

/-- `%PDF-1.5 LF <obj 1> LF <object stream 3> LF <xref stream 4> LF startxref LF 116 LF %%EOF LF` -/
def exAFile : XrefStreamFile where
  garbage := []
  hdrRest := [49, 46, 53, 10]
  body1 := [⟨exObj1.piece, [10]⟩, ⟨exStm.piece, [10]⟩]
  xs := exAXs
  xpost := [10]
  body2 := []
  gap := []
  wsx := [10]
  ds := [49, 49, 54]
  e := [10]
  trail := [10]

/-- the object stream as a container of `exAFile`: stream object 3 written at offset 26 -/
def exAW : WCont := ⟨3, exStm.kvs, ⟨26 + exStm.kwOfs + 6 + exStm.e1.length, exStm.data.length, exStm.data⟩,
  exEs, [32], exMems, []⟩

theorem exAW_data : exAW.Data exStm.data where
  type := by rfl
  n := by rfl
  first := by rfl
  ne := by simp [exAW, exMems]
  decl := by decide
  layout := by decide
  bounded := by intro e he; simp [exAW, exEs] at he; rcases he with rfl | rfl <;> decide
  tail := by decide
  mems := exMems_ok
  stored := .plain (by rfl) (by decide)

theorem exA_objs : exAFile.objs = [(exObj1.piece, 9), (exStm.piece, 26), (exAXs.piece, 116)] := by rfl

theorem exA_conts (X : List Xref.Ent) (hX : stmsOf (infoOf X) = [(3, 0), (3, 0)]) :
    ContsOK [(exObj1.piece, 9), (exStm.piece, 26), (exAXs.piece, 116)] (exAXs.piece, 116) X [exAW] where
  stms := by
    intro id
    rw [hX]
    simp only [List.mem_cons, List.mem_nil_iff, or_false, or_self, exists_eq_left]
    exact Iff.rfl
  numsNodup := by simp
  placed := by
    intro w hw
    simp only [List.mem_cons, List.mem_nil_iff, or_false] at hw
    subst hw
    refine ⟨by decide, (exStm.piece, 26), by simp, exStm, rfl, rfl, rfl, rfl, rfl, exAW_data⟩
  memsNodup := by decide
  memsFresh := by
    intro w hw m hm q hq
    simp only [List.mem_cons, List.mem_nil_iff, or_false] at hw hq
    subst hw
    simp only [exAW, exMems, List.mem_cons, List.mem_nil_iff, or_false] at hm
    rcases hm with rfl | rfl <;> rcases hq with rfl | rfl | rfl <;> decide

theorem exAFile_wf : exAFile.WFstm exASubs 1 1 1 (1, 0) [exAW] where
  noMagic := by intro k hk; simp [exAFile] at hk
  xsOK := exAXs_ok
  xsLen := rfl
  dict := {
    type := rfl
    size := ⟨13, rfl, Or.inl rfl⟩
    hw := rfl
    hw0 := by decide
    hw1 := by decide
    hw1pos := by decide
    hw2 := by decide }
  root := rfl
  noPrev := rfl
  fits := by decide
  lim := by decide
  numsNodup := by decide +kernel
  wsx := WsRun.ws 10 [] (by decide) WsRun.nil
  wsxNe := by simp [exAFile]
  wsxNoS := by decide
  dsNe := by simp [exAFile]
  dsDig := by decide
  startxref := by decide
  ofsFits := by decide
  e := by decide
  trail := noLaterEOF_of_no_percent _ (by decide)
  stored := Stored.plain [] rfl
  size := by decide +kernel
  reads1 := by
    intro q hq
    simp only [exAFile, List.mem_cons, List.mem_nil_iff, or_false] at hq
    rcases hq with rfl | rfl
    · exact exObj1.piece_reads exObj1_ok
    · exact exStm.piece_reads exStm_ok rfl
  reads2 := by intro q hq; simp [exAFile] at hq
  idsNodup := by decide
  tableObjs := ⟨exAFile.objs, List.Perm.refl _, by decide +kernel⟩
  conts := by
    rw [exA_objs]
    exact exA_conts _ (by decide +kernel)

example : ∃ L : Loaded, parseData exAFile.bytes = .ok L ∧ L.root = (1, 0) ∧
    ObjStm.defsGet (1, 0) L.defs = some (.int 7) ∧
    ObjStm.defsGet (11, 0) L.defs = some (.int 11) ∧ ObjStm.defsGet (12, 0) L.defs = some (.bool true) ∧
    ObjStm.defsGet (3, 0) L.defs = some (.stream exStm.kvs ⟨79, 19, exStm.data⟩) ∧
    ObjStm.defsGet (2, 0) L.defs = none := by
  obtain ⟨L, h1, h2, h3, h4, h5⟩ := load_defines_exactly_objstm exAFile _ _ _ _ _ _ exAFile_wf
  refine ⟨L, h1, h2, ?_, ?_, ?_, ?_, ?_⟩
  · exact h3 (exObj1.piece, 9) (by rw [exA_objs]; simp)
  · exact h4 exAW (by simp) ⟨11, [], [], [49, 49], .int 11, 1⟩ (by simp [exAW, exMems])
  · exact h4 exAW (by simp) ⟨12, [32, 120], [32], [116, 114, 117, 101], .bool true, 1⟩ (by simp [exAW, exMems])
  · exact h3 (exStm.piece, 26) (by rw [exA_objs]; simp)
  · apply h5
    · rw [exA_objs]; decide
    · intro w hw m hm
      simp only [List.mem_cons, List.mem_nil_iff, or_false] at hw
      subst hw
      simp only [exAW, exMems, List.mem_cons, List.mem_nil_iff, or_false] at hm
      rcases hm with rfl | rfl <;> decide


/-! ### B: hybrid file - table (0 free, 1, 3, 4 in use, hidden 11 and 12 free with generation 65535) + /XRefStm stream 4
    listing 11 and 12 as members of object stream 3 -/

/-- `[11 2]` -/
theorem exIdxB_spells : Spells 2 (.arr [.int 11, .int 2]) [91, 49, 49, 32, 50, 93] := by
  have := arr_ints [49, 49] [[50]] (by
    intro ds hds
    simp only [List.mem_cons, List.mem_nil_iff, or_false] at hds
    rcases hds with rfl | rfl <;> exact digOK_dec _ (by decide))
  exact this

def exBEnts : List (Bytes × Obj) :=
  [(bT, .name bX), (bS, .int 13), (bW, .arr [.int 1, .int 1, .int 1]), (bI, .arr [.int 11, .int 2]), (bL, .int 6)]

/-- `<</Type/XRef/Size 13/W[1 1 1]/Index[11 2]/Length 6>>` -/
def exBTok : Bytes := [60, 60, 47, 84, 121, 112, 101, 47, 88, 82, 101, 102, 47, 83, 105, 122, 101, 32, 49, 51, 47, 87, 91, 49, 32, 49,
  32, 49, 93, 47, 73, 110, 100, 101, 120, 91, 49, 49, 32, 50, 93, 47, 76, 101, 110, 103, 116, 104, 32, 54, 62, 62]

theorem exBDict_spells : Spells 3 (.dict (dictOf exBEnts)) exBTok := by
  have vX : Spells 2 (.name bX) (47 :: (nameBody bX (rawCh 4)).1) := Spells.name 1 bX (rawCh 4) (by decide)
  have v13 : Spells 2 (.int 13) [49, 51] := Spells.int 1 .none [49, 51] (by simp) (by decide) (by decide)
  have v6 : Spells 2 (.int 6) [54] := Spells.int 1 .none [54] (by simp) (by decide) (by decide)
  have n5 := SpellsEntries.nil 2 [bL, bI, bW, bS, bT]
  have n4 := SpellsEntries.cons 2 [bI, bW, bS, bT] bL (.int 6) [] [] (rawCh 6) [32] _ [] WsRun.nil (by decide) (by decide) ws32
    v6 (fun _ => by simp) n5
  have n3 := SpellsEntries.cons 2 [bW, bS, bT] bI _ _ [] (rawCh 5) [] _ _ WsRun.nil (by decide) (by decide)
    WsRun.nil exIdxB_spells (fun h => by simp [startsReg] at h) n4
  have n2 := SpellsEntries.cons 2 [bS, bT] bW (.arr [.int 1, .int 1, .int 1]) _ [] (rawCh 1) [] _ _ WsRun.nil (by decide) (by decide)
    WsRun.nil exW_spells (fun h => by simp [startsReg] at h) n3
  have n1 := SpellsEntries.cons 2 [bT] bS (.int 13) _ [] (rawCh 4) [32] _ _ WsRun.nil (by decide) (by decide) ws32
    v13 (fun _ => by simp) n2
  have n0 := SpellsEntries.cons 2 [] bT (.name bX) _ [] (rawCh 4) [] _ _ WsRun.nil (by decide) (by simp) WsRun.nil
    vX (fun h => by simp [startsReg] at h) n1
  have hd := Spells.dict 2 _ _ [] n0 WsRun.nil
  have e : exBTok = 60 :: 60 :: (([] : Bytes) ++ (47 :: (nameBody bT (rawCh 4)).1 ++ ([] ++ ((47 :: (nameBody bX (rawCh 4)).1) ++
      ([] ++ (47 :: (nameBody bS (rawCh 4)).1 ++ ([32] ++ ([49, 51] ++
      ([] ++ (47 :: (nameBody bW (rawCh 1)).1 ++ ([] ++ ([91, 49, 32, 49, 32, 49, 93] ++
      ([] ++ (47 :: (nameBody bI (rawCh 5)).1 ++ ([] ++ ([91, 49, 49, 32, 50, 93] ++
      ([] ++ (47 :: (nameBody bL (rawCh 6)).1 ++ ([32] ++ ([54] ++ []))))))))))))))))))) ++ ([] ++ [62, 62])) := by
    decide +kernel
  rw [e]
  exact hd

def exBXs : WStm := ⟨[], [52], [32], [48], [32], [], exBTok, [], [10],
  [2, 3, 0, 2, 3, 1], [10], [32], dictOf exBEnts, 3⟩

theorem exBXs_ok : exBXs.OK where
  head := {
    pad := WsRun.nil
    nne := by simp [exBXs, WStm.head]
    ndig := by decide
    nfit := by decide
    w1 := ws32
    w1ne := by simp [exBXs, WStm.head]
    gne := by simp [exBXs, WStm.head]
    gdig := by decide
    gfit := by decide
    w2 := ws32
    w3 := WsRun.nil
    spells := exBDict_spells
    depth := by decide
    w4 := WsRun.nil
    w4req := by intro h; simp [exBXs, WStm.head, endsReg] at h }
  e1 := by decide
  e2 := by decide
  w4 := ws32

def bXS : Bytes := [88, 82, 101, 102, 83, 116, 109]

def exBTrEnts : List (Bytes × Obj) := [(bR, .ref 1 0), (bXS, .int 116)]

/-- `<</Root 1 0 R/XRefStm 116>>` -/
def exBTrTok : Bytes := [60, 60, 47, 82, 111, 111, 116, 32, 49, 32, 48, 32, 82, 47, 88, 82, 101, 102, 83, 116, 109, 32, 49, 49, 54, 62, 62]

theorem exBTrailer_spells : Spells 2 (.dict (dictOf exBTrEnts)) exBTrTok := by
  have vR : Spells 1 (.ref 1 0) [49, 32, 48, 32, 82] :=
    Spells.ref 0 [49] [32] [48] [32] (by simp) (by decide) (by decide) (by simp) (by decide) (by decide)
      ws32 (by simp) ws32 (by simp)
  have v116 : Spells 1 (.int 116) [49, 49, 54] := Spells.int 0 .none [49, 49, 54] (by simp) (by decide) (by decide)
  have n2 := SpellsEntries.nil 1 [bXS, bR]
  have n1 := SpellsEntries.cons 1 [bR] bXS (.int 116) [] [] (rawCh 7) [32] _ [] WsRun.nil (by decide) (by decide) ws32
    v116 (fun _ => by simp) n2
  have n0 := SpellsEntries.cons 1 [] bR (.ref 1 0) _ [] (rawCh 4) [32] _ _ WsRun.nil (by decide) (by simp) ws32
    vR (fun _ => by simp) n1
  have hd := Spells.dict 1 _ _ [] n0 WsRun.nil
  have e : exBTrTok = 60 :: 60 :: (([] : Bytes) ++ (47 :: (nameBody bR (rawCh 4)).1 ++ ([32] ++ ([49, 32, 48, 32, 82] ++
      ([] ++ (47 :: (nameBody bXS (rawCh 7)).1 ++ ([32] ++ ([49, 49, 54] ++ []))))))) ++ ([] ++ [62, 62])) := by
    decide +kernel
  rw [e]
  exact hd

def exBSub0 : TSub := ⟨0, 1, 1, [], [10], [⟨0, 65535, false, .spLf⟩, ⟨9, 0, true, .spLf⟩]⟩
def exBSub3 : TSub := ⟨3, 1, 1, [], [10], [⟨26, 0, true, .crLf⟩, ⟨116, 0, true, .spCr⟩]⟩
def exBSub11 : TSub := ⟨11, 2, 1, [], [10], [⟨0, 65535, false, .spLf⟩, ⟨0, 65535, false, .spLf⟩]⟩

def exBSSubs : List (Nat × List SEnt) := [(11, [⟨2, 3, 0⟩, ⟨2, 3, 1⟩])]

def exBFile : HybridFile where
  garbage := [106, 10]
  hdrRest := [49, 46, 53, 10]
  body1 := [⟨exObj1.piece, [10]⟩, ⟨exStm.piece, [10]⟩]
  xs := exBXs
  xpost := [10]
  body2 := []
  subs := [exBSub0, exBSub3, exBSub11]
  wt := []
  ttok := exBTrTok
  gap := [10]
  wsx := [10]
  ds := [50, 48, 54]
  e := [10]
  trail := [10]

theorem exB_objs : exBFile.objs = [(exObj1.piece, 9), (exStm.piece, 26), (exBXs.piece, 116)] := by rfl

theorem exB_conts (X : List Xref.Ent) (hX : stmsOf (infoOf X) = [(3, 0), (3, 0)]) :
    ContsOK [(exObj1.piece, 9), (exStm.piece, 26), (exBXs.piece, 116)] (exBXs.piece, 116) X [exAW] where
  stms := by
    intro id
    rw [hX]
    simp only [List.mem_cons, List.mem_nil_iff, or_false, or_self, exists_eq_left]
    exact Iff.rfl
  numsNodup := by simp
  placed := by
    intro w hw
    simp only [List.mem_cons, List.mem_nil_iff, or_false] at hw
    subst hw
    refine ⟨by decide, (exStm.piece, 26), by simp, exStm, rfl, rfl, rfl, rfl, rfl, exAW_data⟩
  memsNodup := by decide
  memsFresh := by
    intro w hw m hm q hq
    simp only [List.mem_cons, List.mem_nil_iff, or_false] at hw hq
    subst hw
    simp only [exAW, exMems, List.mem_cons, List.mem_nil_iff, or_false] at hm
    rcases hm with rfl | rfl <;> rcases hq with rfl | rfl | rfl <;> decide

theorem exBFile_wf : exBFile.WFstm (dictOf exBTrEnts) exBSSubs 1 1 1 (1, 0) [exAW] where
  noMagic := noMagic_of_no_percent _ _ (by decide)
  subsNe := by simp [exBFile]
  subsOk := by
    intro t ht
    simp only [exBFile, List.mem_cons, List.mem_nil_iff, or_false] at ht
    rcases ht with rfl | rfl | rfl
    · exact ⟨by decide +kernel, by simp [exBSub0]⟩
    · exact ⟨by decide +kernel, by simp [exBSub3]⟩
    · exact ⟨by decide +kernel, by simp [exBSub11]⟩
  wt := WsRun.nil
  trailer := ⟨2, exBTrailer_spells, by decide⟩
  root := rfl
  noPrev := rfl
  noEncrypt := rfl
  xrefStm := rfl
  xsOK := exBXs_ok
  xsLen := rfl
  dict := {
    type := rfl
    size := ⟨13, rfl, Or.inl rfl⟩
    hw := rfl
    hw0 := by decide
    hw1 := by decide
    hw1pos := by decide
    hw2 := by decide }
  stored := Stored.plain [] rfl
  fits := by decide
  lim := by decide
  keysNodup := by decide +kernel
  wsx := WsRun.ws 10 [] (by decide) WsRun.nil
  wsxNe := by simp [exBFile]
  wsxNoS := by decide
  dsNe := by simp [exBFile]
  dsDig := by decide
  startxref := by decide +kernel
  ofsFits := by decide
  e := by decide
  trail := noLaterEOF_of_no_percent _ (by decide)
  size := by decide +kernel
  reads1 := by
    intro q hq
    simp only [exBFile, List.mem_cons, List.mem_nil_iff, or_false] at hq
    rcases hq with rfl | rfl
    · exact exObj1.piece_reads exObj1_ok
    · exact exStm.piece_reads exStm_ok rfl
  reads2 := by intro q hq; simp [exBFile] at hq
  idsNodup := by decide
  tableObjs := ⟨exBFile.objs, List.Perm.refl _, by decide +kernel⟩
  conts := by
    rw [exB_objs]
    exact exB_conts _ (by decide +kernel)

example : ∃ L : Loaded, parseData exBFile.bytes = .ok L ∧ L.root = (1, 0) ∧
    ObjStm.defsGet (1, 0) L.defs = some (.int 7) ∧
    ObjStm.defsGet (11, 0) L.defs = some (.int 11) ∧ ObjStm.defsGet (12, 0) L.defs = some (.bool true) ∧
    ObjStm.defsGet (11, 65535) L.defs = none ∧ ObjStm.defsGet (2, 0) L.defs = none := by
  obtain ⟨L, h1, h2, h3, h4, h5⟩ := load_defines_exactly_hybrid_objstm exBFile _ _ _ _ _ _ _ exBFile_wf
  refine ⟨L, h1, h2, ?_, ?_, ?_, ?_, ?_⟩
  · exact h3 (exObj1.piece, 9) (by rw [exB_objs]; simp)
  · exact h4 exAW (by simp) ⟨11, [], [], [49, 49], .int 11, 1⟩ (by simp [exAW, exMems])
  · exact h4 exAW (by simp) ⟨12, [32, 120], [32], [116, 114, 117, 101], .bool true, 1⟩ (by simp [exAW, exMems])
  · apply h5
    · rw [exB_objs]; decide
    · intro w hw m hm
      simp only [List.mem_cons, List.mem_nil_iff, or_false] at hw
      subst hw
      simp only [exAW, exMems, List.mem_cons, List.mem_nil_iff, or_false] at hm
      rcases hm with rfl | rfl <;> decide
  · apply h5
    · rw [exB_objs]; decide
    · intro w hw m hm
      simp only [List.mem_cons, List.mem_nil_iff, or_false] at hw
      subst hw
      simp only [exAW, exMems, List.mem_cons, List.mem_nil_iff, or_false] at hm
      rcases hm with rfl | rfl <;> decide

/-- the hybrid file is accepted by the whole model with exactly these five definitions (a kernel-evaluated TEST of
    the same file, independent of the theorem) -/
example : nDefs (parseData exBFile.bytes) = 5 := by decide +kernel


/-! ### C: hybrid file with file-level objects only - object 3 is listed only in the /XRefStm stream (a type-1 row) -/

/-- `3 0 obj 8 endobj` -/
def exObj3 : WObj := ⟨[], [51], [32], [48], [32], [32], [56], [32], .int 8, 1⟩

theorem exObj3_ok : exObj3.OK where
  pad := WsRun.nil
  nne := by simp [exObj3]
  ndig := by decide
  nfit := by decide
  w1 := ws32
  w1ne := by simp [exObj3]
  gne := by simp [exObj3]
  gdig := by decide
  gfit := by decide
  w2 := ws32
  w3 := ws32
  spells := Spells.int 0 .none [56] (by simp) (by decide) (by decide)
  depth := by decide
  w4 := ws32
  w4req := by intro _; simp [exObj3]

/-- `[3 1]` -/
theorem exIdxC_spells : Spells 2 (.arr [.int 3, .int 1]) [91, 51, 32, 49, 93] := by
  have := arr_ints [51] [[49]] (by
    intro ds hds
    simp only [List.mem_cons, List.mem_nil_iff, or_false] at hds
    rcases hds with rfl | rfl <;> exact digOK_dec _ (by decide))
  exact this

def exCEnts : List (Bytes × Obj) :=
  [(bT, .name bX), (bS, .int 4), (bW, .arr [.int 1, .int 1, .int 1]), (bI, .arr [.int 3, .int 1]), (bL, .int 3)]

/-- `<</Type/XRef/Size 4/W[1 1 1]/Index[3 1]/Length 3>>` -/
def exCTok : Bytes := [60, 60, 47, 84, 121, 112, 101, 47, 88, 82, 101, 102, 47, 83, 105, 122, 101, 32, 52, 47, 87, 91, 49, 32, 49, 32,
  49, 93, 47, 73, 110, 100, 101, 120, 91, 51, 32, 49, 93, 47, 76, 101, 110, 103, 116, 104, 32, 51, 62, 62]

theorem exCDict_spells : Spells 3 (.dict (dictOf exCEnts)) exCTok := by
  have vX : Spells 2 (.name bX) (47 :: (nameBody bX (rawCh 4)).1) := Spells.name 1 bX (rawCh 4) (by decide)
  have v4 : Spells 2 (.int 4) [52] := Spells.int 1 .none [52] (by simp) (by decide) (by decide)
  have v3 : Spells 2 (.int 3) [51] := Spells.int 1 .none [51] (by simp) (by decide) (by decide)
  have n5 := SpellsEntries.nil 2 [bL, bI, bW, bS, bT]
  have n4 := SpellsEntries.cons 2 [bI, bW, bS, bT] bL (.int 3) [] [] (rawCh 6) [32] _ [] WsRun.nil (by decide) (by decide) ws32
    v3 (fun _ => by simp) n5
  have n3 := SpellsEntries.cons 2 [bW, bS, bT] bI _ _ [] (rawCh 5) [] _ _ WsRun.nil (by decide) (by decide)
    WsRun.nil exIdxC_spells (fun h => by simp [startsReg] at h) n4
  have n2 := SpellsEntries.cons 2 [bS, bT] bW (.arr [.int 1, .int 1, .int 1]) _ [] (rawCh 1) [] _ _ WsRun.nil (by decide) (by decide)
    WsRun.nil exW_spells (fun h => by simp [startsReg] at h) n3
  have n1 := SpellsEntries.cons 2 [bT] bS (.int 4) _ [] (rawCh 4) [32] _ _ WsRun.nil (by decide) (by decide) ws32
    v4 (fun _ => by simp) n2
  have n0 := SpellsEntries.cons 2 [] bT (.name bX) _ [] (rawCh 4) [] _ _ WsRun.nil (by decide) (by simp) WsRun.nil
    vX (fun h => by simp [startsReg] at h) n1
  have hd := Spells.dict 2 _ _ [] n0 WsRun.nil
  have e : exCTok = 60 :: 60 :: (([] : Bytes) ++ (47 :: (nameBody bT (rawCh 4)).1 ++ ([] ++ ((47 :: (nameBody bX (rawCh 4)).1) ++
      ([] ++ (47 :: (nameBody bS (rawCh 4)).1 ++ ([32] ++ ([52] ++
      ([] ++ (47 :: (nameBody bW (rawCh 1)).1 ++ ([] ++ ([91, 49, 32, 49, 32, 49, 93] ++
      ([] ++ (47 :: (nameBody bI (rawCh 5)).1 ++ ([] ++ ([91, 51, 32, 49, 93] ++
      ([] ++ (47 :: (nameBody bL (rawCh 6)).1 ++ ([32] ++ ([51] ++ []))))))))))))))))))) ++ ([] ++ [62, 62])) := by
    decide +kernel
  rw [e]
  exact hd

def exCXs : WStm := ⟨[], [50], [32], [48], [32], [], exCTok, [], [10], [1, 26, 0], [10], [32], dictOf exCEnts, 3⟩

theorem exCXs_ok : exCXs.OK where
  head := {
    pad := WsRun.nil
    nne := by simp [exCXs, WStm.head]
    ndig := by decide
    nfit := by decide
    w1 := ws32
    w1ne := by simp [exCXs, WStm.head]
    gne := by simp [exCXs, WStm.head]
    gdig := by decide
    gfit := by decide
    w2 := ws32
    w3 := WsRun.nil
    spells := exCDict_spells
    depth := by decide
    w4 := WsRun.nil
    w4req := by intro h; simp [exCXs, WStm.head, endsReg] at h }
  e1 := by decide
  e2 := by decide
  w4 := ws32

def exCTrEnts : List (Bytes × Obj) := [(bR, .ref 1 0), (bXS, .int 43)]

/-- `<</Root 1 0 R/XRefStm 43>>` -/
def exCTrTok : Bytes := [60, 60, 47, 82, 111, 111, 116, 32, 49, 32, 48, 32, 82, 47, 88, 82, 101, 102, 83, 116, 109, 32, 52, 51, 62, 62]

theorem exCTrailer_spells : Spells 2 (.dict (dictOf exCTrEnts)) exCTrTok := by
  have vR : Spells 1 (.ref 1 0) [49, 32, 48, 32, 82] :=
    Spells.ref 0 [49] [32] [48] [32] (by simp) (by decide) (by decide) (by simp) (by decide) (by decide)
      ws32 (by simp) ws32 (by simp)
  have v43 : Spells 1 (.int 43) [52, 51] := Spells.int 0 .none [52, 51] (by simp) (by decide) (by decide)
  have n2 := SpellsEntries.nil 1 [bXS, bR]
  have n1 := SpellsEntries.cons 1 [bR] bXS (.int 43) [] [] (rawCh 7) [32] _ [] WsRun.nil (by decide) (by decide) ws32
    v43 (fun _ => by simp) n2
  have n0 := SpellsEntries.cons 1 [] bR (.ref 1 0) _ [] (rawCh 4) [32] _ _ WsRun.nil (by decide) (by simp) ws32
    vR (fun _ => by simp) n1
  have hd := Spells.dict 1 _ _ [] n0 WsRun.nil
  have e : exCTrTok = 60 :: 60 :: (([] : Bytes) ++ (47 :: (nameBody bR (rawCh 4)).1 ++ ([32] ++ ([49, 32, 48, 32, 82] ++
      ([] ++ (47 :: (nameBody bXS (rawCh 7)).1 ++ ([32] ++ ([52, 51] ++ []))))))) ++ ([] ++ [62, 62])) := by
    decide +kernel
  rw [e]
  exact hd

def exCSub : TSub := ⟨0, 1, 1, [], [10], [⟨0, 65535, false, .spLf⟩, ⟨9, 0, true, .spLf⟩, ⟨43, 0, true, .spLf⟩]⟩

def exCFile : HybridFile where
  garbage := []
  hdrRest := [49, 46, 53, 10]
  body1 := [⟨exObj1.piece, [10]⟩, ⟨exObj3.piece, [10]⟩]
  xs := exCXs
  xpost := [10]
  body2 := []
  subs := [exCSub]
  wt := []
  ttok := exCTrTok
  gap := [10]
  wsx := [10]
  ds := [49, 50, 56]
  e := [10]
  trail := [10]

theorem exCFile_wf : exCFile.WF (dictOf exCTrEnts) [(3, [⟨1, 26, 0⟩])] 1 1 1 (1, 0) where
  noMagic := by intro k hk; simp [exCFile] at hk
  subsNe := by simp [exCFile]
  subsOk := by
    intro t ht
    simp only [exCFile, List.mem_cons, List.mem_nil_iff, or_false] at ht
    subst ht
    exact ⟨by decide +kernel, by simp [exCSub]⟩
  wt := WsRun.nil
  trailer := ⟨2, exCTrailer_spells, by decide⟩
  root := rfl
  noPrev := rfl
  noEncrypt := rfl
  xrefStm := rfl
  xsOK := exCXs_ok
  xsLen := rfl
  dict := {
    type := rfl
    size := ⟨4, rfl, Or.inl rfl⟩
    hw := rfl
    hw0 := by decide
    hw1 := by decide
    hw1pos := by decide
    hw2 := by decide }
  stored := Stored.plain [] rfl
  fits := by decide
  lim := by decide
  keysNodup := by decide +kernel
  wsx := WsRun.ws 10 [] (by decide) WsRun.nil
  wsxNe := by simp [exCFile]
  wsxNoS := by decide
  dsNe := by simp [exCFile]
  dsDig := by decide
  startxref := by decide +kernel
  ofsFits := by decide
  e := by decide
  trail := noLaterEOF_of_no_percent _ (by decide)
  reads1 := by
    intro q hq
    simp only [exCFile, List.mem_cons, List.mem_nil_iff, or_false] at hq
    rcases hq with rfl | rfl
    · exact exObj1.piece_reads exObj1_ok
    · exact exObj3.piece_reads exObj3_ok
  reads2 := by intro q hq; simp [exCFile] at hq
  idsNodup := by decide
  tableObjs := ⟨[(exObj1.piece, 9), (exCXs.piece, 43), (exObj3.piece, 26)], by
    have : exCFile.objs = [(exObj1.piece, 9), (exObj3.piece, 26), (exCXs.piece, 43)] := by rfl
    rw [this]
    exact List.Perm.cons _ (List.Perm.swap _ _ _), by decide +kernel⟩

example : ∃ L : Loaded, parseData exCFile.bytes = .ok L ∧ L.root = (1, 0) ∧
    ObjStm.defsGet (1, 0) L.defs = some (.int 7) ∧ ObjStm.defsGet (3, 0) L.defs = some (.int 8) ∧
    ObjStm.defsGet (4, 0) L.defs = none := by
  obtain ⟨L, h1, h2, h3, h4⟩ := load_defines_exactly_hybrid exCFile _ _ _ _ _ _ exCFile_wf
  have hobjs : exCFile.objs = [(exObj1.piece, 9), (exObj3.piece, 26), (exCXs.piece, 43)] := by rfl
  refine ⟨L, h1, h2, ?_, ?_, ?_⟩
  · exact h3 (exObj1.piece, 9) (by rw [hobjs]; simp)
  · exact h3 (exObj3.piece, 26) (by rw [hobjs]; simp)
  · apply h4
    rw [hobjs]
    decide

end Parsley.C03
