/-
  C03 - end-to-end theorems for CROSS-REFERENCE STREAM layouts (follow-up C03c).
  Proofs: Lemmas/LoaderE2EXref.lean, LoaderE2EXrefFile.lean, LoaderE2EXrefLoad.lean, LoaderE2EFilter.lean.

    load_defines_exactly_xrefstream   FULL for the layout class "single revision, cross-reference stream, file-level
                                      objects": for EVERY file garbage ++ %PDF-… ++ objects (one of them the
                                      cross-reference stream object, anywhere in the body) ++ … startxref n %%EOF …
                                      (`XrefStreamFile`; objects as in `ClassicFile`: any legal spelling, padding,
                                      direct-Length streams) whose stream dictionary says /Type /XRef, /Size,
                                      /W [w0 w1 w2] with widths in {0..4}, w1 ≠ 0, /Index (any partition) or none
                                      (= [0 Size]), /Root, no /Prev, and whose data holds the rows written by C13's
                                      encoder - unfiltered, or FlateDecode'd in stored blocks, or FlateDecode'd with
                                      a PNG / TIFF predictor (`Stored`) - `parseData file = ok L`, `L.root` = the
                                      dictionary's /Root, every object of the body (the cross-reference stream object
                                      included) is bound to the value written, nothing else is defined.
-/
import Parsley.Lemmas.LoaderE2EXrefLoad
import Parsley.Props.C03E2E
namespace Parsley.C03
open Parsley Parsley.Prim Parsley.Obj Parsley.Indirect Parsley.Loader Parsley.C02 Parsley.Spelling Parsley.LoaderE2E
open Parsley.XrefSpec Parsley.C13

/-- **load_defines_exactly_xrefstream** (C03 end to end; single revision, cross-reference stream with any /W widths,
    /Index partition or none, unfiltered / Flate stored blocks / Flate + predictor; file-level objects). -/
theorem load_defines_exactly_xrefstream (f : XrefStreamFile) (subs : List (Nat × List SEnt)) (w0 w1 w2 : Nat)
    (root : ObjId) (h : f.WF subs w0 w1 w2 root) :
    ∃ L : Loaded, parseData f.bytes = .ok L ∧ L.root = root ∧
      (∀ q ∈ f.objs, ObjStm.defsGet (q.1.num, q.1.gen) L.defs = some (q.1.val q.2).val) ∧
      (∀ k, (∀ q ∈ f.objs, (q.1.num, q.1.gen) ≠ k) → ObjStm.defsGet k L.defs = none) :=
  load_xrefstream f subs w0 w1 w2 root h

/-! ## non-vacuity: `docXrefStream` of Props/C03.lean as a well-formed `XrefStreamFile` (object 1, the
    cross-reference stream object 2 with /W [1 1 1], no /Index, unfiltered) -/

def nm3 : Ch := [1, 0, 0]

/-- the choice stream "every byte raw" for a name of `n` bytes -/
def rawCh : Nat → Ch
  | 0 => []
  | n + 1 => 1 :: 0 :: 0 :: rawCh n

def bT : Bytes := [84, 121, 112, 101]
def bX : Bytes := [88, 82, 101, 102]
def bS : Bytes := [83, 105, 122, 101]
def bW : Bytes := [87]
def bR : Bytes := [82, 111, 111, 116]
def bL : Bytes := [76, 101, 110, 103, 116, 104]

theorem sp1 : Spells 1 (.int 1) [49] := Spells.int 0 .none [49] (by simp) (by decide) (by decide)

/-- `[1 1 1]` -/
theorem exW_spells : Spells 2 (.arr [.int 1, .int 1, .int 1]) [91, 49, 32, 49, 32, 49, 93] := by
  have e3 : SpellsElems 1 true [] [93] := by
    have := SpellsElems.nil 1 true [] WsRun.nil
    simpa using this
  have e2 : SpellsElems 1 true [.int 1] [32, 49, 93] :=
    SpellsElems.cons 1 true (.int 1) [] [32] [49] [93] ws32 sp1 (fun _ _ => by simp) e3
  have e1 : SpellsElems 1 true [.int 1, .int 1] [32, 49, 32, 49, 93] :=
    SpellsElems.cons 1 true (.int 1) [.int 1] [32] [49] [32, 49, 93] ws32 sp1 (fun _ _ => by simp) e2
  have e0 : SpellsElems 1 false [.int 1, .int 1, .int 1] [49, 32, 49, 32, 49, 93] := by
    have := SpellsElems.cons 1 false (.int 1) [.int 1, .int 1] [] [49] [32, 49, 32, 49, 93] WsRun.nil sp1
      (fun h => by cases h) e1
    simpa using this
  exact Spells.arr 1 _ _ e0

/-- the entries of the stream dictionary, as written -/
def exXEnts : List (Bytes × Obj) :=
  [(bT, .name bX), (bS, .int 3), (bW, .arr [.int 1, .int 1, .int 1]), (bR, .ref 1 0), (bL, .int 9)]

/-- `<</Type/XRef/Size 3/W[1 1 1]/Root 1 0 R/Length 9>>` -/
def exXTok : Bytes := [60, 60, 47, 84, 121, 112, 101, 47, 88, 82, 101, 102, 47, 83, 105, 122, 101, 32, 51, 47, 87, 91, 49, 32, 49,
  32, 49, 93, 47, 82, 111, 111, 116, 32, 49, 32, 48, 32, 82, 47, 76, 101, 110, 103, 116, 104, 32, 57, 62, 62]

theorem exXDict_spells : Spells 3 (.dict (dictOf exXEnts)) exXTok := by
  have vX : Spells 2 (.name bX) (47 :: (nameBody bX (rawCh 4)).1) := Spells.name 1 bX (rawCh 4) (by decide)
  have v3 : Spells 2 (.int 3) [51] := Spells.int 1 .none [51] (by simp) (by decide) (by decide)
  have v9 : Spells 2 (.int 9) [57] := Spells.int 1 .none [57] (by simp) (by decide) (by decide)
  have vR : Spells 2 (.ref 1 0) [49, 32, 48, 32, 82] :=
    Spells.ref 1 [49] [32] [48] [32] (by simp) (by decide) (by decide) (by simp) (by decide) (by decide)
      ws32 (by simp) ws32 (by simp)
  have n5 := SpellsEntries.nil 2 [bL, bR, bW, bS, bT]
  have n4 := SpellsEntries.cons 2 [bR, bW, bS, bT] bL (.int 9) [] [] (rawCh 6) [32] [57] [] WsRun.nil (by decide) (by decide) ws32
    v9 (fun _ => by simp) n5
  have n3 := SpellsEntries.cons 2 [bW, bS, bT] bR (.ref 1 0) _ [] (rawCh 4) [32] _ _ WsRun.nil (by decide) (by decide) ws32
    vR (fun _ => by simp) n4
  have n2 := SpellsEntries.cons 2 [bS, bT] bW (.arr [.int 1, .int 1, .int 1]) _ [] (rawCh 1) [] _ _ WsRun.nil (by decide) (by decide)
    WsRun.nil exW_spells (fun h => by simp [startsReg] at h) n3
  have n1 := SpellsEntries.cons 2 [bT] bS (.int 3) _ [] (rawCh 4) [32] _ _ WsRun.nil (by decide) (by decide) ws32
    v3 (fun _ => by simp) n2
  have n0 := SpellsEntries.cons 2 [] bT (.name bX) _ [] (rawCh 4) [] _ _ WsRun.nil (by decide) (by simp) WsRun.nil
    vX (fun h => by simp [startsReg] at h) n1
  have hd := Spells.dict 2 _ _ [] n0 WsRun.nil
  have e : exXTok = 60 :: 60 :: (([] : Bytes) ++ (47 :: (nameBody bT (rawCh 4)).1 ++ ([] ++ ((47 :: (nameBody bX (rawCh 4)).1) ++
      ([] ++ (47 :: (nameBody bS (rawCh 4)).1 ++ ([32] ++ ([51] ++
      ([] ++ (47 :: (nameBody bW (rawCh 1)).1 ++ ([] ++ ([91, 49, 32, 49, 32, 49, 93] ++
      ([] ++ (47 :: (nameBody bR (rawCh 4)).1 ++ ([32] ++ ([49, 32, 48, 32, 82] ++
      ([] ++ (47 :: (nameBody bL (rawCh 6)).1 ++ ([32] ++ ([57] ++ []))))))))))))))))))) ++ ([] ++ [62, 62])) := by
    decide +kernel
  rw [e]
  exact hd

/-- `2 0 obj<<...>>stream LF rows LF endstream SP endobj`: rows 0 0 255 / 1 9 0 / 1 26 0 -/
def exXs : WStm := ⟨[], [50], [32], [48], [32], [], exXTok, [], [10],
  [0, 0, 255, 1, 9, 0, 1, 26, 0], [10], [32], dictOf exXEnts, 3⟩

theorem exXs_head_ok : exXs.head.OK where
    pad := WsRun.nil
    nne := by simp [exXs, WStm.head]
    ndig := by decide
    nfit := by decide
    w1 := ws32
    w1ne := by simp [exXs, WStm.head]
    gne := by simp [exXs, WStm.head]
    gdig := by decide
    gfit := by decide
    w2 := ws32
    w3 := WsRun.nil
    spells := exXDict_spells
    depth := by decide
    w4 := WsRun.nil
    w4req := by intro h; simp [exXs, WStm.head, endsReg] at h

theorem exXs_ok : exXs.OK where
  head := exXs_head_ok
  e1 := by decide
  e2 := by decide
  w4 := ws32

def exXSubs : List (Nat × List SEnt) := [(0, [⟨0, 0, 255⟩, ⟨1, 9, 0⟩, ⟨1, 26, 0⟩])]

/-- `%PDF-1.4 LF <obj 1> LF <xref stream 2> LF startxref LF 26 LF %%EOF LF` -/
def exXFile : XrefStreamFile where
  garbage := []
  hdrRest := [49, 46, 52, 10]
  body1 := [⟨exObj1.piece, [10]⟩]
  xs := exXs
  xpost := [10]
  body2 := []
  gap := []
  wsx := [10]
  ds := [50, 54]
  e := [10]
  trail := [10]

/-- the file is `docXrefStream` byte for byte -/
example : exXFile.bytes = docXrefStream := by decide +kernel

theorem exXFile_wf : exXFile.WF exXSubs 1 1 1 (1, 0) where
  noMagic := by intro k hk; simp [exXFile] at hk
  xsOK := exXs_ok
  xsLen := rfl
  dict := {
    type := rfl
    size := ⟨3, rfl, Or.inr ⟨rfl, _, rfl, rfl⟩⟩
    hw := rfl
    hw0 := by decide
    hw1 := by decide
    hw1pos := by decide
    hw2 := by decide }
  root := rfl
  noPrev := rfl
  fits := by decide
  lim := by decide
  numsNodup := by decide +kernel
  wsx := WsRun.ws 10 [] (by decide) WsRun.nil
  wsxNe := by simp [exXFile]
  wsxNoS := by decide
  dsNe := by simp [exXFile]
  dsDig := by decide
  startxref := by decide
  ofsFits := by decide
  e := by decide
  trail := noLaterEOF_of_no_percent _ (by decide)
  stored := Stored.plain [] rfl
  reads1 := by
    intro q hq
    simp only [exXFile, List.mem_cons, List.mem_nil_iff, or_false] at hq
    subst hq
    exact exObj1.piece_reads exObj1_ok
  reads2 := by intro q hq; simp [exXFile] at hq
  idsNodup := by decide
  tableObjs := ⟨exXFile.objs, List.Perm.refl _, by decide +kernel⟩

example : ∃ L : Loaded, parseData docXrefStream = .ok L ∧ L.root = (1, 0) ∧
    ObjStm.defsGet (1, 0) L.defs = some (.int 7) ∧
    ObjStm.defsGet (2, 0) L.defs = some (.stream (dictOf exXEnts) ⟨90, 9, [0, 0, 255, 1, 9, 0, 1, 26, 0]⟩) ∧
    ObjStm.defsGet (3, 0) L.defs = none := by
  obtain ⟨L, h1, h2, h3, h4⟩ := load_defines_exactly_xrefstream exXFile _ _ _ _ _ exXFile_wf
  have hb : exXFile.bytes = docXrefStream := by decide +kernel
  have hobjs : exXFile.objs = [(exObj1.piece, 9), (exXs.piece, 26)] := by rfl
  rw [hb] at h1
  refine ⟨L, h1, h2, ?_, ?_, ?_⟩
  · exact h3 (exObj1.piece, 9) (by rw [hobjs]; simp)
  · exact h3 (exXs.piece, 26) (by rw [hobjs]; simp)
  · apply h4
    rw [hobjs]
    decide


/-! ### the two filtered ways of storing the same rows (`Stored.flate`, `Stored.flatePred`) are satisfiable too -/

/-- the rows of `exXSubs` under `/Filter /FlateDecode`, in two stored blocks, a stray LF after the zlib stream -/
example :
    let kvs : List (Bytes × Obj) := [(Xref.kFilter, .name Filters.nFlate), (bL, .int 20)]
    Stored kvs (XrefStreamFile.rowBytes exXSubs 1 1 1)
      (FiltersSpec.zlibStored [[0, 0, 255, 1], [9, 0, 1, 26, 0]] ++ [10]) ∧
    ∃ fs extra, Xref.streamFilters (toXDict kvs) = some fs ∧
      Xref.applyFilters (xrefXf kvs) fs (FiltersSpec.zlibStored [[0, 0, 255, 1], [9, 0, 1, 26, 0]] ++ [10]) 0 =
        .ok ([0, 0, 255, 1, 9, 0, 1, 26, 0] ++ extra, 0) := by
  intro kvs
  have h : Stored kvs (XrefStreamFile.rowBytes exXSubs 1 1 1)
      (FiltersSpec.zlibStored [[0, 0, 255, 1], [9, 0, 1, 26, 0]] ++ [10]) :=
    Stored.flate [[0, 0, 255, 1], [9, 0, 1, 26, 0]] [10] [] rfl rfl (by decide) (by decide)
  exact ⟨h, stored_decodes _ _ _ h⟩

/-- the same rows under FlateDecode with the PNG Up predictor (/Predictor 12, /Columns 3) -/
example :
    let P : List (Bytes × Obj) := [(kColumns, .int 3), (kPredictor, .int 12)]
    let kvs : List (Bytes × Obj) := [(Xref.kDecodeParms, .dict P), (Xref.kFilter, .name Filters.nFlate)]
    let img : List Bytes := [[0, 0, 255], [1, 9, 0], [1, 26, 0]]
    Stored kvs (XrefStreamFile.rowBytes exXSubs 1 1 1)
      (FiltersSpec.zlibStored [PredSpec.predict ⟨12, 1, 3, 8⟩ img] ++ []) ∧
    PredSpec.predict ⟨12, 1, 3, 8⟩ img = [2, 0, 0, 255, 2, 1, 9, 1, 2, 0, 17, 0] := by
  intro P kvs img
  refine ⟨Stored.flatePred P ⟨12, 1, 3, 8⟩ img [PredSpec.predict ⟨12, 1, 3, 8⟩ img] [] rfl rfl rfl rfl
    (Or.inr ⟨rfl, rfl⟩) (Or.inr ⟨rfl, rfl⟩) (by decide) (by decide) (by decide) (by decide) (by decide) (by decide)
    (by decide) (by simp) (by decide), by decide⟩

end Parsley.C03
