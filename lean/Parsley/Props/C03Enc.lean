/-
  C03 / C04 - the `encrypted` flag of the loader (PDFObjContext::set_encrypted / is_encrypted).

  What the code does with an `/Encrypt` entry, as theorems about the faithful model `Parsley.Loader`:

    section_raises_flag          a classic (or hybrid) section whose trailer dictionary has /Encrypt leaves the flag up
                                 (`parse_xref_section`, pdf_traverse_xref.rs:279) - whatever else the section does
    flag_stays_up                the flag is never lowered: parseXrefStream, parseXrefSection, the whole /Prev loop
    stream_refused_when_flagged  while the flag is up NO cross-reference stream contributes anything: parse_xref_stream
                                 yields no section (or - when the object there is not a stream at all - the empty one)
    hybrid_refused_when_declared a hybrid section whose own trailer declares: its /XRefStm stream is read AFTER the
                                 trailer, so the section is refused (`exit`) unless the object there is no stream
    loop_adds_nothing_when_flagged  the /Prev loop arriving at a non-table section with the flag up adds no entry
    objstm_skipped_when_flagged  with the flag up `parse_objects` defines exactly what its two file-level passes
                                 define: no object stream is decoded, no member is defined
  and the ORDER DEPENDENCE as kernel-evaluated runs of the whole model on concrete files (the same files run through
  the real code in corpus/C03/encrypted.case, corpus/C04/encrypted.case):
    refused_*                    declared in the newest trailer above a stream section / in a hybrid's own trailer
    encrypt_in_stream_dict_ignored_observation   OBSERVATION about the code (not a defect against C03 / C04, which do not
                                 mention encryption): /Encrypt in a cross-reference stream's dictionary is never
                                 consulted - the document loads to exactly its objects, the object stream decoded
    encrypt_declared_below_streams_witness   KNOWN FINDING: /Encrypt in a trailer OLDER than the stream section is seen
                                 after that stream was accepted; the load succeeds, the object stream is skipped
                                 silently and its member stays undefined
-/
import Parsley.Props.C03
import Parsley.Spec.DocEnc   -- the encoder / rule theorems listed for C03 and C04 live there
namespace Parsley.C03
open Parsley Parsley.Obj Parsley.Indirect Parsley.Loader

/-! ## the flag is raised by a trailer and never lowered -/

theorem parseXrefStream_flag (st : St) (s : Bytes) (i : Nat) : (parseXrefStream st s i).2.2.enc = st.enc := by
  unfold parseXrefStream
  split
  · rfl
  · rfl
  · dsimp only
    split
    · split
      · rfl
      · split <;> rfl
    · rfl

/-- **stream_refused_when_flagged**: with the flag up, `parse_xref_stream` never returns entries, a root or a /Prev -/
theorem stream_refused_when_flagged (st : St) (s : Bytes) (i : Nat) (h : st.enc = true) :
    (∃ c st', parseXrefStream st s i = (.ok none, c, st')) ∨
    (∃ c st', parseXrefStream st s i = (.ok (some ([], none, none)), c, st')) ∨
    (∃ p c st', parseXrefStream st s i = (.panic p, c, st')) := by
  unfold parseXrefStream
  split
  · exact .inl ⟨_, _, rfl⟩
  · exact .inr (.inr ⟨_, _, _, rfl⟩)
  · dsimp only
    split
    · split
      · exact .inl ⟨_, _, rfl⟩
      · rename_i kvs sc _ _
        have hx : ∀ d xf v, (∃ k c, Xref.xrefStreamP true d xf v 0 = (.err k, c)) ∨ (∃ p c, Xref.xrefStreamP true d xf v 0 = (.panic p, c)) := by
          intro d xf v
          unfold Xref.xrefStreamP
          split
          · exact .inl ⟨_, _, rfl⟩
          · exact .inr ⟨_, _, rfl⟩
          · simp
        rw [h]
        rcases hx (toXDict kvs) (xrefXf kvs) ((s.drop sc.start).take sc.size) with ⟨k, c, e⟩ | ⟨p, c, e⟩
        · rw [e]; exact .inl ⟨_, _, rfl⟩
        · rw [e]; exact .inr (.inr ⟨_, _, _, rfl⟩)
    · exact .inr (.inl ⟨_, _, rfl⟩)

/-- the flag after a section is at least the flag before -/
theorem parseXrefSection_flag_mono (st : St) (s : Bytes) (i : Nat) (h : st.enc = true) :
    (parseXrefSection st s i).2.2.enc = true := by
  unfold parseXrefSection
  split
  · exact h
  · rw [parseXrefStream_flag]; exact h
  · dsimp only
    split
    · exact h
    · split
      · exact h
      · exact h
      · split
        · simp [h]
        · split
          · simp [h]
          · have := parseXrefStream_flag { ctx := ‹Ctx›, enc := st.enc || (dictGet kEncrypt ‹_›).isSome } s ‹Nat›
            split <;> simp_all

/-- **section_raises_flag**: a table whose trailer dictionary `d` has an /Encrypt entry leaves the flag up, whatever
    the flag was and whether or not the section goes on to an /XRefStm stream -/
theorem section_raises_flag (st : St) (s : Bytes) (i : Nat) (xrs : Located (List (Located Xref.SubSect))) (c k c1 : Nat)
    (d : List (Bytes × Obj)) (ctx1 : Ctx)
    (hx : Xref.xrefSectP s i = (.ok xrs, c)) (hs : scanFwd kwTrailer (s.drop c) = some k)
    (ht : trailerP st.ctx s (c + k) = ((.ok d, c1), ctx1)) (he : (dictGet kEncrypt d).isSome = true) :
    (parseXrefSection st s i).2.2.enc = true := by
  unfold parseXrefSection
  simp only [hx, hs, ht, he, Bool.or_true]
  split
  · rfl
  · split
    · rfl
    · have := parseXrefStream_flag { ctx := ctx1, enc := true } s ‹Nat›
      split <;> simp_all

/-- **hybrid_refused_when_declared**: the trailer of a hybrid section declares and its /XRefStm offset is in range:
    the section is refused (or a panic site is reached), except when the object at the offset is not a stream at all -
    then the section consists of the table's entries alone.  In no case does the stream contribute an entry. -/
theorem hybrid_refused_when_declared (st : St) (s : Bytes) (i : Nat) (xrs : Located (List (Located Xref.SubSect))) (c k c1 x : Nat)
    (d : List (Bytes × Obj)) (ctx1 : Ctx)
    (hx : Xref.xrefSectP s i = (.ok xrs, c)) (hs : scanFwd kwTrailer (s.drop c) = some k)
    (ht : trailerP st.ctx s (c + k) = ((.ok d, c1), ctx1)) (he : (dictGet kEncrypt d).isSome = true)
    (hm : ObjStm.getUsize d kXRefStm = some x) :
    (∃ c2 st2, parseXrefSection st s i = (.reject, c2, st2)) ∨
    (∃ p c2 st2, parseXrefSection st s i = (.panic p, c2, st2)) ∨
    (∃ c2 st2, parseXrefSection st s i =
      (.ok (some (Xref.sectEnts xrs.val ++ [], dictGet kRoot d, ObjStm.getUsize d kPrev)), c2, st2)) := by
  unfold parseXrefSection
  simp only [hx, hs, ht, he, hm, Bool.or_true]
  split
  · exact .inl ⟨_, _, rfl⟩
  · rcases stream_refused_when_flagged { ctx := ctx1, enc := true } s x rfl with ⟨c2, st2, e⟩ | ⟨c2, st2, e⟩ | ⟨p, c2, st2, e⟩
    · rw [e]; exact .inl ⟨_, _, rfl⟩
    · rw [e]; exact .inr (.inr ⟨_, _, rfl⟩)
    · rw [e]; exact .inr (.inl ⟨_, _, _, rfl⟩)

/-- **loop_adds_nothing_when_flagged**: the /Prev loop arrives, flag up, at an offset where no table is written
    (a cross-reference stream, as far as a well-formed file goes): whatever is there, no entry of it is used - the walk
    is refused, or (the object there is not a stream) ends with exactly the entries and the root it had. -/
theorem loop_adds_nothing_when_flagged (f : Nat) (st : St) (s : Bytes) (next : Nat) (cs : List Nat) (ids : List (Nat × Nat))
    (xrefs : List Xref.Ent) (root : Option Obj) (h : st.enc = true) (k : ErrK) (c : Nat)
    (hx : Xref.xrefSectP s next = (.err k, c))
    (xs : List Xref.Ent) (r : Obj) (st' : St)
    (hl : xrefLoop (f + 1) st s next cs ids xrefs root = (.ok (xs, r), st')) :
    xs = xrefs ∧ root = some r := by
  unfold xrefLoop at hl
  split at hl
  · cases hl
  · split at hl
    · cases hl
    · have hsec : parseXrefSection st s next = parseXrefStream st s next := by
        unfold parseXrefSection; rw [hx]
      rw [hsec] at hl
      rcases stream_refused_when_flagged st s next h with ⟨c2, st2, e⟩ | ⟨c2, st2, e⟩ | ⟨p, c2, st2, e⟩
      · -- the first try gives nothing: the second try runs with the same flag
        have h2 : st2.enc = true := by have := parseXrefStream_flag st s next; rw [e] at this; simpa [h] using this
        rw [e] at hl; dsimp only at hl
        rcases stream_refused_when_flagged st2 s c2 h2 with ⟨c3, st3, e'⟩ | ⟨c3, st3, e'⟩ | ⟨p, c3, st3, e'⟩
        · rw [e'] at hl; cases hl
        · rw [e'] at hl; dsimp only at hl
          cases root with
          | none => cases hl
          | some r0 => simp [addEnts] at hl; exact ⟨hl.1.1.symm, by rw [hl.1.2]⟩
        · rw [e'] at hl; cases hl
      · rw [e] at hl; dsimp only at hl
        cases root with
        | none => cases hl
        | some r0 => simp [addEnts] at hl; exact ⟨hl.1.1.symm, by rw [hl.1.2]⟩
      · rw [e] at hl; cases hl

/-! ## object streams with the flag up -/

theorem objStmParse_flagged (dec : ObjStm.Decoder) (vb : Nat) (ctx : ObjStm.Ctx) (dict : ObjStm.Dict) (view : Bytes) (cur : Nat)
    (h : ctx.encrypted = true) : (ObjStm.objStmParse dec vb ctx dict view cur).2 = ctx := by
  unfold ObjStm.objStmParse
  split
  · rfl
  · rfl
  · split
    · rfl
    · rfl
    · simp [h]

theorem objStmPass_flagged (hofs : Nat) (s : Bytes) (l : List (ObjId × List (Bytes × Obj) × Prim.StreamContent)) (oc : ObjStm.Ctx)
    (h : oc.encrypted = true) : (objStmPass hofs s l oc).2 = oc := by
  induction l with
  | nil => rfl
  | cons x t ih =>
    obtain ⟨id, kvs, sc⟩ := x
    unfold objStmPass
    split
    · exact ih
    · have := objStmParse_flagged objDec (hofs + sc.start) oc kvs ((s.drop sc.start).take sc.size) 0 h
      generalize ObjStm.objStmParse objDec (hofs + sc.start) oc kvs ((s.drop sc.start).take sc.size) 0 = res at this ⊢
      obtain ⟨o, oc'⟩ := res
      simp only at this
      subst this
      cases o with
      | ok v => exact ih
      | err k => exact ih
      | panic p => rfl

/-- **objstm_skipped_when_flagged**: with the flag up the final definitions are exactly those left by the two
    file-level passes - every object stream is skipped, no member is defined -/
theorem objstm_skipped_when_flagged (hofs : Nat) (st : St) (infos : List ObjInfo) (s : Bytes) (defs : ObjStm.Defs)
    (h : st.enc = true) (hl : parseObjects hofs st infos s = .ok defs) :
    ∃ os sp c1 c2, firstPass infos st.ctx s [] [] = (.ok (os, sp), c1) ∧ secondPass sp c1 s = (.ok (), c2) ∧
      defs = valDefs c2.defs := by
  unfold parseObjects at hl
  split at hl
  · cases hl
  · cases hl
  · rename_i os sp c1 e1
    split at hl
    · cases hl
    · cases hl
    · rename_i c2 e2
      refine ⟨os, sp, c1, c2, e1, e2, ?_⟩
      have := objStmPass_flagged hofs s (definedStreams os c2.defs) ⟨valDefs c2.defs, ⟨c2.cur, c2.max⟩, st.enc⟩ h
      dsimp only at hl
      split at hl
      · cases hl
      · cases hl
      · rename_i oc' e3
        rw [e3] at this
        simp at this
        cases hl
        rw [this]

/-! ## the order dependence on concrete files (kernel-evaluated runs of the whole model; tests and witnesses) -/

/-- classic table whose trailer declares `/Encrypt<</V 1/R 2>>`: nothing needs decoding -/
def encClassic : Bytes := [
  37, 80, 68, 70, 45, 49, 46, 53, 10, 49, 32, 48, 32, 111, 98, 106, 32, 55, 32, 101, 110, 100, 111, 98, 106, 10, 120, 114, 101, 102, 10, 48, 32, 50, 10, 48, 48, 48, 48, 48,
  48, 48, 48, 48, 48, 32, 54, 53, 53, 51, 53, 32, 102, 32, 10, 48, 48, 48, 48, 48, 48, 48, 48, 48, 57, 32, 48, 48, 48, 48, 48, 32, 110, 32, 10, 116, 114, 97, 105, 108,
  101, 114, 60, 60, 47, 83, 105, 122, 101, 32, 50, 47, 82, 111, 111, 116, 32, 49, 32, 48, 32, 82, 47, 69, 110, 99, 114, 121, 112, 116, 60, 60, 47, 86, 32, 49, 47, 82, 32, 50,
  62, 62, 62, 62, 10, 115, 116, 97, 114, 116, 120, 114, 101, 102, 10, 50, 54, 10, 37, 37, 69, 79, 70, 10]
/-- hybrid file (object 2 = member of object stream 3, listed by the /XRefStm stream 4) whose TRAILER declares `/Encrypt 9 0 R` -/
def encHybridTrailer : Bytes := [
  37, 80, 68, 70, 45, 49, 46, 53, 10, 49, 32, 48, 32, 111, 98, 106, 32, 55, 32, 101, 110, 100, 111, 98, 106, 10, 51, 32, 48, 32, 111, 98, 106, 60, 60, 47, 84, 121, 112, 101,
  47, 79, 98, 106, 83, 116, 109, 47, 78, 32, 49, 47, 70, 105, 114, 115, 116, 32, 52, 47, 76, 101, 110, 103, 116, 104, 32, 54, 62, 62, 115, 116, 114, 101, 97, 109, 10, 50, 32, 48,
  32, 50, 50, 10, 101, 110, 100, 115, 116, 114, 101, 97, 109, 32, 101, 110, 100, 111, 98, 106, 10, 52, 32, 48, 32, 111, 98, 106, 60, 60, 47, 84, 121, 112, 101, 47, 88, 82, 101, 102,
  47, 83, 105, 122, 101, 32, 53, 47, 87, 91, 49, 32, 49, 32, 49, 93, 47, 73, 110, 100, 101, 120, 91, 50, 32, 49, 93, 47, 76, 101, 110, 103, 116, 104, 32, 51, 62, 62, 115, 116,
  114, 101, 97, 109, 10, 2, 3, 0, 10, 101, 110, 100, 115, 116, 114, 101, 97, 109, 32, 101, 110, 100, 111, 98, 106, 10, 120, 114, 101, 102, 10, 48, 32, 53, 10, 48, 48, 48, 48, 48,
  48, 48, 48, 48, 48, 32, 54, 53, 53, 51, 53, 32, 102, 32, 10, 48, 48, 48, 48, 48, 48, 48, 48, 48, 57, 32, 48, 48, 48, 48, 48, 32, 110, 32, 10, 48, 48, 48, 48, 48,
  48, 48, 48, 48, 48, 32, 54, 53, 53, 51, 53, 32, 102, 32, 10, 48, 48, 48, 48, 48, 48, 48, 48, 50, 54, 32, 48, 48, 48, 48, 48, 32, 110, 32, 10, 48, 48, 48, 48, 48,
  48, 48, 49, 48, 49, 32, 48, 48, 48, 48, 48, 32, 110, 32, 10, 116, 114, 97, 105, 108, 101, 114, 60, 60, 47, 83, 105, 122, 101, 32, 53, 47, 82, 111, 111, 116, 32, 49, 32, 48,
  32, 82, 47, 88, 82, 101, 102, 83, 116, 109, 32, 49, 48, 49, 47, 69, 110, 99, 114, 121, 112, 116, 32, 57, 32, 48, 32, 82, 62, 62, 10, 115, 116, 97, 114, 116, 120, 114, 101, 102,
  10, 49, 56, 54, 10, 37, 37, 69, 79, 70, 10]
/-- the same hybrid file with the declaration in the /XRefStm stream's dictionary instead -/
def encHybridStream : Bytes := [
  37, 80, 68, 70, 45, 49, 46, 53, 10, 49, 32, 48, 32, 111, 98, 106, 32, 55, 32, 101, 110, 100, 111, 98, 106, 10, 51, 32, 48, 32, 111, 98, 106, 60, 60, 47, 84, 121, 112, 101,
  47, 79, 98, 106, 83, 116, 109, 47, 78, 32, 49, 47, 70, 105, 114, 115, 116, 32, 52, 47, 76, 101, 110, 103, 116, 104, 32, 54, 62, 62, 115, 116, 114, 101, 97, 109, 10, 50, 32, 48,
  32, 50, 50, 10, 101, 110, 100, 115, 116, 114, 101, 97, 109, 32, 101, 110, 100, 111, 98, 106, 10, 52, 32, 48, 32, 111, 98, 106, 60, 60, 47, 84, 121, 112, 101, 47, 88, 82, 101, 102,
  47, 83, 105, 122, 101, 32, 53, 47, 87, 91, 49, 32, 49, 32, 49, 93, 47, 73, 110, 100, 101, 120, 91, 50, 32, 49, 93, 47, 69, 110, 99, 114, 121, 112, 116, 32, 57, 32, 48, 32,
  82, 47, 76, 101, 110, 103, 116, 104, 32, 51, 62, 62, 115, 116, 114, 101, 97, 109, 10, 2, 3, 0, 10, 101, 110, 100, 115, 116, 114, 101, 97, 109, 32, 101, 110, 100, 111, 98, 106, 10,
  120, 114, 101, 102, 10, 48, 32, 53, 10, 48, 48, 48, 48, 48, 48, 48, 48, 48, 48, 32, 54, 53, 53, 51, 53, 32, 102, 32, 10, 48, 48, 48, 48, 48, 48, 48, 48, 48, 57, 32,
  48, 48, 48, 48, 48, 32, 110, 32, 10, 48, 48, 48, 48, 48, 48, 48, 48, 48, 48, 32, 54, 53, 53, 51, 53, 32, 102, 32, 10, 48, 48, 48, 48, 48, 48, 48, 48, 50, 54, 32,
  48, 48, 48, 48, 48, 32, 110, 32, 10, 48, 48, 48, 48, 48, 48, 48, 49, 48, 49, 32, 48, 48, 48, 48, 48, 32, 110, 32, 10, 116, 114, 97, 105, 108, 101, 114, 60, 60, 47, 83,
  105, 122, 101, 32, 53, 47, 82, 111, 111, 116, 32, 49, 32, 48, 32, 82, 47, 88, 82, 101, 102, 83, 116, 109, 32, 49, 48, 49, 62, 62, 10, 115, 116, 97, 114, 116, 120, 114, 101, 102,
  10, 50, 48, 48, 10, 37, 37, 69, 79, 70, 10]
/-- base revision = cross-reference stream 4 + object stream 3 (member 2); update = object 5, classic table, trailer with /Prev and `/Encrypt<</V 1/R 2>>` -/
def encAboveStream : Bytes := [
  37, 80, 68, 70, 45, 49, 46, 53, 10, 49, 32, 48, 32, 111, 98, 106, 32, 55, 32, 101, 110, 100, 111, 98, 106, 10, 51, 32, 48, 32, 111, 98, 106, 60, 60, 47, 84, 121, 112, 101,
  47, 79, 98, 106, 83, 116, 109, 47, 78, 32, 49, 47, 70, 105, 114, 115, 116, 32, 52, 47, 76, 101, 110, 103, 116, 104, 32, 54, 62, 62, 115, 116, 114, 101, 97, 109, 10, 50, 32, 48,
  32, 50, 50, 10, 101, 110, 100, 115, 116, 114, 101, 97, 109, 32, 101, 110, 100, 111, 98, 106, 10, 52, 32, 48, 32, 111, 98, 106, 60, 60, 47, 84, 121, 112, 101, 47, 88, 82, 101, 102,
  47, 83, 105, 122, 101, 32, 53, 47, 87, 91, 49, 32, 49, 32, 49, 93, 47, 82, 111, 111, 116, 32, 49, 32, 48, 32, 82, 47, 76, 101, 110, 103, 116, 104, 32, 49, 53, 62, 62, 115,
  116, 114, 101, 97, 109, 10, 0, 0, 0, 1, 9, 0, 2, 3, 0, 1, 26, 0, 1, 101, 0, 10, 101, 110, 100, 115, 116, 114, 101, 97, 109, 32, 101, 110, 100, 111, 98, 106, 10, 115,
  116, 97, 114, 116, 120, 114, 101, 102, 10, 49, 48, 49, 10, 37, 37, 69, 79, 70, 10, 53, 32, 48, 32, 111, 98, 106, 32, 56, 32, 101, 110, 100, 111, 98, 106, 10, 120, 114, 101, 102,
  10, 53, 32, 49, 10, 48, 48, 48, 48, 48, 48, 48, 50, 49, 57, 32, 48, 48, 48, 48, 48, 32, 110, 32, 10, 116, 114, 97, 105, 108, 101, 114, 60, 60, 47, 83, 105, 122, 101, 32,
  54, 47, 82, 111, 111, 116, 32, 49, 32, 48, 32, 82, 47, 80, 114, 101, 118, 32, 49, 48, 49, 47, 69, 110, 99, 114, 121, 112, 116, 60, 60, 47, 86, 32, 49, 47, 82, 32, 50, 62,
  62, 62, 62, 10, 115, 116, 97, 114, 116, 120, 114, 101, 102, 10, 50, 51, 54, 10, 37, 37, 69, 79, 70, 10]
/-- one revision: object 1, object stream 3 (member 2 = 22), cross-reference stream 4 whose dictionary has `/Encrypt 9 0 R` -/
def encStreamDict : Bytes := [
  37, 80, 68, 70, 45, 49, 46, 53, 10, 49, 32, 48, 32, 111, 98, 106, 32, 55, 32, 101, 110, 100, 111, 98, 106, 10, 51, 32, 48, 32, 111, 98, 106, 60, 60, 47, 84, 121, 112, 101,
  47, 79, 98, 106, 83, 116, 109, 47, 78, 32, 49, 47, 70, 105, 114, 115, 116, 32, 52, 47, 76, 101, 110, 103, 116, 104, 32, 54, 62, 62, 115, 116, 114, 101, 97, 109, 10, 50, 32, 48,
  32, 50, 50, 10, 101, 110, 100, 115, 116, 114, 101, 97, 109, 32, 101, 110, 100, 111, 98, 106, 10, 52, 32, 48, 32, 111, 98, 106, 60, 60, 47, 84, 121, 112, 101, 47, 88, 82, 101, 102,
  47, 83, 105, 122, 101, 32, 53, 47, 87, 91, 49, 32, 49, 32, 49, 93, 47, 82, 111, 111, 116, 32, 49, 32, 48, 32, 82, 47, 69, 110, 99, 114, 121, 112, 116, 32, 57, 32, 48, 32,
  82, 47, 76, 101, 110, 103, 116, 104, 32, 49, 53, 62, 62, 115, 116, 114, 101, 97, 109, 10, 0, 0, 0, 1, 9, 0, 2, 3, 0, 1, 26, 0, 1, 101, 0, 10, 101, 110, 100, 115,
  116, 114, 101, 97, 109, 32, 101, 110, 100, 111, 98, 106, 10, 115, 116, 97, 114, 116, 120, 114, 101, 102, 10, 49, 48, 49, 10, 37, 37, 69, 79, 70, 10]
/-- base revision = object 1, classic table, trailer with `/Encrypt 9 0 R`; update = object stream 3 (member 2), cross-reference stream 4 with /Prev -/
def encBelowStream : Bytes := [
  37, 80, 68, 70, 45, 49, 46, 53, 10, 49, 32, 48, 32, 111, 98, 106, 32, 55, 32, 101, 110, 100, 111, 98, 106, 10, 120, 114, 101, 102, 10, 48, 32, 50, 10, 48, 48, 48, 48, 48,
  48, 48, 48, 48, 48, 32, 54, 53, 53, 51, 53, 32, 102, 32, 10, 48, 48, 48, 48, 48, 48, 48, 48, 48, 57, 32, 48, 48, 48, 48, 48, 32, 110, 32, 10, 116, 114, 97, 105, 108,
  101, 114, 60, 60, 47, 83, 105, 122, 101, 32, 50, 47, 82, 111, 111, 116, 32, 49, 32, 48, 32, 82, 47, 69, 110, 99, 114, 121, 112, 116, 32, 57, 32, 48, 32, 82, 62, 62, 10, 115,
  116, 97, 114, 116, 120, 114, 101, 102, 10, 50, 54, 10, 37, 37, 69, 79, 70, 10, 51, 32, 48, 32, 111, 98, 106, 60, 60, 47, 84, 121, 112, 101, 47, 79, 98, 106, 83, 116, 109, 47,
  78, 32, 49, 47, 70, 105, 114, 115, 116, 32, 52, 47, 76, 101, 110, 103, 116, 104, 32, 54, 62, 62, 115, 116, 114, 101, 97, 109, 10, 50, 32, 48, 32, 50, 50, 10, 101, 110, 100, 115,
  116, 114, 101, 97, 109, 32, 101, 110, 100, 111, 98, 106, 10, 52, 32, 48, 32, 111, 98, 106, 60, 60, 47, 84, 121, 112, 101, 47, 88, 82, 101, 102, 47, 83, 105, 122, 101, 32, 53, 47,
  87, 91, 49, 32, 49, 32, 49, 93, 47, 73, 110, 100, 101, 120, 91, 50, 32, 51, 93, 47, 82, 111, 111, 116, 32, 49, 32, 48, 32, 82, 47, 80, 114, 101, 118, 32, 50, 54, 47, 76,
  101, 110, 103, 116, 104, 32, 57, 62, 62, 115, 116, 114, 101, 97, 109, 10, 2, 3, 0, 1, 138, 0, 1, 213, 0, 10, 101, 110, 100, 115, 116, 114, 101, 97, 109, 32, 101, 110, 100, 111,
  98, 106, 10, 115, 116, 97, 114, 116, 120, 114, 101, 102, 10, 50, 49, 51, 10, 37, 37, 69, 79, 70, 10]

/-- test: declared, classic table only: loads exactly -/
theorem loads_classic_declared : isIntVal (lookupDef (parseData encClassic) (1, 0)) 7 = true ∧ nDefs (parseData encClassic) = 1 ∧
    rootIs (parseData encClassic) (1, 0) = true := by decide +kernel

/-- test: a hybrid section's own trailer declares: refused (the trailer is read before the /XRefStm stream) -/
theorem refused_hybrid_declared : isRejected (parseData encHybridTrailer) = true := by decide +kernel

/-- test: the NEWEST trailer declares, the older section is a cross-reference stream: refused -/
theorem refused_declared_above_stream : isRejected (parseData encAboveStream) = true := by decide +kernel

/-- **Observation about the code (not a finding).**  `/Encrypt` in the dictionary of a cross-reference stream is never
    consulted (only `parse_xref_section` looks, and only at trailer dictionaries): the document is accepted, the flag stays
    down and the object stream is decoded - member 2 is defined (4 definitions), i.e. the load defines exactly the
    document's objects, which is what C03 demands.  The same holds for the /XRefStm stream of a hybrid file. -/
theorem encrypt_in_stream_dict_ignored_observation :
    isIntVal (lookupDef (parseData encStreamDict) (2, 0)) 22 = true ∧ nDefs (parseData encStreamDict) = 4 ∧
    isIntVal (lookupDef (parseData encHybridStream) (2, 0)) 22 = true ∧ nDefs (parseData encHybridStream) = 4 := by
  decide +kernel

/-- **Known finding C04-encrypt-declared-below-streams.**  The base revision's trailer declares, the update is a
    cross-reference stream with an object stream: sections are read newest first, so the stream is accepted before the
    declaration is seen; the load SUCCEEDS (objects 1, 3, 4), the object stream is then skipped silently and its member 2
    stays undefined - neither a refusal nor the document's objects.  (The mirror image `refused_declared_above_stream`
    is refused.) -/
theorem encrypt_declared_below_streams_witness :
    isRejected (parseData encBelowStream) = false ∧ (lookupDef (parseData encBelowStream) (2, 0)).isNone = true ∧
    nDefs (parseData encBelowStream) = 3 ∧ isIntVal (lookupDef (parseData encBelowStream) (1, 0)) 7 = true := by
  decide +kernel

end Parsley.C03
