/-
  C03 - known finding `length-holder-in-objstm` (found by the `lenc` / `lenh` generator families, follow-up C03_6).

  ISO 32000-1 7.5.7 forbids storing "an object representing the value of the Length entry in an OBJECT STREAM
  dictionary" in an object stream; the length of any OTHER stream may live there, and C03's statement quantifies over
  "objects stored directly or inside object streams" and "stream lengths given directly or through (forward) references".
  `parse_objects` (src/pdf_lib/pdf_traverse_xref.rs) opens the object streams only after BOTH passes over the file-level
  objects, and the second pass exits on a stream whose length is still unknown: such a well-formed document is REFUSED.
  The theorems evaluate the faithful model on concrete files (the real code gives the same outputs: corpus/C03/
  length_holder_in_objstm.case); the two controls show that the file is refused for this reason and no other.
  Leaf module: nothing imports it.
-/
import Parsley.Props.C03
namespace Parsley.C03
open Parsley Parsley.Loader

/-- object 5, the length of stream 4 (`/Length 5 0 R`), is member 1 of object stream 3 (285 bytes; `|` = LF, `.` = a row byte):
    `%PDF-1.5|1 0 obj 7 endobj|3 0 obj<</Type/ObjStm/N 2/First 8/Length 13>>stream|2 0 5 3 22 3 |endstream endobj|4 0 obj<</Length 5 0 R>>stream|abc|endstream endobj|6 0 obj<</Type/XRef/Size 7/W[1 1 1]/Root 1 0 R/Length 21>>stream|.............m.......|endstream endobj|startxref|161|%%EOF|` -/
def lenInStm : Bytes := [
  37, 80, 68, 70, 45, 49, 46, 53, 10, 49, 32, 48, 32, 111, 98, 106, 32, 55, 32, 101, 110, 100, 111, 98, 106, 10, 51, 32, 48, 32, 111, 98, 106, 60, 60, 47, 84,
  121, 112, 101, 47, 79, 98, 106, 83, 116, 109, 47, 78, 32, 50, 47, 70, 105, 114, 115, 116, 32, 56, 47, 76, 101, 110, 103, 116, 104, 32, 49, 51, 62, 62, 115, 116,
  114, 101, 97, 109, 10, 50, 32, 48, 32, 53, 32, 51, 32, 50, 50, 32, 51, 32, 10, 101, 110, 100, 115, 116, 114, 101, 97, 109, 32, 101, 110, 100, 111, 98, 106, 10,
  52, 32, 48, 32, 111, 98, 106, 60, 60, 47, 76, 101, 110, 103, 116, 104, 32, 53, 32, 48, 32, 82, 62, 62, 115, 116, 114, 101, 97, 109, 10, 97, 98, 99, 10, 101,
  110, 100, 115, 116, 114, 101, 97, 109, 32, 101, 110, 100, 111, 98, 106, 10, 54, 32, 48, 32, 111, 98, 106, 60, 60, 47, 84, 121, 112, 101, 47, 88, 82, 101, 102,
  47, 83, 105, 122, 101, 32, 55, 47, 87, 91, 49, 32, 49, 32, 49, 93, 47, 82, 111, 111, 116, 32, 49, 32, 48, 32, 82, 47, 76, 101, 110, 103, 116, 104, 32, 50, 49,
  62, 62, 115, 116, 114, 101, 97, 109, 10, 0, 0, 255, 1, 9, 0, 2, 3, 0, 1, 26, 0, 1, 109, 0, 2, 3, 1, 1, 161, 0, 10, 101, 110, 100, 115, 116, 114, 101, 97, 109,
  32, 101, 110, 100, 111, 98, 106, 10, 115, 116, 97, 114, 116, 120, 114, 101, 102, 10, 49, 54, 49, 10, 37, 37, 69, 79, 70, 10]

/-- control 1: the same document with object 5 written as a file-level object (295 bytes; `|` = LF, `.` = a row byte):
    `%PDF-1.5|1 0 obj 7 endobj|3 0 obj<</Type/ObjStm/N 1/First 4/Length 7>>stream|2 0 22 |endstream endobj|4 0 obj<</Length 5 0 R>>stream|abc|endstream endobj|5 0 obj 3 endobj|6 0 obj<</Type/XRef/Size 7/W[1 1 1]/Root 1 0 R/Length 21>>stream|.............f.......|endstream endobj|startxref|171|%%EOF|` -/
def lenInFile : Bytes := [
  37, 80, 68, 70, 45, 49, 46, 53, 10, 49, 32, 48, 32, 111, 98, 106, 32, 55, 32, 101, 110, 100, 111, 98, 106, 10, 51, 32, 48, 32, 111, 98, 106, 60, 60, 47, 84,
  121, 112, 101, 47, 79, 98, 106, 83, 116, 109, 47, 78, 32, 49, 47, 70, 105, 114, 115, 116, 32, 52, 47, 76, 101, 110, 103, 116, 104, 32, 55, 62, 62, 115, 116,
  114, 101, 97, 109, 10, 50, 32, 48, 32, 50, 50, 32, 10, 101, 110, 100, 115, 116, 114, 101, 97, 109, 32, 101, 110, 100, 111, 98, 106, 10, 52, 32, 48, 32, 111, 98,
  106, 60, 60, 47, 76, 101, 110, 103, 116, 104, 32, 53, 32, 48, 32, 82, 62, 62, 115, 116, 114, 101, 97, 109, 10, 97, 98, 99, 10, 101, 110, 100, 115, 116, 114,
  101, 97, 109, 32, 101, 110, 100, 111, 98, 106, 10, 53, 32, 48, 32, 111, 98, 106, 32, 51, 32, 101, 110, 100, 111, 98, 106, 10, 54, 32, 48, 32, 111, 98, 106, 60,
  60, 47, 84, 121, 112, 101, 47, 88, 82, 101, 102, 47, 83, 105, 122, 101, 32, 55, 47, 87, 91, 49, 32, 49, 32, 49, 93, 47, 82, 111, 111, 116, 32, 49, 32, 48, 32,
  82, 47, 76, 101, 110, 103, 116, 104, 32, 50, 49, 62, 62, 115, 116, 114, 101, 97, 109, 10, 0, 0, 255, 1, 9, 0, 2, 3, 0, 1, 26, 0, 1, 102, 0, 1, 154, 0, 1, 171,
  0, 10, 101, 110, 100, 115, 116, 114, 101, 97, 109, 32, 101, 110, 100, 111, 98, 106, 10, 115, 116, 97, 114, 116, 120, 114, 101, 102, 10, 49, 55, 49, 10, 37, 37,
  69, 79, 70, 10]

/-- control 2: object 5 still a member of object stream 3, stream 4 with a direct length (281 bytes; `|` = LF, `.` = a row byte):
    `%PDF-1.5|1 0 obj 7 endobj|3 0 obj<</Type/ObjStm/N 2/First 8/Length 13>>stream|2 0 5 3 22 3 |endstream endobj|4 0 obj<</Length 3>>stream|abc|endstream endobj|6 0 obj<</Type/XRef/Size 7/W[1 1 1]/Root 1 0 R/Length 21>>stream|.............m.......|endstream endobj|startxref|157|%%EOF|` -/
def lenInStmDirect : Bytes := [
  37, 80, 68, 70, 45, 49, 46, 53, 10, 49, 32, 48, 32, 111, 98, 106, 32, 55, 32, 101, 110, 100, 111, 98, 106, 10, 51, 32, 48, 32, 111, 98, 106, 60, 60, 47, 84,
  121, 112, 101, 47, 79, 98, 106, 83, 116, 109, 47, 78, 32, 50, 47, 70, 105, 114, 115, 116, 32, 56, 47, 76, 101, 110, 103, 116, 104, 32, 49, 51, 62, 62, 115, 116,
  114, 101, 97, 109, 10, 50, 32, 48, 32, 53, 32, 51, 32, 50, 50, 32, 51, 32, 10, 101, 110, 100, 115, 116, 114, 101, 97, 109, 32, 101, 110, 100, 111, 98, 106, 10,
  52, 32, 48, 32, 111, 98, 106, 60, 60, 47, 76, 101, 110, 103, 116, 104, 32, 51, 62, 62, 115, 116, 114, 101, 97, 109, 10, 97, 98, 99, 10, 101, 110, 100, 115, 116,
  114, 101, 97, 109, 32, 101, 110, 100, 111, 98, 106, 10, 54, 32, 48, 32, 111, 98, 106, 60, 60, 47, 84, 121, 112, 101, 47, 88, 82, 101, 102, 47, 83, 105, 122,
  101, 32, 55, 47, 87, 91, 49, 32, 49, 32, 49, 93, 47, 82, 111, 111, 116, 32, 49, 32, 48, 32, 82, 47, 76, 101, 110, 103, 116, 104, 32, 50, 49, 62, 62, 115, 116,
  114, 101, 97, 109, 10, 0, 0, 255, 1, 9, 0, 2, 3, 0, 1, 26, 0, 1, 109, 0, 2, 3, 1, 1, 157, 0, 10, 101, 110, 100, 115, 116, 114, 101, 97, 109, 32, 101, 110, 100,
  111, 98, 106, 10, 115, 116, 97, 114, 116, 120, 114, 101, 102, 10, 49, 53, 55, 10, 37, 37, 69, 79, 70, 10]

/-- **Known finding C03-length-holder-in-objstm.**  The document whose stream 4 takes its length from a member of an
    object stream is refused, although the same document with the holder at file level loads (6 objects, stream 4 with
    its 3 data bytes, object 5 = 3) and the object stream itself is readable (with a direct length everything loads, the
    member 5 included). -/
theorem length_holder_in_objstm_witness :
    isRejected (parseData lenInStm) = true ∧
    (nDefs (parseData lenInFile) = 6 ∧ isStreamOf (lookupDef (parseData lenInFile) (4, 0)) [97, 98, 99] = true ∧
      isIntVal (lookupDef (parseData lenInFile) (5, 0)) 3 = true ∧ isIntVal (lookupDef (parseData lenInFile) (2, 0)) 22 = true) ∧
    (nDefs (parseData lenInStmDirect) = 6 ∧ isStreamOf (lookupDef (parseData lenInStmDirect) (4, 0)) [97, 98, 99] = true ∧
      isIntVal (lookupDef (parseData lenInStmDirect) (5, 0)) 3 = true ∧ isIntVal (lookupDef (parseData lenInStmDirect) (2, 0)) 22 = true) := by
  decide +kernel

end Parsley.C03
