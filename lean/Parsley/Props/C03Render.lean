/-
  C03 - the generator's files are covered by the end-to-end theorem (follow-up C03c).
  Proofs: Lemmas/LoaderE2ERender.lean (objects, body, trailer, tail, composition), Lemmas/LoaderE2ERender2.lean (table).

    renderHistory_classic_wf_partial   the file written by the EXECUTABLE spec-side encoder `DocSpec.renderHistory`
                                       (the generator of the correspondence run) for one revision with a classic
                                       table is the byte string of a well-formed declarative layout
                                       (`ClassicFile`, `ClassicFile.WF`), and the objects of that layout are exactly
                                       (identifier, canonical value) what the revision says it wrote.
    render_classic_loads_partial       hence (with `load_defines_exactly_classic`): the loader model accepts the
                                       rendered file, reports the revision's root, binds every written identifier
                                       to its canonical value and defines nothing else.

  FULL statement (not proved): the same for every `Rev`.  Proved here (`_partial`; generalised by follow-up C03e - see
  Props/C03RenderDeep.lean): objects `Body.val (canon s) s` with `s` ANY value of the encoder's domain `wfDeep` (arrays
  and dictionaries of any nesting, entries in any order; `C02.spell_is_Spells`) and stream objects `Body.stm` with a direct
  /Length (`LoaderE2E.SimpleObj`; referenced /Length: Props/C03RenderFwd.lean), `lay.kind = 0`, no offset
  swap / relabelling (those produce ill-formed files on purpose).  Unrestricted: all choice streams, paddings
  (any white-space / comment run), `ofsAtPad`, subsection cuts, header widths, entry terminators, dictionary
  rotation, free entries, object 0, garbage, binary comment.  Size hypotheses: file shorter than 10^10 bytes,
  generations at most 65535, numbers below 2^63 - 1, distinct object numbers.
-/
import Parsley.Lemmas.LoaderE2ERender
namespace Parsley.C03
open Parsley Parsley.Prim Parsley.Obj Parsley.Indirect Parsley.Loader Parsley.C02 Parsley.Spelling Parsley.LoaderE2E
open Parsley.DocSpec

/-- **renderHistory_classic_wf_partial** (the link generator → declarative layout).  The objects of the layout are the
    revision's objects as written (`pieceOf`); for plain values the pair (identifier, value) does not depend on the
    position. -/
theorem renderHistory_classic_wf_partial (garbage : Bytes) (binary : Bool) (r : Rev)
    (hg : NoMagic garbage) (h : SimpleRev r)
    (hlen : (renderHistory garbage binary [(r, .auto)]).1.length < 10 ^ 10) :
    ∃ (f : ClassicFile) (D : List (Bytes × Obj)),
      f.bytes = (renderHistory garbage binary [(r, .auto)]).1 ∧ f.WF D r.root ∧
      (renderHistory garbage binary [(r, .auto)]).2.2.2 =
        [⟨f.objs.map (fun q => ((q.1.num, q.1.gen), (q.1.val q.2).val)), r.frees.map Prod.fst, r.root⟩] ∧
      ((∀ o ∈ r.objs, isVal o = true) →
        f.objs.map (fun q => ((q.1.num, q.1.gen), (q.1.val q.2).val)) = r.objs.map (fun o : DObj => ((o.num, o.gen), LoaderE2E.valOf o))) ∧
      f.objs.map Prod.fst = r.objs.map pieceOf :=
  render_is_classic garbage binary r hg h hlen

/-- the layout's pieces are the revision's objects: identifiers -/
theorem pieces_keys (r : Rev) (hobjs : ∀ o ∈ r.objs, SimpleObj o) (l : List (Piece × Nat)) (hl : l.map Prod.fst = r.objs.map pieceOf) :
    l.map (fun q => (q.1.num, q.1.gen)) = r.objs.map (fun o : DObj => (o.num, o.gen)) := by
  have : l.map (fun q => (q.1.num, q.1.gen)) = (l.map Prod.fst).map (fun p : Piece => (p.num, p.gen)) := by
    rw [List.map_map]; rfl
  rw [this, hl, List.map_map]
  apply List.map_congr_left
  intro o ho
  show ((pieceOf o).num, (pieceOf o).gen) = _
  rw [pieceOf_num o (hobjs o ho), pieceOf_gen o (hobjs o ho)]

/-- every object of the revision is one of the layout's pieces, at some offset -/
theorem piece_mem (r : Rev) (l : List (Piece × Nat)) (hl : l.map Prod.fst = r.objs.map pieceOf) (o : DObj) (ho : o ∈ r.objs) :
    ∃ i, (pieceOf o, i) ∈ l := by
  have : pieceOf o ∈ l.map Prod.fst := by rw [hl]; exact List.mem_map_of_mem ho
  obtain ⟨q, hq, hqe⟩ := List.mem_map.mp this
  exact ⟨q.2, by rw [← hqe]; exact hq⟩

/-- **render_classic_loads_partial**: the loader model on the rendered file: accepted, the revision's root, every
    written identifier bound to its value, nothing else defined.  `said` is what the encoder reports
    next to the bytes (the input of the oracle `DocSpec.resolve`). -/
theorem render_classic_loads_partial (garbage : Bytes) (binary : Bool) (r : Rev)
    (hg : NoMagic garbage) (h : SimpleRev r)
    (hlen : (renderHistory garbage binary [(r, .auto)]).1.length < 10 ^ 10) :
    ∃ (L : Loaded) (said : Said),
      (renderHistory garbage binary [(r, .auto)]).2.2.2 = [said] ∧
      said.root = r.root ∧ said.freed = r.frees.map Prod.fst ∧
      said.written.map Prod.fst = r.objs.map (fun o : DObj => (o.num, o.gen)) ∧
      ((∀ o ∈ r.objs, isVal o = true) → said.written = r.objs.map (fun o : DObj => ((o.num, o.gen), LoaderE2E.valOf o))) ∧
      parseData (renderHistory garbage binary [(r, .auto)]).1 = .ok L ∧ L.root = r.root ∧
      (∀ e ∈ said.written, ObjStm.defsGet e.1 L.defs = some e.2) ∧
      (∀ k, (∀ e ∈ said.written, e.1 ≠ k) → ObjStm.defsGet k L.defs = none) := by
  obtain ⟨f, D, hb, hwf, hsaid, hw, hp5⟩ := render_is_classic garbage binary r hg h hlen
  obtain ⟨L, hp, hr, hdef, hundef⟩ := load_classic f D r.root hwf
  refine ⟨L, _, hsaid, rfl, rfl, ?_, hw, by rw [← hb]; exact hp, hr, ?_, ?_⟩
  · show (f.objs.map (fun q => ((q.1.num, q.1.gen), (q.1.val q.2).val))).map Prod.fst = _
    rw [List.map_map]
    exact pieces_keys r h.objs f.objs hp5
  · intro e he
    obtain ⟨q, hq, rfl⟩ := List.mem_map.mp he
    exact hdef q hq
  · intro k hk
    apply hundef k
    intro q hq
    exact hk _ (List.mem_map_of_mem (f := fun q : Piece × Nat => ((q.1.num, q.1.gen), (q.1.val q.2).val)) hq)

/-- in the terms of the revision: every object `n g obj v endobj` the revision writes is bound to `v`, every stream object
    `n g obj << entries + /Length >> stream data endstream endobj` to the stream value with the entries as a sorted map and
    a content descriptor holding the data; nothing else is defined -/
theorem render_classic_binds_partial (garbage : Bytes) (binary : Bool) (r : Rev)
    (hg : NoMagic garbage) (h : SimpleRev r)
    (hlen : (renderHistory garbage binary [(r, .auto)]).1.length < 10 ^ 10) :
    ∃ L : Loaded, parseData (renderHistory garbage binary [(r, .auto)]).1 = .ok L ∧ L.root = r.root ∧
      (∀ o ∈ r.objs, ∀ c s, o.body = .val c s → ObjStm.defsGet (o.num, o.gen) L.defs = some c) ∧
      (∀ o ∈ r.objs, ∀ entries data, o.body = .stm entries data → ∃ start,
        ObjStm.defsGet (o.num, o.gen) L.defs =
          some (.stream (DocSpec.canonKvs (streamEntries o entries data.length)) ⟨start, data.length, data⟩)) ∧
      (∀ k, (∀ o ∈ r.objs, (o.num, o.gen) ≠ k) → ObjStm.defsGet k L.defs = none) := by
  obtain ⟨f, D, hb, hwf, hsaid, hw, hp5⟩ := render_is_classic garbage binary r hg h hlen
  obtain ⟨L, hp, hr, hdef, hundef⟩ := load_classic f D r.root hwf
  have hbind : ∀ o ∈ r.objs, ∃ i, ObjStm.defsGet (o.num, o.gen) L.defs = some ((pieceOf o).val i).val := by
    intro o ho
    obtain ⟨i, hi⟩ := piece_mem r f.objs hp5 o ho
    have := hdef _ hi
    rw [pieceOf_num o (h.objs o ho), pieceOf_gen o (h.objs o ho)] at this
    exact ⟨i, this⟩
  refine ⟨L, by rw [← hb]; exact hp, hr, ?_, ?_, ?_⟩
  · intro o ho c s hv
    obtain ⟨i, hi⟩ := hbind o ho
    rw [hi, pieceOf_val o i (by simp [isVal, hv])]
    simp [LoaderE2E.valOf, hv]
  · intro o ho entries data hv
    obtain ⟨i, hi⟩ := hbind o ho
    obtain ⟨start, hst⟩ := pieceOf_val_stm o i entries data hv
    exact ⟨start, by rw [hi, hst]⟩
  · intro k hk
    apply hundef k
    intro q hq
    have hm : (q.1.num, q.1.gen) ∈ f.objs.map (fun q => (q.1.num, q.1.gen)) := List.mem_map_of_mem (f := fun q : Piece × Nat => (q.1.num, q.1.gen)) hq
    rw [pieces_keys r h.objs f.objs hp5] at hm
    obtain ⟨o, ho, hoe⟩ := List.mem_map.mp hm
    rw [← hoe]
    exact hk o ho

/-! ## non-vacuity: a concrete revision (two scalar objects, one free entry, object 0, garbage, binary comment) -/

/-- `LF 1 0 obj 7 endobj` (offset after the padding) and `SP LF 2 0 obj /Cat endobj` (offset at the padding) -/
def exRev : Rev where
  objs := [
    { num := 1, gen := 0, body := .val (.int 7) (.int 7), ch := [1, 6, 0, 2, 3, 1, 0, 0, 1, 2], pad := [10], ofsAtPad := false,
      lenRef := none, lenPos := 0, eol1 := 0, eol2 := 0 },
    { num := 2, gen := 0, body := .val (.name [67, 97, 116]) (.name [67, 97, 116]), ch := [0, 7, 1, 1, 0, 0], pad := [32, 10],
      ofsAtPad := true, lenRef := none, lenPos := 0, eol1 := 0, eol2 := 0 }]
  members := []
  frees := [(3, 1)]
  zero := true
  root := (2, 0)
  lay := { kind := 0, ch := [1, 7, 2, 0, 8, 1, 1, 9, 0, 2, 1], cut := 2, eols := [0, 1, 2], w0 := 1, x1 := 0, x2 := 0, omitIndex := false,
           flate := false, up := false, xnum := 9, hiddenGen := 0, swap := none, relabel := none, dictOrder := 1 }

theorem exRev_simple : SimpleRev exRev where
  kind := rfl
  swap := rfl
  relabel := rfl
  objs := by
    intro o ho
    simp only [exRev, List.mem_cons, List.mem_nil_iff, or_false] at ho
    rcases ho with rfl | rfl
    · exact SimpleObj.of_scalar (wsRun_of_ws _ (by decide)) (by decide) (by decide) (.int 7) rfl (by simp [wf]) trivial
    · exact SimpleObj.of_scalar (wsRun_of_ws _ (by decide)) (by decide) (by decide) (.name [67, 97, 116]) rfl (by simp [wf, okKey]) trivial
  objsNe := by simp [exRev]
  gens := by decide
  freeGens := by decide
  numsNodup := by decide
  numsFit := by decide
  count := by decide
  rootFit := by decide

theorem exGarbage_noMagic : NoMagic [106, 117, 110, 107, 10] := noMagic_of_no_percent' _ (by decide)

example : ∃ L : Loaded, parseData (renderHistory [106, 117, 110, 107, 10] true [(exRev, .auto)]).1 = .ok L ∧ L.root = (2, 0) ∧
    ObjStm.defsGet (1, 0) L.defs = some (.int 7) ∧ ObjStm.defsGet (2, 0) L.defs = some (.name [67, 97, 116]) ∧
    ObjStm.defsGet (3, 1) L.defs = none ∧ ObjStm.defsGet (0, 65535) L.defs = none := by
  obtain ⟨L, hp, hr, hdef, _, hundef⟩ := render_classic_binds_partial [106, 117, 110, 107, 10] true exRev exGarbage_noMagic
    exRev_simple (by decide +kernel)
  refine ⟨L, hp, hr, ?_, ?_, ?_, ?_⟩
  · exact hdef _ List.mem_cons_self (.int 7) (.int 7) rfl
  · exact hdef _ (List.mem_cons_of_mem _ List.mem_cons_self) (.name [67, 97, 116]) (.name [67, 97, 116]) rfl
  · apply hundef; decide
  · apply hundef; decide

/-- the hypotheses of the link are satisfiable: the rendered example file is a well-formed `ClassicFile` -/
example : ∃ (f : ClassicFile) (D : List (Bytes × Obj)),
    f.bytes = (renderHistory [106, 117, 110, 107, 10] true [(exRev, .auto)]).1 ∧ f.WF D (2, 0) ∧ f.objs.length = 2 := by
  obtain ⟨f, D, hb, hwf, _, _, hw⟩ := renderHistory_classic_wf_partial [106, 117, 110, 107, 10] true exRev exGarbage_noMagic
    exRev_simple (by decide +kernel)
  refine ⟨f, D, hb, hwf, ?_⟩
  have := congrArg List.length hw
  simpa [exRev] using this

example : ∃ (L : Loaded) (said : Said), (renderHistory [106, 117, 110, 107, 10] true [(exRev, .auto)]).2.2.2 = [said] ∧
    said.written = [((1, 0), .int 7), ((2, 0), .name [67, 97, 116])] ∧
    parseData (renderHistory [106, 117, 110, 107, 10] true [(exRev, .auto)]).1 = .ok L ∧
    (∀ e ∈ said.written, ObjStm.defsGet e.1 L.defs = some e.2) := by
  obtain ⟨L, said, h1, _, _, _, h4, h5, _, h7, _⟩ := render_classic_loads_partial [106, 117, 110, 107, 10] true exRev
    exGarbage_noMagic exRev_simple (by decide +kernel)
  exact ⟨L, said, h1, by rw [h4 (by decide)]; rfl, h5, h7⟩

end Parsley.C03
