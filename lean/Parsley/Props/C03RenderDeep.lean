/-
  C03 - the generator link for object values of ANY SHAPE (follow-up C03e).

  The generator-link theorems of Props/C03Render.lean (classic table) and Props/C03RenderX.lean (cross-reference stream)
  restricted object VALUES to scalars, because the executable encoder `Spelling.spell` was proved to emit legal spellings
  for scalars only.  `C02.spell_is_Spells` (Lemmas/SpellEncoder.lean) now proves it for the encoder's whole domain
  `wfDeep` - arrays and dictionaries nested to any depth, entries written in any order - with the value denoted being
  `canon s` (every dictionary as a sorted map, which is what the loader's `BTreeMap` holds and what the document encoder
  reports to the oracle `DocSpec.resolve` as the object's value: `Body.val canon spelled`).  `LoaderE2E.SimpleObj` has been
  generalised accordingly (Lemmas/LoaderE2ERender.lean), so every theorem built on it covers such objects; this file
  states the results in those terms.

    simpleObj_iff                        the domain of the link, spelled out: `Body.val (canon s) s`, `wfDeep s`, depth ≤ 50
    simpleObj_of_sorted                  `Body.val v v` for a value whose dictionaries are sorted (`canon v = v`)
    render_classic_binds_deep_partial    one revision with a classic table: the rendered file is accepted, the root is the
                                         revision's, every object `Body.val c s` is bound to `c = canon s`, nothing else is
                                         defined
    render_xrefstream_binds_deep_partial the same for a revision written with a cross-reference stream (unfiltered / Flate /
                                         Flate + PNG-Up predictor; the stream object itself is defined too)
  Stream objects `Body.stm` with a DIRECT /Length are covered as well (second clause of the `binds` theorems: bound to
  `.stream (canonKvs entries with /Length) ⟨start, |data|, data⟩`; any data, all end-of-line forms, /Length anywhere).
  FULL statement (not proved): the same for every `Rev`.  What REMAINS excluded (`_partial`): streams whose /Length is a
  reference (lifted in Props/C03RenderFwd.lean), object-stream members (`r.members = []` for kind 1; kind 0 cannot express them),
  the hybrid layout (kind 2), and the deliberately ill-formed offset swap / relabelling.  No restriction on the shape of
  values is left: the depth bound 50 is the loader's own nesting limit (a deeper value is REJECTED by the real parser),
  and `wfDeep` is the exact domain of the encoder (Props/C02Encoder.lean has a witness for each excluded shape).
  Non-vacuity: `exDeepObjs` - a dictionary written in the order /Kids /Type /Info with a nested array, a nested dictionary
  whose own entries are unsorted, a reference, a string and a real; and an array holding a dictionary - rendered with a
  classic table and with a cross-reference stream, loaded to the SORTED values.
-/
import Parsley.Props.C03Render
import Parsley.Props.C03RenderX
namespace Parsley.C03
open Parsley Parsley.Prim Parsley.Obj Parsley.Indirect Parsley.Loader Parsley.C02 Parsley.Spelling Parsley.LoaderE2E
open Parsley.DocSpec Parsley.XrefSpec

/-- **simpleObj_iff**: what the link asks of an object, in full: a plain value of any shape, or a stream object with a
    direct /Length -/
theorem simpleObj_iff (o : DObj) : SimpleObj o ↔
    (WsRun o.pad ∧ o.num ≤ i64Max ∧ o.gen ≤ i64Max ∧
      ((∃ s, o.body = .val (canon s) s ∧ wfDeep s = true ∧ Obj.depth s ≤ 50) ∨
       (∃ entries data, o.body = .stm entries data ∧ o.lenRef = none ∧
          wfDeep (.dict (streamEntries o entries data.length)) = true ∧
          Obj.depth (.dict (streamEntries o entries data.length)) ≤ 50 ∧ ValsCanon (streamEntries o entries data.length)))) :=
  Iff.rfl

/-- **simpleObj_of_sorted**: a value whose dictionaries are sorted is its own canonical form -/
theorem simpleObj_of_sorted (o : DObj) (v : Obj) (hpad : WsRun o.pad) (hn : o.num ≤ i64Max) (hg : o.gen ≤ i64Max)
    (hb : o.body = .val v v) (hwf : wfDeep v = true) (hs : sortedDeep v = true) (hd : Obj.depth v ≤ 50) : SimpleObj o :=
  SimpleObj.of_sorted hpad hn hg v hb hwf hs hd

/-- what a covered plain object is bound to: the canonical form of what was spelled -/
theorem simpleObj_val {o : DObj} (h : SimpleObj o) (c s : Obj) (hb : o.body = .val c s) : c = canon s := by
  obtain ⟨_, _, _, ⟨s', hb', _, _⟩ | ⟨e, d, hb', _⟩⟩ := h
  · rw [hb] at hb'
    cases hb'
    rfl
  · rw [hb] at hb'
    cases hb'

/-- **render_classic_binds_deep_partial**: values of any shape and stream objects with a direct /Length, classic table. -/
theorem render_classic_binds_deep_partial (garbage : Bytes) (binary : Bool) (r : Rev)
    (hg : NoMagic garbage) (h : SimpleRev r)
    (hlen : (renderHistory garbage binary [(r, .auto)]).1.length < 10 ^ 10) :
    ∃ L : Loaded, parseData (renderHistory garbage binary [(r, .auto)]).1 = .ok L ∧ L.root = r.root ∧
      (∀ o ∈ r.objs, ∀ c s, o.body = .val c s → c = canon s ∧ ObjStm.defsGet (o.num, o.gen) L.defs = some c) ∧
      (∀ o ∈ r.objs, ∀ entries data, o.body = .stm entries data → ∃ start,
        ObjStm.defsGet (o.num, o.gen) L.defs =
          some (.stream (DocSpec.canonKvs (streamEntries o entries data.length)) ⟨start, data.length, data⟩)) ∧
      (∀ k, (∀ o ∈ r.objs, (o.num, o.gen) ≠ k) → ObjStm.defsGet k L.defs = none) := by
  obtain ⟨L, hp, hr, hdef, hstm, hundef⟩ := render_classic_binds_partial garbage binary r hg h hlen
  exact ⟨L, hp, hr, fun o ho c s hb => ⟨simpleObj_val (h.objs o ho) c s hb, hdef o ho c s hb⟩, hstm, hundef⟩

/-- **render_xrefstream_binds_deep_partial**: values of any shape and stream objects with a direct /Length,
    cross-reference stream. -/
theorem render_xrefstream_binds_deep_partial (garbage : Bytes) (binary : Bool) (r : Rev)
    (hg : NoMagic garbage) (h : SimpleRevX r)
    (hstore : XStoreFits r.lay (xesOf r (header binary).length))
    (hlen : (renderHistory garbage binary [(r, .auto)]).1.length < 2 ^ 32) :
    ∃ L : Loaded, parseData (renderHistory garbage binary [(r, .auto)]).1 = .ok L ∧ L.root = r.root ∧
      (∀ o ∈ r.objs, ∀ c s, o.body = .val c s → c = canon s ∧ ObjStm.defsGet (o.num, o.gen) L.defs = some c) ∧
      (∀ o ∈ r.objs, ∀ entries data, o.body = .stm entries data → ∃ start,
        ObjStm.defsGet (o.num, o.gen) L.defs =
          some (.stream (DocSpec.canonKvs (streamEntries o entries data.length)) ⟨start, data.length, data⟩)) ∧
      (ObjStm.defsGet (r.lay.xnum, 0) L.defs).isSome = true ∧
      (∀ k, (∀ o ∈ r.objs, (o.num, o.gen) ≠ k) → k ≠ (r.lay.xnum, 0) → ObjStm.defsGet k L.defs = none) := by
  obtain ⟨L, hp, hr, hdef, hstm, hx, hundef⟩ := render_xrefstream_binds_partial garbage binary r hg h hstore hlen
  exact ⟨L, hp, hr, fun o ho c s hb => ⟨simpleObj_val (h.objs o ho) c s hb, hdef o ho c s hb⟩, hstm, hx, hundef⟩

/-! ## non-vacuity: nested values written with unsorted dictionaries -/

def kKids : Bytes := [75, 105, 100, 115]
def kType : Bytes := [84, 121, 112, 101]
def kInfo : Bytes := [73, 110, 102, 111]
def kZ : Bytes := [90]
def kA : Bytes := [65]

/-- `<< /Kids [3 0 R [ ] (hi)] /Type /Pages /Info << /Z -1.5 /A true >> >>`: entries in the order written -/
def exDeepS : Obj :=
  .dict [(kKids, .arr [.ref 3 0, .arr [], .str [104, 105]]), (kType, .name [80, 97, 103, 101, 115]),
         (kInfo, .dict [(kZ, .real (-15) 10), (kA, .bool true)])]

/-- the value the spelling denotes: /Info /Kids /Type, and /A /Z inside -/
def exDeepC : Obj :=
  .dict [(kInfo, .dict [(kA, .bool true), (kZ, .real (-15) 10)]), (kKids, .arr [.ref 3 0, .arr [], .str [104, 105]]),
         (kType, .name [80, 97, 103, 101, 115])]

theorem exDeep_canon : canon exDeepS = exDeepC := by rfl

/-- `[ << /Z 1 /A [null] >> 7 ]` and its canonical form -/
def exArrS : Obj := .arr [.dict [(kZ, .int 1), (kA, .arr [.null])], .int 7]
def exArrC : Obj := .arr [.dict [(kA, .arr [.null]), (kZ, .int 1)], .int 7]

theorem exArr_canon : canon exArrS = exArrC := by rfl

def exDeepO1 : DObj :=
    { num := 1, gen := 0, body := .val exDeepC exDeepS, ch := [1, 6, 0, 2, 3, 1, 0, 0, 1, 2, 5, 0, 1, 1, 3, 0, 2, 4, 1, 0, 7, 2, 1],
      pad := [10], ofsAtPad := false, lenRef := none, lenPos := 0, eol1 := 0, eol2 := 0 }
def exDeepO2 : DObj :=
    { num := 2, gen := 0, body := .val exArrC exArrS, ch := [0, 7, 1, 1, 0, 0, 3, 2, 1, 0, 1, 4], pad := [32, 10],
      ofsAtPad := true, lenRef := none, lenPos := 0, eol1 := 0, eol2 := 0 }
/-- a stream object: entries `/Kind /Demo /Info << /A true /Z 2 >>`, /Length inserted between them, CR LF after `stream`,
    CR LF before `endstream`, data `ab LF endstream CR x` (contains the keyword) -/
def exDeepO5 : DObj :=
    { num := 5, gen := 0,
      body := .stm [([75, 105, 110, 100], .name [68, 101, 109, 111]), (kInfo, .dict [(kA, .bool true), (kZ, .int 2)])]
        [97, 98, 10, 101, 110, 100, 115, 116, 114, 101, 97, 109, 13, 120],
      ch := [2, 0, 1, 1, 3, 0, 2, 1, 0, 1, 4, 1, 0, 2, 2, 1, 0, 3, 1, 1, 0], pad := [10, 32],
      ofsAtPad := false, lenRef := none, lenPos := 1, eol1 := 1, eol2 := 3 }

theorem exDeepO5_simple : SimpleObj exDeepO5 := by
  refine ⟨wsRun_of_ws _ (by decide), by decide, by decide, Or.inr ⟨_, _, rfl, rfl, by decide +kernel, by decide +kernel, ?_⟩⟩
  intro kv hkv
  have : streamEntries exDeepO5 [([75, 105, 110, 100], .name [68, 101, 109, 111]), (kInfo, .dict [(kA, .bool true), (kZ, .int 2)])] 14 =
      [([75, 105, 110, 100], .name [68, 101, 109, 111]), (kLength, .int 14), (kInfo, .dict [(kA, .bool true), (kZ, .int 2)])] := by rfl
  rw [show ([97, 98, 10, 101, 110, 100, 115, 116, 114, 101, 97, 109, 13, 120] : Bytes).length = 14 from rfl, this] at hkv
  simp only [List.mem_cons, List.mem_nil_iff, or_false] at hkv
  rcases hkv with rfl | rfl | rfl <;> rfl

def exDeepObjs : List DObj := [exDeepO1, exDeepO2, exDeepO5]

theorem exDeepObjs_simple : ∀ o ∈ exDeepObjs, SimpleObj o := by
  intro o ho
  simp only [exDeepObjs, List.mem_cons, List.mem_nil_iff, or_false] at ho
  rcases ho with rfl | rfl | rfl
  · exact ⟨wsRun_of_ws _ (by decide), by decide, by decide, Or.inl ⟨exDeepS, by rw [exDeep_canon]; rfl, by decide +kernel, by decide +kernel⟩⟩
  · exact ⟨wsRun_of_ws _ (by decide), by decide, by decide, Or.inl ⟨exArrS, by rw [exArr_canon]; rfl, by decide +kernel, by decide +kernel⟩⟩
  · exact exDeepO5_simple

/-- the value of the stream object's dictionary: the three entries (with /Length 14) sorted by key -/
def exStmKvs : List (Bytes × Obj) :=
  [(kInfo, .dict [(kA, .bool true), (kZ, .int 2)]), ([75, 105, 110, 100], .name [68, 101, 109, 111]), (keyLength, .int 14)]

def exStmData : Bytes := [97, 98, 10, 101, 110, 100, 115, 116, 114, 101, 97, 109, 13, 120]

theorem exStm_val (st : Nat) :
    Obj.stream (DocSpec.canonKvs (streamEntries exDeepO5
      [([75, 105, 110, 100], .name [68, 101, 109, 111]), (kInfo, .dict [(kA, .bool true), (kZ, .int 2)])] exStmData.length))
      ⟨st, exStmData.length, exStmData⟩ = .stream exStmKvs ⟨st, 14, exStmData⟩ := by
  have : streamEntries exDeepO5 [([75, 105, 110, 100], .name [68, 101, 109, 111]), (kInfo, .dict [(kA, .bool true), (kZ, .int 2)])]
      exStmData.length =
      [([75, 105, 110, 100], .name [68, 101, 109, 111]), (keyLength, .int 14), (kInfo, .dict [(kA, .bool true), (kZ, .int 2)])] := by
    unfold streamEntries
    rw [kLength_eq]
    rfl
  rw [this]
  rfl

/-- the classic revision of Props/C03Render.lean with the nested objects -/
def exDeepRev : Rev := { exRev with objs := exDeepObjs, root := (1, 0) }

theorem exDeepRev_simple : SimpleRev exDeepRev where
  kind := rfl
  swap := rfl
  relabel := rfl
  objs := exDeepObjs_simple
  objsNe := by simp [exDeepRev, exDeepObjs]
  gens := by decide
  freeGens := by decide
  numsNodup := by decide
  numsFit := by decide
  count := by decide
  rootFit := by decide

/-- the nested objects, written with a classic table, load to their SORTED values -/
example : ∃ L : Loaded, parseData (renderHistory [106, 117, 110, 107, 10] true [(exDeepRev, .auto)]).1 = .ok L ∧ L.root = (1, 0) ∧
    ObjStm.defsGet (1, 0) L.defs = some exDeepC ∧ ObjStm.defsGet (2, 0) L.defs = some exArrC ∧
    (∃ start, ObjStm.defsGet (5, 0) L.defs = some (.stream exStmKvs ⟨start, 14, exStmData⟩)) ∧
    ObjStm.defsGet (3, 0) L.defs = none := by
  obtain ⟨L, hp, hr, hdef, hstm, hundef⟩ := render_classic_binds_deep_partial [106, 117, 110, 107, 10] true exDeepRev exGarbage_noMagic
    exDeepRev_simple (by decide +kernel)
  refine ⟨L, hp, hr, ?_, ?_, ?_, ?_⟩
  · exact (hdef _ List.mem_cons_self exDeepC exDeepS rfl).2
  · exact (hdef _ (List.mem_cons_of_mem _ List.mem_cons_self) exArrC exArrS rfl).2
  · obtain ⟨st, hst⟩ := hstm exDeepO5 (by simp [exDeepRev, exDeepObjs]) _ _ rfl
    exact ⟨st, hst.trans (congrArg some (exStm_val st))⟩
  · apply hundef; decide

/-- the cross-reference stream revisions of Props/C03RenderX.lean with the nested objects -/
def exDeepRevX : Rev := { exRevX with objs := exDeepObjs, root := (1, 0) }
def exDeepRevXUp : Rev := { exRevXUp with objs := exDeepObjs, root := (1, 0) }

theorem exDeepRevX_simple : SimpleRevX exDeepRevX where
  kind := rfl
  swap := rfl
  relabel := rfl
  noMembers := rfl
  objs := exDeepObjs_simple
  gens := by decide
  freeGens := by decide
  numsNodup := by decide
  numsFit := by decide
  count := by decide
  rootFit := by decide
  w0 := by decide

theorem exDeepRevXUp_simple : SimpleRevX exDeepRevXUp where
  kind := rfl
  swap := rfl
  relabel := rfl
  noMembers := rfl
  objs := exDeepObjs_simple
  gens := by decide
  freeGens := by decide
  numsNodup := by decide
  numsFit := by decide
  count := by decide
  rootFit := by decide
  w0 := by decide

example : ∃ L : Loaded, parseData (renderHistory [106, 117, 110, 107, 10] false [(exDeepRevX, .auto)]).1 = .ok L ∧ L.root = (1, 0) ∧
    ObjStm.defsGet (1, 0) L.defs = some exDeepC ∧ ObjStm.defsGet (2, 0) L.defs = some exArrC ∧
    (ObjStm.defsGet (4, 0) L.defs).isSome = true ∧ ObjStm.defsGet (3, 1) L.defs = none := by
  obtain ⟨L, hp, hr, hdef, _, hx, hundef⟩ := render_xrefstream_binds_deep_partial [106, 117, 110, 107, 10] false exDeepRevX
    exGarbageX_noMagic exDeepRevX_simple (fun hfl => by cases hfl) (by decide +kernel)
  refine ⟨L, hp, hr, ?_, ?_, hx, ?_⟩
  · exact (hdef _ List.mem_cons_self exDeepC exDeepS rfl).2
  · exact (hdef _ (List.mem_cons_of_mem _ List.mem_cons_self) exArrC exArrS rfl).2
  · apply hundef <;> decide

/-- FlateDecode + PNG-Up predictor, explicit /Index -/
example : ∃ L : Loaded, parseData (renderHistory [106, 117, 110, 107, 10] true [(exDeepRevXUp, .auto)]).1 = .ok L ∧ L.root = (1, 0) ∧
    ObjStm.defsGet (1, 0) L.defs = some exDeepC ∧ ObjStm.defsGet (2, 0) L.defs = some exArrC ∧
    (∃ start, ObjStm.defsGet (5, 0) L.defs = some (.stream exStmKvs ⟨start, 14, exStmData⟩)) := by
  obtain ⟨L, hp, hr, hdef, hstm, hx, hundef⟩ := render_xrefstream_binds_deep_partial [106, 117, 110, 107, 10] true exDeepRevXUp
    exGarbageX_noMagic exDeepRevXUp_simple (fun _ => by
      show (if true then _ else _)
      rw [if_pos rfl]
      decide +kernel) (by decide +kernel)
  obtain ⟨st, hst⟩ := hstm exDeepO5 (by simp [exDeepRevXUp, exDeepObjs]) _ _ rfl
  exact ⟨L, hp, hr, (hdef _ List.mem_cons_self exDeepC exDeepS rfl).2,
    (hdef _ (List.mem_cons_of_mem _ List.mem_cons_self) exArrC exArrS rfl).2, st, hst.trans (congrArg some (exStm_val st))⟩

/-- test (kernel evaluation of the executable encoder on the example, not a statement about all inputs): object 1 as
    written - `1 0 obj <</K#69ds[3 0 R[](hi)]/Type/Pages/Info<</Z -1.5/A true>>>> endobj` with the names /Type, /Pages,
    /Info, /Z, /A hex-escaped: the entries appear in the order /Kids /Type /Info, not in the sorted order they load in -/
example : (renderObj exDeepO1 0).1 = [10, 49, 13, 10, 32, 48, 9, 10, 111, 98, 106, 32, 60, 60, 47, 75, 35, 54, 57, 100, 115, 91, 51, 32, 48, 32, 82,
    91, 93, 40, 104, 105, 41, 93, 47, 35, 53, 52, 35, 55, 57, 35, 55, 48, 35, 54, 53, 47, 35, 53, 48, 35, 54, 49,
    35, 54, 55, 35, 54, 53, 35, 55, 51, 47, 35, 52, 57, 35, 54, 101, 35, 54, 54, 35, 54, 102, 60, 60, 47, 35, 53,
    97, 32, 45, 49, 46, 53, 47, 35, 52, 49, 32, 116, 114, 117, 101, 62, 62, 62, 62, 13, 12, 101, 110, 100, 111,
    98, 106, 10] := by
  decide +kernel

end Parsley.C03
