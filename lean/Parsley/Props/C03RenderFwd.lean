/-
  C03 - the generator link INCLUDING stream objects whose /Length is a reference (follow-up C03e).
  Proofs: Lemmas/LoaderE2ERenderFwd.lean (classic table), Lemmas/LoaderE2ERenderFwdX.lean (cross-reference stream).

  The generator-link theorems of Props/C03Render.lean, C03RenderX.lean, C03RenderDeep.lean covered plain values of any
  shape and stream objects with a direct /Length.  A `DObj` with `lenRef = some h` is written by the executable encoder
  `DocSpec.renderHistory` as a stream object whose dictionary says `/Length h 0 R`; the data length is held by another
  object of the same revision, `h 0 obj <length> endobj`, written BEFORE OR AFTER the stream (the generator of the
  correspondence run does both: Driver/C03.lean `holderObj` / `rndStmObj`).  The loader reads such a stream in its second
  pass (`parse_objects` retries the objects that asked for more context).  These objects are now covered:

    anyObj_iff                            the domain of the link, spelled out
    renderHistory_classic_fwd_wf_partial  the file rendered for one revision with a classic table is the byte string of a
                                          layout well formed in the sense of `load_defines_exactly_classic_fwd`
                                          (`ClassicFile.WFfwd` with the dependency map `depOf r` read off the revision)
    render_classic_fwd_loads_partial      hence: accepted, the revision's root, every identifier the encoder SAID it wrote
                                          bound to the value it said (the input of the oracle `DocSpec.resolve`), nothing
                                          else defined
    render_classic_fwd_binds_partial      in the terms of the revision: every plain object `Body.val c s` bound to
                                          `c = canon s`, every stream object - direct OR referenced /Length - bound to
                                          `.stream (canonKvs (entries + /Length)) ⟨start, data.length, data⟩`, nothing else
    renderHistory_xrefstream_fwd_wf_partial / render_xrefstream_fwd_loads_partial / render_xrefstream_fwd_binds_partial
                                          the same for a revision written with a cross-reference stream (unfiltered /
                                          Flate / Flate + PNG-Up predictor; `XrefStreamFile.WFall` with no object streams,
                                          `load_defines_exactly_xrefstream_all`; the stream object itself is defined too)

  Conditions (`AnyRev` / `AnyRevX`): those of `SimpleRev` / `SimpleRevX` with `AnyObj` objects, plus the holder
  condition `HoldersIn`: for every stream object with `lenRef = some h` the revision has an object numbered `h`,
  generation 0, body `.val (.int len) (.int len)` with `len` the data length.  (Without a holder, or with a wrong
  length, the real loader rejects or mis-frames the stream; that is outside the link by design, like swap / relabel.)

  FULL statement (not proved): the same for every `Rev`.  What REMAINS excluded (`_partial`):
    * object-stream members (`r.members = []` is required for kind 1; kind 0 cannot express them), hence also holders
      that live inside object streams;
    * the hybrid layout (`lay.kind = 2`);
    * histories of more than one revision with referenced lengths (Props/C04Render.lean has the n-revision link for
      `SimpleObj` objects only);
    * the deliberately ill-formed offset swap / relabelling.
  Non-vacuity: `exFwdObjs` - a nested dictionary, a holder written BEFORE its stream, that stream, a stream whose holder
  comes AFTER it, that holder - rendered with a classic table and with a cross-reference stream (plain and Flate + PNG-Up),
  the theorems applied and the loaded values checked.
-/
import Parsley.Lemmas.LoaderE2ERenderFwd
import Parsley.Lemmas.LoaderE2ERenderFwdX
import Parsley.Props.C03E2E
import Parsley.Props.C03E2EAll
import Parsley.Props.C03RenderDeep
namespace Parsley.C03
open Parsley Parsley.Prim Parsley.Obj Parsley.Indirect Parsley.Loader Parsley.C02 Parsley.Spelling Parsley.LoaderE2E
open Parsley.DocSpec Parsley.XrefSpec

/-- **anyObj_iff**: what the link asks of an object, in full: a plain value of any shape, a stream object with a direct
    /Length, or a stream object whose /Length is the reference `h 0 R` -/
theorem anyObj_iff (o : DObj) : AnyObj o ↔
    (WsRun o.pad ∧ o.num ≤ i64Max ∧ o.gen ≤ i64Max ∧
      ((∃ s, o.body = .val (canon s) s ∧ wfDeep s = true ∧ Obj.depth s ≤ 50) ∨
       (∃ entries data, o.body = .stm entries data ∧ (o.lenRef = none ∨ ∃ h, o.lenRef = some h) ∧
          wfDeep (.dict (streamEntries o entries data.length)) = true ∧
          Obj.depth (.dict (streamEntries o entries data.length)) ≤ 50 ∧ ValsCanon (streamEntries o entries data.length)))) := by
  constructor
  · rintro (⟨hp, hn, hg, ⟨s, hs⟩ | ⟨e, d, hb, hl, h3⟩⟩ | ⟨hp, hn, hg, e, d, h, hb, hl, h3⟩)
    · exact ⟨hp, hn, hg, Or.inl ⟨s, hs⟩⟩
    · exact ⟨hp, hn, hg, Or.inr ⟨e, d, hb, Or.inl hl, h3⟩⟩
    · exact ⟨hp, hn, hg, Or.inr ⟨e, d, hb, Or.inr ⟨h, hl⟩, h3⟩⟩
  · rintro ⟨hp, hn, hg, ⟨s, hs⟩ | ⟨e, d, hb, hl | ⟨h, hl⟩, h3⟩⟩
    · exact Or.inl ⟨hp, hn, hg, Or.inl ⟨s, hs⟩⟩
    · exact Or.inl ⟨hp, hn, hg, Or.inr ⟨e, d, hb, hl, h3⟩⟩
    · exact Or.inr ⟨hp, hn, hg, e, d, h, hb, hl, h3⟩

/-- what a covered plain object is bound to: the canonical form of what was spelled -/
theorem anyObj_val {o : DObj} (h : AnyObj o) (c s : Obj) (hb : o.body = .val c s) : c = canon s := by
  rcases h with h | ⟨_, _, _, e, d, _, hb', _⟩
  · exact simpleObj_val h c s hb
  · rw [hb] at hb'
    cases hb'

/-! ## classic table -/

/-- **renderHistory_classic_fwd_wf_partial** (the link generator → declarative layout, referenced lengths included) -/
theorem renderHistory_classic_fwd_wf_partial (garbage : Bytes) (binary : Bool) (r : Rev)
    (hg : NoMagic garbage) (h : AnyRev r)
    (hlen : (renderHistory garbage binary [(r, .auto)]).1.length < 10 ^ 10) :
    ∃ (f : ClassicFile) (D : List (Bytes × Obj)),
      f.bytes = (renderHistory garbage binary [(r, .auto)]).1 ∧ f.WFfwd D r.root (depOf r) ∧
      (renderHistory garbage binary [(r, .auto)]).2.2.2 =
        [⟨f.objs.map (fun q => ((q.1.num, q.1.gen), (q.1.val q.2).val)), r.frees.map Prod.fst, r.root⟩] ∧
      f.objs.map Prod.fst = r.objs.map pieceOf :=
  render_is_classic_fwd garbage binary r hg h hlen

/-- the layout's pieces are the revision's objects: identifiers (from the number bounds) -/
theorem pieces_keysB (r : Rev) (hobjs : ∀ o ∈ r.objs, Bnd o) (l : List (Piece × Nat)) (hl : l.map Prod.fst = r.objs.map pieceOf) :
    l.map (fun q => (q.1.num, q.1.gen)) = r.objs.map (fun o : DObj => (o.num, o.gen)) := by
  have : l.map (fun q => (q.1.num, q.1.gen)) = (l.map Prod.fst).map (fun p : Piece => (p.num, p.gen)) := by
    rw [List.map_map]; rfl
  rw [this, hl, List.map_map]
  apply List.map_congr_left
  intro o ho
  show ((pieceOf o).num, (pieceOf o).gen) = _
  rw [pieceOf_numB o (hobjs o ho), pieceOf_genB o (hobjs o ho)]

/-- **render_classic_fwd_loads_partial**: the loader model on the rendered file: accepted, the revision's root, every
    identifier the encoder said it wrote bound to the value it said, nothing else defined.  `said` is what the encoder
    reports next to the bytes (the input of the oracle `DocSpec.resolve`). -/
theorem render_classic_fwd_loads_partial (garbage : Bytes) (binary : Bool) (r : Rev)
    (hg : NoMagic garbage) (h : AnyRev r)
    (hlen : (renderHistory garbage binary [(r, .auto)]).1.length < 10 ^ 10) :
    ∃ (L : Loaded) (said : Said),
      (renderHistory garbage binary [(r, .auto)]).2.2.2 = [said] ∧
      said.root = r.root ∧ said.freed = r.frees.map Prod.fst ∧
      said.written.map Prod.fst = r.objs.map (fun o : DObj => (o.num, o.gen)) ∧
      parseData (renderHistory garbage binary [(r, .auto)]).1 = .ok L ∧ L.root = r.root ∧
      (∀ e ∈ said.written, ObjStm.defsGet e.1 L.defs = some e.2) ∧
      (∀ k, (∀ e ∈ said.written, e.1 ≠ k) → ObjStm.defsGet k L.defs = none) := by
  obtain ⟨f, D, hb, hwf, hsaid, hp5⟩ := render_is_classic_fwd garbage binary r hg h hlen
  obtain ⟨L, hp, hr, hdef, hundef⟩ := load_defines_exactly_classic_fwd f D r.root (depOf r) hwf
  refine ⟨L, _, hsaid, rfl, rfl, ?_, by rw [← hb]; exact hp, hr, ?_, ?_⟩
  · show (f.objs.map (fun q => ((q.1.num, q.1.gen), (q.1.val q.2).val))).map Prod.fst = _
    rw [List.map_map]
    exact pieces_keysB r h.base.bnds f.objs hp5
  · intro e he
    obtain ⟨q, hq, rfl⟩ := List.mem_map.mp he
    exact hdef q hq
  · intro k hk
    apply hundef k
    intro q hq
    exact hk _ (List.mem_map_of_mem (f := fun q : Piece × Nat => ((q.1.num, q.1.gen), (q.1.val q.2).val)) hq)

/-- **render_classic_fwd_binds_partial**: in the terms of the revision: every plain object is bound to the canonical form
    of what was spelled, every stream object - with a direct /Length or with `/Length h 0 R`, the holder before or after
    it - to the stream value with the entries (/Length as written) as a sorted map and a content descriptor holding the
    data; the holders are plain objects and are bound like them; nothing else is defined -/
theorem render_classic_fwd_binds_partial (garbage : Bytes) (binary : Bool) (r : Rev)
    (hg : NoMagic garbage) (h : AnyRev r)
    (hlen : (renderHistory garbage binary [(r, .auto)]).1.length < 10 ^ 10) :
    ∃ L : Loaded, parseData (renderHistory garbage binary [(r, .auto)]).1 = .ok L ∧ L.root = r.root ∧
      (∀ o ∈ r.objs, ∀ c s, o.body = .val c s → c = canon s ∧ ObjStm.defsGet (o.num, o.gen) L.defs = some c) ∧
      (∀ o ∈ r.objs, ∀ entries data, o.body = .stm entries data → ∃ start,
        ObjStm.defsGet (o.num, o.gen) L.defs =
          some (.stream (DocSpec.canonKvs (streamEntries o entries data.length)) ⟨start, data.length, data⟩)) ∧
      (∀ k, (∀ o ∈ r.objs, (o.num, o.gen) ≠ k) → ObjStm.defsGet k L.defs = none) := by
  obtain ⟨f, D, hb, hwf, hsaid, hp5⟩ := render_is_classic_fwd garbage binary r hg h hlen
  obtain ⟨L, hp, hr, hdef, hundef⟩ := load_defines_exactly_classic_fwd f D r.root (depOf r) hwf
  have hbind : ∀ o ∈ r.objs, ∃ i, ObjStm.defsGet (o.num, o.gen) L.defs = some ((pieceOf o).val i).val := by
    intro o ho
    obtain ⟨i, hi⟩ := piece_mem r f.objs hp5 o ho
    have := hdef _ hi
    rw [pieceOf_numB o (h.objs o ho).bnd, pieceOf_genB o (h.objs o ho).bnd] at this
    exact ⟨i, this⟩
  refine ⟨L, by rw [← hb]; exact hp, hr, ?_, ?_, ?_⟩
  · intro o ho c s hv
    obtain ⟨i, hi⟩ := hbind o ho
    refine ⟨anyObj_val (h.objs o ho) c s hv, ?_⟩
    rw [hi, pieceOf_val o i (by simp [isVal, hv])]
    simp [LoaderE2E.valOf, hv]
  · intro o ho entries data hv
    obtain ⟨i, hi⟩ := hbind o ho
    obtain ⟨start, hst⟩ := pieceOf_val_stm o i entries data hv
    exact ⟨start, by rw [hi, hst]⟩
  · intro k hk
    apply hundef k
    intro q hq
    have hm : (q.1.num, q.1.gen) ∈ f.objs.map (fun q => (q.1.num, q.1.gen)) := List.mem_map_of_mem (f := fun q : Piece × Nat => (q.1.num, q.1.gen)) hq
    rw [pieces_keysB r h.base.bnds f.objs hp5] at hm
    obtain ⟨o, ho, hoe⟩ := List.mem_map.mp hm
    rw [← hoe]
    exact hk o ho

/-! ## cross-reference stream -/

/-- **renderHistory_xrefstream_fwd_wf_partial** (the link for kind 1, referenced lengths included) -/
theorem renderHistory_xrefstream_fwd_wf_partial (garbage : Bytes) (binary : Bool) (r : Rev)
    (hg : NoMagic garbage) (h : AnyRevX r)
    (hstore : XStoreFits r.lay (xesOf r (header binary).length))
    (hlen : (renderHistory garbage binary [(r, .auto)]).1.length < 2 ^ 32) :
    ∃ (f : XrefStreamFile) (subs : List (Nat × List SEnt)) (w0 w1 w2 : Nat),
      f.bytes = (renderHistory garbage binary [(r, .auto)]).1 ∧ f.WFall subs w0 w1 w2 r.root [] (depOf r) ∧
      (renderHistory garbage binary [(r, .auto)]).2.2.2 =
        [⟨f.objs.map (fun q => ((q.1.num, q.1.gen), (q.1.val q.2).val)), r.frees.map Prod.fst, r.root⟩] ∧
      f.objs.map Prod.fst = r.objs.map pieceOf ++ [f.xs.piece] ∧ f.xs.piece.num = r.lay.xnum ∧ f.xs.piece.gen = 0 :=
  render_is_xrefstream_fwd garbage binary r hg h hstore hlen

/-- **render_xrefstream_fwd_loads_partial**: accepted, the revision's root, every identifier the encoder said it wrote
    (the cross-reference stream object included) bound to the value it said, nothing else defined -/
theorem render_xrefstream_fwd_loads_partial (garbage : Bytes) (binary : Bool) (r : Rev)
    (hg : NoMagic garbage) (h : AnyRevX r)
    (hstore : XStoreFits r.lay (xesOf r (header binary).length))
    (hlen : (renderHistory garbage binary [(r, .auto)]).1.length < 2 ^ 32) :
    ∃ (L : Loaded) (said : Said),
      (renderHistory garbage binary [(r, .auto)]).2.2.2 = [said] ∧
      said.root = r.root ∧ said.freed = r.frees.map Prod.fst ∧
      said.written.map Prod.fst = r.objs.map (fun o : DObj => (o.num, o.gen)) ++ [(r.lay.xnum, 0)] ∧
      parseData (renderHistory garbage binary [(r, .auto)]).1 = .ok L ∧ L.root = r.root ∧
      (∀ e ∈ said.written, ObjStm.defsGet e.1 L.defs = some e.2) ∧
      (∀ k, (∀ e ∈ said.written, e.1 ≠ k) → ObjStm.defsGet k L.defs = none) := by
  obtain ⟨f, subs, w0, w1, w2, hb, hwf, hsaid, hp5, hxn⟩ := render_is_xrefstream_fwd garbage binary r hg h hstore hlen
  obtain ⟨L, hp, hr, hdef, _, hundef⟩ := load_defines_exactly_xrefstream_all f subs w0 w1 w2 r.root [] (depOf r) hwf
  refine ⟨L, _, hsaid, rfl, rfl, ?_, by rw [← hb]; exact hp, hr, ?_, ?_⟩
  · show (f.objs.map (fun q => ((q.1.num, q.1.gen), (q.1.val q.2).val))).map Prod.fst = _
    rw [List.map_map]
    have : f.objs.map (Prod.fst ∘ fun q => ((q.1.num, q.1.gen), (q.1.val q.2).val)) =
        (f.objs.map Prod.fst).map (fun p : Piece => (p.num, p.gen)) := by
      rw [List.map_map]; rfl
    rw [this, hp5, List.map_append, List.map_map]
    congr 1
    · apply List.map_congr_left
      intro o ho
      show ((pieceOf o).num, (pieceOf o).gen) = _
      rw [pieceOf_numB o (h.objs o ho).bnd, pieceOf_genB o (h.objs o ho).bnd]
    · simp only [List.map_cons, List.map_nil, hxn.1, hxn.2]
  · intro e he
    obtain ⟨q, hq, rfl⟩ := List.mem_map.mp he
    exact hdef q hq
  · intro k hk
    apply hundef k
    · intro q hq
      exact hk _ (List.mem_map_of_mem (f := fun q : Piece × Nat => ((q.1.num, q.1.gen), (q.1.val q.2).val)) hq)
    · intro w hw
      cases hw

/-- **render_xrefstream_fwd_binds_partial**: in the terms of the revision (see `render_classic_fwd_binds_partial`); the
    cross-reference stream object is defined, and nothing else is -/
theorem render_xrefstream_fwd_binds_partial (garbage : Bytes) (binary : Bool) (r : Rev)
    (hg : NoMagic garbage) (h : AnyRevX r)
    (hstore : XStoreFits r.lay (xesOf r (header binary).length))
    (hlen : (renderHistory garbage binary [(r, .auto)]).1.length < 2 ^ 32) :
    ∃ L : Loaded, parseData (renderHistory garbage binary [(r, .auto)]).1 = .ok L ∧ L.root = r.root ∧
      (∀ o ∈ r.objs, ∀ c s, o.body = .val c s → c = canon s ∧ ObjStm.defsGet (o.num, o.gen) L.defs = some c) ∧
      (∀ o ∈ r.objs, ∀ entries data, o.body = .stm entries data → ∃ start,
        ObjStm.defsGet (o.num, o.gen) L.defs =
          some (.stream (DocSpec.canonKvs (streamEntries o entries data.length)) ⟨start, data.length, data⟩)) ∧
      (ObjStm.defsGet (r.lay.xnum, 0) L.defs).isSome = true ∧
      (∀ k, (∀ o ∈ r.objs, (o.num, o.gen) ≠ k) → k ≠ (r.lay.xnum, 0) → ObjStm.defsGet k L.defs = none) := by
  obtain ⟨f, subs, w0, w1, w2, hb, hwf, hsaid, hp5, hxn⟩ := render_is_xrefstream_fwd garbage binary r hg h hstore hlen
  obtain ⟨L, hp, hr, hdef, _, hundef⟩ := load_defines_exactly_xrefstream_all f subs w0 w1 w2 r.root [] (depOf r) hwf
  have hmem : ∀ q ∈ f.objs, (∃ o ∈ r.objs, q.1 = pieceOf o) ∨ q.1 = f.xs.piece := by
    intro q hq
    have : q.1 ∈ f.objs.map Prod.fst := List.mem_map_of_mem hq
    rw [hp5, List.mem_append] at this
    rcases this with hm | hm
    · obtain ⟨o, ho, hoe⟩ := List.mem_map.mp hm
      exact Or.inl ⟨o, ho, hoe.symm⟩
    · exact Or.inr (by simpa using hm)
  have hbind : ∀ o ∈ r.objs, ∃ i, ObjStm.defsGet (o.num, o.gen) L.defs = some ((pieceOf o).val i).val := by
    intro o ho
    have : pieceOf o ∈ f.objs.map Prod.fst := by rw [hp5]; exact List.mem_append_left _ (List.mem_map_of_mem ho)
    obtain ⟨q, hq, hqe⟩ := List.mem_map.mp this
    have hd := hdef q hq
    rw [hqe, pieceOf_numB o (h.objs o ho).bnd, pieceOf_genB o (h.objs o ho).bnd] at hd
    exact ⟨q.2, hd⟩
  refine ⟨L, by rw [← hb]; exact hp, hr, ?_, ?_, ?_, ?_⟩
  · intro o ho c s hv
    obtain ⟨i, hi⟩ := hbind o ho
    refine ⟨anyObj_val (h.objs o ho) c s hv, ?_⟩
    rw [hi, pieceOf_val o i (by simp [isVal, hv])]
    simp [LoaderE2E.valOf, hv]
  · intro o ho entries data hv
    obtain ⟨i, hi⟩ := hbind o ho
    obtain ⟨start, hst⟩ := pieceOf_val_stm o i entries data hv
    exact ⟨start, by rw [hi, hst]⟩
  · have := hdef _ f.xs_mem
    rw [hxn.1, hxn.2] at this
    rw [this]; rfl
  · intro k hk hkx
    apply hundef k
    · intro q hq
      rcases hmem q hq with ⟨o, ho, hoe⟩ | hx
      · rw [hoe, pieceOf_numB o (h.objs o ho).bnd, pieceOf_genB o (h.objs o ho).bnd]
        exact hk o ho
      · rw [hx, hxn.1, hxn.2]
        exact fun hh => hkx hh.symm
    · intro w hw
      cases hw

/-! ## non-vacuity: holders before and after their streams -/

/-- `6 0 obj 3 endobj`: the holder of object 8's length, written BEFORE object 8 -/
def exH6 : DObj :=
    { num := 6, gen := 0, body := .val (.int 3) (.int 3), ch := [1, 6, 0, 2, 3, 1, 0, 0, 1, 2], pad := [10], ofsAtPad := false,
      lenRef := none, lenPos := 0, eol1 := 0, eol2 := 0 }

/-- a stream object with `/Length 6 0 R` (written first among the entries), data `1 2 3`, LF after `stream`, nothing
    before `endstream` -/
def exFwdO8 : DObj :=
    { num := 8, gen := 0, body := .stm [(kA, .bool true)] [49, 50, 51],
      ch := [0, 1, 1, 0, 2, 0, 1, 1, 0, 3, 1, 0, 0, 2, 1, 1], pad := [32, 10],
      ofsAtPad := true, lenRef := some 6, lenPos := 0, eol1 := 0, eol2 := 0 }

/-- the stream object of Props/C03RenderDeep.lean with `/Length 7 0 R` in the place of `/Length 14`; its holder comes
    AFTER it -/
def exFwdO5 : DObj := { exDeepO5 with lenRef := some 7 }

/-- `7 0 obj 14 endobj`: the holder of object 5's length, written AFTER object 5 -/
def exH7 : DObj :=
    { num := 7, gen := 0, body := .val (.int 14) (.int 14), ch := [0, 7, 1, 1, 0, 0, 2], pad := [13, 10], ofsAtPad := true,
      lenRef := none, lenPos := 0, eol1 := 0, eol2 := 0 }

def exFwdObjs : List DObj := [exDeepO1, exH6, exFwdO8, exFwdO5, exH7]

def exFwdEnts5 : List (Bytes × Obj) :=
  [([75, 105, 110, 100], .name [68, 101, 109, 111]), (kInfo, .dict [(kA, .bool true), (kZ, .int 2)])]

theorem exFwdO5_entries : streamEntries exFwdO5 exFwdEnts5 exStmData.length =
    [([75, 105, 110, 100], .name [68, 101, 109, 111]), (keyLength, .ref 7 0), (kInfo, .dict [(kA, .bool true), (kZ, .int 2)])] := by
  unfold streamEntries
  rw [kLength_eq]
  rfl

theorem exFwdO8_entries : streamEntries exFwdO8 [(kA, .bool true)] ([49, 50, 51] : Bytes).length =
    [(keyLength, .ref 6 0), (kA, .bool true)] := by
  unfold streamEntries
  rw [kLength_eq]
  rfl

theorem exFwdO5_fwd : FwdObj exFwdO5 := by
  refine ⟨wsRun_of_ws _ (by decide), by decide, by decide, exFwdEnts5, exStmData, 7, rfl, rfl, ?_, ?_, ?_⟩
  · rw [exFwdO5_entries]; decide +kernel
  · rw [exFwdO5_entries]; decide +kernel
  · rw [exFwdO5_entries]
    intro kv hkv
    simp only [List.mem_cons, List.mem_nil_iff, or_false] at hkv
    rcases hkv with rfl | rfl | rfl <;> rfl

theorem exFwdO8_fwd : FwdObj exFwdO8 := by
  refine ⟨wsRun_of_ws _ (by decide), by decide, by decide, [(kA, .bool true)], [49, 50, 51], 6, rfl, rfl, ?_, ?_, ?_⟩
  · rw [exFwdO8_entries]; decide +kernel
  · rw [exFwdO8_entries]; decide +kernel
  · rw [exFwdO8_entries]
    intro kv hkv
    simp only [List.mem_cons, List.mem_nil_iff, or_false] at hkv
    rcases hkv with rfl | rfl <;> rfl

theorem exFwdObjs_any : ∀ o ∈ exFwdObjs, AnyObj o := by
  intro o ho
  simp only [exFwdObjs, List.mem_cons, List.mem_nil_iff, or_false] at ho
  rcases ho with rfl | rfl | rfl | rfl | rfl
  · exact Or.inl (exDeepObjs_simple _ List.mem_cons_self)
  · exact Or.inl (SimpleObj.of_scalar (wsRun_of_ws _ (by decide)) (by decide) (by decide) (.int 3) rfl (by simp [wf]) trivial)
  · exact Or.inr exFwdO8_fwd
  · exact Or.inr exFwdO5_fwd
  · exact Or.inl (SimpleObj.of_scalar (wsRun_of_ws _ (by decide)) (by decide) (by decide) (.int 14) rfl (by simp [wf]) trivial)

/-- the holders are there: 6 before the stream 8, 7 after the stream 5 -/
theorem exFwdObjs_holders : HoldersIn exFwdObjs := by
  intro o ho entries data hh hb hl
  simp only [exFwdObjs, List.mem_cons, List.mem_nil_iff, or_false] at ho
  rcases ho with rfl | rfl | rfl | rfl | rfl
  · cases hb
  · cases hb
  · cases hb
    cases hl
    exact ⟨exH6, by simp [exFwdObjs], rfl, rfl, rfl⟩
  · cases hb
    cases hl
    exact ⟨exH7, by simp [exFwdObjs], rfl, rfl, rfl⟩
  · cases hb

/-- the classic revision of Props/C03Render.lean with these objects -/
def exFwdRev : Rev := { exRev with objs := exFwdObjs, root := (1, 0) }

theorem exFwdRev_any : AnyRev exFwdRev where
  kind := rfl
  swap := rfl
  relabel := rfl
  objs := exFwdObjs_any
  holders := exFwdObjs_holders
  objsNe := by simp [exFwdRev, exFwdObjs]
  gens := by decide
  freeGens := by decide
  numsNodup := by decide
  numsFit := by decide
  count := by decide
  rootFit := by decide

/-- the value of stream 5's dictionary: the three entries, /Length a REFERENCE, sorted by key -/
def exFwdKvs5 : List (Bytes × Obj) :=
  [(kInfo, .dict [(kA, .bool true), (kZ, .int 2)]), ([75, 105, 110, 100], .name [68, 101, 109, 111]), (keyLength, .ref 7 0)]

/-- the value of stream 8's dictionary -/
def exFwdKvs8 : List (Bytes × Obj) := [(kA, .bool true), (keyLength, .ref 6 0)]

theorem exFwd_val5 (st : Nat) :
    Obj.stream (DocSpec.canonKvs (streamEntries exFwdO5 exFwdEnts5 exStmData.length)) ⟨st, exStmData.length, exStmData⟩ =
      .stream exFwdKvs5 ⟨st, 14, exStmData⟩ := by
  rw [exFwdO5_entries]
  rfl

theorem exFwd_val8 (st : Nat) :
    Obj.stream (DocSpec.canonKvs (streamEntries exFwdO8 [(kA, .bool true)] ([49, 50, 51] : Bytes).length))
      ⟨st, ([49, 50, 51] : Bytes).length, [49, 50, 51]⟩ = .stream exFwdKvs8 ⟨st, 3, [49, 50, 51]⟩ := by
  rw [exFwdO8_entries]
  rfl

/-- classic table: both streams load, each with its data and with the REFERENCE kept in its dictionary; the holders load
    as the integers they are; the identifiers of the free entries are undefined -/
example : ∃ L : Loaded, parseData (renderHistory [106, 117, 110, 107, 10] true [(exFwdRev, .auto)]).1 = .ok L ∧ L.root = (1, 0) ∧
    ObjStm.defsGet (1, 0) L.defs = some exDeepC ∧
    ObjStm.defsGet (6, 0) L.defs = some (.int 3) ∧ ObjStm.defsGet (7, 0) L.defs = some (.int 14) ∧
    (∃ start, ObjStm.defsGet (8, 0) L.defs = some (.stream exFwdKvs8 ⟨start, 3, [49, 50, 51]⟩)) ∧
    (∃ start, ObjStm.defsGet (5, 0) L.defs = some (.stream exFwdKvs5 ⟨start, 14, exStmData⟩)) ∧
    ObjStm.defsGet (3, 1) L.defs = none ∧ ObjStm.defsGet (2, 0) L.defs = none := by
  obtain ⟨L, hp, hr, hdef, hstm, hundef⟩ := render_classic_fwd_binds_partial [106, 117, 110, 107, 10] true exFwdRev exGarbage_noMagic
    exFwdRev_any (by decide +kernel)
  refine ⟨L, hp, hr, ?_, ?_, ?_, ?_, ?_, ?_, ?_⟩
  · exact (hdef exDeepO1 (by simp [exFwdRev, exFwdObjs]) exDeepC exDeepS rfl).2
  · exact (hdef exH6 (by simp [exFwdRev, exFwdObjs]) (.int 3) (.int 3) rfl).2
  · exact (hdef exH7 (by simp [exFwdRev, exFwdObjs]) (.int 14) (.int 14) rfl).2
  · obtain ⟨st, hst⟩ := hstm exFwdO8 (by simp [exFwdRev, exFwdObjs]) _ _ rfl
    exact ⟨st, hst.trans (congrArg some (exFwd_val8 st))⟩
  · obtain ⟨st, hst⟩ := hstm exFwdO5 (by simp [exFwdRev, exFwdObjs]) exFwdEnts5 exStmData rfl
    exact ⟨st, hst.trans (congrArg some (exFwd_val5 st))⟩
  · apply hundef; decide
  · apply hundef; decide

/-- the dependency map of the example: the two streams depend on their holders, the other objects on nothing -/
example : depObj exFwdO8 = some ((6, 0), 3) ∧ depObj exFwdO5 = some ((7, 0), 14) ∧ depObj exH6 = none ∧ depObj exH7 = none ∧
    depObj exDeepO1 = none := ⟨rfl, rfl, rfl, rfl, rfl⟩

/-- the hypotheses of the link are satisfiable: the rendered example is a `WFfwd` layout with 5 objects -/
example : ∃ (f : ClassicFile) (D : List (Bytes × Obj)),
    f.bytes = (renderHistory [106, 117, 110, 107, 10] true [(exFwdRev, .auto)]).1 ∧ f.WFfwd D (1, 0) (depOf exFwdRev) ∧
    f.objs.length = 5 := by
  obtain ⟨f, D, hb, hwf, _, hw⟩ := renderHistory_classic_fwd_wf_partial [106, 117, 110, 107, 10] true exFwdRev exGarbage_noMagic
    exFwdRev_any (by decide +kernel)
  refine ⟨f, D, hb, hwf, ?_⟩
  have := congrArg List.length hw
  simpa [exFwdRev, exFwdObjs] using this

/-- the cross-reference stream revisions of Props/C03RenderX.lean with these objects -/
def exFwdRevX : Rev := { exRevX with objs := exFwdObjs, root := (1, 0) }
def exFwdRevXUp : Rev := { exRevXUp with objs := exFwdObjs, root := (1, 0) }

theorem exFwdRevX_any : AnyRevX exFwdRevX where
  kind := rfl
  swap := rfl
  relabel := rfl
  noMembers := rfl
  objs := exFwdObjs_any
  holders := exFwdObjs_holders
  gens := by decide
  freeGens := by decide
  numsNodup := by decide
  numsFit := by decide
  count := by decide
  rootFit := by decide
  w0 := by decide

theorem exFwdRevXUp_any : AnyRevX exFwdRevXUp where
  kind := rfl
  swap := rfl
  relabel := rfl
  noMembers := rfl
  objs := exFwdObjs_any
  holders := exFwdObjs_holders
  gens := by decide
  freeGens := by decide
  numsNodup := by decide
  numsFit := by decide
  count := by decide
  rootFit := by decide
  w0 := by decide

/-- cross-reference stream, unfiltered -/
example : ∃ L : Loaded, parseData (renderHistory [106, 117, 110, 107, 10] false [(exFwdRevX, .auto)]).1 = .ok L ∧ L.root = (1, 0) ∧
    ObjStm.defsGet (6, 0) L.defs = some (.int 3) ∧ ObjStm.defsGet (7, 0) L.defs = some (.int 14) ∧
    (∃ start, ObjStm.defsGet (8, 0) L.defs = some (.stream exFwdKvs8 ⟨start, 3, [49, 50, 51]⟩)) ∧
    (∃ start, ObjStm.defsGet (5, 0) L.defs = some (.stream exFwdKvs5 ⟨start, 14, exStmData⟩)) ∧
    (ObjStm.defsGet (4, 0) L.defs).isSome = true ∧ ObjStm.defsGet (3, 1) L.defs = none := by
  obtain ⟨L, hp, hr, hdef, hstm, hx, hundef⟩ := render_xrefstream_fwd_binds_partial [106, 117, 110, 107, 10] false exFwdRevX
    exGarbageX_noMagic exFwdRevX_any (fun hfl => by cases hfl) (by decide +kernel)
  refine ⟨L, hp, hr, ?_, ?_, ?_, ?_, hx, ?_⟩
  · exact (hdef exH6 (by simp [exFwdRevX, exFwdObjs]) (.int 3) (.int 3) rfl).2
  · exact (hdef exH7 (by simp [exFwdRevX, exFwdObjs]) (.int 14) (.int 14) rfl).2
  · obtain ⟨st, hst⟩ := hstm exFwdO8 (by simp [exFwdRevX, exFwdObjs]) _ _ rfl
    exact ⟨st, hst.trans (congrArg some (exFwd_val8 st))⟩
  · obtain ⟨st, hst⟩ := hstm exFwdO5 (by simp [exFwdRevX, exFwdObjs]) exFwdEnts5 exStmData rfl
    exact ⟨st, hst.trans (congrArg some (exFwd_val5 st))⟩
  · apply hundef <;> decide

/-- cross-reference stream, FlateDecode + PNG-Up predictor, explicit /Index -/
example : ∃ L : Loaded, parseData (renderHistory [106, 117, 110, 107, 10] true [(exFwdRevXUp, .auto)]).1 = .ok L ∧ L.root = (1, 0) ∧
    ObjStm.defsGet (6, 0) L.defs = some (.int 3) ∧ ObjStm.defsGet (7, 0) L.defs = some (.int 14) ∧
    (∃ start, ObjStm.defsGet (8, 0) L.defs = some (.stream exFwdKvs8 ⟨start, 3, [49, 50, 51]⟩)) ∧
    (∃ start, ObjStm.defsGet (5, 0) L.defs = some (.stream exFwdKvs5 ⟨start, 14, exStmData⟩)) := by
  obtain ⟨L, hp, hr, hdef, hstm, hx, hundef⟩ := render_xrefstream_fwd_binds_partial [106, 117, 110, 107, 10] true exFwdRevXUp
    exGarbageX_noMagic exFwdRevXUp_any (fun _ => by
      show (if true then _ else _)
      rw [if_pos rfl]
      decide +kernel) (by decide +kernel)
  refine ⟨L, hp, hr, ?_, ?_, ?_, ?_⟩
  · exact (hdef exH6 (by simp [exFwdRevXUp, exFwdObjs]) (.int 3) (.int 3) rfl).2
  · exact (hdef exH7 (by simp [exFwdRevXUp, exFwdObjs]) (.int 14) (.int 14) rfl).2
  · obtain ⟨st, hst⟩ := hstm exFwdO8 (by simp [exFwdRevXUp, exFwdObjs]) _ _ rfl
    exact ⟨st, hst.trans (congrArg some (exFwd_val8 st))⟩
  · obtain ⟨st, hst⟩ := hstm exFwdO5 (by simp [exFwdRevXUp, exFwdObjs]) exFwdEnts5 exStmData rfl
    exact ⟨st, hst.trans (congrArg some (exFwd_val5 st))⟩

/-- test (kernel evaluation of the executable encoder on the example, not a statement about all inputs): object 8 as
    written - `8 0 obj << /Length 6 0 R/A true>>stream LF 123 endstream endobj` with the names /Length and /A
    hex-escaped: the dictionary holds the REFERENCE `6 0 R`, not the number 3 -/
example : (renderObj exFwdO8 0).1 = [32, 10, 56, 10, 48, 32, 111, 98, 106, 32, 10, 10, 60, 60, 32, 47, 35, 52, 67, 101, 35, 54, 101, 35, 54,
    55, 35, 55, 52, 35, 54, 56, 32, 54, 32, 48, 32, 82, 47, 35, 52, 49, 32, 116, 114, 117, 101, 62, 62, 115, 116, 114, 101, 97,
    109, 10, 49, 50, 51, 101, 110, 100, 115, 116, 114, 101, 97, 109, 9, 101, 110, 100, 111, 98, 106, 10] := by
  decide +kernel

end Parsley.C03
