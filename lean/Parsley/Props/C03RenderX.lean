/-
  C03 - the generator's CROSS-REFERENCE STREAM files are covered by the end-to-end theorem (follow-up C03c).
  Proofs: Lemmas/LoaderE2ERenderX.lean (dictionary spelling, the stream object, storage, composition),
  Lemmas/LoaderE2ERenderX2.lean (dictionary lookups), Lemmas/LoaderE2ERenderX3.lean (rows, /Index, widths).

    renderHistory_xrefstream_wf_partial   the file written by `DocSpec.renderHistory` for one revision with
                                          `lay.kind = 1` is the byte string of a well-formed `XrefStreamFile`
                                          (`XrefStreamFile.WF` for the subsections / widths `xrefStreamParts`
                                          computes), and the objects of that layout - the cross-reference stream
                                          object included - are exactly what the revision says it wrote.
    render_xrefstream_loads_partial       hence (with `load_defines_exactly_xrefstream`): the loader model accepts
                                          the rendered file, reports the revision's root, binds every written
                                          identifier (and the cross-reference stream object) to its value and
                                          defines nothing else.

  FULL statement (not proved): every `Rev` of kind 1.  Proved (`_partial`): scalar objects written canonically
  (`SimpleObj`, as for the classic link: since follow-up C03e values of any shape and direct /Length stream objects, see
  Props/C03RenderDeep.lean; referenced /Length: Props/C03RenderFwd.lean), no object-stream members, no offset swap / relabelling.  Unrestricted:
  choice streams, paddings, `ofsAtPad`, /Index partition, /Index omitted or written, extra width bytes, rotation
  of the dictionary, storage (unfiltered, FlateDecode, FlateDecode + PNG-Up predictor), free entries, object 0,
  garbage, binary comment.  Size hypotheses: file shorter than 2^32 bytes, generations at most 65535, numbers below
  2^63 - 1, distinct object numbers, `lay.w0 ≤ 4`, one stored block (at most 65535 bytes) when FlateDecode'd.
-/
import Parsley.Lemmas.LoaderE2ERenderX
namespace Parsley.C03
open Parsley Parsley.Prim Parsley.Obj Parsley.Indirect Parsley.Loader Parsley.C02 Parsley.Spelling Parsley.LoaderE2E
open Parsley.DocSpec Parsley.XrefSpec

/-- **renderHistory_xrefstream_wf_partial** (the link generator → declarative layout, cross-reference streams). -/
theorem renderHistory_xrefstream_wf_partial (garbage : Bytes) (binary : Bool) (r : Rev)
    (hg : NoMagic garbage) (h : SimpleRevX r)
    (hstore : XStoreFits r.lay (xesOf r (header binary).length))
    (hlen : (renderHistory garbage binary [(r, .auto)]).1.length < 2 ^ 32) :
    ∃ (f : XrefStreamFile) (subs : List (Nat × List SEnt)) (w0 w1 w2 : Nat),
      f.bytes = (renderHistory garbage binary [(r, .auto)]).1 ∧ f.WF subs w0 w1 w2 r.root ∧
      (renderHistory garbage binary [(r, .auto)]).2.2.2 =
        [⟨f.objs.map (fun q => ((q.1.num, q.1.gen), (q.1.val q.2).val)), r.frees.map Prod.fst, r.root⟩] ∧
      ((∀ o ∈ r.objs, isVal o = true) → f.objs.map (fun q => ((q.1.num, q.1.gen), (q.1.val q.2).val)) =
        r.objs.map (fun o : DObj => ((o.num, o.gen), LoaderE2E.valOf o)) ++ [((r.lay.xnum, 0), (f.xs.val f.xofs).val)]) ∧
      f.objs.map Prod.fst = r.objs.map pieceOf ++ [f.xs.piece] ∧ f.xs.piece.num = r.lay.xnum ∧ f.xs.piece.gen = 0 :=
  render_is_xrefstream garbage binary r hg h hstore hlen

/-- **render_xrefstream_loads_partial**: the loader model on the rendered file: accepted, the revision's root, every
    written identifier - the cross-reference stream object included - bound to the value the encoder reports
    (`said.written`, the input of the oracle `DocSpec.resolve`), nothing else defined. -/
theorem render_xrefstream_loads_partial (garbage : Bytes) (binary : Bool) (r : Rev)
    (hg : NoMagic garbage) (h : SimpleRevX r)
    (hstore : XStoreFits r.lay (xesOf r (header binary).length))
    (hlen : (renderHistory garbage binary [(r, .auto)]).1.length < 2 ^ 32) :
    ∃ (L : Loaded) (said : Said) (xv : Obj),
      (renderHistory garbage binary [(r, .auto)]).2.2.2 = [said] ∧
      said.root = r.root ∧ said.freed = r.frees.map Prod.fst ∧
      ((∀ o ∈ r.objs, isVal o = true) →
        said.written = r.objs.map (fun o : DObj => ((o.num, o.gen), LoaderE2E.valOf o)) ++ [((r.lay.xnum, 0), xv)]) ∧
      parseData (renderHistory garbage binary [(r, .auto)]).1 = .ok L ∧ L.root = r.root ∧
      (∀ e ∈ said.written, ObjStm.defsGet e.1 L.defs = some e.2) ∧
      (∀ k, (∀ e ∈ said.written, e.1 ≠ k) → ObjStm.defsGet k L.defs = none) := by
  obtain ⟨f, subs, w0, w1, w2, hb, hwf, hsaid, hw, _, _⟩ := render_is_xrefstream garbage binary r hg h hstore hlen
  obtain ⟨L, hp, hr, hdef, hundef⟩ := load_xrefstream f subs w0 w1 w2 r.root hwf
  refine ⟨L, _, _, hsaid, rfl, rfl, hw, by rw [← hb]; exact hp, hr, ?_, ?_⟩
  · intro e he
    obtain ⟨q, hq, rfl⟩ := List.mem_map.mp he
    exact hdef q hq
  · intro k hk
    apply hundef k
    intro q hq
    exact hk _ (List.mem_map_of_mem (f := fun q : Piece × Nat => ((q.1.num, q.1.gen), (q.1.val q.2).val)) hq)

/-- in the terms of the revision: every plain object the revision writes is bound to its value, every stream object to the
    stream value (entries with /Length as a sorted map, content descriptor holding the data), the cross-reference stream
    object is defined, and nothing else is -/
theorem render_xrefstream_binds_partial (garbage : Bytes) (binary : Bool) (r : Rev)
    (hg : NoMagic garbage) (h : SimpleRevX r)
    (hstore : XStoreFits r.lay (xesOf r (header binary).length))
    (hlen : (renderHistory garbage binary [(r, .auto)]).1.length < 2 ^ 32) :
    ∃ L : Loaded, parseData (renderHistory garbage binary [(r, .auto)]).1 = .ok L ∧ L.root = r.root ∧
      (∀ o ∈ r.objs, ∀ c s, o.body = .val c s → ObjStm.defsGet (o.num, o.gen) L.defs = some c) ∧
      (∀ o ∈ r.objs, ∀ entries data, o.body = .stm entries data → ∃ start,
        ObjStm.defsGet (o.num, o.gen) L.defs =
          some (.stream (DocSpec.canonKvs (streamEntries o entries data.length)) ⟨start, data.length, data⟩)) ∧
      (ObjStm.defsGet (r.lay.xnum, 0) L.defs).isSome = true ∧
      (∀ k, (∀ o ∈ r.objs, (o.num, o.gen) ≠ k) → k ≠ (r.lay.xnum, 0) → ObjStm.defsGet k L.defs = none) := by
  obtain ⟨f, subs, w0, w1, w2, hb, hwf, hsaid, _, hp5, hxn⟩ := render_is_xrefstream garbage binary r hg h hstore hlen
  obtain ⟨L, hp, hr, hdef, hundef⟩ := load_xrefstream f subs w0 w1 w2 r.root hwf
  have hmem : ∀ q ∈ f.objs, (∃ o ∈ r.objs, q.1 = pieceOf o) ∨ q.1 = f.xs.piece := by
    intro q hq
    have : q.1 ∈ f.objs.map Prod.fst := List.mem_map_of_mem hq
    rw [hp5, List.mem_append] at this
    rcases this with hm | hm
    · obtain ⟨o, ho, hoe⟩ := List.mem_map.mp hm
      exact Or.inl ⟨o, ho, hoe.symm⟩
    · exact Or.inr (by simpa using hm)
  have hbind : ∀ o ∈ r.objs, ∃ i, ObjStm.defsGet (o.num, o.gen) L.defs = some ((pieceOf o).val i).val := by
    intro o ho
    have : pieceOf o ∈ f.objs.map Prod.fst := by rw [hp5]; exact List.mem_append_left _ (List.mem_map_of_mem ho)
    obtain ⟨q, hq, hqe⟩ := List.mem_map.mp this
    have hd := hdef q hq
    rw [hqe, pieceOf_num o (h.objs o ho), pieceOf_gen o (h.objs o ho)] at hd
    exact ⟨q.2, hd⟩
  refine ⟨L, by rw [← hb]; exact hp, hr, ?_, ?_, ?_, ?_⟩
  · intro o ho c s hv
    obtain ⟨i, hi⟩ := hbind o ho
    rw [hi, pieceOf_val o i (by simp [isVal, hv])]
    simp [LoaderE2E.valOf, hv]
  · intro o ho entries data hv
    obtain ⟨i, hi⟩ := hbind o ho
    obtain ⟨start, hst⟩ := pieceOf_val_stm o i entries data hv
    exact ⟨start, by rw [hi, hst]⟩
  · have := hdef _ f.xs_mem
    rw [hxn.1, hxn.2] at this
    rw [this]; rfl
  · intro k hk hkx
    apply hundef k
    intro q hq
    rcases hmem q hq with ⟨o, ho, hoe⟩ | hx
    · rw [hoe, pieceOf_num o (h.objs o ho), pieceOf_gen o (h.objs o ho)]
      exact hk o ho
    · rw [hx, hxn.1, hxn.2]
      exact fun hh => hkx hh.symm

/-! ## non-vacuity: concrete revisions of kind 1 (two scalar objects, one free entry, object 0, garbage) -/

def exObjsX : List DObj := [
    { num := 1, gen := 0, body := .val (.int 7) (.int 7), ch := [1, 6, 0, 2, 3, 1, 0, 0, 1, 2], pad := [10], ofsAtPad := false,
      lenRef := none, lenPos := 0, eol1 := 0, eol2 := 0 },
    { num := 2, gen := 0, body := .val (.name [67, 97, 116]) (.name [67, 97, 116]), ch := [0, 7, 1, 1, 0, 0], pad := [32, 10],
      ofsAtPad := true, lenRef := none, lenPos := 0, eol1 := 0, eol2 := 0 }]

/-- unfiltered, one run `0..4`, /Index omitted (it is `[0 Size]`), dictionary rotated by 2 -/
def exRevX : Rev where
  objs := exObjsX
  members := []
  frees := [(3, 1)]
  zero := true
  root := (2, 0)
  lay := { kind := 1, ch := [1, 7, 2, 0, 8, 1, 1, 9, 0, 2, 1], cut := 0, eols := [], w0 := 1, x1 := 1, x2 := 0, omitIndex := true,
           flate := false, up := false, xnum := 4, hiddenGen := 0, swap := none, relabel := none, dictOrder := 2 }

/-- FlateDecode with the PNG-Up predictor, runs cut after 2 rows (so /Index is written) -/
def exRevXUp : Rev := { exRevX with lay := { exRevX.lay with flate := true, up := true, cut := 2, omitIndex := false, dictOrder := 5 } }

theorem exObjsX_simple : ∀ o ∈ exObjsX, SimpleObj o := by
  intro o ho
  simp only [exObjsX, List.mem_cons, List.mem_nil_iff, or_false] at ho
  rcases ho with rfl | rfl
  · exact SimpleObj.of_scalar (wsRun_of_ws _ (by decide)) (by decide) (by decide) (.int 7) rfl (by simp [wf]) trivial
  · exact SimpleObj.of_scalar (wsRun_of_ws _ (by decide)) (by decide) (by decide) (.name [67, 97, 116]) rfl (by simp [wf, okKey]) trivial

theorem exRevX_simple : SimpleRevX exRevX where
  kind := rfl
  swap := rfl
  relabel := rfl
  noMembers := rfl
  objs := exObjsX_simple
  gens := by decide
  freeGens := by decide
  numsNodup := by decide
  numsFit := by decide
  count := by decide
  rootFit := by decide
  w0 := by decide

theorem exRevXUp_simple : SimpleRevX exRevXUp where
  kind := rfl
  swap := rfl
  relabel := rfl
  noMembers := rfl
  objs := exObjsX_simple
  gens := by decide
  freeGens := by decide
  numsNodup := by decide
  numsFit := by decide
  count := by decide
  rootFit := by decide
  w0 := by decide

theorem exGarbageX_noMagic : NoMagic [106, 117, 110, 107, 10] := noMagic_of_no_percent' _ (by decide)

example : ∃ L : Loaded, parseData (renderHistory [106, 117, 110, 107, 10] false [(exRevX, .auto)]).1 = .ok L ∧ L.root = (2, 0) ∧
    ObjStm.defsGet (1, 0) L.defs = some (.int 7) ∧ ObjStm.defsGet (2, 0) L.defs = some (.name [67, 97, 116]) ∧
    (ObjStm.defsGet (4, 0) L.defs).isSome = true ∧ ObjStm.defsGet (3, 1) L.defs = none := by
  obtain ⟨L, hp, hr, hdef, _, hx, hundef⟩ := render_xrefstream_binds_partial [106, 117, 110, 107, 10] false exRevX exGarbageX_noMagic
    exRevX_simple (fun hfl => by cases hfl) (by decide +kernel)
  refine ⟨L, hp, hr, ?_, ?_, hx, ?_⟩
  · exact hdef _ List.mem_cons_self (.int 7) (.int 7) rfl
  · exact hdef _ (List.mem_cons_of_mem _ List.mem_cons_self) (.name [67, 97, 116]) (.name [67, 97, 116]) rfl
  · apply hundef <;> decide

/-- the same revision FlateDecode'd with the PNG-Up predictor and an explicit /Index -/
example : ∃ L : Loaded, parseData (renderHistory [106, 117, 110, 107, 10] true [(exRevXUp, .auto)]).1 = .ok L ∧ L.root = (2, 0) ∧
    ObjStm.defsGet (1, 0) L.defs = some (.int 7) ∧ ObjStm.defsGet (2, 0) L.defs = some (.name [67, 97, 116]) ∧
    ObjStm.defsGet (3, 1) L.defs = none := by
  obtain ⟨L, hp, hr, hdef, _, hx, hundef⟩ := render_xrefstream_binds_partial [106, 117, 110, 107, 10] true exRevXUp exGarbageX_noMagic
    exRevXUp_simple (fun _ => by
      show (if true then _ else _)
      rw [if_pos rfl]
      decide +kernel) (by decide +kernel)
  refine ⟨L, hp, hr, ?_, ?_, ?_⟩
  · exact hdef _ List.mem_cons_self (.int 7) (.int 7) rfl
  · exact hdef _ (List.mem_cons_of_mem _ List.mem_cons_self) (.name [67, 97, 116]) (.name [67, 97, 116]) rfl
  · apply hundef <;> decide

/-- the hypotheses of the link are satisfiable: the rendered example is a well-formed `XrefStreamFile` with 3 objects -/
example : ∃ (f : XrefStreamFile) (subs : List (Nat × List SEnt)) (w0 w1 w2 : Nat),
    f.bytes = (renderHistory [106, 117, 110, 107, 10] false [(exRevX, .auto)]).1 ∧ f.WF subs w0 w1 w2 (2, 0) ∧ f.objs.length = 3 := by
  obtain ⟨f, subs, w0, w1, w2, hb, hwf, _, _, hw, _⟩ := renderHistory_xrefstream_wf_partial [106, 117, 110, 107, 10] false exRevX
    exGarbageX_noMagic exRevX_simple (fun hfl => by cases hfl) (by decide +kernel)
  refine ⟨f, subs, w0, w1, w2, hb, hwf, ?_⟩
  have := congrArg List.length hw
  simpa [exRevX, exObjsX] using this

end Parsley.C03
