/-
  C03 - known finding `xrefstm-self-entry-unchecked` (found while strengthening the generator after seed C03_8: the
  retargeting family with B = the cross-reference stream object).

  C03's second sentence: "A file in which the object found at a cross-reference offset carries a different identifier
  than its entry is rejected."  `parse_objects` (src/pdf_lib/pdf_traverse_xref.rs) skips every in-use entry whose
  identifier is ALREADY REGISTERED, and the cross-reference stream objects are registered while the chain is walked
  (parse_xref_stream runs IndirectP on them).  So the row such a stream has for ITSELF is never compared with what is
  written at its offset: aimed at another object, the file is accepted and loads as if the row were correct.
  `identity_mismatch_rejected` (Props/C03.lean) does not cover it: its hypothesis `hundef` says that the entry's
  identifier is not yet defined - `firstPass_skips_defined` below is the other branch.  The theorems evaluate the
  faithful model on concrete files (the real code gives the same outputs: corpus/C03/known_xrefstm-self-entry-unchecked.case).
  Leaf module: nothing imports it.
-/
import Parsley.Props.C03
import Parsley.Spec.Doc
namespace Parsley.C03
open Parsley Parsley.Loader

/-- the row of the cross-reference stream object 2 for ITSELF says offset 9, where object 1 is written (136 bytes; `|` = LF, rows 00 00 ff / 01 09 00 / 01 09 00):
    `%PDF-1.5|1 0 obj 7 endobj|2 0 obj<</Type/XRef/Size 3/W[1 1 1]/Root 1 0 R/Length 9>>s...` -/
def selfRow : Bytes := [
  37, 80, 68, 70, 45, 49, 46, 53, 10, 49, 32, 48, 32, 111, 98, 106, 32, 55, 32, 101, 110, 100, 111, 98, 106, 10, 50, 32, 48, 32, 111, 98, 106, 60,
  60, 47, 84, 121, 112, 101, 47, 88, 82, 101, 102, 47, 83, 105, 122, 101, 32, 51, 47, 87, 91, 49, 32, 49, 32, 49, 93, 47, 82, 111, 111, 116, 32, 49,
  32, 48, 32, 82, 47, 76, 101, 110, 103, 116, 104, 32, 57, 62, 62, 115, 116, 114, 101, 97, 109, 10, 0, 0, 255, 1, 9, 0, 1, 9, 0, 10, 101, 110, 100,
  115, 116, 114, 101, 97, 109, 32, 101, 110, 100, 111, 98, 106, 10, 115, 116, 97, 114, 116, 120, 114, 101, 102, 10, 50, 54, 10, 37, 37, 69, 79, 70,
  10]

/-- control 1: the same file with the correct row (offset 26) -/
def selfRowOk : Bytes := [
  37, 80, 68, 70, 45, 49, 46, 53, 10, 49, 32, 48, 32, 111, 98, 106, 32, 55, 32, 101, 110, 100, 111, 98, 106, 10, 50, 32, 48, 32, 111, 98, 106, 60,
  60, 47, 84, 121, 112, 101, 47, 88, 82, 101, 102, 47, 83, 105, 122, 101, 32, 51, 47, 87, 91, 49, 32, 49, 32, 49, 93, 47, 82, 111, 111, 116, 32, 49,
  32, 48, 32, 82, 47, 76, 101, 110, 103, 116, 104, 32, 57, 62, 62, 115, 116, 114, 101, 97, 109, 10, 0, 0, 255, 1, 9, 0, 1, 26, 0, 10, 101, 110, 100,
  115, 116, 114, 101, 97, 109, 32, 101, 110, 100, 111, 98, 106, 10, 115, 116, 97, 114, 116, 120, 114, 101, 102, 10, 50, 54, 10, 37, 37, 69, 79, 70,
  10]

/-- control 2: objects 1, 2 and cross-reference stream 3; the row of the ORDINARY object 2 says offset 9 (object 1) -/
def ordinaryRow : Bytes := [
  37, 80, 68, 70, 45, 49, 46, 53, 10, 49, 32, 48, 32, 111, 98, 106, 32, 55, 32, 101, 110, 100, 111, 98, 106, 10, 50, 32, 48, 32, 111, 98, 106, 32,
  56, 32, 101, 110, 100, 111, 98, 106, 10, 51, 32, 48, 32, 111, 98, 106, 60, 60, 47, 84, 121, 112, 101, 47, 88, 82, 101, 102, 47, 83, 105, 122, 101,
  32, 52, 47, 87, 91, 49, 32, 49, 32, 49, 93, 47, 82, 111, 111, 116, 32, 49, 32, 48, 32, 82, 47, 76, 101, 110, 103, 116, 104, 32, 49, 50, 62, 62,
  115, 116, 114, 101, 97, 109, 10, 0, 0, 255, 1, 9, 0, 1, 9, 0, 1, 43, 0, 10, 101, 110, 100, 115, 116, 114, 101, 97, 109, 32, 101, 110, 100, 111, 98,
  106, 10, 115, 116, 97, 114, 116, 120, 114, 101, 102, 10, 52, 51, 10, 37, 37, 69, 79, 70, 10]

/-- the branch of the first pass that `identity_mismatch_rejected` excludes by `hundef`: an entry whose identifier is
    already defined is skipped, whatever its offset - nothing at `ofs` is read -/
theorem firstPass_skips_defined (id gen ofs : Nat) (t : List ObjInfo) (c : Indirect.Ctx) (s : Bytes)
    (os : List Indirect.ObjId) (sp : List (Nat × Nat × Nat))
    (hdef : (Indirect.defsGet (id, gen) c.defs).isSome = true) :
    firstPass (.inFile id gen ofs :: t) c s os sp = firstPass t c s os sp := by
  rw [firstPass]
  simp [hdef]

/-- **Known finding C03-xrefstm-self-entry-unchecked.**  At offset 9 - the offset of the row of object (2,0) - the
    identifier (1,0) is spelled (`DocSpec.headerAt`, the oracle's reader), yet the file is accepted: 2 objects defined,
    object 1 = 7, root (1,0), exactly as for the file with the correct row; the same mismatch on the row of an ordinary
    object is rejected. -/
theorem xrefstm_self_entry_unchecked_witness :
    DocSpec.headerAt selfRow 9 = some (1, 0) ∧
    (nDefs (parseData selfRow) = 2 ∧ isIntVal (lookupDef (parseData selfRow) (1, 0)) 7 = true ∧
      (lookupDef (parseData selfRow) (2, 0)).isSome = true ∧ rootIs (parseData selfRow) (1, 0) = true) ∧
    (nDefs (parseData selfRowOk) = 2 ∧ isIntVal (lookupDef (parseData selfRowOk) (1, 0)) 7 = true ∧ rootIs (parseData selfRowOk) (1, 0) = true) ∧
    (DocSpec.headerAt ordinaryRow 9 = some (1, 0) ∧ isRejected (parseData ordinaryRow) = true) := by
  decide +kernel

end Parsley.C03
