import Parsley.Model.Loader
import Parsley.Spec.Doc
namespace Parsley.C04
end Parsley.C04
