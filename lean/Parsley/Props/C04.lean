/-
  C04 - The newest revision wins across incremental updates.

  All theorems are about the faithful model `Parsley.Loader` (Model/Loader.lean) of
  src/pdf_lib/pdf_traverse_xref.rs.  The loop lemmas live in Lemmas/LoaderChain.lean.

  What is proved, for ALL inputs:
    prev_cycle_or_oob_rejected   a /Prev chain that revisits an offset or leaves the file is rejected -
                                 at the loop head, and one step ahead for every value a section's /Prev
                                 can take (itself, any section already visited, any offset >= |file|);
                                 every accepted chain has at most |file| sections (no fuel needed).
    root_from_newest             the root reported is the /Root of the newest section.
    merge_is_newest_wins_partial the entries kept are exactly the first occurrence of every
                                 (number, generation) along the chain, newest section first; when
                                 generations are stable per number, exactly the NEWEST entry of every
                                 object number survives, so a number whose newest entry is free is
                                 not collected for loading, and an in-use number is loaded from its
                                 newest offset.
  FOLLOW-UP (C03b): the composition with the loading stage - the statement about the FINAL CONTEXT - is in
  Props/C04Ctx.lean (`newest_wins_written_partial`, Lemmas/LoaderStage.lean).
  `_partial`: the statement of C04 is about the final context.  The step from "entries collected"
  to "objects defined" is the object-loading stage (C03's staged theorems); it is NOT closed here
  for object-stream members, and the theorem needs stable generations - both exclusions are real
  defects of the code (known findings, witness theorems below), not proof gaps.
-/
import Parsley.Lemmas.LoaderChain
namespace Parsley.C04
open Parsley Parsley.Obj Parsley.Loader Parsley.LoaderChain

/-- `.inFile id g o` is collected iff some kept entry says "id, generation g, in use at o" -/
theorem infoOf_inFile (X : List Xref.Ent) (id g o : Nat) :
    ObjInfo.inFile id g o ∈ infoOf X ↔ ∃ e ∈ X, e.obj = id ∧ e.gen = g ∧ e.st = .inUse o := by
  induction X with
  | nil => simp [infoOf]
  | cons e t ih =>
    unfold infoOf
    cases hst : e.st with
    | free n => simp only [ih, List.mem_cons, exists_eq_or_imp, hst]; simp
    | inUse ofs =>
      simp only [List.mem_cons, ih, exists_eq_or_imp, hst, ObjInfo.inFile.injEq, Xref.Status.inUse.injEq]
      constructor
      · rintro (⟨h1, h2, h3⟩ | h)
        · exact Or.inl ⟨h1.symm, h2.symm, h3.symm⟩
        · exact Or.inr h
      · rintro (⟨h1, h2, h3⟩ | h)
        · exact Or.inl ⟨h1.symm, h2.symm, h3.symm⟩
        · exact Or.inr h
    | inStream so idx => simp only [ih, List.mem_cons, exists_eq_or_imp, hst]; simp

/-- **prev_cycle_or_oob_rejected** -/
theorem prev_cycle_or_oob_rejected :
    -- (1) at the head of the loop: an offset already visited, or not inside the file, is rejected
    (∀ (f : Nat) (st : St) (s : Bytes) (next : Nat) (cs : List Nat) (ids : List (Nat × Nat)) (xs : List Xref.Ent)
        (root : Option Obj), (cs.contains next = true ∨ ¬ next < s.length) →
        ∃ st', xrefLoop (f + 1) st s next cs ids xs root = (.reject, st')) ∧
    -- (2) for every /Prev value of a section that was read: itself, a visited offset, or >= |file|
    (∀ (f : Nat) (st : St) (s : Bytes) (next : Nat) (cs : List Nat) (ids : List (Nat × Nat)) (xs : List Xref.Ent)
        (root : Option Obj) (ents : List Xref.Ent) (rt : Option Obj) (p c1 : Nat) (st1 : St),
        ¬ cs.contains next = true → next < s.length →
        parseXrefSection st s next = (.ok (some (ents, rt, some p)), c1, st1) →
        (root ≠ none ∨ rt ≠ none) → (p = next ∨ cs.contains p = true ∨ ¬ p < s.length) →
        ∃ st', xrefLoop (f + 2) st s next cs ids xs root = (.reject, st')) ∧
    -- (3) an accepted chain visits at most |file| sections, and more fuel changes nothing
    (∀ (st : St) (s : Bytes) (start : Nat) (X : List Xref.Ent) (r : Obj) (st' : St),
        getXrefInfo st s start = (.ok (X, r), st') →
        ∃ infos, Chain s st start [] infos ∧ infos.length ≤ s.length) ∧
    (∀ (st : St) (s : Bytes) (start g : Nat),
        xrefLoop (s.length + 1 + g) st s start [] [] [] none = getXrefInfo st s start) :=
  ⟨prev_revisit_or_oob_rejected, prev_chain_step_rejected,
   fun st s start X r st' h => by
     obtain ⟨infos, hc, hl, _⟩ := getXrefInfo_merges_chain st s start X r st' h
     exact ⟨infos, hc, hl⟩,
   getXrefInfo_fuel_stable⟩

/-- **root_from_newest** -/
theorem root_from_newest (st : St) (s : Bytes) (start : Nat) (X : List Xref.Ent) (r : Obj) (st' : St)
    (h : getXrefInfo st s start = (.ok (X, r), st')) :
    ∃ ents prev c st1, firstInfo st s start = (.ok (some (ents, some r, prev)), c, st1) :=
  LoaderChain.root_from_newest st s start X r st' h

/-- all entries of one object number carry the same generation -/
def StableGen (L : List Xref.Ent) : Prop := ∀ a ∈ L, ∀ b ∈ L, a.obj = b.obj → a.gen = b.gen

/-- **merge_is_newest_wins_partial** (stable generations; the step to the context is C03's). -/
theorem merge_is_newest_wins_partial (st : St) (s : Bytes) (start : Nat) (X : List Xref.Ent) (r : Obj) (st' : St)
    (h : getXrefInfo st s start = (.ok (X, r), st')) :
    ∃ infos : List SectInfo, Chain s st start [] infos ∧
      -- the entries kept: first occurrence of every (number, generation), newest section first
      X = dedupKey (infos.map (·.1)).flatten [] ∧
      (StableGen (infos.map (·.1)).flatten →
        -- per object number exactly the newest entry survives
        (∀ n, X.filter (·.obj == n) = ((infos.map (·.1)).flatten.find? (·.obj == n)).toList) ∧
        -- a number whose newest entry is free is not loaded from any offset
        (∀ n e nx, (infos.map (·.1)).flatten.find? (·.obj == n) = some e → e.st = .free nx →
            ∀ g o, ObjInfo.inFile n g o ∉ infoOf X) ∧
        -- a number whose newest entry is in use is loaded from that entry's offset, and from no other
        (∀ n e o, (infos.map (·.1)).flatten.find? (·.obj == n) = some e → e.st = .inUse o →
            (ObjInfo.inFile n e.gen o ∈ infoOf X ∧ ∀ g o', ObjInfo.inFile n g o' ∈ infoOf X → g = e.gen ∧ o' = o))) := by
  obtain ⟨infos, hc, _, hX⟩ := getXrefInfo_merges_chain st s start X r st' h
  refine ⟨infos, hc, hX, fun hst => ?_⟩
  have hfil : ∀ n, X.filter (·.obj == n) = ((infos.map (·.1)).flatten.find? (·.obj == n)).toList := by
    intro n; rw [hX]; exact stable_gen_first_per_number _ hst n
  have honly : ∀ n e, (infos.map (·.1)).flatten.find? (·.obj == n) = some e → ∀ e' ∈ X, e'.obj = n → e' = e := by
    intro n e hf e' he' hn
    have hm : e' ∈ X.filter (·.obj == n) := by simp [List.mem_filter, he', hn]
    rw [hfil n, hf] at hm
    simpa using hm
  have hin : ∀ n e, (infos.map (·.1)).flatten.find? (·.obj == n) = some e → e ∈ X ∧ e.obj = n := by
    intro n e hf
    have hm : e ∈ X.filter (·.obj == n) := by rw [hfil n, hf]; simp
    have := List.mem_filter.mp hm
    exact ⟨this.1, by simpa using this.2⟩
  refine ⟨hfil, ?_, ?_⟩
  · intro n e nx hf hfree g o hmem
    obtain ⟨e', he', hn, _, hs⟩ := (infoOf_inFile X n g o).mp hmem
    have := honly n e hf e' he' hn
    subst this
    rw [hfree] at hs
    cases hs
  · intro n e o hf huse
    obtain ⟨heX, hen⟩ := hin n e hf
    refine ⟨(infoOf_inFile X n e.gen o).mpr ⟨e, heX, hen, rfl, huse⟩, ?_⟩
    intro g o' hmem
    obtain ⟨e', he', hn, hg, hs⟩ := (infoOf_inFile X n g o').mp hmem
    have := honly n e hf e' he' hn
    subst this
    rw [huse] at hs
    exact ⟨hg.symm, by cases hs; rfl⟩

/-! ## non-vacuity and witnesses on concrete files (evaluated by the kernel on the model) -/

def lookupDef (o : Out Loaded) (id : Nat × Nat) : Option Obj :=
  match o with
  | .ok l => ObjStm.defsGet id l.defs
  | _ => none

def isIntVal (o : Option Obj) (n : Int) : Bool :=
  match o with
  | some (.int m) => m == n
  | _ => false

def isStr (o : Option Obj) (b : Bytes) : Bool :=
  match o with
  | some (.str x) => x == b
  | _ => false

def isRejected : Out Loaded → Bool
  | .reject => true
  | _ => false

def rootIs (o : Out Loaded) (id : Nat × Nat) : Bool :=
  match o with
  | .ok l => l.root == id
  | _ => false

/-- base revision (objects 1 = 7, 2 = 8), then an update with the single entry `0000000000 00000 f` for 2 -/
def freeStable : Bytes := [
  37, 80, 68, 70, 45, 49, 46, 53, 10, 49, 32, 48, 32, 111, 98, 106, 32, 55, 32, 101, 110, 100, 111, 98, 106, 10, 50, 32, 48, 32, 111, 98, 106, 32, 56, 32, 101, 110, 100, 111,
  98, 106, 10, 120, 114, 101, 102, 10, 48, 32, 49, 10, 48, 48, 48, 48, 48, 48, 48, 48, 48, 48, 32, 54, 53, 53, 51, 53, 32, 102, 32, 10, 49, 32, 49, 10, 48, 48, 48, 48,
  48, 48, 48, 48, 48, 57, 32, 48, 48, 48, 48, 48, 32, 110, 32, 10, 50, 32, 49, 10, 48, 48, 48, 48, 48, 48, 48, 48, 50, 54, 32, 48, 48, 48, 48, 48, 32, 110, 32, 10,
  116, 114, 97, 105, 108, 101, 114, 60, 60, 47, 83, 105, 122, 101, 32, 51, 47, 82, 111, 111, 116, 32, 49, 32, 48, 32, 82, 62, 62, 10, 115, 116, 97, 114, 116, 120, 114, 101, 102, 10,
  52, 51, 10, 37, 37, 69, 79, 70, 10, 120, 114, 101, 102, 10, 50, 32, 49, 10, 48, 48, 48, 48, 48, 48, 48, 48, 48, 48, 32, 48, 48, 48, 48, 48, 32, 102, 32, 10, 116, 114,
  97, 105, 108, 101, 114, 60, 60, 47, 83, 105, 122, 101, 32, 51, 47, 82, 111, 111, 116, 32, 49, 32, 48, 32, 82, 47, 80, 114, 101, 118, 32, 52, 51, 62, 62, 10, 115, 116, 97, 114,
  116, 120, 114, 101, 102, 10, 49, 54, 57, 10, 37, 37, 69, 79, 70, 10]

/-- the same history with the generation bump the standard asks for: `0000000000 00001 f` -/
def freeBump : Bytes := [
  37, 80, 68, 70, 45, 49, 46, 53, 10, 49, 32, 48, 32, 111, 98, 106, 32, 55, 32, 101, 110, 100, 111, 98, 106, 10, 50, 32, 48, 32, 111, 98, 106, 32, 56, 32, 101, 110, 100, 111,
  98, 106, 10, 120, 114, 101, 102, 10, 48, 32, 49, 10, 48, 48, 48, 48, 48, 48, 48, 48, 48, 48, 32, 54, 53, 53, 51, 53, 32, 102, 32, 10, 49, 32, 49, 10, 48, 48, 48, 48,
  48, 48, 48, 48, 48, 57, 32, 48, 48, 48, 48, 48, 32, 110, 32, 10, 50, 32, 49, 10, 48, 48, 48, 48, 48, 48, 48, 48, 50, 54, 32, 48, 48, 48, 48, 48, 32, 110, 32, 10,
  116, 114, 97, 105, 108, 101, 114, 60, 60, 47, 83, 105, 122, 101, 32, 51, 47, 82, 111, 111, 116, 32, 49, 32, 48, 32, 82, 62, 62, 10, 115, 116, 97, 114, 116, 120, 114, 101, 102, 10,
  52, 51, 10, 37, 37, 69, 79, 70, 10, 120, 114, 101, 102, 10, 50, 32, 49, 10, 48, 48, 48, 48, 48, 48, 48, 48, 48, 48, 32, 48, 48, 48, 48, 49, 32, 102, 32, 10, 116, 114,
  97, 105, 108, 101, 114, 60, 60, 47, 83, 105, 122, 101, 32, 51, 47, 82, 111, 111, 116, 32, 49, 32, 48, 32, 82, 47, 80, 114, 101, 118, 32, 52, 51, 62, 62, 10, 115, 116, 97, 114,
  116, 120, 114, 101, 102, 10, 49, 54, 57, 10, 37, 37, 69, 79, 70, 10]

/-- object stream 3 holds members 1 (= 11) and 2 (= 22); cross-reference stream 4 -/
def objstmBase : Bytes := [
  37, 80, 68, 70, 45, 49, 46, 53, 10, 51, 32, 48, 32, 111, 98, 106, 60, 60, 47, 84, 121, 112, 101, 47, 79, 98, 106, 83, 116, 109, 47, 78, 32, 50, 47, 70, 105, 114, 115, 116,
  32, 56, 47, 76, 101, 110, 103, 116, 104, 32, 49, 51, 62, 62, 115, 116, 114, 101, 97, 109, 10, 49, 32, 48, 32, 50, 32, 51, 32, 49, 49, 32, 50, 50, 10, 101, 110, 100, 115, 116,
  114, 101, 97, 109, 32, 101, 110, 100, 111, 98, 106, 10, 52, 32, 48, 32, 111, 98, 106, 60, 60, 47, 84, 121, 112, 101, 47, 88, 82, 101, 102, 47, 83, 105, 122, 101, 32, 53, 47, 87,
  91, 49, 32, 49, 32, 49, 93, 47, 82, 111, 111, 116, 32, 49, 32, 48, 32, 82, 47, 76, 101, 110, 103, 116, 104, 32, 49, 53, 62, 62, 115, 116, 114, 101, 97, 109, 10, 0, 0, 255,
  2, 3, 0, 2, 3, 1, 1, 9, 0, 1, 92, 0, 10, 101, 110, 100, 115, 116, 114, 101, 97, 109, 32, 101, 110, 100, 111, 98, 106, 10, 115, 116, 97, 114, 116, 120, 114, 101, 102, 10,
  57, 50, 10, 37, 37, 69, 79, 70, 10]

/-- the same, followed by an update that redefines object 1 as the string `(new)` -/
def objstmRedef : Bytes := [
  37, 80, 68, 70, 45, 49, 46, 53, 10, 51, 32, 48, 32, 111, 98, 106, 60, 60, 47, 84, 121, 112, 101, 47, 79, 98, 106, 83, 116, 109, 47, 78, 32, 50, 47, 70, 105, 114, 115, 116,
  32, 56, 47, 76, 101, 110, 103, 116, 104, 32, 49, 51, 62, 62, 115, 116, 114, 101, 97, 109, 10, 49, 32, 48, 32, 50, 32, 51, 32, 49, 49, 32, 50, 50, 10, 101, 110, 100, 115, 116,
  114, 101, 97, 109, 32, 101, 110, 100, 111, 98, 106, 10, 52, 32, 48, 32, 111, 98, 106, 60, 60, 47, 84, 121, 112, 101, 47, 88, 82, 101, 102, 47, 83, 105, 122, 101, 32, 53, 47, 87,
  91, 49, 32, 49, 32, 49, 93, 47, 82, 111, 111, 116, 32, 49, 32, 48, 32, 82, 47, 76, 101, 110, 103, 116, 104, 32, 49, 53, 62, 62, 115, 116, 114, 101, 97, 109, 10, 0, 0, 255,
  2, 3, 0, 2, 3, 1, 1, 9, 0, 1, 92, 0, 10, 101, 110, 100, 115, 116, 114, 101, 97, 109, 32, 101, 110, 100, 111, 98, 106, 10, 115, 116, 97, 114, 116, 120, 114, 101, 102, 10,
  57, 50, 10, 37, 37, 69, 79, 70, 10, 49, 32, 48, 32, 111, 98, 106, 32, 40, 110, 101, 119, 41, 32, 101, 110, 100, 111, 98, 106, 10, 120, 114, 101, 102, 10, 49, 32, 49, 10, 48,
  48, 48, 48, 48, 48, 48, 50, 48, 57, 32, 48, 48, 48, 48, 48, 32, 110, 32, 10, 116, 114, 97, 105, 108, 101, 114, 60, 60, 47, 83, 105, 122, 101, 32, 53, 47, 82, 111, 111, 116,
  32, 49, 32, 48, 32, 82, 47, 80, 114, 101, 118, 32, 57, 50, 62, 62, 10, 115, 116, 97, 114, 116, 120, 114, 101, 102, 10, 50, 51, 48, 10, 37, 37, 69, 79, 70, 10]

/-- non-vacuity of the newest-wins statement: a free entry with the SAME generation removes the object -/
example : isIntVal (lookupDef (parseData freeStable) (1, 0)) 7 = true ∧
    (lookupDef (parseData freeStable) (2, 0)).isNone = true ∧ rootIs (parseData freeStable) (1, 0) = true := by
  decide +kernel

/-- **Known finding C04-generation-changed (#29).**  The update frees object 2 with the generation
    bump `00001 f`; the loader keeps one entry per (number, generation), so (2,0) stays defined. -/
theorem free_with_bumped_generation_witness :
    isIntVal (lookupDef (parseData freeBump) (2, 0)) 8 = true := by
  decide +kernel

/-- the base revision of the next witness loads both members -/
example : isIntVal (lookupDef (parseData objstmBase) (1, 0)) 11 = true ∧
    isIntVal (lookupDef (parseData objstmBase) (2, 0)) 22 = true := by
  decide +kernel

/-- **Known finding C04-objstm-member-touched-later (#30).**  After the update that redefines
    member 1 as `(new)`, object 1 is bound to its OLD value 11 (the replayed stream overwrites the
    newer definition before the duplicate is reported) and its stream neighbour 2 is undefined. -/
theorem objstm_member_redefined_witness :
    isIntVal (lookupDef (parseData objstmRedef) (1, 0)) 11 = true ∧
    isStr (lookupDef (parseData objstmRedef) (1, 0)) [110, 101, 119] = false ∧
    (lookupDef (parseData objstmRedef) (2, 0)).isNone = true := by
  decide +kernel

end Parsley.C04
