/-
  C04 - the MOST GENERAL end-to-end theorem for histories: any number of revisions, each one a classic table, a
  cross-reference stream or a HYBRID section (in any mix, chained through /Prev); OBJECT STREAMS whose members are named
  by rows of type 2 of plain cross-reference streams or of /XRefStm streams; stream objects - the object streams
  included - whose /Length is direct or a FORWARD REFERENCE (`/Length n 0 R`, holder loaded later: second pass of
  `parse_objects`).  Multi-revision analogue of C03's `load_xrefstream_all` / `load_hybrid_all`.
  Proofs: Lemmas/LoaderE2EHistAll.lean (`stage_merged_two_pass_objstm`, geometry), LoaderE2EHistAll2.lean
  (`HybMixFile.WFall`, the walk, the merge), LoaderE2EHistAll3.lean (`load_hybmix_all`), LoaderE2EHistAllSpec.lean.

    newest_wins_history_all        FULL (no `_partial`): for every `HybMixFile` that is `WFall root ws dep`: `parseData file
                                   = ok L`, the newest root, and exactly the clauses of
                                   `newest_wins_history_hybrid_objstm`: per object number the NEWEST section that mentions
                                   it decides (`Decides` for in-use / free entries, `DecidesStm` for rows of type 2), every
                                   member of every object stream is bound, unmentioned numbers are undefined.
    newest_wins_history_all_objs   read from the objects written.
    newest_wins_history_all_spec   the final definitions are exactly the bindings of `DocSpec.resolve`.
    wfo_is_all                     `HybMixFile.WFo` (Props/C04HybObjStm.lean) is the special case `dep := fun _ => none`.

  `HybMixFile.WFall f root ws dep` differs from `HybMixFile.WFo f root ws` in three places.
    revsOk    only the SECTION part of the lexical conditions (`HRevSecOK` = `ClassicOK` / `StmOK2` / `HybOK2` minus
              `reads`, `reads1`, `reads2`).  Every cross-reference stream object (plain or /XRefStm) keeps its DIRECT
              /Length: the /Prev walk reads it before any holder is loaded.
    reads     every object other than the cross-reference stream objects (`HRev.others`) is `PieceOK dep`: it reads in
              every context, or it reads once its holder is bound and fails with InsufficientContext before.  The object
              streams `ws` are among these objects: a CONTAINER may have a forward /Length too.
    holders   for a dependent stream `p` of revision `q` that is LOADED (no section newer than `q` mentions its number):
              some revision `qh` - older, the same or newer - wrote a FILE-LEVEL object `ph` (not a member of an object
              stream) with the holder's number and generation, `dep ph = none`, value `int len`, and no section newer
              than `qh` mentions the holder's number (mentions are counted on the visible entries `vis`, which mention
              the same numbers as all entries).
    wffwd_is_all                   `MixFile.WFfwd` (Props/C04Fwd.lean) is the special case "every revision `HRev.plain`,
                                   `ws = []`" through the embedding `MixFile.toHyb` (same bytes), given the size bound.
  Not covered: holders that are members of object streams (the real loader reads object streams after both passes, so
  such a stream would stay unread).

  Non-vacuity `exAll`: base revision with a classic table (1 = 7, 2 = 8, 3 = 5); HYBRID update: object stream 3 (members
  11 - hidden: free in the table, row of type 2 in the /XRefStm stream - and 12), /XRefStm stream object 4, and stream 5
  with `/Length 1 0 R` whose holder 1 belongs to the base revision, loaded AFTER the update's entries: stream 5 is read
  by the second pass, then the object-stream pass binds 11 and 12.
-/
import Parsley.Lemmas.LoaderE2EHistAll3
import Parsley.Lemmas.LoaderE2EHistAllSpec
import Parsley.Lemmas.LoaderE2EHistAllEmb
import Parsley.Props.C04HybObjStm
import Parsley.Props.C04Fwd
namespace Parsley.C04
open Parsley Parsley.Prim Parsley.Obj Parsley.Indirect Parsley.Loader Parsley.C02 Parsley.Spelling Parsley.LoaderE2E
open Parsley.XrefSpec Parsley.C13 Parsley.LoaderChain Parsley.LoaderObjStm
open Parsley.C03 (bR bXS rawCh exBXs exBXs_ok exBSSubs)

/-- **newest_wins_history_all** (C04 end to end, the most general history).  `f.segs` are the revisions with their
    offsets, oldest first; `f.segs = pre ++ q :: post` names a revision `q` together with the NEWER ones `post`;
    `q.1.vis` are the visible entries of its section, `q.1.ents` all its entries, `hobjsOf q` its objects with their
    offsets, `ws` the object streams, `dep` marks the streams with a referenced /Length. -/
theorem newest_wins_history_all (f : HybMixFile) (root : ObjId) (ws : List WCont) (dep : Piece → Option (ObjId × Int))
    (h : f.WFall root ws dep) :
    ∃ L : Loaded, parseData f.bytes = .ok L ∧ L.root = root ∧
      (∀ pre q post, f.segs = pre ++ q :: post → ∀ e ∈ q.1.vis,
        (∀ q' ∈ post, ∀ e' ∈ q'.1.ents, e'.obj ≠ e.obj) → Decides (hobjsOf q) L.defs e ∧ DecidesStm ws L.defs e) ∧
      (∀ w ∈ ws, ∀ m ∈ w.mems, ObjStm.defsGet (m.num, 0) L.defs = some m.v) ∧
      (∀ n, (∀ q ∈ f.segs, ∀ e ∈ q.1.ents, e.obj ≠ n) → ∀ g, ObjStm.defsGet (n, g) L.defs = none) := by
  obtain ⟨L, hL, hroot, hdec, hmem, hnone⟩ := load_hybmix_all f root ws dep h
  refine ⟨L, hL, hroot, ?_, hmem, ?_⟩
  · intro pre q post hseg e he hno
    exact hdec pre q post hseg e he (fun q' hq' e' he' => hno q' hq' e' (q'.1.vis_sub e' he'))
  · intro n hn
    exact hnone n (fun q hq e he => hn q hq e (q.1.vis_sub e he))

/-- **newest_wins_history_all_objs**: read from the objects written -/
theorem newest_wins_history_all_objs (f : HybMixFile) (root : ObjId) (ws : List WCont)
    (dep : Piece → Option (ObjId × Int)) (h : f.WFall root ws dep) :
    ∃ L : Loaded, parseData f.bytes = .ok L ∧ L.root = root ∧
      (∀ pre q post, f.segs = pre ++ q :: post → ∀ p ∈ hobjsOf q,
        (∀ q' ∈ post, ∀ e' ∈ q'.1.ents, e'.obj ≠ p.1.num) →
        ObjStm.defsGet (p.1.num, p.1.gen) L.defs = some (p.1.val p.2).val) ∧
      (∀ w ∈ ws, ∀ m ∈ w.mems, ObjStm.defsGet (m.num, 0) L.defs = some m.v) :=
  load_hybmix_all_objs f root ws dep h

/-- **newest_wins_history_all_spec**: in the vocabulary of Spec/Doc.lean -/
theorem newest_wins_history_all_spec (f : HybMixFile) (root : ObjId) (ws : List WCont)
    (dep : Piece → Option (ObjId × Int)) (rt : HRev × Nat → ObjId) (h : f.WFall root ws dep)
    (hrt : ∀ q, f.segs.getLast? = some q → rt q = root) :
    ∃ L : Loaded, parseData f.bytes = .ok L ∧
      (DocSpec.resolve (f.saidsO ws rt)).2 = some L.root ∧
      ∀ (k : ObjId) (v : Obj), (k, v) ∈ (DocSpec.resolve (f.saidsO ws rt)).1 ↔ ObjStm.defsGet k L.defs = some v :=
  load_hybmix_all_spec f root ws dep rt h hrt

/-- the hypotheses of `newest_wins_history_hybrid_objstm` are the special case without dependent streams -/
theorem wfo_is_all (f : HybMixFile) (root : ObjId) (ws : List WCont) (h : f.WFo root ws) :
    f.WFall root ws (fun _ => none) := h.toAll

/-- the hypotheses of `newest_wins_history_fwd` (Props/C04Fwd.lean) are the special case without hybrid sections and
    object streams, through the embedding `MixFile.toHyb`; the file is the same -/
theorem wffwd_is_all (f : MixFile) (root : ObjId) (dep : Piece → Option (ObjId × Int)) (h : f.WFfwd root dep)
    (hsize : f.garbage.length + f.view.length ≤ 2 ^ 63) :
    f.toHyb.WFall root [] dep ∧ f.toHyb.bytes = f.bytes :=
  ⟨h.toAll hsize, f.toHyb_bytes⟩

/-- the earlier witnesses are instances -/
example : exFwdM.toHyb.WFall (1, 0) [] exDepM := (wffwd_is_all _ _ _ exFwdM_wf (by decide +kernel)).1

/-- the earlier witness `exHO` is an instance -/
example : exHO.WFall (1, 0) [exHOW] (fun _ => none) := wfo_is_all _ _ _ exHO_wf

/-! ## non-vacuity: `exHO` with a stream object 5 (`/Length 1 0 R`, seven data bytes) added to the hybrid update, after
    the /XRefStm stream object; table `2 3`, `5 1` (5 in use at 371), `11 1` -/

/-- `<</Length 1 0 R>>` -/
theorem exRefDict1_spells : Spells 2 (.dict [([76, 101, 110, 103, 116, 104], .ref 1 0)])
    [60, 60, 47, 76, 101, 110, 103, 116, 104, 32, 49, 32, 48, 32, 82, 62, 62] := by
  have r1 : Spells 1 (.ref 1 0) [49, 32, 48, 32, 82] :=
    Spells.ref 0 [49] [32] [48] [32] (by simp) (by decide) (by decide) (by simp) (by decide) (by decide)
      C03.ws32 (by simp) C03.ws32 (by simp)
  have kL : (nameBody [76, 101, 110, 103, 116, 104] [1, 0, 0, 1, 0, 0, 1, 0, 0, 1, 0, 0, 1, 0, 0, 1, 0, 0]).1 = [76, 101, 110, 103, 116, 104] := by decide
  have d0 : SpellsEntries 1 [] [([76, 101, 110, 103, 116, 104], .ref 1 0)] [47, 76, 101, 110, 103, 116, 104, 32, 49, 32, 48, 32, 82] := by
    have := SpellsEntries.cons 1 [] [76, 101, 110, 103, 116, 104] (.ref 1 0) [] [] [1, 0, 0, 1, 0, 0, 1, 0, 0, 1, 0, 0, 1, 0, 0, 1, 0, 0] [32] _ _ WsRun.nil (by decide) (by simp) C03.ws32
      r1 (fun _ => by simp) (SpellsEntries.nil 1 _)
    rw [kL] at this
    exact this
  exact Spells.dict 1 _ _ [] d0 WsRun.nil

/-- `5 0 obj<</Length 1 0 R>>stream LF 1234567 LF endstream SP endobj` -/
def exStmZ : WStm := ⟨[], [53], [32], [48], [32], [], [60, 60, 47, 76, 101, 110, 103, 116, 104, 32, 49, 32, 48, 32, 82, 62, 62], [], [10],
  [49, 50, 51, 52, 53, 54, 55], [10], [32], [([76, 101, 110, 103, 116, 104], .ref 1 0)], 2⟩

theorem exStmZ_ok : exStmZ.OK where
  head := {
    pad := WsRun.nil
    nne := by simp [exStmZ, WStm.head]
    ndig := by decide
    nfit := by decide
    w1 := C03.ws32
    w1ne := by simp [exStmZ, WStm.head]
    gne := by simp [exStmZ, WStm.head]
    gdig := by decide
    gfit := by decide
    w2 := C03.ws32
    w3 := WsRun.nil
    spells := exRefDict1_spells
    depth := by decide
    w4 := WsRun.nil
    w4req := by intro h; simp [exStmZ, WStm.head, endsReg] at h }
  e1 := by decide
  e2 := by decide
  w4 := C03.ws32

/-- `5 1`: object 5 in use at 371 -/
def exAllSub5 : TSub := ⟨5, 1, 1, [], [10], [⟨371, 0, true, .spLf⟩]⟩

/-- the hybrid update of `exHO` with the dependent stream 5 written after the /XRefStm stream object -/
def exAllSeg : HybSeg where
  body1 := [⟨exStm.piece, [10]⟩]
  xs := exBXs
  xpost := [10]
  body2 := [⟨exStmZ.piece, [10]⟩]
  subs := [exHOSub2, exAllSub5, exHOSub11]
  wt := []
  ttok := exHOTrTok
  gap := [10]
  ssubs := exBSSubs
  v0 := 1
  v1 := 1
  v2 := 1

/-- `%PDF-1.5 LF <1 = 7> <2 = 8> <3 = 5> xref 0 4 … trailer<</Root 1 0 R>> startxref 60 %%EOF
    <3 = object stream: 11 = 11, 12 = true> <4 = /XRefStm stream> <5 = stream 1234567, /Length 1 0 R>
    xref 2 3 … 5 1 … 11 1 … trailer<</Root 1 0 R/Prev 60/XRefStm 281>> startxref 427 %%EOF` -/
def exAll : HybMixFile where
  garbage := []
  hdrRest := [49, 46, 53, 10]
  revs := [.plain (.classic exRev1 exD1), .hybrid exAllSeg (dictOf exHOTrEnts)]
  wsx := [10]
  ds := [52, 50, 55]
  e := [10]
  trail := [10]

/-- stream 5 depends on object 1 -/
def exDepA (p : Piece) : Option (ObjId × Int) := if p.num == 5 then some ((1, 0), 7) else none

theorem exAllSeg_sok : HybSecOK2 exAllSeg (dictOf exHOTrEnts) where
  subsNe := by simp [exAllSeg]
  subsOk := by
    intro t ht
    simp only [exAllSeg, List.mem_cons, List.mem_nil_iff, or_false] at ht
    rcases ht with rfl | rfl | rfl
    · exact ⟨by decide +kernel, by simp [exHOSub2]⟩
    · exact ⟨by decide +kernel, by simp [exAllSub5]⟩
    · exact ⟨by decide +kernel, by simp [exHOSub11]⟩
  wt := WsRun.nil
  trailer := ⟨2, exHOTrailer_spells, by decide⟩
  noEncrypt := rfl
  xsOK := exBXs_ok
  xsLen := rfl
  dict := {
    type := rfl
    size := ⟨13, rfl, Or.inl rfl⟩
    hw := rfl
    hw0 := by decide
    hw1 := by decide
    hw1pos := by decide
    hw2 := by decide }
  stored := LoaderE2E.Stored.plain [] rfl
  fits := by decide
  lim := by decide
  numsNodup := by decide +kernel
  noClash := by decide +kernel

set_option maxRecDepth 100000 in
theorem exAll_segs : exAll.segs = [(.plain (.classic exRev1 exD1), 9), (.hybrid exAllSeg (dictOf exHOTrEnts), 191)] := by rfl

theorem exAll_ents :
    (HRev.hybrid exAllSeg (dictOf exHOTrEnts)).ents =
      [⟨2, 0, .free 0⟩, ⟨3, 0, .inUse 191⟩, ⟨4, 0, .inUse 281⟩, ⟨5, 0, .inUse 371⟩, ⟨11, 65535, .free 0⟩,
       ⟨11, 0, .inStream 3 0⟩, ⟨12, 0, .inStream 3 1⟩] ∧
    (HRev.hybrid exAllSeg (dictOf exHOTrEnts)).vis =
      [⟨2, 0, .free 0⟩, ⟨3, 0, .inUse 191⟩, ⟨4, 0, .inUse 281⟩, ⟨5, 0, .inUse 371⟩,
       ⟨11, 0, .inStream 3 0⟩, ⟨12, 0, .inStream 3 1⟩] := by
  decide +kernel

set_option maxRecDepth 100000 in
theorem exAll_objs2 : hobjsOf (HRev.hybrid exAllSeg (dictOf exHOTrEnts), 191) =
    [(exStm.piece, 191), (exBXs.piece, 281), (exStmZ.piece, 371)] := by
  rfl

theorem exDepA_z : exDepA exStmZ.piece = some ((1, 0), 7) := by decide +kernel
theorem exDepA_stm : exDepA exStm.piece = none := by decide +kernel
theorem exDepA_xs : exDepA exBXs.piece = none := by decide +kernel
theorem exDepA_o1 : exDepA C03.exObj1.piece = none := by decide +kernel
theorem exDepA_a2 : exDepA exA2.piece = none := by decide +kernel
theorem exDepA_a3 : exDepA exA3.piece = none := by decide +kernel

/-- **`HybMixFile.WFall` is satisfiable** with a hybrid section, a hidden object-stream member and a stream whose
    forward /Length is resolved in the second pass -/
theorem exAll_wf : exAll.WFall (1, 0) [exHOW] exDepA where
  noMagic := by intro k hk; simp [exAll] at hk
  revsOk := by
    intro m hm
    simp only [exAll, List.mem_cons, List.mem_nil_iff, or_false] at hm
    rcases hm with rfl | rfl
    · exact exRev1_cok.secOnly
    · exact exAllSeg_sok
  reads := by
    intro m hm q hq
    simp only [exAll, List.mem_cons, List.mem_nil_iff, or_false] at hm
    rcases hm with rfl | rfl
    · simp only [HRev.others, MRev.others, exRev1, List.mem_cons, List.mem_nil_iff, or_false] at hq
      rcases hq with rfl | rfl | rfl
      · unfold PieceOK
        rw [exDepA_o1]
        exact C03.exObj1.piece_reads C03.exObj1_ok
      · unfold PieceOK
        rw [exDepA_a2]
        exact exA2.piece_reads exA2_ok
      · unfold PieceOK
        rw [exDepA_a3]
        exact exA3.piece_reads exA3_ok
    · simp only [HRev.others, exAllSeg, List.cons_append, List.nil_append, List.mem_cons, List.mem_nil_iff, or_false] at hq
      rcases hq with rfl | rfl
      · unfold PieceOK
        rw [exDepA_stm]
        exact exStm.piece_reads exStm_ok rfl
      · unfold PieceOK
        rw [exDepA_z]
        exact exStmZ.piece_readsDep exStmZ_ok (1, 0) rfl
  xrefStm := by
    intro q hq
    rw [exAll_segs] at hq
    simp only [List.mem_cons, List.mem_nil_iff, or_false] at hq
    rcases hq with rfl | rfl
    · trivial
    · show ObjStm.getUsize (dictOf exHOTrEnts) kXRefStm = some (191 + (bodyBytes exAllSeg.body1).length)
      decide +kernel
  prevs := by
    rw [exAll_segs]
    exact (HPrevOK_cons _ _ _).mpr ⟨rfl, (HPrevOK_cons _ _ _).mpr ⟨by decide +kernel, trivial⟩⟩
  newest := ⟨_, by rw [exAll_segs]; rfl, rfl, by decide +kernel⟩
  stableGen := by
    unfold StableGen
    decide +kernel
  size := by decide +kernel
  tableObjs := by
    intro q hq
    rw [exAll_segs] at hq
    simp only [List.mem_cons, List.mem_nil_iff, or_false] at hq
    rcases hq with rfl | rfl
    · exact ⟨_, List.Perm.refl _, by decide +kernel⟩
    · exact ⟨_, List.Perm.refl _, by decide +kernel⟩
  notEdited := by
    intro pre q post hseg k hk q' hq'
    rw [exAll_segs] at hseg
    cases pre with
    | nil =>
      simp only [List.nil_append, List.cons.injEq] at hseg
      obtain ⟨rfl, _⟩ := hseg
      cases hk
    | cons a pre' =>
      cases pre' with
      | nil =>
        simp only [List.cons_append, List.nil_append, List.cons.injEq] at hseg
        obtain ⟨_, _, rfl⟩ := hseg
        cases hq'
      | cons b pre'' =>
        have := congrArg List.length hseg
        simp at this
  holders := by
    intro pre q post hseg p hp hk len hd _ _
    have hq : q ∈ exAll.segs := by rw [hseg]; simp
    rw [exAll_segs] at hq
    simp only [List.mem_cons, List.mem_nil_iff, or_false] at hq
    rcases hq with rfl | rfl
    · rw [exHO_objs1] at hp
      simp only [List.mem_cons, List.mem_nil_iff, or_false] at hp
      rcases hp with rfl | rfl | rfl
      · rw [exDepA_o1] at hd; cases hd
      · rw [exDepA_a2] at hd; cases hd
      · rw [exDepA_a3] at hd; cases hd
    · rw [exAll_objs2] at hp
      simp only [List.mem_cons, List.mem_nil_iff, or_false] at hp
      rcases hp with rfl | rfl | rfl
      · rw [exDepA_stm] at hd; cases hd
      · rw [exDepA_xs] at hd; cases hd
      · rw [exDepA_z] at hd
        injection hd with hd
        injection hd with h1 h2
        subst h1 h2
        -- the holder is object 1 of the OLDER revision; the hybrid section does not mention the number 1
        refine ⟨[], _, _, exAll_segs, (C03.exObj1.piece, 9), by rw [exHO_objs1]; simp, rfl, exDepA_o1, rfl, ?_⟩
        intro q' hq'
        simp only [List.mem_cons, List.mem_nil_iff, or_false] at hq'
        subst hq'
        rw [exAll_ents.2]
        decide
  rows := by
    intro q hq e he c i hst
    rw [exAll_segs] at hq
    simp only [List.mem_cons, List.mem_nil_iff, or_false] at hq
    rcases hq with rfl | rfl
    · have hv : (HRev.plain (.classic exRev1 exD1)).vis = (HRev.plain (.classic exRev1 exD1)).ents := rfl
      rw [hv, exHO_ents1] at he
      simp only [List.mem_cons, List.mem_nil_iff, or_false] at he
      rcases he with rfl | rfl | rfl | rfl <;> cases hst
    · rw [exAll_ents.2] at he
      simp only [List.mem_cons, List.mem_nil_iff, or_false] at he
      rcases he with rfl | rfl | rfl | rfl | rfl | rfl
      · cases hst
      · cases hst
      · cases hst
      · cases hst
      · injection hst with hc hi
        subst hc; subst hi
        exact ⟨exHOW, by simp, rfl, _, rfl, rfl⟩
      · injection hst with hc hi
        subst hc; subst hi
        exact ⟨exHOW, by simp, rfl, _, rfl, rfl⟩
  placed := by
    intro w hw
    simp only [List.mem_cons, List.mem_nil_iff, or_false] at hw
    subst hw
    refine ⟨(.hybrid exAllSeg (dictOf exHOTrEnts), 191), by rw [exAll_segs]; simp,
      ⟨_, by rw [exAll_objs2]; simp, exHO_contAt⟩, ?_⟩
    intro m hm
    rw [exAll_ents.2]
    simp only [exHOW, exMems, List.mem_cons, List.mem_nil_iff, or_false] at hm
    rcases hm with rfl | rfl
    · exact ⟨⟨11, 0, .inStream 3 0⟩, by simp, rfl, 0, rfl⟩
    · exact ⟨⟨12, 0, .inStream 3 1⟩, by simp, rfl, 1, rfl⟩
  contsNodup := by simp
  memsNodup := by decide
  untouched := by decide +kernel
  wsx := WsRun.ws 10 [] (by decide) WsRun.nil
  wsxNe := by simp [exAll]
  wsxNoS := by decide
  dsNe := by simp [exAll]
  dsDig := by decide
  ofsFits := by decide
  e := by decide
  trail := noLaterEOF_of_no_percent _ (by decide)

/-- `newest_wins_history_all_objs` applied: the members 11 (hidden) and 12 of the object stream are bound, stream 5 is
    loaded with its seven data bytes although its holder 1 (base revision) is met after it, object 1 is the holder -/
example : ∃ L : Loaded, parseData exAll.bytes = .ok L ∧ L.root = (1, 0) ∧
    ObjStm.defsGet (11, 0) L.defs = some (.int 11) ∧ ObjStm.defsGet (12, 0) L.defs = some (.bool true) ∧
    ObjStm.defsGet (5, 0) L.defs =
      some (.stream [([76, 101, 110, 103, 116, 104], .ref 1 0)] ⟨402, 7, [49, 50, 51, 52, 53, 54, 55]⟩) ∧
    ObjStm.defsGet (1, 0) L.defs = some (.int 7) := by
  obtain ⟨L, h1, h2, hobj, hmem⟩ := newest_wins_history_all_objs exAll _ _ _ exAll_wf
  refine ⟨L, h1, h2, ?_, ?_, ?_, ?_⟩
  · exact hmem exHOW (by simp) ⟨11, [], [], [49, 49], .int 11, 1⟩ (by simp [exHOW, exMems])
  · exact hmem exHOW (by simp) ⟨12, [32, 120], [32], [116, 114, 117, 101], .bool true, 1⟩ (by simp [exHOW, exMems])
  · exact hobj [_] _ [] exAll_segs (exStmZ.piece, 371) (by rw [exAll_objs2]; simp) (by intro q' hq'; cases hq')
  · refine hobj [] _ _ exAll_segs (C03.exObj1.piece, 9) (by rw [exHO_objs1]; simp) ?_
    intro q' hq'
    simp only [List.mem_cons, List.mem_nil_iff, or_false] at hq'
    subst hq'
    rw [exAll_ents.1]
    decide

/-- `newest_wins_history_all` applied, entry by entry: the row of type 2 of the hidden member 11 decides (`DecidesStm`),
    object 2 is freed by the hybrid table, object 6 is mentioned nowhere -/
example : ∃ L : Loaded, parseData exAll.bytes = .ok L ∧ L.root = (1, 0) ∧
    ObjStm.defsGet (11, 0) L.defs = some (.int 11) ∧ (∀ g, g ≠ 0 → ObjStm.defsGet (11, g) L.defs = none) ∧
    (∀ g, ObjStm.defsGet (2, g) L.defs = none) ∧ (∀ g, ObjStm.defsGet (6, g) L.defs = none) := by
  obtain ⟨L, h1, h2, hdec, _, hnone⟩ := newest_wins_history_all exAll _ _ _ exAll_wf
  have hd11 := (hdec [_] (.hybrid exAllSeg (dictOf exHOTrEnts), 191) [] exAll_segs ⟨11, 0, .inStream 3 0⟩
    (by rw [exAll_ents.2]; simp) (by intro q' hq'; cases hq')).2 3 0 rfl
  have hd2 := (hdec [_] (.hybrid exAllSeg (dictOf exHOTrEnts), 191) [] exAll_segs ⟨2, 0, .free 0⟩
    (by rw [exAll_ents.2]; simp) (by intro q' hq'; cases hq')).1
  obtain ⟨w, hw, _, m, hmi, _, hdef, hoth⟩ := hd11
  simp only [List.mem_cons, List.mem_nil_iff, or_false] at hw
  subst hw
  have hm : m = ⟨11, [], [], [49, 49], .int 11, 1⟩ := by
    have : exHOW.mems[0]? = some ⟨11, [], [], [49, 49], .int 11, 1⟩ := rfl
    rw [this] at hmi
    exact (Option.some.inj hmi).symm
  subst hm
  refine ⟨L, h1, h2, hdef, hoth, hd2.2 0 rfl, ?_⟩
  apply hnone 6
  intro q hq
  rw [exAll_segs] at hq
  simp only [List.mem_cons, List.mem_nil_iff, or_false] at hq
  rcases hq with rfl | rfl
  · rw [exHO_ents1]; decide
  · rw [exAll_ents.1]; decide

end Parsley.C04
