/-
  C04 - histories whose cross-reference streams are FlateDecode'd by ANY conformant encoder (follow-up C03e).

  The storage predicate `LoaderE2E.Stored` inside `StmOK` / `StmOK2` / `HybOK` (Lemmas/LoaderE2EHistMix.lean,
  LoaderE2EHistObjStm.lean, LoaderE2EHistHyb.lean) - and `LoaderObjStm.Stored` inside the object-stream containers
  `WCont.Data` - knew FlateDecode only as a zlib stream of STORED blocks.  Both predicates now have constructors that ask
  for the verdict of the modelled inflate only (`Stored.flateAny`, `Stored.flatePredAny`), which C06 proves for every stream
  of the specification's encoders: stored, fixed-Huffman and dynamic-Huffman blocks in any mixture.  All history
  theorems consume the predicate through `stored_decodes` / `decodesTo_of_stored` only, so `newest_wins_history_mix`,
  `_hybrid`, `_objstm`, `_hybrid_objstm`, `_fwd` hold for such files WITHOUT ANY CHANGE to their statements.  Here:

    stmOK_of_flate_encoder                 a stream revision whose rows are held as any `C06.LayerEnc` Flate encoding
                                           (followed by anything) satisfies `StmOK`
    stmOK_of_flate_encoder_pred            the same with a PNG / TIFF predictor in /DecodeParms
    newest_wins_history_mix_anyflate       `newest_wins_history_mix` for a history in which EVERY stream revision is given
                                           that way (`FlateRev`, well-formedness `MixFile.WFz` = `MixFile.WF` with the
                                           storage field replaced by the encoder condition)
  Non-vacuity: `exZMix` - the two-revision file of Props/C04HistMix.lean (classic base, cross-reference stream update with
  /Index and /Prev) with the update's stream compressed as a fixed-Huffman block, a stored block and a final
  DYNAMIC-Huffman block; `exZMix_wf`; the theorem applied (`exZMix_loads`).
-/
import Parsley.Props.C04HistMix
import Parsley.Lemmas.SpellEncoder
namespace Parsley.C04
open Parsley Parsley.Prim Parsley.Obj Parsley.Indirect Parsley.Loader Parsley.C02 Parsley.Spelling Parsley.LoaderE2E
open Parsley.XrefSpec Parsley.C13
open Parsley.C03 (bT bX bS bW bR bL bI)

/-- **stmOK_of_flate_encoder**: `StmOK` with the storage given by a conformant Flate encoder. -/
theorem stmOK_of_flate_encoder (r : StmSeg) (extra : Bytes)
    (xsOK : r.xs.OK) (xsLen : dictGet keyLength r.xs.kvs = some (.int r.xs.data.length))
    (dict : XDictOK r.xs.kvs r.subs r.w0 r.w1 r.w2)
    (hf : dictGet Xref.kFilter r.xs.kvs = some (.name Filters.nFlate)) (hp : dictGet Xref.kDecodeParms r.xs.kvs = none)
    (henc : C06.LayerEnc Filters.nFlate (XrefStreamFile.rowBytes r.subs r.w0 r.w1 r.w2 ++ extra) r.xs.data)
    (fits : ∀ p ∈ r.subs, ∀ e ∈ p.2, e.fits r.w0 r.w1 r.w2) (lim : ∀ p ∈ r.subs, p.1 + p.2.length ≤ Xref.usizeLim)
    (noInStm : ∀ p ∈ r.subs, ∀ e ∈ p.2, e.typ ≤ 1) (numsNodup : ((streamEnts r.subs).map (·.obj)).Nodup)
    (reads1 : ∀ q ∈ r.body1, q.p.Reads) (reads2 : ∀ q ∈ r.body2, q.p.Reads) : StmOK r :=
  { xsOK := xsOK, xsLen := xsLen, dict := dict, stored := stored_of_layerEnc _ _ extra _ hf hp henc, fits := fits, lim := lim,
    noInStm := noInStm, numsNodup := numsNodup, reads1 := reads1, reads2 := reads2 }

/-- **stmOK_of_flate_encoder_pred**: the same with a predictor: the content is a conformant Flate encoding of the
    forward-filtered image of the rows. -/
theorem stmOK_of_flate_encoder_pred (r : StmSeg) (P : List (Bytes × Obj)) (p : PredSpec.Params) (img : List Bytes)
    (xsOK : r.xs.OK) (xsLen : dictGet keyLength r.xs.kvs = some (.int r.xs.data.length))
    (dict : XDictOK r.xs.kvs r.subs r.w0 r.w1 r.w2)
    (hf : dictGet Xref.kFilter r.xs.kvs = some (.name Filters.nFlate)) (hd : dictGet Xref.kDecodeParms r.xs.kvs = some (.dict P))
    (hpred : dictGet kPredictor P = some (.int (p.predictor : Int))) (hcols : dictGet kColumns P = some (.int (p.columns : Int)))
    (hcolors : dictGet kColors P = some (.int (p.colors : Int)) ∨ (dictGet kColors P = none ∧ p.colors = 1))
    (hbpc : dictGet kBpc P = some (.int (p.bpc : Int)) ∨ (dictGet kBpc P = none ∧ p.bpc = 8))
    (hacc : p.accepted) (h1 : p.columns < 18446744073709551616) (h2 : p.colors * p.bpc < 18446744073709551616)
    (h3 : p.columns * p.colors * p.bpc < 18446744073709551616)
    (hrows : ∀ q ∈ img, q.length = PredSpec.rowBytes p.columns p.colors p.bpc) (hne : p.predictor = 2 ∨ img ≠ [])
    (himg : img.flatten = XrefStreamFile.rowBytes r.subs r.w0 r.w1 r.w2)
    (henc : C06.LayerEnc Filters.nFlate (PredSpec.predict p img) r.xs.data)
    (fits : ∀ p ∈ r.subs, ∀ e ∈ p.2, e.fits r.w0 r.w1 r.w2) (lim : ∀ p ∈ r.subs, p.1 + p.2.length ≤ Xref.usizeLim)
    (noInStm : ∀ p ∈ r.subs, ∀ e ∈ p.2, e.typ ≤ 1) (numsNodup : ((streamEnts r.subs).map (·.obj)).Nodup)
    (reads1 : ∀ q ∈ r.body1, q.p.Reads) (reads2 : ∀ q ∈ r.body2, q.p.Reads) : StmOK r :=
  { xsOK := xsOK, xsLen := xsLen, dict := dict,
    stored := Stored.flatePredAny P p img _ hf hd hpred hcols hcolors hbpc hacc h1 h2 h3 hrows hne himg (inflate_of_layerEnc henc rfl),
    fits := fits, lim := lim, noInStm := noInStm, numsNodup := numsNodup, reads1 := reads1, reads2 := reads2 }

/-- a stream revision written with a FlateDecode'd cross-reference stream, by any conformant encoder: `StmOK` with the
    storage field replaced by the encoder condition -/
structure FlateStm (r : StmSeg) : Prop where
  xsOK : r.xs.OK
  xsLen : dictGet keyLength r.xs.kvs = some (.int r.xs.data.length)
  dict : XDictOK r.xs.kvs r.subs r.w0 r.w1 r.w2
  filter : dictGet Xref.kFilter r.xs.kvs = some (.name Filters.nFlate)
  noParms : dictGet Xref.kDecodeParms r.xs.kvs = none
  /-- the stream content is a conformant Flate encoding of the rows followed by anything -/
  enc : ∃ extra, C06.LayerEnc Filters.nFlate (XrefStreamFile.rowBytes r.subs r.w0 r.w1 r.w2 ++ extra) r.xs.data
  fits : ∀ p ∈ r.subs, ∀ e ∈ p.2, e.fits r.w0 r.w1 r.w2
  lim : ∀ p ∈ r.subs, p.1 + p.2.length ≤ Xref.usizeLim
  noInStm : ∀ p ∈ r.subs, ∀ e ∈ p.2, e.typ ≤ 1
  numsNodup : ((streamEnts r.subs).map (·.obj)).Nodup
  reads1 : ∀ q ∈ r.body1, q.p.Reads
  reads2 : ∀ q ∈ r.body2, q.p.Reads

theorem FlateStm.toStmOK {r : StmSeg} (h : FlateStm r) : StmOK r := by
  obtain ⟨extra, henc⟩ := h.enc
  exact stmOK_of_flate_encoder r extra h.xsOK h.xsLen h.dict h.filter h.noParms henc h.fits h.lim h.noInStm h.numsNodup
    h.reads1 h.reads2

/-- a revision of a history all of whose cross-reference streams are FlateDecode'd by conformant encoders -/
def FlateRev : MRev → Prop
  | .classic r D => ClassicOK r D
  | .stream r => FlateStm r

theorem FlateRev.toOK {m : MRev} (h : FlateRev m) : MRevOK m := by
  cases m with
  | classic r D => exact h
  | stream r => exact FlateStm.toStmOK h

/-- **newest_wins_history_mix_anyflate** (C04 end to end): any number of revisions, classic tables and FlateDecode'd
    cross-reference streams in any mix, every stream compressed by ANY conformant encoder (stored / fixed-Huffman /
    dynamic-Huffman blocks of the specification's encoders in any mixture): per object number the newest section that
    mentions it decides.  `hrest` is `MixFile.WF` with `revsOk` already established. -/
theorem newest_wins_history_mix_anyflate (f : MixFile) (root : ObjId)
    (hflate : ∀ m ∈ f.revs, FlateRev m)
    (hrest : (∀ m ∈ f.revs, MRevOK m) → f.WF root) :
    ∃ L : Loaded, parseData f.bytes = .ok L ∧ L.root = root ∧
      (∀ pre q post, f.segs = pre ++ q :: post → ∀ e ∈ q.1.ents,
        (∀ q' ∈ post, ∀ e' ∈ q'.1.ents, e'.obj ≠ e.obj) → Decides (mobjsOf q) L.defs e) ∧
      (∀ n, (∀ q ∈ f.segs, ∀ e ∈ q.1.ents, e.obj ≠ n) → ∀ g, ObjStm.defsGet (n, g) L.defs = none) :=
  newest_wins_history_mix f root (hrest fun m hm => (hflate m hm).toOK)

/-! ## non-vacuity: the update's cross-reference stream compressed with all three block types -/

/-- the rows of `exMSubs` under /W [1 1 1]: 1 191 0 / 0 0 0 / 1 208 0 -/
def exZMRows : Bytes := [1, 191, 0, 0, 0, 0, 1, 208, 0]

def exZMToks : List DeflateFixed.Tok := [.lit 1, .lit 208, .lit 0]

/-- the header `DeflateDyn.mkHdr exZMToks 18` makes: 2-bit codes for the literals 0, 1, 208 and end-of-block -/
def exZMHdr : DeflateDyn.Hdr :=
  { litLens := [2, 2] ++ List.replicate 206 0 ++ [2] ++ List.replicate 47 0 ++ [2], distLens := [0],
    clLens := [2, 0, 1, 0, 0, 0, 0, 0, 0, 0, 0, 0, 0, 0, 0, 0, 0, 0, 2], ncode := 16,
    rle := [.len 2, .len 2, .zerosL 127, .zerosL 57, .len 2, .zerosL 36, .len 2, .len 0] }

/-- fixed-Huffman `1 191 0`, stored `0 0 0`, dynamic-Huffman `1 208 0` -/
def exZMBlocks : List DeflateDyn.Block := [.fixed [.lit 1, .lit 191, .lit 0], .stored [0, 0, 0]]
def exZMLast : DeflateDyn.Block := .dyn exZMHdr exZMToks

theorem exZMPlan_ok : DeflateDyn.planOk exZMBlocks exZMLast exZMRows := C06.planOkB_sound _ _ _ (by decide +kernel)

def exZMData : Bytes := DeflateDyn.zlibBlocks exZMBlocks exZMLast exZMRows

def bF : Bytes := [70, 105, 108, 116, 101, 114]
def bFl : Bytes := [70, 108, 97, 116, 101, 68, 101, 99, 111, 100, 101]

/-- the entries of the stream dictionary, in the order written -/
def exZMEnts : List (Bytes × Obj) :=
  [(bT, .name bX), (bS, .int 5), (bW, .arr [.int 1, .int 1, .int 1]), (bI, .arr [.int 1, .int 2, .int 4, .int 1]),
   (bF, .name bFl), (bR, .ref 1 0), (bP, .int 60), (bL, .int exZMData.length)]

def exZMKvs : List (Bytes × Obj) := insAll [] (Spelling.canonKvs exZMEnts)

/-- the dictionary as spelled by the executable encoder -/
def exZMTok : Bytes := (spell (.dict exZMEnts) []).1

theorem exZMDict_spells : Spells 3 (.dict exZMKvs) exZMTok :=
  spell_is_Spells (.dict exZMEnts) [] 3 (by decide +kernel) (by decide +kernel)

def exZMXs : WStm := ⟨[], [52], [32], [48], [32], [], exZMTok, [], [10], exZMData, [10], [32], exZMKvs, 3⟩

set_option maxRecDepth 100000 in
theorem exZMXs_ok : exZMXs.OK where
  head := {
    pad := WsRun.nil
    nne := List.cons_ne_nil _ _
    ndig := by show ∀ y ∈ ([52] : Bytes), isDigit y = true; decide
    nfit := by show digitsVal [52] 0 ≤ i64Max; decide
    w1 := C03.ws32
    w1ne := List.cons_ne_nil _ _
    gne := List.cons_ne_nil _ _
    gdig := by show ∀ y ∈ ([48] : Bytes), isDigit y = true; decide
    gfit := by show digitsVal [48] 0 ≤ i64Max; decide
    w2 := C03.ws32
    w3 := WsRun.nil
    spells := exZMDict_spells
    depth := by show (3 : Nat) ≤ 50; decide
    w4 := WsRun.nil
    w4req := by intro h; exact absurd h (by show ¬ (endsReg (.dict exZMKvs) = true); simp [endsReg]) }
  e1 := by decide
  e2 := by decide
  w4 := C03.ws32

/-- the update: `1 0 obj 9 endobj`, then the FlateDecode'd cross-reference stream object 4 -/
def exZMStm : StmSeg where
  body1 := [⟨exB1.piece, [10]⟩]
  xs := exZMXs
  xpost := [10]
  body2 := []
  gap := []
  subs := exMSubs
  w0 := 1
  w1 := 1
  w2 := 1

def exZMix : MixFile where
  garbage := []
  hdrRest := [49, 46, 53, 10]
  revs := [.classic exRev1 exD1, .stream exZMStm]
  wsx := [10]
  ds := [50, 48, 56]
  e := [10]
  trail := [10]

set_option maxRecDepth 100000 in
theorem exZMStm_flate : FlateStm exZMStm where
  xsOK := exZMXs_ok
  xsLen := by rfl
  dict := {
    type := by rfl
    size := ⟨5, by rfl, Or.inl (by rfl)⟩
    hw := by rfl
    hw0 := by decide
    hw1 := by decide
    hw1pos := by decide
    hw2 := by decide }
  filter := by rfl
  noParms := by rfl
  enc := ⟨[], by
    have hrows : XrefStreamFile.rowBytes exMSubs 1 1 1 = exZMRows := by decide +kernel
    show C06.LayerEnc Filters.nFlate (XrefStreamFile.rowBytes exMSubs 1 1 1 ++ []) exZMData
    rw [hrows, List.append_nil]
    have := C06.LayerEnc.flateDyn (trailing := []) exZMPlan_ok
    rwa [List.append_nil] at this⟩
  fits := by decide
  lim := by decide
  noInStm := by decide
  numsNodup := by decide +kernel
  reads1 := by
    intro q hq
    simp only [exZMStm, List.mem_cons, List.mem_nil_iff, or_false] at hq
    subst hq
    exact exB1.piece_reads exB1_ok
  reads2 := by intro q hq; simp [exZMStm] at hq

set_option maxRecDepth 100000 in
theorem exZMix_segs : exZMix.segs = [(.classic exRev1 exD1, 9), (.stream exZMStm, 191)] := by rfl

theorem exZMix_flate : ∀ m ∈ exZMix.revs, FlateRev m := by
  intro m hm
  simp only [exZMix, List.mem_cons, List.mem_nil_iff, or_false] at hm
  rcases hm with rfl | rfl
  · exact exRev1_cok
  · exact exZMStm_flate

set_option maxRecDepth 100000 in
theorem exZMix_wf (revsOk : ∀ m ∈ exZMix.revs, MRevOK m) : exZMix.WF (1, 0) where
  noMagic := by intro k hk; simp [exZMix] at hk
  revsOk := revsOk
  prevs := by
    rw [exZMix_segs]
    exact (MPrevOK_cons _ _ _).mpr ⟨rfl, (MPrevOK_cons _ _ _).mpr ⟨by decide +kernel, trivial⟩⟩
  newest := ⟨_, by rw [exZMix_segs]; rfl, by rfl, by decide +kernel⟩
  stableGen := by
    unfold StableGen
    decide +kernel
  tableObjs := by
    intro q hq
    rw [exZMix_segs] at hq
    simp only [List.mem_cons, List.mem_nil_iff, or_false] at hq
    rcases hq with rfl | rfl
    · exact ⟨_, List.Perm.refl _, by decide +kernel⟩
    · exact ⟨_, List.Perm.refl _, by decide +kernel⟩
  notEdited := by
    intro pre q post hseg k hk q' hq'
    rw [exZMix_segs] at hseg
    cases pre with
    | nil =>
      simp only [List.nil_append, List.cons.injEq] at hseg
      obtain ⟨rfl, _⟩ := hseg
      cases hk
    | cons a pre' =>
      cases pre' with
      | nil =>
        simp only [List.cons_append, List.nil_append, List.cons.injEq] at hseg
        obtain ⟨_, _, rfl⟩ := hseg
        cases hq'
      | cons b pre'' =>
        have := congrArg List.length hseg
        simp at this
  wsx := WsRun.ws 10 [] (by decide) WsRun.nil
  wsxNe := by simp [exZMix]
  wsxNoS := by decide
  dsNe := by simp [exZMix]
  dsDig := by decide
  ofsFits := by decide
  e := by decide
  trail := noLaterEOF_of_no_percent _ (by decide)

set_option maxRecDepth 100000 in
/-- the theorem applied to the compressed history: object 1 has the value the update wrote, object 2 (freed by the
    compressed cross-reference stream) is gone, object 3 keeps the base revision's value, object 4 is the compressed
    stream object itself, 5 is undefined -/
theorem exZMix_loads : ∃ L : Loaded, parseData exZMix.bytes = .ok L ∧ L.root = (1, 0) ∧
    ObjStm.defsGet (1, 0) L.defs = some (.int 9) ∧
    (∀ g, ObjStm.defsGet (2, g) L.defs = none) ∧
    ObjStm.defsGet (3, 0) L.defs = some (.int 5) ∧
    (∃ sc, ObjStm.defsGet (4, 0) L.defs = some (.stream exZMKvs sc) ∧ sc.content = exZMData) ∧
    (∀ g, ObjStm.defsGet (5, g) L.defs = none) := by
  obtain ⟨L, h1, h2, hdec, hnone⟩ := newest_wins_history_mix_anyflate exZMix _ exZMix_flate exZMix_wf
  have hE2 : streamEnts exMSubs = [⟨1, 0, .inUse 191⟩, ⟨2, 0, .free 0⟩, ⟨4, 0, .inUse 208⟩] := by decide +kernel
  have hE1 : tableEnts exRev1.subs = [⟨0, 65535, .free 0⟩, ⟨1, 0, .inUse 9⟩, ⟨2, 0, .inUse 26⟩, ⟨3, 0, .inUse 43⟩] := by
    decide +kernel
  have hents2 : (MRev.stream exZMStm).ents = streamEnts exMSubs := rfl
  have hents1 : (MRev.classic exRev1 exD1).ents = tableEnts exRev1.subs := rfl
  have hobjs2 : mobjsOf (MRev.stream exZMStm, 191) = [(exB1.piece, 191), (exZMXs.piece, 208)] := by rfl
  have hobjs1 : mobjsOf (MRev.classic exRev1 exD1, 9) = [(C03.exObj1.piece, 9), (exA2.piece, 26), (exA3.piece, 43)] := by
    rfl
  have hd1 := hdec [(.classic exRev1 exD1, 9)] (.stream exZMStm, 191) [] exZMix_segs ⟨1, 0, .inUse 191⟩
    (by rw [hents2, hE2]; simp) (by intro q' hq'; cases hq')
  have hd2 := hdec [(.classic exRev1 exD1, 9)] (.stream exZMStm, 191) [] exZMix_segs ⟨2, 0, .free 0⟩
    (by rw [hents2, hE2]; simp) (by intro q' hq'; cases hq')
  have hd4 := hdec [(.classic exRev1 exD1, 9)] (.stream exZMStm, 191) [] exZMix_segs ⟨4, 0, .inUse 208⟩
    (by rw [hents2, hE2]; simp) (by intro q' hq'; cases hq')
  have hd3 := hdec [] (.classic exRev1 exD1, 9) [(.stream exZMStm, 191)] exZMix_segs ⟨3, 0, .inUse 43⟩
    (by rw [hents1, hE1]; simp) (by
      intro q' hq'
      simp only [List.mem_cons, List.mem_nil_iff, or_false] at hq'
      subst hq'
      rw [hents2, hE2]
      decide)
  refine ⟨L, h1, h2, ?_, ?_, ?_, ?_, ?_⟩
  · exact (hd1.1 191 rfl).2.1 (exB1.piece, 191) (by rw [hobjs2]; simp) rfl rfl rfl
  · exact hd2.2 0 rfl
  · exact (hd3.1 43 rfl).2.1 (exA3.piece, 43) (by rw [hobjs1]; simp) rfl rfl rfl
  · exact ⟨_, (hd4.1 208 rfl).2.1 (exZMXs.piece, 208) (by rw [hobjs2]; simp) rfl rfl rfl, rfl⟩
  · apply hnone 5
    intro q hq
    rw [exZMix_segs] at hq
    simp only [List.mem_cons, List.mem_nil_iff, or_false] at hq
    rcases hq with rfl | rfl
    · rw [hents1, hE1]; decide
    · rw [hents2, hE2]; decide

/-- the compressed stream content: zlib header, fixed-Huffman block, stored block, dynamic-Huffman block, Adler-32 -/
example : exZMData.length = 32 := by decide +kernel

end Parsley.C04
