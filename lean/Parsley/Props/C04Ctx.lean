/-
  C04 - the newest revision wins IN THE FINAL CONTEXT (follow-up C03b).  Proofs: Lemmas/LoaderStage.lean.

    newest_wins_in_context_partial   `merge_is_newest_wins_partial` composed with the loading stage generalised to an arbitrary
                                     starting context (`stage_from`): for every history on which get_xref_info succeeds with
                                     stable generations and no in-stream entry, after parse_objects every object number's
                                     NEWEST entry decides: free => the number is not defined (any generation), in use at
                                     offset o => (n, gen) is bound to what reads at o and no stale generation is defined,
                                     never mentioned => undefined (identifiers registered while walking cross-reference
                                     streams keep their binding).
    newest_wins_classic_chain_partial  for chains of classic tables the side conditions "nothing registered while walking"
                                     and "no in-stream entry" are PROVED from the chain (`ClassicAt` at every visited offset).
    newest_wins_written_partial      ... and the premise `ReadsAt` is discharged for written objects: if every collected
                                     in-use entry points at an object `n g obj <value> endobj` written in any legal spelling
                                     (C02.Spells, LoaderE2E.reads_spelled), the context binds every number to the value written
                                     in the newest revision that mentions it and nothing freed or stale is defined.
  `_partial`: excluded are exactly the code's two known defects (a number that changes generation #29, object-stream members
  mentioned again later #30 / in-stream entries at all), hybrid sections, and objects that only load in the second pass.
-/
import Parsley.Lemmas.LoaderStage
import Parsley.Lemmas.LoaderE2EObj
namespace Parsley.C04
open Parsley Parsley.Obj Parsley.Indirect Parsley.Loader Parsley.LoaderChain Parsley.LoaderStage Parsley.LoaderE2E

/-- **newest_wins_written_partial** (C04 in the final context; chain of classic tables, written objects). -/
theorem newest_wins_written_partial (hofs : Nat) (s : Bytes) (start : Nat) (X : List Xref.Ent) (r : Obj)
    (st' : St) (w : Nat → Nat → Nat → WObj) (infos : List SectInfo)
    (h : getXrefInfo ⟨Ctx.new 50, false⟩ s start = (.ok (X, r), st'))
    (hch : Chain s ⟨Ctx.new 50, false⟩ start [] infos)
    (hcl : ∀ i ∈ offsets start infos, ClassicAt s i)
    (hstable : StableGen X)
    -- every collected in-use entry points at a legally written object carrying the entry's identifier
    (hwritten : ∀ e ∈ X, ∀ o, e.st = .inUse o → o ≤ s.length ∧ (w e.obj e.gen o).OK ∧
      (w e.obj e.gen o).num = e.obj ∧ (w e.obj e.gen o).gen = e.gen ∧
      ∃ post, s.drop o = (w e.obj e.gen o).bytes ++ post) :
    ∃ defs, parseObjects hofs st' (infoOf X) s = .ok defs ∧
      -- newest entry free: not defined
      (∀ n e nx, (infos.map (·.1)).flatten.find? (·.obj == n) = some e → e.st = .free nx →
          ∀ g, ObjStm.defsGet (n, g) defs = none) ∧
      -- newest entry in use: bound to the value written there, no stale generation
      (∀ n e o, (infos.map (·.1)).flatten.find? (·.obj == n) = some e → e.st = .inUse o →
          ObjStm.defsGet (n, e.gen) defs = some (w n e.gen o).v ∧
          ∀ g, g ≠ e.gen → ObjStm.defsGet (n, g) defs = none) ∧
      -- never mentioned: not defined
      (∀ n, (infos.map (·.1)).flatten.find? (·.obj == n) = none → ∀ g, ObjStm.defsGet (n, g) defs = none) := by
  let val : Nat → Nat → Nat → Located Obj := fun n g o =>
    ⟨(w n g o).v, o + (w n g o).valOfs, o + (w n g o).valOfs + (w n g o).tok.length⟩
  have hread : ∀ e ∈ X, ∀ o, e.st = .inUse o →
      o < s.length ∧ C03.ReadsAt 0 50 false s ⟨e.obj, e.gen, o, val e.obj e.gen o⟩ := by
    intro e he o ho
    obtain ⟨hle, hok, hnum, hgen, post, hd⟩ := hwritten e he o ho
    have hr := reads_spelled s o (w e.obj e.gen o) post hle hd hok
    rw [hnum, hgen] at hr
    refine ⟨?_, hr⟩
    have := drop_le hd hle
    have hb : 0 < (w e.obj e.gen o).bytes.length := by simp [WObj.bytes, kwObj]; omega
    omega
  obtain ⟨_, defs, hpo, h1, h2, h3⟩ := newest_wins_classic_chain_partial hofs s start X r st' val infos h hch hcl hstable hread
  exact ⟨defs, hpo, h1, h2, h3⟩

end Parsley.C04
