/-
  C04 - end-to-end theorem for TWO-REVISION histories (follow-up C03c).  Proofs: Lemmas/LoaderE2EChain.lean.

    newest_wins_two_revisions   UNCONDITIONAL for the layout class "base revision + one incremental update, both
                                with a classic table": for EVERY file
                                  garbage ++ %PDF-… ++ objects1 ++ xref table1 ++ trailer1 ++ ANYTHING ++
                                  objects2 ++ xref table2 ++ trailer2 (/Prev -> table1) ++ … startxref n %%EOF …
                                (`TwoRevFile`, every freedom a field, as in `ClassicFile`: any spelling of values and
                                trailers, any padding, any subsection partition, arbitrary bytes between objects and
                                between the revisions - in particular the first revision's own `startxref … %%EOF`)
                                that is well formed (`TwoRevFile.WF`: lexical conditions; the last startxref = offset
                                of table2, /Prev of trailer2 = offset of table1, no /Prev in trailer1, no /XRefStm;
                                each table mentions a number at most once; STABLE GENERATIONS across the two tables;
                                each table's in-use entries are exactly the objects of its revision at their offsets;
                                all offsets are computed from the layout, none is assumed):
                                `parseData file = ok L`, `L.root` = the update's root, and for every object number the
                                NEWEST table that mentions it decides - in use: `(n, gen)` is bound to the value the
                                object written in that revision has and no other generation of n is defined; free: n is
                                defined under no generation (even if the base revision defines it); mentioned by
                                neither table: undefined.
                                No hypothesis about the walk is left (`getXrefInfo … = ok`, `Chain`, `ClassicAt`,
                                `StableGen X`, `ReadsAt` of `newest_wins_classic_chain_partial` are all DERIVED).
    newest_wins_two_revisions_objs  the same read from the objects: every object of the update is defined with its
                                value; every object of the base revision whose number the update's table does not
                                mention is defined with its value.
    newest_wins_two_revisions_spec  in the vocabulary of Spec/Doc.lean: with `said1`, `said2` what the two revisions
                                wrote / freed, the final definitions are those of `DocSpec.resolve [said1, said2]`
                                (lookup by identifier) and the root is the one it reports.
  Still open (C04 stays `partial`): histories of more than two revisions (the same composition by induction on the
  chain; `xrefinfo_two` is the two-step instance), cross-reference-stream / hybrid sections inside a history,
  generations that change along the chain (known finding #29, excluded by `stableGen`), object streams (#30),
  objects that only load in the second pass (forward-referenced /Length) in a history.
-/
import Parsley.Lemmas.LoaderE2EChain
import Parsley.Lemmas.LoaderE2EChainSpec
import Parsley.Props.C03E2E
namespace Parsley.C04
open Parsley Parsley.Prim Parsley.Obj Parsley.Indirect Parsley.Loader Parsley.C02 Parsley.Spelling Parsley.LoaderE2E
open Parsley.XrefSpec Parsley.C13

/-- **newest_wins_two_revisions** (C04 end to end; base revision + one incremental update, classic tables, direct
    objects and streams with a direct /Length, any legal spelling, any padding, leading garbage, arbitrary bytes
    between the revisions).  `Decides objs defs e` (Lemmas/LoaderE2EChain.lean): if `e` is in use at `o`, some object
    of `objs` carries `e`'s number, generation and offset, `(e.obj, e.gen)` is bound to the value of every such
    object, and no other generation of `e.obj` is defined; if `e` is free, `e.obj` is defined under no generation. -/
theorem newest_wins_two_revisions (f : TwoRevFile) (D1 D2 : List (Bytes × Obj)) (root : ObjId)
    (h : f.WF D1 D2 root) :
    ∃ L : Loaded, parseData f.bytes = .ok L ∧ L.root = root ∧
      -- a number the update's table mentions: that entry decides, with the objects of the update
      (∀ e ∈ tableEnts f.subs2, Decides f.objs2 L.defs e) ∧
      -- a number only the base revision's table mentions: that entry decides, with the objects of the base revision
      (∀ e ∈ tableEnts f.subs1, (∀ e2 ∈ tableEnts f.subs2, e2.obj ≠ e.obj) → Decides f.objs1 L.defs e) ∧
      -- a number neither table mentions is not defined
      (∀ n, (∀ e ∈ tableEnts f.subs2, e.obj ≠ n) → (∀ e ∈ tableEnts f.subs1, e.obj ≠ n) →
        ∀ g, ObjStm.defsGet (n, g) L.defs = none) :=
  load_two_rev f D1 D2 root h

/-- **newest_wins_two_revisions_objs**: read from the objects written -/
theorem newest_wins_two_revisions_objs (f : TwoRevFile) (D1 D2 : List (Bytes × Obj)) (root : ObjId)
    (h : f.WF D1 D2 root) :
    ∃ L : Loaded, parseData f.bytes = .ok L ∧ L.root = root ∧
      (∀ q ∈ f.objs2, ObjStm.defsGet (q.1.num, q.1.gen) L.defs = some (q.1.val q.2).val) ∧
      (∀ q ∈ f.objs1, (∀ e2 ∈ tableEnts f.subs2, e2.obj ≠ q.1.num) →
        ObjStm.defsGet (q.1.num, q.1.gen) L.defs = some (q.1.val q.2).val) :=
  load_two_rev_objs f D1 D2 root h

/-- **newest_wins_two_revisions_spec**: in the vocabulary of Spec/Doc.lean.  `f.said1 root1` / `f.said2 root`
    (`LoaderE2E.saidOf`) are what the two revisions SAID: the objects written (identifier, value), the numbers of the
    free entries of the revision's table, the root.  The loader's final definitions are exactly the bindings of
    `DocSpec.resolve [said1, said2]` - "the newest revision that mentions a number wins" - and the root is the one
    `resolve` reports (the newest).  Bindings are compared as a relation: `resolve` returns an identifier-sorted
    list, the context is a map. -/
theorem newest_wins_two_revisions_spec (f : TwoRevFile) (D1 D2 : List (Bytes × Obj)) (root root1 : ObjId)
    (h : f.WF D1 D2 root) :
    ∃ L : Loaded, parseData f.bytes = .ok L ∧
      (DocSpec.resolve [f.said1 root1, f.said2 root]).2 = some L.root ∧
      ∀ (k : ObjId) (v : Obj),
        (k, v) ∈ (DocSpec.resolve [f.said1 root1, f.said2 root]).1 ↔ ObjStm.defsGet k L.defs = some v :=
  load_two_rev_spec f D1 D2 root root1 h

/-! ## non-vacuity: a concrete well-formed two-revision file.  Base revision: objects 1 = 7, 2 = 8, 3 = 5; the update
    rewrites 1 := 9 and frees 2 (same generation, as `freeStable`); garbage before the header; the base revision's
    own `startxref 60 %%EOF` sits in the arbitrary gap. -/

/-- `2 0 obj 8 endobj` -/
def exA2 : WObj := ⟨[], [50], [32], [48], [32], [32], [56], [32], .int 8, 1⟩
/-- `3 0 obj 5 endobj` -/
def exA3 : WObj := ⟨[], [51], [32], [48], [32], [32], [53], [32], .int 5, 1⟩
/-- `1 0 obj 9 endobj` -/
def exB1 : WObj := ⟨[], [49], [32], [48], [32], [32], [57], [32], .int 9, 1⟩

theorem wobj_ok (n v : UInt8) (x : Int) (hn : isDigit n = true) (hv : isDigit v = true)
    (hx : x = Sign.none.apply (digitsVal [v] 0)) :
    (⟨[], [n], [32], [48], [32], [32], [v], [32], .int x, 1⟩ : WObj).OK where
  pad := WsRun.nil
  nne := by simp
  ndig := by intro y hy; simp only [List.mem_singleton] at hy; subst hy; exact hn
  nfit := by
    have : digitsVal [n] 0 = n.toNat - 48 := by simp [digitsVal]
    show digitsVal [n] 0 ≤ i64Max
    rw [this]
    have := n.toNat_lt
    simp only [i64Max]
    omega
  w1 := C03.ws32
  w1ne := by simp
  gne := by simp
  gdig := by show ∀ y ∈ [(48 : UInt8)], isDigit y = true; decide
  gfit := by show digitsVal [48] 0 ≤ i64Max; decide
  w2 := C03.ws32
  w3 := C03.ws32
  spells := by
    subst hx
    exact Spells.int 0 .none [v] (by simp) (by intro y hy; simp only [List.mem_singleton] at hy; subst hy; exact hv) (by
      have : digitsVal [v] 0 = v.toNat - 48 := by simp [digitsVal]
      rw [this]
      have := v.toNat_lt
      simp only [i64Max]
      omega)
  depth := by show 1 ≤ 50; decide
  w4 := C03.ws32
  w4req := by intro _; simp

theorem exA2_ok : exA2.OK := wobj_ok 50 56 8 (by decide) (by decide) (by decide)
theorem exA3_ok : exA3.OK := wobj_ok 51 53 5 (by decide) (by decide) (by decide)
theorem exB1_ok : exB1.OK := wobj_ok 49 57 9 (by decide) (by decide) (by decide)

/-- the update's trailer dictionary: `/Root 1 0 R /Prev 60` -/
def exD2 : List (Bytes × Obj) := dictOf [([82, 111, 111, 116], .ref 1 0), ([80, 114, 101, 118], .int 60)]

/-- `<</Root 1 0 R/Prev 60>>` -/
theorem exTrailer2_spells : Spells 2 (.dict exD2)
    [60, 60, 47, 82, 111, 111, 116, 32, 49, 32, 48, 32, 82, 47, 80, 114, 101, 118, 32, 54, 48, 62, 62] := by
  have r1 : Spells 1 (.ref 1 0) [49, 32, 48, 32, 82] :=
    Spells.ref 0 [49] [32] [48] [32] (by simp) (by decide) (by decide) (by simp) (by decide) (by decide)
      C03.ws32 (by simp) C03.ws32 (by simp)
  have i60 : Spells 1 (.int 60) [54, 48] := Spells.int 0 .none [54, 48] (by simp) (by decide) (by decide)
  have kR : (nameBody [82, 111, 111, 116] [1, 0, 0, 1, 0, 0, 1, 0, 0, 1, 0, 0]).1 = [82, 111, 111, 116] := by decide
  have kP : (nameBody [80, 114, 101, 118] [1, 0, 0, 1, 0, 0, 1, 0, 0, 1, 0, 0]).1 = [80, 114, 101, 118] := by decide
  have d1 : SpellsEntries 1 [[82, 111, 111, 116]] [([80, 114, 101, 118], .int 60)] [47, 80, 114, 101, 118, 32, 54, 48] := by
    have := SpellsEntries.cons 1 [[82, 111, 111, 116]] [80, 114, 101, 118] (.int 60) [] [] [1, 0, 0, 1, 0, 0, 1, 0, 0, 1, 0, 0] [32]
      _ _ WsRun.nil (by decide) (by decide) C03.ws32 i60 (fun _ => by simp) (SpellsEntries.nil 1 _)
    rw [kP] at this
    exact this
  have d0 : SpellsEntries 1 [] [([82, 111, 111, 116], .ref 1 0), ([80, 114, 101, 118], .int 60)]
      [47, 82, 111, 111, 116, 32, 49, 32, 48, 32, 82, 47, 80, 114, 101, 118, 32, 54, 48] := by
    have := SpellsEntries.cons 1 [] [82, 111, 111, 116] (.ref 1 0) [([80, 114, 101, 118], .int 60)] []
      [1, 0, 0, 1, 0, 0, 1, 0, 0, 1, 0, 0] [32] _ _ WsRun.nil (by decide) (by simp) C03.ws32 r1 (fun _ => by simp) d1
    rw [kR] at this
    exact this
  exact Spells.dict 1 _ _ [] d0 WsRun.nil

def exSub1 : TSub where
  start := 0
  wStart := 1
  wCount := 1
  lead := []
  hdrEol := [10]
  ents := [⟨0, 65535, false, .spLf⟩, ⟨9, 0, true, .spLf⟩, ⟨26, 0, true, .spLf⟩, ⟨43, 0, true, .spLf⟩]

/-- the update's table: object 1 in use at 191, object 2 free (generation unchanged) -/
def exSub2 : TSub where
  start := 1
  wStart := 1
  wCount := 1
  lead := []
  hdrEol := [10]
  ents := [⟨191, 0, true, .spLf⟩, ⟨0, 0, false, .spLf⟩]

/-- `junk LF %PDF-1.5 LF <obj 1 = 7> LF <obj 2 = 8> LF <obj 3 = 5> LF xref 0 4 … trailer<</Root 1 0 R>> LF startxref LF 60 LF
    %%EOF LF <obj 1 = 9> LF xref 1 2 … trailer LF <</Root 1 0 R/Prev 60>> LF startxref LF 208 LF %%EOF LF` -/
def exTwo : TwoRevFile where
  garbage := [106, 117, 110, 107, 10]
  hdrRest := [49, 46, 53, 10]
  body1 := [⟨C03.exObj1.piece, [10]⟩, ⟨exA2.piece, [10]⟩, ⟨exA3.piece, [10]⟩]
  subs1 := [exSub1]
  wt1 := []
  ttok1 := [60, 60, 47, 82, 111, 111, 116, 32, 49, 32, 48, 32, 82, 62, 62]
  gap1 := [10, 115, 116, 97, 114, 116, 120, 114, 101, 102, 10, 54, 48, 10, 37, 37, 69, 79, 70, 10]
  body2 := [⟨exB1.piece, [10]⟩]
  subs2 := [exSub2]
  wt2 := [10]
  ttok2 := [60, 60, 47, 82, 111, 111, 116, 32, 49, 32, 48, 32, 82, 47, 80, 114, 101, 118, 32, 54, 48, 62, 62]
  gap2 := [10]
  wsx := [10]
  ds := [50, 48, 56]
  e := [10]
  trail := [10]

theorem exTwo_objs1 : exTwo.objs1 = [(C03.exObj1.piece, 9), (exA2.piece, 26), (exA3.piece, 43)] := by rfl
theorem exTwo_objs2 : exTwo.objs2 = [(exB1.piece, 191)] := by rfl

theorem exTwo_wf : exTwo.WF [([82, 111, 111, 116], .ref 1 0)] exD2 (1, 0) where
  noMagic := noMagic_of_no_percent _ _ (by decide)
  subs1Ne := by simp [exTwo]
  subs1Ok := by
    intro t ht
    simp only [exTwo, List.mem_cons, List.mem_nil_iff, or_false] at ht
    subst ht
    exact ⟨by decide +kernel, by simp [exSub1]⟩
  subs2Ne := by simp [exTwo]
  subs2Ok := by
    intro t ht
    simp only [exTwo, List.mem_cons, List.mem_nil_iff, or_false] at ht
    subst ht
    exact ⟨by decide +kernel, by simp [exSub2]⟩
  nums1Nodup := by decide +kernel
  nums2Nodup := by decide +kernel
  stableGen := by decide +kernel
  wt1 := WsRun.nil
  wt2 := WsRun.ws 10 [] (by decide) WsRun.nil
  trailer1 := ⟨2, C03.exTrailer_spells, by decide⟩
  trailer2 := ⟨2, exTrailer2_spells, by decide⟩
  root := rfl
  prev2 := by decide +kernel
  prev1 := rfl
  noXRefStm1 := rfl
  noXRefStm2 := by decide +kernel
  wsx := WsRun.ws 10 [] (by decide) WsRun.nil
  wsxNe := by simp [exTwo]
  wsxNoS := by decide
  dsNe := by simp [exTwo]
  dsDig := by decide
  startxref := by decide +kernel
  ofsFits := by decide
  e := by decide
  trail := noLaterEOF_of_no_percent _ (by decide)
  reads1 := by
    intro q hq
    simp only [exTwo, List.mem_cons, List.mem_nil_iff, or_false] at hq
    rcases hq with rfl | rfl | rfl
    · exact C03.exObj1.piece_reads C03.exObj1_ok
    · exact exA2.piece_reads exA2_ok
    · exact exA3.piece_reads exA3_ok
  reads2 := by
    intro q hq
    simp only [exTwo, List.mem_cons, List.mem_nil_iff, or_false] at hq
    subst hq
    exact exB1.piece_reads exB1_ok
  tableObjs1 := ⟨exTwo.objs1, List.Perm.refl _, by decide +kernel⟩
  tableObjs2 := ⟨exTwo.objs2, List.Perm.refl _, by decide +kernel⟩

/-- the theorem applied to it: the rewritten object has its NEW value, the freed object is gone (although the base
    revision defines it), the untouched object keeps its value, an unmentioned number is undefined -/
example : ∃ L : Loaded, parseData exTwo.bytes = .ok L ∧ L.root = (1, 0) ∧
    ObjStm.defsGet (1, 0) L.defs = some (.int 9) ∧
    (∀ g, ObjStm.defsGet (2, g) L.defs = none) ∧
    ObjStm.defsGet (3, 0) L.defs = some (.int 5) ∧
    (∀ g, g ≠ 0 → ObjStm.defsGet (1, g) L.defs = none) ∧
    (∀ g, ObjStm.defsGet (4, g) L.defs = none) := by
  obtain ⟨L, h1, h2, hnew, hold, hnone⟩ := newest_wins_two_revisions exTwo _ _ _ exTwo_wf
  have hE2 : tableEnts exTwo.subs2 = [⟨1, 0, .inUse 191⟩, ⟨2, 0, .free 0⟩] := by decide +kernel
  have hE1 : tableEnts exTwo.subs1 = [⟨0, 65535, .free 0⟩, ⟨1, 0, .inUse 9⟩, ⟨2, 0, .inUse 26⟩, ⟨3, 0, .inUse 43⟩] := by
    decide +kernel
  have hd1 := hnew ⟨1, 0, .inUse 191⟩ (by rw [hE2]; simp)
  have hd2 := hnew ⟨2, 0, .free 0⟩ (by rw [hE2]; simp)
  have hd3 := hold ⟨3, 0, .inUse 43⟩ (by rw [hE1]; simp) (by rw [hE2]; decide)
  refine ⟨L, h1, h2, ?_, ?_, ?_, ?_, ?_⟩
  · exact ((hd1.1 191 rfl).2.1 (exB1.piece, 191) (by rw [exTwo_objs2]; simp) rfl rfl rfl)
  · exact hd2.2 0 rfl
  · exact ((hd3.1 43 rfl).2.1 (exA3.piece, 43) (by rw [exTwo_objs1]; simp) rfl rfl rfl)
  · exact (hd1.1 191 rfl).2.2
  · apply hnone 4
    · rw [hE2]; decide
    · rw [hE1]; decide

/-- what `resolve` says for this history: object 1 with its new value, object 3 with its old one, object 2 gone -/
example : (DocSpec.resolve [exTwo.said1 (1, 0), exTwo.said2 (1, 0)]) = ([((1, 0), .int 9), ((3, 0), .int 5)], some (1, 0)) := by
  rfl

/-- the spec corollary applied: the loader's context holds exactly these two bindings -/
example : ∃ L : Loaded, parseData exTwo.bytes = .ok L ∧ L.root = (1, 0) ∧
    ∀ (k : ObjId) (v : Obj), ObjStm.defsGet k L.defs = some v ↔ (k, v) = ((1, 0), .int 9) ∨ (k, v) = ((3, 0), .int 5) := by
  obtain ⟨L, h1, h2, h3⟩ := newest_wins_two_revisions_spec exTwo _ _ _ (1, 0) exTwo_wf
  have h2' : some ((1, 0) : ObjId) = some L.root := h2
  have h3' : ∀ (k : ObjId) (v : Obj), (k, v) ∈ ([((1, 0), .int 9), ((3, 0), .int 5)] : List (ObjId × Obj)) ↔
      ObjStm.defsGet k L.defs = some v := h3
  have hr : L.root = (1, 0) := (Option.some.inj h2').symm
  refine ⟨L, h1, hr, ?_⟩
  intro k v
  rw [← h3' k v]
  simp only [List.mem_cons, List.mem_nil_iff, or_false]

end Parsley.C04
