/-
  C04 - incremental updates and the `encrypted` flag: the ORDER in which the sections of a history are read decides
  what an `/Encrypt` entry does (sections are read newest first, the flag is the OR over the trailers read so far).

    declared_above_stream_adds_nothing   the section at `next` is a classic table whose trailer declares and has a /Prev;
                                         at the /Prev target no table is written (a cross-reference stream, in a
                                         well-formed history): the walk is refused, or - only when the object there is
                                         not a stream - ends with the entries of the table alone.  No entry of anything
                                         older is ever used.
    encrypt_declared_below_streams_witness   the mirror image is NOT refused (known finding; concrete history)
  The lemmas about the flag itself are in Props/C03Enc.lean.
-/
import Parsley.Props.C03Enc
namespace Parsley.C04
open Parsley Parsley.Obj Parsley.Indirect Parsley.Loader

/-- **declared_above_stream_adds_nothing** -/
theorem declared_above_stream_adds_nothing (f : Nat) (st : St) (s : Bytes) (next : Nat) (cs : List Nat)
    (ids : List (Nat × Nat)) (xrefs : List Xref.Ent) (root : Option Obj)
    (xrs : Located (List (Located Xref.SubSect))) (c k c1 p : Nat) (d : List (Bytes × Obj)) (ctx1 : Ctx)
    (hc : cs.contains next = false) (hn : next < s.length)
    (hx : Xref.xrefSectP s next = (.ok xrs, c)) (hs : scanFwd kwTrailer (s.drop c) = some k)
    (ht : trailerP st.ctx s (c + k) = ((.ok d, c1), ctx1)) (he : (dictGet kEncrypt d).isSome = true)
    (hm : ObjStm.getUsize d kXRefStm = none) (hp : ObjStm.getUsize d kPrev = some p)
    (k' : ErrK) (c' : Nat) (hx2 : Xref.xrefSectP s p = (.err k', c'))
    (xs : List Xref.Ent) (r : Obj) (st' : St)
    (hl : xrefLoop (f + 2) st s next cs ids xrefs root = (.ok (xs, r), st')) :
    xs = (addEnts (Xref.sectEnts xrs.val) ids xrefs).2 := by
  have hsec : parseXrefSection st s next =
      (.ok (some (Xref.sectEnts xrs.val, dictGet kRoot d, some p)), c1, { ctx := ctx1, enc := true }) := by
    unfold parseXrefSection
    simp only [hx, hs, ht, he, hm, hp, Bool.or_true]
  unfold xrefLoop at hl
  simp only [hc, hn, hsec, Bool.false_eq_true, if_false, decide_true, Bool.not_true] at hl
  split at hl
  · cases hl
  · rename_i root' _
    exact (C03.loop_adds_nothing_when_flagged f { ctx := ctx1, enc := true } s p (next :: cs)
      (addEnts (Xref.sectEnts xrs.val) ids xrefs).1 (addEnts (Xref.sectEnts xrs.val) ids xrefs).2 root' rfl k' c' hx2 xs r st' hl).1

/-- **Known finding C04-encrypt-declared-below-streams** (the concrete history and its run are in Props/C03Enc.lean):
    the base revision's trailer declares, the update is a cross-reference stream with an object stream - accepted,
    member 2 undefined, 3 definitions. -/
theorem encrypt_declared_below_streams_witness :
    C03.isRejected (parseData C03.encBelowStream) = false ∧ (C03.lookupDef (parseData C03.encBelowStream) (2, 0)).isNone = true ∧
    C03.nDefs (parseData C03.encBelowStream) = 3 ∧ C03.isIntVal (C03.lookupDef (parseData C03.encBelowStream) (1, 0)) 7 = true :=
  C03.encrypt_declared_below_streams_witness

/-- observation about the code (not a finding; see Props/C03Enc.lean): a declaration in a stream dictionary is not consulted, the file loads exactly -/
theorem encrypt_in_stream_dict_ignored_observation :
    C03.isIntVal (C03.lookupDef (parseData C03.encStreamDict) (2, 0)) 22 = true ∧ C03.nDefs (parseData C03.encStreamDict) = 4 :=
  ⟨C03.encrypt_in_stream_dict_ignored_observation.1, C03.encrypt_in_stream_dict_ignored_observation.2.1⟩

/-- non-vacuity of `declared_above_stream_adds_nothing` (test): the history `encAboveStream` - classic update whose trailer
    declares, /Prev at a cross-reference stream - is refused -/
example : C03.isRejected (parseData C03.encAboveStream) = true := C03.refused_declared_above_stream

end Parsley.C04
