/-
  C04 - end-to-end theorem for histories (any number of revisions, classic tables and cross-reference streams in any
  mix, chained through /Prev) whose stream objects may give their /Length through a FORWARD REFERENCE: `/Length n 0 R`
  where the holder `n 0 obj <int> endobj` is loaded LATER than the stream.  The first pass of `parse_objects` leaves such
  a stream aside (InsufficientContext), the second pass reads it once the holder is defined.
  Proofs: Lemmas/LoaderE2EHistFwd.lean (geometry, `stage_merged_two_pass`), Lemmas/LoaderE2EHistFwd2.lean (`MixFile.WFfwd`,
  `load_mix_fwd`).  Follow-up of Props/C04HistMix.lean, which asks every body piece to read in every context.

    newest_wins_history_fwd        FULL (no `_partial`): for every `MixFile` that is `WFfwd root dep`, `parseData file =
                                   ok L`, the newest root, and EXACTLY the clauses of `newest_wins_history_mix`: per
                                   object number the NEWEST section that mentions it decides (`Decides`), numbers no
                                   section mentions are undefined.
    newest_wins_history_fwd_spec   the final definitions are exactly the bindings of `DocSpec.resolve`.
    newest_wins_history_fwd_objs   read from the objects: an object whose number no newer section mentions is bound to
                                   its value - in particular a stream with a forward /Length.
    wf_is_fwd                      `MixFile.WF` is the special case `dep := fun _ => none`.

  `MixFile.WFfwd f root dep` differs from `MixFile.WF f root` in three places.
    revsOk    only the SECTION part of the lexical conditions (`MRevSecOK`: `ClassicOK` / `StmOK` minus the body
              pieces).  The cross-reference stream object of a stream revision keeps its DIRECT /Length: the /Prev walk
              reads it long before any holder is loaded.
    reads     every object other than the cross-reference stream objects is `PieceOK dep`: `dep p = none` - it reads in
              every context; `dep p = some (h, len)` - it reads in every context that binds `h` to `int len` and fails
              with InsufficientContext in every context that does not define `h` (`Piece.ReadsDep`; for a written stream
              object `WStm.piece_readsDep`).
    holders   for a dependent stream `p` of revision `q` that is LOADED (no section newer than `q` mentions its number;
              it is not the cross-reference stream object of `q`): some revision `qh` - older than, equal to or newer
              than `q` - wrote an object `ph` with the holder's number and generation, `dep ph = none` (holders read
              outright), value `int len`, and no section newer than `qh` mentions the holder's number.  So the holder
              RESOLVES IN THE MERGED TABLE: a later revision that redefines the holder must write the same integer (that
              copy is then `ph`), a later revision that frees the holder falsifies the hypothesis - unless the stream
              is itself redefined or freed later, in which case nothing is asked.
  Why an extra geometric lemma: with `Piece.Reads` the value written at an offset is determined by the bytes
  (`readsAt_val_unique`); a dependent stream reads only relative to a context, so "the object written at offset o" is
  pinned down by `objs_ofs_inj` instead (the offsets of all objects of all revisions are strictly increasing).

  Non-vacuity: `exFwd` - the base revision writes stream 1 with `/Length 2 0 R` BEFORE its holder 2, an update adds object
  3 (second pass inside the base revision's entries); `exFwdX` - the UPDATE writes stream 4 with `/Length 3 0 R`, the
  holder 3 belongs to the base revision, whose entries are loaded after the update's (second pass across revisions);
  `exFwdR` - the update REWRITES the holder 2 of the base revision's stream 1 (same integer): the holder resolves, in the
  merged table, to the update's copy; `exFwdM` - a MIXED history: classic base revision, update with a cross-reference
  STREAM that redefines object 1 as a stream with `/Length 3 0 R` (holder in the base revision), frees object 2.
  Still open: forward /Length combined with object streams or hybrid sections in a history; holders inside object
  streams.
-/
import Parsley.Lemmas.LoaderE2EHistFwd2
import Parsley.Lemmas.LoaderE2EHistFwdSpec
import Parsley.Props.C04HistMix
import Parsley.Props.C03E2E
namespace Parsley.C04
open Parsley Parsley.Prim Parsley.Obj Parsley.Indirect Parsley.Loader Parsley.C02 Parsley.Spelling Parsley.LoaderE2E
open Parsley.XrefSpec Parsley.C13
open Parsley.C03 (exStmF exStmF_ok exHolder exHolder_ok exSubF exDep)

/-- **newest_wins_history_fwd** (C04 end to end; any number of revisions, classic tables and cross-reference streams in
    any mix, stream objects with a direct or a forward-referenced /Length).  `f.segs` are the revisions with their
    offsets, oldest first; `f.segs = pre ++ q :: post` names a revision `q` together with the NEWER ones `post`. -/
theorem newest_wins_history_fwd (f : MixFile) (root : ObjId) (dep : Piece → Option (ObjId × Int))
    (h : f.WFfwd root dep) :
    ∃ L : Loaded, parseData f.bytes = .ok L ∧ L.root = root ∧
      (∀ pre q post, f.segs = pre ++ q :: post → ∀ e ∈ q.1.ents,
        (∀ q' ∈ post, ∀ e' ∈ q'.1.ents, e'.obj ≠ e.obj) → Decides (mobjsOf q) L.defs e) ∧
      (∀ n, (∀ q ∈ f.segs, ∀ e ∈ q.1.ents, e.obj ≠ n) → ∀ g, ObjStm.defsGet (n, g) L.defs = none) :=
  load_mix_fwd f root dep h

/-- **newest_wins_history_fwd_objs**: read from the objects written -/
theorem newest_wins_history_fwd_objs (f : MixFile) (root : ObjId) (dep : Piece → Option (ObjId × Int))
    (h : f.WFfwd root dep) :
    ∃ L : Loaded, parseData f.bytes = .ok L ∧ L.root = root ∧
      ∀ pre q post, f.segs = pre ++ q :: post → ∀ p ∈ mobjsOf q,
        (∀ q' ∈ post, ∀ e' ∈ q'.1.ents, e'.obj ≠ p.1.num) →
        ObjStm.defsGet (p.1.num, p.1.gen) L.defs = some (p.1.val p.2).val :=
  load_mix_fwd_objs f root dep h

/-- **newest_wins_history_fwd_spec**: in the vocabulary of Spec/Doc.lean - the final definitions are exactly the
    bindings of `DocSpec.resolve` applied to what the revisions said -/
theorem newest_wins_history_fwd_spec (f : MixFile) (root : ObjId) (dep : Piece → Option (ObjId × Int))
    (rt : MRev × Nat → ObjId) (h : f.WFfwd root dep) (hrt : ∀ q, f.segs.getLast? = some q → rt q = root) :
    ∃ L : Loaded, parseData f.bytes = .ok L ∧
      (DocSpec.resolve (f.saids rt)).2 = some L.root ∧
      ∀ (k : ObjId) (v : Obj), (k, v) ∈ (DocSpec.resolve (f.saids rt)).1 ↔ ObjStm.defsGet k L.defs = some v :=
  load_mix_fwd_spec f root dep rt h hrt

/-- the hypotheses of `newest_wins_history_mix` are the special case without dependent streams -/
theorem wf_is_fwd (f : MixFile) (root : ObjId) (h : f.WF root) : f.WFfwd root (fun _ => none) := h.toFwd

/-! ## non-vacuity (1): the base revision writes stream 1 (`/Length 2 0 R`) BEFORE its holder 2 = 3; an update adds
    object 3 = 5.  Merged table, in loading order: 3 (update), then 0 free, 1, 2 (base): the first pass leaves 1 aside,
    registers 2, the second pass reads 1. -/

/-- `<1 = stream, /Length 2 0 R> <2 = 3> xref 0 3 … trailer LF <</Root 1 0 R>> LF` -/
def exFRev1 : RevSeg where
  body := [⟨exStmF.piece, [10]⟩, ⟨exHolder.piece, [10]⟩]
  subs := [exSubF]
  wt := [10]
  ttok := [60, 60, 47, 82, 111, 111, 116, 32, 49, 32, 48, 32, 82, 62, 62]
  gap := [10]

/-- the update's table: object 3 in use at 171 -/
def exFSub2 : TSub where
  start := 3
  wStart := 1
  wCount := 1
  lead := []
  hdrEol := [10]
  ents := [⟨171, 0, true, .spLf⟩]

/-- the update's trailer dictionary: `/Root 1 0 R /Prev 78` -/
def exFD2 : List (Bytes × Obj) := dictOf [([82, 111, 111, 116], .ref 1 0), ([80, 114, 101, 118], .int 78)]

/-- `<</Root 1 0 R/Prev 78>>` -/
theorem exFTrailer2_spells : Spells 2 (.dict exFD2)
    [60, 60, 47, 82, 111, 111, 116, 32, 49, 32, 48, 32, 82, 47, 80, 114, 101, 118, 32, 55, 56, 62, 62] := by
  have r1 : Spells 1 (.ref 1 0) [49, 32, 48, 32, 82] :=
    Spells.ref 0 [49] [32] [48] [32] (by simp) (by decide) (by decide) (by simp) (by decide) (by decide)
      C03.ws32 (by simp) C03.ws32 (by simp)
  have i78 : Spells 1 (.int 78) [55, 56] := Spells.int 0 .none [55, 56] (by simp) (by decide) (by decide)
  have kR : (nameBody [82, 111, 111, 116] [1, 0, 0, 1, 0, 0, 1, 0, 0, 1, 0, 0]).1 = [82, 111, 111, 116] := by decide
  have kP : (nameBody [80, 114, 101, 118] [1, 0, 0, 1, 0, 0, 1, 0, 0, 1, 0, 0]).1 = [80, 114, 101, 118] := by decide
  have d1 : SpellsEntries 1 [[82, 111, 111, 116]] [([80, 114, 101, 118], .int 78)] [47, 80, 114, 101, 118, 32, 55, 56] := by
    have := SpellsEntries.cons 1 [[82, 111, 111, 116]] [80, 114, 101, 118] (.int 78) [] [] [1, 0, 0, 1, 0, 0, 1, 0, 0, 1, 0, 0] [32]
      _ _ WsRun.nil (by decide) (by decide) C03.ws32 i78 (fun _ => by simp) (SpellsEntries.nil 1 _)
    rw [kP] at this
    exact this
  have d0 : SpellsEntries 1 [] [([82, 111, 111, 116], .ref 1 0), ([80, 114, 101, 118], .int 78)]
      [47, 82, 111, 111, 116, 32, 49, 32, 48, 32, 82, 47, 80, 114, 101, 118, 32, 55, 56] := by
    have := SpellsEntries.cons 1 [] [82, 111, 111, 116] (.ref 1 0) [([80, 114, 101, 118], .int 78)] []
      [1, 0, 0, 1, 0, 0, 1, 0, 0, 1, 0, 0] [32] _ _ WsRun.nil (by decide) (by simp) C03.ws32 r1 (fun _ => by simp) d1
    rw [kR] at this
    exact this
  exact Spells.dict 1 _ _ [] d0 WsRun.nil

/-- `<3 = 5> xref 3 1 … trailer LF <</Root 1 0 R/Prev 78>> LF` -/
def exFRev2 : RevSeg where
  body := [⟨exA3.piece, [10]⟩]
  subs := [exFSub2]
  wt := [10]
  ttok := [60, 60, 47, 82, 111, 111, 116, 32, 49, 32, 48, 32, 82, 47, 80, 114, 101, 118, 32, 55, 56, 62, 62]
  gap := [10]

/-- `%PDF-1.4 LF <1 = stream abc, /Length 2 0 R> <2 = 3> xref 0 3 … trailer <</Root 1 0 R>>
    <3 = 5> xref 3 1 … trailer <</Root 1 0 R/Prev 78>> startxref 188 %%EOF` -/
def exFwd : MixFile where
  garbage := []
  hdrRest := [49, 46, 52, 10]
  revs := [.classic exFRev1 exD1, .classic exFRev2 exFD2]
  wsx := [10]
  ds := [49, 56, 56]
  e := [10]
  trail := [10]

theorem exFRev1_sok : ClassicSecOK exFRev1 exD1 where
  sec := {
    subsNe := by simp [exFRev1]
    subsOk := by
      intro t ht
      simp only [exFRev1, List.mem_cons, List.mem_nil_iff, or_false] at ht
      subst ht
      exact ⟨by decide +kernel, by simp [exSubF]⟩
    numsNodup := by show ((tableEnts [exSubF]).map (·.obj)).Nodup; decide +kernel
    wt := WsRun.ws 10 [] (by decide) WsRun.nil
    trailer := ⟨2, C03.exTrailer_spells, by decide⟩
    noXRefStm := rfl }
  noEncrypt := rfl

theorem exFRev2_sok : ClassicSecOK exFRev2 exFD2 where
  sec := {
    subsNe := by simp [exFRev2]
    subsOk := by
      intro t ht
      simp only [exFRev2, List.mem_cons, List.mem_nil_iff, or_false] at ht
      subst ht
      exact ⟨by decide +kernel, by simp [exFSub2]⟩
    numsNodup := by show ((tableEnts [exFSub2]).map (·.obj)).Nodup; decide +kernel
    wt := WsRun.ws 10 [] (by decide) WsRun.nil
    trailer := ⟨2, exFTrailer2_spells, by decide⟩
    noXRefStm := by show ObjStm.getUsize exFD2 kXRefStm = none; decide +kernel }
  noEncrypt := by show dictGet kEncrypt exFD2 = none; decide +kernel

set_option maxRecDepth 100000 in
theorem exFwd_segs : exFwd.segs = [(.classic exFRev1 exD1, 9), (.classic exFRev2 exFD2, 171)] := by rfl

theorem exFwd_objs1 : mobjsOf (MRev.classic exFRev1 exD1, 9) = [(exStmF.piece, 9), (exHolder.piece, 61)] := by rfl
theorem exFwd_objs2 : mobjsOf (MRev.classic exFRev2 exFD2, 171) = [(exA3.piece, 171)] := by rfl

theorem exFwd_ents1 : (MRev.classic exFRev1 exD1).ents = [⟨0, 65535, .free 0⟩, ⟨1, 0, .inUse 9⟩, ⟨2, 0, .inUse 61⟩] := by
  show tableEnts [exSubF] = _
  decide +kernel

theorem exFwd_ents2 : (MRev.classic exFRev2 exFD2).ents = [⟨3, 0, .inUse 171⟩] := by
  show tableEnts [exFSub2] = _
  decide +kernel

theorem exDep_stm : exDep exStmF.piece = some ((2, 0), 3) := rfl
theorem exDep_holder : exDep exHolder.piece = none := rfl
theorem exDep_a3 : exDep exA3.piece = none := rfl

theorem exFwd_wf : exFwd.WFfwd (1, 0) exDep where
  noMagic := by intro k hk; simp [exFwd] at hk
  revsOk := by
    intro m hm
    simp only [exFwd, List.mem_cons, List.mem_nil_iff, or_false] at hm
    rcases hm with rfl | rfl
    · exact exFRev1_sok
    · exact exFRev2_sok
  reads := by
    intro m hm q hq
    simp only [exFwd, List.mem_cons, List.mem_nil_iff, or_false] at hm
    rcases hm with rfl | rfl
    · simp only [MRev.others, exFRev1, List.mem_cons, List.mem_nil_iff, or_false] at hq
      rcases hq with rfl | rfl
      · unfold PieceOK
        rw [exDep_stm]
        exact exStmF.piece_readsDep exStmF_ok (2, 0) rfl
      · unfold PieceOK
        rw [exDep_holder]
        exact exHolder.piece_reads exHolder_ok
    · simp only [MRev.others, exFRev2, List.mem_cons, List.mem_nil_iff, or_false] at hq
      subst hq
      unfold PieceOK
      rw [exDep_a3]
      exact exA3.piece_reads exA3_ok
  prevs := by
    rw [exFwd_segs]
    exact (MPrevOK_cons _ _ _).mpr ⟨rfl, (MPrevOK_cons _ _ _).mpr ⟨by decide +kernel, trivial⟩⟩
  newest := ⟨_, by rw [exFwd_segs]; rfl, rfl, by decide +kernel⟩
  stableGen := by
    unfold StableGen
    decide +kernel
  tableObjs := by
    intro q hq
    rw [exFwd_segs] at hq
    simp only [List.mem_cons, List.mem_nil_iff, or_false] at hq
    rcases hq with rfl | rfl
    · exact ⟨_, List.Perm.refl _, by decide +kernel⟩
    · exact ⟨_, List.Perm.refl _, by decide +kernel⟩
  notEdited := by
    intro pre q post hseg k hk
    have hq : q ∈ exFwd.segs := by rw [hseg]; simp
    rw [exFwd_segs] at hq
    simp only [List.mem_cons, List.mem_nil_iff, or_false] at hq
    rcases hq with rfl | rfl <;> cases hk
  holders := by
    intro pre q post hseg p hp hk len hd _ _
    have hq : q ∈ exFwd.segs := by rw [hseg]; simp
    rw [exFwd_segs] at hq
    simp only [List.mem_cons, List.mem_nil_iff, or_false] at hq
    rcases hq with rfl | rfl
    · rw [exFwd_objs1] at hp
      simp only [List.mem_cons, List.mem_nil_iff, or_false] at hp
      rcases hp with rfl | rfl
      · rw [exDep_stm] at hd
        injection hd with hd
        injection hd with h1 h2
        subst h1 h2
        refine ⟨[], _, _, exFwd_segs, (exHolder.piece, 61), by rw [exFwd_objs1]; simp, rfl, rfl, rfl, ?_⟩
        intro q' hq'
        simp only [List.mem_cons, List.mem_nil_iff, or_false] at hq'
        subst hq'
        rw [exFwd_ents2]
        decide
      · rw [exDep_holder] at hd
        cases hd
    · rw [exFwd_objs2] at hp
      simp only [List.mem_cons, List.mem_nil_iff, or_false] at hp
      subst hp
      rw [exDep_a3] at hd
      cases hd
  wsx := WsRun.ws 10 [] (by decide) WsRun.nil
  wsxNe := by simp [exFwd]
  wsxNoS := by decide
  dsNe := by simp [exFwd]
  dsDig := by decide
  ofsFits := by decide
  e := by decide
  trail := noLaterEOF_of_no_percent _ (by decide)

/-- `newest_wins_history_fwd_objs` applied: the stream with the forward /Length is loaded with its three data bytes,
    its holder and the update's object are defined -/
example : ∃ L : Loaded, parseData exFwd.bytes = .ok L ∧ L.root = (1, 0) ∧
    ObjStm.defsGet (1, 0) L.defs = some (.stream [([76, 101, 110, 103, 116, 104], .ref 2 0)] ⟨40, 3, [97, 98, 99]⟩) ∧
    ObjStm.defsGet (2, 0) L.defs = some (.int 3) ∧
    ObjStm.defsGet (3, 0) L.defs = some (.int 5) := by
  obtain ⟨L, h1, h2, hobj⟩ := newest_wins_history_fwd_objs exFwd _ _ exFwd_wf
  have hno : ∀ n, n ≠ 3 → ∀ q' ∈ [((MRev.classic exFRev2 exFD2, 171) : MRev × Nat)], ∀ e' ∈ q'.1.ents, e'.obj ≠ n := by
    intro n hn q' hq' e' he'
    simp only [List.mem_cons, List.mem_nil_iff, or_false] at hq'
    subst hq'
    rw [exFwd_ents2] at he'
    simp only [List.mem_cons, List.mem_nil_iff, or_false] at he'
    subst he'
    exact fun h => hn h.symm
  refine ⟨L, h1, h2, ?_, ?_, ?_⟩
  · exact hobj [] _ _ exFwd_segs (exStmF.piece, 9) (by rw [exFwd_objs1]; simp) (hno 1 (by decide))
  · exact hobj [] _ _ exFwd_segs (exHolder.piece, 61) (by rw [exFwd_objs1]; simp) (hno 2 (by decide))
  · exact hobj [_] _ [] exFwd_segs (exA3.piece, 171) (by rw [exFwd_objs2]; simp) (by intro q' hq'; cases hq')

/-- `newest_wins_history_fwd` applied: entry by entry; object 4 is mentioned nowhere -/
example : ∃ L : Loaded, parseData exFwd.bytes = .ok L ∧ L.root = (1, 0) ∧
    ObjStm.defsGet (1, 0) L.defs = some (.stream [([76, 101, 110, 103, 116, 104], .ref 2 0)] ⟨40, 3, [97, 98, 99]⟩) ∧
    (∀ g, g ≠ 0 → ObjStm.defsGet (1, g) L.defs = none) ∧
    (∀ g, ObjStm.defsGet (0, g) L.defs = none) ∧
    (∀ g, ObjStm.defsGet (4, g) L.defs = none) := by
  obtain ⟨L, h1, h2, hdec, hnone⟩ := newest_wins_history_fwd exFwd _ _ exFwd_wf
  have hno : ∀ n, n ≠ 3 → ∀ q' ∈ [((MRev.classic exFRev2 exFD2, 171) : MRev × Nat)], ∀ e' ∈ q'.1.ents, e'.obj ≠ n := by
    intro n hn q' hq' e' he'
    simp only [List.mem_cons, List.mem_nil_iff, or_false] at hq'
    subst hq'
    rw [exFwd_ents2] at he'
    simp only [List.mem_cons, List.mem_nil_iff, or_false] at he'
    subst he'
    exact fun h => hn h.symm
  have hd1 := hdec [] _ _ exFwd_segs ⟨1, 0, .inUse 9⟩ (by rw [exFwd_ents1]; simp) (hno 1 (by decide))
  have hd0 := hdec [] _ _ exFwd_segs ⟨0, 65535, .free 0⟩ (by rw [exFwd_ents1]; simp) (hno 0 (by decide))
  refine ⟨L, h1, h2, ?_, ?_, ?_, ?_⟩
  · exact (hd1.1 9 rfl).2.1 (exStmF.piece, 9) (by rw [exFwd_objs1]; simp) rfl rfl rfl
  · exact (hd1.1 9 rfl).2.2
  · exact hd0.2 0 rfl
  · apply hnone 4
    intro q hq
    rw [exFwd_segs] at hq
    simp only [List.mem_cons, List.mem_nil_iff, or_false] at hq
    rcases hq with rfl | rfl
    · rw [exFwd_ents1]; decide
    · rw [exFwd_ents2]; decide

/-! ## non-vacuity (2): the second pass ACROSS revisions.  Base revision `exRev1` (1 = 7, 2 = 8, 3 = 5, table at 60); the
    update writes stream 4 with `/Length 3 0 R` and five data bytes.  Merged table, in loading order: 4 (update), then
    0 free, 1, 2, 3 (base): the first pass meets the stream before its holder 3, which an OLDER revision wrote. -/

/-- `<</Length 3 0 R>>` -/
theorem exRefDict3_spells : Spells 2 (.dict [([76, 101, 110, 103, 116, 104], .ref 3 0)])
    [60, 60, 47, 76, 101, 110, 103, 116, 104, 32, 51, 32, 48, 32, 82, 62, 62] := by
  have r3 : Spells 1 (.ref 3 0) [51, 32, 48, 32, 82] :=
    Spells.ref 0 [51] [32] [48] [32] (by simp) (by decide) (by decide) (by simp) (by decide) (by decide)
      C03.ws32 (by simp) C03.ws32 (by simp)
  have kL : (nameBody [76, 101, 110, 103, 116, 104] [1, 0, 0, 1, 0, 0, 1, 0, 0, 1, 0, 0, 1, 0, 0, 1, 0, 0]).1 = [76, 101, 110, 103, 116, 104] := by decide
  have d0 : SpellsEntries 1 [] [([76, 101, 110, 103, 116, 104], .ref 3 0)] [47, 76, 101, 110, 103, 116, 104, 32, 51, 32, 48, 32, 82] := by
    have := SpellsEntries.cons 1 [] [76, 101, 110, 103, 116, 104] (.ref 3 0) [] [] [1, 0, 0, 1, 0, 0, 1, 0, 0, 1, 0, 0, 1, 0, 0, 1, 0, 0] [32] _ _ WsRun.nil (by decide) (by simp) C03.ws32
      r3 (fun _ => by simp) (SpellsEntries.nil 1 _)
    rw [kL] at this
    exact this
  exact Spells.dict 1 _ _ [] d0 WsRun.nil

/-- `4 0 obj<</Length 3 0 R>>stream LF hello LF endstream SP endobj` -/
def exStmX : WStm := ⟨[], [52], [32], [48], [32], [], [60, 60, 47, 76, 101, 110, 103, 116, 104, 32, 51, 32, 48, 32, 82, 62, 62], [], [10],
  [104, 101, 108, 108, 111], [10], [32], [([76, 101, 110, 103, 116, 104], .ref 3 0)], 2⟩

theorem exStmX_ok : exStmX.OK where
  head := {
    pad := WsRun.nil
    nne := by simp [exStmX, WStm.head]
    ndig := by decide
    nfit := by decide
    w1 := C03.ws32
    w1ne := by simp [exStmX, WStm.head]
    gne := by simp [exStmX, WStm.head]
    gdig := by decide
    gfit := by decide
    w2 := C03.ws32
    w3 := WsRun.nil
    spells := exRefDict3_spells
    depth := by decide
    w4 := WsRun.nil
    w4req := by intro h; simp [exStmX, WStm.head, endsReg] at h }
  e1 := by decide
  e2 := by decide
  w4 := C03.ws32

/-- the update's table: object 4 in use at 191 -/
def exXSub2 : TSub where
  start := 4
  wStart := 1
  wCount := 1
  lead := []
  hdrEol := [10]
  ents := [⟨191, 0, true, .spLf⟩]

/-- `<4 = stream hello, /Length 3 0 R> xref 4 1 … trailer LF <</Root 1 0 R/Prev 60>> LF` -/
def exXRev2 : RevSeg where
  body := [⟨exStmX.piece, [10]⟩]
  subs := [exXSub2]
  wt := [10]
  ttok := [60, 60, 47, 82, 111, 111, 116, 32, 49, 32, 48, 32, 82, 47, 80, 114, 101, 118, 32, 54, 48, 62, 62]
  gap := [10]

/-- `%PDF-1.5 LF <1 = 7> <2 = 8> <3 = 5> xref 0 4 … trailer<</Root 1 0 R>> startxref 60 %%EOF
    <4 = stream hello, /Length 3 0 R> xref 4 1 … trailer <</Root 1 0 R/Prev 60>> startxref 245 %%EOF` -/
def exFwdX : MixFile where
  garbage := []
  hdrRest := [49, 46, 53, 10]
  revs := [.classic exRev1 exD1, .classic exXRev2 exD2]
  wsx := [10]
  ds := [50, 52, 53]
  e := [10]
  trail := [10]

/-- the stream of the update depends on object 3 of the base revision -/
def exDepX (p : Piece) : Option (ObjId × Int) := if p.num == 4 then some ((3, 0), 5) else none

theorem exXRev2_sok : ClassicSecOK exXRev2 exD2 where
  sec := {
    subsNe := by simp [exXRev2]
    subsOk := by
      intro t ht
      simp only [exXRev2, List.mem_cons, List.mem_nil_iff, or_false] at ht
      subst ht
      exact ⟨by decide +kernel, by simp [exXSub2]⟩
    numsNodup := by show ((tableEnts [exXSub2]).map (·.obj)).Nodup; decide +kernel
    wt := WsRun.ws 10 [] (by decide) WsRun.nil
    trailer := ⟨2, exTrailer2_spells, by decide⟩
    noXRefStm := by show ObjStm.getUsize exD2 kXRefStm = none; decide +kernel }
  noEncrypt := by show dictGet kEncrypt exD2 = none; decide +kernel

set_option maxRecDepth 100000 in
theorem exFwdX_segs : exFwdX.segs = [(.classic exRev1 exD1, 9), (.classic exXRev2 exD2, 191)] := by rfl

theorem exFwdX_objs1 : mobjsOf (MRev.classic exRev1 exD1, 9) = [(C03.exObj1.piece, 9), (exA2.piece, 26), (exA3.piece, 43)] := by
  rfl
theorem exFwdX_objs2 : mobjsOf (MRev.classic exXRev2 exD2, 191) = [(exStmX.piece, 191)] := by rfl

theorem exFwdX_ents1 : (MRev.classic exRev1 exD1).ents =
    [⟨0, 65535, .free 0⟩, ⟨1, 0, .inUse 9⟩, ⟨2, 0, .inUse 26⟩, ⟨3, 0, .inUse 43⟩] := by
  show tableEnts [exSub1] = _
  decide +kernel

theorem exFwdX_ents2 : (MRev.classic exXRev2 exD2).ents = [⟨4, 0, .inUse 191⟩] := by
  show tableEnts [exXSub2] = _
  decide +kernel

theorem exDepX_stm : exDepX exStmX.piece = some ((3, 0), 5) := rfl
theorem exDepX_o1 : exDepX C03.exObj1.piece = none := rfl
theorem exDepX_a2 : exDepX exA2.piece = none := rfl
theorem exDepX_a3 : exDepX exA3.piece = none := rfl

theorem exFwdX_wf : exFwdX.WFfwd (1, 0) exDepX where
  noMagic := by intro k hk; simp [exFwdX] at hk
  revsOk := by
    intro m hm
    simp only [exFwdX, List.mem_cons, List.mem_nil_iff, or_false] at hm
    rcases hm with rfl | rfl
    · exact exRev1_cok.secOnly
    · exact exXRev2_sok
  reads := by
    intro m hm q hq
    simp only [exFwdX, List.mem_cons, List.mem_nil_iff, or_false] at hm
    rcases hm with rfl | rfl
    · simp only [MRev.others, exRev1, List.mem_cons, List.mem_nil_iff, or_false] at hq
      rcases hq with rfl | rfl | rfl
      · unfold PieceOK
        rw [exDepX_o1]
        exact C03.exObj1.piece_reads C03.exObj1_ok
      · unfold PieceOK
        rw [exDepX_a2]
        exact exA2.piece_reads exA2_ok
      · unfold PieceOK
        rw [exDepX_a3]
        exact exA3.piece_reads exA3_ok
    · simp only [MRev.others, exXRev2, List.mem_cons, List.mem_nil_iff, or_false] at hq
      subst hq
      unfold PieceOK
      rw [exDepX_stm]
      exact exStmX.piece_readsDep exStmX_ok (3, 0) rfl
  prevs := by
    rw [exFwdX_segs]
    exact (MPrevOK_cons _ _ _).mpr ⟨rfl, (MPrevOK_cons _ _ _).mpr ⟨by decide +kernel, trivial⟩⟩
  newest := ⟨_, by rw [exFwdX_segs]; rfl, rfl, by decide +kernel⟩
  stableGen := by
    unfold StableGen
    decide +kernel
  tableObjs := by
    intro q hq
    rw [exFwdX_segs] at hq
    simp only [List.mem_cons, List.mem_nil_iff, or_false] at hq
    rcases hq with rfl | rfl
    · exact ⟨_, List.Perm.refl _, by decide +kernel⟩
    · exact ⟨_, List.Perm.refl _, by decide +kernel⟩
  notEdited := by
    intro pre q post hseg k hk
    have hq : q ∈ exFwdX.segs := by rw [hseg]; simp
    rw [exFwdX_segs] at hq
    simp only [List.mem_cons, List.mem_nil_iff, or_false] at hq
    rcases hq with rfl | rfl <;> cases hk
  holders := by
    intro pre q post hseg p hp hk len hd _ _
    have hq : q ∈ exFwdX.segs := by rw [hseg]; simp
    rw [exFwdX_segs] at hq
    simp only [List.mem_cons, List.mem_nil_iff, or_false] at hq
    rcases hq with rfl | rfl
    · rw [exFwdX_objs1] at hp
      simp only [List.mem_cons, List.mem_nil_iff, or_false] at hp
      rcases hp with rfl | rfl | rfl
      · rw [exDepX_o1] at hd; cases hd
      · rw [exDepX_a2] at hd; cases hd
      · rw [exDepX_a3] at hd; cases hd
    · rw [exFwdX_objs2] at hp
      simp only [List.mem_cons, List.mem_nil_iff, or_false] at hp
      subst hp
      rw [exDepX_stm] at hd
      injection hd with hd
      injection hd with h1 h2
      subst h1 h2
      -- the holder is object 3 of the OLDER revision; the update does not mention the number 3
      refine ⟨[], _, _, exFwdX_segs, (exA3.piece, 43), by rw [exFwdX_objs1]; simp, rfl, rfl, rfl, ?_⟩
      intro q' hq'
      simp only [List.mem_cons, List.mem_nil_iff, or_false] at hq'
      subst hq'
      rw [exFwdX_ents2]
      decide
  wsx := WsRun.ws 10 [] (by decide) WsRun.nil
  wsxNe := by simp [exFwdX]
  wsxNoS := by decide
  dsNe := by simp [exFwdX]
  dsDig := by decide
  ofsFits := by decide
  e := by decide
  trail := noLaterEOF_of_no_percent _ (by decide)

/-- the theorem applied: the update's stream is loaded with its five data bytes although its holder is met later -/
example : ∃ L : Loaded, parseData exFwdX.bytes = .ok L ∧ L.root = (1, 0) ∧
    ObjStm.defsGet (4, 0) L.defs =
      some (.stream [([76, 101, 110, 103, 116, 104], .ref 3 0)] ⟨222, 5, [104, 101, 108, 108, 111]⟩) ∧
    ObjStm.defsGet (3, 0) L.defs = some (.int 5) := by
  obtain ⟨L, h1, h2, hobj⟩ := newest_wins_history_fwd_objs exFwdX _ _ exFwdX_wf
  refine ⟨L, h1, h2, ?_, ?_⟩
  · exact hobj [_] _ [] exFwdX_segs (exStmX.piece, 191) (by rw [exFwdX_objs2]; simp) (by intro q' hq'; cases hq')
  · refine hobj [] _ _ exFwdX_segs (exA3.piece, 43) (by rw [exFwdX_objs1]; simp) ?_
    intro q' hq'
    simp only [List.mem_cons, List.mem_nil_iff, or_false] at hq'
    subst hq'
    rw [exFwdX_ents2]
    decide

/-! ## non-vacuity (3): a later revision REDEFINES the holder.  Base revision `exFRev1` (stream 1 with `/Length 2 0 R`,
    then 2 = 3); the update writes `2 0 obj 3 endobj` again at 171.  In the merged table the number 2 resolves to the
    update's copy: `holders` is discharged with the NEWER revision as `qh`. -/

/-- the update's table: object 2 in use at 171 -/
def exRSub2 : TSub where
  start := 2
  wStart := 1
  wCount := 1
  lead := []
  hdrEol := [10]
  ents := [⟨171, 0, true, .spLf⟩]

/-- `<2 = 3> xref 2 1 … trailer LF <</Root 1 0 R/Prev 78>> LF` -/
def exRRev2 : RevSeg where
  body := [⟨exHolder.piece, [10]⟩]
  subs := [exRSub2]
  wt := [10]
  ttok := [60, 60, 47, 82, 111, 111, 116, 32, 49, 32, 48, 32, 82, 47, 80, 114, 101, 118, 32, 55, 56, 62, 62]
  gap := [10]

def exFwdR : MixFile where
  garbage := []
  hdrRest := [49, 46, 52, 10]
  revs := [.classic exFRev1 exD1, .classic exRRev2 exFD2]
  wsx := [10]
  ds := [49, 56, 56]
  e := [10]
  trail := [10]

theorem exRRev2_sok : ClassicSecOK exRRev2 exFD2 where
  sec := {
    subsNe := by simp [exRRev2]
    subsOk := by
      intro t ht
      simp only [exRRev2, List.mem_cons, List.mem_nil_iff, or_false] at ht
      subst ht
      exact ⟨by decide +kernel, by simp [exRSub2]⟩
    numsNodup := by show ((tableEnts [exRSub2]).map (·.obj)).Nodup; decide +kernel
    wt := WsRun.ws 10 [] (by decide) WsRun.nil
    trailer := ⟨2, exFTrailer2_spells, by decide⟩
    noXRefStm := by show ObjStm.getUsize exFD2 kXRefStm = none; decide +kernel }
  noEncrypt := by show dictGet kEncrypt exFD2 = none; decide +kernel

set_option maxRecDepth 100000 in
theorem exFwdR_segs : exFwdR.segs = [(.classic exFRev1 exD1, 9), (.classic exRRev2 exFD2, 171)] := by rfl

theorem exFwdR_objs2 : mobjsOf (MRev.classic exRRev2 exFD2, 171) = [(exHolder.piece, 171)] := by rfl

theorem exFwdR_ents2 : (MRev.classic exRRev2 exFD2).ents = [⟨2, 0, .inUse 171⟩] := by
  show tableEnts [exRSub2] = _
  decide +kernel

theorem exFwdR_wf : exFwdR.WFfwd (1, 0) exDep where
  noMagic := by intro k hk; simp [exFwdR] at hk
  revsOk := by
    intro m hm
    simp only [exFwdR, List.mem_cons, List.mem_nil_iff, or_false] at hm
    rcases hm with rfl | rfl
    · exact exFRev1_sok
    · exact exRRev2_sok
  reads := by
    intro m hm q hq
    simp only [exFwdR, List.mem_cons, List.mem_nil_iff, or_false] at hm
    rcases hm with rfl | rfl
    · simp only [MRev.others, exFRev1, List.mem_cons, List.mem_nil_iff, or_false] at hq
      rcases hq with rfl | rfl
      · unfold PieceOK
        rw [exDep_stm]
        exact exStmF.piece_readsDep exStmF_ok (2, 0) rfl
      · unfold PieceOK
        rw [exDep_holder]
        exact exHolder.piece_reads exHolder_ok
    · simp only [MRev.others, exRRev2, List.mem_cons, List.mem_nil_iff, or_false] at hq
      subst hq
      unfold PieceOK
      rw [exDep_holder]
      exact exHolder.piece_reads exHolder_ok
  prevs := by
    rw [exFwdR_segs]
    exact (MPrevOK_cons _ _ _).mpr ⟨rfl, (MPrevOK_cons _ _ _).mpr ⟨by decide +kernel, trivial⟩⟩
  newest := ⟨_, by rw [exFwdR_segs]; rfl, rfl, by decide +kernel⟩
  stableGen := by
    unfold StableGen
    decide +kernel
  tableObjs := by
    intro q hq
    rw [exFwdR_segs] at hq
    simp only [List.mem_cons, List.mem_nil_iff, or_false] at hq
    rcases hq with rfl | rfl
    · exact ⟨_, List.Perm.refl _, by decide +kernel⟩
    · exact ⟨_, List.Perm.refl _, by decide +kernel⟩
  notEdited := by
    intro pre q post hseg k hk
    have hq : q ∈ exFwdR.segs := by rw [hseg]; simp
    rw [exFwdR_segs] at hq
    simp only [List.mem_cons, List.mem_nil_iff, or_false] at hq
    rcases hq with rfl | rfl <;> cases hk
  holders := by
    intro pre q post hseg p hp hk len hd _ _
    have hq : q ∈ exFwdR.segs := by rw [hseg]; simp
    rw [exFwdR_segs] at hq
    simp only [List.mem_cons, List.mem_nil_iff, or_false] at hq
    rcases hq with rfl | rfl
    · rw [exFwd_objs1] at hp
      simp only [List.mem_cons, List.mem_nil_iff, or_false] at hp
      rcases hp with rfl | rfl
      · rw [exDep_stm] at hd
        injection hd with hd
        injection hd with h1 h2
        subst h1 h2
        -- the holder is the UPDATE's object 2; nothing is newer than the update
        exact ⟨[_], _, [], exFwdR_segs, (exHolder.piece, 171), by rw [exFwdR_objs2]; simp, rfl, rfl, rfl,
          by intro q' hq'; cases hq'⟩
      · rw [exDep_holder] at hd
        cases hd
    · rw [exFwdR_objs2] at hp
      simp only [List.mem_cons, List.mem_nil_iff, or_false] at hp
      subst hp
      rw [exDep_holder] at hd
      cases hd
  wsx := WsRun.ws 10 [] (by decide) WsRun.nil
  wsxNe := by simp [exFwdR]
  wsxNoS := by decide
  dsNe := by simp [exFwdR]
  dsDig := by decide
  ofsFits := by decide
  e := by decide
  trail := noLaterEOF_of_no_percent _ (by decide)

/-- the theorem applied: the base revision's stream is loaded; object 2 is the update's copy -/
example : ∃ L : Loaded, parseData exFwdR.bytes = .ok L ∧ L.root = (1, 0) ∧
    ObjStm.defsGet (1, 0) L.defs = some (.stream [([76, 101, 110, 103, 116, 104], .ref 2 0)] ⟨40, 3, [97, 98, 99]⟩) ∧
    ObjStm.defsGet (2, 0) L.defs = some (.int 3) := by
  obtain ⟨L, h1, h2, hobj⟩ := newest_wins_history_fwd_objs exFwdR _ _ exFwdR_wf
  refine ⟨L, h1, h2, ?_, ?_⟩
  · refine hobj [] _ _ exFwdR_segs (exStmF.piece, 9) (by rw [exFwd_objs1]; simp) ?_
    intro q' hq'
    simp only [List.mem_cons, List.mem_nil_iff, or_false] at hq'
    subst hq'
    rw [exFwdR_ents2]
    decide
  · exact hobj [_] _ [] exFwdR_segs (exHolder.piece, 171) (by rw [exFwdR_objs2]; simp) (by intro q' hq'; cases hq')

/-! ## non-vacuity (4): a MIXED history.  Base revision `exRev1` with a classic table (1 = 7, 2 = 8, 3 = 5); the update
    has a CROSS-REFERENCE STREAM (object 4, dictionary of `exMXs`: /Index [1 2 4 1], /Prev 60) and redefines object 1 as
    a stream with `/Length 3 0 R` (five data bytes), frees object 2.  Loading order: 1 (update; left aside), 2 free,
    4 (bound by the walk), then the base revision's 0, 1, 2 (superseded), 3 = the holder; the second pass reads 1. -/

/-- `1 0 obj<</Length 3 0 R>>stream LF hello LF endstream SP endobj` -/
def exStmY : WStm := ⟨[], [49], [32], [48], [32], [], [60, 60, 47, 76, 101, 110, 103, 116, 104, 32, 51, 32, 48, 32, 82, 62, 62], [], [10],
  [104, 101, 108, 108, 111], [10], [32], [([76, 101, 110, 103, 116, 104], .ref 3 0)], 2⟩

theorem exStmY_ok : exStmY.OK where
  head := {
    pad := WsRun.nil
    nne := by simp [exStmY, WStm.head]
    ndig := by decide
    nfit := by decide
    w1 := C03.ws32
    w1ne := by simp [exStmY, WStm.head]
    gne := by simp [exStmY, WStm.head]
    gdig := by decide
    gfit := by decide
    w2 := C03.ws32
    w3 := WsRun.nil
    spells := exRefDict3_spells
    depth := by decide
    w4 := WsRun.nil
    w4req := by intro h; simp [exStmY, WStm.head, endsReg] at h }
  e1 := by decide
  e2 := by decide
  w4 := C03.ws32

/-- the cross-reference stream object of `exMXs` with the rows 1 191 0 / 0 0 0 / 1 245 0 -/
def exYXs : WStm := { exMXs with data := [1, 191, 0, 0, 0, 0, 1, 245, 0] }

theorem exYXs_ok : exYXs.OK where
  head := exMXs_head_ok
  e1 := by decide
  e2 := by decide
  w4 := C03.ws32

/-- /Index [1 2 4 1]: object 1 in use at 191, object 2 free, object 4 (the stream object itself) in use at 245 -/
def exYSubs : List (Nat × List SEnt) := [(1, [⟨1, 191, 0⟩, ⟨0, 0, 0⟩]), (4, [⟨1, 245, 0⟩])]

def exYStm : StmSeg where
  body1 := [⟨exStmY.piece, [10]⟩]
  xs := exYXs
  xpost := [10]
  body2 := []
  gap := []
  subs := exYSubs
  w0 := 1
  w1 := 1
  w2 := 1

def exFwdM : MixFile where
  garbage := []
  hdrRest := [49, 46, 53, 10]
  revs := [.classic exRev1 exD1, .stream exYStm]
  wsx := [10]
  ds := [50, 52, 53]
  e := [10]
  trail := [10]

/-- the update's object 1 (53 bytes) depends on object 3; the base revision's object 1 does not -/
def exDepM (p : Piece) : Option (ObjId × Int) := if p.num == 1 && p.bytes.length == 53 then some ((3, 0), 5) else none

theorem exYStm_sok : StmSecOK exYStm where
  xsOK := exYXs_ok
  xsLen := rfl
  dict := {
    type := rfl
    size := ⟨5, rfl, Or.inl rfl⟩
    hw := rfl
    hw0 := by decide
    hw1 := by decide
    hw1pos := by decide
    hw2 := by decide }
  stored := Stored.plain [] rfl
  fits := by decide
  lim := by decide
  noInStm := by decide
  numsNodup := by decide +kernel

set_option maxRecDepth 100000 in
theorem exFwdM_segs : exFwdM.segs = [(.classic exRev1 exD1, 9), (.stream exYStm, 191)] := by rfl

theorem exFwdM_objs2 : mobjsOf (MRev.stream exYStm, 191) = [(exStmY.piece, 191), (exYXs.piece, 245)] := by rfl

theorem exFwdM_ents2 : (MRev.stream exYStm).ents = [⟨1, 0, .inUse 191⟩, ⟨2, 0, .free 0⟩, ⟨4, 0, .inUse 245⟩] := by
  show streamEnts exYSubs = _
  decide +kernel

theorem exDepM_stm : exDepM exStmY.piece = some ((3, 0), 5) := by decide +kernel
theorem exDepM_xs : exDepM exYXs.piece = none := by decide +kernel
theorem exDepM_o1 : exDepM C03.exObj1.piece = none := by decide +kernel
theorem exDepM_a2 : exDepM exA2.piece = none := by decide +kernel
theorem exDepM_a3 : exDepM exA3.piece = none := by decide +kernel

theorem exFwdM_wf : exFwdM.WFfwd (1, 0) exDepM where
  noMagic := by intro k hk; simp [exFwdM] at hk
  revsOk := by
    intro m hm
    simp only [exFwdM, List.mem_cons, List.mem_nil_iff, or_false] at hm
    rcases hm with rfl | rfl
    · exact exRev1_cok.secOnly
    · exact exYStm_sok
  reads := by
    intro m hm q hq
    simp only [exFwdM, List.mem_cons, List.mem_nil_iff, or_false] at hm
    rcases hm with rfl | rfl
    · simp only [MRev.others, exRev1, List.mem_cons, List.mem_nil_iff, or_false] at hq
      rcases hq with rfl | rfl | rfl
      · unfold PieceOK
        rw [exDepM_o1]
        exact C03.exObj1.piece_reads C03.exObj1_ok
      · unfold PieceOK
        rw [exDepM_a2]
        exact exA2.piece_reads exA2_ok
      · unfold PieceOK
        rw [exDepM_a3]
        exact exA3.piece_reads exA3_ok
    · simp only [MRev.others, exYStm, List.append_nil, List.mem_cons, List.mem_nil_iff, or_false] at hq
      subst hq
      unfold PieceOK
      rw [exDepM_stm]
      exact exStmY.piece_readsDep exStmY_ok (3, 0) rfl
  prevs := by
    rw [exFwdM_segs]
    exact (MPrevOK_cons _ _ _).mpr ⟨rfl, (MPrevOK_cons _ _ _).mpr ⟨by decide +kernel, trivial⟩⟩
  newest := ⟨_, by rw [exFwdM_segs]; rfl, rfl, by decide +kernel⟩
  stableGen := by
    unfold StableGen
    decide +kernel
  tableObjs := by
    intro q hq
    rw [exFwdM_segs] at hq
    simp only [List.mem_cons, List.mem_nil_iff, or_false] at hq
    rcases hq with rfl | rfl
    · exact ⟨_, List.Perm.refl _, by decide +kernel⟩
    · exact ⟨_, List.Perm.refl _, by decide +kernel⟩
  notEdited := by
    intro pre q post hseg k hk q' hq'
    rw [exFwdM_segs] at hseg
    cases pre with
    | nil =>
      simp only [List.nil_append, List.cons.injEq] at hseg
      obtain ⟨rfl, _⟩ := hseg
      cases hk
    | cons a pre' =>
      cases pre' with
      | nil =>
        simp only [List.cons_append, List.nil_append, List.cons.injEq] at hseg
        obtain ⟨_, _, rfl⟩ := hseg
        cases hq'
      | cons b pre'' =>
        have := congrArg List.length hseg
        simp at this
  holders := by
    intro pre q post hseg p hp hk len hd _ _
    have hq : q ∈ exFwdM.segs := by rw [hseg]; simp
    rw [exFwdM_segs] at hq
    simp only [List.mem_cons, List.mem_nil_iff, or_false] at hq
    rcases hq with rfl | rfl
    · rw [exFwdX_objs1] at hp
      simp only [List.mem_cons, List.mem_nil_iff, or_false] at hp
      rcases hp with rfl | rfl | rfl
      · rw [exDepM_o1] at hd; cases hd
      · rw [exDepM_a2] at hd; cases hd
      · rw [exDepM_a3] at hd; cases hd
    · rw [exFwdM_objs2] at hp
      simp only [List.mem_cons, List.mem_nil_iff, or_false] at hp
      rcases hp with rfl | rfl
      · rw [exDepM_stm] at hd
        injection hd with hd
        injection hd with h1 h2
        subst h1 h2
        refine ⟨[], _, _, exFwdM_segs, (exA3.piece, 43), by rw [exFwdX_objs1]; simp, rfl, exDepM_a3, rfl, ?_⟩
        intro q' hq'
        simp only [List.mem_cons, List.mem_nil_iff, or_false] at hq'
        subst hq'
        rw [exFwdM_ents2]
        decide
      · rw [exDepM_xs] at hd; cases hd
  wsx := WsRun.ws 10 [] (by decide) WsRun.nil
  wsxNe := by simp [exFwdM]
  wsxNoS := by decide
  dsNe := by simp [exFwdM]
  dsDig := by decide
  ofsFits := by decide
  e := by decide
  trail := noLaterEOF_of_no_percent _ (by decide)

/-- the theorem applied: object 1 is the update's stream (the base revision's `1 = 7` is superseded), object 2 is gone,
    object 3 is the holder, object 4 the cross-reference stream object -/
example : ∃ L : Loaded, parseData exFwdM.bytes = .ok L ∧ L.root = (1, 0) ∧
    ObjStm.defsGet (1, 0) L.defs =
      some (.stream [([76, 101, 110, 103, 116, 104], .ref 3 0)] ⟨222, 5, [104, 101, 108, 108, 111]⟩) ∧
    (∀ g, ObjStm.defsGet (2, g) L.defs = none) ∧
    ObjStm.defsGet (3, 0) L.defs = some (.int 5) ∧
    ObjStm.defsGet (4, 0) L.defs = some (.stream (dictOf exMEnts) ⟨332, 9, [1, 191, 0, 0, 0, 0, 1, 245, 0]⟩) := by
  obtain ⟨L, h1, h2, hdec, _⟩ := newest_wins_history_fwd exFwdM _ _ exFwdM_wf
  have hd1 := hdec [_] (.stream exYStm, 191) [] exFwdM_segs ⟨1, 0, .inUse 191⟩
    (by rw [exFwdM_ents2]; simp) (by intro q' hq'; cases hq')
  have hd2 := hdec [_] (.stream exYStm, 191) [] exFwdM_segs ⟨2, 0, .free 0⟩
    (by rw [exFwdM_ents2]; simp) (by intro q' hq'; cases hq')
  have hd4 := hdec [_] (.stream exYStm, 191) [] exFwdM_segs ⟨4, 0, .inUse 245⟩
    (by rw [exFwdM_ents2]; simp) (by intro q' hq'; cases hq')
  have hd3 := hdec [] (.classic exRev1 exD1, 9) [_] exFwdM_segs ⟨3, 0, .inUse 43⟩
    (by rw [exFwdX_ents1]; simp) (by
      intro q' hq'
      simp only [List.mem_cons, List.mem_nil_iff, or_false] at hq'
      subst hq'
      rw [exFwdM_ents2]
      decide)
  refine ⟨L, h1, h2, ?_, ?_, ?_, ?_⟩
  · exact (hd1.1 191 rfl).2.1 (exStmY.piece, 191) (by rw [exFwdM_objs2]; simp) rfl rfl rfl
  · exact hd2.2 0 rfl
  · exact (hd3.1 43 rfl).2.1 (exA3.piece, 43) (by rw [exFwdX_objs1]; simp) rfl rfl rfl
  · exact (hd4.1 245 rfl).2.1 (exYXs.piece, 245) (by rw [exFwdM_objs2]; simp) rfl rfl rfl

end Parsley.C04
