/-
  C04 - end-to-end theorem for histories of ANY length (follow-up of Props/C04E2E.lean).
  Proofs: Lemmas/LoaderE2EHist.lean, Lemmas/LoaderE2EHistSpec.lean.

    newest_wins_history        UNCONDITIONAL for the layout class "base revision + any number of incremental updates,
                               every cross-reference section a classic table": for EVERY file
                                 garbage ++ %PDF-… ++ rev_0 ++ rev_1 ++ … ++ rev_k ++ startxref n %%EOF …
                               with rev_i = objects_i ++ xref table_i ++ trailer_i ++ ANYTHING (`HistFile`, `RevSeg`,
                               every freedom a field as in `ClassicFile`/`TwoRevFile`) that is well formed
                               (`HistFile.WF f Ds root`: per revision the lexical conditions, no /XRefStm, each number
                               once per table; no /Prev in rev_0, /Prev of rev_(i+1) = offset of table_i, the last
                               startxref = offset of table_k, /Root in trailer_k; STABLE GENERATIONS across all tables;
                               every object reads; each table lists exactly its revision's objects; all offsets
                               computed from the layout):
                               `parseData file = ok L`, `L.root` = the newest root, and for every object number the
                               NEWEST table that mentions it decides (`Decides`, Lemmas/LoaderE2EChain.lean) - in use:
                               bound to the value written in that revision, no other generation defined; free:
                               undefined under every generation; mentioned by no table: undefined.
                               Ingredients: `xrefLoop_secs` / `xrefinfo_secs` (the /Prev loop over any number of linked
                               classic sections, by induction over the sections with all accumulators generalised; the
                               fuel `|file| + 1` suffices since the visited offsets are distinct and in range),
                               `xrefinfo_hist`, `stage_merged`.
    newest_wins_history_objs   read from the objects: an object whose number no NEWER table mentions is defined with
                               its value.
    newest_wins_history_spec   the final definitions are exactly the bindings of `DocSpec.resolve` applied to what the
                               revisions said (oldest first), and the root is the one `resolve` reports.
  Still open (C04 stays `partial`): cross-reference-stream / hybrid sections inside a history, generations that change
  along the chain (known finding #29, excluded by `stableGen`), object streams (#30), objects that load only in the
  second pass (forward-referenced /Length) in a history, the link renderHistory -> HistFile.
-/
import Parsley.Lemmas.LoaderE2EHist
import Parsley.Lemmas.LoaderE2EHistSpec
import Parsley.Props.C04E2E
namespace Parsley.C04
open Parsley Parsley.Prim Parsley.Obj Parsley.Indirect Parsley.Loader Parsley.C02 Parsley.Spelling Parsley.LoaderE2E
open Parsley.XrefSpec Parsley.C13

/-- **newest_wins_history** (C04 end to end; any number of revisions, classic tables, direct objects and streams with
    a direct /Length, any legal spelling, any padding, leading garbage, arbitrary bytes after every trailer).
    `f.segs` are the revisions with their offsets, oldest first; `f.segs = pre ++ q :: post` names a revision `q`
    together with the NEWER ones `post`. -/
theorem newest_wins_history (f : HistFile) (Ds : List (List (Bytes × Obj))) (root : ObjId) (h : f.WF Ds root) :
    ∃ L : Loaded, parseData f.bytes = .ok L ∧ L.root = root ∧
      -- an entry of revision q for a number no newer table mentions decides, with the objects of revision q
      (∀ pre q post, f.segs = pre ++ q :: post → ∀ e ∈ tableEnts q.1.subs,
        (∀ q' ∈ post, ∀ e' ∈ tableEnts q'.1.subs, e'.obj ≠ e.obj) → Decides (objsOf q) L.defs e) ∧
      -- a number no table mentions is not defined
      (∀ n, (∀ q ∈ f.segs, ∀ e ∈ tableEnts q.1.subs, e.obj ≠ n) → ∀ g, ObjStm.defsGet (n, g) L.defs = none) :=
  load_hist f Ds root h

/-- **newest_wins_history_objs**: read from the objects written -/
theorem newest_wins_history_objs (f : HistFile) (Ds : List (List (Bytes × Obj))) (root : ObjId) (h : f.WF Ds root) :
    ∃ L : Loaded, parseData f.bytes = .ok L ∧ L.root = root ∧
      ∀ pre q post, f.segs = pre ++ q :: post → ∀ p ∈ objsOf q,
        (∀ q' ∈ post, ∀ e' ∈ tableEnts q'.1.subs, e'.obj ≠ p.1.num) →
        ObjStm.defsGet (p.1.num, p.1.gen) L.defs = some (p.1.val p.2).val :=
  load_hist_objs f Ds root h

/-- **newest_wins_history_spec**: in the vocabulary of Spec/Doc.lean.  `f.saids rt` (oldest first) is what the
    revisions SAID: objects written, numbers of the free entries of the revision's table, the root `rt` assigns
    (only the newest one's matters).  The loader's final definitions are exactly the bindings of `DocSpec.resolve`. -/
theorem newest_wins_history_spec (f : HistFile) (Ds : List (List (Bytes × Obj))) (root : ObjId)
    (rt : RevSeg × Nat → ObjId) (h : f.WF Ds root) (hrt : ∀ q, f.segs.getLast? = some q → rt q = root) :
    ∃ L : Loaded, parseData f.bytes = .ok L ∧
      (DocSpec.resolve (f.saids rt)).2 = some L.root ∧
      ∀ (k : ObjId) (v : Obj), (k, v) ∈ (DocSpec.resolve (f.saids rt)).1 ↔ ObjStm.defsGet k L.defs = some v :=
  load_hist_spec f Ds root rt h hrt

/-! ## non-vacuity (1): `exTwo` of Props/C04E2E.lean as a history of two revisions -/

def exRev1 : RevSeg where
  body := [⟨C03.exObj1.piece, [10]⟩, ⟨exA2.piece, [10]⟩, ⟨exA3.piece, [10]⟩]
  subs := [exSub1]
  wt := []
  ttok := [60, 60, 47, 82, 111, 111, 116, 32, 49, 32, 48, 32, 82, 62, 62]
  gap := [10, 115, 116, 97, 114, 116, 120, 114, 101, 102, 10, 54, 48, 10, 37, 37, 69, 79, 70, 10]

def exRev2 : RevSeg where
  body := [⟨exB1.piece, [10]⟩]
  subs := [exSub2]
  wt := [10]
  ttok := [60, 60, 47, 82, 111, 111, 116, 32, 49, 32, 48, 32, 82, 47, 80, 114, 101, 118, 32, 54, 48, 62, 62]
  gap := [10]

def exHist2 : HistFile where
  garbage := [106, 117, 110, 107, 10]
  hdrRest := [49, 46, 53, 10]
  revs := [exRev1, exRev2]
  wsx := [10]
  ds := [50, 48, 56]
  e := [10]
  trail := [10]

/-- the same bytes as `exTwo` -/
example : exHist2.bytes = exTwo.bytes := by decide +kernel

def exD1 : List (Bytes × Obj) := [([82, 111, 111, 116], .ref 1 0)]

theorem exRev1_reads : ∀ q ∈ exRev1.body, q.p.Reads := by
  intro q hq
  simp only [exRev1, List.mem_cons, List.mem_nil_iff, or_false] at hq
  rcases hq with rfl | rfl | rfl
  · exact C03.exObj1.piece_reads C03.exObj1_ok
  · exact exA2.piece_reads exA2_ok
  · exact exA3.piece_reads exA3_ok

theorem exRev2_reads : ∀ q ∈ exRev2.body, q.p.Reads := by
  intro q hq
  simp only [exRev2, List.mem_cons, List.mem_nil_iff, or_false] at hq
  subst hq
  exact exB1.piece_reads exB1_ok

theorem exSec1_ok (c : Nat) : SecOK ⟨c, [exSub1], [], [60, 60, 47, 82, 111, 111, 116, 32, 49, 32, 48, 32, 82, 62, 62], exD1⟩ where
  subsNe := by simp
  subsOk := by
    intro t ht
    simp only [List.mem_cons, List.mem_nil_iff, or_false] at ht
    subst ht
    exact ⟨by decide +kernel, by simp [exSub1]⟩
  numsNodup := by show ((tableEnts [exSub1]).map (·.obj)).Nodup; decide +kernel
  wt := WsRun.nil
  trailer := ⟨2, C03.exTrailer_spells, by decide⟩
  noXRefStm := rfl

theorem exSec2_ok (c : Nat) : SecOK ⟨c, [exSub2], [10],
    [60, 60, 47, 82, 111, 111, 116, 32, 49, 32, 48, 32, 82, 47, 80, 114, 101, 118, 32, 54, 48, 62, 62], exD2⟩ where
  subsNe := by simp
  subsOk := by
    intro t ht
    simp only [List.mem_cons, List.mem_nil_iff, or_false] at ht
    subst ht
    exact ⟨by decide +kernel, by simp [exSub2]⟩
  numsNodup := by show ((tableEnts [exSub2]).map (·.obj)).Nodup; decide +kernel
  wt := WsRun.ws 10 [] (by decide) WsRun.nil
  trailer := ⟨2, exTrailer2_spells, by decide⟩
  noXRefStm := by show ObjStm.getUsize exD2 kXRefStm = none; decide +kernel

set_option maxRecDepth 100000 in
theorem exHist2_segs : exHist2.segs = [(exRev1, 9), (exRev2, 191)] := by rfl

set_option maxRecDepth 100000 in
theorem exHist2_secs : exHist2.secs [exD1, exD2] =
    [⟨60, [exSub1], [], [60, 60, 47, 82, 111, 111, 116, 32, 49, 32, 48, 32, 82, 62, 62], exD1⟩,
     ⟨208, [exSub2], [10], [60, 60, 47, 82, 111, 111, 116, 32, 49, 32, 48, 32, 82, 47, 80, 114, 101, 118, 32, 54, 48, 62, 62], exD2⟩] := by
  rfl

theorem exHist2_wf : exHist2.WF [exD1, exD2] (1, 0) where
  noMagic := noMagic_of_no_percent _ _ (by decide)
  dsLen := rfl
  secsOk := by
    intro x hx
    rw [exHist2_secs] at hx
    simp only [List.mem_cons, List.mem_nil_iff, or_false] at hx
    rcases hx with rfl | rfl
    · exact exSec1_ok 60
    · exact exSec2_ok 208
  prevs := by
    rw [exHist2_secs]
    exact (PrevOK_cons _ _ _).mpr ⟨rfl, (PrevOK_cons _ _ _).mpr ⟨by decide +kernel, trivial⟩⟩
  newest := ⟨_, by rw [exHist2_secs]; rfl, rfl, by decide +kernel⟩
  stableGen := by
    unfold StableGen
    decide +kernel
  wsx := WsRun.ws 10 [] (by decide) WsRun.nil
  wsxNe := by simp [exHist2]
  wsxNoS := by decide
  dsNe := by simp [exHist2]
  dsDig := by decide
  ofsFits := by decide
  e := by decide
  trail := noLaterEOF_of_no_percent _ (by decide)
  reads := by
    intro r hr
    simp only [exHist2, List.mem_cons, List.mem_nil_iff, or_false] at hr
    rcases hr with rfl | rfl
    · exact exRev1_reads
    · exact exRev2_reads
  tableObjs := by
    intro q hq
    rw [exHist2_segs] at hq
    simp only [List.mem_cons, List.mem_nil_iff, or_false] at hq
    rcases hq with rfl | rfl
    · exact ⟨_, List.Perm.refl _, by decide +kernel⟩
    · exact ⟨_, List.Perm.refl _, by decide +kernel⟩

/-- the theorem applied: object 1 has its NEW value, the freed object 2 is gone, object 3 keeps its value -/
example : ∃ L : Loaded, parseData exHist2.bytes = .ok L ∧ L.root = (1, 0) ∧
    ObjStm.defsGet (1, 0) L.defs = some (.int 9) ∧
    (∀ g, ObjStm.defsGet (2, g) L.defs = none) ∧
    ObjStm.defsGet (3, 0) L.defs = some (.int 5) ∧
    (∀ g, ObjStm.defsGet (4, g) L.defs = none) := by
  obtain ⟨L, h1, h2, hdec, hnone⟩ := newest_wins_history exHist2 _ _ exHist2_wf
  have hE2 : tableEnts exRev2.subs = [⟨1, 0, .inUse 191⟩, ⟨2, 0, .free 0⟩] := by decide +kernel
  have hE1 : tableEnts exRev1.subs = [⟨0, 65535, .free 0⟩, ⟨1, 0, .inUse 9⟩, ⟨2, 0, .inUse 26⟩, ⟨3, 0, .inUse 43⟩] := by
    decide +kernel
  have hd1 := hdec [(exRev1, 9)] (exRev2, 191) [] exHist2_segs ⟨1, 0, .inUse 191⟩ (by rw [hE2]; simp)
    (by intro q' hq'; cases hq')
  have hd2 := hdec [(exRev1, 9)] (exRev2, 191) [] exHist2_segs ⟨2, 0, .free 0⟩ (by rw [hE2]; simp)
    (by intro q' hq'; cases hq')
  have hd3 := hdec [] (exRev1, 9) [(exRev2, 191)] exHist2_segs ⟨3, 0, .inUse 43⟩ (by rw [hE1]; simp) (by
    intro q' hq'
    simp only [List.mem_cons, List.mem_nil_iff, or_false] at hq'
    subst hq'
    rw [hE2]
    decide)
  refine ⟨L, h1, h2, ?_, ?_, ?_, ?_⟩
  · exact (hd1.1 191 rfl).2.1 (exB1.piece, 191) (by simp [objsOf, exRev2, place]) rfl rfl rfl
  · exact hd2.2 0 rfl
  · exact (hd3.1 43 rfl).2.1 (exA3.piece, 43) (by
      have : objsOf (exRev1, 9) = [(C03.exObj1.piece, 9), (exA2.piece, 26), (exA3.piece, 43)] := by rfl
      rw [this]; simp) rfl rfl rfl
  · apply hnone 4
    intro q hq
    rw [exHist2_segs] at hq
    simp only [List.mem_cons, List.mem_nil_iff, or_false] at hq
    rcases hq with rfl | rfl
    · rw [hE1]; decide
    · rw [hE2]; decide

/-! ## non-vacuity (2): THREE revisions - the second update re-creates object 2 (= 8) that the first update freed -/

/-- the first update, followed by its own `startxref 208 %%EOF` -/
def exRev2b : RevSeg where
  body := [⟨exB1.piece, [10]⟩]
  subs := [exSub2]
  wt := [10]
  ttok := [60, 60, 47, 82, 111, 111, 116, 32, 49, 32, 48, 32, 82, 47, 80, 114, 101, 118, 32, 54, 48, 62, 62]
  gap := [10, 115, 116, 97, 114, 116, 120, 114, 101, 102, 10, 50, 48, 56, 10, 37, 37, 69, 79, 70, 10]

/-- the second update's table: object 2 in use at 309 -/
def exSub3 : TSub where
  start := 2
  wStart := 1
  wCount := 1
  lead := []
  hdrEol := [10]
  ents := [⟨309, 0, true, .spLf⟩]

/-- the second update's trailer dictionary: `/Root 1 0 R /Prev 208` -/
def exD3 : List (Bytes × Obj) := dictOf [([82, 111, 111, 116], .ref 1 0), ([80, 114, 101, 118], .int 208)]

/-- `<</Root 1 0 R/Prev 208>>` -/
theorem exTrailer3_spells : Spells 2 (.dict exD3)
    [60, 60, 47, 82, 111, 111, 116, 32, 49, 32, 48, 32, 82, 47, 80, 114, 101, 118, 32, 50, 48, 56, 62, 62] := by
  have r1 : Spells 1 (.ref 1 0) [49, 32, 48, 32, 82] :=
    Spells.ref 0 [49] [32] [48] [32] (by simp) (by decide) (by decide) (by simp) (by decide) (by decide)
      C03.ws32 (by simp) C03.ws32 (by simp)
  have i208 : Spells 1 (.int 208) [50, 48, 56] := Spells.int 0 .none [50, 48, 56] (by simp) (by decide) (by decide)
  have kR : (nameBody [82, 111, 111, 116] [1, 0, 0, 1, 0, 0, 1, 0, 0, 1, 0, 0]).1 = [82, 111, 111, 116] := by decide
  have kP : (nameBody [80, 114, 101, 118] [1, 0, 0, 1, 0, 0, 1, 0, 0, 1, 0, 0]).1 = [80, 114, 101, 118] := by decide
  have d1 : SpellsEntries 1 [[82, 111, 111, 116]] [([80, 114, 101, 118], .int 208)] [47, 80, 114, 101, 118, 32, 50, 48, 56] := by
    have := SpellsEntries.cons 1 [[82, 111, 111, 116]] [80, 114, 101, 118] (.int 208) [] [] [1, 0, 0, 1, 0, 0, 1, 0, 0, 1, 0, 0] [32]
      _ _ WsRun.nil (by decide) (by decide) C03.ws32 i208 (fun _ => by simp) (SpellsEntries.nil 1 _)
    rw [kP] at this
    exact this
  have d0 : SpellsEntries 1 [] [([82, 111, 111, 116], .ref 1 0), ([80, 114, 101, 118], .int 208)]
      [47, 82, 111, 111, 116, 32, 49, 32, 48, 32, 82, 47, 80, 114, 101, 118, 32, 50, 48, 56] := by
    have := SpellsEntries.cons 1 [] [82, 111, 111, 116] (.ref 1 0) [([80, 114, 101, 118], .int 208)] []
      [1, 0, 0, 1, 0, 0, 1, 0, 0, 1, 0, 0] [32] _ _ WsRun.nil (by decide) (by simp) C03.ws32 r1 (fun _ => by simp) d1
    rw [kR] at this
    exact this
  exact Spells.dict 1 _ _ [] d0 WsRun.nil

def exRev3 : RevSeg where
  body := [⟨exA2.piece, [10]⟩]
  subs := [exSub3]
  wt := []
  ttok := [60, 60, 47, 82, 111, 111, 116, 32, 49, 32, 48, 32, 82, 47, 80, 114, 101, 118, 32, 50, 48, 56, 62, 62]
  gap := [10]

/-- `%PDF-1.5 LF <1 = 7> <2 = 8> <3 = 5> xref 0 4 … trailer<</Root 1 0 R>> startxref 60 %%EOF
    <1 = 9> xref 1 2 (1 in use, 2 free) trailer <</Root 1 0 R/Prev 60>> startxref 208 %%EOF
    <2 = 8> xref 2 1 trailer<</Root 1 0 R/Prev 208>> startxref 326 %%EOF` -/
def exHist3 : HistFile where
  garbage := []
  hdrRest := [49, 46, 53, 10]
  revs := [exRev1, exRev2b, exRev3]
  wsx := [10]
  ds := [51, 50, 54]
  e := [10]
  trail := []

theorem exSec3_ok (c : Nat) : SecOK ⟨c, [exSub3], [],
    [60, 60, 47, 82, 111, 111, 116, 32, 49, 32, 48, 32, 82, 47, 80, 114, 101, 118, 32, 50, 48, 56, 62, 62], exD3⟩ where
  subsNe := by simp
  subsOk := by
    intro t ht
    simp only [List.mem_cons, List.mem_nil_iff, or_false] at ht
    subst ht
    exact ⟨by decide +kernel, by simp [exSub3]⟩
  numsNodup := by show ((tableEnts [exSub3]).map (·.obj)).Nodup; decide +kernel
  wt := WsRun.nil
  trailer := ⟨2, exTrailer3_spells, by decide⟩
  noXRefStm := by show ObjStm.getUsize exD3 kXRefStm = none; decide +kernel

set_option maxRecDepth 100000 in
theorem exHist3_segs : exHist3.segs = [(exRev1, 9), (exRev2b, 191), (exRev3, 309)] := by rfl

set_option maxRecDepth 100000 in
theorem exHist3_secs : exHist3.secs [exD1, exD2, exD3] =
    [⟨60, [exSub1], [], [60, 60, 47, 82, 111, 111, 116, 32, 49, 32, 48, 32, 82, 62, 62], exD1⟩,
     ⟨208, [exSub2], [10], [60, 60, 47, 82, 111, 111, 116, 32, 49, 32, 48, 32, 82, 47, 80, 114, 101, 118, 32, 54, 48, 62, 62], exD2⟩,
     ⟨326, [exSub3], [], [60, 60, 47, 82, 111, 111, 116, 32, 49, 32, 48, 32, 82, 47, 80, 114, 101, 118, 32, 50, 48, 56, 62, 62], exD3⟩] := by
  rfl

theorem exHist3_wf : exHist3.WF [exD1, exD2, exD3] (1, 0) where
  noMagic := by intro k hk; simp [exHist3] at hk
  dsLen := rfl
  secsOk := by
    intro x hx
    rw [exHist3_secs] at hx
    simp only [List.mem_cons, List.mem_nil_iff, or_false] at hx
    rcases hx with rfl | rfl | rfl
    · exact exSec1_ok 60
    · exact exSec2_ok 208
    · exact exSec3_ok 326
  prevs := by
    rw [exHist3_secs]
    exact (PrevOK_cons _ _ _).mpr ⟨rfl, (PrevOK_cons _ _ _).mpr ⟨by decide +kernel,
      (PrevOK_cons _ _ _).mpr ⟨by decide +kernel, trivial⟩⟩⟩
  newest := ⟨_, by rw [exHist3_secs]; rfl, rfl, by decide +kernel⟩
  stableGen := by
    unfold StableGen
    decide +kernel
  wsx := WsRun.ws 10 [] (by decide) WsRun.nil
  wsxNe := by simp [exHist3]
  wsxNoS := by decide
  dsNe := by simp [exHist3]
  dsDig := by decide
  ofsFits := by decide
  e := by decide
  trail := noLaterEOF_of_no_percent _ (by decide)
  reads := by
    intro r hr
    simp only [exHist3, List.mem_cons, List.mem_nil_iff, or_false] at hr
    rcases hr with rfl | rfl | rfl
    · exact exRev1_reads
    · exact exRev2_reads
    · intro q hq
      simp only [exRev3, List.mem_cons, List.mem_nil_iff, or_false] at hq
      subst hq
      exact exA2.piece_reads exA2_ok
  tableObjs := by
    intro q hq
    rw [exHist3_segs] at hq
    simp only [List.mem_cons, List.mem_nil_iff, or_false] at hq
    rcases hq with rfl | rfl | rfl
    · exact ⟨_, List.Perm.refl _, by decide +kernel⟩
    · exact ⟨_, List.Perm.refl _, by decide +kernel⟩
    · exact ⟨_, List.Perm.refl _, by decide +kernel⟩

/-- what `resolve` says for the three-revision history: 1 rewritten by the first update, 2 freed by the first update and
    re-created by the second, 3 untouched since the base revision -/
example : DocSpec.resolve (exHist3.saids fun _ => (1, 0)) =
    ([((1, 0), .int 9), ((2, 0), .int 8), ((3, 0), .int 5)], some (1, 0)) := by
  rfl

/-- the spec corollary applied: the loader's context holds exactly these three bindings -/
example : ∃ L : Loaded, parseData exHist3.bytes = .ok L ∧ L.root = (1, 0) ∧
    ∀ (k : ObjId) (v : Obj), ObjStm.defsGet k L.defs = some v ↔
      (k, v) = ((1, 0), .int 9) ∨ (k, v) = ((2, 0), .int 8) ∨ (k, v) = ((3, 0), .int 5) := by
  obtain ⟨L, h1, h2, h3⟩ := newest_wins_history_spec exHist3 _ _ (fun _ => (1, 0)) exHist3_wf (fun _ _ => rfl)
  have h2' : some ((1, 0) : ObjId) = some L.root := h2
  have h3' : ∀ (k : ObjId) (v : Obj),
      (k, v) ∈ ([((1, 0), .int 9), ((2, 0), .int 8), ((3, 0), .int 5)] : List (ObjId × Obj)) ↔
      ObjStm.defsGet k L.defs = some v := h3
  have hr : L.root = (1, 0) := (Option.some.inj h2').symm
  refine ⟨L, h1, hr, ?_⟩
  intro k v
  rw [← h3' k v]
  simp only [List.mem_cons, List.mem_nil_iff, or_false]

end Parsley.C04
