/-
  C04 - end-to-end theorem for histories whose revisions are encoded with classic tables or cross-reference STREAMS,
  in ANY MIX (follow-up of Props/C04Hist.lean).  Proofs: Lemmas/LoaderE2EHistMix.lean, Lemmas/LoaderE2EHistMixSpec.lean.

    newest_wins_history_mix    UNCONDITIONAL for the layout class "any number of revisions, each one EITHER
                               objects ++ xref table ++ trailer ++ anything  (`MRev.classic`, as in `HistFile`)
                               OR objects, one of them a cross-reference stream object, ++ anything (`MRev.stream`,
                               as in `XrefStreamFile`: any /W widths, /Index partition or none, rows stored plain /
                               Flate stored blocks / Flate + predictor)", well formed (`MixFile.WF`):
                               per revision the lexical conditions (`ClassicOK` incl. no /XRefStm and no /Encrypt;
                               `StmOK` incl. direct /Length and rows of type 0/1 only), every number once per section;
                               no /Prev in revision 0, /Prev of revision i+1 = offset of the section of revision i
                               (table offset, or offset of the cross-reference stream object), last startxref = newest
                               section, /Root in the newest section; STABLE GENERATIONS across all sections; each
                               section lists exactly its revision's objects (for a stream revision the cross-reference
                               stream object included); infrastructure objects are not edited (no newer section
                               mentions the number of a cross-reference stream object).  All offsets are computed.
                               Conclusion as in `newest_wins_history`: `parseData file = ok L`, the newest root, per
                               object number the NEWEST section that mentions it decides (`Decides`), unmentioned
                               numbers are undefined.  Every cross-reference stream object is bound to its own value.
                               Ingredients: `MReads` / `msec_reads` (a written revision of either kind is read by
                               `parse_xref_section` as its entries, root, prev, registering the stream object, from
                               any sorted context), `xrefLoop_msecs` / `xrefinfo_msecs` (the /Prev loop with ALL
                               accumulators incl. the context generalised), `regAll_spec` (the context after the walk
                               binds exactly the cross-reference stream objects), `stage_merged_from`.
    newest_wins_history_mix_objs   read from the objects.
    newest_wins_history_mix_spec   the final definitions are exactly the bindings of `DocSpec.resolve`.
  Still open (C04 stays `partial`): hybrid sections (/XRefStm) in a history, an /Encrypt entry in a history with stream
  sections, generations that change along the chain (#29), in-stream entries / object streams in a history (#30),
  objects that load only in the second pass (forward-referenced /Length) in a history, renderHistory -> MixFile.
-/
import Parsley.Lemmas.LoaderE2EHistMix
import Parsley.Lemmas.LoaderE2EHistMixSpec
import Parsley.Props.C04Hist
import Parsley.Props.C03E2EObjStm
namespace Parsley.C04
open Parsley Parsley.Prim Parsley.Obj Parsley.Indirect Parsley.Loader Parsley.C02 Parsley.Spelling Parsley.LoaderE2E
open Parsley.XrefSpec Parsley.C13
open Parsley.C03 (bT bX bS bW bR bL bI rawCh exW_spells arr_ints digOK_dec)

/-- **newest_wins_history_mix** (C04 end to end; any number of revisions, classic tables and cross-reference streams
    in any mix).  `f.segs` are the revisions with their offsets, oldest first; `f.segs = pre ++ q :: post` names a
    revision `q` together with the NEWER ones `post`; `q.1.ents` are the entries of its section, `mobjsOf q` its
    objects with their offsets. -/
theorem newest_wins_history_mix (f : MixFile) (root : ObjId) (h : f.WF root) :
    ∃ L : Loaded, parseData f.bytes = .ok L ∧ L.root = root ∧
      (∀ pre q post, f.segs = pre ++ q :: post → ∀ e ∈ q.1.ents,
        (∀ q' ∈ post, ∀ e' ∈ q'.1.ents, e'.obj ≠ e.obj) → Decides (mobjsOf q) L.defs e) ∧
      (∀ n, (∀ q ∈ f.segs, ∀ e ∈ q.1.ents, e.obj ≠ n) → ∀ g, ObjStm.defsGet (n, g) L.defs = none) :=
  load_mix f root h

/-- **newest_wins_history_mix_objs**: read from the objects written -/
theorem newest_wins_history_mix_objs (f : MixFile) (root : ObjId) (h : f.WF root) :
    ∃ L : Loaded, parseData f.bytes = .ok L ∧ L.root = root ∧
      ∀ pre q post, f.segs = pre ++ q :: post → ∀ p ∈ mobjsOf q,
        (∀ q' ∈ post, ∀ e' ∈ q'.1.ents, e'.obj ≠ p.1.num) →
        ObjStm.defsGet (p.1.num, p.1.gen) L.defs = some (p.1.val p.2).val :=
  load_mix_objs f root h

/-- **newest_wins_history_mix_spec**: in the vocabulary of Spec/Doc.lean -/
theorem newest_wins_history_mix_spec (f : MixFile) (root : ObjId) (rt : MRev × Nat → ObjId) (h : f.WF root)
    (hrt : ∀ q, f.segs.getLast? = some q → rt q = root) :
    ∃ L : Loaded, parseData f.bytes = .ok L ∧
      (DocSpec.resolve (f.saids rt)).2 = some L.root ∧
      ∀ (k : ObjId) (v : Obj), (k, v) ∈ (DocSpec.resolve (f.saids rt)).1 ↔ ObjStm.defsGet k L.defs = some v :=
  load_mix_spec f root rt h hrt

/-! ## non-vacuity: base revision with a CLASSIC TABLE (`exRev1`: 1 = 7, 2 = 8, 3 = 5), update with a CROSS-REFERENCE
    STREAM (object 4; /Index [1 2 4 1]: 1 rewritten := 9 at 191, 2 freed, 4 = the stream object itself at 208;
    /Prev 60) -/

def bP : Bytes := [80, 114, 101, 118]

/-- `[1 2 4 1]` -/
theorem exIdxM_spells : Spells 2 (.arr [.int 1, .int 2, .int 4, .int 1]) [91, 49, 32, 50, 32, 52, 32, 49, 93] := by
  have := arr_ints [49] [[50], [52], [49]] (by
    intro ds hds
    simp only [List.mem_cons, List.mem_nil_iff, or_false] at hds
    rcases hds with rfl | rfl | rfl | rfl <;> exact digOK_dec _ (by decide))
  exact this

/-- the entries of the stream dictionary, as written -/
def exMEnts : List (Bytes × Obj) :=
  [(bT, .name bX), (bS, .int 5), (bW, .arr [.int 1, .int 1, .int 1]), (bI, .arr [.int 1, .int 2, .int 4, .int 1]),
   (bR, .ref 1 0), (bP, .int 60), (bL, .int 9)]

/-- `<</Type/XRef/Size 5/W[1 1 1]/Index[1 2 4 1]/Root 1 0 R/Prev 60/Length 9>>` -/
def exMTok : Bytes := [60, 60, 47, 84, 121, 112, 101, 47, 88, 82, 101, 102, 47, 83, 105, 122, 101, 32, 53, 47, 87, 91, 49, 32, 49,
  32, 49, 93, 47, 73, 110, 100, 101, 120, 91, 49, 32, 50, 32, 52, 32, 49, 93, 47, 82, 111, 111, 116, 32, 49, 32, 48, 32, 82,
  47, 80, 114, 101, 118, 32, 54, 48, 47, 76, 101, 110, 103, 116, 104, 32, 57, 62, 62]

theorem exMDict_spells : Spells 3 (.dict (dictOf exMEnts)) exMTok := by
  have vX : Spells 2 (.name bX) (47 :: (nameBody bX (rawCh 4)).1) := Spells.name 1 bX (rawCh 4) (by decide)
  have v5 : Spells 2 (.int 5) [53] := Spells.int 1 .none [53] (by simp) (by decide) (by decide)
  have v9 : Spells 2 (.int 9) [57] := Spells.int 1 .none [57] (by simp) (by decide) (by decide)
  have v60 : Spells 2 (.int 60) [54, 48] := Spells.int 1 .none [54, 48] (by simp) (by decide) (by decide)
  have vR : Spells 2 (.ref 1 0) [49, 32, 48, 32, 82] :=
    Spells.ref 1 [49] [32] [48] [32] (by simp) (by decide) (by decide) (by simp) (by decide) (by decide)
      C03.ws32 (by simp) C03.ws32 (by simp)
  have n7 := SpellsEntries.nil 2 [bL, bP, bR, bI, bW, bS, bT]
  have n6 := SpellsEntries.cons 2 [bP, bR, bI, bW, bS, bT] bL (.int 9) [] [] (rawCh 6) [32] _ [] WsRun.nil (by decide) (by decide) C03.ws32
    v9 (fun _ => by simp) n7
  have n5 := SpellsEntries.cons 2 [bR, bI, bW, bS, bT] bP (.int 60) _ [] (rawCh 4) [32] _ _ WsRun.nil (by decide) (by decide) C03.ws32
    v60 (fun _ => by simp) n6
  have n4 := SpellsEntries.cons 2 [bI, bW, bS, bT] bR (.ref 1 0) _ [] (rawCh 4) [32] _ _ WsRun.nil (by decide) (by decide) C03.ws32
    vR (fun _ => by simp) n5
  have n3 := SpellsEntries.cons 2 [bW, bS, bT] bI _ _ [] (rawCh 5) [] _ _ WsRun.nil (by decide) (by decide)
    WsRun.nil exIdxM_spells (fun h => by simp [startsReg] at h) n4
  have n2 := SpellsEntries.cons 2 [bS, bT] bW (.arr [.int 1, .int 1, .int 1]) _ [] (rawCh 1) [] _ _ WsRun.nil (by decide) (by decide)
    WsRun.nil exW_spells (fun h => by simp [startsReg] at h) n3
  have n1 := SpellsEntries.cons 2 [bT] bS (.int 5) _ [] (rawCh 4) [32] _ _ WsRun.nil (by decide) (by decide) C03.ws32
    v5 (fun _ => by simp) n2
  have n0 := SpellsEntries.cons 2 [] bT (.name bX) _ [] (rawCh 4) [] _ _ WsRun.nil (by decide) (by simp) WsRun.nil
    vX (fun h => by simp [startsReg] at h) n1
  have hd := Spells.dict 2 _ _ [] n0 WsRun.nil
  have e : exMTok = 60 :: 60 :: (([] : Bytes) ++ (47 :: (nameBody bT (rawCh 4)).1 ++ ([] ++ ((47 :: (nameBody bX (rawCh 4)).1) ++
      ([] ++ (47 :: (nameBody bS (rawCh 4)).1 ++ ([32] ++ ([53] ++
      ([] ++ (47 :: (nameBody bW (rawCh 1)).1 ++ ([] ++ ([91, 49, 32, 49, 32, 49, 93] ++
      ([] ++ (47 :: (nameBody bI (rawCh 5)).1 ++ ([] ++ ([91, 49, 32, 50, 32, 52, 32, 49, 93] ++
      ([] ++ (47 :: (nameBody bR (rawCh 4)).1 ++ ([32] ++ ([49, 32, 48, 32, 82] ++
      ([] ++ (47 :: (nameBody bP (rawCh 4)).1 ++ ([32] ++ ([54, 48] ++
      ([] ++ (47 :: (nameBody bL (rawCh 6)).1 ++ ([32] ++ ([57] ++ []))))))))))))))))))))))))))) ++ ([] ++ [62, 62])) := by
    decide +kernel
  rw [e]
  exact hd

/-- `4 0 obj<<...>>stream LF rows LF endstream SP endobj`: rows 1 191 0 / 0 0 0 / 1 208 0 -/
def exMXs : WStm := ⟨[], [52], [32], [48], [32], [], exMTok, [], [10],
  [1, 191, 0, 0, 0, 0, 1, 208, 0], [10], [32], dictOf exMEnts, 3⟩

theorem exMXs_head_ok : exMXs.head.OK where
    pad := WsRun.nil
    nne := by simp [exMXs, WStm.head]
    ndig := by decide
    nfit := by decide
    w1 := C03.ws32
    w1ne := by simp [exMXs, WStm.head]
    gne := by simp [exMXs, WStm.head]
    gdig := by decide
    gfit := by decide
    w2 := C03.ws32
    w3 := WsRun.nil
    spells := exMDict_spells
    depth := by decide
    w4 := WsRun.nil
    w4req := by intro h; simp [exMXs, WStm.head, endsReg] at h

theorem exMXs_ok : exMXs.OK where
  head := exMXs_head_ok
  e1 := by decide
  e2 := by decide
  w4 := C03.ws32

/-- /Index [1 2 4 1]: object 1 in use at 191, object 2 free (generation unchanged), object 4 in use at 208 -/
def exMSubs : List (Nat × List SEnt) := [(1, [⟨1, 191, 0⟩, ⟨0, 0, 0⟩]), (4, [⟨1, 208, 0⟩])]

/-- the update: `1 0 obj 9 endobj`, then the cross-reference stream object 4 -/
def exMStm : StmSeg where
  body1 := [⟨exB1.piece, [10]⟩]
  xs := exMXs
  xpost := [10]
  body2 := []
  gap := []
  subs := exMSubs
  w0 := 1
  w1 := 1
  w2 := 1

/-- `%PDF-1.5 LF <1 = 7> <2 = 8> <3 = 5> xref 0 4 … trailer<</Root 1 0 R>> startxref 60 %%EOF
    <1 = 9> <4 = cross-reference stream, /Prev 60> startxref 208 %%EOF` -/
def exMix : MixFile where
  garbage := []
  hdrRest := [49, 46, 53, 10]
  revs := [.classic exRev1 exD1, .stream exMStm]
  wsx := [10]
  ds := [50, 48, 56]
  e := [10]
  trail := [10]

theorem exMStm_ok : StmOK exMStm where
  xsOK := exMXs_ok
  xsLen := rfl
  dict := {
    type := rfl
    size := ⟨5, rfl, Or.inl rfl⟩
    hw := rfl
    hw0 := by decide
    hw1 := by decide
    hw1pos := by decide
    hw2 := by decide }
  stored := Stored.plain [] rfl
  fits := by decide
  lim := by decide
  noInStm := by decide
  numsNodup := by decide +kernel
  reads1 := by
    intro q hq
    simp only [exMStm, List.mem_cons, List.mem_nil_iff, or_false] at hq
    subst hq
    exact exB1.piece_reads exB1_ok
  reads2 := by intro q hq; simp [exMStm] at hq

theorem exRev1_cok : ClassicOK exRev1 exD1 where
  sec := exSec1_ok 0
  noEncrypt := rfl
  reads := exRev1_reads

set_option maxRecDepth 100000 in
theorem exMix_segs : exMix.segs = [(.classic exRev1 exD1, 9), (.stream exMStm, 191)] := by rfl

theorem exMix_wf : exMix.WF (1, 0) where
  noMagic := by intro k hk; simp [exMix] at hk
  revsOk := by
    intro m hm
    simp only [exMix, List.mem_cons, List.mem_nil_iff, or_false] at hm
    rcases hm with rfl | rfl
    · exact exRev1_cok
    · exact exMStm_ok
  prevs := by
    rw [exMix_segs]
    exact (MPrevOK_cons _ _ _).mpr ⟨rfl, (MPrevOK_cons _ _ _).mpr ⟨by decide +kernel, trivial⟩⟩
  newest := ⟨_, by rw [exMix_segs]; rfl, rfl, by decide +kernel⟩
  stableGen := by
    unfold StableGen
    decide +kernel
  tableObjs := by
    intro q hq
    rw [exMix_segs] at hq
    simp only [List.mem_cons, List.mem_nil_iff, or_false] at hq
    rcases hq with rfl | rfl
    · exact ⟨_, List.Perm.refl _, by decide +kernel⟩
    · exact ⟨_, List.Perm.refl _, by decide +kernel⟩
  notEdited := by
    intro pre q post hseg k hk q' hq'
    rw [exMix_segs] at hseg
    cases pre with
    | nil =>
      simp only [List.nil_append, List.cons.injEq] at hseg
      obtain ⟨rfl, _⟩ := hseg
      cases hk
    | cons a pre' =>
      cases pre' with
      | nil =>
        simp only [List.cons_append, List.nil_append, List.cons.injEq] at hseg
        obtain ⟨_, _, rfl⟩ := hseg
        cases hq'
      | cons b pre'' =>
        have := congrArg List.length hseg
        simp at this
  wsx := WsRun.ws 10 [] (by decide) WsRun.nil
  wsxNe := by simp [exMix]
  wsxNoS := by decide
  dsNe := by simp [exMix]
  dsDig := by decide
  ofsFits := by decide
  e := by decide
  trail := noLaterEOF_of_no_percent _ (by decide)

/-- the theorem applied: object 1 has the value the update wrote, object 2 (freed by the cross-reference stream) is
    gone, object 3 keeps the base revision's value, object 4 is the cross-reference stream object itself -/
example : ∃ L : Loaded, parseData exMix.bytes = .ok L ∧ L.root = (1, 0) ∧
    ObjStm.defsGet (1, 0) L.defs = some (.int 9) ∧
    (∀ g, ObjStm.defsGet (2, g) L.defs = none) ∧
    ObjStm.defsGet (3, 0) L.defs = some (.int 5) ∧
    ObjStm.defsGet (4, 0) L.defs = some (.stream (dictOf exMEnts) ⟨295, 9, [1, 191, 0, 0, 0, 0, 1, 208, 0]⟩) ∧
    (∀ g, ObjStm.defsGet (5, g) L.defs = none) := by
  obtain ⟨L, h1, h2, hdec, hnone⟩ := newest_wins_history_mix exMix _ exMix_wf
  have hE2 : streamEnts exMSubs = [⟨1, 0, .inUse 191⟩, ⟨2, 0, .free 0⟩, ⟨4, 0, .inUse 208⟩] := by decide +kernel
  have hE1 : tableEnts exRev1.subs = [⟨0, 65535, .free 0⟩, ⟨1, 0, .inUse 9⟩, ⟨2, 0, .inUse 26⟩, ⟨3, 0, .inUse 43⟩] := by
    decide +kernel
  have hents2 : (MRev.stream exMStm).ents = streamEnts exMSubs := rfl
  have hents1 : (MRev.classic exRev1 exD1).ents = tableEnts exRev1.subs := rfl
  have hobjs2 : mobjsOf (MRev.stream exMStm, 191) = [(exB1.piece, 191), (exMXs.piece, 208)] := by rfl
  have hobjs1 : mobjsOf (MRev.classic exRev1 exD1, 9) = [(C03.exObj1.piece, 9), (exA2.piece, 26), (exA3.piece, 43)] := by
    rfl
  have hd1 := hdec [(.classic exRev1 exD1, 9)] (.stream exMStm, 191) [] exMix_segs ⟨1, 0, .inUse 191⟩
    (by rw [hents2, hE2]; simp) (by intro q' hq'; cases hq')
  have hd2 := hdec [(.classic exRev1 exD1, 9)] (.stream exMStm, 191) [] exMix_segs ⟨2, 0, .free 0⟩
    (by rw [hents2, hE2]; simp) (by intro q' hq'; cases hq')
  have hd4 := hdec [(.classic exRev1 exD1, 9)] (.stream exMStm, 191) [] exMix_segs ⟨4, 0, .inUse 208⟩
    (by rw [hents2, hE2]; simp) (by intro q' hq'; cases hq')
  have hd3 := hdec [] (.classic exRev1 exD1, 9) [(.stream exMStm, 191)] exMix_segs ⟨3, 0, .inUse 43⟩
    (by rw [hents1, hE1]; simp) (by
      intro q' hq'
      simp only [List.mem_cons, List.mem_nil_iff, or_false] at hq'
      subst hq'
      rw [hents2, hE2]
      decide)
  refine ⟨L, h1, h2, ?_, ?_, ?_, ?_, ?_⟩
  · exact (hd1.1 191 rfl).2.1 (exB1.piece, 191) (by rw [hobjs2]; simp) rfl rfl rfl
  · exact hd2.2 0 rfl
  · exact (hd3.1 43 rfl).2.1 (exA3.piece, 43) (by rw [hobjs1]; simp) rfl rfl rfl
  · exact (hd4.1 208 rfl).2.1 (exMXs.piece, 208) (by rw [hobjs2]; simp) rfl rfl rfl
  · apply hnone 5
    intro q hq
    rw [exMix_segs] at hq
    simp only [List.mem_cons, List.mem_nil_iff, or_false] at hq
    rcases hq with rfl | rfl
    · rw [hents1, hE1]; decide
    · rw [hents2, hE2]; decide

end Parsley.C04
