/-
  C04 - end-to-end theorem for histories in which any revision may ALSO be a HYBRID section (classic table whose
  trailer has /XRefStm pointing at a cross-reference stream object written in the revision), follow-up of
  Props/C04HistMix.lean.  Proofs: Lemmas/LoaderE2EHistHyb.lean, LoaderE2EHistHyb2.lean, LoaderE2EHistHybSpec.lean.

    newest_wins_history_hybrid   FULL (no `_partial`): layout class "any number of revisions, oldest first, each one
                               classic (`MRev.classic`), cross-reference stream (`MRev.stream`) or HYBRID
                               (`HRev.hybrid`: objects, one of them the /XRefStm stream object, table, trailer with
                               /XRefStm, anything)", well formed (`HybMixFile.WF`).  A hybrid section may list a HIDDEN
                               object twice - free in the table (for old readers), real entry in the stream:
                               `hiddenIn`.  The hypotheses "every number once per section" and STABLE GENERATIONS are
                               asked of the VISIBLE entries only (`HRev.vis`: hidden table entries left out), and the
                               decidable predicate `hiddenClash` (a hidden table entry carries the very (number,
                               generation) of a stream entry) must be false: this is exactly what excludes known finding
                               C03-hybrid-hidden-gen0 (`hybrid_hidden_gen0_excluded`).  Conclusion: `parseData` accepts,
                               the newest root, per object number the NEWEST section that mentions it decides
                               (`Decides`) - within a hybrid section a number listed in both parts is decided by its
                               STREAM entry -, unmentioned numbers are undefined.
    newest_wins_history_hybrid_objs   read from the objects: every object whose number no newer section mentions is
                               bound to the value written (hidden objects and /XRefStm stream objects included).
    newest_wins_history_hybrid_spec   the final definitions are exactly the bindings of `DocSpec.resolve`.
    hiddenClash_false_of_keys_nodup   the exclusion predicate is false whenever the (number, generation) keys of
                               table ++ stream are pairwise distinct (the hypothesis of the single-revision
                               `load_defines_exactly_hybrid`).
    hybrid_hidden_gen0_excluded       the predicate is TRUE on the two entry lists the model computes from the witness
                               file of the known finding (`C03.hybridGen0`), FALSE on `C03.hybridGen65535`.
    exHyb, exHyb_wf            non-vacuity: classic base revision + hybrid update with /Prev that frees object 2 in its
                               table and hides object 5 (free entry with generation 65535 in the table, type-1 row in
                               the /XRefStm stream).
  Still open: type-2 rows (object streams) in a history (#30), generations that change along the chain (#29), /Encrypt.
-/
import Parsley.Lemmas.LoaderE2EHistHyb2
import Parsley.Lemmas.LoaderE2EHistHybSpec
import Parsley.Props.C04HistMix
import Parsley.Props.C03
namespace Parsley.C04
open Parsley Parsley.Prim Parsley.Obj Parsley.Indirect Parsley.Loader Parsley.C02 Parsley.Spelling Parsley.LoaderE2E
open Parsley.XrefSpec Parsley.C13 Parsley.LoaderChain
open Parsley.C03 (bT bX bS bW bR bL bI bXS rawCh exW_spells arr_ints digOK_dec)

/-- **newest_wins_history_hybrid** (C04 end to end; any number of revisions; classic tables, cross-reference streams
    and hybrid sections in any mix).  `f.segs` are the revisions with their offsets, oldest first; `f.segs = pre ++ q ::
    post` names a revision `q` together with the NEWER ones `post`; `q.1.vis` are the visible entries of its section (for
    a hybrid section: the table's entries without the free ones whose number the /XRefStm stream lists too, then the
    stream's entries), `q.1.ents` all its entries, `hobjsOf q` its objects with their offsets. -/
theorem newest_wins_history_hybrid (f : HybMixFile) (root : ObjId) (h : f.WF root) :
    ∃ L : Loaded, parseData f.bytes = .ok L ∧ L.root = root ∧
      (∀ pre q post, f.segs = pre ++ q :: post → ∀ e ∈ q.1.vis,
        (∀ q' ∈ post, ∀ e' ∈ q'.1.ents, e'.obj ≠ e.obj) → Decides (hobjsOf q) L.defs e) ∧
      (∀ n, (∀ q ∈ f.segs, ∀ e ∈ q.1.ents, e.obj ≠ n) → ∀ g, ObjStm.defsGet (n, g) L.defs = none) := by
  obtain ⟨L, hL, hroot, hdec, hnone⟩ := load_hybmix f root h
  refine ⟨L, hL, hroot, ?_, ?_⟩
  · intro pre q post hseg e he hno
    exact hdec pre q post hseg e he (fun q' hq' e' he' => hno q' hq' e' (q'.1.vis_sub e' he'))
  · intro n hn
    exact hnone n (fun q hq e he => hn q hq e (q.1.vis_sub e he))

/-- what the visible entries of a hybrid section are: the stream's entries, and the table's entries except the free
    ones whose number the stream lists too -/
theorem vis_hybrid_iff (hs : HybSeg) (D : List (Bytes × Obj)) (e : Xref.Ent) :
    e ∈ (HRev.hybrid hs D).vis ↔
      e ∈ streamEnts hs.ssubs ∨
      (e ∈ tableEnts hs.subs ∧ ¬ (isFreeEnt e = true ∧ ∃ e' ∈ streamEnts hs.ssubs, e'.obj = e.obj)) := by
  simp only [HRev.vis, visTable, hiddenIn, List.mem_append, List.mem_filter, Bool.not_eq_eq_eq_not, Bool.not_true,
    Bool.and_eq_false_imp, List.any_eq_false, beq_iff_eq, not_and, not_exists]
  constructor
  · rintro (⟨h1, h2⟩ | h)
    · exact Or.inr ⟨h1, fun hf e' he' => h2 hf e' he'⟩
    · exact Or.inl h
  · rintro (h | ⟨h1, h2⟩)
    · exact Or.inr h
    · exact Or.inl ⟨h1, fun hf e' he' => h2 hf e' he'⟩

/-- every number a section mentions is mentioned by a visible entry (and conversely, `HRev.vis_sub`) -/
theorem vis_mentions_same_numbers (m : HRev) (n : Nat) : (∃ e ∈ m.vis, e.obj = n) ↔ ∃ e ∈ m.ents, e.obj = n := by
  constructor
  · rintro ⟨e, he, hn⟩
    exact ⟨e, m.vis_sub e he, hn⟩
  · rintro ⟨e, he, hn⟩
    obtain ⟨e', he', ho⟩ := m.vis_nums e he
    exact ⟨e', he', ho.trans hn⟩

/-- **newest_wins_history_hybrid_objs**: read from the objects written -/
theorem newest_wins_history_hybrid_objs (f : HybMixFile) (root : ObjId) (h : f.WF root) :
    ∃ L : Loaded, parseData f.bytes = .ok L ∧ L.root = root ∧
      ∀ pre q post, f.segs = pre ++ q :: post → ∀ p ∈ hobjsOf q,
        (∀ q' ∈ post, ∀ e' ∈ q'.1.ents, e'.obj ≠ p.1.num) →
        ObjStm.defsGet (p.1.num, p.1.gen) L.defs = some (p.1.val p.2).val :=
  load_hybmix_objs f root h

/-- **newest_wins_history_hybrid_spec**: in the vocabulary of Spec/Doc.lean -/
theorem newest_wins_history_hybrid_spec (f : HybMixFile) (root : ObjId) (rt : HRev × Nat → ObjId) (h : f.WF root)
    (hrt : ∀ q, f.segs.getLast? = some q → rt q = root) :
    ∃ L : Loaded, parseData f.bytes = .ok L ∧
      (DocSpec.resolve (f.saids rt)).2 = some L.root ∧
      ∀ (k : ObjId) (v : Obj), (k, v) ∈ (DocSpec.resolve (f.saids rt)).1 ↔ ObjStm.defsGet k L.defs = some v :=
  load_hybmix_spec f root rt h hrt

/-! ## the exclusion predicate and the known finding C03-hybrid-hidden-gen0 -/

/-- the predicate is false when every (number, generation) is mentioned once over table and stream together -/
theorem hiddenClash_false_of_keys_nodup (tbl stm : List Xref.Ent) (h : ((tbl ++ stm).map keyOf).Nodup) :
    hiddenClash tbl stm = false := by
  cases hc : hiddenClash tbl stm with
  | false => rfl
  | true =>
    exfalso
    simp only [hiddenClash, List.any_eq_true, Bool.and_eq_true, beq_iff_eq] at hc
    obtain ⟨e, he, _, e', he', ho, hg⟩ := hc
    rw [List.map_append, List.nodup_append] at h
    exact h.2.2 _ (List.mem_map_of_mem he) _ (List.mem_map_of_mem he') (by simp [keyOf, ho, hg])

/-- the table part of a hybrid section of raw bytes, as the model reads it -/
def tablePart (s : Bytes) (c : Nat) : List Xref.Ent :=
  match Xref.xrefSectP s c with
  | (.ok xrs, _) => Xref.sectEnts xrs.val
  | _ => []

/-- the entries of a cross-reference stream object of raw bytes, as the model reads them -/
def streamPart (s : Bytes) (x : Nat) : List Xref.Ent :=
  match parseXrefStream ⟨Ctx.new 50, false⟩ s x with
  | (.ok (some (ents, _, _)), _, _) => ents
  | _ => []

/-- all entries of a section of raw bytes, as `parse_xref_section` yields them -/
def sectionEnts (s : Bytes) (c : Nat) : List Xref.Ent :=
  match parseXrefSection ⟨Ctx.new 50, false⟩ s c with
  | (.ok (some (ents, _, _)), _, _) => ents
  | _ => []

/-- the witness file of the known finding: its hybrid section (table at 186, /XRefStm 101) yields the table's entries
    followed by the stream's -/
theorem hybridGen0_section :
    sectionEnts C03.hybridGen0 186 = tablePart C03.hybridGen0 186 ++ streamPart C03.hybridGen0 101 ∧
    tablePart C03.hybridGen0 186 =
      [⟨0, 65535, .free 0⟩, ⟨1, 0, .inUse 9⟩, ⟨2, 0, .free 0⟩, ⟨3, 0, .inUse 26⟩, ⟨4, 0, .inUse 101⟩] ∧
    streamPart C03.hybridGen0 101 = [⟨2, 0, .inStream 3 0⟩] := by
  decide +kernel

/-- **hybrid_hidden_gen0_excluded**: the witness of known finding C03-hybrid-hidden-gen0 falls outside the hypotheses
    of `newest_wins_history_hybrid` exactly through the exclusion predicate (`HybOK.noClash` asks for `false`); the same
    file with generation 65535 in the free entry passes it -/
theorem hybrid_hidden_gen0_excluded :
    hiddenClash (tablePart C03.hybridGen0 186) (streamPart C03.hybridGen0 101) = true ∧
    hiddenClash (tablePart C03.hybridGen65535 186) (streamPart C03.hybridGen65535 101) = false := by
  decide +kernel

/-! ## non-vacuity: base revision with a CLASSIC TABLE (`exRev1`: 1 = 7, 2 = 8, 3 = 5), HYBRID update with /Prev 60:
    object 5 = 6 written at 191 and HIDDEN (table: free, generation 65535; /XRefStm stream: type-1 row at 191), the
    /XRefStm stream object 4 at 208 (listed in the table), object 2 freed by the table (generation unchanged) -/

/-- `5 0 obj 6 endobj` -/
def exH5 : WObj := ⟨[], [53], [32], [48], [32], [32], [54], [32], .int 6, 1⟩

theorem exH5_ok : exH5.OK := wobj_ok 53 54 6 (by decide) (by decide) (by decide)

/-- `[5 1]` -/
theorem exIdxH_spells : Spells 2 (.arr [.int 5, .int 1]) [91, 53, 32, 49, 93] := by
  have := arr_ints [53] [[49]] (by
    intro ds hds
    simp only [List.mem_cons, List.mem_nil_iff, or_false] at hds
    rcases hds with rfl | rfl <;> exact digOK_dec _ (by decide))
  exact this

def exHEnts : List (Bytes × Obj) :=
  [(bT, .name bX), (bS, .int 6), (bW, .arr [.int 1, .int 1, .int 1]), (bI, .arr [.int 5, .int 1]), (bL, .int 3)]

/-- `<</Type/XRef/Size 6/W[1 1 1]/Index[5 1]/Length 3>>` -/
def exHTok : Bytes := [60, 60, 47, 84, 121, 112, 101, 47, 88, 82, 101, 102, 47, 83, 105, 122, 101, 32, 54, 47, 87, 91, 49, 32, 49, 32,
  49, 93, 47, 73, 110, 100, 101, 120, 91, 53, 32, 49, 93, 47, 76, 101, 110, 103, 116, 104, 32, 51, 62, 62]

theorem exHDict_spells : Spells 3 (.dict (dictOf exHEnts)) exHTok := by
  have vX : Spells 2 (.name bX) (47 :: (nameBody bX (rawCh 4)).1) := Spells.name 1 bX (rawCh 4) (by decide)
  have v6 : Spells 2 (.int 6) [54] := Spells.int 1 .none [54] (by simp) (by decide) (by decide)
  have v3 : Spells 2 (.int 3) [51] := Spells.int 1 .none [51] (by simp) (by decide) (by decide)
  have n5 := SpellsEntries.nil 2 [bL, bI, bW, bS, bT]
  have n4 := SpellsEntries.cons 2 [bI, bW, bS, bT] bL (.int 3) [] [] (rawCh 6) [32] _ [] WsRun.nil (by decide) (by decide) C03.ws32
    v3 (fun _ => by simp) n5
  have n3 := SpellsEntries.cons 2 [bW, bS, bT] bI _ _ [] (rawCh 5) [] _ _ WsRun.nil (by decide) (by decide)
    WsRun.nil exIdxH_spells (fun h => by simp [startsReg] at h) n4
  have n2 := SpellsEntries.cons 2 [bS, bT] bW (.arr [.int 1, .int 1, .int 1]) _ [] (rawCh 1) [] _ _ WsRun.nil (by decide) (by decide)
    WsRun.nil exW_spells (fun h => by simp [startsReg] at h) n3
  have n1 := SpellsEntries.cons 2 [bT] bS (.int 6) _ [] (rawCh 4) [32] _ _ WsRun.nil (by decide) (by decide) C03.ws32
    v6 (fun _ => by simp) n2
  have n0 := SpellsEntries.cons 2 [] bT (.name bX) _ [] (rawCh 4) [] _ _ WsRun.nil (by decide) (by simp) WsRun.nil
    vX (fun h => by simp [startsReg] at h) n1
  have hd := Spells.dict 2 _ _ [] n0 WsRun.nil
  have e : exHTok = 60 :: 60 :: (([] : Bytes) ++ (47 :: (nameBody bT (rawCh 4)).1 ++ ([] ++ ((47 :: (nameBody bX (rawCh 4)).1) ++
      ([] ++ (47 :: (nameBody bS (rawCh 4)).1 ++ ([32] ++ ([54] ++
      ([] ++ (47 :: (nameBody bW (rawCh 1)).1 ++ ([] ++ ([91, 49, 32, 49, 32, 49, 93] ++
      ([] ++ (47 :: (nameBody bI (rawCh 5)).1 ++ ([] ++ ([91, 53, 32, 49, 93] ++
      ([] ++ (47 :: (nameBody bL (rawCh 6)).1 ++ ([32] ++ ([51] ++ []))))))))))))))))))) ++ ([] ++ [62, 62])) := by
    decide +kernel
  rw [e]
  exact hd

/-- `4 0 obj<<...>>stream LF row LF endstream SP endobj`: the row `1 191 0` (object 5 in use at 191) -/
def exHXs : WStm := ⟨[], [52], [32], [48], [32], [], exHTok, [], [10], [1, 191, 0], [10], [32], dictOf exHEnts, 3⟩

theorem exHXs_ok : exHXs.OK where
  head := {
    pad := WsRun.nil
    nne := by simp [exHXs, WStm.head]
    ndig := by decide
    nfit := by decide
    w1 := C03.ws32
    w1ne := by simp [exHXs, WStm.head]
    gne := by simp [exHXs, WStm.head]
    gdig := by decide
    gfit := by decide
    w2 := C03.ws32
    w3 := WsRun.nil
    spells := exHDict_spells
    depth := by decide
    w4 := WsRun.nil
    w4req := by intro h; simp [exHXs, WStm.head, endsReg] at h }
  e1 := by decide
  e2 := by decide
  w4 := C03.ws32

def exHTrEnts : List (Bytes × Obj) := [(bR, .ref 1 0), (bP, .int 60), (bXS, .int 208)]

/-- `<</Root 1 0 R/Prev 60/XRefStm 208>>` -/
def exHTrTok : Bytes := [60, 60, 47, 82, 111, 111, 116, 32, 49, 32, 48, 32, 82, 47, 80, 114, 101, 118, 32, 54, 48,
  47, 88, 82, 101, 102, 83, 116, 109, 32, 50, 48, 56, 62, 62]

theorem exHTrailer_spells : Spells 2 (.dict (dictOf exHTrEnts)) exHTrTok := by
  have vR : Spells 1 (.ref 1 0) [49, 32, 48, 32, 82] :=
    Spells.ref 0 [49] [32] [48] [32] (by simp) (by decide) (by decide) (by simp) (by decide) (by decide)
      C03.ws32 (by simp) C03.ws32 (by simp)
  have v60 : Spells 1 (.int 60) [54, 48] := Spells.int 0 .none [54, 48] (by simp) (by decide) (by decide)
  have v208 : Spells 1 (.int 208) [50, 48, 56] := Spells.int 0 .none [50, 48, 56] (by simp) (by decide) (by decide)
  have n3 := SpellsEntries.nil 1 [bXS, bP, bR]
  have n2 := SpellsEntries.cons 1 [bP, bR] bXS (.int 208) [] [] (rawCh 7) [32] _ [] WsRun.nil (by decide) (by decide) C03.ws32
    v208 (fun _ => by simp) n3
  have n1 := SpellsEntries.cons 1 [bR] bP (.int 60) _ [] (rawCh 4) [32] _ _ WsRun.nil (by decide) (by decide) C03.ws32
    v60 (fun _ => by simp) n2
  have n0 := SpellsEntries.cons 1 [] bR (.ref 1 0) _ [] (rawCh 4) [32] _ _ WsRun.nil (by decide) (by simp) C03.ws32
    vR (fun _ => by simp) n1
  have hd := Spells.dict 1 _ _ [] n0 WsRun.nil
  have e : exHTrTok = 60 :: 60 :: (([] : Bytes) ++ (47 :: (nameBody bR (rawCh 4)).1 ++ ([32] ++ ([49, 32, 48, 32, 82] ++
      ([] ++ (47 :: (nameBody bP (rawCh 4)).1 ++ ([32] ++ ([54, 48] ++
      ([] ++ (47 :: (nameBody bXS (rawCh 7)).1 ++ ([32] ++ ([50, 48, 56] ++ []))))))))))) ++ ([] ++ [62, 62])) := by
    decide +kernel
  rw [e]
  exact hd

/-- `2 1`: object 2 free, generation unchanged -/
def exHSub2 : TSub := ⟨2, 1, 1, [], [10], [⟨0, 0, false, .spLf⟩]⟩
/-- `4 2`: object 4 (the /XRefStm stream object) in use at 208; object 5 FREE with generation 65535 - the hidden object -/
def exHSub4 : TSub := ⟨4, 1, 1, [], [10], [⟨208, 0, true, .spLf⟩, ⟨0, 65535, false, .spLf⟩]⟩

/-- the hybrid update -/
def exHSeg : HybSeg where
  body1 := [⟨exH5.piece, [10]⟩]
  xs := exHXs
  xpost := [10]
  body2 := []
  subs := [exHSub2, exHSub4]
  wt := []
  ttok := exHTrTok
  gap := [10]
  ssubs := [(5, [⟨1, 191, 0⟩])]
  v0 := 1
  v1 := 1
  v2 := 1

/-- `%PDF-1.5 LF <1 = 7> <2 = 8> <3 = 5> xref 0 4 … trailer<</Root 1 0 R>> startxref 60 %%EOF
    <5 = 6> <4 = /XRefStm stream: 5 at 191> xref 2 1 … 4 2 … trailer<</Root 1 0 R/Prev 60/XRefStm 208>> startxref 293 %%EOF` -/
def exHyb : HybMixFile where
  garbage := []
  hdrRest := [49, 46, 53, 10]
  revs := [.plain (.classic exRev1 exD1), .hybrid exHSeg (dictOf exHTrEnts)]
  wsx := [10]
  ds := [50, 57, 51]
  e := [10]
  trail := [10]

theorem exHSeg_ok : HybOK exHSeg (dictOf exHTrEnts) where
  subsNe := by simp [exHSeg]
  subsOk := by
    intro t ht
    simp only [exHSeg, List.mem_cons, List.mem_nil_iff, or_false] at ht
    rcases ht with rfl | rfl
    · exact ⟨by decide +kernel, by simp [exHSub2]⟩
    · exact ⟨by decide +kernel, by simp [exHSub4]⟩
  wt := WsRun.nil
  trailer := ⟨2, exHTrailer_spells, by decide⟩
  noEncrypt := rfl
  xsOK := exHXs_ok
  xsLen := rfl
  dict := {
    type := rfl
    size := ⟨6, rfl, Or.inl rfl⟩
    hw := rfl
    hw0 := by decide
    hw1 := by decide
    hw1pos := by decide
    hw2 := by decide }
  stored := Stored.plain [] rfl
  fits := by decide
  lim := by decide
  noInStm := by decide
  numsNodup := by decide +kernel
  noClash := by decide +kernel
  reads1 := by
    intro q hq
    simp only [exHSeg, List.mem_cons, List.mem_nil_iff, or_false] at hq
    subst hq
    exact exH5.piece_reads exH5_ok
  reads2 := by intro q hq; simp [exHSeg] at hq

set_option maxRecDepth 100000 in
theorem exHyb_segs : exHyb.segs = [(.plain (.classic exRev1 exD1), 9), (.hybrid exHSeg (dictOf exHTrEnts), 191)] := by rfl

/-- the hybrid section's entries: object 5 is listed twice; its free table entry (generation 65535) is hidden -/
theorem exHyb_ents :
    (HRev.hybrid exHSeg (dictOf exHTrEnts)).ents =
      [⟨2, 0, .free 0⟩, ⟨4, 0, .inUse 208⟩, ⟨5, 65535, .free 0⟩, ⟨5, 0, .inUse 191⟩] ∧
    (HRev.hybrid exHSeg (dictOf exHTrEnts)).vis = [⟨2, 0, .free 0⟩, ⟨4, 0, .inUse 208⟩, ⟨5, 0, .inUse 191⟩] := by
  decide +kernel

theorem exHyb_wf : exHyb.WF (1, 0) where
  noMagic := by intro k hk; simp [exHyb] at hk
  revsOk := by
    intro m hm
    simp only [exHyb, List.mem_cons, List.mem_nil_iff, or_false] at hm
    rcases hm with rfl | rfl
    · exact exRev1_cok
    · exact exHSeg_ok
  xrefStm := by
    intro q hq
    rw [exHyb_segs] at hq
    simp only [List.mem_cons, List.mem_nil_iff, or_false] at hq
    rcases hq with rfl | rfl
    · trivial
    · show ObjStm.getUsize (dictOf exHTrEnts) kXRefStm = some (191 + (bodyBytes exHSeg.body1).length)
      decide +kernel
  prevs := by
    rw [exHyb_segs]
    exact (HPrevOK_cons _ _ _).mpr ⟨rfl, (HPrevOK_cons _ _ _).mpr ⟨by decide +kernel, trivial⟩⟩
  newest := ⟨_, by rw [exHyb_segs]; rfl, rfl, by decide +kernel⟩
  stableGen := by
    unfold StableGen
    decide +kernel
  tableObjs := by
    intro q hq
    rw [exHyb_segs] at hq
    simp only [List.mem_cons, List.mem_nil_iff, or_false] at hq
    rcases hq with rfl | rfl
    · exact ⟨_, List.Perm.refl _, by decide +kernel⟩
    · refine ⟨[(exHXs.piece, 208), (exH5.piece, 191)], ?_, by decide +kernel⟩
      have : hobjsOf (HRev.hybrid exHSeg (dictOf exHTrEnts), 191) = [(exH5.piece, 191), (exHXs.piece, 208)] := by rfl
      rw [this]
      exact List.Perm.swap _ _ _
  notEdited := by
    intro pre q post hseg k hk q' hq'
    rw [exHyb_segs] at hseg
    cases pre with
    | nil =>
      simp only [List.nil_append, List.cons.injEq] at hseg
      obtain ⟨rfl, _⟩ := hseg
      cases hk
    | cons a pre' =>
      cases pre' with
      | nil =>
        simp only [List.cons_append, List.nil_append, List.cons.injEq] at hseg
        obtain ⟨_, _, rfl⟩ := hseg
        cases hq'
      | cons b pre'' =>
        have := congrArg List.length hseg
        simp at this
  wsx := WsRun.ws 10 [] (by decide) WsRun.nil
  wsxNe := by simp [exHyb]
  wsxNoS := by decide
  dsNe := by simp [exHyb]
  dsDig := by decide
  ofsFits := by decide
  e := by decide
  trail := noLaterEOF_of_no_percent _ (by decide)

/-- the theorem applied: the HIDDEN object 5 is bound to the value written (and under no other generation), object 2
    (freed by the hybrid section's table) is gone, objects 1 and 3 keep the base revision's values, object 4 is the
    /XRefStm stream object, object 6 is undefined -/
example : ∃ L : Loaded, parseData exHyb.bytes = .ok L ∧ L.root = (1, 0) ∧
    ObjStm.defsGet (5, 0) L.defs = some (.int 6) ∧
    (∀ g, g ≠ 0 → ObjStm.defsGet (5, g) L.defs = none) ∧
    (∀ g, ObjStm.defsGet (2, g) L.defs = none) ∧
    ObjStm.defsGet (1, 0) L.defs = some (.int 7) ∧
    ObjStm.defsGet (3, 0) L.defs = some (.int 5) ∧
    ObjStm.defsGet (4, 0) L.defs = some (.stream (dictOf exHEnts) ⟨272, 3, [1, 191, 0]⟩) ∧
    (∀ g, ObjStm.defsGet (6, g) L.defs = none) := by
  obtain ⟨L, h1, h2, hdec, hnone⟩ := newest_wins_history_hybrid exHyb _ exHyb_wf
  obtain ⟨hE2, hV2⟩ := exHyb_ents
  have hE1 : (HRev.plain (.classic exRev1 exD1)).ents =
      [⟨0, 65535, .free 0⟩, ⟨1, 0, .inUse 9⟩, ⟨2, 0, .inUse 26⟩, ⟨3, 0, .inUse 43⟩] := by
    decide +kernel
  have hV1 : (HRev.plain (.classic exRev1 exD1)).vis = (HRev.plain (.classic exRev1 exD1)).ents := rfl
  have hobjs2 : hobjsOf (HRev.hybrid exHSeg (dictOf exHTrEnts), 191) = [(exH5.piece, 191), (exHXs.piece, 208)] := by rfl
  have hobjs1 : hobjsOf (HRev.plain (.classic exRev1 exD1), 9) =
      [(C03.exObj1.piece, 9), (exA2.piece, 26), (exA3.piece, 43)] := by rfl
  have hd5 := hdec [(.plain (.classic exRev1 exD1), 9)] (.hybrid exHSeg (dictOf exHTrEnts), 191) [] exHyb_segs
    ⟨5, 0, .inUse 191⟩ (by rw [hV2]; simp) (by intro q' hq'; cases hq')
  have hd4 := hdec [(.plain (.classic exRev1 exD1), 9)] (.hybrid exHSeg (dictOf exHTrEnts), 191) [] exHyb_segs
    ⟨4, 0, .inUse 208⟩ (by rw [hV2]; simp) (by intro q' hq'; cases hq')
  have hd2 := hdec [(.plain (.classic exRev1 exD1), 9)] (.hybrid exHSeg (dictOf exHTrEnts), 191) [] exHyb_segs
    ⟨2, 0, .free 0⟩ (by rw [hV2]; simp) (by intro q' hq'; cases hq')
  have hnewer : ∀ n, n ≠ 2 → n ≠ 4 → n ≠ 5 →
      ∀ q' ∈ [((HRev.hybrid exHSeg (dictOf exHTrEnts)), 191)], ∀ e' ∈ q'.1.ents, e'.obj ≠ n := by
    intro n n2 n4 n5 q' hq' e' he'
    simp only [List.mem_cons, List.mem_nil_iff, or_false] at hq'
    subst hq'
    rw [hE2] at he'
    simp only [List.mem_cons, List.mem_nil_iff, or_false] at he'
    rcases he' with rfl | rfl | rfl | rfl
    · exact fun h => n2 h.symm
    · exact fun h => n4 h.symm
    · exact fun h => n5 h.symm
    · exact fun h => n5 h.symm
  have hd1 := hdec [] (.plain (.classic exRev1 exD1), 9) [(.hybrid exHSeg (dictOf exHTrEnts), 191)] exHyb_segs
    ⟨1, 0, .inUse 9⟩ (by rw [hV1, hE1]; simp) (hnewer 1 (by decide) (by decide) (by decide))
  have hd3 := hdec [] (.plain (.classic exRev1 exD1), 9) [(.hybrid exHSeg (dictOf exHTrEnts), 191)] exHyb_segs
    ⟨3, 0, .inUse 43⟩ (by rw [hV1, hE1]; simp) (hnewer 3 (by decide) (by decide) (by decide))
  refine ⟨L, h1, h2, ?_, ?_, ?_, ?_, ?_, ?_, ?_⟩
  · exact (hd5.1 191 rfl).2.1 (exH5.piece, 191) (by rw [hobjs2]; simp) rfl rfl rfl
  · exact fun g hg => (hd5.1 191 rfl).2.2 g hg
  · exact hd2.2 0 rfl
  · exact (hd1.1 9 rfl).2.1 (C03.exObj1.piece, 9) (by rw [hobjs1]; simp) rfl rfl rfl
  · exact (hd3.1 43 rfl).2.1 (exA3.piece, 43) (by rw [hobjs1]; simp) rfl rfl rfl
  · exact (hd4.1 208 rfl).2.1 (exHXs.piece, 208) (by rw [hobjs2]; simp) rfl rfl rfl
  · apply hnone 6
    intro q hq
    rw [exHyb_segs] at hq
    simp only [List.mem_cons, List.mem_nil_iff, or_false] at hq
    rcases hq with rfl | rfl
    · rw [hE1]; decide
    · rw [hE2]; decide

/-- test: the whole model evaluated on the same file (4 definitions: 1, 3, 4, 5; the hidden object 5 = 6; 2 gone) -/
example : C03.nDefs (parseData exHyb.bytes) = 4 ∧ C03.isIntVal (C03.lookupDef (parseData exHyb.bytes) (5, 0)) 6 = true ∧
    (C03.lookupDef (parseData exHyb.bytes) (2, 0)).isNone = true ∧
    sectionEnts exHyb.bytes 293 = (HRev.hybrid exHSeg (dictOf exHTrEnts)).ents := by
  decide +kernel

end Parsley.C04
