/-
  C04 - end-to-end theorem for histories in which a HYBRID section's /XRefStm stream (and any plain cross-reference
  stream) may have rows of type 2, i.e. name OBJECT-STREAM MEMBERS: the hidden objects of a hybrid revision usually live
  inside object streams.  Combination of Props/C04Hyb.lean (hybrid sections in a history, rows of type 0 / 1 only) and
  Props/C04ObjStm.lean (object streams in a history of classic / stream sections).
  Proofs: Lemmas/LoaderE2EHistHybObjStm.lean (revision, file, walk, merge), Lemmas/LoaderE2EHistHybObjStm2.lean (theorem),
  Lemmas/LoaderE2EHistHybObjStmSpec.lean (`DocSpec.resolve` form).

    newest_wins_history_hybrid_objstm   FULL (no `_partial`): layout class `HybMixFile` (any number of revisions, oldest
                               first, each one classic, cross-reference stream or HYBRID), well formed in the sense of
                               `HybMixFile.WFo f root ws`: as `HybMixFile.WF`, but the rows of plain cross-reference
                               streams AND of the /XRefStm streams of hybrid sections may be of type 2 (`StmOK2`,
                               `HybOK2`); `ws` are the object streams as written (`LoaderObjStm.WCont`).  Conditions on
                               them as in `MixFile.WFo`, read on the VISIBLE entries `HRev.vis` of the sections: a row
                               `(n, inStream c i)` names one of the object streams and `n` is the number of its `i`-th
                               member; every object stream is an object of a revision whose section has a row for EVERY
                               member; numbers of object streams pairwise distinct, member numbers pairwise distinct;
                               file smaller than 2^63 bytes; THE EXCLUSION `memberTouchedLater f.secVis = false` (known
                               finding C04-objstm-member-touched-later; `exclusion_on_all_entries`: the same Boolean
                               on all entries).  A hidden member is listed twice in its hybrid section: free in the
                               table, row of type 2 (generation 0) in the stream; `HybOK2.noClash` (known finding
                               C03-hybrid-hidden-gen0) then says the free entry has a generation other than 0.
                               Conclusion: `parseData` accepts, the newest root, per object number the NEWEST section
                               that mentions it decides (`Decides` for in-use / free entries - within a hybrid section a
                               number listed in both parts is decided by its STREAM entry -, `DecidesStm` for rows of type
                               2), every member of every object stream is bound to the value written in the stream,
                               unmentioned numbers are undefined.
    newest_wins_history_hybrid_objstm_objs   read from the objects written.
    newest_wins_history_hybrid_objstm_spec   the final definitions are exactly the bindings of `DocSpec.resolve` of
                               what the revisions said (`HybMixFile.saidsO`: objects written, the members the rows of
                               type 2 stand for, numbers of the free VISIBLE entries).
    newest_wins_history_hybrid_of_objstm     `HybMixFile.WF` (+ size) is the special case `ws = []`.
    exHO, exHO_wf + examples   non-vacuity: classic base revision (1 = 7, 2 = 8, 3 = 5) + HYBRID update with /Prev whose
                               table frees 2, lists the object stream 3 (REDEFINING object 3) and the /XRefStm stream
                               object 4, and hides member 11 (free, generation 65535); the /XRefStm stream has the rows of
                               type 2 for the members 11 and 12 of object stream 3 (12 is listed in the stream only).
  Still open: object streams whose members ARE touched later (known finding), forward /Length inside a history,
  generator link for hybrid / object-stream histories.
-/
import Parsley.Lemmas.LoaderE2EHistHybObjStm2
import Parsley.Lemmas.LoaderE2EHistHybObjStmSpec
import Parsley.Props.C04Hyb
import Parsley.Props.C04ObjStm
namespace Parsley.C04
open Parsley Parsley.Prim Parsley.Obj Parsley.Indirect Parsley.Loader Parsley.C02 Parsley.Spelling Parsley.LoaderE2E
open Parsley.XrefSpec Parsley.C13 Parsley.LoaderChain Parsley.LoaderObjStm
open Parsley.C03 (bR bXS rawCh exBXs exBXs_ok exBSSubs)

/-- **newest_wins_history_hybrid_objstm** (C04 end to end; any number of revisions; classic tables, cross-reference
    streams and hybrid sections in any mix; object streams whose members are named by rows of type 2 of plain
    cross-reference streams or of the /XRefStm streams of hybrid sections, and whose members and containers no later
    revision touches).  `f.segs` are the revisions with their offsets, oldest first; `f.segs = pre ++ q :: post` names a
    revision `q` together with the NEWER ones `post`; `q.1.vis` are the visible entries of its section (for a hybrid
    section: the table's entries without the free ones whose number the /XRefStm stream lists too, then the stream's
    entries), `q.1.ents` all its entries, `hobjsOf q` its objects with their offsets, `ws` the object streams. -/
theorem newest_wins_history_hybrid_objstm (f : HybMixFile) (root : ObjId) (ws : List WCont) (h : f.WFo root ws) :
    ∃ L : Loaded, parseData f.bytes = .ok L ∧ L.root = root ∧
      (∀ pre q post, f.segs = pre ++ q :: post → ∀ e ∈ q.1.vis,
        (∀ q' ∈ post, ∀ e' ∈ q'.1.ents, e'.obj ≠ e.obj) → Decides (hobjsOf q) L.defs e ∧ DecidesStm ws L.defs e) ∧
      (∀ w ∈ ws, ∀ m ∈ w.mems, ObjStm.defsGet (m.num, 0) L.defs = some m.v) ∧
      (∀ n, (∀ q ∈ f.segs, ∀ e ∈ q.1.ents, e.obj ≠ n) → ∀ g, ObjStm.defsGet (n, g) L.defs = none) := by
  obtain ⟨L, hL, hroot, hdec, hmem, hnone⟩ := load_hybmix_objstm f root ws h
  refine ⟨L, hL, hroot, ?_, hmem, ?_⟩
  · intro pre q post hseg e he hno
    exact hdec pre q post hseg e he (fun q' hq' e' he' => hno q' hq' e' (q'.1.vis_sub e' he'))
  · intro n hn
    exact hnone n (fun q hq e he => hn q hq e (q.1.vis_sub e he))

/-- **newest_wins_history_hybrid_objstm_objs**: read from the objects written - an object whose number no NEWER
    section mentions is bound to the value written (object streams, cross-reference stream objects, hidden file-level
    objects included), and every member of every object stream is bound to the value written in the stream -/
theorem newest_wins_history_hybrid_objstm_objs (f : HybMixFile) (root : ObjId) (ws : List WCont) (h : f.WFo root ws) :
    ∃ L : Loaded, parseData f.bytes = .ok L ∧ L.root = root ∧
      (∀ pre q post, f.segs = pre ++ q :: post → ∀ p ∈ hobjsOf q,
        (∀ q' ∈ post, ∀ e' ∈ q'.1.ents, e'.obj ≠ p.1.num) →
        ObjStm.defsGet (p.1.num, p.1.gen) L.defs = some (p.1.val p.2).val) ∧
      (∀ w ∈ ws, ∀ m ∈ w.mems, ObjStm.defsGet (m.num, 0) L.defs = some m.v) :=
  load_hybmix_objstm_objs f root ws h

/-- **newest_wins_history_hybrid_objstm_spec**: in the vocabulary of Spec/Doc.lean -/
theorem newest_wins_history_hybrid_objstm_spec (f : HybMixFile) (root : ObjId) (ws : List WCont)
    (rt : HRev × Nat → ObjId) (h : f.WFo root ws) (hrt : ∀ q, f.segs.getLast? = some q → rt q = root) :
    ∃ L : Loaded, parseData f.bytes = .ok L ∧
      (DocSpec.resolve (f.saidsO ws rt)).2 = some L.root ∧
      ∀ (k : ObjId) (v : Obj), (k, v) ∈ (DocSpec.resolve (f.saidsO ws rt)).1 ↔ ObjStm.defsGet k L.defs = some v :=
  load_hybmix_objstm_spec f root ws rt h hrt

/-- the hypotheses of `newest_wins_history_hybrid` (no rows of type 2) are the special case without object streams -/
theorem newest_wins_history_hybrid_of_objstm (f : HybMixFile) (root : ObjId) (h : f.WF root)
    (hsize : f.garbage.length + f.view.length ≤ 2 ^ 63) : f.WFo root [] :=
  h.toWFo hsize

/-- THE EXCLUSION of `HybMixFile.WFo` may be evaluated on ALL entries of the sections (hidden table entries of hybrid
    sections included) instead of the visible ones: same Boolean -/
theorem exclusion_on_all_entries (f : HybMixFile) :
    memberTouchedLater f.secVis = memberTouchedLater (f.revs.map (·.ents)) :=
  memberTouchedLater_vis f.revs

/-- a row of type 2 of a hybrid section is visible, has generation 0, and lies in the /XRefStm stream part -/
theorem hybrid_member_row (hs : HybSeg) (D : List (Bytes × Obj)) (e : Xref.Ent) (he : e ∈ (HRev.hybrid hs D).ents)
    (c i : Nat) (hst : e.st = .inStream c i) :
    e ∈ (HRev.hybrid hs D).vis ∧ e.gen = 0 ∧ e ∈ streamEnts hs.ssubs := by
  refine ⟨HRev.mem_vis_of_inStream _ e he c i hst, HRev.stm_gen _ e he c i hst, ?_⟩
  simp only [HRev.ents, List.mem_append] at he
  rcases he with he | he
  · exact absurd hst (tableEnts_noStm hs.subs e he c i)
  · exact he

/-! ## non-vacuity: base revision with a CLASSIC TABLE (`exRev1`: 1 = 7, 2 = 8, 3 = 5), HYBRID update with /Prev 60:
    the object stream 3 (`exStm`: members 11 = 11, 12 = true) written at 191 - it REDEFINES object 3 -, the /XRefStm
    stream object 4 (`C03.exBXs`: rows of type 2 for 11 and 12) at 281; table at 371: `2 3` (2 free, 3 in use at 191,
    4 in use at 281), `11 1` (11 FREE with generation 65535: the hidden member) -/

def exHOTrEnts : List (Bytes × Obj) := [(bR, .ref 1 0), (bP, .int 60), (bXS, .int 281)]

/-- `<</Root 1 0 R/Prev 60/XRefStm 281>>` -/
def exHOTrTok : Bytes := [60, 60, 47, 82, 111, 111, 116, 32, 49, 32, 48, 32, 82, 47, 80, 114, 101, 118, 32, 54, 48,
  47, 88, 82, 101, 102, 83, 116, 109, 32, 50, 56, 49, 62, 62]

theorem exHOTrailer_spells : Spells 2 (.dict (dictOf exHOTrEnts)) exHOTrTok := by
  have vR : Spells 1 (.ref 1 0) [49, 32, 48, 32, 82] :=
    Spells.ref 0 [49] [32] [48] [32] (by simp) (by decide) (by decide) (by simp) (by decide) (by decide)
      C03.ws32 (by simp) C03.ws32 (by simp)
  have v60 : Spells 1 (.int 60) [54, 48] := Spells.int 0 .none [54, 48] (by simp) (by decide) (by decide)
  have v281 : Spells 1 (.int 281) [50, 56, 49] := Spells.int 0 .none [50, 56, 49] (by simp) (by decide) (by decide)
  have n3 := SpellsEntries.nil 1 [bXS, bP, bR]
  have n2 := SpellsEntries.cons 1 [bP, bR] bXS (.int 281) [] [] (rawCh 7) [32] _ [] WsRun.nil (by decide) (by decide) C03.ws32
    v281 (fun _ => by simp) n3
  have n1 := SpellsEntries.cons 1 [bR] bP (.int 60) _ [] (rawCh 4) [32] _ _ WsRun.nil (by decide) (by decide) C03.ws32
    v60 (fun _ => by simp) n2
  have n0 := SpellsEntries.cons 1 [] bR (.ref 1 0) _ [] (rawCh 4) [32] _ _ WsRun.nil (by decide) (by simp) C03.ws32
    vR (fun _ => by simp) n1
  have hd := Spells.dict 1 _ _ [] n0 WsRun.nil
  have e : exHOTrTok = 60 :: 60 :: (([] : Bytes) ++ (47 :: (nameBody bR (rawCh 4)).1 ++ ([32] ++ ([49, 32, 48, 32, 82] ++
      ([] ++ (47 :: (nameBody bP (rawCh 4)).1 ++ ([32] ++ ([54, 48] ++
      ([] ++ (47 :: (nameBody bXS (rawCh 7)).1 ++ ([32] ++ ([50, 56, 49] ++ []))))))))))) ++ ([] ++ [62, 62])) := by
    decide +kernel
  rw [e]
  exact hd

/-- `2 3`: object 2 free (generation unchanged), object 3 (the object stream) in use at 191, object 4 (the /XRefStm
    stream object) in use at 281 -/
def exHOSub2 : TSub := ⟨2, 1, 1, [], [10], [⟨0, 0, false, .spLf⟩, ⟨191, 0, true, .spLf⟩, ⟨281, 0, true, .spLf⟩]⟩
/-- `11 1`: object 11 FREE with generation 65535 - the hidden member -/
def exHOSub11 : TSub := ⟨11, 2, 1, [], [10], [⟨0, 65535, false, .spLf⟩]⟩

/-- the hybrid update -/
def exHOSeg : HybSeg where
  body1 := [⟨exStm.piece, [10]⟩]
  xs := exBXs
  xpost := [10]
  body2 := []
  subs := [exHOSub2, exHOSub11]
  wt := []
  ttok := exHOTrTok
  gap := [10]
  ssubs := exBSSubs
  v0 := 1
  v1 := 1
  v2 := 1

/-- `%PDF-1.5 LF <1 = 7> <2 = 8> <3 = 5> xref 0 4 … trailer<</Root 1 0 R>> startxref 60 %%EOF
    <3 = object stream: 11 = 11, 12 = true> <4 = /XRefStm stream: 11, 12 members 0, 1 of 3> xref 2 3 … 11 1 …
    trailer<</Root 1 0 R/Prev 60/XRefStm 281>> startxref 371 %%EOF` -/
def exHO : HybMixFile where
  garbage := []
  hdrRest := [49, 46, 53, 10]
  revs := [.plain (.classic exRev1 exD1), .hybrid exHOSeg (dictOf exHOTrEnts)]
  wsx := [10]
  ds := [51, 55, 49]
  e := [10]
  trail := [10]

/-- the object stream as a container of `exHO`: stream object 3 written at offset 191 -/
def exHOW : WCont := ⟨3, exStm.kvs, ⟨191 + exStm.kwOfs + 6 + exStm.e1.length, exStm.data.length, exStm.data⟩,
  exEs, [32], exMems, []⟩

theorem exHOW_data : exHOW.Data exStm.data where
  type := by rfl
  n := by rfl
  first := by rfl
  ne := by simp [exHOW, exMems]
  decl := by decide
  layout := by decide
  bounded := by intro e he; simp [exHOW, exEs] at he; rcases he with rfl | rfl <;> decide
  tail := by decide
  mems := exMems_ok
  stored := .plain (by rfl) (by decide)

theorem exHOSeg_ok : HybOK2 exHOSeg (dictOf exHOTrEnts) where
  subsNe := by simp [exHOSeg]
  subsOk := by
    intro t ht
    simp only [exHOSeg, List.mem_cons, List.mem_nil_iff, or_false] at ht
    rcases ht with rfl | rfl
    · exact ⟨by decide +kernel, by simp [exHOSub2]⟩
    · exact ⟨by decide +kernel, by simp [exHOSub11]⟩
  wt := WsRun.nil
  trailer := ⟨2, exHOTrailer_spells, by decide⟩
  noEncrypt := rfl
  xsOK := exBXs_ok
  xsLen := rfl
  dict := {
    type := rfl
    size := ⟨13, rfl, Or.inl rfl⟩
    hw := rfl
    hw0 := by decide
    hw1 := by decide
    hw1pos := by decide
    hw2 := by decide }
  stored := LoaderE2E.Stored.plain [] rfl
  fits := by decide
  lim := by decide
  numsNodup := by decide +kernel
  noClash := by decide +kernel
  reads1 := by
    intro q hq
    simp only [exHOSeg, List.mem_cons, List.mem_nil_iff, or_false] at hq
    subst hq
    exact exStm.piece_reads exStm_ok rfl
  reads2 := by intro q hq; simp [exHOSeg] at hq

set_option maxRecDepth 100000 in
theorem exHO_segs : exHO.segs = [(.plain (.classic exRev1 exD1), 9), (.hybrid exHOSeg (dictOf exHOTrEnts), 191)] := by rfl

/-- the hybrid section's entries: member 11 is listed twice; its free table entry (generation 65535) is hidden -/
theorem exHO_ents :
    (HRev.hybrid exHOSeg (dictOf exHOTrEnts)).ents =
      [⟨2, 0, .free 0⟩, ⟨3, 0, .inUse 191⟩, ⟨4, 0, .inUse 281⟩, ⟨11, 65535, .free 0⟩,
       ⟨11, 0, .inStream 3 0⟩, ⟨12, 0, .inStream 3 1⟩] ∧
    (HRev.hybrid exHOSeg (dictOf exHOTrEnts)).vis =
      [⟨2, 0, .free 0⟩, ⟨3, 0, .inUse 191⟩, ⟨4, 0, .inUse 281⟩, ⟨11, 0, .inStream 3 0⟩, ⟨12, 0, .inStream 3 1⟩] := by
  decide +kernel

theorem exHO_ents1 : (HRev.plain (.classic exRev1 exD1)).ents =
    [⟨0, 65535, .free 0⟩, ⟨1, 0, .inUse 9⟩, ⟨2, 0, .inUse 26⟩, ⟨3, 0, .inUse 43⟩] := by
  decide +kernel

set_option maxRecDepth 100000 in
theorem exHO_objs2 : hobjsOf (HRev.hybrid exHOSeg (dictOf exHOTrEnts), 191) = [(exStm.piece, 191), (exBXs.piece, 281)] := by
  rfl

set_option maxRecDepth 100000 in
theorem exHO_objs1 : hobjsOf (HRev.plain (.classic exRev1 exD1), 9) =
    [(C03.exObj1.piece, 9), (exA2.piece, 26), (exA3.piece, 43)] := by rfl

/-- the object stream 3 is the stream object written at 191 -/
theorem exHO_contAt : ContAt exHOW (exStm.piece, 191) := ⟨exStm, rfl, rfl, rfl, rfl, rfl, exHOW_data⟩

/-- **`HybMixFile.WFo` is satisfiable**: two revisions, the newest one hybrid with a hidden object-stream member -/
theorem exHO_wf : exHO.WFo (1, 0) [exHOW] where
  noMagic := by intro k hk; simp [exHO] at hk
  revsOk := by
    intro m hm
    simp only [exHO, List.mem_cons, List.mem_nil_iff, or_false] at hm
    rcases hm with rfl | rfl
    · exact exRev1_cok
    · exact exHOSeg_ok
  xrefStm := by
    intro q hq
    rw [exHO_segs] at hq
    simp only [List.mem_cons, List.mem_nil_iff, or_false] at hq
    rcases hq with rfl | rfl
    · trivial
    · show ObjStm.getUsize (dictOf exHOTrEnts) kXRefStm = some (191 + (bodyBytes exHOSeg.body1).length)
      decide +kernel
  prevs := by
    rw [exHO_segs]
    exact (HPrevOK_cons _ _ _).mpr ⟨rfl, (HPrevOK_cons _ _ _).mpr ⟨by decide +kernel, trivial⟩⟩
  newest := ⟨_, by rw [exHO_segs]; rfl, rfl, by decide +kernel⟩
  stableGen := by
    unfold StableGen
    decide +kernel
  size := by decide +kernel
  tableObjs := by
    intro q hq
    rw [exHO_segs] at hq
    simp only [List.mem_cons, List.mem_nil_iff, or_false] at hq
    rcases hq with rfl | rfl
    · exact ⟨_, List.Perm.refl _, by decide +kernel⟩
    · exact ⟨_, List.Perm.refl _, by decide +kernel⟩
  notEdited := by
    intro pre q post hseg k hk q' hq'
    rw [exHO_segs] at hseg
    cases pre with
    | nil =>
      simp only [List.nil_append, List.cons.injEq] at hseg
      obtain ⟨rfl, _⟩ := hseg
      cases hk
    | cons a pre' =>
      cases pre' with
      | nil =>
        simp only [List.cons_append, List.nil_append, List.cons.injEq] at hseg
        obtain ⟨_, _, rfl⟩ := hseg
        cases hq'
      | cons b pre'' =>
        have := congrArg List.length hseg
        simp at this
  rows := by
    intro q hq e he c i hst
    rw [exHO_segs] at hq
    simp only [List.mem_cons, List.mem_nil_iff, or_false] at hq
    rcases hq with rfl | rfl
    · have hv : (HRev.plain (.classic exRev1 exD1)).vis = (HRev.plain (.classic exRev1 exD1)).ents := rfl
      rw [hv, exHO_ents1] at he
      simp only [List.mem_cons, List.mem_nil_iff, or_false] at he
      rcases he with rfl | rfl | rfl | rfl <;> cases hst
    · rw [exHO_ents.2] at he
      simp only [List.mem_cons, List.mem_nil_iff, or_false] at he
      rcases he with rfl | rfl | rfl | rfl | rfl
      · cases hst
      · cases hst
      · cases hst
      · injection hst with hc hi
        subst hc; subst hi
        exact ⟨exHOW, by simp, rfl, _, rfl, rfl⟩
      · injection hst with hc hi
        subst hc; subst hi
        exact ⟨exHOW, by simp, rfl, _, rfl, rfl⟩
  placed := by
    intro w hw
    simp only [List.mem_cons, List.mem_nil_iff, or_false] at hw
    subst hw
    refine ⟨(.hybrid exHOSeg (dictOf exHOTrEnts), 191), by rw [exHO_segs]; simp,
      ⟨_, by rw [exHO_objs2]; simp, exHO_contAt⟩, ?_⟩
    intro m hm
    rw [exHO_ents.2]
    simp only [exHOW, exMems, List.mem_cons, List.mem_nil_iff, or_false] at hm
    rcases hm with rfl | rfl
    · exact ⟨⟨11, 0, .inStream 3 0⟩, by simp, rfl, 0, rfl⟩
    · exact ⟨⟨12, 0, .inStream 3 1⟩, by simp, rfl, 1, rfl⟩
  contsNodup := by simp
  memsNodup := by decide
  untouched := by decide +kernel
  wsx := WsRun.ws 10 [] (by decide) WsRun.nil
  wsxNe := by simp [exHO]
  wsxNoS := by decide
  dsNe := by simp [exHO]
  dsDig := by decide
  ofsFits := by decide
  e := by decide
  trail := noLaterEOF_of_no_percent _ (by decide)

/-- the theorem applied: the HIDDEN member 11 (free with generation 65535 in the hybrid table, row of type 2 in the
    /XRefStm stream) and member 12 (stream only) are bound to the values written in the object stream, under no other
    generation; object 3 is now the object stream (the update redefined it), object 2 (freed by the hybrid section's
    table) is gone, object 1 keeps the base revision's value, object 4 is the /XRefStm stream object, 5 is undefined -/
example : ∃ L : Loaded, parseData exHO.bytes = .ok L ∧ L.root = (1, 0) ∧
    ObjStm.defsGet (11, 0) L.defs = some (.int 11) ∧ ObjStm.defsGet (12, 0) L.defs = some (.bool true) ∧
    (∀ g, g ≠ 0 → ObjStm.defsGet (11, g) L.defs = none) ∧
    ObjStm.defsGet (3, 0) L.defs = some (.stream exStm.kvs ⟨244, 19, exStm.data⟩) ∧
    (∀ g, ObjStm.defsGet (2, g) L.defs = none) ∧
    ObjStm.defsGet (1, 0) L.defs = some (.int 7) ∧
    ObjStm.defsGet (4, 0) L.defs = some (exBXs.val 281).val ∧
    (∀ g, ObjStm.defsGet (5, g) L.defs = none) := by
  obtain ⟨L, h1, h2, hdec, hmem, hnone⟩ := newest_wins_history_hybrid_objstm exHO _ _ exHO_wf
  obtain ⟨hE2, hV2⟩ := exHO_ents
  have hV1 : (HRev.plain (.classic exRev1 exD1)).vis = (HRev.plain (.classic exRev1 exD1)).ents := rfl
  have hd11 := (hdec [(.plain (.classic exRev1 exD1), 9)] (.hybrid exHOSeg (dictOf exHOTrEnts), 191) [] exHO_segs
    ⟨11, 0, .inStream 3 0⟩ (by rw [hV2]; simp) (by intro q' hq'; cases hq')).2
  have hd3 := (hdec [(.plain (.classic exRev1 exD1), 9)] (.hybrid exHOSeg (dictOf exHOTrEnts), 191) [] exHO_segs
    ⟨3, 0, .inUse 191⟩ (by rw [hV2]; simp) (by intro q' hq'; cases hq')).1
  have hd4 := (hdec [(.plain (.classic exRev1 exD1), 9)] (.hybrid exHOSeg (dictOf exHOTrEnts), 191) [] exHO_segs
    ⟨4, 0, .inUse 281⟩ (by rw [hV2]; simp) (by intro q' hq'; cases hq')).1
  have hd2 := (hdec [(.plain (.classic exRev1 exD1), 9)] (.hybrid exHOSeg (dictOf exHOTrEnts), 191) [] exHO_segs
    ⟨2, 0, .free 0⟩ (by rw [hV2]; simp) (by intro q' hq'; cases hq')).1
  have hd1 := (hdec [] (.plain (.classic exRev1 exD1), 9) [(.hybrid exHOSeg (dictOf exHOTrEnts), 191)] exHO_segs
    ⟨1, 0, .inUse 9⟩ (by rw [hV1, exHO_ents1]; simp) (by
      intro q' hq' e' he'
      simp only [List.mem_cons, List.mem_nil_iff, or_false] at hq'
      subst hq'
      rw [hE2] at he'
      simp only [List.mem_cons, List.mem_nil_iff, or_false] at he'
      rcases he' with rfl | rfl | rfl | rfl | rfl | rfl <;> decide)).1
  refine ⟨L, h1, h2, ?_, ?_, ?_, ?_, ?_, ?_, ?_, ?_⟩
  · exact hmem exHOW (by simp) ⟨11, [], [], [49, 49], .int 11, 1⟩ (by simp [exHOW, exMems])
  · exact hmem exHOW (by simp) ⟨12, [32, 120], [32], [116, 114, 117, 101], .bool true, 1⟩ (by simp [exHOW, exMems])
  · obtain ⟨_, _, _, _, _, _, _, hg⟩ := hd11 3 0 rfl
    exact hg
  · exact (hd3.1 191 rfl).2.1 (exStm.piece, 191) (by rw [exHO_objs2]; simp) rfl rfl rfl
  · exact hd2.2 0 rfl
  · exact (hd1.1 9 rfl).2.1 (C03.exObj1.piece, 9) (by rw [exHO_objs1]; simp) rfl rfl rfl
  · exact (hd4.1 281 rfl).2.1 (exBXs.piece, 281) (by rw [exHO_objs2]; simp) rfl rfl rfl
  · apply hnone 5
    intro q hq
    rw [exHO_segs] at hq
    simp only [List.mem_cons, List.mem_nil_iff, or_false] at hq
    rcases hq with rfl | rfl
    · rw [exHO_ents1]; decide
    · rw [hE2]; decide

/-- the `_objs` form applied: the object stream written by the newest revision is bound to itself -/
example : ∃ L : Loaded, parseData exHO.bytes = .ok L ∧ L.root = (1, 0) ∧
    ObjStm.defsGet (3, 0) L.defs = some (.stream exStm.kvs ⟨244, 19, exStm.data⟩) ∧
    ObjStm.defsGet (12, 0) L.defs = some (.bool true) := by
  obtain ⟨L, h1, h2, hobjs, hmem⟩ := newest_wins_history_hybrid_objstm_objs exHO _ _ exHO_wf
  refine ⟨L, h1, h2, ?_, ?_⟩
  · exact hobjs [(.plain (.classic exRev1 exD1), 9)] (.hybrid exHOSeg (dictOf exHOTrEnts), 191) [] exHO_segs
      (exStm.piece, 191) (by rw [exHO_objs2]; simp) (by intro q' hq'; cases hq')
  · exact hmem exHOW (by simp) ⟨12, [32, 120], [32], [116, 114, 117, 101], .bool true, 1⟩ (by simp [exHOW, exMems])

/-- what `resolve` says for this history: 1 from the base revision; the object stream 3 (redefined), the /XRefStm
    stream object 4 and the members 11, 12 from the hybrid update; 2 freed -/
theorem exHO_resolve : DocSpec.resolve (exHO.saidsO [exHOW] fun _ => (1, 0)) =
    ([((1, 0), .int 7), ((3, 0), .stream exStm.kvs ⟨244, 19, exStm.data⟩), ((4, 0), (exBXs.val 281).val),
      ((11, 0), .int 11), ((12, 0), .bool true)], some (1, 0)) := by
  unfold HybMixFile.saidsO
  rw [exHO_segs]
  rfl

/-- the spec corollary applied: the loader's context holds exactly these five bindings -/
example : ∃ L : Loaded, parseData exHO.bytes = .ok L ∧ L.root = (1, 0) ∧
    ∀ (k : ObjId) (v : Obj), ObjStm.defsGet k L.defs = some v ↔
      (k, v) = ((1, 0), .int 7) ∨ (k, v) = ((3, 0), .stream exStm.kvs ⟨244, 19, exStm.data⟩) ∨
      (k, v) = ((4, 0), (exBXs.val 281).val) ∨ (k, v) = ((11, 0), .int 11) ∨ (k, v) = ((12, 0), .bool true) := by
  obtain ⟨L, h1, h2, h3⟩ := newest_wins_history_hybrid_objstm_spec exHO _ _ (fun _ => (1, 0)) exHO_wf (fun _ _ => rfl)
  rw [exHO_resolve] at h2 h3
  refine ⟨L, h1, (Option.some.inj h2).symm, ?_⟩
  intro k v
  rw [← h3 k v]
  simp only [List.mem_cons, List.mem_nil_iff, or_false]

/-- test: the whole model evaluated on the same file (5 definitions: 1, 3, 4, 11, 12; 2 gone; the hybrid section at
    371 yields exactly `HRev.ents`) - a kernel-evaluated TEST, independent of the theorem -/
example : C03.nDefs (parseData exHO.bytes) = 5 ∧ C03.isIntVal (C03.lookupDef (parseData exHO.bytes) (11, 0)) 11 = true ∧
    (C03.lookupDef (parseData exHO.bytes) (2, 0)).isNone = true ∧
    (C03.lookupDef (parseData exHO.bytes) (11, 65535)).isNone = true ∧
    sectionEnts exHO.bytes 371 = (HRev.hybrid exHOSeg (dictOf exHOTrEnts)).ents := by
  decide +kernel

end Parsley.C04
