/-
  C04 - known finding `length-holder-in-objstm` in a history (see Props/C03LenMember.lean): the base revision keeps the
  integer object 5 in an object stream, an incremental update adds a stream whose length is `5 0 R`.  Every identifier
  has one newest definition, yet the history is refused.  Leaf module: nothing imports it.
-/
import Parsley.Props.C03
namespace Parsley.C04
open Parsley Parsley.Loader Parsley.C03

/-- history: the base revision keeps object 5 in object stream 3, the update (classic table, /Prev) adds stream 4 with `/Length 5 0 R` (385 bytes; `|` = LF, `.` = a row byte):
    `%PDF-1.5|1 0 obj 7 endobj|3 0 obj<</Type/ObjStm/N 2/First 8/Length 13>>stream|2 0 5 3 22 3 |endstream endobj|6 0 obj<</Type/XRef/Size 7/W[1 1 1]/Index[0 4 5 2]/Root 1 0 R/Length 18>>stream|................m.|endstream endobj|startxref|109|%%EOF|4 0 obj<</Length 5 0 R>>stream|abc|endstream endobj|xref|4 1|0000000245 00000 n |trailer<</Size 7/Root 1 0 R/Prev 109>>|startxref|297|%%EOF|` -/
def lenInStmHist : Bytes := [
  37, 80, 68, 70, 45, 49, 46, 53, 10, 49, 32, 48, 32, 111, 98, 106, 32, 55, 32, 101, 110, 100, 111, 98, 106, 10, 51, 32, 48, 32, 111, 98, 106, 60, 60, 47, 84,
  121, 112, 101, 47, 79, 98, 106, 83, 116, 109, 47, 78, 32, 50, 47, 70, 105, 114, 115, 116, 32, 56, 47, 76, 101, 110, 103, 116, 104, 32, 49, 51, 62, 62, 115, 116,
  114, 101, 97, 109, 10, 50, 32, 48, 32, 53, 32, 51, 32, 50, 50, 32, 51, 32, 10, 101, 110, 100, 115, 116, 114, 101, 97, 109, 32, 101, 110, 100, 111, 98, 106, 10,
  54, 32, 48, 32, 111, 98, 106, 60, 60, 47, 84, 121, 112, 101, 47, 88, 82, 101, 102, 47, 83, 105, 122, 101, 32, 55, 47, 87, 91, 49, 32, 49, 32, 49, 93, 47, 73,
  110, 100, 101, 120, 91, 48, 32, 52, 32, 53, 32, 50, 93, 47, 82, 111, 111, 116, 32, 49, 32, 48, 32, 82, 47, 76, 101, 110, 103, 116, 104, 32, 49, 56, 62, 62, 115,
  116, 114, 101, 97, 109, 10, 0, 0, 255, 1, 9, 0, 2, 3, 0, 1, 26, 0, 2, 3, 1, 1, 109, 0, 10, 101, 110, 100, 115, 116, 114, 101, 97, 109, 32, 101, 110, 100, 111,
  98, 106, 10, 115, 116, 97, 114, 116, 120, 114, 101, 102, 10, 49, 48, 57, 10, 37, 37, 69, 79, 70, 10, 52, 32, 48, 32, 111, 98, 106, 60, 60, 47, 76, 101, 110,
  103, 116, 104, 32, 53, 32, 48, 32, 82, 62, 62, 115, 116, 114, 101, 97, 109, 10, 97, 98, 99, 10, 101, 110, 100, 115, 116, 114, 101, 97, 109, 32, 101, 110, 100,
  111, 98, 106, 10, 120, 114, 101, 102, 10, 52, 32, 49, 10, 48, 48, 48, 48, 48, 48, 48, 50, 52, 53, 32, 48, 48, 48, 48, 48, 32, 110, 32, 10, 116, 114, 97, 105,
  108, 101, 114, 60, 60, 47, 83, 105, 122, 101, 32, 55, 47, 82, 111, 111, 116, 32, 49, 32, 48, 32, 82, 47, 80, 114, 101, 118, 32, 49, 48, 57, 62, 62, 10, 115,
  116, 97, 114, 116, 120, 114, 101, 102, 10, 50, 57, 55, 10, 37, 37, 69, 79, 70, 10]

/-- control: the same history with object 5 written as a file-level object of the base revision (395 bytes; `|` = LF, `.` = a row byte):
    `%PDF-1.5|1 0 obj 7 endobj|3 0 obj<</Type/ObjStm/N 1/First 4/Length 7>>stream|2 0 22 |endstream endobj|5 0 obj 3 endobj|6 0 obj<</Type/XRef/Size 7/W[1 1 1]/Index[0 4 5 2]/Root 1 0 R/Length 18>>stream|.............f..w.|endstream endobj|startxref|119|%%EOF|4 0 obj<</Length 5 0 R>>stream|abc|endstream endobj|xref|4 1|0000000255 00000 n |trailer<</Size 7/Root 1 0 R/Prev 119>>|startxref|307|%%EOF|` -/
def lenInFileHist : Bytes := [
  37, 80, 68, 70, 45, 49, 46, 53, 10, 49, 32, 48, 32, 111, 98, 106, 32, 55, 32, 101, 110, 100, 111, 98, 106, 10, 51, 32, 48, 32, 111, 98, 106, 60, 60, 47, 84,
  121, 112, 101, 47, 79, 98, 106, 83, 116, 109, 47, 78, 32, 49, 47, 70, 105, 114, 115, 116, 32, 52, 47, 76, 101, 110, 103, 116, 104, 32, 55, 62, 62, 115, 116,
  114, 101, 97, 109, 10, 50, 32, 48, 32, 50, 50, 32, 10, 101, 110, 100, 115, 116, 114, 101, 97, 109, 32, 101, 110, 100, 111, 98, 106, 10, 53, 32, 48, 32, 111, 98,
  106, 32, 51, 32, 101, 110, 100, 111, 98, 106, 10, 54, 32, 48, 32, 111, 98, 106, 60, 60, 47, 84, 121, 112, 101, 47, 88, 82, 101, 102, 47, 83, 105, 122, 101, 32,
  55, 47, 87, 91, 49, 32, 49, 32, 49, 93, 47, 73, 110, 100, 101, 120, 91, 48, 32, 52, 32, 53, 32, 50, 93, 47, 82, 111, 111, 116, 32, 49, 32, 48, 32, 82, 47, 76,
  101, 110, 103, 116, 104, 32, 49, 56, 62, 62, 115, 116, 114, 101, 97, 109, 10, 0, 0, 255, 1, 9, 0, 2, 3, 0, 1, 26, 0, 1, 102, 0, 1, 119, 0, 10, 101, 110, 100,
  115, 116, 114, 101, 97, 109, 32, 101, 110, 100, 111, 98, 106, 10, 115, 116, 97, 114, 116, 120, 114, 101, 102, 10, 49, 49, 57, 10, 37, 37, 69, 79, 70, 10, 52,
  32, 48, 32, 111, 98, 106, 60, 60, 47, 76, 101, 110, 103, 116, 104, 32, 53, 32, 48, 32, 82, 62, 62, 115, 116, 114, 101, 97, 109, 10, 97, 98, 99, 10, 101, 110,
  100, 115, 116, 114, 101, 97, 109, 32, 101, 110, 100, 111, 98, 106, 10, 120, 114, 101, 102, 10, 52, 32, 49, 10, 48, 48, 48, 48, 48, 48, 48, 50, 53, 53, 32, 48,
  48, 48, 48, 48, 32, 110, 32, 10, 116, 114, 97, 105, 108, 101, 114, 60, 60, 47, 83, 105, 122, 101, 32, 55, 47, 82, 111, 111, 116, 32, 49, 32, 48, 32, 82, 47, 80,
  114, 101, 118, 32, 49, 49, 57, 62, 62, 10, 115, 116, 97, 114, 116, 120, 114, 101, 102, 10, 51, 48, 55, 10, 37, 37, 69, 79, 70, 10]

/-- **Known finding C04-length-holder-in-objstm.**  The history is refused; the control (holder at file level in the
    base revision, read in the second pass across revisions) loads all 6 objects. -/
theorem length_holder_in_objstm_history_witness :
    isRejected (parseData lenInStmHist) = true ∧
    (nDefs (parseData lenInFileHist) = 6 ∧ isStreamOf (lookupDef (parseData lenInFileHist) (4, 0)) [97, 98, 99] = true ∧
      isIntVal (lookupDef (parseData lenInFileHist) (5, 0)) 3 = true ∧ isIntVal (lookupDef (parseData lenInFileHist) (2, 0)) 22 = true) := by
  decide +kernel

end Parsley.C04
