/-
  C04 - end-to-end theorem for histories WITH OBJECT STREAMS whose members no later revision touches (follow-up of
  Props/C04HistMix.lean, which excluded rows of type 2 altogether).
  Proofs: Lemmas/LoaderE2EHistObjStm.lean (tools, stage), Lemmas/LoaderE2EHistObjStm2.lean (file, composition),
  Lemmas/LoaderE2EHistObjStmSpec.lean (`DocSpec.resolve` form).

    newest_wins_history_objstm      UNCONDITIONAL for the layout class `MixFile` (any number of revisions, each one
                                    EITHER objects ++ classic table ++ trailer ++ anything OR objects, one of them a
                                    cross-reference stream object, ++ anything), well formed in the sense of
                                    `MixFile.WFo f root ws`: as `MixFile.WF`, but the rows of a cross-reference stream
                                    may be of type 2; `ws` are the object streams as written (`LoaderObjStm.WCont`:
                                    unfiltered or Flate stored blocks, header in any legal layout, members in any legal
                                    spelling, arbitrary gaps).  Conditions on them: a row `(n, inStream c i)` names one
                                    of the object streams and `n` is the number of its `i`-th member; every object
                                    stream is an object of a revision whose section has a row for EVERY member (no
                                    orphans); numbers of object streams pairwise
                                    distinct, member numbers pairwise distinct; an object stream is not a
                                    cross-reference stream object; the file is smaller than 2^63 bytes; and THE
                                    EXCLUSION `memberTouchedLater f.secEnts = false`.
                                    Conclusion: `parseData file = ok L`, the newest root, per object number the NEWEST
                                    section that mentions it decides (`Decides` for in-use / free entries, `DecidesStm`
                                    for in-stream entries), every member `(m.num, 0)` of every object stream is bound to
                                    the value written in the stream, unmentioned numbers are undefined.
    newest_wins_history_objstm_objs read from the objects written.
    newest_wins_history_objstm_spec the final definitions are exactly the bindings of `DocSpec.resolve` of what the
                                    revisions said (`MixFile.saidsO`: objects written, the members the rows of type 2
                                    stand for, numbers freed).
    newest_wins_history_mix_of_objstm   `MixFile.WF` (+ size) is the special case `ws = []`.
    objstm_member_touched_excluded  the witness of known finding C04-objstm-member-touched-later (`C04.objstmRedef`)
                                    falls outside the hypotheses exactly through `memberTouchedLater`.
    exO_wf + example                non-vacuity: base revision written with a cross-reference stream and an object stream
                                    with two members, update with a classic table (/Prev) that REDEFINES object 1 and
                                    ADDS object 2 and touches no member.
  Still open: object streams whose members ARE touched later (the known finding: the code is wrong there), hybrid
  sections in a history, forward /Length inside a history.
-/
import Parsley.Lemmas.LoaderE2EHistObjStm2
import Parsley.Lemmas.LoaderE2EHistObjStmSpec
import Parsley.Props.C04HistMix
import Parsley.Props.C04
namespace Parsley.C04
open Parsley Parsley.Prim Parsley.Obj Parsley.Indirect Parsley.Loader Parsley.C02 Parsley.Spelling Parsley.LoaderE2E
open Parsley.XrefSpec Parsley.C13 Parsley.LoaderObjStm
open Parsley.C03 (exObj1 exObj1_ok exAXs exAXs_ok exASubs exAW exAW_data)

/-- **newest_wins_history_objstm** (C04 end to end; any number of revisions, classic tables and cross-reference
    streams in any mix, object streams whose members and containers no later revision touches).  `f.segs` are the
    revisions with their offsets, oldest first; `f.segs = pre ++ q :: post` names a revision `q` together with the
    NEWER ones `post`; `q.1.ents` are the entries of its section, `mobjsOf q` its objects with their offsets, `ws` the
    object streams. -/
theorem newest_wins_history_objstm (f : MixFile) (root : ObjId) (ws : List WCont) (h : f.WFo root ws) :
    ∃ L : Loaded, parseData f.bytes = .ok L ∧ L.root = root ∧
      (∀ pre q post, f.segs = pre ++ q :: post → ∀ e ∈ q.1.ents,
        (∀ q' ∈ post, ∀ e' ∈ q'.1.ents, e'.obj ≠ e.obj) → Decides (mobjsOf q) L.defs e ∧ DecidesStm ws L.defs e) ∧
      (∀ w ∈ ws, ∀ m ∈ w.mems, ObjStm.defsGet (m.num, 0) L.defs = some m.v) ∧
      (∀ n, (∀ q ∈ f.segs, ∀ e ∈ q.1.ents, e.obj ≠ n) → ∀ g, ObjStm.defsGet (n, g) L.defs = none) :=
  load_mix_objstm f root ws h

/-- **newest_wins_history_objstm_objs**: read from the objects written -/
theorem newest_wins_history_objstm_objs (f : MixFile) (root : ObjId) (ws : List WCont) (h : f.WFo root ws) :
    ∃ L : Loaded, parseData f.bytes = .ok L ∧ L.root = root ∧
      (∀ pre q post, f.segs = pre ++ q :: post → ∀ p ∈ mobjsOf q,
        (∀ q' ∈ post, ∀ e' ∈ q'.1.ents, e'.obj ≠ p.1.num) →
        ObjStm.defsGet (p.1.num, p.1.gen) L.defs = some (p.1.val p.2).val) ∧
      (∀ w ∈ ws, ∀ m ∈ w.mems, ObjStm.defsGet (m.num, 0) L.defs = some m.v) :=
  load_mix_objstm_objs f root ws h

/-- **newest_wins_history_objstm_spec**: in the vocabulary of Spec/Doc.lean -/
theorem newest_wins_history_objstm_spec (f : MixFile) (root : ObjId) (ws : List WCont) (rt : MRev × Nat → ObjId)
    (h : f.WFo root ws) (hrt : ∀ q, f.segs.getLast? = some q → rt q = root) :
    ∃ L : Loaded, parseData f.bytes = .ok L ∧
      (DocSpec.resolve (f.saidsO ws rt)).2 = some L.root ∧
      ∀ (k : ObjId) (v : Obj), (k, v) ∈ (DocSpec.resolve (f.saidsO ws rt)).1 ↔ ObjStm.defsGet k L.defs = some v :=
  load_mix_objstm_spec f root ws rt h hrt

/-- the hypotheses of `newest_wins_history_mix` (no rows of type 2) are the special case without object streams -/
theorem newest_wins_history_mix_of_objstm (f : MixFile) (root : ObjId) (h : f.WF root)
    (hsize : f.garbage.length + f.view.length ≤ 2 ^ 63) : f.WFo root [] :=
  h.toWFo hsize

/-! ## the known finding's witness is excluded by `memberTouchedLater` -/

/-- the entry lists of the sections of a file, NEWEST first, as the model's `parse_xref_section` yields them along
    the /Prev chain that starts at `c` (at most `fuel` sections) -/
def sectionsFrom (s : Bytes) : Nat → Nat → List (List Xref.Ent)
  | 0, _ => []
  | fuel + 1, c =>
    match parseXrefSection ⟨Ctx.new 50, false⟩ s c with
    | (.ok (some (ents, _, some p)), _, _) => ents :: sectionsFrom s fuel p
    | (.ok (some (ents, _, none)), _, _) => [ents]
    | _ => []

/-- the two sections of `objstmRedef` (its last `startxref` says 230, the /Prev of that section 92), oldest first: the
    cross-reference stream lists 1 and 2 as members of object stream 3, the update's table redefines 1 -/
theorem objstmRedef_sections : (sectionsFrom objstmRedef 5 230).reverse =
    [[⟨0, 255, .free 0⟩, ⟨1, 0, .inStream 3 0⟩, ⟨2, 0, .inStream 3 1⟩, ⟨3, 0, .inUse 9⟩, ⟨4, 0, .inUse 92⟩],
     [⟨1, 0, .inUse 209⟩]] := by
  decide +kernel

/-- **objstm_member_touched_excluded**: the witness of known finding C04-objstm-member-touched-later
    (`objstm_member_redefined_witness` on `objstmRedef`) violates the hypothesis `WFo.untouched` of
    `newest_wins_history_objstm`: its update mentions member 1 of the base revision's object stream -/
theorem objstm_member_touched_excluded :
    memberTouchedLater (sectionsFrom objstmRedef 5 230).reverse = true := by
  rw [objstmRedef_sections]
  decide +kernel

/-! ## non-vacuity: base revision = cross-reference stream 4 + object stream 3 (members 11 = 11, 12 = true) + object 1
    = 7 (the body of `C03.exAFile`); update with a CLASSIC TABLE: 1 rewritten := 9 at 255, 2 added = 8 at 272,
    `xref 1 2` at 289, /Prev 116 -/

/-- the base revision, followed by `startxref 116 %%EOF` -/
def exOBase : StmSeg where
  body1 := [⟨exObj1.piece, [10]⟩, ⟨exStm.piece, [10]⟩]
  xs := exAXs
  xpost := [10]
  body2 := []
  gap := [115, 116, 97, 114, 116, 120, 114, 101, 102, 10, 49, 49, 54, 10, 37, 37, 69, 79, 70, 10]
  subs := exASubs
  w0 := 1
  w1 := 1
  w2 := 1

/-- the update's table: objects 1 and 2 in use at 255 and 272 -/
def exOSub : TSub where
  start := 1
  wStart := 1
  wCount := 1
  lead := []
  hdrEol := [10]
  ents := [⟨255, 0, true, .spLf⟩, ⟨272, 0, true, .spLf⟩]

/-- the update's trailer dictionary: `/Root 1 0 R /Prev 116` -/
def exOD : List (Bytes × Obj) := dictOf [([82, 111, 111, 116], .ref 1 0), ([80, 114, 101, 118], .int 116)]

/-- `<</Root 1 0 R/Prev 116>>` -/
def exOTrTok : Bytes := [60, 60, 47, 82, 111, 111, 116, 32, 49, 32, 48, 32, 82, 47, 80, 114, 101, 118, 32, 49, 49, 54, 62, 62]

theorem exOTrailer_spells : Spells 2 (.dict exOD) exOTrTok := by
  have r1 : Spells 1 (.ref 1 0) [49, 32, 48, 32, 82] :=
    Spells.ref 0 [49] [32] [48] [32] (by simp) (by decide) (by decide) (by simp) (by decide) (by decide)
      C03.ws32 (by simp) C03.ws32 (by simp)
  have i116 : Spells 1 (.int 116) [49, 49, 54] := Spells.int 0 .none [49, 49, 54] (by simp) (by decide) (by decide)
  have kR : (nameBody [82, 111, 111, 116] [1, 0, 0, 1, 0, 0, 1, 0, 0, 1, 0, 0]).1 = [82, 111, 111, 116] := by decide
  have kP : (nameBody [80, 114, 101, 118] [1, 0, 0, 1, 0, 0, 1, 0, 0, 1, 0, 0]).1 = [80, 114, 101, 118] := by decide
  have d1 : SpellsEntries 1 [[82, 111, 111, 116]] [([80, 114, 101, 118], .int 116)] [47, 80, 114, 101, 118, 32, 49, 49, 54] := by
    have := SpellsEntries.cons 1 [[82, 111, 111, 116]] [80, 114, 101, 118] (.int 116) [] [] [1, 0, 0, 1, 0, 0, 1, 0, 0, 1, 0, 0] [32]
      _ _ WsRun.nil (by decide) (by decide) C03.ws32 i116 (fun _ => by simp) (SpellsEntries.nil 1 _)
    rw [kP] at this
    exact this
  have d0 : SpellsEntries 1 [] [([82, 111, 111, 116], .ref 1 0), ([80, 114, 101, 118], .int 116)]
      [47, 82, 111, 111, 116, 32, 49, 32, 48, 32, 82, 47, 80, 114, 101, 118, 32, 49, 49, 54] := by
    have := SpellsEntries.cons 1 [] [82, 111, 111, 116] (.ref 1 0) [([80, 114, 101, 118], .int 116)] []
      [1, 0, 0, 1, 0, 0, 1, 0, 0, 1, 0, 0] [32] _ _ WsRun.nil (by decide) (by simp) C03.ws32 r1 (fun _ => by simp) d1
    rw [kR] at this
    exact this
  exact Spells.dict 1 _ _ [] d0 WsRun.nil

/-- the update: `1 0 obj 9 endobj`, `2 0 obj 8 endobj`, table, trailer -/
def exORev : RevSeg where
  body := [⟨exB1.piece, [10]⟩, ⟨exA2.piece, [10]⟩]
  subs := [exOSub]
  wt := []
  ttok := exOTrTok
  gap := [10]

/-- `%PDF-1.5 LF <1 = 7> <3 = object stream: 11 = 11, 12 = true> <4 = cross-reference stream> startxref 116 %%EOF
    <1 = 9> <2 = 8> xref 1 2 … trailer<</Root 1 0 R/Prev 116>> startxref 289 %%EOF` -/
def exO : MixFile where
  garbage := []
  hdrRest := [49, 46, 53, 10]
  revs := [.stream exOBase, .classic exORev exOD]
  wsx := [10]
  ds := [50, 56, 57]
  e := [10]
  trail := [10]

theorem exOBase_ok : StmOK2 exOBase where
  xsOK := exAXs_ok
  xsLen := rfl
  dict := {
    type := rfl
    size := ⟨13, rfl, Or.inl rfl⟩
    hw := rfl
    hw0 := by decide
    hw1 := by decide
    hw1pos := by decide
    hw2 := by decide }
  stored := LoaderE2E.Stored.plain [] rfl
  fits := by decide
  lim := by decide
  numsNodup := by decide +kernel
  reads1 := by
    intro q hq
    simp only [exOBase, List.mem_cons, List.mem_nil_iff, or_false] at hq
    rcases hq with rfl | rfl
    · exact exObj1.piece_reads exObj1_ok
    · exact exStm.piece_reads exStm_ok rfl
  reads2 := by intro q hq; simp [exOBase] at hq

theorem exOSec_ok (c : Nat) : SecOK ⟨c, [exOSub], [], exOTrTok, exOD⟩ where
  subsNe := by simp
  subsOk := by
    intro t ht
    simp only [List.mem_cons, List.mem_nil_iff, or_false] at ht
    subst ht
    exact ⟨by decide +kernel, by simp [exOSub]⟩
  numsNodup := by show ((tableEnts [exOSub]).map (·.obj)).Nodup; decide +kernel
  wt := WsRun.nil
  trailer := ⟨2, exOTrailer_spells, by decide⟩
  noXRefStm := by show ObjStm.getUsize exOD kXRefStm = none; decide +kernel

theorem exORev_ok : ClassicOK exORev exOD where
  sec := exOSec_ok 0
  noEncrypt := by show dictGet kEncrypt exOD = none; decide +kernel
  reads := by
    intro q hq
    simp only [exORev, List.mem_cons, List.mem_nil_iff, or_false] at hq
    rcases hq with rfl | rfl
    · exact exB1.piece_reads exB1_ok
    · exact exA2.piece_reads exA2_ok

set_option maxRecDepth 100000 in
theorem exO_segs : exO.segs = [(.stream exOBase, 9), (.classic exORev exOD, 255)] := by rfl

theorem exO_ents1 : (MRev.stream exOBase).ents =
    [⟨1, 0, .inUse 9⟩, ⟨3, 0, .inUse 26⟩, ⟨4, 0, .inUse 116⟩, ⟨11, 0, .inStream 3 0⟩, ⟨12, 0, .inStream 3 1⟩] := by
  decide +kernel

theorem exO_ents2 : (MRev.classic exORev exOD).ents = [⟨1, 0, .inUse 255⟩, ⟨2, 0, .inUse 272⟩] := by
  decide +kernel

set_option maxRecDepth 100000 in
theorem exO_objs1 : mobjsOf (MRev.stream exOBase, 9) = [(exObj1.piece, 9), (exStm.piece, 26), (exAXs.piece, 116)] := by rfl

set_option maxRecDepth 100000 in
theorem exO_objs2 : mobjsOf (MRev.classic exORev exOD, 255) = [(exB1.piece, 255), (exA2.piece, 272)] := by rfl

/-- the object stream 3 is the stream object written at 26 -/
theorem exO_contAt : ContAt exAW (exStm.piece, 26) := ⟨exStm, rfl, rfl, rfl, rfl, rfl, exAW_data⟩

theorem exO_wf : exO.WFo (1, 0) [exAW] where
  noMagic := by intro k hk; simp [exO] at hk
  revsOk := by
    intro m hm
    simp only [exO, List.mem_cons, List.mem_nil_iff, or_false] at hm
    rcases hm with rfl | rfl
    · exact exOBase_ok
    · exact exORev_ok
  prevs := by
    rw [exO_segs]
    exact (MPrevOK_cons _ _ _).mpr ⟨by decide +kernel, (MPrevOK_cons _ _ _).mpr ⟨by decide +kernel, trivial⟩⟩
  newest := ⟨_, by rw [exO_segs]; rfl, rfl, by decide +kernel⟩
  stableGen := by
    unfold StableGen
    decide +kernel
  size := by decide +kernel
  tableObjs := by
    intro q hq
    rw [exO_segs] at hq
    simp only [List.mem_cons, List.mem_nil_iff, or_false] at hq
    rcases hq with rfl | rfl
    · exact ⟨_, List.Perm.refl _, by decide +kernel⟩
    · exact ⟨_, List.Perm.refl _, by decide +kernel⟩
  notEdited := by
    intro pre q post hseg k hk q' hq'
    rw [exO_segs] at hseg
    cases pre with
    | nil =>
      simp only [List.nil_append, List.cons.injEq] at hseg
      obtain ⟨rfl, rfl⟩ := hseg
      simp only [MRev.xsKey, Option.some.injEq] at hk
      subst hk
      simp only [List.mem_cons, List.mem_nil_iff, or_false] at hq'
      subst hq'
      rw [exO_ents2]
      decide
    | cons a pre' =>
      cases pre' with
      | nil =>
        simp only [List.cons_append, List.nil_append, List.cons.injEq] at hseg
        obtain ⟨_, rfl, _⟩ := hseg
        cases hk
      | cons b pre'' =>
        have := congrArg List.length hseg
        simp at this
  rows := by
    intro q hq e he c i hst
    rw [exO_segs] at hq
    simp only [List.mem_cons, List.mem_nil_iff, or_false] at hq
    rcases hq with rfl | rfl
    · rw [exO_ents1] at he
      simp only [List.mem_cons, List.mem_nil_iff, or_false] at he
      rcases he with rfl | rfl | rfl | rfl | rfl
      · cases hst
      · cases hst
      · cases hst
      · injection hst with hc hi
        subst hc; subst hi
        exact ⟨exAW, by simp, rfl, _, rfl, rfl⟩
      · injection hst with hc hi
        subst hc; subst hi
        exact ⟨exAW, by simp, rfl, _, rfl, rfl⟩
    · rw [exO_ents2] at he
      simp only [List.mem_cons, List.mem_nil_iff, or_false] at he
      rcases he with rfl | rfl <;> cases hst
  placed := by
    intro w hw
    simp only [List.mem_cons, List.mem_nil_iff, or_false] at hw
    subst hw
    refine ⟨(.stream exOBase, 9), by rw [exO_segs]; simp, ⟨_, by rw [exO_objs1]; simp, exO_contAt⟩, ?_⟩
    intro m hm
    rw [exO_ents1]
    simp only [exAW, exMems, List.mem_cons, List.mem_nil_iff, or_false] at hm
    rcases hm with rfl | rfl
    · exact ⟨⟨11, 0, .inStream 3 0⟩, by simp, rfl, 0, rfl⟩
    · exact ⟨⟨12, 0, .inStream 3 1⟩, by simp, rfl, 1, rfl⟩
  contsNodup := by simp
  memsNodup := by decide
  untouched := by decide +kernel
  wsx := WsRun.ws 10 [] (by decide) WsRun.nil
  wsxNe := by simp [exO]
  wsxNoS := by decide
  dsNe := by simp [exO]
  dsDig := by decide
  ofsFits := by decide
  e := by decide
  trail := noLaterEOF_of_no_percent _ (by decide)

/-- the theorem applied: object 1 has the value the update wrote, object 2 is the one the update added, the members
    11 and 12 of the base revision's object stream 3 are bound to the values written in the stream, the object stream
    and the cross-reference stream object are bound to themselves, 5 is undefined -/
example : ∃ L : Loaded, parseData exO.bytes = .ok L ∧ L.root = (1, 0) ∧
    ObjStm.defsGet (1, 0) L.defs = some (.int 9) ∧
    ObjStm.defsGet (2, 0) L.defs = some (.int 8) ∧
    ObjStm.defsGet (11, 0) L.defs = some (.int 11) ∧ ObjStm.defsGet (12, 0) L.defs = some (.bool true) ∧
    (∀ g, g ≠ 0 → ObjStm.defsGet (12, g) L.defs = none) ∧
    ObjStm.defsGet (3, 0) L.defs = some (.stream exStm.kvs ⟨79, 19, exStm.data⟩) ∧
    (∀ g, ObjStm.defsGet (5, g) L.defs = none) := by
  obtain ⟨L, h1, h2, hdec, hmem, hnone⟩ := newest_wins_history_objstm exO _ _ exO_wf
  have hd1 := (hdec [(.stream exOBase, 9)] (.classic exORev exOD, 255) [] exO_segs ⟨1, 0, .inUse 255⟩
    (by rw [exO_ents2]; simp) (by intro q' hq'; cases hq')).1
  have hd2 := (hdec [(.stream exOBase, 9)] (.classic exORev exOD, 255) [] exO_segs ⟨2, 0, .inUse 272⟩
    (by rw [exO_ents2]; simp) (by intro q' hq'; cases hq')).1
  have hlater : ∀ n, n ≠ 1 → n ≠ 2 → ∀ q' ∈ [((MRev.classic exORev exOD, 255) : MRev × Nat)], ∀ e' ∈ q'.1.ents, e'.obj ≠ n := by
    intro n h1 h2 q' hq' e' he'
    simp only [List.mem_cons, List.mem_nil_iff, or_false] at hq'
    subst hq'
    rw [exO_ents2] at he'
    simp only [List.mem_cons, List.mem_nil_iff, or_false] at he'
    rcases he' with rfl | rfl
    · exact fun h => h1 h.symm
    · exact fun h => h2 h.symm
  have hd3 := (hdec [] (.stream exOBase, 9) [(.classic exORev exOD, 255)] exO_segs ⟨3, 0, .inUse 26⟩
    (by rw [exO_ents1]; simp) (hlater 3 (by decide) (by decide))).1
  have hd12 := (hdec [] (.stream exOBase, 9) [(.classic exORev exOD, 255)] exO_segs ⟨12, 0, .inStream 3 1⟩
    (by rw [exO_ents1]; simp) (hlater 12 (by decide) (by decide))).2
  refine ⟨L, h1, h2, ?_, ?_, ?_, ?_, ?_, ?_, ?_⟩
  · exact (hd1.1 255 rfl).2.1 (exB1.piece, 255) (by rw [exO_objs2]; simp) rfl rfl rfl
  · exact (hd2.1 272 rfl).2.1 (exA2.piece, 272) (by rw [exO_objs2]; simp) rfl rfl rfl
  · exact hmem exAW (by simp) ⟨11, [], [], [49, 49], .int 11, 1⟩ (by simp [exAW, exMems])
  · exact hmem exAW (by simp) ⟨12, [32, 120], [32], [116, 114, 117, 101], .bool true, 1⟩ (by simp [exAW, exMems])
  · obtain ⟨_, _, _, _, _, _, _, hg⟩ := hd12 3 1 rfl
    exact hg
  · exact (hd3.1 26 rfl).2.1 (exStm.piece, 26) (by rw [exO_objs1]; simp) rfl rfl rfl
  · apply hnone 5
    intro q hq
    rw [exO_segs] at hq
    simp only [List.mem_cons, List.mem_nil_iff, or_false] at hq
    rcases hq with rfl | rfl
    · rw [exO_ents1]; decide
    · rw [exO_ents2]; decide

/-- what `resolve` says for this history: 1 rewritten and 2 added by the update; the object stream 3, the
    cross-reference stream object 4 and the members 11, 12 from the base revision -/
example : (DocSpec.resolve (exO.saidsO [exAW] fun _ => (1, 0))).1.map (·.1) =
    [(1, 0), (2, 0), (3, 0), (4, 0), (11, 0), (12, 0)] := by
  decide +kernel

theorem exO_resolve : DocSpec.resolve (exO.saidsO [exAW] fun _ => (1, 0)) =
    ([((1, 0), .int 9), ((2, 0), .int 8), ((3, 0), .stream exStm.kvs ⟨79, 19, exStm.data⟩),
      ((4, 0), (exAXs.val 116).val), ((11, 0), .int 11), ((12, 0), .bool true)], some (1, 0)) := by
  unfold MixFile.saidsO
  rw [exO_segs]
  rfl

/-- the spec corollary applied: the loader's context holds exactly these six bindings -/
example : ∃ L : Loaded, parseData exO.bytes = .ok L ∧ L.root = (1, 0) ∧
    ∀ (k : ObjId) (v : Obj), ObjStm.defsGet k L.defs = some v ↔
      (k, v) = ((1, 0), .int 9) ∨ (k, v) = ((2, 0), .int 8) ∨
      (k, v) = ((3, 0), .stream exStm.kvs ⟨79, 19, exStm.data⟩) ∨ (k, v) = ((4, 0), (exAXs.val 116).val) ∨
      (k, v) = ((11, 0), .int 11) ∨ (k, v) = ((12, 0), .bool true) := by
  obtain ⟨L, h1, h2, h3⟩ := newest_wins_history_objstm_spec exO _ _ (fun _ => (1, 0)) exO_wf (fun _ _ => rfl)
  rw [exO_resolve] at h2 h3
  refine ⟨L, h1, (Option.some.inj h2).symm, ?_⟩
  intro k v
  rw [← h3 k v]
  simp only [List.mem_cons, List.mem_nil_iff, or_false]

/-- the same file is accepted by the whole model with exactly these six definitions (a kernel-evaluated TEST,
    independent of the theorem) -/
example : C03.nDefs (parseData exO.bytes) = 6 := by decide +kernel

end Parsley.C04
