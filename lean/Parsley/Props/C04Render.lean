/-
  C04 - the generator's HISTORIES are covered by the end-to-end theorem (follow-up C03d): the last hypothesis between
  the driver's generator (`DocSpec.renderHistory`, the encoder of the correspondence run) and the headline theorem
  `newest_wins_history_mix` is removed.
  Proofs: Lemmas/LoaderE2EHistRenderI.lean (the per-revision interface `RevLink`), LoaderE2EHistRenderC.lean (classic
  table + /Prev), LoaderE2EHistRenderS.lean / S2 (cross-reference stream + /Prev), LoaderE2EHistRender.lean (composition
  over `renderRevs`: `plan`, `histFile`, `histFile_bytes`, `histFile_wf`, `render_history_resolve`),
  LoaderE2EHistRenderAll.lean (`mkRev`, `mkRev_link`).

    renderHistory_mix_wf_partial   for ANY number of revisions, each with a classic table (kind 0) or a cross-reference
                                   stream (kind 1), chained with `PrevMode.auto`: the file written by the executable
                                   encoder is the byte string of a well-formed `MixFile` (all offsets, /Prev values,
                                   `startxref` computed by the encoder are the ones the layout demands), and what the
                                   encoder REPORTS the revisions said has the same meaning (`DocSpec.resolve`) as what
                                   the layout says.
    render_history_loads_partial   hence: `parseData (renderHistory ..)` accepts, the root is the newest revision's, and
                                   the final context is EXACTLY `DocSpec.resolve` of the encoder's report - the oracle
                                   the judge computes for the same case.

  FULL statement (not proved): the same for every list of `Rev`s.  Proved here (`_partial`): every revision is
  `SimpleRevAny` - objects `SimpleObj` (since follow-up C03e: values of ANY shape in the encoder's domain and stream
  objects with a direct /Length, see Props/C04RenderDeep.lean; originally scalars only), kind
  0 or 1, no object-stream members, no offset swap / relabelling (ill-formed on purpose), size bounds - and the history
  is `HistOK`: at least one revision, STABLE GENERATIONS over all revisions (the opposite is the code's known defect
  generation-changed), cross-reference stream objects not mentioned by later revisions (infrastructure objects are not
  edited), no object numbered 0.  Unrestricted: the number of revisions, the mix of kinds, every layout choice of every
  revision (choice streams, paddings, `ofsAtPad`, subsection cuts, /Index, widths, storage plain / Flate / Flate +
  predictor, dictionary rotation, free entries, object 0 entry), garbage, binary comment; what the updates do
  (add / redefine / free / re-create).  Size hypothesis: the file is shorter than 2^32 bytes.
-/
import Parsley.Lemmas.LoaderE2EHistRenderAll
import Parsley.Props.C04HistMix
namespace Parsley.C04
open Parsley Parsley.Prim Parsley.Obj Parsley.Indirect Parsley.Loader Parsley.C02 Parsley.Spelling Parsley.LoaderE2E
open Parsley.DocSpec

/-- well-formed lists of revisions for the link: every revision is simple, the history is `HistOK` -/
structure HistSimple (revs : List Rev) : Prop extends HistOK revs where
  simple : ∀ r ∈ revs, SimpleRevAny r

/-- every step of the encoder's schedule links, and its section offset fits -/
theorem hist_links (garbage : Bytes) (binary : Bool) (revs : List Rev) (h : HistSimple revs)
    (hlen : (renderHistory garbage binary (autoRevs revs)).1.length < 2 ^ 32) :
    ∀ s ∈ plan mkRev revs (header binary).length none, s.link mkRev ∧ s.xofs < 2 ^ 32 := by
  have hb : (header binary).length + (renderRevs (autoRevs revs) (header binary).length []).1.length < 2 ^ 32 := by
    simp only [renderHistory, List.length_append] at hlen
    omega
  have := plan_links mkRev (2 ^ 32) revs (fun r hr pos pv hsz hpv => mkRev_link r (h.simple r hr) pos pv hsz hpv)
    revs (header binary).length [] (fun _ hr => hr) (Or.inl hb) (by intro p hp; cases hp)
  simpa using this

/-- **renderHistory_mix_wf_partial** (the link generator → declarative layout, any number of revisions). -/
theorem renderHistory_mix_wf_partial (garbage : Bytes) (binary : Bool) (revs : List Rev)
    (hg : NoMagic garbage) (h : HistSimple revs)
    (hlen : (renderHistory garbage binary (autoRevs revs)).1.length < 2 ^ 32) :
    ∃ f : MixFile, f.bytes = (renderHistory garbage binary (autoRevs revs)).1 ∧ f.WF (lastRoot revs) ∧
      f.revs.length = revs.length ∧
      ∀ (rt : MRev × Nat → DocSpec.ObjId) x,
        x ∈ (resolve (renderHistory garbage binary (autoRevs revs)).2.2.2).1 ↔ x ∈ (resolve (f.saids rt)).1 := by
  have hl := hist_links garbage binary revs h hlen
  refine ⟨histFile mkRev garbage binary revs, ?_, ?_, ?_, ?_⟩
  · exact (histFile_bytes mkRev garbage binary revs h.ne (fun s hs => (hl s hs).1)).symm
  · refine histFile_wf mkRev garbage binary revs hg h.toHistOK (fun s hs => (hl s hs).1) ?_
    intro s hs
    have := (hl s hs).2
    have h32 : (2 : Nat) ^ 32 ≤ i64Max := by decide
    omega
  · show ((plan mkRev revs (header binary).length none).map (Step.mrev mkRev)).length = _
    rw [List.length_map, plan_length]
  · intro rt
    exact (render_history_resolve mkRev garbage binary revs h.toHistOK (fun s hs => (hl s hs).1) rt).2

/-- **render_history_loads_partial**: the loader model on the file the generator writes for a whole history: accepted,
    the newest revision's root, and the final context is exactly the oracle `DocSpec.resolve` of what the encoder
    reports next to the bytes. -/
theorem render_history_loads_partial (garbage : Bytes) (binary : Bool) (revs : List Rev)
    (hg : NoMagic garbage) (h : HistSimple revs)
    (hlen : (renderHistory garbage binary (autoRevs revs)).1.length < 2 ^ 32) :
    ∃ L : Loaded, parseData (renderHistory garbage binary (autoRevs revs)).1 = .ok L ∧
      L.root = lastRoot revs ∧
      (resolve (renderHistory garbage binary (autoRevs revs)).2.2.2).2 = some L.root ∧
      ∀ (k : DocSpec.ObjId) (v : Obj), (k, v) ∈ (resolve (renderHistory garbage binary (autoRevs revs)).2.2.2).1 ↔
        ObjStm.defsGet k L.defs = some v := by
  have hl := hist_links garbage binary revs h hlen
  obtain ⟨f, hb, hwf, _, hres⟩ := renderHistory_mix_wf_partial garbage binary revs hg h hlen
  obtain ⟨L, hp, hroot, hdefs⟩ := newest_wins_history_mix_spec f (lastRoot revs) (fun _ => lastRoot revs) hwf (fun _ _ => rfl)
  have hr := (render_history_resolve mkRev garbage binary revs h.toHistOK (fun s hs => (hl s hs).1) (fun _ => lastRoot revs)).1
  have hLr : L.root = lastRoot revs := by
    obtain ⟨L', hp', hr', _⟩ := newest_wins_history_mix f (lastRoot revs) hwf
    rw [hp] at hp'
    cases hp'
    exact hr'
  refine ⟨L, by rw [← hb]; exact hp, hLr, by rw [hr, hLr], ?_⟩
  intro k v
  rw [hres (fun _ => lastRoot revs) (k, v)]
  exact hdefs k v

/-! ## a decidable form of `HistOK.notEdited` -/

/-- no later revision mentions the number of a cross-reference stream object -/
def xsUntouched : List Rev → Bool
  | [] => true
  | r :: t => (r.lay.kind != 1 || t.all fun r' => (revKeys r').all fun k => k.1 != r.lay.xnum) && xsUntouched t

theorem notEdited_of_check : ∀ (revs : List Rev), xsUntouched revs = true →
    ∀ pre r post, revs = pre ++ r :: post → r.lay.kind = 1 → ∀ r' ∈ post, ∀ k ∈ revKeys r', k.1 ≠ r.lay.xnum
  | [], _, pre, r, post, h, _, _, _, _, _ => by cases pre <;> cases h
  | a :: t, hc, pre, r, post, h, hk, r', hr', k, hkm => by
    simp only [xsUntouched, Bool.and_eq_true, Bool.or_eq_true, bne_iff_ne, ne_eq, List.all_eq_true] at hc
    cases pre with
    | nil =>
      simp only [List.nil_append, List.cons.injEq] at h
      obtain ⟨rfl, rfl⟩ := h
      rcases hc.1 with h1 | h1
      · exact absurd hk h1
      · exact h1 r' hr' k hkm
    | cons b pre' =>
      simp only [List.cons_append, List.cons.injEq] at h
      exact notEdited_of_check t hc.2 pre' r post h.2 hk r' hr' k hkm

/-! ## non-vacuity: a history of three revisions - classic base (1 = 7, 2 = /Cat, 3 free), cross-reference stream
    update (1 := 9, 5 = 5 added, 2 freed; the stream object is 4; FlateDecode + PNG-Up), classic update (2 re-created
    = /Dog) - with garbage and the binary comment -/

def exObj (n : Nat) (v : Obj) (ch : Ch) (pad : Bytes) (atPad : Bool) : DObj :=
  { num := n, gen := 0, body := .val v v, ch := ch, pad := pad, ofsAtPad := atPad, lenRef := none, lenPos := 0, eol1 := 0, eol2 := 0 }

def exLay (kind : Nat) (ch : Ch) (order : Nat) : RevLay :=
  { kind := kind, ch := ch, cut := 2, eols := [0, 1, 2], w0 := 1, x1 := 1, x2 := 0, omitIndex := false, flate := true, up := true,
    xnum := 4, hiddenGen := 0, swap := none, relabel := none, dictOrder := order }

def exRevA : Rev where
  objs := [exObj 1 (.int 7) [1, 6, 0, 2, 3, 1, 0, 0, 1, 2] [10] false, exObj 2 (.name [67, 97, 116]) [0, 7, 1, 1, 0, 0] [32, 10] true]
  members := []
  frees := [(3, 1)]
  zero := true
  root := (2, 0)
  lay := exLay 0 [1, 7, 2, 0, 8, 1, 1, 9, 0, 2, 1] 1

def exRevB : Rev where
  objs := [exObj 1 (.int 9) [2, 1, 0, 1, 1, 0] [32] false, exObj 5 (.int 5) [0, 3, 1, 0, 2, 2] [10, 10] true]
  members := []
  frees := [(2, 0)]
  zero := true
  root := (1, 0)
  lay := exLay 1 [1, 2, 0, 1, 3, 1, 0, 2] 3

def exRevC : Rev where
  objs := [exObj 2 (.name [68, 111, 103]) [1, 1, 0, 2, 0, 1] [10] false]
  members := []
  frees := []
  zero := false
  root := (2, 0)
  lay := exLay 0 [0, 1, 2, 0, 1, 1, 0, 2, 1] 2

def exHistR : List Rev := [exRevA, exRevB, exRevC]

theorem exObj_simple (n : Nat) (v : Obj) (ch : Ch) (pad : Bytes) (atPad : Bool) (hpad : ∀ y ∈ pad, isWsEol y = true)
    (hn : n ≤ i64Max) (hwf : wf v = true) (hs : encSimple v) : SimpleObj (exObj n v ch pad atPad) :=
  SimpleObj.of_scalar (wsRun_of_ws _ hpad) hn (by show (0 : Nat) ≤ i64Max; decide) v rfl hwf hs

theorem exRevA_simple : SimpleRev exRevA where
  kind := rfl
  swap := rfl
  relabel := rfl
  objs := by
    intro o ho
    simp only [exRevA, List.mem_cons, List.mem_nil_iff, or_false] at ho
    rcases ho with rfl | rfl
    · exact exObj_simple _ _ _ _ _ (by decide) (by decide) (by simp [wf]) trivial
    · exact exObj_simple _ _ _ _ _ (by decide) (by decide) (by simp [wf, okKey]) trivial
  objsNe := by simp [exRevA]
  gens := by decide
  freeGens := by decide
  numsNodup := by decide
  numsFit := by decide
  count := by decide
  rootFit := by decide

theorem exRevC_simple : SimpleRev exRevC where
  kind := rfl
  swap := rfl
  relabel := rfl
  objs := by
    intro o ho
    simp only [exRevC, List.mem_cons, List.mem_nil_iff, or_false] at ho
    subst ho
    exact exObj_simple _ _ _ _ _ (by decide) (by decide) (by simp [wf, okKey]) trivial
  objsNe := by simp [exRevC]
  gens := by decide
  freeGens := by decide
  numsNodup := by decide
  numsFit := by decide
  count := by decide
  rootFit := by decide

theorem exRevB_simple : SimpleRevX exRevB where
  kind := rfl
  swap := rfl
  relabel := rfl
  noMembers := rfl
  objs := by
    intro o ho
    simp only [exRevB, List.mem_cons, List.mem_nil_iff, or_false] at ho
    rcases ho with rfl | rfl
    · exact exObj_simple _ _ _ _ _ (by decide) (by decide) (by simp [wf]) trivial
    · exact exObj_simple _ _ _ _ _ (by decide) (by decide) (by simp [wf]) trivial
  gens := by decide
  freeGens := by decide
  numsNodup := by decide
  numsFit := by decide
  count := by decide
  rootFit := by decide
  w0 := by decide

theorem exHistR_simple : HistSimple exHistR where
  ne := by simp [exHistR]
  stable := by decide
  notEdited := notEdited_of_check exHistR (by decide)
  nonzero := by decide
  simple := by
    intro r hr
    simp only [exHistR, List.mem_cons, List.mem_nil_iff, or_false] at hr
    rcases hr with rfl | rfl | rfl
    · exact Or.inl exRevA_simple
    · exact Or.inr ⟨exRevB_simple, fun _ => by decide⟩
    · exact Or.inl exRevC_simple

def exGarb : Bytes := [106, 117, 110, 107, 10]

theorem exGarb_noMagic : NoMagic exGarb := noMagic_of_no_percent' _ (by decide)

/-- the hypotheses of the link are satisfiable: the rendered three-revision history is a well-formed `MixFile` -/
example : ∃ f : MixFile, f.bytes = (renderHistory exGarb true (autoRevs exHistR)).1 ∧ f.WF (2, 0) ∧ f.revs.length = 3 := by
  obtain ⟨f, hb, hwf, hn, _⟩ := renderHistory_mix_wf_partial exGarb true exHistR exGarb_noMagic exHistR_simple (by decide +kernel)
  exact ⟨f, hb, hwf, hn⟩

/-- ... and the loader model resolves it as the oracle says: 1 = 9 (redefined by the stream update), 2 = /Dog (freed by
    the second, re-created by the third revision), 5 = 5, the cross-reference stream object 4 defined, 3 undefined -/
example : ∃ L : Loaded, parseData (renderHistory exGarb true (autoRevs exHistR)).1 = .ok L ∧ L.root = (2, 0) ∧
    ObjStm.defsGet (1, 0) L.defs = some (.int 9) ∧ ObjStm.defsGet (2, 0) L.defs = some (.name [68, 111, 103]) ∧
    ObjStm.defsGet (5, 0) L.defs = some (.int 5) ∧ (∃ v, ObjStm.defsGet (4, 0) L.defs = some v) ∧
    ObjStm.defsGet (3, 1) L.defs = none := by
  obtain ⟨L, hp, hr, _, hdefs⟩ := render_history_loads_partial exGarb true exHistR exGarb_noMagic exHistR_simple (by decide +kernel)
  have hkeys : (resolve (renderHistory exGarb true (autoRevs exHistR)).2.2.2).1.map (·.1) = [(1, 0), (2, 0), (4, 0), (5, 0)] := by
    decide +kernel
  have h0 : (resolve (renderHistory exGarb true (autoRevs exHistR)).2.2.2).1[0]? = some ((1, 0), .int 9) := by
    set_option maxRecDepth 100000 in rfl
  have h1 : (resolve (renderHistory exGarb true (autoRevs exHistR)).2.2.2).1[1]? = some ((2, 0), .name [68, 111, 103]) := by
    set_option maxRecDepth 100000 in rfl
  have h3 : (resolve (renderHistory exGarb true (autoRevs exHistR)).2.2.2).1[3]? = some ((5, 0), .int 5) := by
    set_option maxRecDepth 100000 in rfl
  refine ⟨L, hp, hr, (hdefs _ _).mp (List.mem_of_getElem? h0), (hdefs _ _).mp (List.mem_of_getElem? h1),
    (hdefs _ _).mp (List.mem_of_getElem? h3), ?_, ?_⟩
  · have hm : (4, 0) ∈ (resolve (renderHistory exGarb true (autoRevs exHistR)).2.2.2).1.map (·.1) := by rw [hkeys]; decide
    obtain ⟨x, hx, hx4⟩ := List.mem_map.mp hm
    exact ⟨x.2, (hdefs _ _).mp (by rw [← hx4]; exact hx)⟩
  · cases hg : ObjStm.defsGet (3, 1) L.defs with
    | none => rfl
    | some v =>
      have hm := (hdefs (3, 1) v).mpr hg
      have : (3, 1) ∈ (resolve (renderHistory exGarb true (autoRevs exHistR)).2.2.2).1.map (·.1) := List.mem_map_of_mem hm
      rw [hkeys] at this
      exact absurd this (by decide)

end Parsley.C04
