/-
  C04 - the generator link for histories whose object values have ANY SHAPE (follow-up C03e).

  `render_history_loads_partial` / `renderHistory_mix_wf_partial` (Props/C04Render.lean) restricted every object value to a
  scalar, because `spell ⇒ Spells` was proved for scalars only.  With `C02.spell_is_Spells` (arrays and dictionaries of any
  nesting, entries in any order) the object predicate `LoaderE2E.SimpleObj` underneath `SimpleRevAny` / `HistSimple` now
  admits every `Body.val (canon s) s` with `wfDeep s` and depth at most 50 (Lemmas/LoaderE2ERender.lean, Props/
  C03RenderDeep.lean), so the history theorems cover such objects.  This file restates them in those terms.

    histSimple_values                    what `HistSimple` asks of the object values: exactly the encoder's domain
    render_history_loads_deep_partial    any number of revisions (classic tables and cross-reference streams in any mix,
                                         /Prev chained), values of any shape: the loader model accepts the file the
                                         generator writes, the root is the newest revision's, and the final context is
                                         EXACTLY the oracle `DocSpec.resolve` of the encoder's report
  FULL statement (not proved): every list of `Rev`s.  Stream objects with a direct /Length are covered too.  What REMAINS
  excluded (`_partial`): streams with a referenced /Length, object-stream members, the hybrid layout (kind 2), explicit /Prev targets other than `auto`, the deliberately
  ill-formed swap / relabelling; and the conditions of `HistOK` (stable generations = the negation of known finding
  generation-changed, cross-reference stream objects not edited later, no object numbered 0).  No restriction on the
  shape of values is left.
  Non-vacuity: `exHistD` - classic base (1 = a dictionary written /Kids /Type /Info with nested array and unsorted nested
  dictionary, 2 = /Cat), cross-reference stream update (FlateDecode + PNG-Up; 1 := `[<</Z 1/A[null]>> 7]`, 5 added, 2
  freed), classic update (2 re-created as a nested dictionary).
-/
import Parsley.Props.C04Render
import Parsley.Props.C03RenderDeep
namespace Parsley.C04
open Parsley Parsley.Prim Parsley.Obj Parsley.Indirect Parsley.Loader Parsley.C02 Parsley.Spelling Parsley.LoaderE2E
open Parsley.DocSpec

/-- **histSimple_values**: the values of a covered history are exactly the values of the encoder's domain -/
theorem histSimple_values (revs : List Rev) (h : HistSimple revs) :
    ∀ r ∈ revs, ∀ o ∈ r.objs,
      (∃ s, o.body = .val (canon s) s ∧ wfDeep s = true ∧ Obj.depth s ≤ 50) ∨
      (∃ entries data, o.body = .stm entries data ∧ o.lenRef = none ∧
        wfDeep (.dict (streamEntries o entries data.length)) = true ∧
        Obj.depth (.dict (streamEntries o entries data.length)) ≤ 50 ∧ ValsCanon (streamEntries o entries data.length)) := by
  intro r hr o ho
  rcases h.simple r hr with hs | ⟨hs, _⟩
  · exact (hs.objs o ho).2.2.2
  · exact (hs.objs o ho).2.2.2

/-- **render_history_loads_deep_partial**: `render_history_loads_partial` read with the generalised object predicate. -/
theorem render_history_loads_deep_partial (garbage : Bytes) (binary : Bool) (revs : List Rev)
    (hg : NoMagic garbage) (h : HistSimple revs)
    (hlen : (renderHistory garbage binary (autoRevs revs)).1.length < 2 ^ 32) :
    (∀ r ∈ revs, ∀ o ∈ r.objs,
      (∃ s, o.body = .val (canon s) s ∧ wfDeep s = true ∧ Obj.depth s ≤ 50) ∨
      (∃ entries data, o.body = .stm entries data ∧ o.lenRef = none ∧
        wfDeep (.dict (streamEntries o entries data.length)) = true ∧
        Obj.depth (.dict (streamEntries o entries data.length)) ≤ 50 ∧ ValsCanon (streamEntries o entries data.length))) ∧
    ∃ L : Loaded, parseData (renderHistory garbage binary (autoRevs revs)).1 = .ok L ∧
      L.root = lastRoot revs ∧
      (resolve (renderHistory garbage binary (autoRevs revs)).2.2.2).2 = some L.root ∧
      ∀ (k : DocSpec.ObjId) (v : Obj), (k, v) ∈ (resolve (renderHistory garbage binary (autoRevs revs)).2.2.2).1 ↔
        ObjStm.defsGet k L.defs = some v :=
  ⟨histSimple_values revs h, render_history_loads_partial garbage binary revs hg h hlen⟩

/-! ## non-vacuity -/

def exObjD (n : Nat) (c s : Obj) (ch : Ch) (pad : Bytes) (atPad : Bool) : DObj :=
  { num := n, gen := 0, body := .val c s, ch := ch, pad := pad, ofsAtPad := atPad, lenRef := none, lenPos := 0, eol1 := 0, eol2 := 0 }

theorem exObjD_simple (n : Nat) (s : Obj) (ch : Ch) (pad : Bytes) (atPad : Bool) (hpad : ∀ y ∈ pad, isWsEol y = true)
    (hn : n ≤ i64Max) (hwf : wfDeep s = true) (hd : Obj.depth s ≤ 50) : SimpleObj (exObjD n (canon s) s ch pad atPad) :=
  ⟨wsRun_of_ws _ hpad, hn, (by show (0 : Nat) ≤ i64Max; decide), Or.inl ⟨s, rfl, hwf, hd⟩⟩

/-- `<< /Z [ /N << /B 2 /A 1 >> ] /A (x) >>` -/
def exDogS : Obj := .dict [(C03.kZ, .arr [.name [78], .dict [([66], .int 2), (C03.kA, .int 1)]]), (C03.kA, .str [120])]
def exDogC : Obj := .dict [(C03.kA, .str [120]), (C03.kZ, .arr [.name [78], .dict [(C03.kA, .int 1), ([66], .int 2)]])]
theorem exDog_canon : canon exDogS = exDogC := by rfl

def exRevDA : Rev where
  objs := [exObjD 1 (canon C03.exDeepS) C03.exDeepS [1, 6, 0, 2, 3, 1, 0, 0, 1, 2, 5, 0, 1, 1, 3, 0, 2, 4, 1, 0, 7, 2, 1] [10] false,
           exObjD 2 (canon (.name [67, 97, 116])) (.name [67, 97, 116]) [0, 7, 1, 1, 0, 0] [32, 10] true]
  members := []
  frees := [(3, 1)]
  zero := true
  root := (2, 0)
  lay := exLay 0 [1, 7, 2, 0, 8, 1, 1, 9, 0, 2, 1] 1

def exRevDB : Rev where
  objs := [exObjD 1 (canon C03.exArrS) C03.exArrS [2, 1, 0, 1, 1, 0, 3, 0, 2, 1, 1, 4] [32] false,
           exObjD 5 (canon (.int 5)) (.int 5) [0, 3, 1, 0, 2, 2] [10, 10] true,
           { C03.exDeepO5 with num := 6 }]
  members := []
  frees := [(2, 0)]
  zero := true
  root := (1, 0)
  lay := exLay 1 [1, 2, 0, 1, 3, 1, 0, 2] 3

def exRevDC : Rev where
  objs := [exObjD 2 (canon exDogS) exDogS [1, 1, 0, 2, 0, 1, 4, 0, 1, 3, 2, 0, 1, 1, 5] [10] false]
  members := []
  frees := []
  zero := false
  root := (2, 0)
  lay := exLay 0 [0, 1, 2, 0, 1, 1, 0, 2, 1] 2

def exHistD : List Rev := [exRevDA, exRevDB, exRevDC]

theorem exRevDA_simple : SimpleRev exRevDA where
  kind := rfl
  swap := rfl
  relabel := rfl
  objs := by
    intro o ho
    simp only [exRevDA, List.mem_cons, List.mem_nil_iff, or_false] at ho
    rcases ho with rfl | rfl
    · exact exObjD_simple _ _ _ _ _ (by decide) (by decide) (by decide +kernel) (by decide +kernel)
    · exact exObjD_simple _ _ _ _ _ (by decide) (by decide) (by decide +kernel) (by decide +kernel)
  objsNe := by simp [exRevDA]
  gens := by decide
  freeGens := by decide
  numsNodup := by decide
  numsFit := by decide
  count := by decide
  rootFit := by decide

theorem exRevDC_simple : SimpleRev exRevDC where
  kind := rfl
  swap := rfl
  relabel := rfl
  objs := by
    intro o ho
    simp only [exRevDC, List.mem_cons, List.mem_nil_iff, or_false] at ho
    subst ho
    exact exObjD_simple _ _ _ _ _ (by decide) (by decide) (by decide +kernel) (by decide +kernel)
  objsNe := by simp [exRevDC]
  gens := by decide
  freeGens := by decide
  numsNodup := by decide
  numsFit := by decide
  count := by decide
  rootFit := by decide

theorem exRevDB_simple : SimpleRevX exRevDB where
  kind := rfl
  swap := rfl
  relabel := rfl
  noMembers := rfl
  objs := by
    intro o ho
    simp only [exRevDB, List.mem_cons, List.mem_nil_iff, or_false] at ho
    rcases ho with rfl | rfl | rfl
    · exact exObjD_simple _ _ _ _ _ (by decide) (by decide) (by decide +kernel) (by decide +kernel)
    · exact exObjD_simple _ _ _ _ _ (by decide) (by decide) (by decide +kernel) (by decide +kernel)
    · obtain ⟨hp, _, hg, hrest⟩ := C03.exDeepO5_simple
      exact ⟨hp, by decide, hg, hrest⟩
  gens := by decide
  freeGens := by decide
  numsNodup := by decide
  numsFit := by decide
  count := by decide
  rootFit := by decide
  w0 := by decide

theorem exHistD_simple : HistSimple exHistD where
  ne := by simp [exHistD]
  stable := by decide
  notEdited := notEdited_of_check exHistD (by decide)
  nonzero := by decide
  simple := by
    intro r hr
    simp only [exHistD, List.mem_cons, List.mem_nil_iff, or_false] at hr
    rcases hr with rfl | rfl | rfl
    · exact Or.inl exRevDA_simple
    · exact Or.inr ⟨exRevDB_simple, fun _ => by decide⟩
    · exact Or.inl exRevDC_simple

/-- the loader model resolves the rendered history as the oracle says: 1 = the array written by the stream update (its
    dictionary SORTED), 2 = the nested dictionary of the third revision (SORTED at both levels), 5 = 5, the
    cross-reference stream object 4 defined, the stream object 6 written by the stream update defined, 3 undefined -/
example : ∃ L : Loaded, parseData (renderHistory exGarb true (autoRevs exHistD)).1 = .ok L ∧ L.root = (2, 0) ∧
    ObjStm.defsGet (1, 0) L.defs = some C03.exArrC ∧ ObjStm.defsGet (2, 0) L.defs = some exDogC ∧
    ObjStm.defsGet (5, 0) L.defs = some (.int 5) ∧ (∃ v, ObjStm.defsGet (4, 0) L.defs = some v) ∧
    (∃ v, ObjStm.defsGet (6, 0) L.defs = some v) ∧
    ObjStm.defsGet (3, 1) L.defs = none := by
  obtain ⟨_, L, hp, hr, _, hdefs⟩ := render_history_loads_deep_partial exGarb true exHistD exGarb_noMagic exHistD_simple
    (by decide +kernel)
  have hkeys : (resolve (renderHistory exGarb true (autoRevs exHistD)).2.2.2).1.map (·.1) = [(1, 0), (2, 0), (4, 0), (5, 0), (6, 0)] := by
    decide +kernel
  have h0 : (resolve (renderHistory exGarb true (autoRevs exHistD)).2.2.2).1[0]? = some ((1, 0), C03.exArrC) := by
    set_option maxRecDepth 100000 in rfl
  have h1 : (resolve (renderHistory exGarb true (autoRevs exHistD)).2.2.2).1[1]? = some ((2, 0), exDogC) := by
    set_option maxRecDepth 100000 in rfl
  have h3 : (resolve (renderHistory exGarb true (autoRevs exHistD)).2.2.2).1[3]? = some ((5, 0), .int 5) := by
    set_option maxRecDepth 100000 in rfl
  refine ⟨L, hp, hr, (hdefs _ _).mp (List.mem_of_getElem? h0), (hdefs _ _).mp (List.mem_of_getElem? h1),
    (hdefs _ _).mp (List.mem_of_getElem? h3), ?_, ?_, ?_⟩
  · have hm : (4, 0) ∈ (resolve (renderHistory exGarb true (autoRevs exHistD)).2.2.2).1.map (·.1) := by rw [hkeys]; decide
    obtain ⟨x, hx, hx4⟩ := List.mem_map.mp hm
    exact ⟨x.2, (hdefs _ _).mp (by rw [← hx4]; exact hx)⟩
  · have hm : (6, 0) ∈ (resolve (renderHistory exGarb true (autoRevs exHistD)).2.2.2).1.map (·.1) := by rw [hkeys]; decide
    obtain ⟨x, hx, hx6⟩ := List.mem_map.mp hm
    exact ⟨x.2, (hdefs _ _).mp (by rw [← hx6]; exact hx)⟩
  · cases hg : ObjStm.defsGet (3, 1) L.defs with
    | none => rfl
    | some v =>
      have hm := (hdefs (3, 1) v).mpr hg
      have : (3, 1) ∈ (resolve (renderHistory exGarb true (autoRevs exHistD)).2.2.2).1.map (·.1) := List.mem_map_of_mem hm
      rw [hkeys] at this
      exact absurd this (by decide)

/-- the hypotheses of the link are satisfiable with nested values: the rendered history is a well-formed `MixFile` -/
example : ∃ f : MixFile, f.bytes = (renderHistory exGarb true (autoRevs exHistD)).1 ∧ f.WF (2, 0) ∧ f.revs.length = 3 := by
  obtain ⟨f, hb, hwf, hn, _⟩ := renderHistory_mix_wf_partial exGarb true exHistD exGarb_noMagic exHistD_simple (by decide +kernel)
  exact ⟨f, hb, hwf, hn⟩

end Parsley.C04
