/-
  C04 - known finding `xrefstm-self-entry-unchecked` in a history (see Props/C03SelfRow.lean): the base revision is a
  cross-reference stream section whose row for the stream object ITSELF is aimed at another object - of the same
  revision, or of the NEWER revision (written after it) - and an incremental update adds object 3.  The row is the
  newest entry of its identifier, nothing shadows it, yet it is never compared with its offset: the history loads as
  if the row were correct.  Leaf module: nothing imports it.
-/
import Parsley.Props.C03
import Parsley.Spec.Doc
namespace Parsley.C04
open Parsley Parsley.Loader Parsley.C03

/-- base: object 1 = 7, cross-reference stream 2 whose own row says offset 9 (object 1); update (classic table, /Prev 26) adds object 3 = 9 at offset 136 (240 bytes) -/
def selfRowHist : Bytes := [
  37, 80, 68, 70, 45, 49, 46, 53, 10, 49, 32, 48, 32, 111, 98, 106, 32, 55, 32, 101, 110, 100, 111, 98, 106, 10, 50, 32, 48, 32, 111, 98, 106, 60,
  60, 47, 84, 121, 112, 101, 47, 88, 82, 101, 102, 47, 83, 105, 122, 101, 32, 51, 47, 87, 91, 49, 32, 49, 32, 49, 93, 47, 82, 111, 111, 116, 32, 49,
  32, 48, 32, 82, 47, 76, 101, 110, 103, 116, 104, 32, 57, 62, 62, 115, 116, 114, 101, 97, 109, 10, 0, 0, 255, 1, 9, 0, 1, 9, 0, 10, 101, 110, 100,
  115, 116, 114, 101, 97, 109, 32, 101, 110, 100, 111, 98, 106, 10, 115, 116, 97, 114, 116, 120, 114, 101, 102, 10, 50, 54, 10, 37, 37, 69, 79, 70,
  10, 51, 32, 48, 32, 111, 98, 106, 32, 57, 32, 101, 110, 100, 111, 98, 106, 10, 120, 114, 101, 102, 10, 51, 32, 49, 10, 48, 48, 48, 48, 48, 48, 48,
  49, 51, 54, 32, 48, 48, 48, 48, 48, 32, 110, 32, 10, 116, 114, 97, 105, 108, 101, 114, 60, 60, 47, 83, 105, 122, 101, 32, 52, 47, 82, 111, 111,
  116, 32, 49, 32, 48, 32, 82, 47, 80, 114, 101, 118, 32, 50, 54, 62, 62, 10, 115, 116, 97, 114, 116, 120, 114, 101, 102, 10, 49, 53, 51, 10, 37, 37,
  69, 79, 70, 10]

/-- the same, the base revision's self row says offset 136: object 3 of the NEWER revision -/
def selfRowHistFwd : Bytes := [
  37, 80, 68, 70, 45, 49, 46, 53, 10, 49, 32, 48, 32, 111, 98, 106, 32, 55, 32, 101, 110, 100, 111, 98, 106, 10, 50, 32, 48, 32, 111, 98, 106, 60,
  60, 47, 84, 121, 112, 101, 47, 88, 82, 101, 102, 47, 83, 105, 122, 101, 32, 51, 47, 87, 91, 49, 32, 49, 32, 49, 93, 47, 82, 111, 111, 116, 32, 49,
  32, 48, 32, 82, 47, 76, 101, 110, 103, 116, 104, 32, 57, 62, 62, 115, 116, 114, 101, 97, 109, 10, 0, 0, 255, 1, 9, 0, 1, 136, 0, 10, 101, 110, 100,
  115, 116, 114, 101, 97, 109, 32, 101, 110, 100, 111, 98, 106, 10, 115, 116, 97, 114, 116, 120, 114, 101, 102, 10, 50, 54, 10, 37, 37, 69, 79, 70,
  10, 51, 32, 48, 32, 111, 98, 106, 32, 57, 32, 101, 110, 100, 111, 98, 106, 10, 120, 114, 101, 102, 10, 51, 32, 49, 10, 48, 48, 48, 48, 48, 48, 48,
  49, 51, 54, 32, 48, 48, 48, 48, 48, 32, 110, 32, 10, 116, 114, 97, 105, 108, 101, 114, 60, 60, 47, 83, 105, 122, 101, 32, 52, 47, 82, 111, 111,
  116, 32, 49, 32, 48, 32, 82, 47, 80, 114, 101, 118, 32, 50, 54, 62, 62, 10, 115, 116, 97, 114, 116, 120, 114, 101, 102, 10, 49, 53, 51, 10, 37, 37,
  69, 79, 70, 10]

/-- **Known finding C04-xrefstm-self-entry-unchecked.**  The offsets the self rows carry spell other identifiers
    ((1,0) resp. (3,0), read by `DocSpec.headerAt`); both histories are accepted with all three objects. -/
theorem xrefstm_self_entry_unchecked_history_witness :
    (DocSpec.headerAt selfRowHist 9 = some (1, 0) ∧ nDefs (parseData selfRowHist) = 3 ∧
      isIntVal (lookupDef (parseData selfRowHist) (1, 0)) 7 = true ∧ isIntVal (lookupDef (parseData selfRowHist) (3, 0)) 9 = true ∧
      (lookupDef (parseData selfRowHist) (2, 0)).isSome = true) ∧
    (DocSpec.headerAt selfRowHistFwd 136 = some (3, 0) ∧ nDefs (parseData selfRowHistFwd) = 3 ∧
      isIntVal (lookupDef (parseData selfRowHistFwd) (1, 0)) 7 = true ∧ isIntVal (lookupDef (parseData selfRowHistFwd) (3, 0)) 9 = true ∧
      (lookupDef (parseData selfRowHistFwd) (2, 0)).isSome = true) := by
  decide +kernel

end Parsley.C04
