/-
  C05 — Stream data is framed exactly by its declared length.

  Proved for ALL buffers, cursors, declared lengths, payload bytes and contexts:
   * `stream_content_framed_iff`  StreamContentP succeeds with (start, size, content, end) exactly when the
                                  declarative framing predicate `Framed` holds with those values;
     `framed_content`             … and then content = the `n` bytes after the end-of-line, whatever they are
   * `stream_content_rejects`     no framing ⇒ an error, with the cursor back on the `stream` keyword
   * `stream_no_resync`           replacing the `n` bytes after the end-of-line by any other `n` bytes changes
                                  nothing in the result except the returned content (no resynchronisation on
                                  `endstream`/`endobj` inside the data)
   * `length_resolution`          the length lookup computes the declarative `LenRes` (missing / negative /
                                  non-integer / reference to non-integer ⇒ guard error; reference to an
                                  undefined object ⇒ InsufficientContext; reference to an integer ⇒ it)
   * `stream_framing`             parse_internal on `n g obj <<dict>> stream…`: success ⇔ the length resolves
                                  to n ∧ Framed … n ∧ `endobj` follows ∧ the identifier is new; the value is
                                  the stream with exactly the framed bytes, start/size as reported
   * `length_error_propagates`    an unresolved length is the result of the whole parse (cursor on `stream`)
   * `indirect_never_panics`      no panic site is reachable (`can never happen`, `usize_val().unwrap()`,
                                  `leave_obj` assert, loop fuel), and the context's depth is restored
   * `duplicate_id_rejected`      a second definition of an identifier is rejected *and* replaces the first
                                  in the context (BTreeMap::insert runs before the error is returned);
     `accepted_registers`         success ⇒ the identifier was undefined before and is bound to the parsed
                                  object afterwards, every other binding unchanged, map still sorted
-/
import Parsley.Lemmas.Indirect
import Parsley.Props.C16
namespace Parsley.C05
open Parsley Parsley.Prim Parsley.Obj Parsley.Indirect Parsley.Framing Parsley.C15

/-! ## StreamContentP = the framing predicate -/

theorem framed_le {strict : Bool} {s : Bytes} {p n : Nat} {payload : Bytes} {st stop : Nat}
    (h : Framed strict s p n payload st stop) : p ≤ s.length := by
  obtain ⟨e1, -, e2, -, tail, hd, -⟩ := h.witness
  by_cases hp : p ≤ s.length
  · exact hp
  · rw [List.drop_eq_nil_of_le (by omega)] at hd
    simp [Framing.kwStream] at hd

/-- **Framing ⇒ accepted**, with exactly the framed bytes and positions. -/
theorem stream_content_framed (strict : Bool) (s : Bytes) (p n : Nat) (payload : Bytes) (st stop : Nat)
    (h : Framed strict s p n payload st stop) :
    streamContentP n strict s p = (.ok ⟨⟨st, n, payload⟩, p, stop⟩, stop) := by
  have hp := framed_le h
  obtain ⟨e1, he1, e2, he2, tail, hd, hn, hst, hstop, hs⟩ := h.witness
  rw [streamContentP_at n strict s p hp, hd]
  have hcl : closeLen strict (e2 ++ Prim.kwEndstream ++ tail) = some (e2.length + 9) :=
    (closeLen_iff strict _ _).mpr ⟨e2, he2, tail, rfl, rfl, hs⟩
  have : Framing.kwStream ++ e1 ++ payload ++ e2 ++ Framing.kwEndstream ++ tail
      = Prim.kwStream ++ e1 ++ payload ++ (e2 ++ Prim.kwEndstream ++ tail) := by
    simp [Framing.kwStream, Prim.kwStream, Framing.kwEndstream, Prim.kwEndstream]
  rw [this, streamContentP_closed n strict e1 payload _ he1 hn, hcl]
  subst hst hstop
  simp only [shiftSC, Nat.add_zero, Nat.add_assoc]

/-- **Accepted ⇒ framing.**  Whatever `StreamContentP` returns on success is a framing of the buffer. -/
theorem stream_content_ok_framed (strict : Bool) (s : Bytes) (p n : Nat) (hp : p ≤ s.length)
    (x : Located StreamContent) (c : Nat) (h : streamContentP n strict s p = (.ok x, c)) :
    Framed strict s p n x.val.content x.val.start x.stop ∧ x.val.size = n ∧ x.start = p ∧ c = x.stop := by
  rw [streamContentP_at n strict s p hp] at h
  by_cases hk : Prim.kwStream <+: s.drop p
  · obtain ⟨r, hr⟩ := hk
    rw [← hr] at h
    by_cases he : ∃ e1 ∈ eolsAfterStream, e1 <+: r
    · obtain ⟨e1, he1, r', hr'⟩ := he
      rw [← hr', ← List.append_assoc] at h
      by_cases hl : r'.length < n
      · rw [streamContentP_short n strict e1 r' he1 hl] at h
        simp [shiftSC] at h
      · have hsplit : r' = r'.take n ++ r'.drop n := (List.take_append_drop n r').symm
        have hw : (r'.take n).length = n := by rw [List.length_take]; omega
        rw [hsplit, ← List.append_assoc, streamContentP_closed n strict e1 (r'.take n) (r'.drop n) he1 hw] at h
        cases hcl : closeLen strict (r'.drop n) with
        | none => rw [hcl] at h; simp [shiftSC] at h
        | some k =>
          rw [hcl] at h
          simp only [shiftSC] at h
          obtain ⟨e2, he2, tail, hpost, hk, hs⟩ := (closeLen_iff strict _ _).mp hcl
          injection h with h1 h2
          injection h1 with h1
          subst h1
          refine ⟨⟨e1, he1, e2, he2, tail, ?_, hw, by simp only; omega, by simp only; omega, hs⟩, rfl, rfl, by simp only; omega⟩
          simp only
          rw [← hr, ← hr']
          conv => lhs; rw [hsplit, hpost]
          simp [Framing.kwStream, Prim.kwStream, Framing.kwEndstream, Prim.kwEndstream]
    · rw [streamContentP_badeol n strict r (by
        intro e1 h1 h2; exact he ⟨e1, h1, h2⟩)] at h
      simp [shiftSC] at h
  · rw [streamContentP_nokw n strict _ hk] at h
    simp [shiftSC] at h

/-- **C05, framing.**  `StreamContentP` returns (start, size = n, content, span [p, stop)) with the cursor
    at `stop` **iff** the buffer is framed so: `stream`, LF or CR LF, exactly `n` bytes, optional CR/LF,
    `endstream`. -/
theorem stream_content_framed_iff (strict : Bool) (s : Bytes) (p n : Nat) (hp : p ≤ s.length)
    (payload : Bytes) (st stop : Nat) :
    streamContentP n strict s p = (.ok ⟨⟨st, n, payload⟩, p, stop⟩, stop) ↔
      Framed strict s p n payload st stop := by
  constructor
  · intro h
    have := (stream_content_ok_framed strict s p n hp _ _ h).1
    exact this
  · exact stream_content_framed strict s p n payload st stop

/-- the content of a framing is exactly the `n` bytes after the end-of-line — whatever they are -/
theorem framed_content {strict : Bool} {s : Bytes} {p n : Nat} {payload : Bytes} {st stop : Nat}
    (h : Framed strict s p n payload st stop) :
    payload = (s.drop st).take n ∧ st + n ≤ s.length ∧ (st = p + 7 ∨ st = p + 8) := by
  have hp := framed_le h
  obtain ⟨e1, he1, e2, he2, tail, hd, hn, hst, hstop, hs⟩ := h.witness
  have hl : (s.drop p).length = s.length - p := List.length_drop
  have h6 : Framing.kwStream.length = 6 := rfl
  have hdd : s.drop st = payload ++ (e2 ++ Framing.kwEndstream ++ tail) := by
    have : s.drop st = (s.drop p).drop (6 + e1.length) := by rw [List.drop_drop]; congr 1; omega
    rw [this, hd]
    have hh : (Framing.kwStream ++ e1).length = 6 + e1.length := by simp [h6]
    rw [← hh]
    simp only [List.append_assoc]
    rw [← List.append_assoc Framing.kwStream e1, List.drop_left]
  refine ⟨?_, ?_, ?_⟩
  · rw [hdd, ← hn, List.take_left]
  · rw [hd] at hl
    simp only [List.length_append] at hl
    omega
  · simp only [eolsAfterStream, List.mem_cons, List.not_mem_nil, or_false] at he1
    rcases he1 with rfl | rfl <;> simp at hst <;> omega

/-- **No framing ⇒ rejected**, and the cursor is back where the parser started. -/
theorem stream_content_rejects (strict : Bool) (s : Bytes) (p n : Nat) (hp : p ≤ s.length)
    (h : ¬ ∃ payload st stop, Framed strict s p n payload st stop) :
    ∃ k, streamContentP n strict s p = (.err k, p) := by
  have hl := streamContentP_loc n strict s p hp
  cases hr : streamContentP n strict s p with
  | mk r c =>
    rw [hr] at hl
    cases r with
    | ok x => exact absurd ⟨_, _, _, (stream_content_ok_framed strict s p n hp x c hr).1⟩ h
    | err k => have : c = p := hl; subst this; exact ⟨k, rfl⟩
    | panic m => exact hl.elim

/-- **C05, no resynchronisation.**  Take any buffer that announces a stream (`stream` + end-of-line at
    `|head|`) followed by at least `n` bytes.  Replacing those `n` bytes by any other `n` bytes —
    containing `endstream`, `endobj`, anything — changes nothing in the result except the returned
    content: same outcome, same start/size, same span, same cursor. -/
theorem stream_no_resync (strict : Bool) (head e1 w1 w2 post : Bytes) (he : e1 ∈ eolsAfterStream)
    (hw : w2.length = w1.length) :
    streamContentP w1.length strict (head ++ (Prim.kwStream ++ e1 ++ w2 ++ post)) head.length =
      setContent w2 (streamContentP w1.length strict (head ++ (Prim.kwStream ++ e1 ++ w1 ++ post)) head.length) := by
  have a1 := streamContentP_shift w1.length strict head (Prim.kwStream ++ e1 ++ w1 ++ post) 0
  have a2 := streamContentP_shift w1.length strict head (Prim.kwStream ++ e1 ++ w2 ++ post) 0
  rw [Nat.add_zero] at a1 a2
  rw [a1, a2, streamContentP_closed _ strict e1 w1 post he rfl, streamContentP_closed _ strict e1 w2 post he hw]
  cases closeLen strict post <;> simp [shiftSC, setContent]

/-! ## length resolution -/

/-- what the context binds an identifier to (values only) -/
def lookOf (defs : Defs) : Lookup := fun id => (defsGet id defs).map (·.val)

/-- **C05, length resolution.**  The length lookup of `parse_internal` computes the declarative
    relation: for every dictionary and every context. -/
theorem length_resolution (defs : Defs) (kvs : List (Bytes × Obj)) :
    LenRes (lookOf defs) (dictGet keyLength kvs) (streamLength defs kvs) := by
  unfold streamLength
  cases hg : dictGet keyLength kvs with
  | none => exact .missing
  | some v =>
    cases v with
    | int z =>
      simp only [convertStreamLength, isUsize]
      by_cases hz : 0 ≤ z
      · have : z = ((z.toNat : Nat) : Int) := by omega
        simp only [hz, decide_true, if_true]
        rw [this]; exact .direct _
      · simp only [hz, decide_false]
        exact .negative z (by omega)
    | ref a g =>
      simp only
      cases hl : defsGet (a, g) defs with
      | none => exact .refUndefined a g (by simp [lookOf, hl])
      | some o =>
        simp only
        have hlook : lookOf defs (a, g) = some o.val := by simp [lookOf, hl]
        cases hv : o.val with
        | int z =>
          simp only [convertStreamLength, isUsize]
          by_cases hz : 0 ≤ z
          · have : z = ((z.toNat : Nat) : Int) := by omega
            simp only [hz, decide_true, if_true]
            rw [hv, this] at hlook
            exact .refInt a g _ hlook
          · simp only [hz, decide_false]
            rw [hv] at hlook
            exact .refNegative a g z hlook (by omega)
        | _ =>
          simp only [convertStreamLength]
          exact .refNotInt a g _ hlook (by rw [hv]; intro z; simp)
    | _ => exact .notInt _ (by intro z; simp) (by intro a g; simp)

/-- `LenRes` is functional: the declarative relation determines the outcome. -/
theorem lenRes_functional {look : Lookup} {d : Option Obj} {r1 r2 : Res Nat}
    (h1 : LenRes look d r1) (h2 : LenRes look d r2) : r1 = r2 := by
  cases h1 <;> cases h2 <;> first | rfl | grind


/-! ## the indirect-object parser -/

/-- context invariant: depth within its bound, definitions sorted (a BTreeMap) -/
def CtxWF (c : Ctx) : Prop := c.cur ≤ c.max ∧ DefsSorted c.defs

/-- what `indirectHead` guarantees -/
def headGood (n : Nat) (c : Ctx) : (Res Head × Nat) × Ctx → Prop
  | ((.ok h, k), c') => k ≤ n ∧ c' = c ∧ h.o.stop = k
  | ((.err _, _), c') => c' = c
  | ((.panic _, _), _) => False

theorem indirectHead_good (c : Ctx) (s : Bytes) (i : Nat) (hi : i ≤ s.length) (hc : c.cur ≤ c.max) :
    headGood s.length c (indirectHead c s i) := by
  unfold indirectHead
  have h1 := integerP_progress s i hi
  split
  · rfl
  · rename_i heq; rw [heq] at h1; exact h1.elim
  · rename_i num j heq
    rw [heq] at h1; obtain ⟨-, -, hj1, hj2⟩ := h1
    split
    · rfl
    · have h2 := wsEOL_progress true s j hj2
      split
      · rfl
      · rename_i heq2; rw [heq2] at h2; exact h2.elim
      · rename_i u j1 heq2
        rw [heq2] at h2; obtain ⟨hk1, hk2, -⟩ := h2
        have h3 := integerP_progress s j1 hk2
        split
        · rfl
        · rename_i heq3; rw [heq3] at h3; exact h3.elim
        · rename_i gen j2 heq3
          rw [heq3] at h3; obtain ⟨-, -, hl1, hl2⟩ := h3
          split
          · rfl
          · have h4 := wsEOL_progress true s j2 hl2
            split
            · rfl
            · rename_i heq4; rw [heq4] at h4; exact h4.elim
            · rename_i u2 j3 heq4
              rw [heq4] at h4; obtain ⟨hm1, hm2, -⟩ := h4
              split
              · rfl
              · rename_i j4 heq5
                have g1 := exact_ok_le heq5 (by decide)
                have h5 := wsEOL_progress true s j4 g1
                split
                · rfl
                · rename_i heq6; rw [heq6] at h5; exact h5.elim
                · rename_i u3 j5 heq6
                  rw [heq6] at h5; obtain ⟨hn1, hn2, -⟩ := h5
                  have hg := C16.parseObj_good ⟨c.cur, c.max⟩ s j5 hn2 hc
                  have hd := C16.depth_restored ⟨c.cur, c.max⟩ s j5 hn2 hc
                  unfold parseObj at hd ⊢
                  revert hg hd
                  generalize parseObjB c.max (c.max - c.cur) c.cur s j5 = r
                  obtain ⟨⟨r, k⟩, cur'⟩ := r
                  intro hg hd
                  have hcur : cur' = c.cur := by simpa using congrArg Depth.cur hd
                  subst hcur
                  cases r with
                  | ok v => exact ⟨by have := hg.2.2.2.1; have := hg.2.2.2.2.1; omega, rfl, hg.2.2.2.1.symm⟩
                  | err e => rfl
                  | panic m => exact hg.elim

/-- `streamLength` has no panic site -/
theorem streamLength_no_panic (defs : Defs) (kvs : List (Bytes × Obj)) (m : String) :
    streamLength defs kvs ≠ .panic m := by
  have hc : ∀ o : Obj, convertStreamLength o ≠ .panic m := by
    intro o; unfold convertStreamLength; split
    · split <;> simp
    · simp
  unfold streamLength
  split
  · simp
  · exact hc _
  · split
    · exact hc _
    · simp
  · simp

/-- what `indirectBody` guarantees -/
def bodyGood (n : Nat) : Res (Located Obj) × Nat → Prop
  | (.ok _, k) => k ≤ n
  | (.err _, _) => True
  | (.panic _, _) => False

theorem indirectBody_good (c : Ctx) (s : Bytes) (o : Located Obj) (j : Nat) (hj : j ≤ s.length) :
    bodyGood s.length (indirectBody c s o j) := by
  unfold indirectBody
  split
  · rename_i kvs hd
    have h2 := wsEOL_progress true s j hj
    split
    · trivial
    · rename_i heq2; rw [heq2] at h2; exact h2.elim
    · rename_i u p heq2
      rw [heq2] at h2; obtain ⟨hk1, hk2, -⟩ := h2
      split
      · split
        · trivial
        · rename_i m hm; exact absurd hm (streamLength_no_panic _ _ m)
        · rename_i n hn
          have hl := streamContentP_loc n c.eol s p hk2
          split
          · trivial
          · rename_i heq3; rw [heq3] at hl; exact hl.elim
          · rename_i sc e heq3; rw [heq3] at hl; exact (by have := hl.2.1; have := hl.2.2.2; show e ≤ s.length; omega)
      · exact hk2
  · exact hj

def finGood (c : Ctx) : (Res (Located Indirect) × Nat) × Ctx → Prop
  | ((.panic _, _), _) => False
  | ((_, _), c') => c'.cur = c.cur ∧ c'.max = c.max ∧ c'.eol = c.eol

theorem indirectFinish_good (c : Ctx) (s : Bytes) (start num gen : Nat) (obj : Located Obj) (j : Nat)
    (hj : j ≤ s.length) : finGood c (indirectFinish c s start num gen obj j) := by
  unfold indirectFinish
  have h2 := wsEOL_progress true s j hj
  split
  · exact ⟨rfl, rfl, rfl⟩
  · rename_i heq2; rw [heq2] at h2; exact h2.elim
  · split
    · exact ⟨rfl, rfl, rfl⟩
    · simp only
      split <;> exact ⟨rfl, rfl, rfl⟩

theorem indirectInternal_good (c : Ctx) (s : Bytes) (i : Nat) (hi : i ≤ s.length) (hc : c.cur ≤ c.max) :
    finGood c (indirectInternal c s i) := by
  unfold indirectInternal
  have hh := indirectHead_good c s i hi hc
  split
  · rename_i heq; rw [heq] at hh; have : _ = c := hh; subst this; exact ⟨rfl, rfl, rfl⟩
  · rename_i heq; rw [heq] at hh; exact hh.elim
  · rename_i h j c1 heq
    rw [heq] at hh
    obtain ⟨hj, hc1, -⟩ := hh
    subst hc1
    have hb := indirectBody_good c1 s h.o j hj
    split
    · exact ⟨rfl, rfl, rfl⟩
    · rename_i heq2; rw [heq2] at hb; exact hb.elim
    · rename_i obj j' heq2
      rw [heq2] at hb
      exact indirectFinish_good c1 s i h.num h.gen obj j' hb

/-- **C05 / C01.**  `parse_pdf_indirect_obj` reaches no panic site — not `panic!("can never happen")`,
    not `usize_val().unwrap()`, not the `leave_obj` assertion, not the model's loop fuel — and leaves
    the context's depth, bound and strictness flag as they were, whatever the outcome. -/
theorem indirect_never_panics (c : Ctx) (s : Bytes) (i : Nat) (hi : i ≤ s.length) (hc : c.cur ≤ c.max) :
    (parseIndirect c s i).1.1.isPanic = false ∧
    (parseIndirect c s i).2.cur = c.cur ∧ (parseIndirect c s i).2.max = c.max ∧
    (parseIndirect c s i).2.eol = c.eol := by
  unfold parseIndirect
  have h2 := wsEOL_progress true s i hi
  split
  · exact ⟨rfl, rfl, rfl, rfl⟩
  · rename_i heq2; rw [heq2] at h2; exact h2.elim
  · rename_i u j heq2
    rw [heq2] at h2
    have hg := indirectInternal_good c s j h2.2.1 hc
    revert hg
    generalize indirectInternal c s j = r
    obtain ⟨⟨r, k⟩, c'⟩ := r
    cases r with
    | ok v => intro hg; exact ⟨rfl, hg⟩
    | err e => intro hg; exact ⟨rfl, hg⟩
    | panic m => intro hg; exact hg.elim


/-- `endobj` follows position `j` (white space and comments as `WhitespaceEOL` recognises them
    allowed in between); `k` is the position just after it -/
def EndobjFollows (s : Bytes) (j k : Nat) : Prop :=
  ∃ u q, wsEOL true s j = (.ok u, q) ∧ exact Indirect.kwEndobj s q = (true, k)

/-- `parse_internal` after a head `n g obj <<dict>>` that is followed by the `stream` keyword -/
theorem internal_stream_eq (c : Ctx) (s : Bytes) (i : Nat) (h : Head) (j : Nat) (c1 : Ctx)
    (kvs : List (Bytes × Obj)) (u : Located Unit) (p : Nat)
    (hhead : indirectHead c s i = ((.ok h, j), c1)) (hd : h.o.val = .dict kvs)
    (hws : wsEOL true s j = (.ok u, p)) (hkw : startsWith Prim.kwStream s p = true) :
    indirectInternal c s i =
      match streamLength c1.defs kvs with
      | .err k => ((.err k, p), c1)
      | .panic m => ((.panic m, p), c1)
      | .ok n =>
        match streamContentP n c1.eol s p with
        | (.err k, e) => ((.err k, e), c1)
        | (.panic m, e) => ((.panic m, e), c1)
        | (.ok sc, e) => indirectFinish c1 s i h.num h.gen ⟨.stream kvs sc.val, h.o.start, sc.stop⟩ e := by
  unfold indirectInternal
  rw [hhead]
  simp only
  unfold indirectBody
  simp only [hd, hws, hkw, if_true]
  cases streamLength c1.defs kvs with
  | err k => rfl
  | panic m => rfl
  | ok n =>
    simp only
    cases streamContentP n c1.eol s p with
    | mk r e => cases r <;> rfl

/-- **C05, length errors.**  If the declared length does not resolve, that error is the result of the
    whole parse: guard error for a missing / negative / non-integer length or a reference to a
    non-integer, InsufficientContext for a reference to an object not yet seen (`length_resolution`
    says which).  The cursor stays on the `stream` keyword and the context is untouched. -/
theorem length_error_propagates (c : Ctx) (s : Bytes) (i : Nat) (h : Head) (j : Nat) (c1 : Ctx)
    (kvs : List (Bytes × Obj)) (u : Located Unit) (p : Nat) (k : ErrK)
    (hhead : indirectHead c s i = ((.ok h, j), c1)) (hd : h.o.val = .dict kvs)
    (hws : wsEOL true s j = (.ok u, p)) (hkw : startsWith Prim.kwStream s p = true)
    (hlen : streamLength c1.defs kvs = .err k) :
    indirectInternal c s i = ((.err k, p), c1) := by
  rw [internal_stream_eq c s i h j c1 kvs u p hhead hd hws hkw, hlen]

/-- **C05, main theorem.**  Let the head `n g obj <<dict>>` be parsed and the `stream` keyword follow
    at `p`.  Then `parse_internal` **succeeds iff**
      the declared length resolves to some `n`,
      the buffer is framed at `p` by that `n` (`stream`, LF | CR LF, exactly `n` bytes whatever they
      are, optional CR / LF, `endstream`),
      `endobj` follows, and the identifier is not yet defined;
    and the result is then the stream object whose data is exactly the framed bytes, with
    `start`/`size` = where they begin / `n`, spanning from the dictionary to the end of `endstream`,
    registered in the context under its identifier. -/
theorem stream_framing (c : Ctx) (s : Bytes) (i : Nat) (hi : i ≤ s.length) (hwf : CtxWF c)
    (h : Head) (j : Nat) (c1 : Ctx) (kvs : List (Bytes × Obj)) (u : Located Unit) (p : Nat)
    (hhead : indirectHead c s i = ((.ok h, j), c1)) (hd : h.o.val = .dict kvs)
    (hws : wsEOL true s j = (.ok u, p)) (hkw : startsWith Prim.kwStream s p = true)
    (ind : Located Indirect) (k : Nat) (c2 : Ctx) :
    indirectInternal c s i = ((.ok ind, k), c2) ↔
      ∃ n payload st stop,
        streamLength c.defs kvs = .ok n ∧
        Framed c.eol s p n payload st stop ∧
        EndobjFollows s stop k ∧
        defsGet (h.num, h.gen) c.defs = none ∧
        ind = ⟨⟨h.num, h.gen, ⟨.stream kvs ⟨st, n, payload⟩, h.o.start, stop⟩⟩, i, k⟩ ∧
        c2 = { c with defs := (defsInsert (h.num, h.gen) ⟨.stream kvs ⟨st, n, payload⟩, h.o.start, stop⟩ c.defs).2 } := by
  have hg := indirectHead_good c s i hi hwf.1
  rw [hhead] at hg
  obtain ⟨hj, hc1, -⟩ := hg
  subst hc1
  have hp : p ≤ s.length := by
    have := wsEOL_progress true s j hj
    rw [hws] at this; exact this.2.1
  rw [internal_stream_eq c1 s i h j c1 kvs u p hhead hd hws hkw]
  constructor
  · intro hres
    cases hlen : streamLength c1.defs kvs with
    | err e => rw [hlen] at hres; simp at hres
    | panic m => rw [hlen] at hres; simp at hres
    | ok n =>
      rw [hlen] at hres
      simp only at hres
      cases hsc : streamContentP n c1.eol s p with
      | mk r e =>
        rw [hsc] at hres
        cases r with
        | err e' => simp at hres
        | panic m => simp at hres
        | ok sc =>
          simp only at hres
          obtain ⟨hfr, hsize, hstart, hcur⟩ := stream_content_ok_framed c1.eol s p n hp sc e hsc
          unfold indirectFinish at hres
          cases hw2 : wsEOL true s e with
          | mk r2 q =>
            rw [hw2] at hres
            cases r2 with
            | err e' => simp at hres
            | panic m => simp at hres
            | ok u2 =>
              simp only at hres
              cases hex : exact Indirect.kwEndobj s q with
              | mk b k' =>
                rw [hex] at hres
                cases b with
                | false => simp at hres
                | true =>
                  simp only at hres
                  have hold := defsInsert_old (h.num, h.gen) ⟨.stream kvs sc.val, h.o.start, sc.stop⟩ c1.defs hwf.2
                  cases hins : defsInsert (h.num, h.gen) ⟨.stream kvs sc.val, h.o.start, sc.stop⟩ c1.defs with
                  | mk old defs' =>
                    rw [hins] at hres hold
                    cases old with
                    | some o => simp at hres
                    | none =>
                      simp only at hres hold
                      injection hres with h1 h2
                      injection h1 with h1 h3
                      injection h1 with h1
                      subst h3
                      have hval : sc.val = ⟨sc.val.start, n, sc.val.content⟩ := by
                        cases hv : sc.val with
                        | mk a b cc => rw [hv] at hsize; simp only at hsize; subst hsize; rfl
                      refine ⟨n, sc.val.content, sc.val.start, sc.stop, rfl, hfr, ?_, hold.symm, ?_, ?_⟩
                      · rw [← hcur]; exact ⟨u2, q, hw2, hex⟩
                      · rw [← h1, ← hval]
                      · rw [← h2, ← hval, hins]
  · rintro ⟨n, payload, st, stop, hlen, hfr, ⟨u2, q, hw2, hex⟩, hnew, rfl, rfl⟩
    rw [hlen]
    simp only
    rw [stream_content_framed c1.eol s p n payload st stop hfr]
    simp only
    unfold indirectFinish
    rw [hw2]
    simp only
    rw [hex]
    simp only
    have hold := defsInsert_old (h.num, h.gen) ⟨.stream kvs ⟨st, n, payload⟩, h.o.start, stop⟩ c1.defs hwf.2
    rw [hnew] at hold
    cases hins : defsInsert (h.num, h.gen) ⟨.stream kvs ⟨st, n, payload⟩, h.o.start, stop⟩ c1.defs with
    | mk old defs' =>
      rw [hins] at hold
      simp only at hold
      subst hold
      rfl

/-- **C05, duplicate identifiers.**  When everything up to `endobj` has been parsed and the
    identifier is already defined, the object is rejected with a guard error — and the context now
    binds the identifier to the *new* object: `BTreeMap::insert` has already replaced the old one. -/
theorem duplicate_id_rejected (c : Ctx) (s : Bytes) (start num gen : Nat) (obj old : Located Obj) (j k : Nat)
    (hs : DefsSorted c.defs) (hend : EndobjFollows s j k) (hdef : defsGet (num, gen) c.defs = some old) :
    ∃ c', indirectFinish c s start num gen obj j = ((.err .guard, k), c') ∧
      defsGet (num, gen) c'.defs = some obj ∧
      (∀ id, id ≠ (num, gen) → defsGet id c'.defs = defsGet id c.defs) ∧
      DefsSorted c'.defs := by
  obtain ⟨u, q, hw, hex⟩ := hend
  have hold := defsInsert_old (num, gen) obj c.defs hs
  rw [hdef] at hold
  refine ⟨{ c with defs := (defsInsert (num, gen) obj c.defs).2 }, ?_, defsGet_insert_same _ _ _,
    fun id hne => defsGet_insert_other _ _ _ _ hne, defsInsert_sorted _ _ _ hs⟩
  unfold indirectFinish
  rw [hw]; simp only
  rw [hex]; simp only
  cases hins : defsInsert (num, gen) obj c.defs with
  | mk o d => rw [hins] at hold; simp only at hold; subst hold; rfl

theorem indirectFinish_ok (c : Ctx) (s : Bytes) (start num gen : Nat) (obj : Located Obj) (j : Nat)
    (v : Located Indirect) (k : Nat) (c' : Ctx)
    (h : indirectFinish c s start num gen obj j = ((.ok v, k), c')) :
    v = ⟨⟨num, gen, obj⟩, start, k⟩ ∧ (defsInsert (num, gen) obj c.defs).1 = none ∧
    c' = { c with defs := (defsInsert (num, gen) obj c.defs).2 } := by
  unfold indirectFinish at h
  split at h
  · simp at h
  · simp at h
  · split at h
    · simp at h
    · simp only at h
      cases hins : defsInsert (num, gen) obj c.defs with
      | mk old d =>
        rw [hins] at h
        cases old with
        | some o => simp at h
        | none =>
          simp only at h
          injection h with h1 h2
          injection h1 with h1 h3
          injection h1 with h1
          subst h3
          exact ⟨h1.symm, rfl, h2.symm⟩

/-- **C05, registration.**  A successful `parse_pdf_indirect_obj` means the identifier was undefined
    before; afterwards it is bound to the parsed object, every other binding is unchanged, and the
    map is still sorted. -/
theorem accepted_registers (c : Ctx) (s : Bytes) (i : Nat) (hi : i ≤ s.length) (hwf : CtxWF c)
    (v : Located Indirect) (k : Nat) (c' : Ctx) (h : parseIndirect c s i = ((.ok v, k), c')) :
    defsGet (v.val.num, v.val.gen) c.defs = none ∧
    defsGet (v.val.num, v.val.gen) c'.defs = some v.val.obj ∧
    (∀ id, id ≠ (v.val.num, v.val.gen) → defsGet id c'.defs = defsGet id c.defs) ∧
    CtxWF c' ∧ k = v.stop := by
  unfold parseIndirect at h
  have h2 := wsEOL_progress true s i hi
  split at h
  · simp at h
  · simp at h
  · rename_i u j heq
    rw [heq] at h2
    unfold indirectInternal at h
    have hh := indirectHead_good c s j h2.2.1 hwf.1
    split at h
    · simp at h
    · simp at h
    · rename_i hd j' c1 heq2
      rw [heq2] at hh
      obtain ⟨hj, hc1, -⟩ := hh
      subst hc1
      split at h
      · simp at h
      · simp at h
      · rename_i obj j'' heq3
        obtain ⟨hv, hold, hc'⟩ := indirectFinish_ok c1 s j hd.num hd.gen obj j'' v k c' h
        subst hv hc'
        simp only
        rw [defsInsert_old _ _ _ hwf.2] at hold
        exact ⟨hold, defsGet_insert_same _ _ _, fun id hne => defsGet_insert_other _ _ _ _ hne,
          ⟨hwf.1, defsInsert_sorted _ _ _ hwf.2⟩, by first | rfl | trivial⟩

/-! ## non-vacuity: the theorems' hypotheses are satisfiable by concrete, adversarial instances -/

/-- `1 0 obj<</Length 19>>stream LF endstream endobj xx LF endstream SP endobj`:
    the payload is the 19 bytes `endstream endobj xx`, returned verbatim. -/
def advBuf : Bytes := ([49, 32, 48, 32, 111, 98, 106, 60, 60, 47, 76, 101, 110, 103, 116, 104, 32, 49, 57, 62, 62, 115, 116, 114, 101, 97, 109, 10, 101, 110, 100, 115, 116, 114, 101, 97, 109, 32, 101, 110, 100, 111, 98, 106, 32, 120, 120, 10, 101, 110, 100, 115, 116, 114, 101, 97, 109, 32, 101, 110, 100, 111, 98, 106] : Bytes)
def advPayload : Bytes := ([101, 110, 100, 115, 116, 114, 101, 97, 109, 32, 101, 110, 100, 111, 98, 106, 32, 120, 120] : Bytes)

-- the framing predicate holds for the adversarial payload (test of the definitions, by evaluation)
example : Framed false advBuf 21 19 advPayload 28 57 :=
  ⟨[10], by decide, [10], by decide, ([32, 101, 110, 100, 111, 98, 106] : Bytes), by decide, by decide, by decide, by decide, by decide⟩

-- … and the model accepts it with exactly those bytes (by evaluation; the general fact is `stream_framing`)
example : (match (parseIndirect (Ctx.new 10) advBuf 0).1 with
    | (.ok v, k) => (match v.val.obj.val with
        | .stream _ sc => sc.start == 28 && sc.size == 19 && sc.content == advPayload && k == 64
        | _ => false)
    | _ => false) = true := by decide +kernel

-- a shorter declared length is rejected (no resynchronisation on the keyword), a longer one runs out of buffer
example : (parseIndirect (Ctx.new 10) (([49, 32, 48, 32, 111, 98, 106, 60, 60, 47, 76, 101, 110, 103, 116, 104, 32, 51, 62, 62, 115, 116, 114, 101, 97, 109, 10, 97, 98, 99, 100, 10, 101, 110, 100, 115, 116, 114, 101, 97, 109, 32, 101, 110, 100, 111, 98, 106] : Bytes)) 0).1.1.isOk = false := by
  decide +kernel
example : (match (parseIndirect (Ctx.new 10) (([49, 32, 48, 32, 111, 98, 106, 60, 60, 47, 76, 101, 110, 103, 116, 104, 32, 57, 32, 48, 32, 82, 62, 62, 115, 116, 114, 101, 97, 109, 10, 97, 98, 99, 100, 10, 101, 110, 100, 115, 116, 114, 101, 97, 109, 32, 101, 110, 100, 111, 98, 106] : Bytes)) 0).1.1 with
    | .err .ctx => true | _ => false) = true := by decide +kernel +kernel

-- `LenRes`: every constructor is inhabited
example : LenRes (fun _ => none) (some (.ref 9 0)) (.err .ctx) := .refUndefined 9 0 rfl
example : LenRes (fun _ => some (.int 4)) (some (.ref 9 0)) (.ok 4) := .refInt 9 0 4 rfl
example : LenRes (fun _ => some (.name [])) (some (.ref 9 0)) (.err .guard) := .refNotInt 9 0 _ rfl (by intro z; simp)

-- look-up is by the EXACT identifier: with only (7,0) defined, `/Length 7 1 R` needs more context
example : LenRes (fun id => if id = (7, 0) then some (.int 2) else none) (some (.ref 7 1)) (.err .ctx) :=
  .refUndefined 7 1 (by decide)
example : streamLength [((7, 0), ⟨.int 2, 0, 1⟩)] [(keyLength, .ref 7 1)] = .err .ctx := by decide
example : streamLength [((7, 0), ⟨.int 2, 0, 1⟩), ((7, 1), ⟨.int 5, 0, 1⟩)] [(keyLength, .ref 7 1)] = .ok 5 := by decide

-- the duplicate path: `1 0 obj 5 endobj` twice — the second call is rejected and (1,0) is rebound
example :
    let b := ([49, 32, 48, 32, 111, 98, 106, 32, 53, 32, 101, 110, 100, 111, 98, 106, 32, 49, 32, 48, 32, 111, 98, 106, 32, 55, 32, 101, 110, 100, 111, 98, 106] : Bytes)
    let r1 := parseIndirect (Ctx.new 10) b 0
    let r2 := parseIndirect r1.2 b r1.1.2
    (r1.1.1.isOk && !r2.1.1.isOk &&
      (match defsGet (1, 0) r2.2.defs with | some ⟨.int 7, _, _⟩ => true | _ => false)) = true := by decide +kernel

end Parsley.C05
