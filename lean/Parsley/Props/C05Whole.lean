/-
  C05, lifted to the WHOLE parser `parse_pdf_indirect_obj` (follow-up to Props/C05.lean).

  By locality of the head (Lemmas/IndirectLocal.lean: the parse of `n g obj <<dict>>` reads nothing at
  or beyond the payload that could change its result — truncation + extension lemmas for every token
  parser, the number/reference look-ahead, arrays, dictionaries, every nesting budget):
   * `indirect_stream_framing`    a stream object (kvs, st, n, payload) is returned ⇔ the buffer is
                                  `pre ++ payload ++ [CR][LF] ++ endstream ++ gap ++ endobj ++ tail` where
                                  `pre` BY ITSELF is a stream-object head (`StreamHead`), the declared length
                                  resolves to n = |payload| (`LenRes`: direct, or a reference resolved in the
                                  context), `gap` is white space (`WsRun`), the identifier is new — the payload
                                  bytes are unconstrained
   * `indirect_stream_no_resync`  an accepted stream object stays accepted when its n data bytes are replaced
                                  by ANY other n bytes (containing `endstream`, `endobj`, `stream`, …); only
                                  the content field changes (same id, dictionary, start/size, spans, cursor)
   * `indirect_stream_no_resync_outcome`  for EVERY outcome: behind a stream-object head with declared length
                                  n, two n-byte windows give the same error kind at the same cursor, or the
                                  same object up to the content field (contexts equal up to that field)
   * `indirect_length_error`      behind a stream-object head whose declared length does not resolve, the result is
                                  that error (guard / InsufficientContext as `LenRes` says), cursor on `stream`,
                                  context untouched — whatever follows; `streamHead_defs`: the head does not
                                  depend on the definitions in the context
   * `streamHead_of_parse`, `parse_of_streamHead`  the two directions of head locality used above
   * `endobj_gap_grammar`, `endobj_follows_grammar`  the white space between `endstream` and `endobj` is
                                  exactly the declarative grammar `Gap` / `WsRun` (Lemmas/IndirectWs.lean)
-/
import Parsley.Props.C05
import Parsley.Lemmas.IndirectLocal
import Parsley.Lemmas.IndirectWs
namespace Parsley.C05
open Parsley Parsley.Prim Parsley.Obj Parsley.Indirect Parsley.Framing Parsley.C15
open Parsley.C02 Parsley.Trunc Parsley.IndirectLocal Parsley.IndirectWs

/-! ## framing as a decomposition of the buffer -/

theorem kw_eq : Framing.kwStream = Prim.kwStream ∧ Framing.kwEndstream = Prim.kwEndstream ∧
    Framing.kwEndobj = Indirect.kwEndobj := ⟨rfl, rfl, rfl⟩

/-- a framing splits the buffer into the part before the payload (ending with `stream` and its
    end-of-line), the payload, and the part after it (starting with the optional end-of-line and
    `endstream`) -/
theorem framed_split {strict : Bool} {s : Bytes} {p n : Nat} {payload : Bytes} {st stop : Nat}
    (h : Framed strict s p n payload st stop) :
    ∃ e1 ∈ eolsAfterStream, ∃ e2 ∈ eolsBeforeEndstream, ∃ tail : Bytes,
      s = s.take st ++ payload ++ (e2 ++ Framing.kwEndstream ++ tail) ∧
      s.take st = s.take p ++ (Framing.kwStream ++ e1) ∧
      (s.take st).length = st ∧ p ≤ s.length ∧ st = p + 6 + e1.length ∧
      payload.length = n ∧ stop = st + n + e2.length + 9 ∧ (strict = true → e2 ≠ []) := by
  have hp := framed_le h
  obtain ⟨e1, he1, e2, he2, tail, hd, hn, hst, hstop, hs⟩ := h.witness
  have hlp : (s.take p).length = p := by rw [List.length_take]; omega
  have hs0 : s = s.take p ++ (Framing.kwStream ++ e1) ++ payload ++ (e2 ++ Framing.kwEndstream ++ tail) := by
    conv => lhs; rw [← List.take_append_drop p s, hd]
    simp only [List.append_assoc]
  have hlen : (s.take p ++ (Framing.kwStream ++ e1)).length = st := by
    simp only [List.length_append, hlp, hst, Framing.kwStream, List.length_cons, List.length_nil]; omega
  have htk : s.take st = s.take p ++ (Framing.kwStream ++ e1) := by
    have h2 := List.take_left' (l₁ := s.take p ++ (Framing.kwStream ++ e1))
      (l₂ := payload ++ (e2 ++ Framing.kwEndstream ++ tail)) hlen
    rw [← List.append_assoc, ← hs0] at h2
    exact h2
  refine ⟨e1, he1, e2, he2, tail, ?_, htk, by rw [htk, hlen], hp, hst, hn, hstop, hs⟩
  rw [htk]; exact hs0

/-- … and conversely -/
theorem framed_build (strict : Bool) (A e1 w e2 tail : Bytes) (he1 : e1 ∈ eolsAfterStream)
    (he2 : e2 ∈ eolsBeforeEndstream) (hs : strict = true → e2 ≠ []) :
    Framed strict (A ++ (Framing.kwStream ++ e1) ++ w ++ (e2 ++ Framing.kwEndstream ++ tail)) A.length w.length w
      (A.length + 6 + e1.length) (A.length + 6 + e1.length + w.length + e2.length + 9) := by
  refine ⟨e1, he1, e2, he2, tail, ?_, rfl, rfl, rfl, hs⟩
  simp only [List.append_assoc]
  rw [List.drop_left]

/-- the byte in front of the payload is the line feed of the end-of-line after `stream` -/
theorem framed_prev_byte {strict : Bool} {s : Bytes} {p n : Nat} {payload : Bytes} {st stop : Nat}
    (h : Framed strict s p n payload st stop) : peek s (st - 1) = some 10 := by
  obtain ⟨e1, he1, e2, he2, tail, hd, hn, hst, hstop, hs⟩ := h.witness
  have : peek s (st - 1) = (s.drop p)[st - 1 - p]? := by
    unfold peek; rw [List.getElem?_drop]; congr 1; omega
  rw [this, hd]
  simp only [eolsAfterStream, List.mem_cons, List.not_mem_nil, or_false] at he1
  rcases he1 with rfl | rfl
  · have : st - 1 - p = 6 := by simp at hst; omega
    rw [this]; simp [Framing.kwStream]
  · have : st - 1 - p = 7 := by simp at hst; omega
    rw [this]; simp [Framing.kwStream]

/-! ## inversion: an accepted stream object went through the stream branch -/

theorem parseIndirect_stream_inv (c : Ctx) (s : Bytes) (i : Nat) (hi : i ≤ s.length) (hc : c.cur ≤ c.max)
    (ind : Located Indirect) (k : Nat) (c2 : Ctx) (kvs : List (Bytes × Obj)) (sc : StreamContent)
    (h : parseIndirect c s i = ((.ok ind, k), c2)) (hst : ind.val.obj.val = .stream kvs sc) :
    ∃ u0 j0 hd j u p, wsEOL true s i = (.ok u0, j0) ∧ j0 ≤ s.length ∧
      indirectHead c s j0 = ((.ok hd, j), c) ∧ hd.o.val = .dict kvs ∧
      wsEOL true s j = (.ok u, p) ∧ startsWith Prim.kwStream s p = true ∧
      indirectInternal c s j0 = ((.ok ind, k), c2) := by
  unfold parseIndirect at h
  have h2 := wsEOL_progress true s i hi
  split at h
  · simp at h
  · simp at h
  · rename_i u0 j0 heq
    rw [heq] at h2
    have hint := h
    unfold indirectInternal at h
    have hh := indirectHead_good c s j0 h2.2.1 hc
    split at h
    · simp at h
    · simp at h
    · rename_i hd j c1 heq2
      rw [heq2] at hh
      obtain ⟨hj, hc1, -⟩ := hh
      subst hc1
      have hns := indirectHead_not_stream c1 s j0 hd j c1 heq2
      split at h
      · simp at h
      · simp at h
      · rename_i obj j'' heq3
        obtain ⟨hv, -, -⟩ := indirectFinish_ok c1 s j0 hd.num hd.gen obj j'' ind k c2 h
        rw [hv] at hst
        simp only at hst
        unfold indirectBody at heq3
        split at heq3
        · rename_i kvs' hdict
          split at heq3
          · cases heq3
          · cases heq3
          · rename_i u p hws
            split at heq3
            · rename_i hkw
              split at heq3
              · cases heq3
              · cases heq3
              · split at heq3
                · cases heq3
                · cases heq3
                · simp only [Prod.mk.injEq, Res.ok.injEq] at heq3
                  rw [← heq3.1] at hst
                  simp only [Obj.stream.injEq] at hst
                  rw [hst.1] at hdict
                  exact ⟨u0, j0, hd, j, u, p, heq, h2.2.1, heq2, hdict, hws, hkw, hint⟩
            · simp only [Prod.mk.injEq, Res.ok.injEq] at heq3
              rw [← heq3.1, hdict] at hst
              cases hst
        · simp only [Prod.mk.injEq, Res.ok.injEq] at heq3
          rw [← heq3.1] at hst
          exact absurd hst (hns kvs sc)

/-! ## the head of a stream object, as a property of the bytes in front of the payload -/

/-- `pre`, read as a buffer of its own from cursor `i`, is the head of a stream object and nothing
    more: optional white space, `num gen obj` beginning at `start`, a dictionary `kvs` beginning at
    `dstart`, optional white space, and — as the last bytes of `pre` — the `stream` keyword and its
    end-of-line (LF or CR LF). -/
def StreamHead (c : Ctx) (pre : Bytes) (i start num gen : Nat) (kvs : List (Bytes × Obj)) (dstart : Nat) : Prop :=
  ∃ u0 hd j u p e1, wsEOL true pre i = (.ok u0, start) ∧ indirectHead c pre start = ((.ok hd, j), c) ∧
    hd.num = num ∧ hd.gen = gen ∧ hd.o.val = .dict kvs ∧ hd.o.start = dstart ∧
    wsEOL true pre j = (.ok u, p) ∧ pre.drop p = Framing.kwStream ++ e1 ∧ e1 ∈ eolsAfterStream

theorem streamLength_ok_iff (defs : Defs) (kvs : List (Bytes × Obj)) (n : Nat) :
    streamLength defs kvs = .ok n ↔ LenRes (lookOf defs) (dictGet keyLength kvs) (.ok n) :=
  ⟨fun h => h ▸ length_resolution defs kvs, fun h => lenRes_functional (length_resolution defs kvs) h⟩

theorem tail_facts {pre e1 : Bytes} {p : Nat} (hd : pre.drop p = Framing.kwStream ++ e1)
    (he1 : e1 ∈ eolsAfterStream) :
    p ≤ pre.length ∧ pre.length = p + 6 + e1.length ∧ pre = pre.take p ++ (Framing.kwStream ++ e1) ∧
    peek pre (pre.length - 1) = some 10 := by
  have hp : p ≤ pre.length := by
    by_cases hp : p ≤ pre.length
    · exact hp
    · rw [List.drop_eq_nil_of_le (by omega)] at hd
      simp [Framing.kwStream] at hd
  have hl : (pre.drop p).length = pre.length - p := List.length_drop
  have hlen : pre.length = p + 6 + e1.length := by
    rw [hd] at hl
    simp only [List.length_append, Framing.kwStream, List.length_cons, List.length_nil] at hl
    omega
  refine ⟨hp, hlen, ?_, ?_⟩
  · rw [← hd, List.take_append_drop]
  · have : peek pre (pre.length - 1) = (pre.drop p)[pre.length - 1 - p]? := by
      unfold peek; rw [List.getElem?_drop]; congr 1; omega
    rw [this, hd]
    simp only [eolsAfterStream, List.mem_cons, List.not_mem_nil, or_false] at he1
    rcases he1 with rfl | rfl
    · have : pre.length - 1 - p = 6 := by simp at hlen; omega
      rw [this]; simp [Framing.kwStream]
    · have : pre.length - 1 - p = 7 := by simp at hlen; omega
      rw [this]; simp [Framing.kwStream]

/-- **the head depends on the bytes in front of the payload only (1)**: what the parser did on the
    whole buffer up to the `stream` keyword, it does on the buffer cut in front of the payload -/
theorem streamHead_of_parse (c : Ctx) (s : Bytes) (i : Nat) (hi : i ≤ s.length) (hc : c.cur ≤ c.max)
    (u0 : Located Unit) (j0 : Nat) (hd : Head) (j : Nat) (u : Located Unit) (p : Nat)
    (kvs : List (Bytes × Obj)) (n : Nat) (payload : Bytes) (st stop : Nat)
    (h0 : wsEOL true s i = (.ok u0, j0)) (hhead : indirectHead c s j0 = ((.ok hd, j), c))
    (hdict : hd.o.val = .dict kvs) (hws : wsEOL true s j = (.ok u, p))
    (hfr : Framed c.eol s p n payload st stop) :
    StreamHead c (s.take st) i j0 hd.num hd.gen kvs hd.o.start := by
  obtain ⟨e1, he1, e2, he2, tail, hs0, htk, hlen, hp, hst, hn, hstop, hs⟩ := framed_split hfr
  have hsl : st ≤ s.length := by rw [List.length_take] at hlen; omega
  have w0 := wsEOL_progress true s i hi
  rw [h0] at w0
  obtain ⟨a1, a2, -⟩ := w0
  obtain ⟨b1, b2⟩ := indirectHead_progress c s j0 hd j c a2 hc hhead
  have w1 := wsEOL_progress true s j b2
  rw [hws] at w1
  obtain ⟨d1, d2, -⟩ := w1
  have htt : s.take st = (s.take st).take st := by rw [List.take_take, Nat.min_self]
  have hR : peek s (st - 1) ≠ some 82 := by rw [framed_prev_byte hfr]; decide
  refine ⟨u0, hd, j, u, p, e1, ?_, ?_, rfl, rfl, hdict, rfl, ?_, ?_, he1⟩
  · exact tok_local (wsEOL_trunc true) (wsEOL_Ext true) s (s.take st) i st u0 j0 (by omega) htt hi h0 (by omega)
  · exact indirectHead_local c s (s.take st) j0 st hd j c hsl (by omega) htt a2 hc hhead (by omega) hR
      (by rintro ⟨z, hz⟩; rw [hdict] at hz; cases hz)
  · exact tok_local (wsEOL_trunc true) (wsEOL_Ext true) s (s.take st) j st u p (by omega) htt b2 hws (by omega)
  · rw [htk, List.drop_left' (by rw [List.length_take]; omega)]

/-- **the head depends on the bytes in front of the payload only (2)**: a stream-object head parses
    identically whatever follows it -/
theorem parse_of_streamHead (c : Ctx) (pre rest : Bytes) (i start num gen : Nat)
    (kvs : List (Bytes × Obj)) (dstart : Nat) (hc : c.cur ≤ c.max)
    (h : StreamHead c pre i start num gen kvs dstart) :
    ∃ u0 hd j u p e1, wsEOL true (pre ++ rest) i = (.ok u0, start) ∧
      indirectHead c (pre ++ rest) start = ((.ok hd, j), c) ∧
      hd.num = num ∧ hd.gen = gen ∧ hd.o.val = .dict kvs ∧ hd.o.start = dstart ∧
      wsEOL true (pre ++ rest) j = (.ok u, p) ∧ e1 ∈ eolsAfterStream ∧
      pre = pre.take p ++ (Framing.kwStream ++ e1) ∧ p ≤ pre.length ∧ pre.length = p + 6 + e1.length := by
  obtain ⟨u0, hd, j, u, p, e1, h0, hhead, hnum, hgen, hdict, hds, hws, hdrop, he1⟩ := h
  obtain ⟨hp, hlen, hpre, hlast⟩ := tail_facts hdrop he1
  have hi := wsEOL_ok_in h0
  have w0 := wsEOL_progress true pre i hi
  rw [h0] at w0
  obtain ⟨a1, a2, -⟩ := w0
  obtain ⟨b1, b2⟩ := indirectHead_progress c pre start hd j c a2 hc hhead
  have w1 := wsEOL_progress true pre j b2
  rw [hws] at w1
  obtain ⟨d1, d2, -⟩ := w1
  have htt : pre.take pre.length = (pre ++ rest).take pre.length := by
    rw [List.take_left' rfl, List.take_length]
  have hle : pre.length ≤ (pre ++ rest).length := by rw [List.length_append]; omega
  have hR : peek pre (pre.length - 1) ≠ some 82 := by rw [hlast]; decide
  refine ⟨u0, hd, j, u, p, e1, ?_, ?_, hnum, hgen, hdict, hds, ?_, he1, hpre, hp, hlen⟩
  · exact tok_local (wsEOL_trunc true) (wsEOL_Ext true) pre (pre ++ rest) i pre.length u0 start hle htt hi h0 (by omega)
  · exact indirectHead_local c pre (pre ++ rest) start pre.length hd j c (Nat.le_refl _) hle htt a2 hc hhead (by omega) hR
      (by rintro ⟨z, hz⟩; rw [hdict] at hz; cases hz)
  · exact tok_local (wsEOL_trunc true) (wsEOL_Ext true) pre (pre ++ rest) j pre.length u p hle htt b2 hws (by omega)

/-! ## accept iff framed, at the level of `parse_pdf_indirect_obj` -/

/-- **The declarative shape of an accepted stream object.**  The buffer is
      `pre ++ payload ++ e2 ++ "endstream" ++ gap ++ "endobj" ++ tail`
    where `pre` (by itself) is a stream-object head `[ws] num gen obj <<kvs>> [ws] stream EOL`,
    the declared length of `kvs` resolves to `n` (directly or through the context), the payload is
    ANY `n` bytes, `e2` is an optional end-of-line, `gap` is a run of white space and comments,
    and the identifier is new; the values reported are then determined. -/
structure StreamObjFramed (c : Ctx) (s : Bytes) (i : Nat) (kvs : List (Bytes × Obj)) (st n : Nat)
    (payload : Bytes) (ind : Located Indirect) (k : Nat) (c2 : Ctx) : Prop where
  witness : ∃ pre e2 gap tail start num gen dstart,
    s = pre ++ payload ++ e2 ++ Framing.kwEndstream ++ gap ++ Framing.kwEndobj ++ tail ∧
    StreamHead c pre i start num gen kvs dstart ∧
    LenRes (lookOf c.defs) (dictGet keyLength kvs) (.ok n) ∧
    payload.length = n ∧ st = pre.length ∧
    e2 ∈ eolsBeforeEndstream ∧ (c.eol = true → e2 ≠ []) ∧ WsRun gap ∧
    defsGet (num, gen) c.defs = none ∧
    k = st + n + e2.length + 9 + gap.length + 6 ∧
    ind = ⟨⟨num, gen, ⟨.stream kvs ⟨st, n, payload⟩, dstart, st + n + e2.length + 9⟩⟩, start, k⟩ ∧
    c2 = { c with defs := (defsInsert (num, gen) ⟨.stream kvs ⟨st, n, payload⟩, dstart, st + n + e2.length + 9⟩ c.defs).2 }

theorem indirect_stream_framed_of_ok (c : Ctx) (s : Bytes) (i : Nat) (hi : i ≤ s.length) (hwf : CtxWF c)
    (ind : Located Indirect) (k : Nat) (c2 : Ctx) (kvs : List (Bytes × Obj)) (st n : Nat) (payload : Bytes)
    (h : parseIndirect c s i = ((.ok ind, k), c2)) (hst : ind.val.obj.val = .stream kvs ⟨st, n, payload⟩) :
    StreamObjFramed c s i kvs st n payload ind k c2 := by
  obtain ⟨u0, j0, hd, j, u, p, h0, hj0, hhead, hdict, hws, hkw, hint⟩ :=
    parseIndirect_stream_inv c s i hi hwf.1 ind k c2 kvs _ h hst
  obtain ⟨n', payload', st', stop, hlen, hfr, hend, hnew, hind, hc2⟩ :=
    (stream_framing c s j0 hj0 hwf hd j c kvs u p hhead hdict hws hkw ind k c2).1 hint
  rw [hind] at hst
  simp only [Obj.stream.injEq, StreamContent.mk.injEq, true_and] at hst
  obtain ⟨rfl, rfl, rfl⟩ := hst
  have hsh := streamHead_of_parse c s i hi hwf.1 u0 j0 hd j u p kvs n' payload' st' stop h0 hhead hdict hws hfr
  obtain ⟨e1, he1, e2, he2, tail, hs0, htk, hlt, hp, hst', hn, hstop, hs⟩ := framed_split hfr
  obtain ⟨u2, q, hw2, hex⟩ := hend
  have hstopl : stop ≤ s.length := wsEOL_ok_in hw2
  obtain ⟨gap, tail2, hgap, hdrop, hk⟩ := (endobj_follows_iff s stop k hstopl).1 ⟨u2, q, hw2, hex⟩
  have htail : s.drop stop = tail := by
    have hl : (s.take st' ++ payload' ++ (e2 ++ Framing.kwEndstream)).length = stop := by
      simp only [List.length_append, hlt, hn, Framing.kwEndstream, List.length_cons, List.length_nil]; omega
    have hs1 : s = (s.take st' ++ payload' ++ (e2 ++ Framing.kwEndstream)) ++ tail := by
      conv => lhs; rw [hs0]
      simp only [List.append_assoc]
    conv => lhs; rw [hs1]
    rw [List.drop_left' hl]
  rw [htail] at hdrop
  refine ⟨s.take st', e2, gap, tail2, j0, hd.num, hd.gen, hd.o.start, ?_, hsh,
    (streamLength_ok_iff _ _ _).1 hlen, hn, hlt.symm, he2, hs, hgap, hnew, by omega, ?_, ?_⟩
  · conv => lhs; rw [hs0, hdrop]
    simp only [List.append_assoc]
    rfl
  · rw [hind, hstop]
  · rw [hc2, hstop]

theorem indirect_stream_ok_of_framed (c : Ctx) (s : Bytes) (i : Nat) (hwf : CtxWF c)
    (ind : Located Indirect) (k : Nat) (c2 : Ctx) (kvs : List (Bytes × Obj)) (st n : Nat) (payload : Bytes)
    (h : StreamObjFramed c s i kvs st n payload ind k c2) :
    parseIndirect c s i = ((.ok ind, k), c2) ∧ ind.val.obj.val = .stream kvs ⟨st, n, payload⟩ := by
  obtain ⟨pre, e2, gap, tail, start, num, gen, dstart, hs, hsh, hlen, hn, hst, he2, hstrict, hgap, hnew, hk, hind, hc2⟩ := h.witness
  have hs' : s = pre ++ (payload ++ e2 ++ Framing.kwEndstream ++ gap ++ Framing.kwEndobj ++ tail) := by
    rw [hs]; simp only [List.append_assoc]
  obtain ⟨u0, hd, j, u, p, e1, h0, hhead, hnum, hgen, hdict, hds, hws, he1, hpre, hp, hpl⟩ :=
    parse_of_streamHead c pre (payload ++ e2 ++ Framing.kwEndstream ++ gap ++ Framing.kwEndobj ++ tail)
      i start num gen kvs dstart hwf.1 hsh
  rw [← hs'] at h0 hhead hws
  have hlp : (pre.take p).length = p := by rw [List.length_take]; omega
  have hs2 : s = pre.take p ++ (Framing.kwStream ++ e1) ++ payload ++
      (e2 ++ Framing.kwEndstream ++ (gap ++ Framing.kwEndobj ++ tail)) := by
    rw [← hpre, hs]; simp only [List.append_assoc]
  have hfr : Framed c.eol s p n payload st (st + n + e2.length + 9) := by
    have := framed_build c.eol (pre.take p) e1 payload e2 (gap ++ Framing.kwEndobj ++ tail) he1 he2 hstrict
    rw [← hs2, hlp, hn] at this
    have e : p + 6 + e1.length = st := by omega
    rw [e] at this
    exact this
  have hkw : startsWith Prim.kwStream s p = true := by
    unfold startsWith
    obtain ⟨e1', -, e2', -, tail', hdr, -⟩ := hfr.witness
    rw [hdr]
    simp [Framing.kwStream, Prim.kwStream]
  have hj0 : start ≤ s.length := by
    have := wsEOL_progress true s i (wsEOL_ok_in h0)
    rw [h0] at this; exact this.2.1
  have hstopl : st + n + e2.length + 9 ≤ s.length := by
    rw [hs, hst]
    simp only [List.length_append, Framing.kwEndstream, List.length_cons, List.length_nil]; omega
  have hend : EndobjFollows s (st + n + e2.length + 9) k := by
    apply (endobj_follows_iff s _ k hstopl).2
    refine ⟨gap, tail, hgap, ?_, hk⟩
    have hl : (pre ++ payload ++ e2 ++ Framing.kwEndstream).length = st + n + e2.length + 9 := by
      simp only [List.length_append, Framing.kwEndstream, List.length_cons, List.length_nil]; omega
    have hs1 : s = (pre ++ payload ++ e2 ++ Framing.kwEndstream) ++ (gap ++ Indirect.kwEndobj ++ tail) := by
      rw [hs]; simp only [List.append_assoc]; rfl
    conv => lhs; rw [hs1]
    rw [List.drop_left' hl]
  have hint := (stream_framing c s start hj0 hwf hd j c kvs u p hhead hdict hws hkw ind k c2).2
    ⟨n, payload, st, st + n + e2.length + 9, (streamLength_ok_iff _ _ _).2 hlen, hfr, hend,
      by rw [hnum, hgen]; exact hnew, by rw [hnum, hgen, hds]; exact hind, by rw [hnum, hgen, hds]; exact hc2⟩
  constructor
  · unfold parseIndirect
    rw [h0]
    exact hint
  · rw [hind]

/-- **C05, accept iff framed, whole parser.**  `parse_pdf_indirect_obj` returns a stream object with
    dictionary `kvs` and data (`st`, `n`, `payload`) **iff** the buffer has the declarative shape
    `StreamObjFramed`: head, `n` arbitrary bytes, optional end-of-line, `endstream`, white space,
    `endobj` — with the declared length resolving to `n` and a new identifier. -/
theorem indirect_stream_framing (c : Ctx) (s : Bytes) (i : Nat) (hi : i ≤ s.length) (hwf : CtxWF c)
    (ind : Located Indirect) (k : Nat) (c2 : Ctx) (kvs : List (Bytes × Obj)) (st n : Nat) (payload : Bytes) :
    (parseIndirect c s i = ((.ok ind, k), c2) ∧ ind.val.obj.val = .stream kvs ⟨st, n, payload⟩) ↔
      StreamObjFramed c s i kvs st n payload ind k c2 :=
  ⟨fun h => indirect_stream_framed_of_ok c s i hi hwf ind k c2 kvs st n payload h.1 h.2,
   indirect_stream_ok_of_framed c s i hwf ind k c2 kvs st n payload⟩

/-! ## no resynchronisation, whole parser -/

/-- **C05, no resynchronisation, whole parser.**  Suppose `parse_pdf_indirect_obj` accepts a stream
    object whose data are the `n` bytes at `st` (by `indirect_stream_framing` that is: every buffer of
    the shape `n g obj <<d>> stream EOL <n bytes> [CR][LF] endstream ws endobj`).  Replace those `n`
    bytes by ANY other `n` bytes `w` — containing `endstream`, `endobj`, `stream`, anything.  Then the
    parser accepts again and only the content field changes: same identifier, same dictionary, same
    start/size, same spans, same cursor; the context binds the identifier to that object. -/
theorem indirect_stream_no_resync (c : Ctx) (s : Bytes) (i : Nat) (hi : i ≤ s.length) (hwf : CtxWF c)
    (ind : Located Indirect) (k : Nat) (c2 : Ctx) (kvs : List (Bytes × Obj)) (st n : Nat) (payload : Bytes)
    (h : parseIndirect c s i = ((.ok ind, k), c2)) (hst : ind.val.obj.val = .stream kvs ⟨st, n, payload⟩)
    (w : Bytes) (hw : w.length = n) :
    s = s.take st ++ payload ++ s.drop (st + n) ∧ payload.length = n ∧ st + n ≤ s.length ∧
    parseIndirect c (s.take st ++ w ++ s.drop (st + n)) i =
      ((.ok ⟨⟨ind.val.num, ind.val.gen,
              ⟨.stream kvs ⟨st, n, w⟩, ind.val.obj.start, ind.val.obj.stop⟩⟩, ind.start, ind.stop⟩, k),
       { c2 with defs := (defsInsert (ind.val.num, ind.val.gen)
                            ⟨.stream kvs ⟨st, n, w⟩, ind.val.obj.start, ind.val.obj.stop⟩ c.defs).2 }) := by
  obtain ⟨pre, e2, gap, tail, start, num, gen, dstart, hs, hsh, hlen, hn, hstl, he2, hstrict, hgap, hnew, hk, hind, hc2⟩ :=
    (indirect_stream_framed_of_ok c s i hi hwf ind k c2 kvs st n payload h hst).witness
  have hs' : s = pre ++ (payload ++ (e2 ++ Framing.kwEndstream ++ gap ++ Framing.kwEndobj ++ tail)) := by
    rw [hs]; simp only [List.append_assoc]
  have htake : s.take st = pre := by rw [hs', hstl, List.take_left' rfl]
  have hdrop : s.drop (st + n) = e2 ++ Framing.kwEndstream ++ gap ++ Framing.kwEndobj ++ tail := by
    have hl : (pre ++ payload).length = st + n := by rw [List.length_append]; omega
    conv => lhs; rw [hs', ← List.append_assoc]
    rw [List.drop_left' hl]
  refine ⟨?_, hn, ?_, ?_⟩
  · rw [htake, hdrop]; conv => lhs; rw [hs']
    simp only [List.append_assoc]
  · rw [hs, hstl, ← hn]; simp only [List.length_append]; omega
  · rw [htake, hdrop, hind, hc2]
    have hfr : StreamObjFramed c (pre ++ w ++ (e2 ++ Framing.kwEndstream ++ gap ++ Framing.kwEndobj ++ tail)) i kvs st n w
        ⟨⟨num, gen, ⟨.stream kvs ⟨st, n, w⟩, dstart, st + n + e2.length + 9⟩⟩, start, k⟩ k
        { c with defs := (defsInsert (num, gen) ⟨.stream kvs ⟨st, n, w⟩, dstart, st + n + e2.length + 9⟩ c.defs).2 } :=
      ⟨pre, e2, gap, tail, start, num, gen, dstart, by simp only [List.append_assoc], hsh, hlen, hw, hstl, he2, hstrict,
        hgap, hnew, hk, rfl, rfl⟩
    exact (indirect_stream_ok_of_framed c _ i hwf _ k _ kvs st n w hfr).1

/-! ## no resynchronisation for every outcome (accepted or rejected) -/

/-- put other bytes into the content field of a stream object -/
def withContent (w : Bytes) (o : Located Obj) : Located Obj :=
  match o.val with
  | .stream kvs sc => ⟨.stream kvs ⟨sc.start, sc.size, w⟩, o.start, o.stop⟩
  | _ => o

/-- … of the object of a parse result; errors (kind and cursor) are left as they are -/
def indWithContent (w : Bytes) : Res (Located Indirect) × Nat → Res (Located Indirect) × Nat
  | (.ok ind, k) => (.ok ⟨⟨ind.val.num, ind.val.gen, withContent w ind.val.obj⟩, ind.start, ind.stop⟩, k)
  | r => r

/-- the definitions up to the content fields of the stream objects they bind -/
def eraseDefs (m : Defs) : Defs := m.map fun kv => (kv.1, withContent [] kv.2)

theorem defsInsert_old_indep (k : ObjId) (v v' : Located Obj) (m : Defs) :
    (defsInsert k v m).1 = (defsInsert k v' m).1 := by
  induction m with
  | nil => rfl
  | cons a t ih =>
    obtain ⟨k', x⟩ := a
    unfold defsInsert
    split
    · rfl
    · split
      · simp only; exact ih
      · rfl

theorem eraseDefs_insert (k : ObjId) (v : Located Obj) (m : Defs) :
    eraseDefs (defsInsert k v m).2 = (defsInsert k (withContent [] v) (eraseDefs m)).2 := by
  induction m with
  | nil => rfl
  | cons a t ih =>
    obtain ⟨k', x⟩ := a
    simp only [eraseDefs, List.map_cons]
    unfold defsInsert
    split
    · simp
    · split
      · simp only [List.map_cons, List.cons.injEq, true_and]; exact ih
      · simp

/-- `StreamContentP` on a buffer with an explicit data window, in closed form -/
theorem streamContentP_window (strict : Bool) (head e1 w post : Bytes) (he : e1 ∈ eolsAfterStream) :
    streamContentP w.length strict (head ++ (Prim.kwStream ++ e1 ++ w ++ post)) head.length =
      match closeLen strict post with
      | some k => (.ok ⟨⟨head.length + (6 + e1.length), w.length, w⟩, head.length,
                    head.length + (6 + e1.length + w.length + k)⟩, head.length + (6 + e1.length + w.length + k))
      | none => (.err .guard, head.length) := by
  have a1 := streamContentP_shift w.length strict head (Prim.kwStream ++ e1 ++ w ++ post) 0
  rw [Nat.add_zero] at a1
  rw [a1, streamContentP_closed _ strict e1 w post he rfl]
  cases closeLen strict post <;> simp [shiftSC]

/-- behind two prefixes of the same length, `WhitespaceEOL` and `exact` behave identically -/
theorem behind_agree (A1 A2 post : Bytes) (hA : A2.length = A1.length) (e : Nat) (he : A1.length ≤ e) (tag : Bytes) :
    wsEOL true (A2 ++ post) e = wsEOL true (A1 ++ post) e ∧
    exact tag (A2 ++ post) e = exact tag (A1 ++ post) e := by
  obtain ⟨d, rfl⟩ : ∃ d, e = A1.length + d := ⟨e - A1.length, by omega⟩
  constructor
  · rw [Parsley.Shift.wsEOL_pre A1 post d true]
    rw [← hA, Parsley.Shift.wsEOL_pre A2 post d true]
  · rw [Parsley.Shift.exact_pre A1 post d tag]
    rw [← hA, Parsley.Shift.exact_pre A2 post d tag]

theorem indirectFinish_swap (c : Ctx) (A1 A2 post : Bytes) (hA : A2.length = A1.length) (e : Nat)
    (he : A1.length ≤ e) (hel : e ≤ (A1 ++ post).length)
    (start num gen : Nat) (o : Located Obj) (w : Bytes) :
    (indirectFinish c (A2 ++ post) start num gen (withContent w o) e).1 =
      indWithContent w (indirectFinish c (A1 ++ post) start num gen o e).1 ∧
    eraseDefs (indirectFinish c (A2 ++ post) start num gen (withContent w o) e).2.defs =
      eraseDefs (indirectFinish c (A1 ++ post) start num gen o e).2.defs ∧
    (indirectFinish c (A2 ++ post) start num gen (withContent w o) e).2.cur = (indirectFinish c (A1 ++ post) start num gen o e).2.cur := by
  unfold indirectFinish
  rw [(behind_agree A1 A2 post hA e he []).1]
  have pw := wsEOL_progress true (A1 ++ post) e hel
  cases hws : wsEOL true (A1 ++ post) e with
  | mk r q =>
    rw [hws] at pw
    cases r with
    | err k => exact ⟨rfl, rfl, rfl⟩
    | panic p => exact ⟨rfl, rfl, rfl⟩
    | ok u =>
      simp only
      rw [(behind_agree A1 A2 post hA q (by have := pw.1; omega) Indirect.kwEndobj).2]
      cases hex : exact Indirect.kwEndobj (A1 ++ post) q with
      | mk b e' =>
        cases b with
        | false => exact ⟨rfl, rfl, rfl⟩
        | true =>
          simp only
          have h1 := defsInsert_old_indep (num, gen) (withContent w o) o c.defs
          have h2 : eraseDefs (defsInsert (num, gen) (withContent w o) c.defs).2 =
              eraseDefs (defsInsert (num, gen) o c.defs).2 := by
            rw [eraseDefs_insert, eraseDefs_insert]
            congr 2
            unfold withContent
            cases o with
            | mk v a b => cases v <;> rfl
          cases hi1 : defsInsert (num, gen) (withContent w o) c.defs with
          | mk old1 d1 =>
            cases hi2 : defsInsert (num, gen) o c.defs with
            | mk old2 d2 =>
              rw [hi1, hi2] at h1 h2
              simp only at h1 h2
              subst h1
              cases old1 with
              | none => exact ⟨rfl, h2, rfl⟩
              | some x => exact ⟨rfl, h2, rfl⟩

/-- `parse_pdf_indirect_obj` on a stream-object head followed by a data window of the declared
    length, in closed form: everything that is left to do happens behind the window -/
theorem parseIndirect_window (c : Ctx) (hc : c.cur ≤ c.max) (pre w post : Bytes) (i start : Nat)
    (u0 : Located Unit) (hd : Head) (j : Nat) (u : Located Unit) (p : Nat) (e1 : Bytes) (kvs : List (Bytes × Obj))
    (h0 : wsEOL true pre i = (.ok u0, start)) (hhead : indirectHead c pre start = ((.ok hd, j), c))
    (hdict : hd.o.val = .dict kvs) (hws : wsEOL true pre j = (.ok u, p))
    (hdrop : pre.drop p = Framing.kwStream ++ e1) (he1 : e1 ∈ eolsAfterStream)
    (hlen : streamLength c.defs kvs = .ok w.length) :
    parseIndirect c (pre ++ w ++ post) i =
      match closeLen c.eol post with
      | none => ((.err .guard, p), c)
      | some k0 => indirectFinish c (pre ++ w ++ post) start hd.num hd.gen
          ⟨.stream kvs ⟨pre.length, w.length, w⟩, hd.o.start, pre.length + w.length + k0⟩ (pre.length + w.length + k0) := by
  obtain ⟨hp, hpl, hpre, -⟩ := tail_facts hdrop he1
  -- locality: the head parses on the whole buffer as it does on `pre`
  have hi := wsEOL_ok_in h0
  have w0 := wsEOL_progress true pre i hi
  rw [h0] at w0
  obtain ⟨a1, a2, -⟩ := w0
  obtain ⟨b1, b2⟩ := indirectHead_progress c pre start hd j c a2 hc hhead
  have w1 := wsEOL_progress true pre j b2
  rw [hws] at w1
  obtain ⟨d1, d2, -⟩ := w1
  have htt : pre.take pre.length = (pre ++ w ++ post).take pre.length := by
    rw [List.append_assoc, List.take_left' rfl, List.take_length]
  have hle : pre.length ≤ (pre ++ w ++ post).length := by simp only [List.length_append]; omega
  have hR : peek pre (pre.length - 1) ≠ some 82 := by rw [(tail_facts hdrop he1).2.2.2]; decide
  have g0 := tok_local (wsEOL_trunc true) (wsEOL_Ext true) pre (pre ++ w ++ post) i pre.length u0 start hle htt hi h0 (by omega)
  have g1 := indirectHead_local c pre (pre ++ w ++ post) start pre.length hd j c (Nat.le_refl _) hle htt a2 hc hhead (by omega) hR
      (by rintro ⟨z, hz⟩; rw [hdict] at hz; cases hz)
  have g2 := tok_local (wsEOL_trunc true) (wsEOL_Ext true) pre (pre ++ w ++ post) j pre.length u p hle htt b2 hws (by omega)
  have hlp : (pre.take p).length = p := by rw [List.length_take]; omega
  have hbuf : pre ++ w ++ post = pre.take p ++ (Prim.kwStream ++ e1 ++ w ++ post) := by
    conv => lhs; rw [hpre]
    simp only [List.append_assoc]
    rfl
  have hkw : startsWith Prim.kwStream (pre ++ w ++ post) p = true := by
    rw [hbuf]
    have := Parsley.Shift.startsWith_pre (pre.take p) (Prim.kwStream ++ e1 ++ w ++ post) 0 Prim.kwStream
    rw [hlp, Nat.add_zero] at this
    rw [this]
    simp [startsWith, Prim.kwStream]
  have hsc : streamContentP w.length c.eol (pre ++ w ++ post) p =
      match closeLen c.eol post with
      | some k => (.ok ⟨⟨pre.length, w.length, w⟩, p, pre.length + w.length + k⟩, pre.length + w.length + k)
      | none => (.err .guard, p) := by
    have := streamContentP_window c.eol (pre.take p) e1 w post he1
    rw [hlp, ← hbuf] at this
    rw [this]
    cases closeLen c.eol post with
    | none => rfl
    | some k =>
      have e1' : p + (6 + e1.length) = pre.length := by omega
      have e2' : p + (6 + e1.length + w.length + k) = pre.length + w.length + k := by omega
      simp only [e1', e2']
  unfold parseIndirect
  rw [g0]
  simp only
  rw [internal_stream_eq c (pre ++ w ++ post) start hd j c kvs u p g1 hdict g2 hkw, hlen]
  simp only
  rw [hsc]
  cases closeLen c.eol post <;> rfl

/-- **C05, no resynchronisation, every outcome.**  Let `pre` be a stream-object head
    (`[ws] num gen obj <<kvs>> [ws] stream EOL`) whose declared length resolves to `n`.  For ANY two
    windows `w1`, `w2` of `n` bytes and ANY continuation `post`, the parser does on `pre ++ w2 ++ post`
    what it does on `pre ++ w1 ++ post`: the same error kind at the same cursor, or the same indirect
    object with `w2` in the content field — and the contexts agree up to that content field.  Whether
    the object is accepted depends on `post` only; the bytes of the window are never inspected. -/
theorem indirect_stream_no_resync_outcome (c : Ctx) (hc : c.cur ≤ c.max) (pre w1 w2 post : Bytes)
    (i start num gen : Nat) (kvs : List (Bytes × Obj)) (dstart : Nat)
    (hsh : StreamHead c pre i start num gen kvs dstart)
    (hlen : streamLength c.defs kvs = .ok w1.length) (hw : w2.length = w1.length) :
    (parseIndirect c (pre ++ w2 ++ post) i).1 = indWithContent w2 (parseIndirect c (pre ++ w1 ++ post) i).1 ∧
    eraseDefs (parseIndirect c (pre ++ w2 ++ post) i).2.defs =
      eraseDefs (parseIndirect c (pre ++ w1 ++ post) i).2.defs ∧
    (parseIndirect c (pre ++ w2 ++ post) i).2.cur = (parseIndirect c (pre ++ w1 ++ post) i).2.cur := by
  obtain ⟨u0, hd, j, u, p, e1, h0, hhead, hnum, hgen, hdict, hds, hws, hdrop, he1⟩ := hsh
  rw [parseIndirect_window c hc pre w1 post i start u0 hd j u p e1 kvs h0 hhead hdict hws hdrop he1 hlen,
    parseIndirect_window c hc pre w2 post i start u0 hd j u p e1 kvs h0 hhead hdict hws hdrop he1 (by rw [hw]; exact hlen)]
  cases hcl : closeLen c.eol post with
  | none => exact ⟨rfl, rfl, rfl⟩
  | some k0 =>
    simp only
    obtain ⟨e2, -, tail, hpost, hk0, -⟩ := (closeLen_iff c.eol post k0).1 hcl
    have hel : pre.length + w1.length + k0 ≤ (pre ++ w1 ++ post).length := by
      rw [hpost]; simp only [List.length_append, Prim.kwEndstream, List.length_cons, List.length_nil]; omega
    have := indirectFinish_swap c (pre ++ w1) (pre ++ w2) post (by simp only [List.length_append]; omega)
      (pre.length + w1.length + k0) (by simp only [List.length_append]; omega) hel start hd.num hd.gen
      ⟨.stream kvs ⟨pre.length, w1.length, w1⟩, hd.o.start, pre.length + w1.length + k0⟩ w2
    rw [hw]
    exact this

/-! ## the white space between `endstream` and `endobj`, declaratively -/

/-- **C05, white space.**  `WhitespaceEOL` (which never fails) moves the cursor from `j` to `q` iff the
    bytes in between are a `Gap` in front of the rest: a maximal run of white-space bytes and
    LF-terminated comments (or, at the very end of the buffer only, such a run and an open comment). -/
theorem endobj_gap_grammar (s : Bytes) (j q : Nat) (hj : j ≤ s.length) :
    (∃ u, wsEOL true s j = (.ok u, q)) ↔
      ∃ w rest, s.drop j = w ++ rest ∧ q = j + w.length ∧ Gap w rest :=
  wsEOL_accepts_exactly s j q hj

/-- **C05, `endobj` follows.**  The parser finds `endobj` behind position `j` and stops at `k` iff the
    bytes at `j` are a white-space run `w` (grammar `WsRun`: white-space bytes and LF-terminated
    comments) followed by the keyword, and `k` is just behind it. -/
theorem endobj_follows_grammar (s : Bytes) (j k : Nat) (hj : j ≤ s.length) :
    EndobjFollows s j k ↔
      ∃ w tail, WsRun w ∧ s.drop j = w ++ Framing.kwEndobj ++ tail ∧ k = j + w.length + 6 :=
  endobj_follows_iff s j k hj

/-! ## non-vacuity of the whole-parser theorems -/

theorem ctxNew_wf (m : Nat) : CtxWF (Ctx.new m) := ⟨Nat.zero_le _, List.Pairwise.nil⟩

/-- the adversarial buffer is accepted as a stream object with data (28, 19, `endstream endobj xx`) -/
theorem advBuf_accepted : ∃ ind k c2 kvs, parseIndirect (Ctx.new 10) advBuf 0 = ((.ok ind, k), c2) ∧
    ind.val.obj.val = .stream kvs ⟨28, 19, advPayload⟩ := by
  have hb : (match (parseIndirect (Ctx.new 10) advBuf 0).1 with
    | (.ok v, k) => (match v.val.obj.val with
        | .stream _ sc => sc.start == 28 && sc.size == 19 && sc.content == advPayload && k == 64
        | _ => false)
    | _ => false) = true := by decide +kernel
  cases h : parseIndirect (Ctx.new 10) advBuf 0 with
  | mk rk c2 =>
    obtain ⟨r, k⟩ := rk
    rw [h] at hb
    cases r with
    | ok v =>
      simp only at hb
      cases hv : v.val.obj.val with
      | stream kvs sc =>
        rw [hv] at hb
        obtain ⟨a, b, cc⟩ := sc
        simp only [Bool.and_eq_true, beq_iff_eq] at hb
        obtain ⟨⟨⟨rfl, rfl⟩, rfl⟩, -⟩ := hb
        exact ⟨v, k, c2, kvs, rfl, hv⟩
      | _ => rw [hv] at hb; simp at hb
    | err e => simp at hb
    | panic m => simp at hb

/-- `indirect_stream_framing`, left to right, on the adversarial buffer: it has the declarative shape
    (in particular `StreamHead` is inhabited) -/
example : ∃ ind k c2 kvs, StreamObjFramed (Ctx.new 10) advBuf 0 kvs 28 19 advPayload ind k c2 := by
  obtain ⟨ind, k, c2, kvs, h, hst⟩ := advBuf_accepted
  exact ⟨ind, k, c2, kvs, indirect_stream_framed_of_ok _ _ _ (by decide) (ctxNew_wf 10) _ _ _ _ _ _ _ h hst⟩

/-- 19 other bytes, again full of framing keywords: `endobj endstream\nxx` -/
def advPayload2 : Bytes := ([101, 110, 100, 111, 98, 106, 32, 101, 110, 100, 115, 116, 114, 101, 97, 109, 10, 120, 120] : Bytes)

/-- `indirect_stream_no_resync` applied: the buffer with the other 19 bytes is accepted with exactly
    those bytes as content, everything else unchanged -/
example : ∃ ind k c2 kvs, parseIndirect (Ctx.new 10) (advBuf.take 28 ++ advPayload2 ++ advBuf.drop (28 + 19)) 0 =
    ((.ok ind, k), c2) ∧ ind.val.obj.val = .stream kvs ⟨28, 19, advPayload2⟩ ∧ k = 64 := by
  obtain ⟨ind, k, c2, kvs, h, hst⟩ := advBuf_accepted
  have hk : k = 64 := by
    have hb : (match (parseIndirect (Ctx.new 10) advBuf 0).1 with
      | (.ok _, k) => k == 64 | _ => false) = true := by decide +kernel
    rw [h] at hb; simpa using hb
  obtain ⟨-, -, -, h2⟩ := indirect_stream_no_resync _ _ _ (by decide) (ctxNew_wf 10) _ _ _ _ _ _ _ h hst advPayload2 rfl
  exact ⟨_, _, _, kvs, h2, rfl, hk⟩

-- … and the evaluation of the model agrees with the theorem (a test, by evaluation)
example : (match (parseIndirect (Ctx.new 10) (advBuf.take 28 ++ advPayload2 ++ advBuf.drop (28 + 19)) 0).1 with
    | (.ok v, k) => (match v.val.obj.val with
        | .stream _ sc => sc.start == 28 && sc.size == 19 && sc.content == advPayload2 && k == 64
        | _ => false)
    | _ => false) = true := by decide +kernel

/-- `indirect_stream_no_resync_outcome` applied to a REJECTED object: behind the head of `advBuf`
    (declared length 19) put any two 19-byte windows and a continuation without `endstream`; both
    are rejected with the same error at the same cursor -/
example (w1 w2 : Bytes) (h1 : w1.length = 19) (h2 : w2.length = 19) :
    (parseIndirect (Ctx.new 10) (advBuf.take 28 ++ w2 ++ [120, 120]) 0).1 =
      indWithContent w2 (parseIndirect (Ctx.new 10) (advBuf.take 28 ++ w1 ++ [120, 120]) 0).1 := by
  obtain ⟨ind, k, c2, kvs, h, hst⟩ := advBuf_accepted
  obtain ⟨pre, e2, gap, tail, start, num, gen, dstart, hs, hsh, hlen, hn, hstl, -⟩ :=
    (indirect_stream_framed_of_ok _ _ _ (by decide) (ctxNew_wf 10) _ _ _ _ _ _ _ h hst).witness
  have hpre : advBuf.take 28 = pre := by
    have : advBuf = pre ++ (advPayload ++ e2 ++ Framing.kwEndstream ++ gap ++ Framing.kwEndobj ++ tail) := by
      rw [hs]; simp only [List.append_assoc]
    rw [this, hstl, List.take_left' rfl]
  rw [hpre]
  exact (indirect_stream_no_resync_outcome (Ctx.new 10) (Nat.zero_le _) pre w1 w2 [120, 120] 0 start num gen kvs dstart hsh
    (by rw [h1]; exact (streamLength_ok_iff _ _ _).2 hlen) (by omega)).1

/-- the white space in front of `endobj` may hide the keyword in a comment: the grammar finds the real one -/
example : EndobjFollows [62, 62, 9, 37, 101, 110, 100, 111, 98, 106, 10, 101, 110, 100, 111, 98, 106, 10] 2 17 :=
  (endobj_follows_grammar _ 2 17 (by decide)).2
    ⟨[9, 37, 101, 110, 100, 111, 98, 106, 10], [10],
      WsRun.ws 9 _ (by decide) (WsRun.comment [101, 110, 100, 111, 98, 106] [] (by decide) WsRun.nil),
      rfl, rfl⟩

/-! ## length errors, whole parser -/

/-- **C05, length errors, whole parser.**  Behind a stream-object head whose declared length does not
    resolve (`LenRes … (.err k)`: missing, negative, not an integer, reference to a non-integer ⇒ guard
    error; reference to an object not yet seen ⇒ InsufficientContext), `parse_pdf_indirect_obj`
    returns exactly that error with the cursor on the `stream` keyword and the context untouched —
    whatever bytes follow the head: nothing is guessed, nothing is scanned. -/
theorem indirect_length_error (c : Ctx) (hc : c.cur ≤ c.max) (pre rest : Bytes) (i start num gen : Nat)
    (kvs : List (Bytes × Obj)) (dstart : Nat) (hsh : StreamHead c pre i start num gen kvs dstart)
    (k : ErrK) (hlen : LenRes (lookOf c.defs) (dictGet keyLength kvs) (.err k)) :
    ∃ p e1, e1 ∈ eolsAfterStream ∧ pre.length = p + 6 + e1.length ∧
      parseIndirect c (pre ++ rest) i = ((.err k, p), c) := by
  obtain ⟨u0, hd, j, u, p, e1, h0, hhead, -, -, hdict, -, hws, he1, hpre, hp, hpl⟩ :=
    parse_of_streamHead c pre rest i start num gen kvs dstart hc hsh
  have hlp : (pre.take p).length = p := by rw [List.length_take]; omega
  have hkw : startsWith Prim.kwStream (pre ++ rest) p = true := by
    have hbuf : pre ++ rest = pre.take p ++ (Prim.kwStream ++ (e1 ++ rest)) := by
      conv => lhs; rw [hpre]
      simp only [List.append_assoc]
      rfl
    rw [hbuf]
    have := Parsley.Shift.startsWith_pre (pre.take p) (Prim.kwStream ++ (e1 ++ rest)) 0 Prim.kwStream
    rw [hlp, Nat.add_zero] at this
    rw [this]
    simp [startsWith, Prim.kwStream]
  have hl : streamLength c.defs kvs = .err k := lenRes_functional (length_resolution c.defs kvs) hlen
  refine ⟨p, e1, he1, hpl, ?_⟩
  unfold parseIndirect
  rw [h0]
  exact length_error_propagates c (pre ++ rest) start hd j c kvs u p k hhead hdict hws hkw hl

/-- the head parser does not look at the definitions -/
theorem indirectHead_defs (c : Ctx) (d : Defs) (s : Bytes) (i : Nat) :
    indirectHead { c with defs := d } s i =
      ((indirectHead c s i).1, { (indirectHead c s i).2 with defs := d }) := by
  unfold indirectHead
  cases integerP s i with
  | mk r j =>
  cases r with
  | err k => rfl
  | panic p => rfl
  | ok num =>
  dsimp only
  cases (!isUsize num.val) with
  | true => rfl
  | false =>
  simp only [Bool.false_eq_true, if_false]
  cases wsEOL true s j with
  | mk r j1 =>
  cases r with
  | err k => rfl
  | panic p => rfl
  | ok u =>
  dsimp only
  cases integerP s j1 with
  | mk r j2 =>
  cases r with
  | err k => rfl
  | panic p => rfl
  | ok gen =>
  dsimp only
  cases (!(gen.val == 0 || isUsize gen.val)) with
  | true => rfl
  | false =>
  simp only [Bool.false_eq_true, if_false]
  cases wsEOL true s j2 with
  | mk r j3 =>
  cases r with
  | err k => rfl
  | panic p => rfl
  | ok u2 =>
  dsimp only
  cases exact Indirect.kwObj s j3 with
  | mk b j4 =>
  cases b with
  | false => rfl
  | true =>
  dsimp only
  cases wsEOL true s j4 with
  | mk r j5 =>
  cases r with
  | err k => rfl
  | panic p => rfl
  | ok u3 =>
  dsimp only
  cases parseObj ⟨c.cur, c.max⟩ s j5 with
  | mk r dd =>
  obtain ⟨r, j6⟩ := r
  cases r <;> rfl

/-- … so `StreamHead` depends on the context only through its depth fields -/
theorem streamHead_defs (c : Ctx) (d : Defs) (pre : Bytes) (i start num gen : Nat) (kvs : List (Bytes × Obj))
    (dstart : Nat) (h : StreamHead c pre i start num gen kvs dstart) :
    StreamHead { c with defs := d } pre i start num gen kvs dstart := by
  obtain ⟨u0, hd, j, u, p, e1, h0, hhead, h1, h2, h3, h4, h5, h6, h7⟩ := h
  exact ⟨u0, hd, j, u, p, e1, h0, by rw [indirectHead_defs, hhead], h1, h2, h3, h4, h5, h6, h7⟩

/-- `1 0 obj<</Length 9 0 R>>stream LF abcd LF endstream endobj` -/
def refBuf : Bytes := ([49, 32, 48, 32, 111, 98, 106, 60, 60, 47, 76, 101, 110, 103, 116, 104, 32, 57, 32, 48, 32, 82, 62, 62, 115, 116, 114, 101, 97, 109, 10, 97, 98, 99, 100, 10, 101, 110, 100, 115, 116, 114, 101, 97, 109, 32, 101, 110, 100, 111, 98, 106] : Bytes)
/-- a context in which `9 0` is the integer 4 -/
def refCtx : Ctx := ⟨[((9, 0), ⟨.int 4, 0, 1⟩)], 0, 10, false⟩

theorem refBuf_accepted : ∃ ind k c2 kvs payload, parseIndirect refCtx refBuf 0 = ((.ok ind, k), c2) ∧
    ind.val.obj.val = .stream kvs ⟨31, 4, payload⟩ ∧ dictGet keyLength kvs = some (.ref 9 0) := by
  have hb : (match (parseIndirect refCtx refBuf 0).1 with
    | (.ok v, _) => (match v.val.obj.val with
        | .stream kvs sc => sc.start == 31 && sc.size == 4 &&
            (match dictGet keyLength kvs with | some (.ref 9 0) => true | _ => false)
        | _ => false)
    | _ => false) = true := by decide +kernel
  cases h : parseIndirect refCtx refBuf 0 with
  | mk rk c2 =>
    obtain ⟨r, k⟩ := rk
    rw [h] at hb
    cases r with
    | ok v =>
      simp only at hb
      cases hv : v.val.obj.val with
      | stream kvs sc =>
        rw [hv] at hb
        obtain ⟨a, b, cc⟩ := sc
        simp only [Bool.and_eq_true, beq_iff_eq] at hb
        obtain ⟨⟨rfl, rfl⟩, hg⟩ := hb
        refine ⟨v, k, c2, kvs, cc, rfl, hv, ?_⟩
        split at hg
        · assumption
        · cases hg
      | _ => rw [hv] at hb; simp at hb
    | err e => simp at hb
    | panic m => simp at hb

/-- `indirect_length_error` applied: the same head in a context that does not define `9 0` yet is
    reported as needing more context, whatever follows the head -/
example : ∃ pre : Bytes, pre = refBuf.take 31 ∧ ∀ rest : Bytes, ∃ p,
    parseIndirect (Ctx.new 10) (pre ++ rest) 0 = ((.err .ctx, p), Ctx.new 10) := by
  obtain ⟨ind, k, c2, kvs, payload, h, hst, hg⟩ := refBuf_accepted
  have hwf : CtxWF refCtx := ⟨Nat.zero_le _, List.pairwise_singleton _ _⟩
  obtain ⟨pre, e2, gap, tail, start, num, gen, dstart, hs, hsh, hlen, hn, hstl, -⟩ :=
    (indirect_stream_framed_of_ok _ _ _ (by decide) hwf _ _ _ _ _ _ _ h hst).witness
  have hpre : refBuf.take 31 = pre := by
    have : refBuf = pre ++ (payload ++ e2 ++ Framing.kwEndstream ++ gap ++ Framing.kwEndobj ++ tail) := by
      rw [hs]; simp only [List.append_assoc]
    rw [this, hstl, List.take_left' rfl]
  refine ⟨pre, hpre.symm, fun rest => ?_⟩
  have hsh' : StreamHead (Ctx.new 10) pre 0 start num gen kvs dstart := streamHead_defs refCtx [] pre 0 start num gen kvs dstart hsh
  obtain ⟨p, e1, -, -, hp⟩ := indirect_length_error (Ctx.new 10) (Nat.zero_le _) pre rest 0 start num gen kvs dstart hsh' .ctx
    (by rw [hg]; exact .refUndefined 9 0 rfl)
  exact ⟨p, hp⟩

end Parsley.C05
