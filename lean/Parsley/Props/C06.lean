/-
  C06 — Stream filter decoding is the exact inverse of encoding.
  Property theorems about the model `Parsley.Filters` (Model/Filters.lean, Model/Inflate.lean)
  against the declarative encodings of `Parsley.FiltersSpec` (Spec/Filters.lean).
  All statements are universally quantified (no size bounds).

  Obligations (checklib/props/C06.py):
    hex_roundtrip, chain_roundtrip, decode_stream_roundtrip, flate_glue_complete, flate_glue_rejects,
    dict_pruned, filters_shape, corrupt_is_error, and the witnesses of the repaired defects
    (flate_old_glue_truncates, hex_old_witness, hex_old_parity_witness, a85_old_witness)      — this file;
    a85_roundtrip (+ a85_instance, encodeA85_conformant, a85_decode_encode)                    — Lemmas/FiltersA85.lean;
    inflate_stored_roundtrip, adler_model_eq_spec (+ example)                                  — Lemmas/FiltersInflate.lean;
    ASCII85 rejection side (a85Decode_cases, a85_illegal_char_any, a85_uniws_interior, a85_stray_tilde,
    a85_z_inside_group(_spec), a85_group_overflow, a85_single_digit_final, a85Crate_leading_uniws)
                                                                                               — Lemmas/A85Reject.lean;
    rejection of damaged stored-block zlib streams (inflate_stored_truncated, inflate_stored_adler_*,
    inflate_stored_len_*, inflate_header_*)                                                    — Lemmas/InflateReject.lean;
    fixed-Huffman round trip (inflate_fixed_roundtrip(_final), inflate_fixed_literals_*,
    inflate_zlibFixedLiterals_roundtrip) over the spec-side encoder Spec/DeflateFixed.lean     — Lemmas/InflateFixed.lean
    (bit reader / code tables: Lemmas/InflateFixedBits.lean);
    DYNAMIC-Huffman round trip and streams mixing stored / fixed / dynamic blocks
    (inflate_blocks_roundtrip over the spec-side encoder Spec/DeflateDyn.lean)                 — Lemmas/InflateDyn.lean
    (canonical-Huffman lemma `canon_code`, `tableOk_*`: Lemmas/InflateDynHuff.lean; header parser round trip
    `dynamicTables_hdr`: Lemmas/InflateDynHdr.lean);
    all of them surfaced at the level of the filter glue below (`a85_corrupt_is_error`,
    `flate_stored_corrupt_is_error`, `flate_fixed_roundtrip`, `LayerEnc.flateFixed`,
    `inflate_dynamic_roundtrip`, `flate_dynamic_roundtrip`, `LayerEnc.flateDyn`).
  NOT a theorem: that the real zlib (an external C library) computes the same function as the Lean
  inflate (`LayerEnc.flateAny` takes the Lean inflate's verdict as hypothesis; the tie to the real
  zlib is the correspondence run), and corruptions of Huffman-coded streams.
-/
import Parsley.Model.Filters
import Parsley.Spec.Filters
import Parsley.Lemmas.FiltersA85
import Parsley.Lemmas.FiltersInflate
import Parsley.Lemmas.A85Reject
import Parsley.Lemmas.InflateReject
import Parsley.Lemmas.InflateFixed
import Parsley.Lemmas.InflateDyn
namespace Parsley.C06
open Parsley Parsley.Filters Parsley.FiltersSpec

/-! ### byte-level facts (all 256 values checked by kernel evaluation) -/

theorem forall_u8 (P : UInt8 → Prop) (h : ∀ n : Fin 256, P (UInt8.ofNat n.val)) : ∀ b, P b := by
  intro b
  have := h ⟨b.toNat, b.toNat_lt⟩
  simpa using this

theorem isWs_eq (b : UInt8) : Filters.isWs b = FiltersSpec.isWs b := rfl

theorem hexdigit_facts : ∀ b : UInt8, (hexVal b).isSome = true →
    Filters.isWs b = false ∧ (b == 0x3E) = false ∧ isHexDigit b = true := by
  apply forall_u8; decide +kernel

theorem nibble_facts : ∀ b : UInt8,
    (match hexVal b with
    | some h => decide (nibble b = some (UInt8.ofNat h)) && decide (h < 16)
    | none => true) = true := by
  apply forall_u8; decide +kernel

theorem combine_facts : ∀ i j : Fin 16,
    (((0 : UInt8) <<< 4 ||| UInt8.ofNat i.val) <<< 4 ||| UInt8.ofNat j.val) = UInt8.ofNat (16 * i.val + j.val) := by
  decide

theorem nibble_of_hexVal {b : UInt8} {h : Nat} (hv : hexVal b = some h) :
    nibble b = some (UInt8.ofNat h) ∧ h < 16 := by
  have := nibble_facts b
  rw [hv] at this
  simpa using this

/-! ### ASCIIHex -/

theorem hexStage_spec (pre post : Bytes)
    (hpre : ∀ b ∈ pre, FiltersSpec.isWs b = true ∨ (hexVal b).isSome = true) :
    ∀ st : Bytes, hexStage (pre ++ 0x3E :: post) st =
      .ok (if ((strip pre).length + st.length) % 2 = 1 then st.reverse ++ strip pre ++ [0x30]
           else st.reverse ++ strip pre) := by
  induction pre with
  | nil =>
    intro st
    simp only [List.nil_append, hexStage, strip, List.filter_nil, List.length_nil, Nat.zero_add, List.append_nil]
    have h1 : Filters.isWs 0x3E = false := by decide
    simp only [h1, Bool.false_eq_true, if_false, beq_self_eq_true, if_true]
    by_cases hp : st.length % 2 = 1
    · simp [hp]
    · simp [hp]
  | cons b t ih =>
    intro st
    have ht : ∀ b ∈ t, FiltersSpec.isWs b = true ∨ (hexVal b).isSome = true :=
      fun x hx => hpre x (List.mem_cons_of_mem _ hx)
    rcases hpre b (List.mem_cons_self) with hw | hd
    · have hw' : Filters.isWs b = true := hw
      simp only [List.cons_append, hexStage, hw', if_true]
      rw [ih ht]
      simp [strip, hw]
    · obtain ⟨h1, h2, h3⟩ := hexdigit_facts b hd
      have hw : FiltersSpec.isWs b = false := h1
      simp only [List.cons_append, hexStage, h1, h2, h3, Bool.false_eq_true, if_false, if_true]
      rw [ih ht]
      simp only [strip, List.filter_cons, hw, Bool.not_false, if_true, List.length_cons, List.reverse_cons,
        List.append_assoc, List.singleton_append]
      have : (List.filter (fun b => !FiltersSpec.isWs b) t).length + (st.length + 1)
           = (List.filter (fun b => !FiltersSpec.isWs b) t).length + 1 + st.length := by omega
      rw [this]

theorem hexPairs_even {ds ps : Bytes} (h : HexPairs ds ps) : ds.length % 2 = 0 := by
  induction h with
  | nil => rfl
  | cons _ _ _ _ ih => simp only [List.length_cons]; omega

theorem hex2binLoop_spec {ds ps : Bytes} (h : HexPairs ds ps) :
    ∀ acc, hex2binLoop ds acc = .ok (acc.reverse ++ ps) := by
  induction h with
  | nil => intro acc; simp [hex2binLoop]
  | @cons a b p hh l ds ps ha hb hp _ ih =>
    intro acc
    obtain ⟨na, la⟩ := nibble_of_hexVal ha
    obtain ⟨nb, lb⟩ := nibble_of_hexVal hb
    simp only [hex2binLoop, na, nb]
    have hc := combine_facts ⟨hh, la⟩ ⟨l, lb⟩
    simp only at hc
    rw [hc, ih]
    have : UInt8.ofNat (16 * hh + l) = p := by
      apply UInt8.toNat_inj.mp
      rw [UInt8.toNat_ofNat', hp]
      omega
    rw [this]
    simp

theorem hex2bin_spec {ds ps : Bytes} (h : HexPairs ds ps) : hex2bin ds (ds.length / 2) = .ok ps := by
  have he := hexPairs_even h
  unfold hex2bin
  simp [he, hex2binLoop_spec h]

/-- **hex_roundtrip.**  Decoding any conformant ASCIIHex encoding — digits of either case, white
    space anywhere, an odd final digit standing for `x0`, anything after the `>` — returns exactly
    the payload. -/
theorem hex_roundtrip (content payload : Bytes) (h : IsHexEncoding content payload) :
    hexDecode content = .ok payload := by
  obtain ⟨pre, post, rfl, hpre, hp⟩ := h
  unfold hexDecode
  rw [hexStage_spec pre post hpre []]
  simp only [List.length_nil, Nat.add_zero, List.reverse_nil, List.nil_append]
  rcases hp with hp | hp
  · have := hexPairs_even hp
    have hne : ¬ (strip pre).length % 2 = 1 := by omega
    simp only [hne, if_false]
    exact hex2bin_spec hp
  · have := hexPairs_even hp
    have hodd : (strip pre).length % 2 = 1 := by
      simp only [List.length_append, List.length_singleton] at this; omega
    simp only [hodd, if_true]
    exact hex2bin_spec hp

/-- the executable encoder used by the generator produces conformant digit strings -/
theorem hexDigitOf_val (u : Bool) : ∀ n : Fin 16, hexVal (hexDigitOf u n.val) = some n.val := by
  cases u <;> decide

theorem encodeHexDigits_pairs (upper : Nat → Bool) (p : Bytes) :
    ∀ i, HexPairs (encodeHexDigits upper i p) p := by
  induction p with
  | nil => intro i; exact .nil
  | cons b t ih =>
    intro i
    simp only [encodeHexDigits]
    have hb := b.toNat_lt
    exact .cons (hexDigitOf_val _ ⟨b.toNat / 16, by omega⟩) (hexDigitOf_val _ ⟨b.toNat % 16, by omega⟩)
      (by show b.toNat = 16 * (b.toNat / 16) + b.toNat % 16; omega) (ih (i + 1))

-- non-vacuity: "4a 6B\n7>junk" is a conformant encoding of [0x4A, 0x6B, 0x70] (mixed case, white space, odd digit)
example : IsHexEncoding [0x34, 0x61, 0x20, 0x36, 0x42, 0x0A, 0x37, 0x3E, 0x6A] [0x4A, 0x6B, 0x70] :=
  ⟨[0x34, 0x61, 0x20, 0x36, 0x42, 0x0A, 0x37], [0x6A], rfl, by decide,
   .inr (.cons (h := 4) (l := 10) (by decide) (by decide) (by decide)
        (.cons (h := 6) (l := 11) (by decide) (by decide) (by decide)
        (.cons (h := 7) (l := 0) (by decide) (by decide) (by decide) .nil)))⟩
example : hexDecode [0x34, 0x61, 0x20, 0x36, 0x42, 0x0A, 0x37, 0x3E, 0x6A] = .ok [0x4A, 0x6B, 0x70] := by decide



/-! ### FlateDecode glue over an arbitrary streaming decoder -/

/-- `Yields D s p`: pulling from state `s` produces non-empty chunks — in whatever sizes the
    decoder likes — whose concatenation is `p`, and then reports end of stream. -/
inductive Yields {σ : Type} (D : StreamDec σ) : σ → Bytes → Prop
  | done {s s' : σ} : D.read s = .ok ([], s') → Yields D s []
  | chunk {s s' : σ} {c rest : Bytes} : D.read s = .ok (c, s') → c ≠ [] → Yields D s' rest → Yields D s (c ++ rest)

/-- `Fails D s`: after any number of chunks the decoder reports an error (truncated or corrupt stream). -/
inductive Fails {σ : Type} (D : StreamDec σ) : σ → Prop
  | now {s : σ} {k : ErrK} : D.read s = .err k → Fails D s
  | later {s s' : σ} {c : Bytes} : D.read s = .ok (c, s') → c ≠ [] → Fails D s' → Fails D s

theorem readToEnd_complete {σ : Type} (D : StreamDec σ) {s : σ} {p : Bytes} (h : Yields D s p) :
    ∀ acc, readToEnd D s acc = .ok (acc ++ p) := by
  induction h with
  | done hr =>
    intro acc
    rw [readToEnd]
    split
    · rename_i c s'' heq
      rw [hr] at heq
      cases heq
      simp
    · rename_i heq; rw [hr] at heq; cases heq
    · rename_i heq; rw [hr] at heq; cases heq
  | chunk hr hc _ ih =>
    intro acc
    rw [readToEnd]
    split
    · rename_i c s'' heq
      rw [hr] at heq
      cases heq
      simp only [hc, dite_false]
      rw [ih]
      simp
    · rename_i heq; rw [hr] at heq; cases heq
    · rename_i heq; rw [hr] at heq; cases heq

theorem readToEnd_fails {σ : Type} (D : StreamDec σ) {s : σ} (h : Fails D s) :
    ∀ acc, ∃ k, readToEnd D s acc = .err k := by
  induction h with
  | now hr =>
    intro acc
    rw [readToEnd]
    split
    · rename_i heq; rw [hr] at heq; cases heq
    · rename_i k' heq; exact ⟨k', rfl⟩
    · rename_i heq; rw [hr] at heq; cases heq
  | later hr hc _ ih =>
    intro acc
    rw [readToEnd]
    split
    · rename_i c s'' heq
      rw [hr] at heq
      cases heq
      simp only [hc, dite_false]
      exact ih _
    · rename_i heq; rw [hr] at heq; cases heq
    · rename_i heq; rw [hr] at heq; cases heq

/-- **flate_glue_complete.**  For *every* streaming decoder that delivers the payload — however it
    chunks its reads — the repaired FlateDecode glue returns exactly the payload (predictor 1).
    (The pre-repair glue falsifies this: `flate_old_glue_truncates`.) -/
theorem flate_glue_complete {σ : Type} (ext : Ext) (D : StreamDec σ) (o : Option Dict) (s : σ) (p : Bytes)
    (hpred : predictorOf o = 1) (h : Yields D s p) : flateGlue ext D o s = .ok p := by
  unfold flateGlue
  rw [readToEnd_complete D h []]
  simp [hpred]

/-- … and if the decoder fails at any point, no partial output is reported as success. -/
theorem flate_glue_rejects {σ : Type} (ext : Ext) (D : StreamDec σ) (o : Option Dict) (s : σ)
    (h : Fails D s) : ∃ k, flateGlue ext D o s = .err k := by
  obtain ⟨k, hk⟩ := readToEnd_fails D h []
  exact ⟨k, by unfold flateGlue; rw [hk]⟩

/-- the zlib instance, for every chunk size -/
theorem zlibDec_yields (chunk : Nat) : ∀ (n : Nat) (d : Bytes), d.length ≤ n → Yields (zlibDec chunk) ⟨d, false⟩ d := by
  intro n
  induction n with
  | zero =>
    intro d hd
    have : d = [] := List.eq_nil_of_length_eq_zero (by omega)
    subst this
    exact .done (s' := ⟨[], false⟩) (by simp [zlibDec])
  | succ n ih =>
    intro d hd
    cases d with
    | nil => exact .done (s' := ⟨[], false⟩) (by simp [zlibDec])
    | cons x t =>
      have hy := ih ((x :: t).drop (chunk + 1)) (by simp only [List.drop_succ_cons, List.length_drop]; simp only [List.length_cons] at hd; omega)
      have := Yields.chunk (D := zlibDec chunk) (s := ⟨x :: t, false⟩) (s' := ⟨(x :: t).drop (chunk + 1), false⟩)
        (c := (x :: t).take (chunk + 1)) (rest := (x :: t).drop (chunk + 1)) (by simp [zlibDec]) (by simp) hy
      rwa [List.take_append_drop] at this

theorem zlibDec_fails (chunk : Nat) : Fails (zlibDec chunk) ⟨[], true⟩ :=
  .now (k := .transform) (by simp [zlibDec])

/-- FlateDecode returns what the zlib decoder decodes, or an error -/
theorem flateDecode_ok (ext : Ext) (o : Option Dict) (input payload : Bytes) (hpred : predictorOf o = 1)
    (h : Inflate.inflate input = .ok payload) : flateDecode ext o input = .ok payload := by
  unfold flateDecode zlibInit
  rw [h]
  exact flate_glue_complete ext _ o _ payload hpred (zlibDec_yields _ _ _ (Nat.le_refl _))

theorem flateDecode_err (ext : Ext) (o : Option Dict) (input : Bytes) (k : ErrK)
    (h : Inflate.inflate input = .err k) : ∃ k', flateDecode ext o input = .err k' := by
  unfold flateDecode zlibInit
  rw [h]
  exact flate_glue_rejects ext _ o _ (zlibDec_fails _)

theorem readToEnd_err_now {σ : Type} (D : StreamDec σ) (s : σ) (k : ErrK) (h : D.read s = .err k) (acc : Bytes) :
    readToEnd D s acc = .err k := by
  rw [readToEnd]
  split
  · rename_i heq; rw [h] at heq; cases heq
  · rename_i k' heq; rw [h] at heq; cases heq; rfl
  · rename_i heq; rw [h] at heq; cases heq

/-- ... and the error is a `TransformError`, whatever the parameters say -/
theorem flateDecode_err_transform (ext : Ext) (o : Option Dict) (input : Bytes) (k : ErrK)
    (h : Inflate.inflate input = .err k) : flateDecode ext o input = .err .transform := by
  unfold flateDecode zlibInit
  rw [h]
  simp only
  unfold flateGlue
  rw [readToEnd_err_now (zlibDec 32767) ⟨[], true⟩ .transform (by simp [zlibDec])]

-- non-vacuity: a decoder that hands out a 5-byte payload in chunks of 2
example : Yields (zlibDec 1) ⟨[1, 2, 3, 4, 5], false⟩ [1, 2, 3, 4, 5] := zlibDec_yields 1 5 _ (by decide)

/-- **flate_old_glue_truncates** (witness of defects 6/7): the pre-repair glue — one write, then a
    `finish` that does not fail — returns a strict prefix for a perfectly correct decoder. -/
theorem flate_old_glue_truncates :
    ∃ (D : StreamDec ZState) (s : ZState) (p : Bytes), Yields D s p ∧ flateOldGlue D s = .ok [1, 2] ∧ p = [1, 2, 3, 4, 5] :=
  ⟨zlibDec 1, ⟨[1, 2, 3, 4, 5], false⟩, [1, 2, 3, 4, 5], zlibDec_yields 1 5 _ (by decide), by decide, rfl⟩

/-! ### dictionary pruning and /Filter x /DecodeParms -/

/-- **dict_pruned.**  The decoded stream's dictionary answers every key like the original one,
    except that `/Filter` and `/DecodeParms` are gone; order and multiplicity are untouched. -/
theorem lookup_filter (f : Bytes → Bool) (d : Dict) (k : Bytes) :
    lookup k (d.filter fun kv => f kv.1) = if f k then lookup k d else none := by
  induction d with
  | nil => simp [lookup]
  | cons kv t ih =>
    obtain ⟨k', v⟩ := kv
    by_cases hf : f k' = true
    · rw [List.filter_cons_of_pos (by simpa using hf)]
      by_cases hk : k' = k
      · subst hk; simp [lookup, hf]
      · simp only [lookup, hk, if_false, ih]
    · rw [List.filter_cons_of_neg (by simpa using hf)]
      by_cases hk : k' = k
      · subst hk; simp [lookup, hf, ih]
      · simp only [lookup, hk, if_false, ih]

theorem dict_pruned (d : Dict) (k : Bytes) :
    lookup k (prune d) = if k = kFilter ∨ k = kDecodeParms then none else lookup k d := by
  unfold prune
  rw [lookup_filter (fun k => !(k = kFilter || k = kDecodeParms)) d k]
  by_cases h1 : k = kFilter <;> by_cases h2 : k = kDecodeParms <;> simp [h1, h2]

theorem prune_sublist (d : Dict) : (prune d).Sublist d := List.filter_sublist

example : prune [(kDecodeParms, .null), (kFilter, .name nHex), ([76], .int 5)] = [([76], .int 5)] := by rfl



/-! ### /Filter x /DecodeParms -/

def allNames : List Obj → Option (List Bytes)
  | [] => some []
  | .name n :: t => (allNames t).map (n :: ·)
  | _ :: _ => none

/-- a parameter entry: `null` or a dictionary -/
def parmOf : Obj → Option (Option Dict)
  | .null => some none
  | .dict d => some (some d)
  | _ => none

def allParms : List Obj → Option (List (Option Dict))
  | [] => some []
  | o :: t => match parmOf o, allParms t with
    | some p, some ps => some (p :: ps)
    | _, _ => none

theorem namesOnly_ok (fa : List Obj) (ns : List Bytes) (h : allNames fa = some ns) :
    ∀ acc, namesOnly fa acc = .ok (acc ++ ns.map fun n => ⟨n, none⟩) := by
  induction fa generalizing ns with
  | nil => intro acc; cases h; simp [namesOnly]
  | cons o t ih =>
    intro acc
    cases o with
    | name n =>
      simp only [allNames, Option.map_eq_some_iff] at h
      obtain ⟨ns', h', rfl⟩ := h
      simp [namesOnly, ih ns' h']
    | _ => simp [allNames] at h

theorem namesOnly_err (fa : List Obj) (h : allNames fa = none) : ∀ acc, namesOnly fa acc = .err .guard := by
  induction fa with
  | nil => cases h
  | cons o t ih =>
    intro acc
    cases o with
    | name n =>
      simp only [allNames, Option.map_eq_none_iff] at h
      simp [namesOnly, ih h]
    | _ => simp [namesOnly]

theorem zipFilters_ok (fa da : List Obj) (ns : List Bytes) (ps : List (Option Dict))
    (hn : allNames fa = some ns) (hp : allParms da = some ps) (hl : fa.length = da.length) :
    ∀ acc, zipFilters fa da acc = .ok (acc ++ (ns.zip ps).map fun np => ⟨np.1, np.2⟩) := by
  induction fa generalizing da ns ps with
  | nil =>
    intro acc
    cases hn
    cases da with
    | nil => simp [zipFilters]
    | cons _ _ => simp at hl
  | cons f t ih =>
    intro acc
    cases da with
    | nil => simp at hl
    | cons p u =>
      cases f with
      | name n =>
        simp only [allNames, Option.map_eq_some_iff] at hn
        obtain ⟨ns', hn', rfl⟩ := hn
        simp only [allParms] at hp
        cases hpo : parmOf p with
        | none => simp [hpo] at hp
        | some pp =>
          cases hpt : allParms u with
          | none => simp [hpo, hpt] at hp
          | some ps' =>
            simp only [hpo, hpt, Option.some.injEq] at hp
            subst hp
            have hl' : t.length = u.length := by simpa using hl
            cases p with
            | null => simp only [parmOf, Option.some.injEq] at hpo; subst hpo; simp [zipFilters, ih u ns' ps' hn' hpt hl']
            | dict dd => simp only [parmOf, Option.some.injEq] at hpo; subst hpo; simp [zipFilters, ih u ns' ps' hn' hpt hl']
            | _ => simp [parmOf] at hpo
      | _ => simp [allNames] at hn

/-- **filters_shape.**  The decision table of `StreamT::filters`, by what the dictionary holds under
    `/Filter` and `/DecodeParms`:
    1. no `/Filter` name or array → no filters;
    2. a name, parameters absent or not a dictionary/array → that filter, no parameters;
    3. a name and a dictionary → that filter with these parameters;
    4. a name and an *array* of parameters → error;
    5. an array of names, no parameter array → those filters, in order, no parameters;
    6. an array of names with a parallel array of null/dictionary entries → paired up in order;
    7. arrays of different lengths → error;   8. a non-name in the filter array (no parameter array) → error. -/
theorem filters_shape (d : Dict) :
    (getNameObj d kFilter = none → getArray d kFilter = none → filters d = .ok []) ∧
    (∀ n, getNameObj d kFilter = some n → getDict d kDecodeParms = none → getArray d kDecodeParms = none →
        filters d = .ok [⟨n, none⟩]) ∧
    (∀ n p, getNameObj d kFilter = some n → getDict d kDecodeParms = some p → filters d = .ok [⟨n, some p⟩]) ∧
    (∀ n a, getNameObj d kFilter = some n → getArray d kDecodeParms = some a → filters d = .err .guard) ∧
    (∀ fa ns, getArray d kFilter = some fa → allNames fa = some ns → getArray d kDecodeParms = none →
        filters d = .ok (ns.map fun n => ⟨n, none⟩)) ∧
    (∀ fa da ns ps, getArray d kFilter = some fa → getArray d kDecodeParms = some da →
        allNames fa = some ns → allParms da = some ps → fa.length = da.length →
        filters d = .ok ((ns.zip ps).map fun np => ⟨np.1, np.2⟩)) ∧
    (∀ fa da, getArray d kFilter = some fa → getArray d kDecodeParms = some da → fa.length ≠ da.length →
        filters d = .err .guard) ∧
    (∀ fa, getArray d kFilter = some fa → allNames fa = none → getArray d kDecodeParms = none →
        filters d = .err .guard) := by
  have arr_not_name : ∀ fa, getArray d kFilter = some fa → getNameObj d kFilter = none := by
    intro fa h
    unfold getArray at h; unfold getNameObj
    split at h <;> simp_all
  have arr_not_dict : ∀ a, getArray d kDecodeParms = some a → getDict d kDecodeParms = none := by
    intro a h
    unfold getArray at h; unfold getDict
    split at h <;> simp_all
  refine ⟨?_, ?_, ?_, ?_, ?_, ?_, ?_, ?_⟩
  · intro h1 h2; simp [filters, h1, h2]
  · intro n h1 h2 h3; simp [filters, h1, h2, h3]
  · intro n p h1 h2; simp [filters, h1, h2]
  · intro n a h1 h2; simp [filters, h1, arr_not_dict a h2, h2]
  · intro fa ns h1 h2 h3
    simp [filters, arr_not_name fa h1, h1, h3, namesOnly_ok fa ns h2]
  · intro fa da ns ps h1 h2 h3 h4 h5
    simp [filters, arr_not_name fa h1, h1, h2, h5, zipFilters_ok fa da ns ps h3 h4 h5]
  · intro fa da h1 h2 h3
    have : ¬ da.length = fa.length := fun h => h3 h.symm
    simp [filters, arr_not_name fa h1, h1, h2, this]
  · intro fa h1 h2 h3
    simp [filters, arr_not_name fa h1, h1, h3, namesOnly_err fa h2]

-- non-vacuity of clause 6: /Filter [/ASCII85Decode /FlateDecode] /DecodeParms [null <<>>]
example : filters [(kDecodeParms, .arr [.null, .dict []]), (kFilter, .arr [.name nA85, .name nFlate])]
    = .ok [⟨nA85, none⟩, ⟨nFlate, some []⟩] := by rfl

/-! ### filter chains and decode_stream -/

/-- `LayerEnc f x e`: `e` is a conformant encoding of `x` for the filter named `f` -/
inductive LayerEnc : Bytes → Bytes → Bytes → Prop
  | hex {x e : Bytes} : IsHexEncoding e x → LayerEnc nHex x e
  | a85 {x e : Bytes} : IsA85Encoding e x → LayerEnc nA85 x e
  /-- a zlib stream of stored blocks (any partition), followed by anything -/
  | flateStored {parts : List Bytes} {trailing : Bytes} :
      (∀ p ∈ parts, p.length ≤ 65535) → LayerEnc nFlate parts.flatten (zlibStored parts ++ trailing)
  /-- a zlib stream of fixed-Huffman blocks (RFC 1951 3.2.6) written by the specification's encoder
      from any valid LZ77 factorisation of `x` (non-final blocks `blocks`, final block `last`),
      followed by anything -/
  | flateFixed {blocks : List (List DeflateFixed.Tok)} {last : List DeflateFixed.Tok} {x trailing : Bytes} :
      DeflateFixed.resolveBlocks (blocks ++ [last]) [] = some x →
      LayerEnc nFlate x (DeflateFixed.zlibFixedF blocks last x ++ trailing)
  /-- a zlib stream of stored, fixed-Huffman and DYNAMIC-Huffman blocks in any order (RFC 1951 3.2.4
      - 3.2.7) written by the specification's encoder from any valid plan for `x` (`DeflateDyn.planOk`:
      valid code lengths, any header spelling, any LZ77 factorisation), followed by anything -/
  | flateDyn {bs : List DeflateDyn.Block} {last : DeflateDyn.Block} {x trailing : Bytes} :
      DeflateDyn.planOk bs last x → LayerEnc nFlate x (DeflateDyn.zlibBlocks bs last x ++ trailing)
  /-- any other zlib stream, *as far as the modelled inflate decodes it to `x`* (streams of encoders
      other than the specification's: tied to the real zlib by the correspondence run) -/
  | flateAny {x e : Bytes} : Inflate.inflate e = .ok x → LayerEnc nFlate x e

/-- `ChainEnc fs payload content`: `content` is `payload` encoded for the filter list `fs`
    (first filter = outermost encoding), every Flate layer without predictor -/
inductive ChainEnc : List Filter → Bytes → Bytes → Prop
  | nil {p : Bytes} : ChainEnc [] p p
  | cons {f : Filter} {fs : List Filter} {p mid c : Bytes} :
      LayerEnc f.name mid c → predictorOf f.options = 1 → ChainEnc fs p mid → ChainEnc (f :: fs) p c

theorem layer_roundtrip (ext : Ext) (f : Filter) (x e : Bytes) (h : LayerEnc f.name x e)
    (hp : predictorOf f.options = 1) : applyFilter ext f e = .ok x := by
  unfold applyFilter
  generalize hn : f.name = n at h
  cases h with
  | hex h =>
    have h1 : ¬ nHex = nFlate := by decide
    have h2 : ¬ nHex = nA85 := by decide
    simp only [h1, h2, if_false, if_true]; exact hex_roundtrip _ _ h
  | a85 h =>
    have h1 : ¬ nA85 = nFlate := by decide
    simp only [h1, if_false, if_true]; exact a85_roundtrip _ _ h
  | flateStored h =>
    simp only [if_true]
    exact flateDecode_ok ext _ _ _ hp (inflate_stored_roundtrip _ _ h)
  | flateFixed h =>
    simp only [if_true]
    exact flateDecode_ok ext _ _ _ hp (inflate_fixed_roundtrip_final _ _ _ _ h)
  | flateDyn h =>
    simp only [if_true]
    exact flateDecode_ok ext _ _ _ hp (inflate_blocks_roundtrip _ _ _ _ h)
  | flateAny h =>
    simp only [if_true]
    exact flateDecode_ok ext _ _ _ hp h

/-- **chain_roundtrip.**  Applying the filters in order to a chain encoding returns the payload,
    for chains of any length. -/
theorem chain_roundtrip (ext : Ext) (fs : List Filter) (payload content : Bytes)
    (h : ChainEnc fs payload content) : runChain ext fs content = .ok payload := by
  induction h with
  | nil => rfl
  | cons hl hp _ ih => simp only [runChain, layer_roundtrip ext _ _ _ hl hp, ih]

/-- **decode_stream_roundtrip.**  `decode_stream` on a stream whose dictionary announces the filter
    list `fs` (in any of the accepted `/Filter`-`/DecodeParms` shapes, see `filters_shape`) and whose
    data is a chain encoding of `payload` returns exactly `payload` and the pruned dictionary. -/
theorem decode_stream_roundtrip (ext : Ext) (d : Dict) (fs : List Filter) (payload content : Bytes)
    (hf : filters d = .ok fs) (h : ChainEnc fs payload content) :
    decodeStream ext d content = .ok (payload, prune d) := by
  simp only [decodeStream, hf, chain_roundtrip ext fs payload content h]

/-- a failing stage fails the whole decode: no partial result -/
theorem chain_error_propagates (ext : Ext) (pre : List Filter) (f : Filter) (post : List Filter)
    (payload mid content : Bytes) (k : ErrK)
    (h : ChainEnc pre mid content) (hf : applyFilter ext f mid = .err k) :
    runChain ext (pre ++ f :: post) content = .err k := by
  induction h with
  | nil => simp [runChain, hf]
  | cons hl hp _ ih => simp only [List.cons_append, runChain, layer_roundtrip ext _ _ _ hl hp, ih hf]

-- non-vacuity: <</Filter [/ASCIIHexDecode /FlateDecode]>> over hex(zlibStored [[7,8]])
example : ChainEnc [⟨nHex, none⟩, ⟨nFlate, some []⟩] [7, 8]
    (encodeHex (fun _ => true) false (zlibStored [[7, 8]] ++ [])) :=
  .cons (mid := zlibStored [[7, 8]] ++ [])
    (.hex ⟨encodeHexDigits (fun _ => true) 0 (zlibStored [[7, 8]] ++ []), [], by decide, by decide,
      .inl (by rw [show strip (encodeHexDigits (fun _ => true) 0 (zlibStored [[7, 8]] ++ []))
                     = encodeHexDigits (fun _ => true) 0 (zlibStored [[7, 8]] ++ []) from by decide]
               exact encodeHexDigits_pairs _ _ 0)⟩)
    rfl
    (.cons (mid := [[7, 8]].flatten) (.flateStored (by decide)) rfl .nil)


/-! ### corrupt encodings are errors -/

theorem hexStage_skip (pre tail : Bytes)
    (hpre : ∀ b ∈ pre, FiltersSpec.isWs b = true ∨ (hexVal b).isSome = true) :
    ∀ st, hexStage (pre ++ tail) st = hexStage tail ((strip pre).reverse ++ st) := by
  induction pre with
  | nil => intro st; simp [strip]
  | cons b t ih =>
    intro st
    have ht : ∀ b ∈ t, FiltersSpec.isWs b = true ∨ (hexVal b).isSome = true :=
      fun x hx => hpre x (List.mem_cons_of_mem _ hx)
    rcases hpre b (List.mem_cons_self) with hw | hd
    · have hw' : Filters.isWs b = true := hw
      simp only [List.cons_append, hexStage, hw', if_true]
      rw [ih ht]; simp [strip, hw]
    · obtain ⟨h1, h2, h3⟩ := hexdigit_facts b hd
      have hw : FiltersSpec.isWs b = false := h1
      simp only [List.cons_append, hexStage, h1, h2, h3, Bool.false_eq_true, if_false, if_true]
      rw [ih ht]; simp [strip, hw]

/-- an illegal character before the EOD marker is an error -/
theorem hex_illegal_char (pre rest : Bytes) (c : UInt8)
    (hpre : ∀ b ∈ pre, FiltersSpec.isWs b = true ∨ (hexVal b).isSome = true)
    (h1 : FiltersSpec.isWs c = false) (h2 : c ≠ 0x3E) (h3 : (hexVal c).isSome = false) :
    hexDecode (pre ++ c :: rest) = .err .transform := by
  have hd : isHexDigit c = false := by
    revert h3; revert c; apply forall_u8; decide +kernel
  have h1' : Filters.isWs c = false := h1
  have h2' : (c == 0x3E) = false := by simpa using h2
  unfold hexDecode
  rw [hexStage_skip pre _ hpre]
  simp [hexStage, h1', h2', hd]

/-- a missing EOD marker is an error, whatever else the data holds -/
theorem hex_missing_eod (content : Bytes) (h : ∀ b ∈ content, b ≠ 0x3E) :
    hexDecode content = .err .transform := by
  have : ∀ st, hexStage content st = .err .transform := by
    induction content with
    | nil => intro st; rfl
    | cons b t ih =>
      intro st
      have hb : (b == 0x3E) = false := by simpa using h b (List.mem_cons_self)
      have iht := ih (fun x hx => h x (List.mem_cons_of_mem _ hx))
      simp only [hexStage, hb, Bool.false_eq_true, if_false]
      split
      · exact iht _
      · split
        · exact iht _
        · rfl
  unfold hexDecode; rw [this]

theorem a85Stage_misaligned (pre rest : Bytes)
    (hpre : ∀ b ∈ pre, Filters.isWs b = false ∧ b ≠ 0x7A ∧ b ≠ 0x7E) :
    ∀ st g, g < 5 → (g + pre.length) % 5 ≠ 0 → a85Stage (pre ++ 0x7A :: rest) st g = .err .transform := by
  induction pre with
  | nil =>
    intro st g hg hne
    have hw : Filters.isWs 0x7A = false := by decide
    have : (g != 0) = true := by simp at hne ⊢; omega
    simp [a85Stage, hw, this]
  | cons b t ih =>
    intro st g hg hne
    obtain ⟨h1, h2, h3⟩ := hpre b (List.mem_cons_self)
    have h2' : (b == 0x7A) = false := by simpa using h2
    have h3' : (b == 0x7E) = false := by simpa using h3
    simp only [List.cons_append, a85Stage, h1, h2', h3', Bool.false_eq_true, if_false]
    apply ih (fun x hx => hpre x (List.mem_cons_of_mem _ hx))
    · omega
    · simp only [List.length_cons] at hne; omega

/-- a `z` inside a group (after 1-4 digits of it) is an error -/
theorem a85_misaligned_z (pre rest : Bytes)
    (hpre : ∀ b ∈ pre, Filters.isWs b = false ∧ b ≠ 0x7A ∧ b ≠ 0x7E) (hlen : pre.length % 5 ≠ 0) :
    a85Decode (pre ++ 0x7A :: rest) = .err .transform := by
  unfold a85Decode
  rw [a85Stage_misaligned pre rest hpre [] 0 (by omega) (by omega)]

/-- **corrupt_is_error.**  The unambiguous corruptions are rejected and nothing partial is returned:
    an illegal ASCIIHex character, a missing ASCIIHex EOD, a misaligned ASCII85 `z`, and any zlib
    stream the decoder rejects — at whatever point of the stream, after however many chunks of
    output — (truncated, failed checksum, …), also when it sits behind correctly encoded outer layers. -/
theorem corrupt_is_error :
    (∀ (pre rest : Bytes) (c : UInt8),
        (∀ b ∈ pre, FiltersSpec.isWs b = true ∨ (hexVal b).isSome = true) →
        FiltersSpec.isWs c = false → c ≠ 0x3E → (hexVal c).isSome = false →
        hexDecode (pre ++ c :: rest) = .err .transform) ∧
    (∀ content : Bytes, (∀ b ∈ content, b ≠ 0x3E) → hexDecode content = .err .transform) ∧
    (∀ pre rest : Bytes, (∀ b ∈ pre, Filters.isWs b = false ∧ b ≠ 0x7A ∧ b ≠ 0x7E) → pre.length % 5 ≠ 0 →
        a85Decode (pre ++ 0x7A :: rest) = .err .transform) ∧
    (∀ {σ : Type} (ext : Ext) (D : StreamDec σ) (o : Option Dict) (s : σ), Fails D s →
        ∃ k, flateGlue ext D o s = .err k) ∧
    (∀ (ext : Ext) (o : Option Dict) (input : Bytes) (k : ErrK), Inflate.inflate input = .err k →
        ∃ k', flateDecode ext o input = .err k') ∧
    (∀ (ext : Ext) (pre : List Filter) (f : Filter) (post : List Filter) (payload mid content : Bytes) (k : ErrK),
        ChainEnc pre mid content → applyFilter ext f mid = .err k →
        runChain ext (pre ++ f :: post) content = .err k) :=
  ⟨hex_illegal_char, hex_missing_eod, a85_misaligned_z, flate_glue_rejects, flateDecode_err,
   fun ext pre f post payload mid content k => chain_error_propagates ext pre f post payload mid content k⟩

-- executed instances: `uuuuu~>` and `s8W-"~>` (group ≥ 2^32, caught overflow panic), `{` in ASCII85
-- (since C06c these are instances of theorems: `a85_corrupt_is_error` clauses 7 and 2 below)
example : a85Decode [0x75, 0x75, 0x75, 0x75, 0x75, 0x7E, 0x3E] = .err .transform := by decide
example : a85Decode [0x73, 0x38, 0x57, 0x2D, 0x22, 0x7E, 0x3E] = .err .transform := by decide
example : a85Decode [0x73, 0x38, 0x57, 0x2D, 0x21, 0x7E, 0x3E] = .ok [0xFF, 0xFF, 0xFF, 0xFF] := by decide
example : a85Decode [0x38, 0x7B, 0x7E, 0x3E] = .err .transform := by decide

/-! ### corrupt ASCII85, at full strength (proofs: Lemmas/A85Reject.lean)

  What the model of the repaired glue + `ascii85::decode` does with every kind of damage, for ALL
  inputs.  Where the real code (and hence the model: the correspondence run compares them on
  exactly these shapes) is more lenient than ISO 32000-1 7.4.3, the theorem states the lenient
  behaviour:
   * a lone final digit `!`..`r` is dropped silently (clause 6), only `s`, `t`, `u` are rejected;
   * VT, U+0085, U+00A0 are trimmed when they lead or trail the staged text (`a85Crate_leading_uniws`),
     and rejected between two visible bytes (clause 3);
   * bytes after the EOD are not ignored: an illegal one there is an error too (clause 2 has no
     "before the EOD" restriction), a legal one is decoded;
   * a missing EOD, a leading `<~`, a repeated `~>` are accepted (executed examples in the lemma file). -/

open Parsley.C06.A85 in
/-- **a85_corrupt_is_error.** -/
theorem a85_corrupt_is_error :
    -- 1. no panic escapes and every failure is a `TransformError`
    (∀ x : Bytes, (∃ out, a85Decode x = .ok out) ∨ a85Decode x = .err .transform) ∧
    -- 2. a byte outside `!`..`u` that is not `z`, `~` or white space (PDF's or `str::trim`'s): at ANY position
    (∀ (pre rest : Bytes) (c : UInt8), (c.toNat < 33 ∨ c.toNat > 117) → c ≠ 0x7A → Filters.isWs c = false →
        isUniWs c = false → c ≠ 0x7E → a85Decode (pre ++ c :: rest) = .err .transform) ∧
    -- 3. VT / U+0085 / U+00A0 between two visible bytes
    (∀ (pre rest : Bytes) (c : UInt8), isUniWs c = true → Filters.isWs c = false →
        (∃ x ∈ pre, Filters.isWs x = false ∧ isUniWs x = false) →
        (∃ y ∈ rest, Filters.isWs y = false ∧ isUniWs y = false) →
        a85Decode (pre ++ c :: rest) = .err .transform) ∧
    -- 4. a `~` that is part of neither `<~` nor `~>`
    (∀ (pre rest : Bytes), (strip pre).getLast? ≠ some 0x3C → (strip rest).head? ≠ some 0x3E →
        a85Decode (pre ++ 0x7E :: rest) = .err .transform) ∧
    -- 5. a `z` after one to four digits of a group, in whichever group
    (∀ (pre rest p s ds : Bytes), A85Whole p s → (∀ b ∈ ds, IsDig b) → 1 ≤ ds.length ∧ ds.length ≤ 4 →
        strip pre = s ++ ds → a85Decode (pre ++ 0x7A :: rest) = .err .transform) ∧
    -- 6. a final group of one digit: dropped if `!`..`r`, rejected if `s`, `t`, `u`
    (∀ (content p s : Bytes) (d : UInt8), A85Whole p s → IsDig d → strip content = s ++ [d, 0x7E, 0x3E] →
        a85Decode content = if d.toNat ≤ 114 then .ok p else .err .transform) ∧
    -- 7. five digits worth 2^32 or more, in whichever group, whatever follows
    (∀ (content p s rest : Bytes) (x0 x1 x2 x3 x4 : UInt8), A85Whole p s →
        IsDig x0 → IsDig x1 → IsDig x2 → IsDig x3 → IsDig x4 →
        (x0.toNat - 33) * 52200625 + (x1.toNat - 33) * 614125 + (x2.toNat - 33) * 7225
          + (x3.toNat - 33) * 85 + (x4.toNat - 33) ≥ 2 ^ 32 →
        strip content = s ++ x0 :: x1 :: x2 :: x3 :: x4 :: rest → a85Decode content = .err .transform) :=
  ⟨a85Decode_cases, a85_illegal_char_any, a85_uniws_interior, a85_stray_tilde, a85_z_inside_group_spec,
   a85_single_digit_final, a85_group_overflow⟩

/-! ### damaged zlib streams of stored blocks, through the Flate glue (proofs: Lemmas/InflateReject.lean) -/

/-- **flate_stored_corrupt_is_error.**  For all payloads and all partitions into stored blocks,
    whatever the filter parameters: every truncation (any cut point), every alteration of one byte
    of the Adler-32 trailer, of one LEN / NLEN byte of any block (data-carrying or closing), of the
    FCHECK bits and of CMF makes `FlateDecode::transform` return a `TransformError`. -/
theorem flate_stored_corrupt_is_error (ext : Ext) (o : Option Dict) :
    (∀ (parts : List Bytes), (∀ p ∈ parts, p.length ≤ 65535) → ∀ n, n < (zlibStored parts).length →
        flateDecode ext o ((zlibStored parts).take n) = .err .transform) ∧
    (∀ (parts : List Bytes), (∀ p ∈ parts, p.length ≤ 65535) → ∀ (i : Nat) (hi : i < 4) (v : UInt8),
        v ≠ (be32Bytes (adler32 parts.flatten))[i]'(by simpa [be32Bytes] using hi) → ∀ trailing : Bytes,
        flateDecode ext o ((zlibStored parts).set (2 + (storedBlocks parts).length + i) v ++ trailing)
          = .err .transform) ∧
    (∀ (ps qs : List Bytes) (p : Bytes), (∀ q ∈ ps ++ p :: qs, q.length ≤ 65535) →
        ∀ (i : Nat) (hi : i < 4) (v : UInt8),
        v ≠ (InflRej.lenHdr p.length)[i]'(by simpa [InflRej.lenHdr] using hi) → ∀ trailing : Bytes,
        flateDecode ext o ((zlibStored (ps ++ p :: qs)).set (2 + (InflRej.storedNonfinal ps).length + 1 + i) v
          ++ trailing) = .err .transform) ∧
    (∀ (parts : List Bytes), (∀ p ∈ parts, p.length ≤ 65535) → ∀ (i : Nat) (hi : i < 4) (v : UInt8),
        v ≠ (InflRej.lenHdr 0)[i]'(by simpa [InflRej.lenHdr] using hi) → ∀ trailing : Bytes,
        flateDecode ext o ((zlibStored parts).set (2 + (InflRej.storedNonfinal parts).length + 1 + i) v
          ++ trailing) = .err .transform) ∧
    (∀ v : UInt8, v.toNat < 32 → v ≠ 0x01 → ∀ rest : Bytes,
        flateDecode ext o (0x78 :: v :: rest) = .err .transform) ∧
    (∀ c : UInt8, c ≠ 0x78 → ∀ rest : Bytes, flateDecode ext o (c :: 0x01 :: rest) = .err .transform) :=
  ⟨fun parts h n hn => flateDecode_err_transform ext o _ _ (inflate_stored_truncated parts h n hn),
   fun parts h i hi v hv tr => flateDecode_err_transform ext o _ _ (inflate_stored_adler_byte_set parts h i hi v hv tr),
   fun ps qs p h i hi v hv tr => flateDecode_err_transform ext o _ _ (inflate_stored_len_byte_set ps qs p h i hi v hv tr),
   fun parts h i hi v hv tr => flateDecode_err_transform ext o _ _ (inflate_stored_len_byte_set_final parts h i hi v hv tr),
   fun v hlt hne rest => flateDecode_err_transform ext o _ _ (inflate_header_fcheck_altered v hlt hne rest),
   fun c hne rest => flateDecode_err_transform ext o _ _ (inflate_header_cmf_altered c hne rest)⟩

-- non-vacuity: the stream of parts [1,2,3] | [4] cut after 24 of its 25 bytes; its last trailer byte replaced
example (ext : Ext) : flateDecode ext none ((zlibStored [[1, 2, 3], [4]]).take 24) = .err .transform :=
  (flate_stored_corrupt_is_error ext none).1 [[1, 2, 3], [4]] (by decide) 24 (by decide)
example (ext : Ext) : flateDecode ext none ((zlibStored [[1, 2, 3], [4]]).set (2 + (storedBlocks [[1, 2, 3], [4]]).length + 3) 12 ++ [7])
    = .err .transform :=
  (flate_stored_corrupt_is_error ext none).2.1 [[1, 2, 3], [4]] (by decide) 3 (by decide) 12 (by decide) [7]

/-! ### fixed-Huffman blocks through the Flate glue (proofs: Lemmas/InflateFixed.lean) -/

/-- **flate_fixed_roundtrip.**  `FlateDecode::transform` (predictor 1) returns exactly `payload` for
    the zlib stream the specification's fixed-Huffman encoder writes from ANY valid LZ77
    factorisation of `payload` — literals, <length, distance> pairs with every legal symbol / extra
    bit choice, overlapping copies, copies reaching into earlier blocks, any cutting into blocks —
    whatever follows the stream. -/
theorem flate_fixed_roundtrip (ext : Ext) (o : Option Dict) (hpred : predictorOf o = 1)
    (blocks : List (List DeflateFixed.Tok)) (last : List DeflateFixed.Tok) (payload trailing : Bytes)
    (h : DeflateFixed.resolveBlocks (blocks ++ [last]) [] = some payload) :
    flateDecode ext o (DeflateFixed.zlibFixedF blocks last payload ++ trailing) = .ok payload :=
  flateDecode_ok ext o _ _ hpred (inflate_fixed_roundtrip_final blocks last payload trailing h)

example (ext : Ext) : flateDecode ext (some []) (DeflateFixed.zlibFixedF [[.lit 97, .lit 98, .lit 99]] [.copy 6 0 2 0, .lit 33]
      [97, 98, 99, 97, 98, 99, 97, 98, 99, 97, 98, 99, 33] ++ [0x0D, 0x0A]) =
    .ok [97, 98, 99, 97, 98, 99, 97, 98, 99, 97, 98, 99, 33] :=
  flate_fixed_roundtrip ext (some []) rfl _ _ _ _ (by decide)

/-! ### dynamic-Huffman blocks, and streams mixing the three block types (proofs: Lemmas/InflateDyn.lean) -/

/-- **inflate_dynamic_roundtrip.**  The executable inflate returns exactly `payload` for the zlib
    stream the specification's encoder (Spec/DeflateDyn.lean) writes from ANY valid plan: blocks
    of all three types in any order (`bs`, then the final block `last`); every dynamic block with
    an arbitrary valid header — HLIT + 257 and HDIST + 1 code lengths of at most 15 bits forming a
    complete code (Kraft equality), or no distance code at all, or a single code of length 1 (the
    incomplete sets zlib's `inflate_table` takes); a complete code-length code of at most 7 bits;
    any HCLEN covering its non-zero lengths; ANY run-length spelling of the lengths with symbols
    16 / 17 / 18, runs crossing from the literal/length into the distance lengths included — and
    with the canonical codes of RFC 1951 3.2.2 for the symbols of ANY LZ77 factorisation
    (literals, <length, distance> pairs with every legal symbol / extra-bit choice, overlapping
    copies, copies reaching back into earlier blocks of any type); stored blocks aligned to the
    next byte boundary wherever they fall; whatever bytes follow the Adler-32 trailer. -/
theorem inflate_dynamic_roundtrip (bs : List DeflateDyn.Block) (last : DeflateDyn.Block)
    (payload trailing : Bytes) (h : DeflateDyn.planOk bs last payload) :
    Inflate.inflate (DeflateDyn.zlibBlocks bs last payload ++ trailing) = .ok payload :=
  inflate_blocks_roundtrip bs last payload trailing h

/-- **flate_dynamic_roundtrip.**  The same through `FlateDecode::transform` (predictor 1). -/
theorem flate_dynamic_roundtrip (ext : Ext) (o : Option Dict) (hpred : predictorOf o = 1)
    (bs : List DeflateDyn.Block) (last : DeflateDyn.Block) (payload trailing : Bytes)
    (h : DeflateDyn.planOk bs last payload) :
    flateDecode ext o (DeflateDyn.zlibBlocks bs last payload ++ trailing) = .ok payload :=
  flateDecode_ok ext o _ _ hpred (inflate_blocks_roundtrip bs last payload trailing h)

/-- one dynamic block: the instance the name promises -/
theorem inflate_one_dynamic_block (hd : DeflateDyn.Hdr) (toks : List DeflateFixed.Tok) (payload trailing : Bytes)
    (hok : hd.ok = true) (hu : ∀ t ∈ toks, DeflateDyn.tokUsable hd.litLens hd.distLens t = true)
    (hres : DeflateFixed.resolve toks [] = some payload) :
    Inflate.inflate (DeflateDyn.zlibBlocks [] (.dyn hd toks) payload ++ trailing) = .ok payload := by
  apply inflate_blocks_roundtrip
  refine ⟨?_, ?_⟩
  · intro b hb
    simp only [List.nil_append, List.mem_singleton] at hb
    subst hb
    simp only [DeflateDyn.Block.ok, Bool.and_eq_true, List.all_eq_true]
    exact ⟨hok, hu⟩
  · simp [DeflateFixed.resolveBlocks, DeflateDyn.Block.toks, hres]

-- non-vacuity: the concrete instances are in Props/C06Dyn.lean (kept out of this module, which others import)

/-! ### witnesses of the repaired defects (pre-repair glue) -/

/-- defect 8: `48656C6C6F>` was rejected (zero-length output slice); the repaired glue decodes it -/
theorem hex_old_witness :
    hexDecodeOld [0x34, 0x38, 0x36, 0x35, 0x36, 0x43, 0x36, 0x43, 0x36, 0x46, 0x3E] = .err .transform ∧
    hexDecode [0x34, 0x38, 0x36, 0x35, 0x36, 0x43, 0x36, 0x43, 0x36, 0x46, 0x3E] = .ok [0x48, 0x65, 0x6C, 0x6C, 0x6F] := by
  decide

/-- defect 9: the padding test used the raw index: in `4 >` the EOD sits at index 2, no `0` was
    appended and the odd stage was rejected; in ` 40>` (index 3) a `0` *was* appended to an even stage -/
theorem hex_old_parity_witness :
    hexStageOld [0x34, 0x20, 0x3E] 0 [] = .ok [0x34] ∧ hexStage [0x34, 0x20, 0x3E] [] = .ok [0x34, 0x30] ∧
    hexStageOld [0x20, 0x34, 0x30, 0x3E] 0 [] = .ok [0x34, 0x30, 0x30] ∧ hexStage [0x20, 0x34, 0x30, 0x3E] [] = .ok [0x34, 0x30] := by
  decide

/-- defect 10: `z87cUR~>` was rejected (the crate errors on every `z`); the repaired glue expands it -/
theorem a85_old_witness :
    a85DecodeOld [0x7A, 0x38, 0x37, 0x63, 0x55, 0x52, 0x7E, 0x3E] = .err .transform ∧
    a85Decode [0x7A, 0x38, 0x37, 0x63, 0x55, 0x52, 0x7E, 0x3E] = .ok [0, 0, 0, 0, 0x48, 0x65, 0x6C, 0x6C] := by
  decide

end Parsley.C06
