/-
  C06 — Stream filter decoding is the exact inverse of encoding.
  Property theorems about the model `Parsley.Filters` (Model/Filters.lean, Model/Inflate.lean)
  against the declarative encodings of `Parsley.FiltersSpec` (Spec/Filters.lean).
  All statements are universally quantified (no size bounds).
-/
import Parsley.Model.Filters
import Parsley.Spec.Filters
import Parsley.Lemmas.FiltersA85
import Parsley.Lemmas.FiltersInflate
namespace Parsley.C06
open Parsley Parsley.Filters Parsley.FiltersSpec

/-! ### byte-level facts (all 256 values checked by kernel evaluation) -/

theorem forall_u8 (P : UInt8 → Prop) (h : ∀ n : Fin 256, P (UInt8.ofNat n.val)) : ∀ b, P b := by
  intro b
  have := h ⟨b.toNat, b.toNat_lt⟩
  simpa using this

theorem isWs_eq (b : UInt8) : Filters.isWs b = FiltersSpec.isWs b := rfl

theorem hexdigit_facts : ∀ b : UInt8, (hexVal b).isSome = true →
    Filters.isWs b = false ∧ (b == 0x3E) = false ∧ isHexDigit b = true := by
  apply forall_u8; decide +kernel

theorem nibble_facts : ∀ b : UInt8,
    (match hexVal b with
    | some h => decide (nibble b = some (UInt8.ofNat h)) && decide (h < 16)
    | none => true) = true := by
  apply forall_u8; decide +kernel

theorem combine_facts : ∀ i j : Fin 16,
    (((0 : UInt8) <<< 4 ||| UInt8.ofNat i.val) <<< 4 ||| UInt8.ofNat j.val) = UInt8.ofNat (16 * i.val + j.val) := by
  decide

theorem nibble_of_hexVal {b : UInt8} {h : Nat} (hv : hexVal b = some h) :
    nibble b = some (UInt8.ofNat h) ∧ h < 16 := by
  have := nibble_facts b
  rw [hv] at this
  simpa using this

/-! ### ASCIIHex -/

theorem hexStage_spec (pre post : Bytes)
    (hpre : ∀ b ∈ pre, FiltersSpec.isWs b = true ∨ (hexVal b).isSome = true) :
    ∀ st : Bytes, hexStage (pre ++ 0x3E :: post) st =
      .ok (if ((strip pre).length + st.length) % 2 = 1 then st.reverse ++ strip pre ++ [0x30]
           else st.reverse ++ strip pre) := by
  induction pre with
  | nil =>
    intro st
    simp only [List.nil_append, hexStage, strip, List.filter_nil, List.length_nil, Nat.zero_add, List.append_nil]
    have h1 : Filters.isWs 0x3E = false := by decide
    simp only [h1, Bool.false_eq_true, if_false, beq_self_eq_true, if_true]
    by_cases hp : st.length % 2 = 1
    · simp [hp]
    · simp [hp]
  | cons b t ih =>
    intro st
    have ht : ∀ b ∈ t, FiltersSpec.isWs b = true ∨ (hexVal b).isSome = true :=
      fun x hx => hpre x (List.mem_cons_of_mem _ hx)
    rcases hpre b (List.mem_cons_self) with hw | hd
    · have hw' : Filters.isWs b = true := hw
      simp only [List.cons_append, hexStage, hw', if_true]
      rw [ih ht]
      simp [strip, hw]
    · obtain ⟨h1, h2, h3⟩ := hexdigit_facts b hd
      have hw : FiltersSpec.isWs b = false := h1
      simp only [List.cons_append, hexStage, h1, h2, h3, Bool.false_eq_true, if_false, if_true]
      rw [ih ht]
      simp only [strip, List.filter_cons, hw, Bool.not_false, if_true, List.length_cons, List.reverse_cons,
        List.append_assoc, List.singleton_append]
      have : (List.filter (fun b => !FiltersSpec.isWs b) t).length + (st.length + 1)
           = (List.filter (fun b => !FiltersSpec.isWs b) t).length + 1 + st.length := by omega
      rw [this]

theorem hexPairs_even {ds ps : Bytes} (h : HexPairs ds ps) : ds.length % 2 = 0 := by
  induction h with
  | nil => rfl
  | cons _ _ _ _ ih => simp only [List.length_cons]; omega

theorem hex2binLoop_spec {ds ps : Bytes} (h : HexPairs ds ps) :
    ∀ acc, hex2binLoop ds acc = .ok (acc.reverse ++ ps) := by
  induction h with
  | nil => intro acc; simp [hex2binLoop]
  | @cons a b p hh l ds ps ha hb hp _ ih =>
    intro acc
    obtain ⟨na, la⟩ := nibble_of_hexVal ha
    obtain ⟨nb, lb⟩ := nibble_of_hexVal hb
    simp only [hex2binLoop, na, nb]
    have hc := combine_facts ⟨hh, la⟩ ⟨l, lb⟩
    simp only at hc
    rw [hc, ih]
    have : UInt8.ofNat (16 * hh + l) = p := by
      apply UInt8.toNat_inj.mp
      rw [UInt8.toNat_ofNat', hp]
      omega
    rw [this]
    simp

theorem hex2bin_spec {ds ps : Bytes} (h : HexPairs ds ps) : hex2bin ds (ds.length / 2) = .ok ps := by
  have he := hexPairs_even h
  unfold hex2bin
  simp [he, hex2binLoop_spec h]

/-- **hex_roundtrip.**  Decoding any conformant ASCIIHex encoding — digits of either case, white
    space anywhere, an odd final digit standing for `x0`, anything after the `>` — returns exactly
    the payload. -/
theorem hex_roundtrip (content payload : Bytes) (h : IsHexEncoding content payload) :
    hexDecode content = .ok payload := by
  obtain ⟨pre, post, rfl, hpre, hp⟩ := h
  unfold hexDecode
  rw [hexStage_spec pre post hpre []]
  simp only [List.length_nil, Nat.add_zero, List.reverse_nil, List.nil_append]
  rcases hp with hp | hp
  · have := hexPairs_even hp
    have hne : ¬ (strip pre).length % 2 = 1 := by omega
    simp only [hne, if_false]
    exact hex2bin_spec hp
  · have := hexPairs_even hp
    have hodd : (strip pre).length % 2 = 1 := by
      simp only [List.length_append, List.length_singleton] at this; omega
    simp only [hodd, if_true]
    exact hex2bin_spec hp

/-- the executable encoder used by the generator produces conformant digit strings -/
theorem hexDigitOf_val (u : Bool) : ∀ n : Fin 16, hexVal (hexDigitOf u n.val) = some n.val := by
  cases u <;> decide

theorem encodeHexDigits_pairs (upper : Nat → Bool) (p : Bytes) :
    ∀ i, HexPairs (encodeHexDigits upper i p) p := by
  induction p with
  | nil => intro i; exact .nil
  | cons b t ih =>
    intro i
    simp only [encodeHexDigits]
    have hb := b.toNat_lt
    exact .cons (hexDigitOf_val _ ⟨b.toNat / 16, by omega⟩) (hexDigitOf_val _ ⟨b.toNat % 16, by omega⟩)
      (by show b.toNat = 16 * (b.toNat / 16) + b.toNat % 16; omega) (ih (i + 1))

-- non-vacuity: "4a 6B\n7>junk" is a conformant encoding of [0x4A, 0x6B, 0x70] (mixed case, white space, odd digit)
example : IsHexEncoding [0x34, 0x61, 0x20, 0x36, 0x42, 0x0A, 0x37, 0x3E, 0x6A] [0x4A, 0x6B, 0x70] :=
  ⟨[0x34, 0x61, 0x20, 0x36, 0x42, 0x0A, 0x37], [0x6A], rfl, by decide,
   .inr (.cons (h := 4) (l := 10) (by decide) (by decide) (by decide)
        (.cons (h := 6) (l := 11) (by decide) (by decide) (by decide)
        (.cons (h := 7) (l := 0) (by decide) (by decide) (by decide) .nil)))⟩
example : hexDecode [0x34, 0x61, 0x20, 0x36, 0x42, 0x0A, 0x37, 0x3E, 0x6A] = .ok [0x4A, 0x6B, 0x70] := by decide

end Parsley.C06
