/-
  C06 — non-vacuity of the dynamic-Huffman theorems of Props/C06.lean (`inflate_dynamic_roundtrip`,
  `flate_dynamic_roundtrip`, `LayerEnc.flateDyn`): a concrete valid plan mixing the three block types,
  the bytes the specification's encoder writes for it, and two invalid headers.  Kept in a module of
  its own so that nothing that imports Props/C06 pays for the kernel evaluations.
-/
import Parsley.Props.C06
namespace Parsley.C06
open Parsley Parsley.Filters Parsley.FiltersSpec

-- non-vacuity.  "abcabcabcabc!" : a stored block `abc`, then a dynamic block whose only token copies 9
-- bytes from distance 3 — reaching back into the stored block, overlapping itself — then a fixed-Huffman
-- final block with the literal `!`.  The dynamic header: 264 literal/length lengths (codes of length 1 for
-- end-of-block and length symbol 263: a complete code), 3 distance lengths (a single code of length 1 for
-- distance symbol 2: incomplete, accepted), spelled with symbols 18, 18, 1, 0, 16, 1, 0, 0, 1 under a
-- complete code-length code of four 2-bit codes, HCLEN + 4 = 18
def exToks : List DeflateFixed.Tok := [.copy 6 0 2 0]
def exHdr : DeflateDyn.Hdr :=
  { litLens := List.replicate 256 0 ++ [1, 0, 0, 0, 0, 0, 0, 1], distLens := [0, 0, 1],
    clLens := [2, 2, 0, 0, 0, 0, 0, 0, 0, 0, 0, 0, 0, 0, 0, 0, 2, 0, 2], ncode := 18,
    rle := [.zerosL 127, .zerosL 107, .len 1, .len 0, .prev 2, .len 1, .len 0, .len 0, .len 1] }
def exPayload : Bytes := [97, 98, 99, 97, 98, 99, 97, 98, 99, 97, 98, 99, 33]
theorem exPlan_ok : DeflateDyn.planOk [.stored [97, 98, 99], .dyn exHdr exToks] (.fixed [.lit 33]) exPayload :=
  planOkB_sound _ _ _ (by decide +kernel)
example : DeflateDyn.zlibBlocks [.stored [97, 98, 99], .dyn exHdr exToks] (.fixed [.lit 33]) exPayload =
    [120, 1, 0, 3, 0, 252, 255, 97, 98, 99, 60, 194, 5, 9, 0, 0, 0, 0, 160, 255, 175, 37, 5, 51, 69, 0, 34, 154, 4, 186] := by
  decide +kernel
example : Inflate.inflate (DeflateDyn.zlibBlocks [.stored [97, 98, 99], .dyn exHdr exToks] (.fixed [.lit 33]) exPayload
    ++ [0x0D, 0x0A]) = .ok exPayload := inflate_dynamic_roundtrip _ _ _ _ exPlan_ok
example (ext : Ext) : flateDecode ext (some []) (DeflateDyn.zlibBlocks [.stored [97, 98, 99], .dyn exHdr exToks]
    (.fixed [.lit 33]) exPayload ++ [0x0A]) = .ok exPayload :=
  flate_dynamic_roundtrip ext (some []) rfl _ _ _ _ exPlan_ok
-- a header whose code-length code is not complete is not valid; nor is a token without a code
example : ({ exHdr with clLens := [2, 2, 0, 0, 0, 0, 0, 0, 0, 0, 0, 0, 0, 0, 0, 0, 2, 0, 3] } : DeflateDyn.Hdr).ok = false := by
  decide +kernel
example : (DeflateDyn.Block.dyn exHdr [.lit 7]).ok = false := by decide +kernel

end Parsley.C06
