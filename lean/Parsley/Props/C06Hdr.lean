/-
  C06 - the two-byte zlib header (RFC 1950 2.2) as a parameter.

  The round-trip theorems of Props/C06.lean are stated for the header the spec-side encoders write, `78 01`
  (only `inflate_stored_roundtrip_hdr` took any header that passes the decoder's four tests).  Here:

    hdrOk_eq_legal                 the decoder's four tests = the RFC's reading (`ZlibHdr.legal`: CM = 8, CINFO <= 7,
                                   FCHECK completes a multiple of 31, FDICT clear)
    legal_iff_headers              ... = membership in the list of the 32 headers CINFO 0..7 x FLEVEL 0..3 the spec
                                   writer `ZlibHdr.header` produces: the decoder takes exactly these 32 pairs
    inflate_header_irrelevant      under any legal header the decoder does what it does under `78 01`: every theorem
                                   about streams beginning `78 01` holds for all 32 headers
    inflate_illegal_header_rejected  any other pair (CINFO 8..15, CM != 8, FDICT set, wrong FCHECK): TransformError,
                                   whatever follows
    inflate_storedH_roundtrip, inflate_fixedH_roundtrip, inflate_blocksH_roundtrip
                                   the generalised round trips over the `...H` encoders of Spec/ZlibHdr.lean
                                   (stored / fixed-Huffman / any mixture with dynamic-Huffman blocks)
    flateDecode_header_irrelevant, flate_blocksH_roundtrip, flate_illegal_header_is_error
                                   the same through the model of FlateDecode::transform
    inflate_headerNo_roundtrip     the instance the generator uses: header number i

  The decoder model does not look at the declared window (nor does zlib's inflate unless built INFLATE_STRICT):
  the round trips need no hypothesis relating the distances used to CINFO.
  Leaf module: nothing imports it.
-/
import Parsley.Props.C06
import Parsley.Spec.ZlibHdr
namespace Parsley.C06
open Parsley Parsley.Filters Parsley.FiltersSpec

/-- the four header tests of the decoder model are RFC 1950's reading of the two bytes -/
theorem hdrOk_eq_legal (cmf flg : UInt8) : InflRej.hdrOk cmf flg = ZlibHdr.legal cmf flg := by
  unfold InflRej.hdrOk ZlibHdr.legal ZlibHdr.cm ZlibHdr.cinfo ZlibHdr.fcheckOk ZlibHdr.fdict
  have h : (decide (cmf.toNat / 16 ≤ 7)) = !(decide (cmf.toNat / 16 > 7)) := by
    by_cases c : cmf.toNat / 16 ≤ 7
    · have : ¬ (cmf.toNat / 16 > 7) := by omega
      simp [c, this]
    · have : cmf.toNat / 16 > 7 := by omega
      simp [c, this]
  rw [h]
  generalize ((cmf.toNat * 256 + flg.toNat) % 31 == 0) = a
  generalize (cmf.toNat % 16 == 8) = b
  generalize (decide (cmf.toNat / 16 > 7)) = c
  generalize (flg.toNat / 32 % 2 == 1) = d
  cases a <;> cases b <;> cases c <;> cases d <;> rfl

/-- every pair the spec writer produces is legal (32 instances) -/
theorem header_legal (c l : Nat) (hc : c ≤ 7) (hl : l ≤ 3) :
    ∃ cmf flg, ZlibHdr.header c l = [cmf, flg] ∧ ZlibHdr.legal cmf flg = true := by
  have : ∀ c : Fin 8, ∀ l : Fin 4,
      ∃ cmf flg, ZlibHdr.header c.val l.val = [cmf, flg] ∧ ZlibHdr.legal cmf flg = true := by
    intro c l
    refine ⟨(ZlibHdr.header c.val l.val)[0]!, (ZlibHdr.header c.val l.val)[1]!, ?_, ?_⟩
    · revert c l; decide
    · revert c l; decide
  exact this ⟨c, by omega⟩ ⟨l, by omega⟩

/-- FCHECK is determined by the other fields: for CINFO <= 7 and FDICT clear exactly one of the 32 values completes
    a multiple of 31 (the sum without FCHECK is never itself a multiple, so 0 / 31 do not both occur) -/
theorem fcheck_unique (c l f : Nat) (hc : c ≤ 7) (hl : l ≤ 3) (hf : f < 32)
    (h3 : ((16 * c + 8) * 256 + (64 * l + f)) % 31 = 0) :
    (31 - ((16 * c + 8) * 256 + 64 * l) % 31) % 31 = f := by
  omega

/-- a legal pair is the header the spec writer produces for its CINFO and FLEVEL fields -/
theorem legal_is_header (cmf flg : UInt8) (h : ZlibHdr.legal cmf flg = true) :
    cmf.toNat / 16 ≤ 7 ∧ flg.toNat / 64 ≤ 3 ∧ [cmf, flg] = ZlibHdr.header (cmf.toNat / 16) (flg.toNat / 64) := by
  simp only [ZlibHdr.legal, ZlibHdr.cm, ZlibHdr.cinfo, ZlibHdr.fcheckOk, ZlibHdr.fdict, Bool.and_eq_true, beq_iff_eq,
    Bool.not_eq_true', beq_eq_false_iff_ne, ne_eq] at h
  obtain ⟨⟨⟨h1, h2⟩, h3⟩, h4⟩ := h
  have h2 := of_decide_eq_true h2
  have hx : cmf.toNat < 256 := cmf.toNat_lt
  have hy : flg.toNat < 256 := flg.toNat_lt
  have hl : flg.toNat / 64 ≤ 3 := by omega
  refine ⟨h2, hl, ?_⟩
  unfold ZlibHdr.header
  have e1 : 16 * (cmf.toNat / 16) + 8 = cmf.toNat := by omega
  have hf : flg.toNat % 64 < 32 := by
    generalize flg.toNat = y at h4
    omega
  have ey : flg.toNat = 64 * (flg.toNat / 64) + flg.toNat % 64 := by omega
  have e2 : 64 * (flg.toNat / 64) + (31 - ((16 * (cmf.toNat / 16) + 8) * 256 + 64 * (flg.toNat / 64)) % 31) % 31 = flg.toNat := by
    have := fcheck_unique (cmf.toNat / 16) (flg.toNat / 64) (flg.toNat % 64) h2 hl hf (by rw [e1, ← ey]; exact h3)
    omega
  simp only
  rw [e2, e1, UInt8.ofNat_toNat, UInt8.ofNat_toNat]

/-- **the decoder takes exactly the 32 headers CINFO 0..7 x FLEVEL 0..3 of the spec writer** -/
theorem legal_iff_headers (cmf flg : UInt8) : ZlibHdr.legal cmf flg = true ↔ [cmf, flg] ∈ ZlibHdr.headers := by
  constructor
  · intro h
    obtain ⟨hc, hl, he⟩ := legal_is_header cmf flg h
    simp only [ZlibHdr.headers, List.mem_flatMap, List.mem_map, List.mem_range]
    exact ⟨cmf.toNat / 16, by omega, flg.toNat / 64, by omega, he.symm⟩
  · intro h
    simp only [ZlibHdr.headers, List.mem_flatMap, List.mem_map, List.mem_range] at h
    obtain ⟨c, hc, l, hl, he⟩ := h
    obtain ⟨cmf', flg', he', hleg⟩ := header_legal c l (by omega) (by omega)
    rw [he'] at he
    injection he with h1 h2
    injection h2 with h2 _
    subst h1; subst h2
    exact hleg

example : ZlibHdr.headers.length = 32 := by decide

/-- **The header is irrelevant among the legal ones**: the decoder treats `cmf flg rest` as `78 01 rest`. -/
theorem inflate_header_irrelevant (cmf flg : UInt8) (h : ZlibHdr.legal cmf flg = true) (rest : Bytes) :
    Inflate.inflate (cmf :: flg :: rest) = Inflate.inflate (0x78 :: 0x01 :: rest) := by
  rw [InflRej.inflate_hdr_ok cmf flg rest (by rw [hdrOk_eq_legal]; exact h),
      InflRej.inflate_hdr_ok 0x78 0x01 rest (by decide)]

/-- **Every other pair is rejected**, whatever follows: CINFO 8..15, CM other than 8, FDICT set, wrong FCHECK. -/
theorem inflate_illegal_header_rejected (cmf flg : UInt8) (h : ZlibHdr.legal cmf flg = false) (rest : Bytes) :
    Inflate.inflate (cmf :: flg :: rest) = .err .transform :=
  InflRej.inflate_hdr_bad cmf flg rest (by rw [hdrOk_eq_legal]; exact h)

/-- ... named by the field at fault -/
theorem inflate_illegal_header_fields (cmf flg : UInt8) (rest : Bytes)
    (h : ZlibHdr.cm cmf ≠ 8 ∨ ZlibHdr.cinfo cmf > 7 ∨ ZlibHdr.fdict flg = true ∨ ZlibHdr.fcheckOk cmf flg = false) :
    Inflate.inflate (cmf :: flg :: rest) = .err .transform := by
  apply inflate_illegal_header_rejected
  unfold ZlibHdr.legal
  rcases h with h | h | h | h
  · simp [h]
  · have : ¬ ZlibHdr.cinfo cmf ≤ 7 := by omega
    simp [this]
  · simp [h]
  · simp [h]

example : Inflate.inflate (0x88 :: 0x1C :: [1, 2, 3]) = .err .transform :=     -- CINFO 8, FCHECK right
  inflate_illegal_header_fields _ _ _ (by decide)
example : Inflate.inflate (0x79 :: 0x18 :: [1, 2, 3]) = .err .transform :=     -- CM 9, FCHECK right
  inflate_illegal_header_fields _ _ _ (by decide)
example : Inflate.inflate (0x78 :: 0x20 :: [1, 2, 3]) = .err .transform :=     -- FDICT, FCHECK right
  inflate_illegal_header_fields _ _ _ (by decide)
example : Inflate.inflate (0x48 :: 0x88 :: [1, 2, 3]) = .err .transform :=     -- 48 89 with FCHECK off by one
  inflate_illegal_header_fields _ _ _ (by decide)

/-! ### the round trips under any legal header -/

/-- stored blocks (= `inflate_stored_roundtrip_hdr`, restated over the spec's reading of the header) -/
theorem inflate_storedH_roundtrip (cmf flg : UInt8) (hh : ZlibHdr.legal cmf flg = true)
    (parts : List Bytes) (h : ∀ p ∈ parts, p.length ≤ 65535) (trailing : Bytes) :
    Inflate.inflate (ZlibHdr.zlibStoredH [cmf, flg] parts ++ trailing) = .ok parts.flatten := by
  have := inflate_stored_roundtrip_hdr cmf flg (by rw [hdrOk_eq_legal]; exact hh) parts h trailing
  simpa [ZlibHdr.zlibStoredH] using this

/-- fixed-Huffman blocks from any valid LZ77 factorisation, the last block final -/
theorem inflate_fixedH_roundtrip (cmf flg : UInt8) (hh : ZlibHdr.legal cmf flg = true)
    (blocks : List (List DeflateFixed.Tok)) (last : List DeflateFixed.Tok) (payload trailing : Bytes)
    (h : DeflateFixed.resolveBlocks (blocks ++ [last]) [] = some payload) :
    Inflate.inflate (ZlibHdr.zlibFixedFH [cmf, flg] blocks last payload ++ trailing) = .ok payload := by
  have e := inflate_fixed_roundtrip_final blocks last payload trailing h
  have hz : ZlibHdr.zlibFixedFH [cmf, flg] blocks last payload ++ trailing =
      cmf :: flg :: (DeflateFixed.pack (DeflateFixed.streamBitsF blocks last) ++ be32Bytes (adler32 payload) ++ trailing) := by
    simp [ZlibHdr.zlibFixedFH]
  have hz' : DeflateFixed.zlibFixedF blocks last payload ++ trailing =
      0x78 :: 0x01 :: (DeflateFixed.pack (DeflateFixed.streamBitsF blocks last) ++ be32Bytes (adler32 payload) ++ trailing) := by
    simp [DeflateFixed.zlibFixedF]
  rw [hz, inflate_header_irrelevant cmf flg hh, ← hz']
  exact e

/-- ... closed by an empty final block -/
theorem inflate_fixedH_roundtrip_closed (cmf flg : UInt8) (hh : ZlibHdr.legal cmf flg = true)
    (blocks : List (List DeflateFixed.Tok)) (payload trailing : Bytes)
    (h : DeflateFixed.resolveBlocks blocks [] = some payload) :
    Inflate.inflate (ZlibHdr.zlibFixedH [cmf, flg] blocks payload ++ trailing) = .ok payload := by
  have e := inflate_fixed_roundtrip blocks payload trailing h
  have hz : ZlibHdr.zlibFixedH [cmf, flg] blocks payload ++ trailing =
      cmf :: flg :: (DeflateFixed.pack (DeflateFixed.streamBits blocks) ++ be32Bytes (adler32 payload) ++ trailing) := by
    simp [ZlibHdr.zlibFixedH]
  have hz' : DeflateFixed.zlibFixed blocks payload ++ trailing =
      0x78 :: 0x01 :: (DeflateFixed.pack (DeflateFixed.streamBits blocks) ++ be32Bytes (adler32 payload) ++ trailing) := by
    simp [DeflateFixed.zlibFixed]
  rw [hz, inflate_header_irrelevant cmf flg hh, ← hz']
  exact e

/-- **any valid plan of stored, fixed-Huffman and dynamic-Huffman blocks under any legal header** -/
theorem inflate_blocksH_roundtrip (cmf flg : UInt8) (hh : ZlibHdr.legal cmf flg = true)
    (bs : List DeflateDyn.Block) (last : DeflateDyn.Block) (payload trailing : Bytes)
    (h : DeflateDyn.planOk bs last payload) :
    Inflate.inflate (ZlibHdr.zlibBlocksH [cmf, flg] bs last payload ++ trailing) = .ok payload := by
  have e := inflate_blocks_roundtrip bs last payload trailing h
  have hz : ZlibHdr.zlibBlocksH [cmf, flg] bs last payload ++ trailing =
      cmf :: flg :: (DeflateFixed.pack (DeflateDyn.streamBitsAt 0 bs last) ++ be32Bytes (adler32 payload) ++ trailing) := by
    simp [ZlibHdr.zlibBlocksH]
  have hz' : DeflateDyn.zlibBlocks bs last payload ++ trailing =
      0x78 :: 0x01 :: (DeflateFixed.pack (DeflateDyn.streamBitsAt 0 bs last) ++ be32Bytes (adler32 payload) ++ trailing) := by
    simp [DeflateDyn.zlibBlocks]
  rw [hz, inflate_header_irrelevant cmf flg hh, ← hz']
  exact e

/-- the instance the generator uses: header number `i` of the 32 (CINFO = i / 4 % 8, FLEVEL = i % 4) -/
theorem inflate_headerNo_roundtrip (i : Nat)
    (bs : List DeflateDyn.Block) (last : DeflateDyn.Block) (payload trailing : Bytes)
    (h : DeflateDyn.planOk bs last payload) :
    Inflate.inflate (ZlibHdr.zlibBlocksH (ZlibHdr.headerNo i) bs last payload ++ trailing) = .ok payload := by
  obtain ⟨cmf, flg, he, hl⟩ := header_legal (i / 4 % 8) (i % 4) (by omega) (by omega)
  unfold ZlibHdr.headerNo
  rw [he]
  exact inflate_blocksH_roundtrip cmf flg hl bs last payload trailing h

/-- non-vacuity: the plan of Props/C06Dyn's example under `48 89` (4 KiB window, FLEVEL 2) and under `08 1D` -/
example : Inflate.inflate (ZlibHdr.zlibBlocksH [0x48, 0x89] [] (.fixed [.lit 97, .lit 98, .lit 99, .copy 6 0 2 0])
    [97, 98, 99, 97, 98, 99, 97, 98, 99, 97, 98, 99] ++ [10]) = .ok [97, 98, 99, 97, 98, 99, 97, 98, 99, 97, 98, 99] :=
  inflate_blocksH_roundtrip _ _ (by decide) _ _ _ _ ⟨by decide, by decide⟩
example : Inflate.inflate (ZlibHdr.zlibStoredH [0x08, 0x1D] [[1, 2, 3], [4]] ++ [7]) = .ok [1, 2, 3, 4] :=
  inflate_storedH_roundtrip _ _ (by decide) _ (by decide) _

/-! ### through the model of `FlateDecode::transform` -/

theorem flateDecode_header_irrelevant (ext : Ext) (o : Option Dict) (cmf flg : UInt8)
    (h : ZlibHdr.legal cmf flg = true) (rest : Bytes) :
    flateDecode ext o (cmf :: flg :: rest) = flateDecode ext o (0x78 :: 0x01 :: rest) := by
  unfold flateDecode zlibInit
  rw [inflate_header_irrelevant cmf flg h rest]

theorem flate_blocksH_roundtrip (ext : Ext) (o : Option Dict) (hpred : predictorOf o = 1)
    (cmf flg : UInt8) (hh : ZlibHdr.legal cmf flg = true)
    (bs : List DeflateDyn.Block) (last : DeflateDyn.Block) (payload trailing : Bytes)
    (h : DeflateDyn.planOk bs last payload) :
    flateDecode ext o (ZlibHdr.zlibBlocksH [cmf, flg] bs last payload ++ trailing) = .ok payload :=
  flateDecode_ok ext o _ _ hpred (inflate_blocksH_roundtrip cmf flg hh bs last payload trailing h)

/-- a stream that does not begin with one of the 32 headers: TransformError under any parameters -/
theorem flate_illegal_header_is_error (ext : Ext) (o : Option Dict) (cmf flg : UInt8)
    (h : ZlibHdr.legal cmf flg = false) (rest : Bytes) :
    flateDecode ext o (cmf :: flg :: rest) = .err .transform :=
  flateDecode_err_transform ext o _ _ (inflate_illegal_header_rejected cmf flg h rest)

example (ext : Ext) : flateDecode ext none (0x88 :: 0x1C :: [3, 0, 0, 0, 0, 1]) = .err .transform :=
  flate_illegal_header_is_error ext none _ _ (by decide) _

end Parsley.C06
