/-
  C06 follow-up (seed C06_12): OTHER KEYS OF THE STREAM DICTIONARY.

  `decode_stream` returns the original dictionary without the filter entries.  ISO 32000-1 Table 5: the filter entries
  of a stream dictionary are /Filter and /DecodeParms and nothing else - /F is the file specification of an external
  stream, /FFilter and /FDecodeParms describe the external file, /DL is the decoded length; F, DP, Fl, AHx, A85 are
  abbreviations of INLINE IMAGES (Table 93), which are not stream objects.  The seeded change also dropped /F and /DP.

  `dict_pruned` (Props/C06.lean) already speaks about EVERY key through `lookup`.  Here the same at the level of the
  entries, with no restriction on the other keys or their values:

    prune_mem                 an entry is in the pruned dictionary iff it is in the original and its key is neither name
    prune_eq_self             a dictionary without the two keys is returned unchanged
    prune_cons_other / prune_cons_filter / prune_cons_parms / prune_append   the pruning entry by entry
    prune_spec                `prune` IS the judge's `specPrune` (Driver/C06.lean), written with `!=` / `&&`
    prune_idem, prune_no_filter_entries
    prune_length              exactly the entries with the two keys are missing
    decode_stream_dict        whatever `decodeStream` accepts, the dictionary it returns is `prune d` - for ANY chain,
                              ANY content, ANY parameter code `ext`
    decode_stream_keeps_entry / decode_stream_keeps_lookup    ... so every other entry survives with its value
    near_keys_differ          the 29 near keys of the generator are neither of the two names (by evaluation)

  Leaf module: nothing imports it.
-/
import Parsley.Props.C06
namespace Parsley.C06
open Parsley Parsley.Filters

/-- is `k` one of the two filter-entry names? -/
def isFilterKey (k : Bytes) : Bool := k = kFilter || k = kDecodeParms

theorem isFilterKey_iff (k : Bytes) : isFilterKey k = true ↔ k = kFilter ∨ k = kDecodeParms := by
  simp [isFilterKey]

/-- **prune_mem.**  The entries of the pruned dictionary are exactly the entries of the original whose key is neither
    `Filter` nor `DecodeParms`: no other key is dropped, whatever it looks like and whatever its value. -/
theorem prune_mem (d : Dict) (k : Bytes) (v : Obj) :
    (k, v) ∈ prune d ↔ (k, v) ∈ d ∧ k ≠ kFilter ∧ k ≠ kDecodeParms := by
  unfold prune
  simp [List.mem_filter]

example : (([70] : Bytes), Obj.name nFlate) ∈ prune [(kFilter, .name nHex), ([70], .name nFlate)] :=
  (prune_mem _ _ _).2 ⟨by simp, by decide, by decide⟩

/-- **prune_eq_self.**  A dictionary that has neither entry comes back as it is. -/
theorem prune_eq_self (d : Dict) (h : ∀ kv ∈ d, kv.1 ≠ kFilter ∧ kv.1 ≠ kDecodeParms) : prune d = d := by
  unfold prune
  rw [List.filter_eq_self]
  intro kv hkv
  have := h kv hkv
  simp [this.1, this.2]

example : prune [([70], .name nFlate), ([68, 80], .dict [([80], .int 12)])] =
    [([70], .name nFlate), ([68, 80], .dict [([80], .int 12)])] :=
  prune_eq_self _ (by intro kv h; simp at h; rcases h with h | h <;> subst h <;> exact ⟨by decide, by decide⟩)

theorem prune_nil : prune [] = [] := rfl

theorem prune_cons_other (k : Bytes) (v : Obj) (d : Dict) (h1 : k ≠ kFilter) (h2 : k ≠ kDecodeParms) :
    prune ((k, v) :: d) = (k, v) :: prune d := by
  unfold prune
  rw [List.filter_cons_of_pos (by simp [h1, h2])]

theorem prune_cons_filter (v : Obj) (d : Dict) : prune ((kFilter, v) :: d) = prune d := by
  unfold prune
  rw [List.filter_cons_of_neg (by simp)]

theorem prune_cons_parms (v : Obj) (d : Dict) : prune ((kDecodeParms, v) :: d) = prune d := by
  unfold prune
  rw [List.filter_cons_of_neg (by simp)]

theorem prune_append (a b : Dict) : prune (a ++ b) = prune a ++ prune b := by
  unfold prune
  exact List.filter_append ..

/-- **prune_spec.**  The model's pruning is the oracle's: the filter the judge applies to the case's dictionary
    (`Driver.C06.specPrune`: `kv.1 != "Filter" && kv.1 != "DecodeParms"`). -/
theorem prune_spec (d : Dict) :
    prune d = d.filter fun kv => kv.1 != kFilter && kv.1 != kDecodeParms := by
  unfold prune
  congr 1
  funext kv
  by_cases h1 : kv.1 = kFilter <;> by_cases h2 : kv.1 = kDecodeParms <;> simp [h1, h2]

theorem prune_no_filter_entries (d : Dict) : ∀ kv ∈ prune d, kv.1 ≠ kFilter ∧ kv.1 ≠ kDecodeParms := by
  intro kv h
  obtain ⟨k, v⟩ := kv
  exact ((prune_mem d k v).1 h).2

theorem prune_idem (d : Dict) : prune (prune d) = prune d :=
  prune_eq_self _ (prune_no_filter_entries d)

/-- **prune_length.**  Nothing but the entries under the two names is missing. -/
theorem prune_length (d : Dict) :
    (prune d).length + (d.filter fun kv => isFilterKey kv.1).length = d.length := by
  induction d with
  | nil => rfl
  | cons kv t ih =>
    obtain ⟨k, v⟩ := kv
    by_cases h : isFilterKey k = true
    · have hp : prune ((k, v) :: t) = prune t := by
        rcases (isFilterKey_iff k).1 h with h | h
        · subst h; exact prune_cons_filter v t
        · subst h; exact prune_cons_parms v t
      rw [hp, List.filter_cons_of_pos (by simpa using h)]
      simp only [List.length_cons]
      omega
    · have h' : ¬ (k = kFilter ∨ k = kDecodeParms) := fun c => h ((isFilterKey_iff k).2 c)
      rw [prune_cons_other k v t (fun c => h' (Or.inl c)) (fun c => h' (Or.inr c)),
          List.filter_cons_of_neg (by simpa using h)]
      simp only [List.length_cons]
      omega

example : (prune [(kDecodeParms, .null), ([70], .int 1), (kFilter, .name nHex), ([68, 80], .null)]).length = 2 := by rfl

/-- **decode_stream_dict.**  Whatever stream `decodeStream` accepts - any filter chain or none, any spelling of
    /Filter and /DecodeParms, any content, any parameter code - the dictionary it returns is the pruned original. -/
theorem decode_stream_dict (ext : Ext) (d : Dict) (content out : Bytes) (d' : Dict)
    (h : decodeStream ext d content = .ok (out, d')) : d' = prune d := by
  unfold decodeStream at h
  split at h
  · split at h
    · simp only [Res.ok.injEq, Prod.mk.injEq] at h
      exact h.2.symm
    · cases h
    · cases h
  · cases h
  · cases h

/-- **decode_stream_keeps_entry.**  Every entry under another key survives decoding, with its value, and nothing is
    invented: the entries of the decoded dictionary are those of the original minus exactly /Filter and /DecodeParms. -/
theorem decode_stream_keeps_entry (ext : Ext) (d : Dict) (content out : Bytes) (d' : Dict)
    (h : decodeStream ext d content = .ok (out, d')) (k : Bytes) (v : Obj) :
    (k, v) ∈ d' ↔ (k, v) ∈ d ∧ k ≠ kFilter ∧ k ≠ kDecodeParms := by
  rw [decode_stream_dict ext d content out d' h]
  exact prune_mem d k v

/-- the same through `lookup` (first entry under a key) -/
theorem decode_stream_keeps_lookup (ext : Ext) (d : Dict) (content out : Bytes) (d' : Dict)
    (h : decodeStream ext d content = .ok (out, d')) (k : Bytes) (h1 : k ≠ kFilter) (h2 : k ≠ kDecodeParms) :
    lookup k d' = lookup k d := by
  rw [decode_stream_dict ext d content out d' h, dict_pruned]
  simp [h1, h2]

/-- the near keys of the generator (`Driver.C06.nearKeys`): the inline-image abbreviations F DP Fl AHx A85 D, FFilter,
    FDecodeParms, Filters, Filte, filter, decodeparms, DecodeParm, FilterX, FILTER, DecodeParams, DecodeParmsX, L, DL,
    Type, Subtype, Params, N, First, the empty name, `Filter` / `DecodeParms` followed by NUL or space, NUL in front -/
def nearKeys : List Bytes :=
  [[70], [68, 80], [70, 108], [65, 72, 120], [65, 56, 53], [68], [70, 70, 105, 108, 116, 101, 114],
   [70, 68, 101, 99, 111, 100, 101, 80, 97, 114, 109, 115], [70, 105, 108, 116, 101, 114, 115], [70, 105, 108, 116, 101],
   [102, 105, 108, 116, 101, 114], [100, 101, 99, 111, 100, 101, 112, 97, 114, 109, 115],
   [68, 101, 99, 111, 100, 101, 80, 97, 114, 109], [70, 105, 108, 116, 101, 114, 88], [70, 73, 76, 84, 69, 82],
   [68, 101, 99, 111, 100, 101, 80, 97, 114, 97, 109, 115], [68, 101, 99, 111, 100, 101, 80, 97, 114, 109, 115, 88],
   [76], [68, 76], [84, 121, 112, 101], [83, 117, 98, 116, 121, 112, 101], [80, 97, 114, 97, 109, 115], [78],
   [70, 105, 114, 115, 116], [], kFilter ++ [0], kFilter ++ [32], kDecodeParms ++ [0], 0 :: kFilter]

/-- **near_keys_differ.**  None of them is a filter entry (a test by evaluation of the 29 names). -/
theorem near_keys_differ : ∀ k ∈ nearKeys, k ≠ kFilter ∧ k ≠ kDecodeParms := by decide

/-- an external-file stream: /F (file specification), /FFilter, /DP and /DL beside the filter entries - all four come back -/
example :
    decodeStream ⟨fun _ _ => .err .transform, fun _ => .err .transform⟩ [(kDecodeParms, .null), ([68, 76], .int 3), ([68, 80], .dict [([80], .int 12)]),
      ([70], .name nFlate), ([70, 70, 105, 108, 116, 101, 114], .name nFlate), (kFilter, .name nHex)] [52, 49, 62] =
    .ok ([65], [([68, 76], .int 3), ([68, 80], .dict [([80], .int 12)]), ([70], .name nFlate),
                ([70, 70, 105, 108, 116, 101, 114], .name nFlate)]) := by rfl

end Parsley.C06
