/-
  C06 - the rejection side of FlateDecode for EVERY accepted zlib stream, whatever encoder wrote it
  (stored, fixed-Huffman, dynamic-Huffman blocks in any mixture; no specification encoder is
  involved: these are facts about the executable decoder `Inflate.inflate` alone).

    consumed e                      the number of input bytes the decoder looks at: the two header
                                    bytes, the DEFLATE blocks up to the byte boundary after the final
                                    block, and the four Adler-32 bytes
    inflate_ignores_trailing        inflate e = ok x  ->  inflate (take (consumed e) e ++ t) = ok x, all t
    inflate_truncation_rejected     inflate e = ok x  ->  inflate (take m e) = err transform, all m < consumed e
                                    (never ok, never the out-of-fuel panic)
    inflate_trailer_verdict         the result depends on the four trailer bytes only through equality with
                                    the big-endian Adler-32 of the payload
    inflate_trailer_altered_rejected  any other value in one of the four trailer bytes: err transform
    flate_truncation_is_error, flate_trailer_is_error, flate_accepted_truncation_is_error
                                    the same through the model of FlateDecode::transform, any parameters
    chain_flate_truncated_is_error, decode_stream_flate_truncated_is_error
                                    a Flate layer whose zlib stream is cut, behind any correctly encoded
                                    outer layers: decode_stream fails - no partial output reported as success
    adler32_one_byte, inflate_stored_data_byte_altered, flate_stored_data_byte_is_error
                                    one altered DATA byte of a stored block is caught by the Adler-32 check

  Proof: locality of every reading function of the model (Lemmas/InflatePrefix.lean) + the existing
  fuel-sufficiency lemma (LoaderDecoders.blocks_fuel).  Leaf module: nothing imports it.
-/
import Parsley.Props.C06
import Parsley.Props.C06Dyn
import Parsley.Lemmas.InflatePrefix
namespace Parsley.C06
open Parsley Parsley.Filters Parsley.FiltersSpec

/-! ### what the decoder looks at -/

/-- the number of input bytes the decoder looks at: header (2) + DEFLATE blocks up to the byte
    boundary after the final block + Adler-32 (4); 0 when the block loop does not finish -/
def consumed (e : Bytes) : Nat :=
  match e with
  | _ :: _ :: rest =>
    match Inflate.blocks (8 * rest.length + 8) (Array.mkEmpty (4 * rest.length)) ⟨rest, 0, 0⟩ with
    | .done _ r => e.length - r.rest.length + 4
    | _ => 0
  | _ => 0

/-- the verdict on the bytes that follow the DEFLATE data, given the decoded payload `x` -/
def trailerVerdict (x : Bytes) : Bytes → Res Bytes
  | a :: b :: c :: d :: _ =>
    if ((a.toNat * 256 + b.toNat) * 256 + c.toNat) * 256 + d.toNat == Inflate.adler32 x then .ok x
    else .err .transform
  | _ => .err .transform

theorem finish_done (out : Array UInt8) (s : Bytes) (acc cnt : Nat) :
    InflRej.finish (.done out ⟨s, acc, cnt⟩) = trailerVerdict out.toList s := by
  rcases s with _ | ⟨a, _ | ⟨b, _ | ⟨c, _ | ⟨d, t⟩⟩⟩⟩ <;> rfl

theorem trailerVerdict_ok {y x s : Bytes} (h : trailerVerdict y s = .ok x) : y = x := by
  rcases s with _ | ⟨a, _ | ⟨b, _ | ⟨c, _ | ⟨d, t⟩⟩⟩⟩
  · cases h
  · cases h
  · cases h
  · cases h
  · simp only [trailerVerdict] at h
    split at h
    · cases h; rfl
    · cases h

theorem trailerVerdict_ok_shape {x s : Bytes} (h : trailerVerdict x s = .ok x) :
    ∃ t, s = be32Bytes (adler32 x) ++ t := by
  rcases s with _ | ⟨a, _ | ⟨b, _ | ⟨c, _ | ⟨d, t⟩⟩⟩⟩
  · cases h
  · cases h
  · cases h
  · cases h
  · simp only [trailerVerdict] at h
    split at h
    · rename_i heq
      refine ⟨t, ?_⟩
      rw [adler_model_eq_spec] at heq
      have heq' := eq_of_beq heq
      rw [← heq', InflRej.be32Bytes_of_val]
      rfl
    · cases h

theorem trailerVerdict_be32 (x tr t : Bytes) (htr : tr.length = 4) :
    trailerVerdict x (tr ++ t) = if tr = be32Bytes (adler32 x) then .ok x else .err .transform := by
  obtain ⟨a, b, c, d, rfl⟩ := InflRej.length_four tr htr
  simp only [List.cons_append, List.nil_append, trailerVerdict, adler_model_eq_spec]
  by_cases hv : ((a.toNat * 256 + b.toNat) * 256 + c.toNat) * 256 + d.toNat = adler32 x
  · rw [if_pos (by simpa using hv), if_pos (by rw [← hv, InflRej.be32Bytes_of_val])]
  · rw [if_neg (by simpa using hv), if_neg]
    intro heq
    apply hv
    have hlt := adler32_lt x
    have := be32_roundtrip _ hlt
    simp only [be32Bytes, List.cons.injEq, and_true] at heq
    obtain ⟨rfl, rfl, rfl, rfl⟩ := heq
    exact this

theorem mkEmpty_eq (n m : Nat) : (Array.mkEmpty n : Array UInt8) = Array.mkEmpty m := rfl

/-- **the anatomy of an accepted stream**: two header bytes that pass the four tests, a DEFLATE
    part `p`, a trailer; and with ANY bytes `s` in the place of the trailer the decoder reads the
    same DEFLATE part, decodes the same payload and judges `s` by its first four bytes only -/
theorem inflate_ok_split (e x : Bytes) (h : Inflate.inflate e = .ok x) :
    ∃ cmf flg p tr, e = cmf :: flg :: (p ++ tr) ∧ InflRej.hdrOk cmf flg = true ∧
      trailerVerdict x tr = .ok x ∧
      ∀ s, Inflate.inflate (cmf :: flg :: (p ++ s)) = trailerVerdict x s ∧
           consumed (cmf :: flg :: (p ++ s)) = p.length + 6 := by
  match e, h with
  | [], h => cases h
  | [_], h => cases h
  | cmf :: flg :: rest, h =>
    cases hh : InflRej.hdrOk cmf flg with
    | false => rw [InflRej.inflate_hdr_bad _ _ _ hh] at h; cases h
    | true =>
      rw [InflRej.inflate_hdr_ok _ _ _ hh] at h
      cases hb : Inflate.blocks (8 * rest.length + 8) (Array.mkEmpty (4 * rest.length)) ⟨rest, 0, 0⟩ with
      | done out r =>
        rw [hb] at h
        obtain ⟨p, hp, hs⟩ := Prefix.blocks_loc _ _ _ _ _ hb
        have hp' : rest = p ++ r.rest := hp
        obtain ⟨rr, racc, rcnt⟩ := r
        rw [finish_done] at h
        have hx := trailerVerdict_ok h
        subst hx
        refine ⟨cmf, flg, p, rr, by rw [hp'], hh, h, fun s => ?_⟩
        have hbs := hs s (8 * (p ++ s).length + 8) (by simp [Prefix.bl_mk])
        rw [mkEmpty_eq _ (4 * (p ++ s).length)] at hbs
        constructor
        · rw [InflRej.inflate_hdr_ok _ _ _ hh, hbs, finish_done]
        · simp only [consumed]
          rw [hbs]
          simp only [List.length_cons, List.length_append]
          omega
      | bad => rw [hb] at h; cases h
      | short => rw [hb] at h; cases h
      | fuel => rw [hb] at h; cases h

/-- the decoder returns a payload or a `TransformError`, nothing else (in particular never the
    out-of-fuel outcome: `LoaderDecoders.inflate_no_panic`) -/
theorem inflate_ok_or_err (e : Bytes) : (∃ y, Inflate.inflate e = .ok y) ∨ Inflate.inflate e = .err .transform := by
  match e with
  | [] => exact .inr rfl
  | [_] => exact .inr rfl
  | cmf :: flg :: rest =>
    cases hh : InflRej.hdrOk cmf flg with
    | false => exact .inr (InflRej.inflate_hdr_bad _ _ _ hh)
    | true =>
      have hnp := LoaderDecoders.inflate_no_panic (cmf :: flg :: rest)
      rw [InflRej.inflate_hdr_ok _ _ _ hh] at hnp ⊢
      cases hb : Inflate.blocks (8 * rest.length + 8) (Array.mkEmpty (4 * rest.length)) ⟨rest, 0, 0⟩ with
      | done out r =>
        obtain ⟨rr, racc, rcnt⟩ := r
        rw [finish_done]
        rcases rr with _ | ⟨a, _ | ⟨b, _ | ⟨c, _ | ⟨d, t⟩⟩⟩⟩
        · exact .inr rfl
        · exact .inr rfl
        · exact .inr rfl
        · exact .inr rfl
        · simp only [trailerVerdict]
          split
          · exact .inl ⟨_, rfl⟩
          · exact .inr rfl
      | bad => exact .inr rfl
      | short => exact .inr rfl
      | fuel => rw [hb] at hnp; exact absurd rfl (hnp _)

/-! ### what follows the trailer is ignored, what precedes its end is needed -/

theorem take_consumed (cmf flg : UInt8) (p b4 t0 t : Bytes) (hb : b4.length = 4) :
    (cmf :: flg :: (p ++ (b4 ++ t0))).take (p.length + 6) ++ t = cmf :: flg :: (p ++ (b4 ++ t)) := by
  have h6 : p.length + 6 = (p.length + 4) + 1 + 1 := by omega
  rw [h6, List.take_succ_cons, List.take_succ_cons, List.take_append, List.take_of_length_le (by omega)]
  have h4 : p.length + 4 - p.length = b4.length := by omega
  rw [h4, List.take_append, List.take_of_length_le (Nat.le_refl _)]
  simp

theorem consumed_bounds (e x : Bytes) (h : Inflate.inflate e = .ok x) :
    6 ≤ consumed e ∧ consumed e ≤ e.length := by
  obtain ⟨cmf, flg, p, tr, rfl, _, htr, hs⟩ := inflate_ok_split e x h
  obtain ⟨t0, rfl⟩ := trailerVerdict_ok_shape htr
  rw [(hs _).2]
  simp only [List.length_cons, List.length_append, be32Bytes]
  omega

/-- **inflate_ignores_trailing.**  Whatever encoder wrote the stream: if the decoder accepts `e`
    then it accepts the first `consumed e` bytes of `e` followed by ANY bytes `t`, with the same
    payload (and looks at the same number of bytes). -/
theorem inflate_ignores_trailing (e x : Bytes) (h : Inflate.inflate e = .ok x) (t : Bytes) :
    Inflate.inflate (e.take (consumed e) ++ t) = .ok x ∧
    consumed (e.take (consumed e) ++ t) = consumed e := by
  obtain ⟨cmf, flg, p, tr, rfl, _, htr, hs⟩ := inflate_ok_split e x h
  obtain ⟨t0, rfl⟩ := trailerVerdict_ok_shape htr
  rw [(hs _).2, take_consumed _ _ _ _ _ _ rfl]
  refine ⟨?_, (hs _).2⟩
  rw [(hs _).1, trailerVerdict_be32 _ _ _ rfl, if_pos rfl]

/-- **inflate_truncation_rejected.**  Whatever encoder wrote the stream: if the decoder accepts
    `e` (the `_any` form: if its block loop finishes on `e`, the trailer may even be wrong), every prefix of `e` that is shorter than what the decoder looked at is REJECTED - with a
    `TransformError`, never accepted with some other (partial) payload, never the out-of-fuel
    outcome.  (Cut in the header, inside any block of any type - in a Huffman code, in extra bits,
    in a dynamic header, in stored data -, between blocks, in the padding, inside the trailer.) -/
theorem inflate_truncation_rejected_any (e : Bytes)
    (m : Nat) (hm : m < consumed e) : Inflate.inflate (e.take m) = .err .transform := by
  rcases inflate_ok_or_err (e.take m) with ⟨y, hy⟩ | herr
  · exfalso
    obtain ⟨cmf, flg, p, tr, he', _, htr, hs⟩ := inflate_ok_split (e.take m) y hy
    obtain ⟨t0, rfl⟩ := trailerVerdict_ok_shape htr
    have hlen : p.length + 6 ≤ m := by
      have := congrArg List.length he'
      simp only [List.length_take, List.length_cons, List.length_append, be32Bytes] at this
      omega
    have he : e = cmf :: flg :: (p ++ (be32Bytes (adler32 y) ++ t0 ++ e.drop m)) := by
      conv => lhs; rw [← List.take_append_drop m e, he']
      simp
    have hc := (hs (be32Bytes (adler32 y) ++ t0 ++ e.drop m)).2
    rw [← he] at hc
    omega
  · exact herr

theorem inflate_truncation_rejected (e x : Bytes) (_h : Inflate.inflate e = .ok x)
    (m : Nat) (hm : m < consumed e) : Inflate.inflate (e.take m) = .err .transform :=
  inflate_truncation_rejected_any e m hm

/-- the decoder needs exactly `consumed e` bytes: that prefix is accepted, no shorter one is -/
theorem consumed_exact (e x : Bytes) (h : Inflate.inflate e = .ok x) :
    Inflate.inflate (e.take (consumed e)) = .ok x ∧
    ∀ m, m < consumed e → Inflate.inflate (e.take m) = .err .transform :=
  ⟨by simpa using (inflate_ignores_trailing e x h []).1, inflate_truncation_rejected e x h⟩

/-! ### the Adler-32 trailer -/

/-- **inflate_trailer_verdict.**  The result depends on the four trailer bytes only through their
    equality with the big-endian Adler-32 of the payload: put ANY four bytes `tr` (and any `t`
    after them) in the place of the trailer. -/
theorem inflate_trailer_verdict (e x : Bytes) (h : Inflate.inflate e = .ok x)
    (tr : Bytes) (htr : tr.length = 4) (t : Bytes) :
    Inflate.inflate (e.take (consumed e - 4) ++ tr ++ t) =
      if tr = be32Bytes (adler32 x) then .ok x else .err .transform := by
  obtain ⟨cmf, flg, p, tr0, rfl, _, htr0, hs⟩ := inflate_ok_split e x h
  obtain ⟨t0, rfl⟩ := trailerVerdict_ok_shape htr0
  rw [(hs _).2]
  have h2 : p.length + 6 - 4 = p.length + 1 + 1 := by omega
  rw [h2, List.take_succ_cons, List.take_succ_cons, List.take_append, List.take_of_length_le (Nat.le_refl _),
    Nat.sub_self, List.take_zero, List.append_nil]
  have : cmf :: flg :: p ++ tr ++ t = cmf :: flg :: (p ++ (tr ++ t)) := by simp
  rw [this, (hs _).1, trailerVerdict_be32 _ _ _ htr]

/-- the trailer of an accepted stream is the big-endian Adler-32 of its payload -/
theorem inflate_trailer_is_adler (e x : Bytes) (h : Inflate.inflate e = .ok x) :
    (e.drop (consumed e - 4)).take 4 = be32Bytes (adler32 x) := by
  obtain ⟨cmf, flg, p, tr0, rfl, _, htr0, hs⟩ := inflate_ok_split e x h
  obtain ⟨t0, rfl⟩ := trailerVerdict_ok_shape htr0
  rw [(hs _).2]
  have h2 : p.length + 6 - 4 = p.length + 1 + 1 := by omega
  rw [h2, List.drop_succ_cons, List.drop_succ_cons, List.drop_append, List.drop_of_length_le (Nat.le_refl _),
    Nat.sub_self, List.drop_zero, List.nil_append]
  rfl

/-- **inflate_trailer_altered_rejected.**  Whatever encoder wrote the stream: overwriting any one
    of the four Adler-32 bytes of an accepted stream with any other value gives a `TransformError`. -/
theorem inflate_trailer_altered_rejected (e x : Bytes) (h : Inflate.inflate e = .ok x)
    (i : Nat) (hi : i < 4) (v : UInt8) (hv : e[consumed e - 4 + i]? ≠ some v) :
    Inflate.inflate (e.set (consumed e - 4 + i) v) = .err .transform := by
  obtain ⟨cmf, flg, p, tr0, rfl, _, htr0, hs⟩ := inflate_ok_split e x h
  obtain ⟨t0, rfl⟩ := trailerVerdict_ok_shape htr0
  rw [(hs _).2] at hv ⊢
  have hidx : p.length + 6 - 4 + i = (cmf :: flg :: p).length + i := by simp only [List.length_cons]; omega
  have hsplit : cmf :: flg :: (p ++ (be32Bytes (adler32 x) ++ t0)) =
      (cmf :: flg :: p) ++ be32Bytes (adler32 x) ++ t0 := by simp
  have hb4 : (be32Bytes (adler32 x)).length = 4 := rfl
  rw [hidx, hsplit] at hv ⊢
  rw [InflRej.set_mid _ _ _ _ _ (by omega)]
  have hne : (be32Bytes (adler32 x)).set i v ≠ be32Bytes (adler32 x) := by
    intro heq
    apply hv
    rw [List.append_assoc, List.getElem?_append_right (by omega), Nat.add_sub_cancel_left,
      List.getElem?_append_left (by omega), ← heq, List.getElem?_set_self (by omega)]
  have : cmf :: flg :: p ++ (be32Bytes (adler32 x)).set i v ++ t0 =
      cmf :: flg :: (p ++ ((be32Bytes (adler32 x)).set i v ++ t0)) := by simp
  rw [this, (hs _).1, trailerVerdict_be32 _ _ _ (by simp [hb4]), if_neg hne]

/-! ### through the glue: FlateDecode::transform -/

/-- **flate_truncation_is_error.**  `FlateDecode::transform`, whatever its parameters, fails with a
    `TransformError` on every cut of a stream the zlib decoder accepts. -/
theorem flate_truncation_is_error (ext : Ext) (o : Option Dict) (e x : Bytes)
    (h : Inflate.inflate e = .ok x) (m : Nat) (hm : m < consumed e) :
    flateDecode ext o (e.take m) = .err .transform :=
  flateDecode_err_transform ext o _ _ (inflate_truncation_rejected e x h m hm)

/-- **flate_trailer_is_error.** -/
theorem flate_trailer_is_error (ext : Ext) (o : Option Dict) (e x : Bytes)
    (h : Inflate.inflate e = .ok x) (i : Nat) (hi : i < 4) (v : UInt8)
    (hv : e[consumed e - 4 + i]? ≠ some v) :
    flateDecode ext o (e.set (consumed e - 4 + i) v) = .err .transform :=
  flateDecode_err_transform ext o _ _ (inflate_trailer_altered_rejected e x h i hi v hv)

/-- a stream `FlateDecode::transform` accepts (with any parameters, predictor or not) is one the
    zlib decoder accepts -/
theorem flateDecode_ok_inflate (ext : Ext) (o : Option Dict) (e y : Bytes)
    (h : flateDecode ext o e = .ok y) : ∃ x, Inflate.inflate e = .ok x := by
  rcases inflate_ok_or_err e with hx | herr
  · exact hx
  · rw [flateDecode_err_transform ext o e _ herr] at h; cases h

/-- the same, stated from the glue's own verdict: what `FlateDecode::transform` accepts (any
    parameters `o`), it rejects when cut short (under any parameters `o'`) -/
theorem flate_accepted_truncation_is_error (ext : Ext) (o o' : Option Dict) (e y : Bytes)
    (h : flateDecode ext o e = .ok y) (m : Nat) (hm : m < consumed e) :
    flateDecode ext o' (e.take m) = .err .transform := by
  obtain ⟨x, hx⟩ := flateDecode_ok_inflate ext o e y h
  exact flate_truncation_is_error ext o' e x hx m hm

/-! ### through the chain: decode_stream -/

/-- **chain_flate_truncated_is_error.**  A Flate layer at any depth of a filter chain whose zlib
    stream is cut (the outer layers `pre` being correct encodings of the cut stream): the chain
    fails with a `TransformError`; nothing partial is reported as success. -/
theorem chain_flate_truncated_is_error (ext : Ext) (pre : List Filter) (f : Filter) (post : List Filter)
    (e x content : Bytes) (m : Nat) (hf : f.name = nFlate)
    (h : Inflate.inflate e = .ok x) (hm : m < consumed e)
    (hc : ChainEnc pre (e.take m) content) :
    runChain ext (pre ++ f :: post) content = .err .transform :=
  chain_error_propagates ext pre f post [] (e.take m) content .transform hc
    (by unfold applyFilter; rw [if_pos hf]; exact flate_truncation_is_error ext _ e x h m hm)

/-- **decode_stream_flate_truncated_is_error.** -/
theorem decode_stream_flate_truncated_is_error (ext : Ext) (d : Dict) (pre : List Filter) (f : Filter)
    (post : List Filter) (e x content : Bytes) (m : Nat)
    (hd : filters d = .ok (pre ++ f :: post)) (hf : f.name = nFlate)
    (h : Inflate.inflate e = .ok x) (hm : m < consumed e)
    (hc : ChainEnc pre (e.take m) content) :
    decodeStream ext d content = .err .transform := by
  simp only [decodeStream, hd, chain_flate_truncated_is_error ext pre f post e x content m hf h hm hc]

/-- ... and the same for an altered trailer byte -/
theorem chain_flate_trailer_is_error (ext : Ext) (pre : List Filter) (f : Filter) (post : List Filter)
    (e x content : Bytes) (i : Nat) (hi : i < 4) (v : UInt8) (hf : f.name = nFlate)
    (h : Inflate.inflate e = .ok x) (hv : e[consumed e - 4 + i]? ≠ some v)
    (hc : ChainEnc pre (e.set (consumed e - 4 + i) v) content) :
    runChain ext (pre ++ f :: post) content = .err .transform :=
  chain_error_propagates ext pre f post [] _ content .transform hc
    (by unfold applyFilter; rw [if_pos hf]; exact flate_trailer_is_error ext _ e x h i hi v hv)

/-- stated from `decode_stream`'s own verdict, Flate outermost: a stream that `decode_stream`
    accepts is rejected when its data are cut anywhere before the end of the zlib trailer -/
theorem decode_stream_accepted_truncation_is_error (ext : Ext) (d : Dict) (f : Filter) (post : List Filter)
    (e : Bytes) (res : Bytes × Dict) (hd : filters d = .ok (f :: post)) (hf : f.name = nFlate)
    (h : decodeStream ext d e = .ok res) (m : Nat) (hm : m < consumed e) :
    decodeStream ext d (e.take m) = .err .transform := by
  have hfl : ∃ y, flateDecode ext f.options e = .ok y := by
    simp only [decodeStream, hd, runChain] at h
    cases ha : applyFilter ext f e with
    | ok y =>
      unfold applyFilter at ha; rw [if_pos hf] at ha; exact ⟨y, ha⟩
    | err k => rw [ha] at h; cases h
    | panic s => rw [ha] at h; cases h
  obtain ⟨y, hy⟩ := hfl
  have := flate_accepted_truncation_is_error ext f.options f.options e y hy m hm
  simp only [decodeStream, hd, runChain]
  unfold applyFilter; rw [if_pos hf, this]

/-! ### one altered DATA byte of a stored block is caught by the Adler-32 check -/

theorem adlerAB_append (u v : Bytes) (p : Nat × Nat) : adlerAB (u ++ v) p = adlerAB v (adlerAB u p) := by
  induction u generalizing p with
  | nil => rfl
  | cons z u ih => obtain ⟨a, b⟩ := p; simp only [List.cons_append, adlerAB]; exact ih _

/-- the low half of the checksum is injective in its starting value: different running sums
    stay different whatever bytes follow -/
theorem adlerAB_fst_ne : ∀ (w : Bytes) (a b a' b' : Nat), a < 65521 → a' < 65521 → a ≠ a' →
    (adlerAB w (a, b)).1 ≠ (adlerAB w (a', b')).1
  | [], _, _, _, _, _, _, hne => hne
  | z :: w, a, b, a', b', ha, ha', hne => by
    simp only [adlerAB]
    exact adlerAB_fst_ne w _ _ _ _ (Nat.mod_lt _ (by decide)) (Nat.mod_lt _ (by decide)) (by omega)

/-- **adler32_one_byte.**  Two byte strings that differ in exactly one byte (any position, any
    length - no 2^32 bound is needed) have different Adler-32 checksums: the low half `1 + sum of
    the bytes mod 65521` moves by the byte difference, which is non-zero and below 256 < 65521. -/
theorem adler32_one_byte (u w : Bytes) (x y : UInt8) (hxy : x ≠ y) :
    adler32 (u ++ x :: w) ≠ adler32 (u ++ y :: w) := by
  have hxy' : x.toNat ≠ y.toNat := fun e => hxy (UInt8.toNat_inj.mp e)
  have hx := x.toNat_lt
  have hy := y.toNat_lt
  unfold adler32
  rw [adlerAB_append, adlerAB_append]
  have h0 := adlerAB_lt u (1, 0) (by decide) (by decide)
  generalize adlerAB u (1, 0) = q at h0
  obtain ⟨a0, b0⟩ := q
  simp only at h0
  simp only [adlerAB]
  have hne := adlerAB_fst_ne w ((a0 + x.toNat) % 65521) ((b0 + (a0 + x.toNat) % 65521) % 65521)
    ((a0 + y.toNat) % 65521) ((b0 + (a0 + y.toNat) % 65521) % 65521)
    (Nat.mod_lt _ (by decide)) (Nat.mod_lt _ (by decide)) (by omega)
  have h1 := adlerAB_lt w ((a0 + x.toNat) % 65521, (b0 + (a0 + x.toNat) % 65521) % 65521)
    (Nat.mod_lt _ (by decide)) (Nat.mod_lt _ (by decide))
  have h2 := adlerAB_lt w ((a0 + y.toNat) % 65521, (b0 + (a0 + y.toNat) % 65521) % 65521)
    (Nat.mod_lt _ (by decide)) (Nat.mod_lt _ (by decide))
  generalize adlerAB w ((a0 + x.toNat) % 65521, (b0 + (a0 + x.toNat) % 65521) % 65521) = q1 at hne h1
  generalize adlerAB w ((a0 + y.toNat) % 65521, (b0 + (a0 + y.toNat) % 65521) % 65521) = q2 at hne h2
  obtain ⟨a1, b1⟩ := q1
  obtain ⟨a2, b2⟩ := q2
  simp only at hne h1 h2 ⊢
  omega

example : adler32 ([1, 2] ++ 3 :: [4]) ≠ adler32 ([1, 2] ++ 7 :: [4]) := adler32_one_byte _ _ _ _ (by decide)

theorem be32Bytes_inj {n m : Nat} (hn : n < 4294967296) (hm : m < 4294967296)
    (h : be32Bytes n = be32Bytes m) : n = m := by
  have h1 := be32_roundtrip n hn
  have h2 := be32_roundtrip m hm
  simp only [be32Bytes, List.cons.injEq, and_true] at h
  obtain ⟨e1, e2, e3, e4⟩ := h
  rw [e1, e2, e3, e4] at h1
  omega

/-- **inflate_stored_data_byte_altered.**  A stored-block zlib stream (any payload, any partition)
    in which one DATA byte of one block is replaced by any other value - the block headers and the
    Adler-32 trailer being those of the original - is rejected, whatever follows. -/
theorem inflate_stored_data_byte_altered (ps qs : List Bytes) (u w : Bytes) (x y : UInt8) (hxy : x ≠ y)
    (h : ∀ q ∈ ps ++ (u ++ x :: w) :: qs, q.length ≤ 65535) (trailing : Bytes) :
    Inflate.inflate ([0x78, 0x01] ++ storedBlocks (ps ++ (u ++ y :: w) :: qs) ++
      be32Bytes (adler32 (ps ++ (u ++ x :: w) :: qs).flatten) ++ trailing) = .err .transform := by
  apply inflate_stored_adler_altered
  · intro q hq
    simp only [List.mem_append, List.mem_cons] at hq
    rcases hq with hq | rfl | hq
    · exact h q (by simp [hq])
    · have := h (u ++ x :: w) (by simp)
      simpa using this
    · exact h q (by simp [hq])
  · rfl
  · intro heq
    have := be32Bytes_inj (adler32_lt _) (adler32_lt _) heq
    have hne := adler32_one_byte (ps.flatten ++ u) (w ++ qs.flatten) x y hxy
    apply hne
    simpa using this

example : Inflate.inflate ([0x78, 0x01] ++ storedBlocks (([[1, 2, 3]] : List Bytes) ++ ([5] ++ 9 :: [6]) :: []) ++
    be32Bytes (adler32 (([[1, 2, 3]] : List Bytes) ++ ([5] ++ 4 :: [6]) :: []).flatten) ++ [7]) = .err .transform :=
  inflate_stored_data_byte_altered [[1, 2, 3]] [] [5] [6] 4 9 (by decide) (by decide) [7]

/-- the same as a statement about the stream itself: overwrite byte `u.length` of the data of the
    block that carries the part `u ++ x :: w` -/
theorem inflate_stored_data_byte_set (ps qs : List Bytes) (u w : Bytes) (x y : UInt8) (hxy : x ≠ y)
    (h : ∀ q ∈ ps ++ (u ++ x :: w) :: qs, q.length ≤ 65535) (trailing : Bytes) :
    Inflate.inflate ((zlibStored (ps ++ (u ++ x :: w) :: qs)).set
      (2 + (InflRej.storedNonfinal ps).length + 5 + u.length) y ++ trailing) = .err .transform := by
  have hpos : 2 + (InflRej.storedNonfinal ps).length + 5 + u.length =
      (([0x78, 0x01] ++ InflRej.storedNonfinal ps ++ [0x00]) ++ InflRej.lenHdr (u ++ x :: w).length ++ u).length + 0 := by
    simp [InflRej.lenHdr]; omega
  have hz : zlibStored (ps ++ (u ++ x :: w) :: qs) =
      (([0x78, 0x01] ++ InflRej.storedNonfinal ps ++ [0x00]) ++ InflRej.lenHdr (u ++ x :: w).length ++ u) ++ [x] ++
        (w ++ storedBlocks qs ++ be32Bytes (adler32 (ps ++ (u ++ x :: w) :: qs).flatten)) := by
    rw [zlibStored_split]; simp
  rw [hz, hpos, InflRej.set_mid _ _ _ _ _ (by simp)]
  have hlen : (u ++ x :: w).length = (u ++ y :: w).length := by simp
  have := inflate_stored_data_byte_altered ps qs u w x y hxy h trailing
  rw [InflRej.storedBlocks_append] at this
  simp only [storedBlocks, ← hlen] at this
  simpa [InflRej.lenHdr] using this

example : Inflate.inflate ((zlibStored [[1, 2, 3], [5, 4, 6]]).set 16 9 ++ [7]) = .err .transform :=
  inflate_stored_data_byte_set [[1, 2, 3]] [] [5] [6] 4 9 (by decide) (by decide) [7]

/-- **flate_stored_data_byte_is_error.**  ... through `FlateDecode::transform`, any parameters. -/
theorem flate_stored_data_byte_is_error (ext : Ext) (o : Option Dict) (ps qs : List Bytes) (u w : Bytes)
    (x y : UInt8) (hxy : x ≠ y) (h : ∀ q ∈ ps ++ (u ++ x :: w) :: qs, q.length ≤ 65535) (trailing : Bytes) :
    flateDecode ext o ((zlibStored (ps ++ (u ++ x :: w) :: qs)).set
      (2 + (InflRej.storedNonfinal ps).length + 5 + u.length) y ++ trailing) = .err .transform :=
  flateDecode_err_transform ext o _ _ (inflate_stored_data_byte_set ps qs u w x y hxy h trailing)

/-! ### instances: the streams of the specification's encoders (all three block types) -/

section SpecStreams
open Parsley.DeflateFixed Parsley.DeflateDyn Parsley.C06.Fixed Parsley.C06.Dyn Parsley.C06.InflRej

/-- on the stream the specification's encoder writes from a valid plan - stored, fixed-Huffman and
    dynamic-Huffman blocks in any order - the decoder looks at exactly the stream, whatever follows -/
theorem consumed_zlibBlocks (bs : List Block) (last : Block) (payload trailing : Bytes)
    (h : planOk bs last payload) :
    consumed (zlibBlocks bs last payload ++ trailing) = (zlibBlocks bs last payload).length := by
  obtain ⟨hok, hres⟩ := h
  obtain ⟨pad, hpad, hpack⟩ := bytesBits_pack (streamBitsAt 0 bs last)
  have hz : zlibBlocks bs last payload ++ trailing =
      0x78 :: 0x01 :: (pack (streamBitsAt 0 bs last) ++ (be32Bytes (adler32 payload) ++ trailing)) := by
    simp [zlibBlocks]
  have hzl : (zlibBlocks bs last payload).length = 2 + (pack (streamBitsAt 0 bs last)).length + 4 := by
    simp [zlibBlocks, be32Bytes]; omega
  rw [hz, hzl]
  have hbits : bitsOf ⟨pack (streamBitsAt 0 bs last) ++ (be32Bytes (adler32 payload) ++ trailing), 0, 0⟩ =
      streamBitsAt 0 bs last ++ (pad ++ bytesBits (be32Bytes (adler32 payload) ++ trailing)) := by
    simp only [bitsOf, lsbBits, List.nil_append, bytesBits_append, hpack, List.append_assoc]
  have hlen : (streamBitsAt 0 bs last).length ≤
      8 * (pack (streamBitsAt 0 bs last) ++ (be32Bytes (adler32 payload) ++ trailing)).length + 8 := by
    have := congrArg List.length hpack
    simp only [bytesBits_length, List.length_append] at this ⊢
    omega
  have hal : (0 + (bitsOf ⟨pack (streamBitsAt 0 bs last) ++ (be32Bytes (adler32 payload) ++ trailing), 0, 0⟩).length) % 8 = 0 := by
    simp only [bitsOf, lsbBits, List.nil_append, bytesBits_length]; omega
  obtain ⟨out', r', hb, _, hrest, hw'⟩ := blocks_mixed bs last 0 _
    (Array.mkEmpty (4 * (pack (streamBitsAt 0 bs last) ++ (be32Bytes (adler32 payload) ++ trailing)).length))
    ⟨pack (streamBitsAt 0 bs last) ++ (be32Bytes (adler32 payload) ++ trailing), 0, 0⟩ _ payload
    ⟨by show 0 < 2 ^ 0; omega, by show 0 < 8; omega⟩ hbits hal hok hlen (by simpa using hres)
  have hr : r'.rest = be32Bytes (adler32 payload) ++ trailing := rest_of_pad r' pad _ hw' hpad hrest
  simp only [consumed]
  rw [hb]
  simp only [hr, List.length_cons, List.length_append, be32Bytes]
  omega

/-- **inflate_blocks_truncated.**  EVERY proper prefix of the zlib stream the specification's
    encoder writes from a valid plan (any mixture of stored, fixed-Huffman and dynamic-Huffman
    blocks) is rejected: the counterpart of `inflate_stored_truncated` for all block types. -/
theorem inflate_blocks_truncated (bs : List Block) (last : Block) (payload : Bytes)
    (h : planOk bs last payload) (m : Nat) (hm : m < (zlibBlocks bs last payload).length) :
    Inflate.inflate ((zlibBlocks bs last payload).take m) = .err .transform := by
  have hc := consumed_zlibBlocks bs last payload [] h
  rw [List.append_nil] at hc
  exact inflate_truncation_rejected_any _ m (by rw [hc]; exact hm)

/-- **inflate_blocks_adler_byte.**  ... and every alteration of one of its four trailer bytes,
    whatever follows the stream. -/
theorem inflate_blocks_adler_byte (bs : List Block) (last : Block) (payload trailing : Bytes)
    (h : planOk bs last payload) (i : Nat) (hi : i < 4) (v : UInt8)
    (hv : (be32Bytes (adler32 payload))[i]? ≠ some v) :
    Inflate.inflate ((zlibBlocks bs last payload).set ((zlibBlocks bs last payload).length - 4 + i) v ++ trailing)
      = .err .transform := by
  have hok := inflate_blocks_roundtrip bs last payload trailing h
  have hc := consumed_zlibBlocks bs last payload trailing h
  have hzl : (zlibBlocks bs last payload).length = ([0x78, 0x01] ++ pack (streamBitsAt 0 bs last)).length + 4 := by
    simp [zlibBlocks, be32Bytes]
  have := inflate_trailer_altered_rejected _ _ hok i hi v (by
    rw [hc, List.getElem?_append_left (by omega)]
    have : (zlibBlocks bs last payload).length - 4 + i = ([0x78, 0x01] ++ pack (streamBitsAt 0 bs last)).length + i := by omega
    rw [this]
    unfold zlibBlocks
    rw [List.getElem?_append_right (by omega), Nat.add_sub_cancel_left]
    exact hv)
  rw [hc, List.set_append, if_pos (by omega)] at this
  exact this

end SpecStreams


/-! ### non-vacuity -/

-- (a) a stored-block stream followed by two bytes the decoder never looks at (evaluated)
example : Inflate.inflate (zlibStored [[1, 2, 3], [4]] ++ [9, 9]) = .ok [1, 2, 3, 4] ∧
    consumed (zlibStored [[1, 2, 3], [4]] ++ [9, 9]) = 25 ∧ (zlibStored [[1, 2, 3], [4]] ++ [9, 9]).length = 27 := by
  decide

-- (b) the 30-byte stream of Props/C06Dyn: a stored block, a DYNAMIC-Huffman block, a fixed-Huffman block
def exZ : Bytes :=
  DeflateDyn.zlibBlocks [.stored [97, 98, 99], .dyn exHdr exToks] (.fixed [.lit 33]) exPayload
theorem exZ_ok (t : Bytes) : Inflate.inflate (exZ ++ t) = .ok exPayload :=
  inflate_dynamic_roundtrip _ _ _ _ exPlan_ok
theorem exZ_consumed (t : Bytes) : consumed (exZ ++ t) = 30 := by
  rw [exZ, consumed_zlibBlocks _ _ _ _ exPlan_ok]; decide +kernel
theorem exZ_eq : exZ = [120, 1, 0, 3, 0, 252, 255, 97, 98, 99, 60, 194, 5, 9, 0, 0, 0, 0, 160, 255, 175, 37, 5, 51,
    69, 0, 34, 154, 4, 186] := by decide +kernel

example (t : Bytes) : Inflate.inflate ((exZ ++ [0x0D, 0x0A]).take (consumed (exZ ++ [0x0D, 0x0A])) ++ t) = .ok exPayload :=
  (inflate_ignores_trailing _ _ (exZ_ok _) t).1
-- cut one byte before the end of the trailer, and in the middle of the dynamic block's header
example : Inflate.inflate ((exZ ++ [0x0D, 0x0A]).take 29) = .err .transform :=
  inflate_truncation_rejected _ _ (exZ_ok _) 29 (by rw [exZ_consumed]; decide)
example : Inflate.inflate ((exZ ++ [0x0D, 0x0A]).take 17) = .err .transform :=
  inflate_truncation_rejected _ _ (exZ_ok _) 17 (by rw [exZ_consumed]; decide)
example : Inflate.inflate (exZ.take 29) = .err .transform :=
  inflate_blocks_truncated _ _ _ exPlan_ok 29 (by decide +kernel)
-- the trailer is [34, 154, 4, 186]: put back, the stream is accepted; with another last byte it is not
example : Inflate.inflate ((exZ ++ [0x0D]).take (consumed (exZ ++ [0x0D]) - 4) ++ [34, 154, 4, 186] ++ [7]) = .ok exPayload := by
  rw [inflate_trailer_verdict _ _ (exZ_ok _) _ rfl, if_pos (by decide +kernel)]
example : Inflate.inflate ((exZ ++ [0x0D]).take (consumed (exZ ++ [0x0D]) - 4) ++ [34, 154, 4, 187] ++ [7]) = .err .transform := by
  rw [inflate_trailer_verdict _ _ (exZ_ok _) _ rfl, if_neg (by decide +kernel)]
-- the last trailer byte (186, at index 29) overwritten with 0; the first one (34, at index 26) with 35
example : Inflate.inflate ((exZ ++ [0x0D]).set 29 0) = .err .transform := by
  have h := inflate_trailer_altered_rejected (exZ ++ [0x0D]) exPayload (exZ_ok _) 3 (by decide) 0
    (by rw [exZ_consumed, exZ_eq]; decide)
  have hc := exZ_consumed [0x0D]
  generalize consumed (exZ ++ [0x0D]) = c at h hc
  subst hc
  exact h
example : Inflate.inflate (exZ.set 26 35 ++ [7, 7]) = .err .transform := by
  have h := inflate_blocks_adler_byte _ _ _ [7, 7] exPlan_ok 0 (by decide) 35 (by decide +kernel)
  have hl : exZ.length = 30 := by rw [exZ_eq]; rfl
  rw [← exZ] at h
  generalize exZ.length = c at h hl
  subst hl
  exact h
example (ext : Ext) : flateDecode ext (some []) ((exZ ++ [0x0A]).take 17) = .err .transform :=
  flate_truncation_is_error ext _ _ _ (exZ_ok _) 17 (by rw [exZ_consumed]; decide)
example (ext : Ext) : flateDecode ext none ((exZ ++ [0x0A]).set 27 0) = .err .transform := by
  have h := flate_trailer_is_error ext none (exZ ++ [0x0A]) exPayload (exZ_ok _) 1 (by decide) 0
    (by rw [exZ_consumed, exZ_eq]; decide)
  have hc := exZ_consumed [0x0A]
  generalize consumed (exZ ++ [0x0A]) = c at h hc
  subst hc
  exact h
example (ext : Ext) : flateDecode ext none ((exZ ++ [0x0A]).take 29) = .err .transform :=
  flate_accepted_truncation_is_error ext (some []) none (exZ ++ [0x0A]) exPayload
    (flate_dynamic_roundtrip ext (some []) rfl _ _ _ _ exPlan_ok) 29 (by rw [exZ_consumed]; decide)

-- (c) chains: <</Filter [/ASCIIHexDecode /FlateDecode]>> over hex(first 12 of the 16 bytes of zlibStored [[7,8]]);
--     the cut Flate layer outermost; decode_stream on the whole and on the cut data
example (ext : Ext) : runChain ext ([⟨nHex, none⟩] ++ ⟨nFlate, some []⟩ :: [])
    (encodeHex (fun _ => true) false ((zlibStored [[7, 8]]).take 12)) = .err .transform :=
  chain_flate_truncated_is_error ext [⟨nHex, none⟩] ⟨nFlate, some []⟩ [] (zlibStored [[7, 8]]) [7, 8] _ 12 rfl
    (by decide) (by decide)
    (.cons (mid := (zlibStored [[7, 8]]).take 12)
      (.hex ⟨encodeHexDigits (fun _ => true) 0 ((zlibStored [[7, 8]]).take 12), [], by decide, by decide,
        .inl (by rw [show strip (encodeHexDigits (fun _ => true) 0 ((zlibStored [[7, 8]]).take 12))
                       = encodeHexDigits (fun _ => true) 0 ((zlibStored [[7, 8]]).take 12) from by decide]
                 exact encodeHexDigits_pairs _ _ 0)⟩)
      rfl .nil)
example (ext : Ext) : decodeStream ext [(kFilter, .name nFlate)] ((exZ ++ [0x0A]).take 20) = .err .transform :=
  decode_stream_flate_truncated_is_error ext _ [] ⟨nFlate, none⟩ [] (exZ ++ [0x0A]) exPayload _ 20 rfl rfl (exZ_ok [0x0A])
    (by rw [exZ_consumed]; decide) .nil
example (ext : Ext) : decodeStream ext [(kFilter, .name nFlate)] ((exZ ++ [0x0A]).take 20) = .err .transform :=
  decode_stream_accepted_truncation_is_error ext _ ⟨nFlate, none⟩ [] (exZ ++ [0x0A]) (exPayload, prune [(kFilter, .name nFlate)])
    rfl rfl
    (decode_stream_roundtrip ext _ [⟨nFlate, none⟩] exPayload _ rfl (.cons (.flateDyn exPlan_ok) rfl .nil))
    20 (by rw [exZ_consumed]; decide)
example (ext : Ext) : runChain ext ([] ++ ⟨nFlate, none⟩ :: []) ((exZ ++ [0x0A]).set 27 0) = .err .transform := by
  have h := chain_flate_trailer_is_error ext [] ⟨nFlate, none⟩ [] (exZ ++ [0x0A]) exPayload _ 1 (by decide) 0 rfl
    (exZ_ok _) (by rw [exZ_consumed, exZ_eq]; decide) .nil
  have hc := exZ_consumed [0x0A]
  generalize consumed (exZ ++ [0x0A]) = c at h hc
  subst hc
  exact h

end Parsley.C06
