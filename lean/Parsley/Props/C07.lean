/-
  C07 — Predictor reversal reproduces the original samples.

  Model: Parsley/Model/Predictor.lean (flate_lzw_filter, paeth, average, predictor_geometry and the
  parameter casts of FlateDecode::transform, after C07-01-predictor-arithmetic.patch).
  Spec : Parsley/Spec/Predictor.lean (forward PNG filters 0..4 and TIFF predictor 2).
  All theorems are universally quantified: all rows, all row counts, all parameter values.
-/
import Parsley.Lemmas.Predictor
import Parsley.Lemmas.PredictorTiff
namespace Parsley.C07
open Parsley

/-! ## Paeth and Average are the functions of the PNG specification (all byte triples) -/

-- `paeth_eq_spec`, `average_eq_spec` are proved in Lemmas/Predictor.lean by integer arithmetic
-- (the code computes |b-c|, |a-c|, |a+b-2c|; the specification |p-a|, |p-b|, |p-c| with p = a+b-c).

example : Pred.paeth 10 20 200 = 10 ∧ PredSpec.paeth 10 20 200 = 10 ∧ Pred.paeth 200 90 100 = 200 := by decide

/-- The Paeth predictor returns one of its arguments, and none of the three is closer to
    `p = a + b - c` (property of the specification function the code is proved equal to). -/
theorem paeth_nearest (a b c : UInt8) :
    let p : Int := (a.toNat : Int) + b.toNat - c.toNat
    let r : Int := (Pred.paeth a b c).toNat
    (Pred.paeth a b c = a ∨ Pred.paeth a b c = b ∨ Pred.paeth a b c = c) ∧
    PredSpec.iabs (p - r) ≤ PredSpec.iabs (p - a.toNat) ∧
    PredSpec.iabs (p - r) ≤ PredSpec.iabs (p - b.toNat) ∧
    PredSpec.iabs (p - r) ≤ PredSpec.iabs (p - c.toNat) := by
  rw [paeth_eq_spec]
  unfold PredSpec.paeth
  simp only
  split
  · rename_i h; refine ⟨Or.inl rfl, Int.le_refl _, h.1, h.2⟩
  · rename_i h
    split
    · rename_i h2; refine ⟨Or.inr (Or.inl rfl), ?_, Int.le_refl _, h2⟩
      omega
    · rename_i h2; refine ⟨Or.inr (Or.inr rfl), ?_, ?_, Int.le_refl _⟩ <;> omega

/-- The `i16` arithmetic of `fn paeth` cannot overflow (debug-build `+ - *` and `abs`): every
    intermediate value lies strictly inside the `i16` range. -/
theorem paeth_i16_in_range (a b c : UInt8) :
    let ia : Int := a.toNat; let ib : Int := b.toNat; let ic : Int := c.toNat
    (-32768 < ib - ic ∧ ib - ic ≤ 32767) ∧ (-32768 < ia - ic ∧ ia - ic ≤ 32767) ∧
    (0 ≤ ia + ib ∧ ia + ib ≤ 32767) ∧ (0 ≤ 2 * ic ∧ 2 * ic ≤ 32767) ∧
    (-32768 < ia + ib - 2 * ic ∧ ia + ib - 2 * ic ≤ 32767) := by
  have ha := a.toNat_lt; have hb := b.toNat_lt; have hc := c.toNat_lt
  simp only; omega

/-- The `u16` sum of `fn average` cannot overflow and the final `as u8` loses nothing. -/
theorem average_u16_in_range (a b : UInt8) :
    a.toNat + b.toNat < 65536 ∧ (a.toNat + b.toNat) / 2 < 256 ∧
    (Pred.average a b).toNat = (a.toNat + b.toNat) / 2 := by
  have ha := a.toNat_lt; have hb := b.toNat_lt
  refine ⟨by omega, by omega, ?_⟩
  unfold Pred.average
  rw [UInt8.toNat_ofNat']; omega

example : (Pred.average 255 255).toNat = 255 := by decide

/-! ## Geometry -/

theorem castUsize_nat (n : Nat) (h : n < 18446744073709551616) : Pred.castUsize (n : Int) = n := by
  unfold Pred.castUsize; omega

theorem geometry_eq (colors columns bpc : Nat)
    (hb : bpc = 1 ∨ bpc = 2 ∨ bpc = 4 ∨ bpc = 8 ∨ bpc = 16)
    (h1 : colors * bpc < 18446744073709551616) (h2 : columns * colors * bpc < 18446744073709551616) :
    Pred.geometry colors columns bpc =
      some (PredSpec.rowBytes columns colors bpc, PredSpec.bytesPerPixel colors bpc) := by
  unfold Pred.geometry Pred.checkedMul Pred.usizeLim
  rw [Nat.mul_assoc] at h2
  simp only [hb, if_true, h1, h2]
  unfold Pred.ceil8 PredSpec.rowBytes PredSpec.bytesPerPixel
  rw [Nat.mul_assoc]
  generalize columns * (colors * bpc) = x
  generalize colors * bpc = y
  congr 2
  · split <;> omega
  · split <;> omega

theorem flatten_nil_of_len (rows : List Bytes) (h : ∀ r ∈ rows, r.length = 0) : rows.flatten = [] := by
  induction rows with
  | nil => rfl
  | cons r rs ih =>
    have : r = [] := List.length_eq_zero_iff.mp (h r (by simp))
    simp [this, ih (fun x hx => h x (by simp [hx]))]

theorem tiff_encoded_length (bpc colors n : Nat) (hn : bpc = 16 → n % 2 = 0) :
    ∀ rows : List Bytes, (∀ r ∈ rows, r.length = n) →
      ((rows.map (PredSpec.tiffFilterRow bpc colors)).flatten).length = rows.length * n := by
  intro rows
  induction rows with
  | nil => simp
  | cons r rs ih =>
    intro h
    have hr := h r (by simp)
    simp only [List.map_cons, List.flatten_cons, List.length_append, List.length_cons,
      ih (fun x hx => h x (by simp [hx])),
      tiffFilterRow_length bpc colors r (by rw [hr]; exact hn), hr, Nat.succ_mul]
    omega

theorem png_encoded_length (ft bpp n : Nat) :
    ∀ (rows : List Bytes) (ps : Bytes), (∀ r ∈ rows, r.length = n) →
      (PredSpec.pngRows ft bpp ps rows).length = rows.length * (n + 1) := by
  intro rows
  induction rows with
  | nil => intro ps _; simp [PredSpec.pngRows]
  | cons r rs ih =>
    intro ps h
    have hr := h r (by simp)
    simp only [PredSpec.pngRows, List.length_cons, List.length_append, filterRow_length,
      ih r (fun x hx => h x (by simp [hx])), hr, Nat.succ_mul]
    omega

/-! ## The main theorem -/

/-- The round trip on `flate_lzw_filter` itself (`usize` arguments, no casts): the decoder applied to
    what the forward filter of the PNG/TIFF specification writes returns exactly the original rows.
    `predictor_roundtrip` below is this statement behind the `i64 as usize` casts of the callers. -/
theorem filter_roundtrip (p : PredSpec.Params) (rows : List Bytes)
    (hacc : p.accepted)
    (hfit1 : p.colors * p.bpc < 18446744073709551616)
    (hfit2 : p.columns * p.colors * p.bpc < 18446744073709551616)
    (hrows : ∀ r ∈ rows, r.length = PredSpec.rowBytes p.columns p.colors p.bpc)
    (hne : p.predictor = 2 ∨ rows ≠ []) :
    Pred.filter (PredSpec.predict p rows) p.predictor p.colors p.columns p.bpc = .ok rows.flatten := by
  obtain ⟨predictor, colors, columns, bpc⟩ := p
  simp only at hfit1 hfit2 hrows hne
  have hbpc : bpc = 1 ∨ bpc = 2 ∨ bpc = 4 ∨ bpc = 8 ∨ bpc = 16 := by
    rcases hacc with ⟨_, h⟩ | ⟨_, h⟩
    · simp only at h; omega
    · exact h
  have hpr : predictor = 2 ∨ (10 ≤ predictor ∧ predictor ≤ 14) := by
    rcases hacc with ⟨h, _⟩ | ⟨h, _⟩
    · exact Or.inl h
    · exact Or.inr h
  have hgeo := geometry_eq colors columns bpc hbpc hfit1 hfit2
  dsimp only
  unfold Pred.filter
  have hp1 : ¬ predictor = 1 := by omega
  have hp2 : ¬ (predictor ≠ 2 ∧ ¬ (10 ≤ predictor ∧ predictor ≤ 15)) := by omega
  rw [if_neg hp1, if_neg hp2, hgeo]
  dsimp only
  generalize hrb : PredSpec.rowBytes columns colors bpc = rb at *
  rcases hpr with h2 | hpng
  · -- TIFF
    subst h2
    have hb8 : bpc = 8 ∨ bpc = 16 := by
      rcases hacc with ⟨_, h⟩ | ⟨h, _⟩
      · exact h
      · simp only at h; omega
    have hn : bpc = 16 → rb % 2 = 0 := by
      intro h; subst h; rw [← hrb]; unfold PredSpec.rowBytes; omega
    have hnb : ¬ bpc < 8 := by omega
    rw [if_pos rfl, if_neg hnb]
    unfold PredSpec.predict
    dsimp only
    rw [if_pos rfl]
    by_cases hz : rb < 1
    · have : rb = 0 := by omega
      subst this
      rw [if_pos hz, flatten_nil_of_len rows hrows]
    · have hlen := tiff_encoded_length bpc colors rb hn rows hrows
      have hc : 1 ≤ colors := by
        apply Nat.pos_of_ne_zero
        intro h0; subst h0
        rw [← hrb] at hz; unfold PredSpec.rowBytes at hz; simp at hz
      rw [if_neg hz, hlen, if_neg (by simp), Nat.mul_div_cancel _ (by omega : 0 < rb)]
      have := tiffRows_spec bpc colors rb hb8 hc hn rows [] hrows
      simpa using this
  · -- PNG
    have hrne : rows ≠ [] := by
      rcases hne with h | h
      · omega
      · exact h
    have hpos : 1 ≤ rows.length := by
      cases rows with
      | nil => exact absurd rfl hrne
      | cons _ _ => simp
    have hadd : Pred.checkedAdd rb 1 = some (rb + 1) := by
      unfold Pred.checkedAdd Pred.usizeLim
      have : rb + 1 < 18446744073709551616 := by
        rw [← hrb]; unfold PredSpec.rowBytes; omega
      simp [this]
    have hlen := png_encoded_length (predictor - 10) (PredSpec.bytesPerPixel colors bpc) rb rows [] hrows
    have hbpp : 1 ≤ PredSpec.bytesPerPixel colors bpc := by unfold PredSpec.bytesPerPixel; omega
    have hge : rb + 1 ≤ rows.length * (rb + 1) := Nat.le_mul_of_pos_left _ hpos
    have hn2 : ¬ predictor = 2 := by omega
    rw [if_neg hn2, hadd]
    dsimp only
    unfold PredSpec.predict
    dsimp only
    rw [if_neg hn2, hlen, if_neg (by omega), if_neg (by simp),
      Nat.mul_div_cancel _ (by omega : 0 < rb + 1)]
    have := pngRows_spec predictor (PredSpec.bytesPerPixel colors bpc) rb hpng hbpp rows
      (List.replicate rb 0) [] [] hrows (by
        intro i hi
        simp [hi])
    simpa using this

/-- **predictor_roundtrip.**  For every predictor the decoder accepts (TIFF 2 on 8/16-bit samples,
    PNG None/Sub/Up/Average/Paeth on 1/2/4/8/16-bit samples), every number of colour components and
    columns whose row size fits a `usize`, and every list of rows of `rowBytes` bytes each (at least
    one row for the PNG predictors — see `png_no_rows_is_error`), the decoder applied to what the
    forward filter of the PNG/TIFF specification writes returns exactly the original rows.
    Parameters enter as the `i64` values of the /DecodeParms dictionary. -/
theorem predictor_roundtrip (p : PredSpec.Params) (rows : List Bytes)
    (hacc : p.accepted)
    (hcols : p.columns < 18446744073709551616)
    (hfit1 : p.colors * p.bpc < 18446744073709551616)
    (hfit2 : p.columns * p.colors * p.bpc < 18446744073709551616)
    (hrows : ∀ r ∈ rows, r.length = PredSpec.rowBytes p.columns p.colors p.bpc)
    (hne : p.predictor = 2 ∨ rows ≠ []) :
    Pred.transformTail (some (p.predictor : Int)) (some (p.colors : Int)) (some (p.columns : Int))
      (some (p.bpc : Int)) (PredSpec.predict p rows) = .ok rows.flatten := by
  have hbpc : 1 ≤ p.bpc ∧ p.bpc ≤ 16 := by
    rcases hacc with ⟨_, h⟩ | ⟨_, h⟩ <;> omega
  have hpr : p.predictor ≤ 14 := by
    rcases hacc with ⟨h, _⟩ | ⟨h, _⟩ <;> omega
  have hcolors : p.colors < 18446744073709551616 := by
    have : p.colors ≤ p.colors * p.bpc := Nat.le_mul_of_pos_right _ (by omega)
    omega
  unfold Pred.transformTail
  simp only [Option.getD_some]
  rw [castUsize_nat p.predictor (by omega), castUsize_nat p.colors hcolors,
    castUsize_nat p.columns hcols, castUsize_nat p.bpc (by omega)]
  exact filter_roundtrip p rows hacc hfit1 hfit2 hrows hne

/-- An image of two rows, three colour components, Paeth: the hypotheses are satisfiable and the
    statement is about a non-trivial computation. -/
example :
    let p : PredSpec.Params := ⟨14, 3, 2, 8⟩
    let rows : List Bytes := [[10, 20, 30, 15, 25, 35], [200, 1, 255, 7, 90, 3]]
    p.accepted ∧ (∀ r ∈ rows, r.length = PredSpec.rowBytes p.columns p.colors p.bpc) ∧
    PredSpec.predict p rows ≠ (4 : UInt8) :: rows[0]! ++ (4 : UInt8) :: rows[1]! ∧
    Pred.transformTail (some 14) (some 3) (some 2) (some 8) (PredSpec.predict p rows) = .ok rows.flatten := by
  decide

/-! ### default-valued /DecodeParms entries may be left out (ISO 32000-1 Table 8)

  The defaults are the specification's (`PredSpec.defaultPredictor` … `defaultColumns`); that the
  `unwrap_or` constants of `FlateDecode::transform` are the same four numbers is what these
  theorems establish about the model, and what the correspondence run (entries left out by the
  generators in every combination) establishes about the code. -/

/-- the option glue reads an absent entry as the specification's default -/
theorem transformTail_spelled (p : PredSpec.Params) (op oc on ob : Option Int) (d : Bytes)
    (hp : PredSpec.Spelled p.predictor PredSpec.defaultPredictor op)
    (hc : PredSpec.Spelled p.colors PredSpec.defaultColors oc)
    (hn : PredSpec.Spelled p.columns PredSpec.defaultColumns on)
    (hb : PredSpec.Spelled p.bpc PredSpec.defaultBpc ob) :
    Pred.transformTail op oc on ob d =
      Pred.transformTail (some (p.predictor : Int)) (some (p.colors : Int)) (some (p.columns : Int))
        (some (p.bpc : Int)) d := by
  unfold Pred.transformTail
  rcases hp with rfl | ⟨rfl, hp⟩ <;> rcases hc with rfl | ⟨rfl, hc⟩ <;>
    rcases hn with rfl | ⟨rfl, hn⟩ <;> rcases hb with rfl | ⟨rfl, hb⟩ <;>
    simp_all [PredSpec.defaultPredictor, PredSpec.defaultColors, PredSpec.defaultColumns, PredSpec.defaultBpc]

/-- **predictor_roundtrip_omitted.**  `predictor_roundtrip` for every legal spelling of the
    parameter dictionary: each of /Predictor, /Colors, /Columns, /BitsPerComponent written out, or
    left out when its value is the default of ISO 32000-1 Table 8 (1, 1, 1, 8) — in particular a
    single-column image (`columns = 1`) under any of the six predictors with /Columns absent. -/
theorem predictor_roundtrip_omitted (p : PredSpec.Params) (rows : List Bytes) (op oc on ob : Option Int)
    (hacc : p.accepted)
    (hcols : p.columns < 18446744073709551616)
    (hfit1 : p.colors * p.bpc < 18446744073709551616)
    (hfit2 : p.columns * p.colors * p.bpc < 18446744073709551616)
    (hrows : ∀ r ∈ rows, r.length = PredSpec.rowBytes p.columns p.colors p.bpc)
    (hne : p.predictor = 2 ∨ rows ≠ [])
    (hp : PredSpec.Spelled p.predictor PredSpec.defaultPredictor op)
    (hc : PredSpec.Spelled p.colors PredSpec.defaultColors oc)
    (hn : PredSpec.Spelled p.columns PredSpec.defaultColumns on)
    (hb : PredSpec.Spelled p.bpc PredSpec.defaultBpc ob) :
    Pred.transformTail op oc on ob (PredSpec.predict p rows) = .ok rows.flatten := by
  rw [transformTail_spelled p op oc on ob _ hp hc hn hb]
  exact predictor_roundtrip p rows hacc hcols hfit1 hfit2 hrows hne

/-- the generators' writer (`PredSpec.Params.entries`, any omission mask) produces legal spellings,
    and the dictionary it writes denotes `p` again -/
theorem entries_spelled (p : PredSpec.Params) (mask : Nat) :
    PredSpec.Spelled p.predictor PredSpec.defaultPredictor ((p.entries mask).1.map Int.ofNat) ∧
    PredSpec.Spelled p.colors PredSpec.defaultColors ((p.entries mask).2.1.map Int.ofNat) ∧
    PredSpec.Spelled p.columns PredSpec.defaultColumns ((p.entries mask).2.2.1.map Int.ofNat) ∧
    PredSpec.Spelled p.bpc PredSpec.defaultBpc ((p.entries mask).2.2.2.map Int.ofNat) ∧
    PredSpec.Params.ofEntries (p.entries mask).1 (p.entries mask).2.1 (p.entries mask).2.2.1
      (p.entries mask).2.2.2 = p := by
  have key : ∀ bit v dflt, PredSpec.Spelled v dflt ((PredSpec.spellEntry mask bit v dflt).map Int.ofNat) ∧
      (PredSpec.spellEntry mask bit v dflt).getD dflt = v := by
    intro bit v dflt
    unfold PredSpec.spellEntry PredSpec.Spelled
    split
    · rename_i h; exact ⟨Or.inr ⟨rfl, h.2⟩, h.2.symm⟩
    · exact ⟨Or.inl rfl, rfl⟩
  unfold PredSpec.Params.entries PredSpec.Params.ofEntries
  refine ⟨(key 0 _ _).1, (key 1 _ _).1, (key 2 _ _).1, (key 3 _ _).1, ?_⟩
  cases p
  simp only [(key 0 _ _).2, (key 1 _ _).2, (key 2 _ _).2, (key 3 _ _).2]

/-- A single-column Paeth image, three colour components, 8 bits: /Columns and /BitsPerComponent are
    left out (mask 15 leaves out every default-valued entry), the decoder still returns the rows;
    with `columns = 2` in place of the default the same data is rejected, so the default is
    observable on this input. -/
example :
    let p : PredSpec.Params := ⟨14, 3, 1, 8⟩
    let rows : List Bytes := [[10, 20, 30], [200, 1, 255]]
    p.accepted ∧ p.entries 15 = (some 14, some 3, none, none) ∧
    Pred.transformTail (some 14) (some 3) none none (PredSpec.predict p rows) = .ok rows.flatten ∧
    Pred.transformTail (some 14) (some 3) (some 2) none (PredSpec.predict p rows) = .err .transform := by
  decide

/-- The one shape excluded above: with a PNG predictor, an empty data stream (no rows) is rejected
    by the explicit size check of the code (`row_length > decoded.len()`), with an error. -/
theorem png_no_rows_is_error (predictor colors columns bpc : Nat) (h : 10 ≤ predictor ∧ predictor ≤ 15) :
    Pred.filter [] predictor colors columns bpc = .err .transform := by
  unfold Pred.filter
  rw [if_neg (by omega : ¬ predictor = 1), if_neg (by omega)]
  cases Pred.geometry colors columns bpc with
  | none => rfl
  | some g =>
    obtain ⟨rb, bpp⟩ := g
    dsimp only
    rw [if_neg (by omega : ¬ predictor = 2)]
    unfold Pred.checkedAdd
    by_cases h1 : rb + 1 < Pred.usizeLim
    · rw [if_pos h1]; dsimp only; rw [if_pos (by simp)]
    · rw [if_neg h1]

/-! ## The converse: the decoder accepts only encoder-shaped streams and inverts them (PNG and TIFF) -/

theorem geometry_some (colors columns bpc rb bpp : Nat)
    (h : Pred.geometry colors columns bpc = some (rb, bpp)) :
    rb = PredSpec.rowBytes columns colors bpc ∧ bpp = PredSpec.bytesPerPixel colors bpc := by
  by_cases hb : bpc = 1 ∨ bpc = 2 ∨ bpc = 4 ∨ bpc = 8 ∨ bpc = 16
  · by_cases h1 : colors * bpc < 18446744073709551616
    · by_cases h2 : columns * colors * bpc < 18446744073709551616
      · rw [geometry_eq colors columns bpc hb h1 h2] at h
        simp only [Option.some.injEq, Prod.mk.injEq] at h
        exact ⟨h.1.symm, h.2.symm⟩
      · rw [Nat.mul_assoc] at h2
        simp [Pred.geometry, Pred.checkedMul, Pred.usizeLim, hb, h1, h2] at h
    · simp [Pred.geometry, Pred.checkedMul, Pred.usizeLim, hb, h1] at h
  · simp [Pred.geometry, hb] at h

/-- **png_decode_sound** (converse of the round trip, the five PNG predictors): whenever the decoder
    returns a value for ANY data and ANY colours/columns/bits, that value is a non-empty list of rows of
    `rowBytes` bytes whose encoding by the forward filter of the specification is exactly the data it
    was given.  Together with `predictor_roundtrip` the decoder is the two-sided inverse of the PNG
    forward filter, and it accepts nothing but encoder-shaped streams.  (The same for TIFF predictor 2 is
    `tiff_decode_sound`; all six predictors together: `decode_sound`.) -/
theorem png_decode_sound (predictor colors columns bpc : Nat) (hp : 10 ≤ predictor ∧ predictor ≤ 14)
    (data out : Bytes) (h : Pred.filter data predictor colors columns bpc = .ok out) :
    ∃ rows : List Bytes, out = rows.flatten ∧ rows ≠ [] ∧
      (∀ r ∈ rows, r.length = PredSpec.rowBytes columns colors bpc) ∧
      PredSpec.predict ⟨predictor, colors, columns, bpc⟩ rows = data := by
  unfold Pred.filter at h
  rw [if_neg (by omega : ¬ predictor = 1), if_neg (by omega)] at h
  cases hg : Pred.geometry colors columns bpc with
  | none => rw [hg] at h; cases h
  | some g =>
    obtain ⟨rb, bpp⟩ := g
    obtain ⟨hrb, hbpp⟩ := geometry_some _ _ _ _ _ hg
    rw [hg] at h
    dsimp only at h
    rw [if_neg (by omega : ¬ predictor = 2)] at h
    unfold Pred.checkedAdd at h
    by_cases h4 : rb + 1 < Pred.usizeLim
    · rw [if_pos h4] at h; dsimp only at h
      by_cases h5 : rb + 1 > data.length
      · rw [if_pos h5] at h; cases h
      · rw [if_neg h5] at h
        by_cases h6 : data.length % (rb + 1) ≠ 0
        · rw [if_pos h6] at h; cases h
        · rw [if_neg h6] at h
          have hdvd : data.length = data.length / (rb + 1) * (rb + 1) :=
            (Nat.div_mul_cancel (Nat.dvd_of_mod_eq_zero (by omega))).symm
          have hb1 : 1 ≤ bpp := by rw [hbpp]; unfold PredSpec.bytesPerPixel; omega
          obtain ⟨rows, hres, hcnt, hlens, henc⟩ := pngRows_reencodes predictor bpp rb hp hb1
            (data.length / (rb + 1)) data (List.replicate rb 0) [] [] out hdvd
            (by intro i hi; simp [hi]) h
          refine ⟨rows, by simpa using hres, ?_, by rw [← hrb]; exact hlens, ?_⟩
          · intro hnil
            rw [hnil] at hcnt
            have : data.length / (rb + 1) = 0 := by simpa using hcnt.symm
            rw [this] at hdvd; omega
          · unfold PredSpec.predict
            dsimp only
            rw [if_neg (by omega : ¬ predictor = 2), ← hbpp]; exact henc
    · rw [if_neg h4] at h; cases h

/-- A PNG stream of two rows of 16-bit RGB pixels (Paeth) that no encoder call produced is decoded,
    and the rows found re-encode to it: the hypotheses of `png_decode_sound` are satisfiable. -/
example :
    let data : Bytes := [4, 0, 1, 0, 2, 0, 3, 0, 1, 0, 1, 0, 1, 4, 255, 255, 0, 0, 1, 0, 0, 2, 0, 0, 255, 0]
    let rows : List Bytes := [[0, 1, 0, 2, 0, 3, 0, 2, 0, 3, 0, 4], [255, 0, 0, 2, 1, 3, 255, 3, 0, 3, 0, 4]]
    Pred.filter data 14 3 2 16 = .ok rows.flatten ∧ rows ≠ [] ∧
    (∀ r ∈ rows, r.length = PredSpec.rowBytes 2 3 16) ∧ PredSpec.predict ⟨14, 3, 2, 16⟩ rows = data := by
  decide

/-- the sample sizes for which `predictor_geometry` returns a value -/
theorem geometry_bpc (colors columns bpc : Nat) (g : Nat × Nat)
    (h : Pred.geometry colors columns bpc = some g) :
    bpc = 1 ∨ bpc = 2 ∨ bpc = 4 ∨ bpc = 8 ∨ bpc = 16 := by
  by_cases hb : bpc = 1 ∨ bpc = 2 ∨ bpc = 4 ∨ bpc = 8 ∨ bpc = 16
  · exact hb
  · simp [Pred.geometry, hb] at h

/-- **tiff_decode_sound** (converse of the round trip, TIFF predictor 2): whenever the decoder returns
    a value for ANY data and ANY colours/columns/bits with a row of at least one byte, the samples are
    8 or 16 bits wide and the value is a list of rows of `rowBytes` bytes whose horizontal differencing
    (the forward filter of TIFF 6.0 section 14) is exactly the data it was given.  No size hypothesis:
    it holds wherever the code returns a value.  The hypothesis `hpos` cannot be dropped: with a
    zero-byte row the code returns the empty output for any data (`tiff_zero_row_discards`,
    `tiff_zero_row_not_injective_witness`). -/
theorem tiff_decode_sound (colors columns bpc : Nat)
    (hpos : 0 < PredSpec.rowBytes columns colors bpc) (data out : Bytes)
    (h : Pred.filter data 2 colors columns bpc = .ok out) :
    (bpc = 8 ∨ bpc = 16) ∧ ∃ rows : List Bytes, out = rows.flatten ∧
      (∀ r ∈ rows, r.length = PredSpec.rowBytes columns colors bpc) ∧
      PredSpec.predict ⟨2, colors, columns, bpc⟩ rows = data := by
  unfold Pred.filter at h
  rw [if_neg (by decide : ¬ (2 : Nat) = 1), if_neg (by omega)] at h
  cases hg : Pred.geometry colors columns bpc with
  | none => rw [hg] at h; cases h
  | some g =>
    have hbs := geometry_bpc _ _ _ _ hg
    obtain ⟨rb, bpp⟩ := g
    obtain ⟨hrb, _⟩ := geometry_some _ _ _ _ _ hg
    rw [hg] at h
    dsimp only at h
    rw [if_pos rfl] at h
    by_cases h3 : bpc < 8
    · rw [if_pos h3] at h; cases h
    · rw [if_neg h3] at h
      have hb8 : bpc = 8 ∨ bpc = 16 := by omega
      refine ⟨hb8, ?_⟩
      have hrb1 : ¬ rb < 1 := by omega
      rw [if_neg hrb1] at h
      by_cases h6 : data.length % rb ≠ 0
      · rw [if_pos h6] at h; cases h
      · rw [if_neg h6] at h
        have hdvd : data.length = data.length / rb * rb :=
          (Nat.div_mul_cancel (Nat.dvd_of_mod_eq_zero (by omega))).symm
        have hc : 1 ≤ colors := by
          apply Nat.pos_of_ne_zero
          intro h0; subst h0
          unfold PredSpec.rowBytes at hpos; simp at hpos
        have hn : bpc = 16 → rb % 2 = 0 := by
          intro h16; subst h16; rw [hrb]; unfold PredSpec.rowBytes; omega
        obtain ⟨rows, hres, _, hlens, henc⟩ := tiffRows_reencodes bpc colors rb hb8 hc hn
          (data.length / rb) data [] out hdvd h
        refine ⟨rows, by simpa using hres, by rw [← hrb]; exact hlens, ?_⟩
        unfold PredSpec.predict
        dsimp only
        rw [if_pos rfl]; exact henc

/-- `tiff_decode_sound` with the geometry hypothesis spelled out: at least one colour component and one
    column (and a sample size the code knows) is what makes a row non-empty. -/
theorem tiff_decode_sound_of_dims (colors columns bpc : Nat) (hc : 1 ≤ colors) (hn : 1 ≤ columns)
    (data out : Bytes) (h : Pred.filter data 2 colors columns bpc = .ok out) :
    (bpc = 8 ∨ bpc = 16) ∧ ∃ rows : List Bytes, out = rows.flatten ∧
      (∀ r ∈ rows, r.length = PredSpec.rowBytes columns colors bpc) ∧
      PredSpec.predict ⟨2, colors, columns, bpc⟩ rows = data := by
  by_cases hb : 1 ≤ bpc
  · refine tiff_decode_sound colors columns bpc ?_ data out h
    have h1 : 1 ≤ columns * colors := Nat.mul_le_mul hn hc
    have h2 : 1 ≤ columns * colors * bpc := Nat.mul_le_mul h1 hb
    unfold PredSpec.rowBytes; omega
  · have hb0 : bpc = 0 := by omega
    subst hb0
    simp [Pred.filter, Pred.geometry] at h

/-- Two rows of two 16-bit RGB pixels, with wrap-around in the second row: an arbitrary stream (not
    built by the encoder) is decoded and the rows found re-encode to it. -/
example :
    let data : Bytes := [0, 1, 0, 2, 0, 3, 0, 1, 0, 1, 0, 1, 255, 255, 0, 0, 1, 0, 0, 2, 0, 0, 255, 0]
    let rows : List Bytes := [[0, 1, 0, 2, 0, 3, 0, 2, 0, 3, 0, 4], [255, 255, 0, 0, 1, 0, 0, 1, 0, 0, 0, 0]]
    0 < PredSpec.rowBytes 2 3 16 ∧ Pred.filter data 2 3 2 16 = .ok rows.flatten ∧ rows.flatten ≠ data ∧
    (∀ r ∈ rows, r.length = PredSpec.rowBytes 2 3 16) ∧ PredSpec.predict ⟨2, 3, 2, 16⟩ rows = data := by
  decide

/-- **tiff_zero_row_discards** (the case excluded from `tiff_decode_sound`, exactly): when the geometry
    gives a row of zero bytes (/Columns 0 or /Colors 0) and the samples are 8 or 16 bits, the code takes
    its "No data" branch and returns the empty output for EVERY data - the data is not examined. -/
theorem tiff_zero_row_discards (colors columns bpc bpp : Nat)
    (hg : Pred.geometry colors columns bpc = some (0, bpp)) (hb : ¬ bpc < 8) (data : Bytes) :
    Pred.filter data 2 colors columns bpc = .ok [] := by
  unfold Pred.filter
  rw [if_neg (by decide : ¬ (2 : Nat) = 1), if_neg (by omega), hg]
  dsimp only
  rw [if_pos rfl, if_neg hb, if_pos (by decide)]

/-- the hypothesis of `tiff_zero_row_discards` in terms of the parameters: a zero-byte row is
    /Columns 0 or /Colors 0 -/
theorem tiff_zero_row_iff (colors columns bpc : Nat) (hb : bpc = 8 ∨ bpc = 16) :
    PredSpec.rowBytes columns colors bpc = 0 ↔ (columns = 0 ∨ colors = 0) := by
  unfold PredSpec.rowBytes
  constructor
  · intro h
    have h0 : columns * colors * bpc = 0 := by omega
    rcases Nat.mul_eq_zero.mp h0 with h1 | h1
    · rcases Nat.mul_eq_zero.mp h1 with h2 | h2
      · exact Or.inl h2
      · exact Or.inr h2
    · omega
  · rintro (h | h) <;> subst h <;> simp

/-- `tiff_zero_row_discards` is about a real case: /Columns 0, one 8-bit colour component. -/
example : Pred.geometry 1 0 8 = some (0, 1) ∧ ¬ 8 < 8 ∧ Pred.filter [1, 2, 3] 2 1 0 8 = .ok [] := by decide

/-- The hypothesis `hpos` of `tiff_decode_sound` cannot be dropped: at /Colors 1 /Columns 0
    /BitsPerComponent 8 (a row of zero bytes) the decoder maps two different streams to the same (empty)
    output, and the only rows that flatten to it encode to the empty stream, not to `[1]`. -/
theorem tiff_zero_row_not_injective_witness :
    PredSpec.rowBytes 0 1 8 = 0 ∧
    Pred.filter [1] 2 1 0 8 = .ok [] ∧ Pred.filter [] 2 1 0 8 = .ok [] ∧
    ¬ ∃ rows : List Bytes, ([] : Bytes) = rows.flatten ∧
        (∀ r ∈ rows, r.length = PredSpec.rowBytes 0 1 8) ∧ PredSpec.predict ⟨2, 1, 0, 8⟩ rows = [1] := by
  refine ⟨by decide, by decide, by decide, ?_⟩
  rintro ⟨rows, _, hlen, henc⟩
  have hz : ∀ rows : List Bytes, (∀ r ∈ rows, r.length = 0) →
      (rows.map (PredSpec.tiffFilterRow 8 1)).flatten = [] := by
    intro rows
    induction rows with
    | nil => intro _; rfl
    | cons r rs ih =>
      intro hl
      have : r = [] := List.length_eq_zero_iff.mp (hl r (by simp))
      subst this
      simp only [List.map_cons, List.flatten_cons]
      rw [ih (fun x hx => hl x (by simp [hx]))]
      decide
  have h0 : PredSpec.rowBytes 0 1 8 = 0 := by decide
  rw [h0] at hlen
  unfold PredSpec.predict at henc
  dsimp only at henc
  rw [if_pos rfl, hz rows hlen] at henc
  cases henc

/-- **decode_sound** (the converse for all six predictors of the statement, all colours/columns/bits):
    whenever `flate_lzw_filter` returns a value for ANY data, that value is a list of rows of `rowBytes`
    bytes whose encoding by the forward filter of the PNG/TIFF specification is exactly the data it was
    given (at least one row for the PNG predictors).  With `predictor_roundtrip`/`filter_roundtrip` the
    decoder is a two-sided inverse of the forward filters (`decode_iff_encoded`).  `hdeg` excludes only
    TIFF with a zero-byte row, where the statement is false (`tiff_zero_row_not_injective_witness`). -/
theorem decode_sound (predictor colors columns bpc : Nat)
    (hp : predictor = 2 ∨ (10 ≤ predictor ∧ predictor ≤ 14))
    (hdeg : predictor = 2 → 0 < PredSpec.rowBytes columns colors bpc)
    (data out : Bytes) (h : Pred.filter data predictor colors columns bpc = .ok out) :
    ∃ rows : List Bytes, out = rows.flatten ∧
      (∀ r ∈ rows, r.length = PredSpec.rowBytes columns colors bpc) ∧
      PredSpec.predict ⟨predictor, colors, columns, bpc⟩ rows = data ∧
      (predictor ≠ 2 → rows ≠ []) := by
  rcases hp with h2 | hpng
  · subst h2
    obtain ⟨_, rows, h1, h2, h3⟩ := tiff_decode_sound colors columns bpc (hdeg rfl) data out h
    exact ⟨rows, h1, h2, h3, fun hne => absurd rfl hne⟩
  · obtain ⟨rows, h1, h2, h3, h4⟩ := png_decode_sound predictor colors columns bpc hpng data out h
    exact ⟨rows, h1, h3, h4, fun _ => h2⟩

/-- `decode_sound` applies to both families on streams no encoder call produced. -/
example :
    Pred.filter [0, 1, 0, 2, 255, 255, 0, 3] 2 1 2 16 = .ok (List.flatten [[0, 1, 0, 3], [255, 255, 0, 2]]) ∧
    PredSpec.predict ⟨2, 1, 2, 16⟩ [[0, 1, 0, 3], [255, 255, 0, 2]] = [0, 1, 0, 2, 255, 255, 0, 3] ∧
    Pred.filter [3, 10, 20, 30, 3, 255, 255, 255] 13 1 3 8 = .ok (List.flatten [[10, 25, 42], [4, 13, 26]]) ∧
    PredSpec.predict ⟨13, 1, 3, 8⟩ [[10, 25, 42], [4, 13, 26]] = [3, 10, 20, 30, 3, 255, 255, 255] ∧
    (0 < PredSpec.rowBytes 2 1 16) := by
  decide

/-- **decode_iff_encoded** (both directions in one statement).  For the parameters of the statement
    (six predictors, sample sizes PDF allows, sizes that fit a `usize`, and - TIFF only - a row of at
    least one byte), the decoder returns `out` on `data` exactly when `data` is the encoding, by the
    forward filter of the specification, of rows of `rowBytes` bytes that concatenate to `out`. -/
theorem decode_iff_encoded (p : PredSpec.Params) (hacc : p.accepted)
    (hfit1 : p.colors * p.bpc < 18446744073709551616)
    (hfit2 : p.columns * p.colors * p.bpc < 18446744073709551616)
    (hdeg : p.predictor = 2 → 0 < PredSpec.rowBytes p.columns p.colors p.bpc)
    (data out : Bytes) :
    Pred.filter data p.predictor p.colors p.columns p.bpc = .ok out ↔
      ∃ rows : List Bytes, (∀ r ∈ rows, r.length = PredSpec.rowBytes p.columns p.colors p.bpc) ∧
        (p.predictor ≠ 2 → rows ≠ []) ∧ data = PredSpec.predict p rows ∧ out = rows.flatten := by
  have hp : p.predictor = 2 ∨ (10 ≤ p.predictor ∧ p.predictor ≤ 14) := by
    rcases hacc with ⟨h, _⟩ | ⟨h, _⟩
    · exact Or.inl h
    · exact Or.inr h
  constructor
  · intro h
    obtain ⟨rows, h1, h2, h3, h4⟩ := decode_sound p.predictor p.colors p.columns p.bpc hp hdeg data out h
    exact ⟨rows, h2, h4, h3.symm, h1⟩
  · rintro ⟨rows, h1, h2, h3, h4⟩
    subst h3 h4
    refine filter_roundtrip p rows hacc hfit1 hfit2 h1 ?_
    by_cases h : p.predictor = 2
    · exact Or.inl h
    · exact Or.inr (h2 h)

/-- The hypotheses of `decode_iff_encoded` are satisfiable (TIFF, 16 bit, 3 colours, 2 columns). -/
example :
    let p : PredSpec.Params := ⟨2, 3, 2, 16⟩
    p.accepted ∧ p.colors * p.bpc < 18446744073709551616 ∧
    p.columns * p.colors * p.bpc < 18446744073709551616 ∧
    (p.predictor = 2 → 0 < PredSpec.rowBytes p.columns p.colors p.bpc) := by
  decide

/-! ## Sample matrices (the statement's quantifier: rows x columns x colours, 8 and 16 bits) -/

/-- 8-bit sample matrices: a row of `columns * colors` samples is its own byte string. -/
theorem predictor_roundtrip_samples8 (predictor colors columns : Nat) (m : List (List UInt8))
    (hp : predictor = 2 ∨ (10 ≤ predictor ∧ predictor ≤ 14))
    (hc : 1 ≤ colors) (hn : 1 ≤ columns)
    (hfit : columns * colors * 8 < 18446744073709551616)
    (hm : ∀ r ∈ m, r.length = columns * colors) (hne : predictor = 2 ∨ m ≠ []) :
    Pred.transformTail (some (predictor : Int)) (some (colors : Int)) (some (columns : Int)) (some 8)
      (PredSpec.predict ⟨predictor, colors, columns, 8⟩ m) = .ok m.flatten := by
  have h1 : columns ≤ columns * colors := Nat.le_mul_of_pos_right _ hc
  have h2 : colors ≤ columns * colors := Nat.le_mul_of_pos_left _ hn
  exact predictor_roundtrip ⟨predictor, colors, columns, 8⟩ m
    (by
      rcases hp with h | h
      · exact Or.inl ⟨h, Or.inl rfl⟩
      · exact Or.inr ⟨h, Or.inr (Or.inr (Or.inr (Or.inl rfl)))⟩)
    (by show columns < _; omega) (by show colors * 8 < _; omega) (by simpa using hfit)
    (by intro r hr; rw [hm r hr]; unfold PredSpec.rowBytes; simp only; omega)
    hne

/-- 16-bit sample matrices: samples are stored high-order byte first. -/
theorem predictor_roundtrip_samples16 (predictor colors columns : Nat) (m : List (List UInt16))
    (hp : predictor = 2 ∨ (10 ≤ predictor ∧ predictor ≤ 14))
    (hc : 1 ≤ colors) (hn : 1 ≤ columns)
    (hfit : columns * colors * 16 < 18446744073709551616)
    (hm : ∀ r ∈ m, r.length = columns * colors) (hne : predictor = 2 ∨ m ≠ []) :
    Pred.transformTail (some (predictor : Int)) (some (colors : Int)) (some (columns : Int)) (some 16)
      (PredSpec.predict ⟨predictor, colors, columns, 16⟩ (m.map PredSpec.bytes16)) =
        .ok (m.map PredSpec.bytes16).flatten := by
  have h1 : columns ≤ columns * colors := Nat.le_mul_of_pos_right _ hc
  have h2 : colors ≤ columns * colors := Nat.le_mul_of_pos_left _ hn
  exact predictor_roundtrip ⟨predictor, colors, columns, 16⟩ (m.map PredSpec.bytes16)
    (by
      rcases hp with h | h
      · exact Or.inl ⟨h, Or.inr rfl⟩
      · exact Or.inr ⟨h, Or.inr (Or.inr (Or.inr (Or.inr rfl)))⟩)
    (by show columns < _; omega) (by show colors * 16 < _; omega) (by simpa using hfit)
    (by
      intro r hr
      obtain ⟨x, hx, rfl⟩ := List.mem_map.mp hr
      rw [bytes16_length, hm x hx]; unfold PredSpec.rowBytes; simp only; omega)
    (by
      rcases hne with h | h
      · exact Or.inl h
      · exact Or.inr (by simpa using h))

example : ∃ m : List (List UInt16), m ≠ [] ∧ (∀ r ∈ m, r.length = 2 * 3) := ⟨[[1, 2, 3, 4, 5, 65535]], by decide⟩

/-! ## The defects of the shipped code, as theorems about its arithmetic (DESIGN.md section 4, #12, #13)

  The pre-fix `paeth` and Average step computed in `Wrapping<u8>`; these two definitions transcribe
  them, and the theorems show they are not the functions of the PNG specification. -/

/-- shipped `fn paeth` (all operations wrap modulo 256) -/
def legacyPaeth (a b c : UInt8) : UInt8 :=
  let p := a + b - c
  let pa := if p > a then p - a else a - p
  let pb := if p > b then p - b else b - p
  let pc := if p > c then p - c else c - p
  if pa ≤ pb ∧ pa ≤ pc then a else if pb ≤ pc then b else c

/-- shipped Average step: `(row[j - bpp] + prev[j]) / Wrapping(2)` -/
def legacyAverage (a b : UInt8) : UInt8 := (a + b) / 2

theorem legacy_paeth_witness : legacyPaeth 10 20 200 ≠ PredSpec.paeth 10 20 200 := by decide
theorem legacy_average_witness : legacyAverage 200 100 ≠ PredSpec.average 200 100 := by decide

/-! ## No panic, no out-of-bounds access, for any parameters at all -/

/-- `flate_lzw_filter` on arbitrary `usize` arguments and arbitrary data never reaches a panic site
    (slice index, arithmetic overflow, division by zero): the result is a value or an error. -/
theorem filter_never_panics (decoded : Bytes) (predictor colors columns bpc : Nat) :
    ∀ s, Pred.filter decoded predictor colors columns bpc ≠ .panic s := by
  intro s
  unfold Pred.filter
  by_cases h1 : predictor = 1
  · rw [if_pos h1]; exact fun h => by cases h
  · rw [if_neg h1]
    by_cases h2 : predictor ≠ 2 ∧ ¬ (10 ≤ predictor ∧ predictor ≤ 15)
    · rw [if_pos h2]; exact fun h => by cases h
    · rw [if_neg h2]
      cases Pred.geometry colors columns bpc with
      | none => exact fun h => by cases h
      | some g =>
        obtain ⟨rb, bpp⟩ := g
        dsimp only
        by_cases h3 : predictor = 2
        · rw [if_pos h3]
          by_cases h4 : bpc < 8
          · rw [if_pos h4]; exact fun h => by cases h
          · rw [if_neg h4]
            by_cases h5 : rb < 1
            · rw [if_pos h5]; exact fun h => by cases h
            · rw [if_neg h5]
              by_cases h6 : decoded.length % rb ≠ 0
              · rw [if_pos h6]; exact fun h => by cases h
              · rw [if_neg h6]
                obtain ⟨r, hr⟩ := tiffRows_total bpc colors rb (decoded.length / rb) decoded []
                rw [hr]; exact fun h => by cases h
        · rw [if_neg h3]
          unfold Pred.checkedAdd
          by_cases h4 : rb + 1 < Pred.usizeLim
          · rw [if_pos h4]; dsimp only
            by_cases h5 : rb + 1 > decoded.length
            · rw [if_pos h5]; exact fun h => by cases h
            · rw [if_neg h5]
              by_cases h6 : decoded.length % (rb + 1) ≠ 0
              · rw [if_pos h6]; exact fun h => by cases h
              · rw [if_neg h6]
                exact pngRows_no_panic predictor bpp (rb + 1) (by omega) _ decoded _ []
                  (by simp) (Nat.div_mul_le_self _ _) s
          · rw [if_neg h4]; exact fun h => by cases h

/-- **predictor_never_panics.**  For ALL integer values of /Predictor, /Colors, /Columns and
    /BitsPerComponent (absent, zero, negative, ≥ 2^32, `i64::MAX`, …) and all inflated data, the tail
    of `FlateDecode::transform` (casts `as usize`, then `flate_lzw_filter`) yields `ok` or `err`. -/
theorem predictor_never_panics (predictor colors columns bpc : Option Int) (decoded : Bytes) :
    (Pred.transformTail predictor colors columns bpc decoded).isPanic = false := by
  unfold Pred.transformTail
  generalize hf : Pred.filter decoded _ _ _ _ = r
  cases r with
  | ok _ => rfl
  | err _ => rfl
  | panic s => exact absurd hf (filter_never_panics _ _ _ _ _ s)

/-- The statement is not vacuous: the three parameter sets that made the shipped code panic
    (DESIGN.md section 4, #14 - #16) are in its domain and are now errors. -/
example :
    Pred.transformTail (some 12) (some (-1)) (some 1) (some 8) [2, 0] = .err .transform ∧
    Pred.transformTail (some 12) (some 4) (some 9223372036854775807) (some 8) [2, 0] = .err .transform ∧
    Pred.transformTail (some 13) (some 1) (some 1) (some 64) [3, 0] = .err .transform ∧
    Pred.transformTail none none none none [3, 0] = .ok [3, 0] := by
  decide

end Parsley.C07
