/-
  C08 -- the type checker accepts exactly the conforming objects.
  Spec: Spec/Conforms.lean (`conf`, `Conforms`, executable `gfp`); machine: Model/TypeCheck.lean.

  Proved for ALL graphs, contexts, objects, specifications and unfolding depths:
    conforms_perm_alternatives   conformance to a disjunction does not depend on the order of alternatives
    conforms_perm_keys           conformance to a dictionary / stream type does not depend on the order
                                 of the entries of the type
    conforms_antitone            conf (n+1) ≤ conf n  (the chain of unfoldings decreases)
    conforms_stabilises_partial  if two consecutive unfoldings agree everywhere, all later ones agree; the FULL
                                 statement is proved in Lemmas/ConformsStab.lean: `conforms_stabilises` (the chain is
                                 constant on the universe of a case from level |pairs| on), `Conforms_iff_conf_card`,
                                 and `gfp_iff_Conforms` (the judge's executable oracle decides `Conforms` exactly)
    machine_eq_conforms_partial  the machine's verdict (code as it is, `Fix.tree`) equals the declarative one on the
                                 LEAF fragment: EVERY object (references: chains, undefined, cyclic; compound objects)
                                 against `any`/primitive checks with ANY predicate and ANY indirection requirement,
                                 over every graph.  NOT proved: array/dictionary/stream/disjunction/named nodes
                                 (there the link is the correspondence run + bounded-exhaustive search; with
                                 disjunctions the machine is known to differ from the specification: memo leak).
  Witness theorems (decide on concrete inputs; each is a corpus case replayed on the real check_type):
    memo_leak_witness, any_entry_skips_indirect_witness (known findings still in the tree) and, for the
    ORIGINAL code `Fix.orig`, disjunct_attrs_dropped_witness, named_disjunct_witness, selfref_not_null_witness,
    memo_ignores_predicate_witness, any_entry_skips_pred_witness, stale_disjunct_index_witness,
    stale_error_witness (repaired by C08-01..09: the same inputs are decided correctly by `Fix.tree`).
-/
import Parsley.Model.TypeCheck
import Parsley.Spec.Conforms
namespace Parsley.C08
open Parsley Parsley.TC Parsley.TC.Spec

theorem conforms_perm_alternatives (g : Graph) (ctx : Ctx) (n : Nat) (o : Obj) (a : Attr)
    (os os' : ChkL) (h : os.chks.Perm os'.chks) :
    conf g ctx (n + 1) o (.disj a os) = conf g ctx (n + 1) o (.disj a os') := by
  simp only [conf, confStep, resolve, shapeOK, Chk.attr]
  rw [h.any_eq]

theorem entOK_perm (f : Obj → Chk → Bool) (kvs : ObjL) (l l' : List (Bytes × KeySpec × Chk))
    (h : l.Perm l') : l.all (entOK f kvs) = l'.all (entOK f kvs) := h.all_eq

theorem conforms_perm_keys (g : Graph) (ctx : Ctx) (n : Nat) (o : Obj) (a : Attr)
    (es es' : ChkL) (h : es.toList.Perm es'.toList) :
    conf g ctx (n + 1) o (.dict a es) = conf g ctx (n + 1) o (.dict a es') ∧
    conf g ctx (n + 1) o (.stream a es) = conf g ctx (n + 1) o (.stream a es') := by
  simp only [conf, confStep, resolve, shapeOK, Chk.attr]
  constructor
  · cases value g o <;> simp [h.all_eq]
  · cases value g o <;> simp [h.all_eq]

/-- the limit does not depend on the order either -/
theorem Conforms_perm_alternatives (g : Graph) (ctx : Ctx) (o : Obj) (a : Attr)
    (os os' : ChkL) (h : os.chks.Perm os'.chks) :
    Conforms g ctx o (.disj a os) ↔ Conforms g ctx o (.disj a os') := by
  constructor
  · intro H n
    cases n with
    | zero => rfl
    | succ n => rw [← conforms_perm_alternatives g ctx n o a os os' h]; exact H (n + 1)
  · intro H n
    cases n with
    | zero => rfl
    | succ n => rw [conforms_perm_alternatives g ctx n o a os os' h]; exact H (n + 1)

-- non-vacuity: two different orders of a real disjunction
example : (ChkL.cons [] .required (.prim Attr.dflt .integer) (.cons [] .required (.prim Attr.dflt .name) .nil)).chks.Perm
    (ChkL.cons [] .required (.prim Attr.dflt .name) (.cons [] .required (.prim Attr.dflt .integer) .nil)).chks := by
  simp [ChkL.chks, ChkL.toList]
  exact List.Perm.swap _ _ _

/-! ### the chain of unfoldings -/

theorem pairsOK_mono (f f' : Obj → Chk → Bool) (hf : ∀ x c, f x c = true → f' x c = true) :
    ∀ xs cs, pairsOK f xs cs = true → pairsOK f' xs cs = true := by
  intro xs
  induction xs with
  | nil => intro cs h; cases cs <;> simp_all [pairsOK]
  | cons x xs ih =>
    intro cs h
    cases cs with
    | nil => simp [pairsOK] at h
    | cons c cs =>
      simp only [pairsOK, Bool.and_eq_true] at h ⊢
      exact ⟨hf _ _ h.1, ih cs h.2⟩

theorem entOK_mono (f f' : Obj → Chk → Bool) (hf : ∀ x c, f x c = true → f' x c = true)
    (kvs : ObjL) (e : Bytes × KeySpec × Chk) : entOK f kvs e = true → entOK f' kvs e = true := by
  unfold entOK
  cases kvs.get e.1 <;> cases e.2.1 <;> simp <;> exact hf _ _

theorem shapeOK_mono (f f' : Obj → Chk → Bool) (hf : ∀ x c, f x c = true → f' x c = true)
    (o v : Obj) (c : Chk) : shapeOK f o v c = true → shapeOK f' o v c = true := by
  cases c with
  | named n => simp [shapeOK]
  | any a => simp [shapeOK]
  | prim a p => simp [shapeOK]
  | array a e s =>
    cases v <;> simp [shapeOK]
    intro h1 h2
    exact ⟨h1, fun x hx => hf _ _ (h2 x hx)⟩
  | het a es =>
    cases v <;> simp [shapeOK]
    exact pairsOK_mono f f' hf _ _
  | dict a es =>
    cases v <;> simp [shapeOK]
    intro h k o' c' hm
    exact entOK_mono f f' hf _ _ (h k o' c' hm)
  | dictStar a es so sc =>
    cases v <;> simp [shapeOK]
    intro h1 h2
    refine ⟨fun k o' c' hm => entOK_mono f f' hf _ _ (h1 k o' c' hm), fun k x hm => ?_⟩
    rcases h2 k x hm with h | h
    · exact Or.inl h
    · exact Or.inr ⟨h.1, hf _ _ h.2⟩
  | stream a es =>
    cases v <;> simp [shapeOK]
    intro h k o' c' hm
    exact entOK_mono f f' hf _ _ (h k o' c' hm)
  | disj a os =>
    simp [shapeOK]
    intro x hx h
    exact ⟨x, hx, hf _ _ h⟩

theorem confStep_mono (g : Graph) (ctx : Ctx) (f f' : Obj → Chk → Bool)
    (hf : ∀ x c, f x c = true → f' x c = true) (o : Obj) (c : Chk) :
    confStep g ctx f o c = true → confStep g ctx f' o c = true := by
  unfold confStep
  cases resolve ctx c with
  | none => simp
  | some r =>
    simp only [Bool.and_eq_true]
    intro h
    exact ⟨h.1, shapeOK_mono f f' hf _ _ _ h.2⟩

theorem conforms_antitone (g : Graph) (ctx : Ctx) :
    ∀ n o c, conf g ctx (n + 1) o c = true → conf g ctx n o c = true := by
  intro n
  induction n with
  | zero => intro o c _; rfl
  | succ n ih =>
    intro o c h
    exact confStep_mono g ctx _ _ ih o c h

theorem conforms_stabilises_partial (g : Graph) (ctx : Ctx) (n : Nat)
    (h : conf g ctx (n + 1) = conf g ctx n) : ∀ m, n ≤ m → conf g ctx m = conf g ctx n := by
  intro m hm
  induction m with
  | zero =>
    have : n = 0 := by omega
    subst this; rfl
  | succ m ih =>
    by_cases hmn : n = m + 1
    · subst hmn; rfl
    · have hle : n ≤ m := by omega
      have := ih hle
      show confStep g ctx (conf g ctx m) = conf g ctx n
      rw [this]
      exact h

-- non-vacuity of conforms_antitone: a conforming pair at depth 3
example : conf [] [] 3 (.int 1) (.prim Attr.dflt .integer) = true := by decide

/-! ### machine = specification on the leaf fragment -/

def verdict (r : Outcome × Nat) : Bool := decide (r.1 = .accept)

set_option linter.unusedSimpArgs false

theorem deref_eq_chase (g : Graph) : ∀ n o, deref g n o = g.chase n o
  | 0, o => by simp [deref, Graph.chase]
  | n+1, o => by
    cases o with
    | ref a b =>
      simp only [deref, Graph.chase]
      cases h : g.lookup (a, b) with
      | none => rfl
      | some t => exact deref_eq_chase g n t
    | _ => simp [deref, Graph.chase]

theorem chase_not_ref (g : Graph) : ∀ n o, (g.chase n o).isRef = false
  | 0, o => by simp [Graph.chase, Obj.isRef]
  | n+1, o => by
    cases o with
    | ref a b =>
      simp only [Graph.chase]
      split
      · exact chase_not_ref g n _
      · rfl
    | _ => simp [Graph.chase, Obj.isRef]

set_option maxRecDepth 4000 in
theorem leaf_any_nonref (g : Graph) (ctx : Ctx) (o : Obj) (pred : Option Pred) (ind : Ind) (hp : o.isRef = false) :
    verdict (checkTypeFuel Fix.tree g ctx 5 o (.any ⟨pred, ind⟩)) = conf g ctx 1 o (.any ⟨pred, ind⟩) := by
  have hv : value g o = o := by cases o <;> first | rfl | simp [Obj.isRef] at hp
  simp only [conf, confStep, resolve, Chk.attr, hv, shapeOK, Bool.and_true]
  cases hpr : checkPred pred o with
  | none =>
    have hpo : predOK pred o = true := by
      cases pred <;> simp_all [checkPred, predOK]
    cases o with
    | ref a b => simp [Obj.isRef] at hp
    | _ => cases ind <;> simp [verdict, checkTypeFuel, resolve, Chk.norm, run, step, initSt, issue, haveExamined, processCheck, checkShape, ofPred, hpr, hpo, indOK, Obj.isRef, Fix.tree, Fix.orig, Chk.attr, Chk.isDisj, unwindOr, unwind]
  | some k =>
    have hpo : predOK pred o = false := by
      cases pred with
      | none => simp [checkPred] at hpr
      | some p => simp only [checkPred] at hpr; simp only [predOK]; split at hpr <;> simp_all
    cases o with
    | ref a b => simp [Obj.isRef] at hp
    | _ => cases ind <;> simp [verdict, checkTypeFuel, resolve, Chk.norm, run, step, initSt, issue, haveExamined, processCheck, checkShape, ofPred, hpr, hpo, indOK, Obj.isRef, Fix.tree, Fix.orig, Chk.attr, Chk.isDisj, unwindOr, unwind]

set_option maxRecDepth 4000 in
theorem leaf_prim_nonref (g : Graph) (ctx : Ctx) (o : Obj) (pred : Option Pred) (ind : Ind) (p : Prim) (hp : o.isRef = false) :
    verdict (checkTypeFuel Fix.tree g ctx 5 o (.prim ⟨pred, ind⟩ p)) = conf g ctx 1 o (.prim ⟨pred, ind⟩ p) := by
  have hv : value g o = o := by cases o <;> first | rfl | simp [Obj.isRef] at hp
  simp only [conf, confStep, resolve, Chk.attr, hv, shapeOK]
  cases hpr : checkPred pred o with
  | none =>
    have hpo : predOK pred o = true := by
      cases pred <;> simp_all [checkPred, predOK]
    cases o with
    | ref a b => simp [Obj.isRef] at hp
    | _ => cases ind <;> cases p <;> simp [verdict, checkTypeFuel, resolve, Chk.norm, run, step, initSt, issue, haveExamined, processCheck, checkShape, primMatches, primOK, ofPred, hpr, hpo, indOK, Obj.isRef, Fix.tree, Fix.orig, Chk.attr, Chk.isDisj, unwindOr, unwind]
  | some k =>
    have hpo : predOK pred o = false := by
      cases pred with
      | none => simp [checkPred] at hpr
      | some p => simp only [checkPred] at hpr; simp only [predOK]; split at hpr <;> simp_all
    cases o with
    | ref a b => simp [Obj.isRef] at hp
    | _ => cases ind <;> cases p <;> simp [verdict, checkTypeFuel, resolve, Chk.norm, run, step, initSt, issue, haveExamined, processCheck, checkShape, primMatches, primOK, ofPred, hpr, hpo, indOK, Obj.isRef, Fix.tree, Fix.orig, Chk.attr, Chk.isDisj, unwindOr, unwind]

set_option maxRecDepth 4000 in
theorem leaf_any_ref (g : Graph) (ctx : Ctx) (a b : Nat) (pred : Option Pred) (ind : Ind) :
    verdict (checkTypeFuel Fix.tree g ctx 5 (.ref a b) (.any ⟨pred, ind⟩)) = conf g ctx 1 (.ref a b) (.any ⟨pred, ind⟩) := by
  simp only [conf, confStep, resolve, Chk.attr, shapeOK, Bool.and_true, value, deref_eq_chase]
  have hv := chase_not_ref g (g.length+1) (.ref a b)
  cases ind with
  | forbidden =>
    simp [verdict, checkTypeFuel, resolve, Chk.norm, run, step, initSt, issue, haveExamined, processCheck, indOK, Obj.isRef, Fix.tree, Fix.orig, Chk.attr, Chk.isDisj, unwindOr, unwind]
  | _ =>
    simp only [verdict, checkTypeFuel, resolve, Chk.norm, run, step, initSt, issue, haveExamined, processCheck, indOK, Obj.isRef, Fix.tree, Fix.orig, Chk.attr, Chk.isDisj, Chk.allowInd, Chk.setAttr, List.any_nil, Bool.and_false, Bool.false_eq_true, if_false, if_true, Bool.and_true, Bool.true_and]
    generalize g.chase (g.length + 1) (.ref a b) = v at hv ⊢
    cases hpr : checkPred pred v with
    | none =>
      have hpo : predOK pred v = true := by
        cases pred <;> simp_all [checkPred, predOK]
      cases v with
      | ref a b => simp [Obj.isRef] at hv
      | _ => simp [run, step, issue, haveExamined, memoEq, processCheck, checkShape, ofPred, hpr, hpo, Obj.isRef, Chk.attr, Chk.isDisj, unwindOr, unwind]
    | some k =>
      have hpo : predOK pred v = false := by
        cases pred with
        | none => simp [checkPred] at hpr
        | some p => simp only [checkPred] at hpr; simp only [predOK]; split at hpr <;> simp_all
      cases v with
      | ref a b => simp [Obj.isRef] at hv
      | _ => simp [run, step, issue, haveExamined, memoEq, processCheck, checkShape, ofPred, hpr, hpo, Obj.isRef, Chk.attr, Chk.isDisj, unwindOr, unwind]

set_option maxRecDepth 4000 in
theorem leaf_prim_ref (g : Graph) (ctx : Ctx) (a b : Nat) (pred : Option Pred) (ind : Ind) (p : Prim) :
    verdict (checkTypeFuel Fix.tree g ctx 5 (.ref a b) (.prim ⟨pred, ind⟩ p)) = conf g ctx 1 (.ref a b) (.prim ⟨pred, ind⟩ p) := by
  simp only [conf, confStep, resolve, Chk.attr, shapeOK, value, deref_eq_chase]
  have hv := chase_not_ref g (g.length+1) (.ref a b)
  cases ind with
  | forbidden =>
    simp [verdict, checkTypeFuel, resolve, Chk.norm, run, step, initSt, issue, haveExamined, processCheck, indOK, Obj.isRef, Fix.tree, Fix.orig, Chk.attr, Chk.isDisj, unwindOr, unwind]
  | _ =>
    simp only [verdict, checkTypeFuel, resolve, Chk.norm, run, step, initSt, issue, haveExamined, processCheck, indOK, Obj.isRef, Fix.tree, Fix.orig, Chk.attr, Chk.isDisj, Chk.allowInd, Chk.setAttr, List.any_nil, Bool.and_false, Bool.false_eq_true, if_false, if_true, Bool.true_and]
    generalize g.chase (g.length + 1) (.ref a b) = v at hv ⊢
    cases hpr : checkPred pred v with
    | none =>
      have hpo : predOK pred v = true := by
        cases pred <;> simp_all [checkPred, predOK]
      cases v with
      | ref a b => simp [Obj.isRef] at hv
      | _ => cases p <;> simp [run, step, issue, haveExamined, memoEq, processCheck, checkShape, primMatches, primOK, ofPred, hpr, hpo, Obj.isRef, Chk.attr, Chk.isDisj, unwindOr, unwind]
    | some k =>
      have hpo : predOK pred v = false := by
        cases pred with
        | none => simp [checkPred] at hpr
        | some p => simp only [checkPred] at hpr; simp only [predOK]; split at hpr <;> simp_all
      cases v with
      | ref a b => simp [Obj.isRef] at hv
      | _ => cases p <;> simp [run, step, issue, haveExamined, memoEq, processCheck, checkShape, primMatches, primOK, ofPred, hpr, hpo, Obj.isRef, Chk.attr, Chk.isDisj, unwindOr, unwind]

/-- leaf checks: `Any` and the primitive types, with ANY predicate and ANY indirection requirement -/
def isLeaf : Chk → Bool
  | .any _ | .prim _ _ => true
  | _ => false

/-- on a leaf check one unfolding is the limit: conformance does not look at components -/
theorem conf_leaf_const (g : Graph) (ctx : Ctx) (o : Obj) (c : Chk) (hl : isLeaf c = true) (n : Nat) :
    conf g ctx (n + 1) o c = conf g ctx 1 o c := by
  cases c <;> simp [isLeaf] at hl <;> simp [conf, confStep, resolve, shapeOK]

/-- C08 on the leaf fragment, at full strength there: for EVERY graph (reference chains of any length,
    undefined references, reference cycles), EVERY object -- a reference or not, compound or not -- and
    every leaf check with an arbitrary predicate and indirection requirement, the machine (the code as it
    is, `Fix.tree`) accepts iff the object conforms.
    NOT proved: array / dictionary / stream / disjunction / named nodes (there the link is the
    correspondence run, the bounded-exhaustive oracle search and `gfp_iff_Conforms`; with a disjunction the
    statement is false for the code as it is: `memo_leak_witness`). -/
theorem machine_eq_conforms_partial (g : Graph) (ctx : Ctx) (o : Obj) (c : Chk) (hl : isLeaf c = true) :
    verdict (checkTypeFuel Fix.tree g ctx 5 o c) = conf g ctx 1 o c ∧
    (verdict (checkTypeFuel Fix.tree g ctx 5 o c) = true ↔ Conforms g ctx o c) := by
  have h1 : verdict (checkTypeFuel Fix.tree g ctx 5 o c) = conf g ctx 1 o c := by
    cases c with
    | any a =>
      obtain ⟨pred, ind⟩ := a
      cases ho : o.isRef with
      | false => exact leaf_any_nonref g ctx o pred ind ho
      | true => cases o <;> simp [Obj.isRef] at ho; exact leaf_any_ref g ctx _ _ pred ind
    | prim a p =>
      obtain ⟨pred, ind⟩ := a
      cases ho : o.isRef with
      | false => exact leaf_prim_nonref g ctx o pred ind p ho
      | true => cases o <;> simp [Obj.isRef] at ho; exact leaf_prim_ref g ctx _ _ pred ind p
    | _ => simp [isLeaf] at hl
  refine ⟨h1, ?_⟩
  rw [h1]
  constructor
  · intro h n
    cases n with
    | zero => rfl
    | succ n => rw [conf_leaf_const g ctx o c hl n]; exact h
  · intro h; exact h 1

-- non-vacuity: a reference chain 2 -> 1 -> /a against Name with a choice predicate, REQUIRED indirect
example : verdict (checkTypeFuel Fix.tree [((1, 0), .name [0x61]), ((2, 0), .ref 1 0)] [] 5 (.ref 2 0)
    (.prim ⟨some (.choice [.name [0x61]]), .required⟩ .name)) = true := by decide
-- and a reference cycle is null
example : verdict (checkTypeFuel Fix.tree [((1, 0), .ref 2 0), ((2, 0), .ref 1 0)] [] 5 (.ref 2 0)
    (.prim ⟨none, .required⟩ .null)) = true := by decide

/-! ### witnesses -/

def I : Chk := .prim Attr.dflt .integer
def kA : Bytes := [0x41]
def kB : Bytes := [0x42]
def sS : Obj := .str [0x73]
def alt1 : Chk := .dict Attr.dflt (.cons kA .required I (.cons kB .required I .nil))
def alt2 : Chk := .dict Attr.dflt (.cons kA .required I .nil)
def leakObj : Obj := .dict (.cons kA sS (.cons kB sS .nil))
def alts (l : List Chk) : ChkL := l.foldr (fun c t => .cons [] .required c t) .nil

/-- #25: `<< /A (s) /B (s) >>` is rejected by each of two dictionary types and accepted by their
    disjunction (the pair `((s), Integer)` that failed in the first alternative is skipped in the second) -/
theorem memo_leak_witness :
    (checkTypeFuel Fix.tree [] [] 50 leakObj alt1).1 = .reject .typeMismatch ∧
    (checkTypeFuel Fix.tree [] [] 50 leakObj alt2).1 = .reject .typeMismatch ∧
    (checkTypeFuel Fix.tree [] [] 50 leakObj (.disj Attr.dflt (alts [alt1, alt2]))).1 = .accept ∧
    gfp [] [] leakObj (.disj Attr.dflt (alts [alt1, alt2])) = false ∧
    (checkTypeFuel { Fix.tree with trail := true } [] [] 50 leakObj (.disj Attr.dflt (alts [alt1, alt2]))).1
      = .reject .typeMismatch := by decide

def kidT : Chk := .array Attr.dflt (.disj ⟨none, .required⟩ (alts [I, .prim Attr.dflt .string])) none
/-- #23 (repaired by C08-08): `[1]` against an array of (Integer | String) that REQUIRES indirect
    elements was accepted -/
theorem disjunct_attrs_dropped_witness :
    (checkTypeFuel Fix.orig [] [] 50 (.arr (.cons [] (.int 1) .nil)) kidT).1 = .accept ∧
    (checkTypeFuel { Fix.tree with disjAttrs := false } [] [] 50 (.arr (.cons [] (.int 1) .nil)) kidT).1 = .accept ∧
    gfp [] [] (.arr (.cons [] (.int 1) .nil)) kidT = false ∧
    (checkTypeFuel Fix.tree [] [] 50 (.arr (.cons [] (.int 1) .nil)) kidT).1 = .reject .valueMismatch := by decide

def namedD : Ctx := [("t", .disj Attr.dflt (alts [I, .prim Attr.dflt .string]))]
/-- N2 (repaired by C08-07): a disjunction reached through a name was a hard error:
    `<< /A 1 >>` against dict{A : t}, t = Integer|String -/
theorem named_disjunct_witness :
    (checkTypeFuel Fix.orig [] namedD 50 (.dict (.cons kA (.int 1) .nil))
        (.dict Attr.dflt (.cons kA .required (.named "t") .nil))).1 = .reject .predicate ∧
    gfp [] namedD (.dict (.cons kA (.int 1) .nil)) (.dict Attr.dflt (.cons kA .required (.named "t") .nil)) = true ∧
    (checkTypeFuel Fix.tree [] namedD 50 (.dict (.cons kA (.int 1) .nil))
        (.dict Attr.dflt (.cons kA .required (.named "t") .nil))).1 = .accept := by
  decide

/-- #26 (repaired by C08-09): `5 0 obj 5 0 R` conformed to Integer for the machine; declaratively it
    is null -/
theorem selfref_not_null_witness :
    (checkTypeFuel Fix.orig [((5, 0), .ref 5 0)] [] 50 (.ref 5 0) I).1 = .accept ∧
    gfp [((5, 0), .ref 5 0)] [] (.ref 5 0) I = false ∧
    gfp [((5, 0), .ref 5 0)] [] (.ref 5 0) (.prim Attr.dflt .null) = true ∧
    (checkTypeFuel Fix.tree [((5, 0), .ref 5 0)] [] 50 (.ref 5 0) I).1 = .reject .typeMismatch ∧
    (checkTypeFuel Fix.tree [((5, 0), .ref 5 0)] [] 50 (.ref 5 0) (.prim Attr.dflt .null)).1 = .accept := by decide

def nmA : Obj := .name [0x61]
def inA : Chk := .prim ⟨some (.choice [nmA]), .allowed⟩ .name
def inB : Chk := .prim ⟨some (.choice [.name [0x62]]), .allowed⟩ .name
/-- #21 (repaired by C08-01): `<< /A /a /B /a >>` against dict{A ∈ {a}, B ∈ {b}} -/
theorem memo_ignores_predicate_witness :
    let t : Chk := .dict Attr.dflt (.cons kA .required inA (.cons kB .required inB .nil))
    let o : Obj := .dict (.cons kA nmA (.cons kB nmA .nil))
    (checkTypeFuel Fix.orig [] [] 50 o t).1 = .accept ∧ gfp [] [] o t = false ∧
    (checkTypeFuel Fix.tree [] [] 50 o t).1 = .reject .valueMismatch := by decide

/-- #22 (repaired by C08-02): an `Any` entry with a never-true predicate -/
theorem any_entry_skips_pred_witness :
    let t : Chk := .dict Attr.dflt (.cons kA .required (.any ⟨some .never, .allowed⟩) .nil)
    let o : Obj := .dict (.cons kA (.int 1) .nil)
    (checkTypeFuel Fix.orig [] [] 50 o t).1 = .accept ∧ gfp [] [] o t = false ∧
    (checkTypeFuel Fix.tree [] [] 50 o t).1 = .reject .predicate := by decide

/-- #22, indirect half (NOT repaired: a test of the crate asserts it): `<< /A 1 >>` against
    dict{A : any, indirect REQUIRED} is accepted -/
theorem any_entry_skips_indirect_witness :
    let t : Chk := .dict Attr.dflt (.cons kA .required (.any ⟨none, .required⟩) .nil)
    let o : Obj := .dict (.cons kA (.int 1) .nil)
    (checkTypeFuel Fix.tree [] [] 50 o t).1 = .accept ∧ gfp [] [] o t = false ∧
    (checkTypeFuel { Fix.tree with anyInd := true } [] [] 50 o t).1 = .reject .valueMismatch := by decide

def B' : Chk := .prim Attr.dflt .bool
def S' : Chk := .prim Attr.dflt .string
/-- N4 (repaired by C08-03): `[/a (s)]` against [ Integer|Bool , Integer|Bool|String ] -/
theorem stale_disjunct_index_witness :
    let t : Chk := .het Attr.dflt (alts [.disj Attr.dflt (alts [I, B']), .disj Attr.dflt (alts [I, B', S'])])
    let o : Obj := .arr (.cons [] nmA (.cons [] sS .nil))
    (checkTypeFuel Fix.orig [] [] 50 o t).1 = .accept ∧ gfp [] [] o t = false ∧
    (checkTypeFuel Fix.tree [] [] 50 o t).1 = .reject .typeMismatch := by decide

/-- N5 (repaired by C08-04): `[(s) (s)]` against [ String , Integer|String ] was rejected -/
theorem stale_error_witness :
    let t : Chk := .het Attr.dflt (alts [S', .disj Attr.dflt (alts [I, S'])])
    let o : Obj := .arr (.cons [] sS (.cons [] sS .nil))
    (checkTypeFuel Fix.orig [] [] 50 o t).1 = .reject .typeMismatch ∧ gfp [] [] o t = true ∧
    (checkTypeFuel Fix.tree [] [] 50 o t).1 = .accept := by decide

end Parsley.C08
