/-
  C08 -- the type checker accepts exactly the conforming objects.
  Spec: Spec/Conforms.lean (`conf`, `Conforms`, executable `gfp`); machine: Model/TypeCheck.lean.

  Proved for ALL graphs, contexts, objects, specifications and unfolding depths:
    conforms_perm_alternatives   conformance to a disjunction does not depend on the order of alternatives
    conforms_perm_keys           conformance to a dictionary / stream type does not depend on the order
                                 of the entries of the type
    conforms_antitone            conf (n+1) ≤ conf n  (the chain of unfoldings decreases)
    conforms_stabilises_partial  if two consecutive unfoldings agree everywhere, all later ones agree; the FULL
                                 statement is proved in Lemmas/ConformsStab.lean: `conforms_stabilises` (the chain is
                                 constant on the universe of a case from level |pairs| on), `Conforms_iff_conf_card`,
                                 and `gfp_iff_Conforms` (the judge's executable oracle decides `Conforms` exactly)
    machine_eq_conforms_F1       FULL on FRAGMENT F1 (`Frag.inF1 ctx c`, decidable, Spec/TypeCheckFrag.lean: among the checks
                                 reachable from `c` no disjunction, no dangling name, no Any-typed array element /
                                 dictionary / stream / wildcard entry with an indirect requirement but no predicate):
                                 for EVERY graph (reference chains, undefined references, cycles) and EVERY object the
                                 machine (code as it is, `Fix.tree`; more generally every configuration `Sound.FixOK`) run
                                 with the proved work bound accepts IFF the object conforms.  Covers arrays (sized or not),
                                 heterogeneous arrays, dictionaries (required / optional / forbidden keys, wildcard entry),
                                 streams, named and RECURSIVE types, predicates and indirect requirements on every node.
                                 Proof: Lemmas/TypeCheckSound.lean (memo ∪ pending is closed under obligations; at accept
                                 the memo is a post-fixed point of confStep; an error refutes a required pair).
                                 `machine_eq_conforms_F1_fuel`: the same for ANY fuel with which the run finishes;
                                 `machine_eq_oracle_F1` (Lemmas/ConformsStab.lean): = the judge's executable oracle `gfp`.
                                 FALSE for `Fix.orig`: `F1_fails_for_orig_witness`.
    machine_eq_conforms_leaf     (earlier result, subsumed by F1 up to the fuel) leaf checks with fuel 5, verdict = conf 1
    machine_eq_conforms_partial  = machine_eq_conforms_F1, the widest fragment proved.  NOT proved: specifications with a
                                 reachable disjunction.  There the statement is FALSE for the code as it is, even when every
                                 alternative is a leaf check that fails at its own head before anything is pushed: the failed
                                 (object, alternative) pair itself stays in the memo and is skipped when it comes up again --
                                 `shared_alternative_leak_witness` (dict{A : Integer|String, B : Integer} accepts
                                 << /A (s) /B (s) >>) and `memo_leak_witness`.  A correct fragment F2 needs a PRIVACY condition
                                 (`Frag.inF2`): every alternative of a disjunction is a leaf check that occurs nowhere else
                                 among the reachable checks.  On F2 machine = specification is PROVED:
                                 `machine_eq_conforms_F2` (Props/C08F2.lean, Lemmas/TypeCheckSoundF2.lean).
    machine_complete             FULL, ALL specifications (disjunctions included): for every graph, context, object and every
                                 WELL-FORMED specification (`Frag.wfSpec ctx c`, decidable, Spec/TypeCheckWF.lean: every name is
                                 bound to a representation, no empty disjunction -- the three ways to leave check_type through an
                                 exit that is not a verdict), `Conforms g ctx o c` implies that the machine (code as it is,
                                 `Fix.tree`; every configuration `Complete.FixC`) ACCEPTS: the real checker never rejects a
                                 conforming object and never panics on one, although the memo leaks (a memo hit only skips work).
                                 `machine_complete_fuel`: any fuel; `machine_reject_sound`: a rejection is always right.
                                 Proof: Lemmas/TypeCheckComplete.lean (invariant over the stack of pending sets: trusted sets
                                 conform, an untrusted region sits above an in-progress disjunction that still has a conforming
                                 alternative), Lemmas/ConformsNorm.lean (normalisation preserves conformance, limit reading).
    machine_eq_conforms          the pair: completeness for ALL well-formed specifications, soundness on F1.  Every disagreement
                                 between machine and specification is therefore a FALSE ACCEPT outside F1 (the three known
                                 findings are of this kind) -- `machine_disagreement_is_false_accept`.
  Witness theorems (decide on concrete inputs; each is a corpus case replayed on the real check_type):
    memo_leak_witness, any_entry_skips_indirect_witness (known findings still in the tree) and, for the
    ORIGINAL code `Fix.orig`, disjunct_attrs_dropped_witness, named_disjunct_witness, selfref_not_null_witness,
    memo_ignores_predicate_witness, any_entry_skips_pred_witness, stale_disjunct_index_witness,
    stale_error_witness (repaired by C08-01..09: the same inputs are decided correctly by `Fix.tree`).
-/
import Parsley.Model.TypeCheck
import Parsley.Spec.Conforms
import Parsley.Spec.TypeCheckFrag
import Parsley.Lemmas.TypeCheckSound
import Parsley.Lemmas.ConformsMono
import Parsley.Spec.TypeCheckWF
import Parsley.Lemmas.TypeCheckComplete
namespace Parsley.C08
open Parsley Parsley.TC Parsley.TC.Spec

theorem conforms_perm_alternatives (g : Graph) (ctx : Ctx) (n : Nat) (o : Obj) (a : Attr)
    (os os' : ChkL) (h : os.chks.Perm os'.chks) :
    conf g ctx (n + 1) o (.disj a os) = conf g ctx (n + 1) o (.disj a os') := by
  simp only [conf, confStep, resolve, shapeOK, Chk.attr]
  rw [h.any_eq]

theorem entOK_perm (f : Obj → Chk → Bool) (kvs : ObjL) (l l' : List (Bytes × KeySpec × Chk))
    (h : l.Perm l') : l.all (entOK f kvs) = l'.all (entOK f kvs) := h.all_eq

theorem conforms_perm_keys (g : Graph) (ctx : Ctx) (n : Nat) (o : Obj) (a : Attr)
    (es es' : ChkL) (h : es.toList.Perm es'.toList) :
    conf g ctx (n + 1) o (.dict a es) = conf g ctx (n + 1) o (.dict a es') ∧
    conf g ctx (n + 1) o (.stream a es) = conf g ctx (n + 1) o (.stream a es') := by
  simp only [conf, confStep, resolve, shapeOK, Chk.attr]
  constructor
  · cases value g o <;> simp [h.all_eq]
  · cases value g o <;> simp [h.all_eq]

/-- the limit does not depend on the order either -/
theorem Conforms_perm_alternatives (g : Graph) (ctx : Ctx) (o : Obj) (a : Attr)
    (os os' : ChkL) (h : os.chks.Perm os'.chks) :
    Conforms g ctx o (.disj a os) ↔ Conforms g ctx o (.disj a os') := by
  constructor
  · intro H n
    cases n with
    | zero => rfl
    | succ n => rw [← conforms_perm_alternatives g ctx n o a os os' h]; exact H (n + 1)
  · intro H n
    cases n with
    | zero => rfl
    | succ n => rw [conforms_perm_alternatives g ctx n o a os os' h]; exact H (n + 1)

-- non-vacuity: two different orders of a real disjunction
example : (ChkL.cons [] .required (.prim Attr.dflt .integer) (.cons [] .required (.prim Attr.dflt .name) .nil)).chks.Perm
    (ChkL.cons [] .required (.prim Attr.dflt .name) (.cons [] .required (.prim Attr.dflt .integer) .nil)).chks := by
  simp [ChkL.chks, ChkL.toList]
  exact List.Perm.swap _ _ _

/-! ### the chain of unfoldings -/

-- pairsOK_mono, entOK_mono, shapeOK_mono, confStep_mono, conforms_antitone: Lemmas/ConformsMono.lean (same namespace)

theorem conforms_stabilises_partial (g : Graph) (ctx : Ctx) (n : Nat)
    (h : conf g ctx (n + 1) = conf g ctx n) : ∀ m, n ≤ m → conf g ctx m = conf g ctx n := by
  intro m hm
  induction m with
  | zero =>
    have : n = 0 := by omega
    subst this; rfl
  | succ m ih =>
    by_cases hmn : n = m + 1
    · subst hmn; rfl
    · have hle : n ≤ m := by omega
      have := ih hle
      show confStep g ctx (conf g ctx m) = conf g ctx n
      rw [this]
      exact h

-- non-vacuity of conforms_antitone: a conforming pair at depth 3
example : conf [] [] 3 (.int 1) (.prim Attr.dflt .integer) = true := by decide

/-! ### machine = specification on the leaf fragment -/

def verdict (r : Outcome × Nat) : Bool := decide (r.1 = .accept)

set_option linter.unusedSimpArgs false

theorem deref_eq_chase (g : Graph) : ∀ n o, deref g n o = g.chase n o
  | 0, o => by simp [deref, Graph.chase]
  | n+1, o => by
    cases o with
    | ref a b =>
      simp only [deref, Graph.chase]
      cases h : g.lookup (a, b) with
      | none => rfl
      | some t => exact deref_eq_chase g n t
    | _ => simp [deref, Graph.chase]

theorem chase_not_ref (g : Graph) : ∀ n o, (g.chase n o).isRef = false
  | 0, o => by simp [Graph.chase, Obj.isRef]
  | n+1, o => by
    cases o with
    | ref a b =>
      simp only [Graph.chase]
      split
      · exact chase_not_ref g n _
      · rfl
    | _ => simp [Graph.chase, Obj.isRef]

set_option maxRecDepth 4000 in
theorem leaf_any_nonref (g : Graph) (ctx : Ctx) (o : Obj) (pred : Option Pred) (ind : Ind) (hp : o.isRef = false) :
    verdict (checkTypeFuel Fix.tree g ctx 5 o (.any ⟨pred, ind⟩)) = conf g ctx 1 o (.any ⟨pred, ind⟩) := by
  have hv : value g o = o := by cases o <;> first | rfl | simp [Obj.isRef] at hp
  simp only [conf, confStep, resolve, Chk.attr, hv, shapeOK, Bool.and_true]
  cases hpr : checkPred pred o with
  | none =>
    have hpo : predOK pred o = true := by
      cases pred <;> simp_all [checkPred, predOK]
    cases o with
    | ref a b => simp [Obj.isRef] at hp
    | _ => cases ind <;> simp [verdict, checkTypeFuel, resolve, Chk.norm, run, step, initSt, issue, haveExamined, processCheck, checkShape, ofPred, hpr, hpo, indOK, Obj.isRef, Fix.tree, Fix.orig, Chk.attr, Chk.isDisj, unwindOr, unwind]
  | some k =>
    have hpo : predOK pred o = false := by
      cases pred with
      | none => simp [checkPred] at hpr
      | some p => simp only [checkPred] at hpr; simp only [predOK]; split at hpr <;> simp_all
    cases o with
    | ref a b => simp [Obj.isRef] at hp
    | _ => cases ind <;> simp [verdict, checkTypeFuel, resolve, Chk.norm, run, step, initSt, issue, haveExamined, processCheck, checkShape, ofPred, hpr, hpo, indOK, Obj.isRef, Fix.tree, Fix.orig, Chk.attr, Chk.isDisj, unwindOr, unwind]

set_option maxRecDepth 4000 in
theorem leaf_prim_nonref (g : Graph) (ctx : Ctx) (o : Obj) (pred : Option Pred) (ind : Ind) (p : Prim) (hp : o.isRef = false) :
    verdict (checkTypeFuel Fix.tree g ctx 5 o (.prim ⟨pred, ind⟩ p)) = conf g ctx 1 o (.prim ⟨pred, ind⟩ p) := by
  have hv : value g o = o := by cases o <;> first | rfl | simp [Obj.isRef] at hp
  simp only [conf, confStep, resolve, Chk.attr, hv, shapeOK]
  cases hpr : checkPred pred o with
  | none =>
    have hpo : predOK pred o = true := by
      cases pred <;> simp_all [checkPred, predOK]
    cases o with
    | ref a b => simp [Obj.isRef] at hp
    | _ => cases ind <;> cases p <;> simp [verdict, checkTypeFuel, resolve, Chk.norm, run, step, initSt, issue, haveExamined, processCheck, checkShape, primMatches, primOK, ofPred, hpr, hpo, indOK, Obj.isRef, Fix.tree, Fix.orig, Chk.attr, Chk.isDisj, unwindOr, unwind]
  | some k =>
    have hpo : predOK pred o = false := by
      cases pred with
      | none => simp [checkPred] at hpr
      | some p => simp only [checkPred] at hpr; simp only [predOK]; split at hpr <;> simp_all
    cases o with
    | ref a b => simp [Obj.isRef] at hp
    | _ => cases ind <;> cases p <;> simp [verdict, checkTypeFuel, resolve, Chk.norm, run, step, initSt, issue, haveExamined, processCheck, checkShape, primMatches, primOK, ofPred, hpr, hpo, indOK, Obj.isRef, Fix.tree, Fix.orig, Chk.attr, Chk.isDisj, unwindOr, unwind]

set_option maxRecDepth 4000 in
theorem leaf_any_ref (g : Graph) (ctx : Ctx) (a b : Nat) (pred : Option Pred) (ind : Ind) :
    verdict (checkTypeFuel Fix.tree g ctx 5 (.ref a b) (.any ⟨pred, ind⟩)) = conf g ctx 1 (.ref a b) (.any ⟨pred, ind⟩) := by
  simp only [conf, confStep, resolve, Chk.attr, shapeOK, Bool.and_true, value, deref_eq_chase]
  have hv := chase_not_ref g (g.length+1) (.ref a b)
  cases ind with
  | forbidden =>
    simp [verdict, checkTypeFuel, resolve, Chk.norm, run, step, initSt, issue, haveExamined, processCheck, indOK, Obj.isRef, Fix.tree, Fix.orig, Chk.attr, Chk.isDisj, unwindOr, unwind]
  | _ =>
    simp only [verdict, checkTypeFuel, resolve, Chk.norm, run, step, initSt, issue, haveExamined, processCheck, indOK, Obj.isRef, Fix.tree, Fix.orig, Chk.attr, Chk.isDisj, Chk.allowInd, Chk.setAttr, List.any_nil, Bool.and_false, Bool.false_eq_true, if_false, if_true, Bool.and_true, Bool.true_and]
    generalize g.chase (g.length + 1) (.ref a b) = v at hv ⊢
    cases hpr : checkPred pred v with
    | none =>
      have hpo : predOK pred v = true := by
        cases pred <;> simp_all [checkPred, predOK]
      cases v with
      | ref a b => simp [Obj.isRef] at hv
      | _ => simp [run, step, issue, haveExamined, memoEq, processCheck, checkShape, ofPred, hpr, hpo, Obj.isRef, Chk.attr, Chk.isDisj, unwindOr, unwind]
    | some k =>
      have hpo : predOK pred v = false := by
        cases pred with
        | none => simp [checkPred] at hpr
        | some p => simp only [checkPred] at hpr; simp only [predOK]; split at hpr <;> simp_all
      cases v with
      | ref a b => simp [Obj.isRef] at hv
      | _ => simp [run, step, issue, haveExamined, memoEq, processCheck, checkShape, ofPred, hpr, hpo, Obj.isRef, Chk.attr, Chk.isDisj, unwindOr, unwind]

set_option maxRecDepth 4000 in
theorem leaf_prim_ref (g : Graph) (ctx : Ctx) (a b : Nat) (pred : Option Pred) (ind : Ind) (p : Prim) :
    verdict (checkTypeFuel Fix.tree g ctx 5 (.ref a b) (.prim ⟨pred, ind⟩ p)) = conf g ctx 1 (.ref a b) (.prim ⟨pred, ind⟩ p) := by
  simp only [conf, confStep, resolve, Chk.attr, shapeOK, value, deref_eq_chase]
  have hv := chase_not_ref g (g.length+1) (.ref a b)
  cases ind with
  | forbidden =>
    simp [verdict, checkTypeFuel, resolve, Chk.norm, run, step, initSt, issue, haveExamined, processCheck, indOK, Obj.isRef, Fix.tree, Fix.orig, Chk.attr, Chk.isDisj, unwindOr, unwind]
  | _ =>
    simp only [verdict, checkTypeFuel, resolve, Chk.norm, run, step, initSt, issue, haveExamined, processCheck, indOK, Obj.isRef, Fix.tree, Fix.orig, Chk.attr, Chk.isDisj, Chk.allowInd, Chk.setAttr, List.any_nil, Bool.and_false, Bool.false_eq_true, if_false, if_true, Bool.true_and]
    generalize g.chase (g.length + 1) (.ref a b) = v at hv ⊢
    cases hpr : checkPred pred v with
    | none =>
      have hpo : predOK pred v = true := by
        cases pred <;> simp_all [checkPred, predOK]
      cases v with
      | ref a b => simp [Obj.isRef] at hv
      | _ => cases p <;> simp [run, step, issue, haveExamined, memoEq, processCheck, checkShape, primMatches, primOK, ofPred, hpr, hpo, Obj.isRef, Chk.attr, Chk.isDisj, unwindOr, unwind]
    | some k =>
      have hpo : predOK pred v = false := by
        cases pred with
        | none => simp [checkPred] at hpr
        | some p => simp only [checkPred] at hpr; simp only [predOK]; split at hpr <;> simp_all
      cases v with
      | ref a b => simp [Obj.isRef] at hv
      | _ => cases p <;> simp [run, step, issue, haveExamined, memoEq, processCheck, checkShape, primMatches, primOK, ofPred, hpr, hpo, Obj.isRef, Chk.attr, Chk.isDisj, unwindOr, unwind]

/-- leaf checks: `Any` and the primitive types, with ANY predicate and ANY indirection requirement -/
def isLeaf : Chk → Bool
  | .any _ | .prim _ _ => true
  | _ => false

/-- on a leaf check one unfolding is the limit: conformance does not look at components -/
theorem conf_leaf_const (g : Graph) (ctx : Ctx) (o : Obj) (c : Chk) (hl : isLeaf c = true) (n : Nat) :
    conf g ctx (n + 1) o c = conf g ctx 1 o c := by
  cases c <;> simp [isLeaf] at hl <;> simp [conf, confStep, resolve, shapeOK]

/-- C08 on the leaf fragment (earlier result; subsumed by `machine_eq_conforms_F1`), at full strength there: for EVERY graph (reference chains of any length,
    undefined references, reference cycles), EVERY object -- a reference or not, compound or not -- and
    every leaf check with an arbitrary predicate and indirection requirement, the machine (the code as it
    is, `Fix.tree`) accepts iff the object conforms.
    NOT proved: array / dictionary / stream / disjunction / named nodes (there the link is the
    correspondence run, the bounded-exhaustive oracle search and `gfp_iff_Conforms`; with a disjunction the
    statement is false for the code as it is: `memo_leak_witness`). -/
theorem machine_eq_conforms_leaf (g : Graph) (ctx : Ctx) (o : Obj) (c : Chk) (hl : isLeaf c = true) :
    verdict (checkTypeFuel Fix.tree g ctx 5 o c) = conf g ctx 1 o c ∧
    (verdict (checkTypeFuel Fix.tree g ctx 5 o c) = true ↔ Conforms g ctx o c) := by
  have h1 : verdict (checkTypeFuel Fix.tree g ctx 5 o c) = conf g ctx 1 o c := by
    cases c with
    | any a =>
      obtain ⟨pred, ind⟩ := a
      cases ho : o.isRef with
      | false => exact leaf_any_nonref g ctx o pred ind ho
      | true => cases o <;> simp [Obj.isRef] at ho; exact leaf_any_ref g ctx _ _ pred ind
    | prim a p =>
      obtain ⟨pred, ind⟩ := a
      cases ho : o.isRef with
      | false => exact leaf_prim_nonref g ctx o pred ind p ho
      | true => cases o <;> simp [Obj.isRef] at ho; exact leaf_prim_ref g ctx _ _ pred ind p
    | _ => simp [isLeaf] at hl
  refine ⟨h1, ?_⟩
  rw [h1]
  constructor
  · intro h n
    cases n with
    | zero => rfl
    | succ n => rw [conf_leaf_const g ctx o c hl n]; exact h
  · intro h; exact h 1

-- non-vacuity: a reference chain 2 -> 1 -> /a against Name with a choice predicate, REQUIRED indirect
example : verdict (checkTypeFuel Fix.tree [((1, 0), .name [0x61]), ((2, 0), .ref 1 0)] [] 5 (.ref 2 0)
    (.prim ⟨some (.choice [.name [0x61]]), .required⟩ .name)) = true := by decide
-- and a reference cycle is null
example : verdict (checkTypeFuel Fix.tree [((1, 0), .ref 2 0), ((2, 0), .ref 1 0)] [] 5 (.ref 2 0)
    (.prim ⟨none, .required⟩ .null)) = true := by decide

/-! ### witnesses -/

def I : Chk := .prim Attr.dflt .integer
def kA : Bytes := [0x41]
def kB : Bytes := [0x42]
def sS : Obj := .str [0x73]
def alt1 : Chk := .dict Attr.dflt (.cons kA .required I (.cons kB .required I .nil))
def alt2 : Chk := .dict Attr.dflt (.cons kA .required I .nil)
def leakObj : Obj := .dict (.cons kA sS (.cons kB sS .nil))
def alts (l : List Chk) : ChkL := l.foldr (fun c t => .cons [] .required c t) .nil

/-- #25: `<< /A (s) /B (s) >>` is rejected by each of two dictionary types and accepted by their
    disjunction (the pair `((s), Integer)` that failed in the first alternative is skipped in the second) -/
theorem memo_leak_witness :
    (checkTypeFuel Fix.tree [] [] 50 leakObj alt1).1 = .reject .typeMismatch ∧
    (checkTypeFuel Fix.tree [] [] 50 leakObj alt2).1 = .reject .typeMismatch ∧
    (checkTypeFuel Fix.tree [] [] 50 leakObj (.disj Attr.dflt (alts [alt1, alt2]))).1 = .accept ∧
    gfp [] [] leakObj (.disj Attr.dflt (alts [alt1, alt2])) = false ∧
    (checkTypeFuel { Fix.tree with trail := true } [] [] 50 leakObj (.disj Attr.dflt (alts [alt1, alt2]))).1
      = .reject .typeMismatch := by decide

def kidT : Chk := .array Attr.dflt (.disj ⟨none, .required⟩ (alts [I, .prim Attr.dflt .string])) none
/-- #23 (repaired by C08-08): `[1]` against an array of (Integer | String) that REQUIRES indirect
    elements was accepted -/
theorem disjunct_attrs_dropped_witness :
    (checkTypeFuel Fix.orig [] [] 50 (.arr (.cons [] (.int 1) .nil)) kidT).1 = .accept ∧
    (checkTypeFuel { Fix.tree with disjAttrs := false } [] [] 50 (.arr (.cons [] (.int 1) .nil)) kidT).1 = .accept ∧
    gfp [] [] (.arr (.cons [] (.int 1) .nil)) kidT = false ∧
    (checkTypeFuel Fix.tree [] [] 50 (.arr (.cons [] (.int 1) .nil)) kidT).1 = .reject .valueMismatch := by decide

def namedD : Ctx := [("t", .disj Attr.dflt (alts [I, .prim Attr.dflt .string]))]
/-- N2 (repaired by C08-07): a disjunction reached through a name was a hard error:
    `<< /A 1 >>` against dict{A : t}, t = Integer|String -/
theorem named_disjunct_witness :
    (checkTypeFuel Fix.orig [] namedD 50 (.dict (.cons kA (.int 1) .nil))
        (.dict Attr.dflt (.cons kA .required (.named "t") .nil))).1 = .reject .predicate ∧
    gfp [] namedD (.dict (.cons kA (.int 1) .nil)) (.dict Attr.dflt (.cons kA .required (.named "t") .nil)) = true ∧
    (checkTypeFuel Fix.tree [] namedD 50 (.dict (.cons kA (.int 1) .nil))
        (.dict Attr.dflt (.cons kA .required (.named "t") .nil))).1 = .accept := by
  decide

/-- #26 (repaired by C08-09): `5 0 obj 5 0 R` conformed to Integer for the machine; declaratively it
    is null -/
theorem selfref_not_null_witness :
    (checkTypeFuel Fix.orig [((5, 0), .ref 5 0)] [] 50 (.ref 5 0) I).1 = .accept ∧
    gfp [((5, 0), .ref 5 0)] [] (.ref 5 0) I = false ∧
    gfp [((5, 0), .ref 5 0)] [] (.ref 5 0) (.prim Attr.dflt .null) = true ∧
    (checkTypeFuel Fix.tree [((5, 0), .ref 5 0)] [] 50 (.ref 5 0) I).1 = .reject .typeMismatch ∧
    (checkTypeFuel Fix.tree [((5, 0), .ref 5 0)] [] 50 (.ref 5 0) (.prim Attr.dflt .null)).1 = .accept := by decide

def nmA : Obj := .name [0x61]
def inA : Chk := .prim ⟨some (.choice [nmA]), .allowed⟩ .name
def inB : Chk := .prim ⟨some (.choice [.name [0x62]]), .allowed⟩ .name
/-- #21 (repaired by C08-01): `<< /A /a /B /a >>` against dict{A ∈ {a}, B ∈ {b}} -/
theorem memo_ignores_predicate_witness :
    let t : Chk := .dict Attr.dflt (.cons kA .required inA (.cons kB .required inB .nil))
    let o : Obj := .dict (.cons kA nmA (.cons kB nmA .nil))
    (checkTypeFuel Fix.orig [] [] 50 o t).1 = .accept ∧ gfp [] [] o t = false ∧
    (checkTypeFuel Fix.tree [] [] 50 o t).1 = .reject .valueMismatch := by decide

/-- #22 (repaired by C08-02): an `Any` entry with a never-true predicate -/
theorem any_entry_skips_pred_witness :
    let t : Chk := .dict Attr.dflt (.cons kA .required (.any ⟨some .never, .allowed⟩) .nil)
    let o : Obj := .dict (.cons kA (.int 1) .nil)
    (checkTypeFuel Fix.orig [] [] 50 o t).1 = .accept ∧ gfp [] [] o t = false ∧
    (checkTypeFuel Fix.tree [] [] 50 o t).1 = .reject .predicate := by decide

/-- #22, indirect half (NOT repaired: a test of the crate asserts it): `<< /A 1 >>` against
    dict{A : any, indirect REQUIRED} is accepted -/
theorem any_entry_skips_indirect_witness :
    let t : Chk := .dict Attr.dflt (.cons kA .required (.any ⟨none, .required⟩) .nil)
    let o : Obj := .dict (.cons kA (.int 1) .nil)
    (checkTypeFuel Fix.tree [] [] 50 o t).1 = .accept ∧ gfp [] [] o t = false ∧
    (checkTypeFuel { Fix.tree with anyInd := true } [] [] 50 o t).1 = .reject .valueMismatch := by decide

def B' : Chk := .prim Attr.dflt .bool
def S' : Chk := .prim Attr.dflt .string
/-- N4 (repaired by C08-03): `[/a (s)]` against [ Integer|Bool , Integer|Bool|String ] -/
theorem stale_disjunct_index_witness :
    let t : Chk := .het Attr.dflt (alts [.disj Attr.dflt (alts [I, B']), .disj Attr.dflt (alts [I, B', S'])])
    let o : Obj := .arr (.cons [] nmA (.cons [] sS .nil))
    (checkTypeFuel Fix.orig [] [] 50 o t).1 = .accept ∧ gfp [] [] o t = false ∧
    (checkTypeFuel Fix.tree [] [] 50 o t).1 = .reject .typeMismatch := by decide

/-- N5 (repaired by C08-04): `[(s) (s)]` against [ String , Integer|String ] was rejected -/
theorem stale_error_witness :
    let t : Chk := .het Attr.dflt (alts [S', .disj Attr.dflt (alts [I, S'])])
    let o : Obj := .arr (.cons [] sS (.cons [] sS .nil))
    (checkTypeFuel Fix.orig [] [] 50 o t).1 = .reject .typeMismatch ∧ gfp [] [] o t = true ∧
    (checkTypeFuel Fix.tree [] [] 50 o t).1 = .accept := by decide

/-! ### machine = specification on fragment F1 (no reachable disjunction) -/

/-- C08 on FRAGMENT F1, for every configuration of the repair flags satisfying `Sound.FixOK` and ANY fuel with
    which the run finishes: accepted iff conforming. -/
theorem machine_eq_conforms_F1_fuel (fx : Fix) (hfx : Sound.FixOK fx) (g : Graph) (ctx : Ctx) (o : Obj) (c : Chk)
    (hF : Frag.inF1 ctx c = true) (fuel : Nat) (hfin : (checkTypeFuel fx g ctx fuel o c).1 ≠ .outOfFuel) :
    verdict (checkTypeFuel fx g ctx fuel o c) = true ↔ Conforms g ctx o c := by
  obtain ⟨hcl, hmem⟩ := Sound.inF1_closed ctx c hF
  have h := Sound.checkType_F1 hfx g ctx _ hcl o c hmem fuel
  simp only [verdict, decide_eq_true_eq]
  constructor
  · exact h.1
  · intro hc
    apply Decidable.byContradiction
    intro hne
    exact h.2 hne hfin hc

/-- C08 on FRAGMENT F1 at full strength: for EVERY graph, context, object and every specification `c` of the
    fragment (arrays, heterogeneous arrays, dictionaries with required/optional/forbidden keys and a wildcard
    entry, streams, named recursive types, predicates and indirect requirements anywhere; no disjunction), the
    machine -- the code as it is, `Fix.tree` -- run with the work bound proved in C09 accepts iff the object
    conforms to `c` under the declarative reading. -/
theorem machine_eq_conforms_F1 (g : Graph) (ctx : Ctx) (o : Obj) (c : Chk) (hF : Frag.inF1 ctx c = true) :
    verdict (checkTypeFuel Fix.tree g ctx (Term.workBound Fix.tree g ctx o c) o c) = true ↔ Conforms g ctx o c :=
  machine_eq_conforms_F1_fuel Fix.tree Sound.fixOK_tree g ctx o c hF _
    (Term.checkTypeFuel_terminates Fix.tree rfl g ctx o c)

/-- The widest fragment on which C08's "machine = specification" is proved (= `machine_eq_conforms_F1`).
    FULL STATEMENT (not provable for the code as it is): the same without `hF`.  Missing: every specification
    with a reachable disjunction (false there: `memo_leak_witness`, `shared_alternative_leak_witness`), and
    Any-typed entries with a bare indirect requirement (false there: `any_entry_skips_indirect_witness`).
    Only the SOUNDNESS direction (accept → Conforms) is missing there: the completeness direction holds for all
    well-formed specifications (`machine_complete`, `machine_eq_conforms` below). -/
theorem machine_eq_conforms_partial (g : Graph) (ctx : Ctx) (o : Obj) (c : Chk) (hF : Frag.inF1 ctx c = true) :
    verdict (checkTypeFuel Fix.tree g ctx (Term.workBound Fix.tree g ctx o c) o c) = true ↔ Conforms g ctx o c :=
  machine_eq_conforms_F1 g ctx o c hF

/-! ### COMPLETENESS for ALL specifications, disjunctions included -/

/-- C08, the completeness half at full strength, for every configuration of the repair flags satisfying
    `Complete.FixC` (staleIdx, staleErr, namedDisj, disjAttrs, refChain on, trail off; the other flags are free)
    and ANY fuel: on a conforming object of a well-formed specification the run ends with `accept` -- never with a
    rejection, never with a panic -- unless the fuel runs out. -/
theorem machine_complete_fuel (fx : Fix) (hfx : Complete.FixC fx) (g : Graph) (ctx : Ctx) (o : Obj) (c : Chk)
    (hwf : Frag.wfSpec ctx c = true) (hc : Conforms g ctx o c) (fuel : Nat) :
    (checkTypeFuel fx g ctx fuel o c).1 = .accept ∨ (checkTypeFuel fx g ctx fuel o c).1 = .outOfFuel :=
  Complete.checkType_complete_fuel hfx g ctx o c hwf hc fuel

/-- C08, the COMPLETENESS half for ALL specifications: every graph (reference chains, undefined and cyclic
    references), every context of named (recursive) types, every object and every well-formed specification `c` --
    arrays, heterogeneous arrays, dictionaries, wildcard entries, streams, DISJUNCTIONS (nested, behind names, with
    predicates and indirect requirements of their own), Any-typed entries with indirect requirements: if the object
    conforms under the declarative reading, the machine -- the code as it is, `Fix.tree` -- run with the work bound
    of C09 ACCEPTS.  (The converse fails with disjunctions: `memo_leak_witness`.) -/
theorem machine_complete (g : Graph) (ctx : Ctx) (o : Obj) (c : Chk) (hwf : Frag.wfSpec ctx c = true) :
    Conforms g ctx o c →
      (checkTypeFuel Fix.tree g ctx (Term.workBound Fix.tree g ctx o c) o c).1 = .accept :=
  Complete.checkType_complete Complete.fixC_tree g ctx o c hwf

/-- read the other way: a rejection (or any other outcome than `accept`) of the real checker is always right -/
theorem machine_reject_sound (g : Graph) (ctx : Ctx) (o : Obj) (c : Chk) (hwf : Frag.wfSpec ctx c = true)
    (h : verdict (checkTypeFuel Fix.tree g ctx (Term.workBound Fix.tree g ctx o c) o c) = false) :
    ¬ Conforms g ctx o c := by
  intro hc
  have := machine_complete g ctx o c hwf hc
  simp [verdict, this] at h

/-- C08 "machine = specification" as the pair that is proved: COMPLETENESS for all well-formed specifications,
    SOUNDNESS on fragment F1 (false outside it: `memo_leak_witness`, `any_entry_skips_indirect_witness`). -/
theorem machine_eq_conforms (g : Graph) (ctx : Ctx) (o : Obj) (c : Chk) :
    (Frag.wfSpec ctx c = true → Conforms g ctx o c →
      verdict (checkTypeFuel Fix.tree g ctx (Term.workBound Fix.tree g ctx o c) o c) = true) ∧
    (Frag.inF1 ctx c = true →
      verdict (checkTypeFuel Fix.tree g ctx (Term.workBound Fix.tree g ctx o c) o c) = true → Conforms g ctx o c) := by
  refine ⟨fun hwf hc => ?_, fun hF hv => (machine_eq_conforms_F1 g ctx o c hF).mp hv⟩
  simp [verdict, machine_complete g ctx o c hwf hc]

/-- every disagreement between the real checker and the declarative reading is a FALSE ACCEPT -/
theorem machine_disagreement_is_false_accept (g : Graph) (ctx : Ctx) (o : Obj) (c : Chk)
    (hwf : Frag.wfSpec ctx c = true)
    (h : ¬ (verdict (checkTypeFuel Fix.tree g ctx (Term.workBound Fix.tree g ctx o c) o c) = true ↔ Conforms g ctx o c)) :
    verdict (checkTypeFuel Fix.tree g ctx (Term.workBound Fix.tree g ctx o c) o c) = true ∧ ¬ Conforms g ctx o c := by
  by_cases hc : Conforms g ctx o c
  · exact absurd ⟨fun _ => hc, fun _ => (machine_eq_conforms g ctx o c).1 hwf hc⟩ h
  · refine ⟨?_, hc⟩
    cases hv : verdict (checkTypeFuel Fix.tree g ctx (Term.workBound Fix.tree g ctx o c) o c)
    · exact absurd ⟨fun h' => (by rw [hv] at h'; cases h'), fun h' => absurd h' hc⟩ h
    · rfl

-- non-vacuity: the hypotheses hold on the specification of the memo-leak finding (compound alternatives), on a
-- disjunction behind a name with an indirect requirement of its own inside a recursive type, and fail as intended
example : Frag.wfSpec [] (.disj Attr.dflt (alts [alt1, alt2])) = true := by decide
example : Frag.wfSpec namedD (.dict Attr.dflt (.cons kA .required (.named "t") .nil)) = true := by decide
example : Frag.wfSpec [] (.dict Attr.dflt (.cons kA .optional (.named "nowhere") .nil)) = false := by decide  -- dangling name
example : Frag.wfSpec [("a", .named "b"), ("b", I)] (.named "a") = false := by decide                  -- a name bound to a name
example : Frag.wfSpec [] (.array Attr.dflt (.disj Attr.dflt .nil) none) = false := by decide              -- empty disjunction
example : Complete.FixC Fix.tree := Complete.fixC_tree
-- `<< /A 1 >>` conforms to (dict{A : Integer, B : Integer} | dict{A : Integer}) through its SECOND alternative; the
-- first one fails after /A : Integer was taken up (and stays in the memo)
theorem conf_int_I (n : Nat) : conf [] [] n (.int 1) I = true := by
  cases n with
  | zero => rfl
  | succ n => rw [conf_leaf_const [] [] (.int 1) I rfl n]; decide
example : Conforms [] [] (.dict (.cons kA (.int 1) .nil)) (.disj Attr.dflt (alts [alt1, alt2])) := by
  intro n
  cases n with
  | zero => rfl
  | succ n =>
    cases n with
    | zero => decide
    | succ n =>
      have := conf_int_I n
      simp [conf, confStep, resolve, shapeOK, alts, alt1, alt2, ChkL.chks, ChkL.toList, entOK, ObjL.get, kA, kB,
        Chk.attr, Attr.dflt, indOK, predOK, value, deref, this]
example : (checkTypeFuel Fix.tree [] [] (Term.workBound Fix.tree [] [] (.dict (.cons kA (.int 1) .nil))
    (.disj Attr.dflt (alts [alt1, alt2]))) (.dict (.cons kA (.int 1) .nil)) (.disj Attr.dflt (alts [alt1, alt2]))).1
    = .accept := by decide +kernel

-- every leaf check is in F1 (instance; the fragment subsumes the leaf fragment)
example : Frag.inF1 [] (.prim ⟨some (.choice [.name [0x61]]), .required⟩ .name) = true := by decide

-- non-vacuity 1: a RECURSIVE named type against a CYCLIC graph (1 0 obj << /N 1 0 R /V [1 (s)] >>), inside F1
def nodeCtx : Ctx :=
  [("node", .dict Attr.dflt (.cons [0x4e] .optional (.named "node")
      (.cons [0x56] .required (.het Attr.dflt (alts [I, .prim Attr.dflt .string])) .nil)))]
def nodeG (v : Obj) : Graph :=
  [((1, 0), .dict (.cons [0x4e] (.ref 1 0) (.cons [0x56] (.arr (.cons [] (.int 1) (.cons [] v .nil))) .nil)))]
example : Frag.inF1 nodeCtx (.named "node") = true := by decide
example : verdict (checkTypeFuel Fix.tree (nodeG sS) nodeCtx
    (Term.workBound Fix.tree (nodeG sS) nodeCtx (.ref 1 0) (.named "node")) (.ref 1 0) (.named "node")) = true := by
  decide +kernel
example : Conforms (nodeG sS) nodeCtx (.ref 1 0) (.named "node") :=
  (machine_eq_conforms_F1 _ _ _ _ (by decide)).mp (by decide +kernel)
example : ¬ Conforms (nodeG (.int 2)) nodeCtx (.ref 1 0) (.named "node") := fun h => by
  have := (machine_eq_conforms_F1 _ _ _ _ (by decide)).mpr h
  revert this; decide +kernel
-- non-vacuity 2: inside / outside the fragment
example : Frag.inF1 [] (.dictStar Attr.dflt (.cons kA .forbidden I .nil) .optional (.array ⟨some .refArray, .required⟩ S' (some 2))) = true := by decide
example : Frag.inF1 [] alt1 = true := by decide
example : Frag.inF1 [] (.disj Attr.dflt (alts [alt1, alt2])) = false := by decide   -- a disjunction
example : Frag.inF1 [] (.dict Attr.dflt (.cons kA .required (.any ⟨none, .required⟩) .nil)) = false := by decide  -- Any entry, bare indirect
example : Frag.inF1 [] (.het Attr.dflt (alts [.any ⟨none, .required⟩])) = true := by decide  -- no short-cut in a heterogeneous array
example : Frag.inF1 [] (.dict Attr.dflt (.cons kA .optional (.named "nowhere") .nil)) = false := by decide  -- dangling name

/-- the F1 theorem is FALSE for the code at the pinned commit: a specification of the fragment that `Fix.orig`
    decides wrongly (#21, the memo ignored predicates) -/
theorem F1_fails_for_orig_witness :
    let t : Chk := .dict Attr.dflt (.cons kA .required inA (.cons kB .required inB .nil))
    let o : Obj := .dict (.cons kA nmA (.cons kB nmA .nil))
    Frag.inF1 [] t = true ∧ (checkTypeFuel Fix.orig [] [] (Term.workBound Fix.orig [] [] o t) o t).1 = .accept ∧
    gfp [] [] o t = false := by decide

/-- #25 in its simplest form: every alternative is a LEAF check that fails at its own head node, nothing is
    ever pushed under an alternative -- and still the failed pair `((s), Integer)` left in the memo makes the
    plain entry /B : Integer of the same dictionary be skipped: `<< /A (s) /B (s) >>` is accepted by
    dict{A : Integer|String, B : Integer}.  Also through a second disjunction: `[(s) (s)]` against
    [Integer|String, Integer|Bool].  (Hence a fragment with disjunctions needs the privacy condition of `inF2`.) -/
theorem shared_alternative_leak_witness :
    let tD : Chk := .dict Attr.dflt (.cons kA .required (.disj Attr.dflt (alts [I, S'])) (.cons kB .required I .nil))
    let oD : Obj := .dict (.cons kA sS (.cons kB sS .nil))
    let tH : Chk := .het Attr.dflt (alts [.disj Attr.dflt (alts [I, S']), .disj Attr.dflt (alts [I, B'])])
    let oH : Obj := .arr (.cons [] sS (.cons [] sS .nil))
    (checkTypeFuel Fix.tree [] [] 50 oD tD).1 = .accept ∧ gfp [] [] oD tD = false ∧
    (checkTypeFuel { Fix.tree with trail := true } [] [] 50 oD tD).1 = .reject .typeMismatch ∧
    (checkTypeFuel Fix.tree [] [] 50 oH tH).1 = .accept ∧ gfp [] [] oH tH = false ∧
    (checkTypeFuel { Fix.tree with trail := true } [] [] 50 oH tH).1 = .reject .typeMismatch := by decide

/-! ### fragment F2 (disjunctions of private leaf alternatives): `Frag.inF2`; the theorem is in Props/C08F2.lean -/
-- inside F2: an array of (Integer | Real) of size 4 (the shipped "rectangle"), also with an indirect requirement on the disjunction
example : Frag.inF2 [] (.array Attr.dflt (.disj Attr.dflt (alts [I, .prim Attr.dflt .real])) (some 4)) = true := by decide
example : Frag.inF2 [] (.array Attr.dflt (.disj ⟨none, .required⟩ (alts [I, S'])) none) = true := by decide
example : Frag.inF2 [] (.dict Attr.dflt (.cons kA .required (.disj Attr.dflt (alts [I, S'])) (.cons kB .required B' .nil))) = true := by decide
-- outside F2: the two specifications of `shared_alternative_leak_witness` (an alternative is not private), `memo_leak_witness`
-- (compound alternatives), and an alternative with an indirect requirement of its own
example : Frag.inF2 [] (.dict Attr.dflt (.cons kA .required (.disj Attr.dflt (alts [I, S'])) (.cons kB .required I .nil))) = false := by decide
example : Frag.inF2 [] (.het Attr.dflt (alts [.disj Attr.dflt (alts [I, S']), .disj Attr.dflt (alts [I, B'])])) = false := by decide
example : Frag.inF2 [] (.disj Attr.dflt (alts [alt1, alt2])) = false := by decide
example : Frag.inF2 [] (.disj Attr.dflt (alts [I, .prim ⟨none, .required⟩ .real])) = false := by decide

end Parsley.C08
