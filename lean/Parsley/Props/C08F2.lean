/-
  C08 on FRAGMENT F2: machine = specification WITH disjunctions -- `machine_eq_conforms_F2` (PROVED; it was the
  conjecture the C08 judge tested as `f2-conjecture-violated`).

  `Frag.inF2 ctx c` (Spec/TypeCheckFrag.lean, decidable, the definition is UNCHANGED): among the checks reachable from `c`
  (through names, `allow_indirect`, sub-checks, guard and bare form of a disjunction)
    * every non-disjunction node is an F1 node (no dangling name, no Any-typed entry with a bare indirect requirement);
    * every disjunction has at least one alternative, its alternatives are LEAF checks (`Any` / primitive, predicate
      allowed) without an indirect requirement of their own, pairwise different; predicate and indirect requirement of the
      DISJUNCTION are free;
    * PRIVACY: no alternative is itself reachable (as entry, element, guard or root), and two lists of alternatives are
      equal or disjoint.
  On this fragment, for EVERY object graph (reference chains, undefined and cyclic references), context of named
  (recursive) types and object, the verdict of the machine (the code as it is, `Fix.tree`, run with the work bound of C09)
  is `accept` IFF the object conforms under the declarative reading.

  The memo leak (the pair (object, alternative) of a FAILED alternative stays in the memo and is skipped as passed when
  it comes up again) is still there; the theorem says it cannot change a verdict on F2: the pair can only come up
  again as an alternative of a disjunction with the same alternatives on an object with the same value, after that
  disjunction PASSED on that value (a disjunction that fails makes the run reject: on F2 no disjunction is ever
  resumed by `unwind`), so "some alternative holds" is true.  Proof: Lemmas/TypeCheckSoundF2.lean (soundness; invariant
  `Inv` = F1's covered-obligations invariant + `AltGood` for the alternative pairs of the memo with the exceptions of the
  disjunction in progress), Lemmas/TypeCheckF2Closed.lean (`inF2` is an instance of the abstract closure `Closed2`; the
  closed set extended by the alternatives is a closed well-formed set of Lemmas/TypeCheckComplete.lean, which gives
  completeness WITHOUT the well-formedness hypothesis on the whole context).
  Outside F2 the statement is false: `shared_alternative_leak_witness` (an alternative that is not private),
  `memo_leak_witness` (compound alternatives), Props/C08.lean.
-/
import Parsley.Props.C08
import Parsley.Lemmas.ConformsStab
import Parsley.Lemmas.TypeCheckSoundF2
namespace Parsley.C08
open Parsley Parsley.TC Parsley.TC.Spec Parsley.TC.Frag

/-- soundness on F2 for every configuration of the repair flags satisfying `F2.FixF2` (= those of the F1 proof and
    those of the completeness proof) and ANY fuel: an accepting run implies conformance -/
theorem machine_sound_F2_fuel (fx : Fix) (hfx : F2.FixF2 fx) (g : Graph) (ctx : Ctx) (o : Obj) (c : Chk)
    (hF : Frag.inF2 ctx c = true) (fuel : Nat) :
    (checkTypeFuel fx g ctx fuel o c).1 = .accept → Conforms g ctx o c := by
  obtain ⟨hcl, hmem⟩ := F2.inF2_closed2 ctx c hF
  exact F2.checkType_F2_sound hfx g ctx _ _ hcl o c hmem fuel

/-- any fuel: a finished run accepts iff the object conforms -/
theorem machine_eq_conforms_F2_fuel (fx : Fix) (hfx : F2.FixF2 fx) (g : Graph) (ctx : Ctx) (o : Obj) (c : Chk)
    (hF : Frag.inF2 ctx c = true) (fuel : Nat) (hfin : (checkTypeFuel fx g ctx fuel o c).1 ≠ .outOfFuel) :
    verdict (checkTypeFuel fx g ctx fuel o c) = true ↔ Conforms g ctx o c := by
  obtain ⟨hcl, hmem⟩ := F2.inF2_closed2 ctx c hF
  simp only [verdict, decide_eq_true_eq]
  constructor
  · exact F2.checkType_F2_sound hfx g ctx _ _ hcl o c hmem fuel
  · intro hc
    rcases F2.checkType_F2_complete hfx g ctx _ _ hcl o c hmem hc fuel with h | h
    · exact h
    · exact absurd h hfin

/-- C08 on fragment F2 (FULL on the fragment, no further hypothesis): for every graph, context, object and every
    specification `c` with `Frag.inF2 ctx c`, the machine -- the code as it is -- run with the work bound of C09
    accepts IFF the object conforms. -/
theorem machine_eq_conforms_F2 (g : Graph) (ctx : Ctx) (o : Obj) (c : Chk) (hF : Frag.inF2 ctx c = true) :
    verdict (checkTypeFuel Fix.tree g ctx (Term.workBound Fix.tree g ctx o c) o c) = true ↔ Conforms g ctx o c :=
  machine_eq_conforms_F2_fuel Fix.tree F2.fixF2_tree g ctx o c hF _
    (Term.checkTypeFuel_terminates Fix.tree rfl g ctx o c)

/-- against the executable oracle of the judge (greatest fixed point on the universe of the case) -/
theorem machine_eq_oracle_F2 (g : Graph) (ctx : Ctx) (o : Obj) (c : Chk) (hF : Frag.inF2 ctx c = true) :
    verdict (checkTypeFuel Fix.tree g ctx (Term.workBound Fix.tree g ctx o c) o c) = gfp g ctx o c := by
  have h1 := machine_eq_conforms_F2 g ctx o c hF
  have h2 := gfp_iff_Conforms g ctx o c
  cases hv : verdict (checkTypeFuel Fix.tree g ctx (Term.workBound Fix.tree g ctx o c) o c) <;>
    cases hg : gfp g ctx o c <;> simp_all

/-- the widest fragment on which "machine = specification" is proved: F1 or F2.
    FULL STATEMENT (not provable for the code as it is): the same without the fragment hypothesis.  Missing:
    disjunctions with a compound, shared or indirect-carrying alternative (false there: `memo_leak_witness`,
    `shared_alternative_leak_witness`) and Any-typed entries with a bare indirect requirement (false there:
    `any_entry_skips_indirect_witness`); there only soundness fails (`machine_complete`). -/
theorem machine_eq_conforms_frag_partial (g : Graph) (ctx : Ctx) (o : Obj) (c : Chk)
    (hF : Frag.inF1 ctx c = true ∨ Frag.inF2 ctx c = true) :
    verdict (checkTypeFuel Fix.tree g ctx (Term.workBound Fix.tree g ctx o c) o c) = true ↔ Conforms g ctx o c := by
  rcases hF with h | h
  · exact machine_eq_conforms_F1 g ctx o c h
  · exact machine_eq_conforms_F2 g ctx o c h

/-! ### non-vacuity -/

def rectT : Chk := .array Attr.dflt (.disj Attr.dflt (alts [I, .prim Attr.dflt .real])) (some 4)
def dAB : Chk := .dict Attr.dflt (.cons kA .required (.disj ⟨none, .required⟩ (alts [I, S'])) (.cons kB .required B' .nil))

-- the hypothesis is satisfiable by specifications WITH disjunctions (the shipped "rectangle"; a dictionary entry
-- typed by a disjunction with an indirect requirement), and these are outside F1
example : Frag.inF2 [] rectT = true ∧ Frag.inF1 [] rectT = false := by decide
example : Frag.inF2 [] dAB = true ∧ Frag.inF1 [] dAB = false := by decide

-- both sides of the equivalence occur, and the memo is HIT on a failed alternative pair: in [1.5 1.5 2 1.5] the pair
-- (1.5, Integer) fails and is found again twice (skipped as passed -- rightly, Real holds); [1 2 (s) 4] is rejected
example : (checkTypeFuel Fix.tree [] [] 100
    (.arr (.cons [] (.real 3 2) (.cons [] (.real 3 2) (.cons [] (.int 2) (.cons [] (.real 3 2) .nil))))) rectT).1
      = .accept := by decide
example : (checkTypeFuel Fix.tree [] [] 100
    (.arr (.cons [] (.int 1) (.cons [] (.int 2) (.cons [] sS (.cons [] (.int 4) .nil))))) rectT).1
      = .reject .typeMismatch := by decide
example : gfp [] [] (.arr (.cons [] (.int 1) (.cons [] (.int 2) (.cons [] sS (.cons [] (.int 4) .nil))))) rectT
    = false := by decide

end Parsley.C08
