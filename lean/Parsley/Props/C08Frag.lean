/-
  C08 -- where the nodes of the SHIPPED catalog specification (regenerated `Gen/CatalogSpec.lean`: the check graph
  returned by the real `catalog_type` and the entries of its TypeCheckContext) fall with respect to the fragments
  of Spec/TypeCheckFrag.lean.  Kept apart from Props/C08.lean so that nothing else depends on the regenerated file.
  Names are looked up in the shipped context (robust against renumbering of the generated definitions).

  inside F1 (machine = specification PROVED, `machine_eq_conforms_F1`):
      "resources" (dictionary of optional dictionaries), "namedictionary" (dictionary of ten optional name trees,
      each an Any check with the name-tree predicate), "nametree", "numbertree", "date", "rotate", "count",
      "pages", "structparents", "parent" (as a root check: Any with indirect = required) and "" (empty dictionary)
  inside F2 only (machine = specification PROVED too, `machine_eq_conforms_F2`, Props/C08F2.lean):
      "rectangle" = array of 4 (Integer | Real)
  COUNTS (`shipped_fragment_counts`): of the 19 registered names 11 are in F1 and 12 in F2 (F1 + "rectangle"); of the 61
      distinct nodes of the shipped specification (sub-terms of the catalog type and of the registered types) 44 are in
      F1 and 46 in F2.  The catalog type itself is NOT in F2 (nor are page, template, kid(s), the two root types):
  outside both: "page", "template" (contain /Parent : Any with a bare indirect requirement -- the known finding
      any-entry-skips-indirect -- and rectangles whose alternative Integer also types other entries),
      "kid" / "kids" / "root-page-tree" / "root-non-page-tree" (disjunction page | node | template of dictionary
      types: compound alternatives), hence "catalog".
-/
import Parsley.Props.C08
import Parsley.Props.C08F2
import Parsley.Gen.CatalogSpec
namespace Parsley.C08
open Parsley Parsley.TC Parsley.TC.Spec Parsley.TC.Frag

abbrev shipped : Ctx := Parsley.Gen.CatalogSpec.ctx

example : inF1 shipped (.named "resources") = true := by decide +kernel
example : inF1 shipped (.named "namedictionary") = true := by decide +kernel
example : inF1 shipped (.named "nametree") = true := by decide +kernel
example : inF1 shipped (.named "date") = true := by decide +kernel
example : inF1 shipped (.named "parent") = true := by decide +kernel
example : inF1 shipped (.named "rectangle") = false := by decide +kernel
example : inF2 shipped (.named "rectangle") = true := by decide +kernel
example : inF2 shipped (.named "page") = false := by decide +kernel
example : inF2 shipped (.named "root-non-page-tree") = false := by decide +kernel
example : inF2 shipped (.named "kid") = false := by decide +kernel
example : inF2 shipped (.named "catalog") = false := by decide +kernel

/-- the proved theorem instantiated on a shipped node: for EVERY graph and object, the machine's verdict on the
    shipped name dictionary type is the declarative one -/
theorem shipped_namedictionary_correct (g : Graph) (o : Obj) :
    verdict (checkTypeFuel Fix.tree g shipped (Term.workBound Fix.tree g shipped o (.named "namedictionary")) o
      (.named "namedictionary")) = true ↔ Conforms g shipped o (.named "namedictionary") :=
  machine_eq_conforms_F1 g shipped o _ (by decide +kernel)

/-- the F2 theorem instantiated on the shipped rectangle type (MediaBox, CropBox, ...): for EVERY graph and object the
    machine's verdict is the declarative one, although the memo keeps the failed (number, Integer) pairs -/
theorem shipped_rectangle_correct (g : Graph) (o : Obj) :
    verdict (checkTypeFuel Fix.tree g shipped (Term.workBound Fix.tree g shipped o (.named "rectangle")) o
      (.named "rectangle")) = true ↔ Conforms g shipped o (.named "rectangle") :=
  machine_eq_conforms_F2 g shipped o _ (by decide +kernel)

/-- the registered names of the shipped specification inside F1 / inside F2 -/
def shippedNames : List String := (shipped.map (·.1)).eraseDups

/-- how much of the shipped specification lies in the proved fragments (closed facts about the regenerated term) -/
theorem shipped_fragment_counts :
    shippedNames.length = 19 ∧
    (shippedNames.filter fun n => inF1 shipped (.named n)).length = 11 ∧
    (shippedNames.filter fun n => inF2 shipped (.named n)) =
      ["", "count", "date", "namedictionary", "nametree", "numbertree", "pages", "parent", "rectangle", "resources",
       "rotate", "structparents"] ∧
    inF2 shipped Parsley.Gen.CatalogSpec.catalog = false := by decide +kernel

end Parsley.C08
