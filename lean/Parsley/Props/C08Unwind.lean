/-
  C08 (shared by C09/C10: same machine) -- two single-token mutations of `State::unwind` are EQUIVALENT.

  A mutation sweep of src/pdf_lib/pdf_type_check.rs left two mutants of `unwind` that no check notices:
    (a) :613  `PDFType::Disjunct(_) if *next_idx > 0 => return true`  ->  `>= 0`   (always true for a usize):
              unwinding also stops at a pending set whose front is a disjunction that has NOT been started;
    (b) :637  the final `return false` (no more pending sets)          ->  `return true`.
  Both situations ARE reachable (`unwind_sees_unstarted_disjunction_witness`, `unwind_empties_stack_witness`:
  the mutated machine needs more iterations of the loop in get_next_check on concrete cases), so they cannot be
  dismissed as dead code.  They are nevertheless equivalent, for every configuration of the machine, every
  graph, context, object and specification, and in BOTH observables (verdict with its error kind, and the
  work-loop iteration counter of C09):

    unwind_mutants_equivalent   check_type with `unwind` replaced by `unwindM a b` (any combination of the two
                                mutations) finishes with result r  IFF  the unmutated check_type finishes with r.

  Why: every call site of `unwind` is `if self.unwind() { continue } else { return Err(()) }` inside
  get_next_check, reached only with `check_error.is_some()`, and `check_error` is a parameter that the loop
  never changes.  (b) After `return true` on an empty stack the loop continues, finds no pending set and the
  error still present, and returns the same `Err(())`.  (a) After stopping early at an unstarted disjunction the
  loop pops that disjunction, sees index 0 and the error, and calls `unwind` again on the rest of the same set:
  the early stops are a slower way to discard the same pending sets (`settle`).

  `stepU` is the step function of Model/TypeCheck.lean with the unwinding function as a parameter;
  `stepU_unwindOr` ties it to the model's `step`.
-/
import Parsley.Model.TypeCheck
namespace Parsley.C08
open Parsley Parsley.TC

/-- `State::unwind` with the two mutations as flags (`a`: stop at any disjunction, started or not;
    `b`: report success on an emptied stack); `unwindM false false` is `unwind` -/
def unwindM (a b : Bool) : List Ent → Option (List Ent)
  | [] => if b then some [] else none
  | e :: rest =>
    match e.pending with
    | (_, tc) :: _ =>
      if tc.isDisj && (a || decide (e.idx > 0)) then some (e :: rest) else unwindM a b rest
    | [] => unwindM a b rest

def unwindOrM (a b : Bool) (st : St) (t : List Ent) (k : EK) : St ⊕ (Outcome × Nat) :=
  match unwindM a b t with
  | some t' => .inl { st with todo := t' }
  | none => .inr (.reject k, st.steps)

/-- `TC.step` with the function used for "unwind, then continue or return Err" as a parameter -/
def stepU (uo : St → List Ent → EK → St ⊕ (Outcome × Nat)) (fx : Fix) (g : Graph) (ctx : Ctx) (st0 : St) :
    St ⊕ (Outcome × Nat) :=
  let st : St := if st0.fresh then { st0 with steps := st0.steps + 1, fresh := false } else st0
  match st.todo with
  | [] =>
    match st.err with
    | some k => .inr (.reject k, st.steps)
    | none => .inr (.accept, st.steps)
  | e :: rest =>
    match e.pending with
    | [] =>
      match st.err with
      | some k => uo st (e :: rest) k
      | none => .inl { st with todo := rest }
    | (obj, tc) :: ptl =>
      match tc with
      | .disj a set =>
        if e.idx > 0 then
          match st.err with
          | none => .inl { st with todo := { e with pending := ptl, idx := 0, snap := none } :: rest }
          | some k =>
            match set.chks[e.idx]? with
            | some c =>
              issue fx g ctx
                (restore fx { st with todo := { e with pending := (obj, tc) :: ptl, idx := e.idx + 1 } :: rest } e)
                obj c
            | none =>
              uo (restore fx st e)
                ({ e with pending := ptl, idx := if fx.staleIdx then 0 else e.idx, snap := none } :: rest) k
        else
          match st.err with
          | some k => uo st ({ e with pending := ptl } :: rest) k
          | none =>
            match set.chks with
            | [] => .inr (.panic "get_next_check: unreachable (empty disjunct)", st.steps)
            | c0 :: _ =>
              if fx.disjAttrs && a != Attr.dflt then
                issue fx g ctx
                  { st with todo := { e with pending := (obj, .disj Attr.dflt set) :: ptl } :: rest }
                  obj (.any a)
              else
                issue fx g ctx
                  { st with todo := { e with pending := (obj, tc) :: ptl, idx := 1,
                                             snap := if fx.trail then some st.examined else none } :: rest }
                  obj c0
      | _ =>
        match st.err with
        | some k => uo st ({ e with pending := ptl } :: rest) k
        | none => issue fx g ctx { st with todo := { e with pending := ptl } :: rest } obj tc

/-- the parametrised step function instantiated with the model's `unwindOr` IS the model's `step` -/
theorem stepU_unwindOr (fx : Fix) (g : Graph) (ctx : Ctx) (st : St) :
    stepU unwindOr fx g ctx st = step fx g ctx st := by
  rfl

def runU (uo : St → List Ent → EK → St ⊕ (Outcome × Nat)) (fx : Fix) (g : Graph) (ctx : Ctx) :
    Nat → St → Outcome × Nat
  | 0, st => (.outOfFuel, st.steps)
  | n+1, st =>
    match stepU uo fx g ctx st with
    | .inl st' => runU uo fx g ctx n st'
    | .inr r => r

/-- `check_type` of the mutated code -/
def checkTypeFuelM (a b : Bool) (fx : Fix) (g : Graph) (ctx : Ctx) (fuel : Nat) (o : Obj) (chk : Chk) :
    Outcome × Nat :=
  match resolve ctx chk with
  | none => (.reject .unknownTypeCheck, 0)
  | some rep => runU (unwindOrM a b) fx g ctx fuel (initSt o (rep.norm fx))

theorem unwindM_ff : ∀ t, unwindM false false t = unwind t
  | [] => rfl
  | e :: rest => by
    obtain ⟨pd, ix, sn⟩ := e
    cases pd with
    | nil => simp [unwindM, unwind, unwindM_ff rest]
    | cons p ptl => simp [unwindM, unwind, unwindM_ff rest]

theorem unwindOrM_ff (st : St) (t : List Ent) (k : EK) : unwindOrM false false st t k = unwindOr st t k := by
  unfold unwindOrM unwindOr
  rw [unwindM_ff]
  cases unwind t <;> rfl

theorem runU_unwindOr (fx : Fix) (g : Graph) (ctx : Ctx) :
    ∀ n st, runU unwindOr fx g ctx n st = run fx g ctx n st
  | 0, _ => rfl
  | n+1, st => by
    unfold runU run
    rw [stepU_unwindOr]
    cases step fx g ctx st with
    | inl st' => exact runU_unwindOr fx g ctx n st'
    | inr r => rfl

/-- with both flags off the "mutated" check_type is the model's -/
theorem checkTypeFuelM_ff (fx : Fix) (g : Graph) (ctx : Ctx) (fuel : Nat) (o : Obj) (chk : Chk) :
    checkTypeFuelM false false fx g ctx fuel o chk = checkTypeFuel fx g ctx fuel o chk := by
  unfold checkTypeFuelM checkTypeFuel
  have h : unwindOrM false false = unwindOr := by
    funext st t k; exact unwindOrM_ff st t k
  rw [h]
  cases resolve ctx chk with
  | none => rfl
  | some rep => exact runU_unwindOr fx g ctx fuel _

/-! ### the proof -/

/-- continue a run from the result of a step -/
def runR (uo : St → List Ent → EK → St ⊕ (Outcome × Nat)) (fx : Fix) (g : Graph) (ctx : Ctx) (n : Nat) :
    St ⊕ (Outcome × Nat) → Outcome × Nat
  | .inl st => runU uo fx g ctx n st
  | .inr r => r

theorem runU_succ (uo) (fx : Fix) (g : Graph) (ctx : Ctx) (n : Nat) (st : St) :
    runU uo fx g ctx (n + 1) st = runR uo fx g ctx n (stepU uo fx g ctx st) := by
  show (match stepU uo fx g ctx st with
        | .inl st' => runU uo fx g ctx n st'
        | .inr r => r) = _
  cases stepU uo fx g ctx st <;> rfl

/-- more fuel does not change a finished run -/
theorem runU_mono (uo) (fx : Fix) (g : Graph) (ctx : Ctx) (j : Nat) :
    ∀ n st r, runU uo fx g ctx n st = r → r.1 ≠ .outOfFuel → runU uo fx g ctx (n + j) st = r
  | 0, st, r, h, hr => by
    exfalso; apply hr; rw [← h]; rfl
  | n+1, st, r, h, hr => by
    rw [Nat.add_right_comm, runU_succ]
    rw [runU_succ] at h
    cases hs : stepU uo fx g ctx st with
    | inl st' =>
      rw [hs] at h
      exact runU_mono uo fx g ctx j n st' r h hr
    | inr r' =>
      rw [hs] at h
      exact h

theorem runR_mono (uo) (fx : Fix) (g : Graph) (ctx : Ctx) (j n : Nat) (x : St ⊕ (Outcome × Nat)) (r)
    (h : runR uo fx g ctx n x = r) (hr : r.1 ≠ .outOfFuel) : runR uo fx g ctx (n + j) x = r := by
  cases x with
  | inl st => exact runU_mono uo fx g ctx j n st r h hr
  | inr r' => exact h

theorem unwindOrM_todo (a b : Bool) (st : St) (x t : List Ent) (k : EK) :
    unwindOrM a b { st with todo := x } t k = unwindOrM a b st t k := by
  unfold unwindOrM
  cases unwindM a b t <;> rfl

/-- size of a stack of pending sets: what one early stop of mutation (a) makes smaller -/
def meas : List Ent → Nat
  | [] => 0
  | e :: rest => e.pending.length + 1 + meas rest

/-- `unwind` does not look at the pending checks behind the front of an unstarted set -/
theorem unwind_unstarted (e : Ent) (rest : List Ent) (h0 : e.idx = 0) : unwind (e :: rest) = unwind rest := by
  obtain ⟨pd, ix, sn⟩ := e
  simp only at h0
  subst h0
  cases pd with
  | nil => simp [unwind]
  | cons p ptl => simp [unwind]

/-- THE KEY LEMMA.  Wherever the original code unwinds (error pending, inside get_next_check), the mutated
    unwinding followed by some more iterations of the get_next_check loop arrives where the original unwinding
    arrives: at the same state, or at the same `Err(())`. -/
theorem settle (a b : Bool) (fx : Fix) (g : Graph) (ctx : Ctx) :
    ∀ (N : Nat) (t : List Ent), meas t ≤ N → ∀ (st : St) (k : EK), st.err = some k → st.fresh = false →
      ∃ n, ∀ m, runR (unwindOrM a b) fx g ctx (n + m) (unwindOrM a b st t k)
                = runR (unwindOrM a b) fx g ctx m (unwindOr st t k) := by
  intro N
  induction N with
  | zero =>
    intro t ht st k herr hfr
    cases t with
    | cons e rest => simp [meas] at ht
    | nil =>
      cases b with
      | false => exact ⟨0, fun m => by simp [unwindOrM, unwindM, unwindOr, unwind]⟩
      | true =>
        refine ⟨1, fun m => ?_⟩
        have h1 : unwindOrM a true st [] k = .inl { st with todo := [] } := by simp [unwindOrM, unwindM]
        have h2 : unwindOr st [] k = .inr (.reject k, st.steps) := by simp [unwindOr, unwind]
        rw [h1, h2, Nat.add_comm]
        show runU _ fx g ctx (m + 1) _ = _
        rw [runU_succ]
        simp [stepU, hfr, herr, runR]
  | succ N ih =>
    intro t ht st k herr hfr
    cases t with
    | nil =>
      cases b with
      | false => exact ⟨0, fun m => by simp [unwindOrM, unwindM, unwindOr, unwind]⟩
      | true =>
        refine ⟨1, fun m => ?_⟩
        have h1 : unwindOrM a true st [] k = .inl { st with todo := [] } := by simp [unwindOrM, unwindM]
        have h2 : unwindOr st [] k = .inr (.reject k, st.steps) := by simp [unwindOr, unwind]
        rw [h1, h2, Nat.add_comm]
        show runU _ fx g ctx (m + 1) _ = _
        rw [runU_succ]
        simp [stepU, hfr, herr, runR]
    | cons e rest =>
      have hrest : meas rest ≤ N := by simp [meas] at ht; omega
      cases hp : e.pending with
      | nil =>
        -- both discard the empty set
        obtain ⟨n, hn⟩ := ih rest hrest st k herr hfr
        refine ⟨n, fun m => ?_⟩
        have h1 : unwindOrM a b st (e :: rest) k = unwindOrM a b st rest k := by
          simp [unwindOrM, unwindM, hp]
        have h2 : unwindOr st (e :: rest) k = unwindOr st rest k := by
          simp [unwindOr, unwind, hp]
        rw [h1, h2]; exact hn m
      | cons p ptl =>
        obtain ⟨o, tc⟩ := p
        by_cases hstop : (tc.isDisj && decide (e.idx > 0)) = true
        · -- an in-progress disjunction: both stop here
          refine ⟨0, fun m => ?_⟩
          have hd : tc.isDisj = true := by simp at hstop; exact hstop.1
          have h1 : unwindOrM a b st (e :: rest) k = .inl { st with todo := e :: rest } := by
            simp at hstop
            simp [unwindOrM, unwindM, hp, hstop]
          have h2 : unwindOr st (e :: rest) k = .inl { st with todo := e :: rest } := by
            simp at hstop
            simp [unwindOr, unwind, hp, hstop]
          rw [h1, h2, Nat.zero_add]
        · by_cases hearly : (tc.isDisj && a) = true
          · -- mutation (a): early stop at a disjunction that has not been started
            have hd : tc.isDisj = true := by simp at hearly; exact hearly.1
            have ha : a = true := by simp at hearly; exact hearly.2
            have h0 : e.idx = 0 := by
              simp [hd] at hstop; exact hstop
            have hsmall : meas ({ e with pending := ptl } :: rest) ≤ N := by
              simp [meas, hp] at ht ⊢; omega
            obtain ⟨n, hn⟩ := ih ({ e with pending := ptl } :: rest) hsmall st k herr hfr
            refine ⟨n + 1, fun m => ?_⟩
            have h1 : unwindOrM a b st (e :: rest) k = .inl { st with todo := e :: rest } := by
              simp [unwindOrM, unwindM, hp, hd, ha]
            have h2 : unwindOr st (e :: rest) k = unwindOr st ({ e with pending := ptl } :: rest) k := by
              unfold unwindOr
              rw [unwind_unstarted e rest h0, unwind_unstarted { e with pending := ptl } rest h0]
            rw [h1, h2, ← hn m]
            show runU _ fx g ctx (n + 1 + m) _ = _
            rw [Nat.add_right_comm, runU_succ]
            congr 1
            -- one iteration of the loop: pop the unstarted disjunction, see the error, unwind again
            cases tc with
            | disj at' set =>
              obtain ⟨td, ex, er, sp, fr⟩ := st
              simp only at herr hfr
              subst herr hfr
              simp [stepU, hp, h0]
              unfold unwindOrM
              cases unwindM a b _ <;> rfl
            | _ => simp [Chk.isDisj] at hd
          · -- both discard this set
            obtain ⟨n, hn⟩ := ih rest hrest st k herr hfr
            refine ⟨n, fun m => ?_⟩
            have h1 : unwindOrM a b st (e :: rest) k = unwindOrM a b st rest k := by
              have : (tc.isDisj && (a || decide (e.idx > 0))) = false := by
                cases hd : tc.isDisj <;> cases ha : a <;> simp_all
              simp [unwindOrM, unwindM, hp, this]
            have h2 : unwindOr st (e :: rest) k = unwindOr st rest k := by
              have : (tc.isDisj && decide (e.idx > 0)) = false := by simpa using hstop
              simp [unwindOr, unwind, hp, this]
            rw [h1, h2]; exact hn m

/-- one step of the mutated machine and one step of the original either coincide, or are the two unwindings of
    the same stack in a state that carries an error and is in the middle of a get_next_check call -/
theorem step_rel (a b : Bool) (fx : Fix) (g : Graph) (ctx : Ctx) (st : St) :
    stepU (unwindOrM a b) fx g ctx st = stepU unwindOr fx g ctx st ∨
    ∃ (st' : St) (t : List Ent) (k : EK), st'.err = some k ∧ st'.fresh = false ∧
      stepU (unwindOrM a b) fx g ctx st = unwindOrM a b st' t k ∧
      stepU unwindOr fx g ctx st = unwindOr st' t k := by
  unfold stepU
  extract_lets s
  have hsf : s.fresh = false := by
    show (if st.fresh then { st with steps := st.steps + 1, fresh := false } else st : St).fresh = false
    cases h : st.fresh <;> simp [h]
  have hre : ∀ e, (restore fx s e).err = s.err ∧ (restore fx s e).fresh = s.fresh := by
    intro e; unfold restore; cases fx.trail <;> simp
  repeat' split
  all_goals first
    | (left; rfl)
    | (right; exact ⟨_, _, _, by assumption, hsf, rfl, rfl⟩)
    | (right; exact ⟨_, _, _, (by rw [(hre _).1]; assumption), (by rw [(hre _).2]; exact hsf), rfl, rfl⟩)

/-- original run finished  ⇒  mutated run finishes with the same result -/
theorem run_to_runM (a b : Bool) (fx : Fix) (g : Graph) (ctx : Ctx) :
    ∀ (n : Nat) (st : St) (r : Outcome × Nat), runU unwindOr fx g ctx n st = r → r.1 ≠ .outOfFuel →
      ∃ m, runU (unwindOrM a b) fx g ctx m st = r
  | 0, st, r, h, hr => by
    exfalso; apply hr; rw [← h]; rfl
  | n+1, st, r, h, hr => by
    rw [runU_succ] at h
    rcases step_rel a b fx g ctx st with heq | ⟨st', t, k, herr, hfr, hM, hO⟩
    · cases hs : stepU unwindOr fx g ctx st with
      | inr r' =>
        rw [hs] at h heq
        exact ⟨1, by rw [runU_succ, heq]; exact h⟩
      | inl st'' =>
        rw [hs] at h heq
        obtain ⟨m, hm⟩ := run_to_runM a b fx g ctx n st'' r h hr
        exact ⟨m + 1, by rw [runU_succ, heq]; exact hm⟩
    · obtain ⟨n0, hn0⟩ := settle a b fx g ctx (meas t) t (Nat.le_refl _) st' k herr hfr
      rw [hO] at h
      cases hs : unwindOr st' t k with
      | inr r' =>
        rw [hs] at h
        refine ⟨n0 + 1, ?_⟩
        rw [runU_succ, hM]
        have := hn0 0
        rw [hs, Nat.add_zero] at this
        rw [this]; exact h
      | inl st'' =>
        rw [hs] at h
        obtain ⟨m, hm⟩ := run_to_runM a b fx g ctx n st'' r h hr
        refine ⟨n0 + m + 1, ?_⟩
        rw [runU_succ, hM, hn0 m, hs]; exact hm

/-- mutated run finished  ⇒  original run finishes with the same result -/
theorem runM_to_run (a b : Bool) (fx : Fix) (g : Graph) (ctx : Ctx) :
    ∀ (m : Nat) (st : St) (r : Outcome × Nat), runU (unwindOrM a b) fx g ctx m st = r → r.1 ≠ .outOfFuel →
      ∃ n, runU unwindOr fx g ctx n st = r
  | 0, st, r, h, hr => by
    exfalso; apply hr; rw [← h]; rfl
  | m+1, st, r, h, hr => by
    rw [runU_succ] at h
    rcases step_rel a b fx g ctx st with heq | ⟨st', t, k, herr, hfr, hM, hO⟩
    · rw [heq] at h
      cases hs : stepU unwindOr fx g ctx st with
      | inr r' =>
        rw [hs] at h
        exact ⟨1, by rw [runU_succ, hs]; exact h⟩
      | inl st'' =>
        rw [hs] at h
        obtain ⟨n, hn⟩ := runM_to_run a b fx g ctx m st'' r h hr
        exact ⟨n + 1, by rw [runU_succ, hs]; exact hn⟩
    · obtain ⟨n0, hn0⟩ := settle a b fx g ctx (meas t) t (Nat.le_refl _) st' k herr hfr
      rw [hM] at h
      have h' := runR_mono (unwindOrM a b) fx g ctx n0 m _ r h hr
      rw [Nat.add_comm, hn0 m] at h'
      cases hs : unwindOr st' t k with
      | inr r' =>
        rw [hs] at h'
        exact ⟨1, by rw [runU_succ, hO, hs]; exact h'⟩
      | inl st'' =>
        rw [hs] at h'
        obtain ⟨n, hn⟩ := runM_to_run a b fx g ctx m st'' r h' hr
        exact ⟨n + 1, by rw [runU_succ, hO, hs]; exact hn⟩

/-- THE THEOREM.  For every combination of the two mutations of `State::unwind`, every configuration of the
    machine, graph, context, object and specification: the mutated check_type finishes with the result `r`
    (verdict with error kind, work-loop iteration count) iff the unmutated one does.  The two mutants are
    equivalent; no test of check_type, whatever its input, can tell them from the original. -/
theorem unwind_mutants_equivalent (a b : Bool) (fx : Fix) (g : Graph) (ctx : Ctx) (o : Obj) (chk : Chk)
    (r : Outcome × Nat) (hr : r.1 ≠ .outOfFuel) :
    (∃ n, checkTypeFuel fx g ctx n o chk = r) ↔ (∃ m, checkTypeFuelM a b fx g ctx m o chk = r) := by
  unfold checkTypeFuel checkTypeFuelM
  cases resolve ctx chk with
  | none => exact Iff.rfl
  | some rep =>
    show (∃ n, run fx g ctx n (initSt o (rep.norm fx)) = r) ↔
         (∃ m, runU (unwindOrM a b) fx g ctx m (initSt o (rep.norm fx)) = r)
    constructor
    · rintro ⟨n, h⟩
      rw [← runU_unwindOr] at h
      exact run_to_runM a b fx g ctx n _ r h hr
    · rintro ⟨m, h⟩
      obtain ⟨n, hn⟩ := runM_to_run a b fx g ctx m _ r h hr
      exact ⟨n, by rw [← runU_unwindOr]; exact hn⟩

/-! ### non-vacuity and reachability -/

/-- dict {A : Integer, B : String, C : Integer|String} against << /A (s) /B (s) /C 1 >>: the check of /A fails,
    get_next_check pops /B and unwinds with the UNSTARTED disjunction of /C at the front of the top set -/
def wSpec : Chk :=
  .dict Attr.dflt (.cons [0x41] .required (.prim Attr.dflt .integer)
    (.cons [0x42] .required (.prim Attr.dflt .string)
      (.cons [0x43] .required (.disj Attr.dflt (.cons [] .required (.prim Attr.dflt .integer)
        (.cons [] .required (.prim Attr.dflt .string) .nil))) .nil)))
def wObj : Obj :=
  .dict (.cons [0x41] (.str [0x73]) (.cons [0x42] (.str [0x73]) (.cons [0x43] (.int 1) .nil)))

/-- mutation (a) is REACHABLE: the original run of this case is finished after 3 iterations of the
    get_next_check loop, the run of mutant (a) is not (it stopped at the unstarted disjunction and has to come
    round again) -- and it finishes with the same result, as the theorem says -/
theorem unwind_sees_unstarted_disjunction_witness :
    checkTypeFuel Fix.tree [] [] 3 wObj wSpec = (.reject .typeMismatch, 3) ∧
    checkTypeFuelM true false Fix.tree [] [] 3 wObj wSpec = (.outOfFuel, 3) ∧
    checkTypeFuelM true false Fix.tree [] [] 4 wObj wSpec = (.reject .typeMismatch, 3) := by
  decide

/-- mutation (b) is REACHABLE: Integer against (s) empties the stack in `unwind` -/
theorem unwind_empties_stack_witness :
    checkTypeFuel Fix.tree [] [] 2 (.str [0x73]) (.prim Attr.dflt .integer) = (.reject .typeMismatch, 2) ∧
    checkTypeFuelM false true Fix.tree [] [] 2 (.str [0x73]) (.prim Attr.dflt .integer) = (.outOfFuel, 2) ∧
    checkTypeFuelM false true Fix.tree [] [] 3 (.str [0x73]) (.prim Attr.dflt .integer) = (.reject .typeMismatch, 2) := by
  decide

/-- the hypotheses of `unwind_mutants_equivalent` are satisfiable on a case that unwinds through an unstarted
    disjunction -/
example : ∃ m, checkTypeFuelM true true Fix.tree [] [] m wObj wSpec = (.reject .typeMismatch, 3) :=
  (unwind_mutants_equivalent true true Fix.tree [] [] wObj wSpec _ (by decide)).1
    ⟨3, unwind_sees_unstarted_disjunction_witness.1⟩

end Parsley.C08
