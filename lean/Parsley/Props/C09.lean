/-
  C09 -- type checking terminates on cyclic graphs and recursive types.
  Proved here, for ALL graphs (cyclic, self-referential), contexts (mutually recursive names), objects,
  checks, and every configuration of the repair flags with a monotone memo (`trail = false`: the code
  as it is, `Fix.tree`, and the code at the pinned commit, `Fix.orig`):
    machine_terminates           the run finishes within the EXPLICIT bound `Term.workBound`
                                 (Spec/WorkBound.lean) = costA * |objects| * |queued forms of spec nodes|
                                 + Wc + 5, costA = 1 + (Wo + Wc + 2)(Wc + 3), Wo/Wc = largest fan-out of an
                                 object / a specification node.  Proof: Lemmas/TypeCheckTerm.lean -- the
                                 potential  costA * (|pairs| - |examined|) + (cost of the pending stack)
                                 decreases with every iteration of the get_next_check loop; the invariant
                                 is that the memo is duplicate-free and, like every pending check, lies in
                                 the finite universe objects x spec-node forms, which is closed under
                                 everything the machine queues (components, lookup, reference chasing,
                                 named-check resolution, allow_indirect, guard/bare split of a disjunction).
    machine_work_bound           hence the work-loop iteration count (the `verif` hook counter of the real
                                 check_type, which the model reproduces exactly on every case) is at most
                                 `workBound`, and every fuel >= workBound gives the same verdict and count
    machine_deterministic        the machine is a function of its inputs (verdict AND step count)
    machine_fuel_independent     once the run finishes within some fuel, every larger fuel gives the same
                                 verdict and the same step count (the fuel is not observable)
    machine_steps_le_fuel        the number of work-loop iterations never exceeds the fuel consumed
    machine_is_a_loop            `run` unfolds to one `step` per unit of fuel: `step` is not recursive
                                 (logical half of "without growing the call stack")
  NOT covered: the configuration `trail = true` (the memo-leak repair that is NOT in the tree): restoring
  the memo on backtracking makes it non-monotone, and the bound above does not hold for it.
  Witnesses (decide on concrete inputs, replayed on the real check_type by corpus/C09):
    selfref_terminates_witness, parent_cycle_terminates_witness
-/
import Parsley.Model.TypeCheck
import Parsley.Spec.Conforms
import Parsley.Spec.WorkBound
import Parsley.Lemmas.TypeCheckTerm
namespace Parsley.C09
open Parsley Parsley.TC

theorem machine_deterministic (fx : Fix) (g : Graph) (ctx : Ctx) (fuel : Nat) (o : Obj) (c : Chk)
    (r₁ r₂ : Outcome × Nat)
    (h₁ : checkTypeFuel fx g ctx fuel o c = r₁) (h₂ : checkTypeFuel fx g ctx fuel o c = r₂) :
    r₁ = r₂ := by
  rw [← h₁, ← h₂]

theorem run_fuel_mono (fx : Fix) (g : Graph) (ctx : Ctx) :
    ∀ (n : Nat) (st : St), (run fx g ctx n st).1 ≠ .outOfFuel →
      ∀ m, n ≤ m → run fx g ctx m st = run fx g ctx n st := by
  intro n
  induction n with
  | zero => intro st h; simp [run] at h
  | succ n ih =>
    intro st h m hm
    cases m with
    | zero => omega
    | succ m =>
      simp only [run] at h ⊢
      cases hs : step fx g ctx st with
      | inl st' =>
        simp only [hs] at h ⊢
        exact ih st' h m (by omega)
      | inr r => rfl

theorem machine_fuel_independent (fx : Fix) (g : Graph) (ctx : Ctx) (n m : Nat) (o : Obj) (c : Chk)
    (h : (checkTypeFuel fx g ctx n o c).1 ≠ .outOfFuel) (hm : n ≤ m) :
    checkTypeFuel fx g ctx m o c = checkTypeFuel fx g ctx n o c := by
  unfold checkTypeFuel at h ⊢
  cases hr : resolve ctx c with
  | none => rfl
  | some rep =>
    simp only [hr] at h ⊢
    exact run_fuel_mono fx g ctx n _ h m hm

/-- the step counter grows by at most one per `step` -/
theorem step_steps_le (fx : Fix) (g : Graph) (ctx : Ctx) (st : St) :
    (∀ st', step fx g ctx st = .inl st' → st'.steps ≤ st.steps + 1) ∧
    (∀ r, step fx g ctx st = .inr r → r.2 ≤ st.steps + 1) := by
  have key : ∀ (s : St), s.steps ≤ st.steps + 1 →
      ∀ o tc, (∀ st', issue fx g ctx s o tc = .inl st' → st'.steps ≤ st.steps + 1) ∧
              (∀ r, issue fx g ctx s o tc = .inr r → r.2 ≤ st.steps + 1) := by
    intro s hs o tc
    unfold issue
    cases resolve ctx tc with
    | none => simp; omega
    | some c =>
      simp only []
      split
      · constructor
        · intro st' h; simp at h; subst h; simpa using hs
        · intro r h; simp at h
      · cases processCheck fx g ctx o tc c with
        | hard k => simp; omega
        | fail k => constructor <;> intro x h <;> simp at h; subst h; simpa using hs
        | pass => constructor <;> intro x h <;> simp at h; subst h; simpa using hs
        | ret p =>
          simp only []
          cases s.todo with
          | nil => simp; omega
          | cons e rest => constructor <;> intro x h <;> simp at h; subst h; simpa using hs
        | push ps =>
          constructor <;> intro x h <;> simp at h
          subst h; unfold pushChecks; split <;> simpa using hs
        | pushRaw ps => constructor <;> intro x h <;> simp at h; subst h; simpa using hs
  have keyU : ∀ (s : St) (t : List Ent) (k : EK), s.steps ≤ st.steps + 1 →
      (∀ st', unwindOr s t k = .inl st' → st'.steps ≤ st.steps + 1) ∧
      (∀ r, unwindOr s t k = .inr r → r.2 ≤ st.steps + 1) := by
    intro s t k hs
    unfold unwindOr
    cases unwind t with
    | none => simp; omega
    | some t' => constructor <;> intro x h <;> simp at h; subst h; simpa using hs
  unfold step
  generalize hst : (if st.fresh = true then { st with steps := st.steps + 1, fresh := false } else st) = s
  have hs : s.steps ≤ st.steps + 1 := by
    subst hst; split <;> simp
  simp only []
  cases htd : s.todo with
  | nil =>
    simp only []
    cases s.err <;> simp <;> omega
  | cons e rest =>
    simp only []
    cases hp : e.pending with
    | nil =>
      simp only []
      cases s.err with
      | none => constructor <;> intro x h <;> simp at h; subst h; simpa using hs
      | some k => exact keyU s _ k hs
    | cons p ptl =>
      obtain ⟨obj, tc⟩ := p
      simp only []
      cases tc with
      | disj a set =>
        simp only []
        split
        · cases herr : s.err with
          | none => constructor <;> intro x h <;> simp at h; subst h; simpa using hs
          | some k =>
            simp only []
            cases set.chks[e.idx]? with
            | none =>
              simp only []
              apply keyU
              unfold restore; split <;> simpa using hs
            | some c =>
              simp only []
              apply key
              unfold restore; split <;> simpa using hs
        · cases herr : s.err with
          | some k => exact keyU s _ k hs
          | none =>
            simp only []
            cases set.chks with
            | nil => simp; omega
            | cons c0 cs =>
              simp only []
              split
              · apply key; simpa using hs
              · apply key; simpa using hs
      | named n =>
        simp only []
        cases s.err with
        | some k => exact keyU s _ k hs
        | none => apply key; simpa using hs
      | any a =>
        simp only []
        cases s.err with
        | some k => exact keyU s _ k hs
        | none => apply key; simpa using hs
      | prim a p =>
        simp only []
        cases s.err with
        | some k => exact keyU s _ k hs
        | none => apply key; simpa using hs
      | array a el sz =>
        simp only []
        cases s.err with
        | some k => exact keyU s _ k hs
        | none => apply key; simpa using hs
      | het a es =>
        simp only []
        cases s.err with
        | some k => exact keyU s _ k hs
        | none => apply key; simpa using hs
      | dict a es =>
        simp only []
        cases s.err with
        | some k => exact keyU s _ k hs
        | none => apply key; simpa using hs
      | dictStar a es so sc =>
        simp only []
        cases s.err with
        | some k => exact keyU s _ k hs
        | none => apply key; simpa using hs
      | stream a es =>
        simp only []
        cases s.err with
        | some k => exact keyU s _ k hs
        | none => apply key; simpa using hs

theorem run_steps_le (fx : Fix) (g : Graph) (ctx : Ctx) :
    ∀ (n : Nat) (st : St), (run fx g ctx n st).2 ≤ st.steps + n := by
  intro n
  induction n with
  | zero => intro st; simp [run]
  | succ n ih =>
    intro st
    simp only [run]
    cases hs : step fx g ctx st with
    | inl st' =>
      simp only []
      have h1 := (step_steps_le fx g ctx st).1 st' hs
      have h2 := ih st'
      omega
    | inr r =>
      simp only []
      have h1 := (step_steps_le fx g ctx st).2 r hs
      omega

/-- the work-loop iteration count (what the `verif` hook counts in the Rust code) is at most the fuel -/
theorem machine_steps_le_fuel (fx : Fix) (g : Graph) (ctx : Ctx) (fuel : Nat) (o : Obj) (c : Chk) :
    (checkTypeFuel fx g ctx fuel o c).2 ≤ fuel := by
  unfold checkTypeFuel
  cases resolve ctx c with
  | none => simp
  | some rep =>
    have := run_steps_le fx g ctx fuel (initSt o (rep.norm fx))
    simpa [initSt] using this

/-- `run` is a plain loop around the non-recursive `step` -/
theorem machine_is_a_loop (fx : Fix) (g : Graph) (ctx : Ctx) (n : Nat) (st : St) :
    run fx g ctx (n + 1) st =
      match step fx g ctx st with
      | .inl st' => run fx g ctx n st'
      | .inr r => r := rfl

/-- a run that finishes is stable under more fuel, and its iteration count is bounded by the fuel -/
theorem machine_finished_run_stable (fx : Fix) (g : Graph) (ctx : Ctx) (n : Nat) (o : Obj) (c : Chk)
    (h : (checkTypeFuel fx g ctx n o c).1 ≠ .outOfFuel) :
    (∀ m, n ≤ m → checkTypeFuel fx g ctx m o c = checkTypeFuel fx g ctx n o c) ∧
    (checkTypeFuel fx g ctx n o c).2 ≤ n :=
  ⟨fun m hm => machine_fuel_independent fx g ctx n m o c h hm, machine_steps_le_fuel fx g ctx n o c⟩

/-- C09, full strength: for EVERY graph, context, object and specification the machine finishes within
    the explicit bound `workBound` (in every flag configuration with a monotone memo) -/
theorem machine_terminates (fx : Fix) (htr : fx.trail = false) (g : Graph) (ctx : Ctx) (o : Obj) (c : Chk) :
    (checkTypeFuel fx g ctx (Term.workBound fx g ctx o c) o c).1 ≠ .outOfFuel :=
  Term.checkTypeFuel_terminates fx htr g ctx o c

/-- the code as it is, and the code at the pinned commit -/
theorem machine_terminates_tree (g : Graph) (ctx : Ctx) (o : Obj) (c : Chk) :
    (checkTypeFuel Fix.tree g ctx (Term.workBound Fix.tree g ctx o c) o c).1 ≠ .outOfFuel ∧
    (checkTypeFuel Fix.orig g ctx (Term.workBound Fix.orig g ctx o c) o c).1 ≠ .outOfFuel :=
  ⟨machine_terminates Fix.tree rfl g ctx o c, machine_terminates Fix.orig rfl g ctx o c⟩

/-- the work-loop iteration count is at most `workBound`, and no larger fuel changes verdict or count -/
theorem machine_work_bound (fx : Fix) (htr : fx.trail = false) (g : Graph) (ctx : Ctx) (o : Obj) (c : Chk) :
    (checkTypeFuel fx g ctx (Term.workBound fx g ctx o c) o c).2 ≤ Term.workBound fx g ctx o c ∧
    ∀ m, Term.workBound fx g ctx o c ≤ m →
      checkTypeFuel fx g ctx m o c = checkTypeFuel fx g ctx (Term.workBound fx g ctx o c) o c :=
  ⟨machine_steps_le_fuel fx g ctx _ o c,
   fun m hm => machine_fuel_independent fx g ctx _ m o c (machine_terminates fx htr g ctx o c) hm⟩

/-! ### witnesses: cyclic inputs terminate (concrete runs; replayed on the real code by corpus/C09) -/

/-- `5 0 obj 5 0 R` checked against Integer: 3 iterations (null is not an integer) -/
theorem selfref_terminates_witness :
    checkTypeFuel Fix.tree [((5, 0), .ref 5 0)] [] 10 (.ref 5 0) (.prim Attr.dflt .integer)
      = (.reject .typeMismatch, 3) ∧
    checkTypeFuel Fix.orig [((5, 0), .ref 5 0)] [] 10 (.ref 5 0) (.prim Attr.dflt .integer)
      = (.accept, 3) := by decide

def nodeT : Chk := .dict Attr.dflt (.cons [0x4e] .optional (.named "node") .nil)
/-- two dictionaries pointing at each other through /N, against the recursive named type
    node = dict{ N : optional node } -/
theorem parent_cycle_terminates_witness :
    (checkTypeFuel Fix.tree
      [((1, 0), .dict (.cons [0x4e] (.ref 2 0) .nil)), ((2, 0), .dict (.cons [0x4e] (.ref 1 0) .nil))]
      [("node", nodeT)] 40 (.ref 1 0) (.named "node")).1 = .accept := by decide

-- non-vacuity of machine_finished_run_stable: a finished run exists
example : (checkTypeFuel Fix.tree [] [] 5 (.int 1) (.prim Attr.dflt .integer)).1 ≠ .outOfFuel := by decide

-- the bound on a concrete cyclic case: two dictionaries pointing at each other, recursive named type
example : Term.workBound Fix.tree
    [((1, 0), .dict (.cons [0x4e] (.ref 2 0) .nil)), ((2, 0), .dict (.cons [0x4e] (.ref 1 0) .nil))]
    [("node", nodeT)] (.ref 1 0) (.named "node") = 2046 := by decide

end Parsley.C09
