/-
  C09 -- type checking terminates on cyclic graphs and recursive types.
  Proved here, for ALL graphs, contexts, objects, checks, fix configurations:
    machine_deterministic        the machine is a function of its inputs (verdict AND step count)
    machine_fuel_independent     once the run finishes within some fuel, every larger fuel gives the same
                                 verdict and the same step count (the fuel is not observable)
    machine_steps_le_fuel        the number of work-loop iterations never exceeds the fuel consumed
    machine_is_a_loop            `run` unfolds to one `step` per unit of fuel: `step` is not recursive
                                 (logical half of "without growing the call stack")
    machine_terminates_partial   the three facts above packaged: a finished run is stable, and bounded
  NOT proved (stated, checked at run time on every case by the C09 judge): that fuel
    bound g ctx o c = 2 + Σ_{(x,d) ∈ objects(g,o) × nodes(ctx,c)} (3 + fanout x d)·(M+3)
  always suffices -- the full statement is
    theorem machine_terminates : (checkTypeFuel fx g ctx (bound g ctx o c) o c).1 ≠ .outOfFuel
  Witnesses (decide on concrete inputs, replayed on the real check_type by corpus/C09):
    selfref_terminates_witness, parent_cycle_terminates_witness
-/
import Parsley.Model.TypeCheck
import Parsley.Spec.Conforms
namespace Parsley.C09
open Parsley Parsley.TC

theorem machine_deterministic (fx : Fix) (g : Graph) (ctx : Ctx) (fuel : Nat) (o : Obj) (c : Chk)
    (r₁ r₂ : Outcome × Nat)
    (h₁ : checkTypeFuel fx g ctx fuel o c = r₁) (h₂ : checkTypeFuel fx g ctx fuel o c = r₂) :
    r₁ = r₂ := by
  rw [← h₁, ← h₂]

theorem run_fuel_mono (fx : Fix) (g : Graph) (ctx : Ctx) :
    ∀ (n : Nat) (st : St), (run fx g ctx n st).1 ≠ .outOfFuel →
      ∀ m, n ≤ m → run fx g ctx m st = run fx g ctx n st := by
  intro n
  induction n with
  | zero => intro st h; simp [run] at h
  | succ n ih =>
    intro st h m hm
    cases m with
    | zero => omega
    | succ m =>
      simp only [run] at h ⊢
      cases hs : step fx g ctx st with
      | inl st' =>
        simp only [hs] at h ⊢
        exact ih st' h m (by omega)
      | inr r => rfl

theorem machine_fuel_independent (fx : Fix) (g : Graph) (ctx : Ctx) (n m : Nat) (o : Obj) (c : Chk)
    (h : (checkTypeFuel fx g ctx n o c).1 ≠ .outOfFuel) (hm : n ≤ m) :
    checkTypeFuel fx g ctx m o c = checkTypeFuel fx g ctx n o c := by
  unfold checkTypeFuel at h ⊢
  cases hr : resolve ctx c with
  | none => rfl
  | some rep =>
    simp only [hr] at h ⊢
    exact run_fuel_mono fx g ctx n _ h m hm

/-- the step counter grows by at most one per `step` -/
theorem step_steps_le (fx : Fix) (g : Graph) (ctx : Ctx) (st : St) :
    (∀ st', step fx g ctx st = .inl st' → st'.steps ≤ st.steps + 1) ∧
    (∀ r, step fx g ctx st = .inr r → r.2 ≤ st.steps + 1) := by
  have key : ∀ (s : St), s.steps ≤ st.steps + 1 →
      ∀ o tc, (∀ st', issue fx g ctx s o tc = .inl st' → st'.steps ≤ st.steps + 1) ∧
              (∀ r, issue fx g ctx s o tc = .inr r → r.2 ≤ st.steps + 1) := by
    intro s hs o tc
    unfold issue
    cases resolve ctx tc with
    | none => simp; omega
    | some c =>
      simp only []
      split
      · constructor
        · intro st' h; simp at h; subst h; simpa using hs
        · intro r h; simp at h
      · cases processCheck fx g ctx o tc c with
        | hard k => simp; omega
        | fail k => constructor <;> intro x h <;> simp at h; subst h; simpa using hs
        | pass => constructor <;> intro x h <;> simp at h; subst h; simpa using hs
        | ret p =>
          simp only []
          cases s.todo with
          | nil => simp; omega
          | cons e rest => constructor <;> intro x h <;> simp at h; subst h; simpa using hs
        | push ps =>
          constructor <;> intro x h <;> simp at h
          subst h; unfold pushChecks; split <;> simpa using hs
        | pushRaw ps => constructor <;> intro x h <;> simp at h; subst h; simpa using hs
  have keyU : ∀ (s : St) (t : List Ent) (k : EK), s.steps ≤ st.steps + 1 →
      (∀ st', unwindOr s t k = .inl st' → st'.steps ≤ st.steps + 1) ∧
      (∀ r, unwindOr s t k = .inr r → r.2 ≤ st.steps + 1) := by
    intro s t k hs
    unfold unwindOr
    cases unwind t with
    | none => simp; omega
    | some t' => constructor <;> intro x h <;> simp at h; subst h; simpa using hs
  unfold step
  generalize hst : (if st.fresh = true then { st with steps := st.steps + 1, fresh := false } else st) = s
  have hs : s.steps ≤ st.steps + 1 := by
    subst hst; split <;> simp
  simp only []
  cases htd : s.todo with
  | nil =>
    simp only []
    cases s.err <;> simp <;> omega
  | cons e rest =>
    simp only []
    cases hp : e.pending with
    | nil =>
      simp only []
      cases s.err with
      | none => constructor <;> intro x h <;> simp at h; subst h; simpa using hs
      | some k => exact keyU s _ k hs
    | cons p ptl =>
      obtain ⟨obj, tc⟩ := p
      simp only []
      cases tc with
      | disj a set =>
        simp only []
        split
        · cases herr : s.err with
          | none => constructor <;> intro x h <;> simp at h; subst h; simpa using hs
          | some k =>
            simp only []
            cases set.chks[e.idx]? with
            | none =>
              simp only []
              apply keyU
              unfold restore; split <;> simpa using hs
            | some c =>
              simp only []
              apply key
              unfold restore; split <;> simpa using hs
        · cases herr : s.err with
          | some k => exact keyU s _ k hs
          | none =>
            simp only []
            cases set.chks with
            | nil => simp; omega
            | cons c0 cs =>
              simp only []
              split
              · apply key; simpa using hs
              · apply key; simpa using hs
      | named n =>
        simp only []
        cases s.err with
        | some k => exact keyU s _ k hs
        | none => apply key; simpa using hs
      | any a =>
        simp only []
        cases s.err with
        | some k => exact keyU s _ k hs
        | none => apply key; simpa using hs
      | prim a p =>
        simp only []
        cases s.err with
        | some k => exact keyU s _ k hs
        | none => apply key; simpa using hs
      | array a el sz =>
        simp only []
        cases s.err with
        | some k => exact keyU s _ k hs
        | none => apply key; simpa using hs
      | het a es =>
        simp only []
        cases s.err with
        | some k => exact keyU s _ k hs
        | none => apply key; simpa using hs
      | dict a es =>
        simp only []
        cases s.err with
        | some k => exact keyU s _ k hs
        | none => apply key; simpa using hs
      | dictStar a es so sc =>
        simp only []
        cases s.err with
        | some k => exact keyU s _ k hs
        | none => apply key; simpa using hs
      | stream a es =>
        simp only []
        cases s.err with
        | some k => exact keyU s _ k hs
        | none => apply key; simpa using hs

theorem run_steps_le (fx : Fix) (g : Graph) (ctx : Ctx) :
    ∀ (n : Nat) (st : St), (run fx g ctx n st).2 ≤ st.steps + n := by
  intro n
  induction n with
  | zero => intro st; simp [run]
  | succ n ih =>
    intro st
    simp only [run]
    cases hs : step fx g ctx st with
    | inl st' =>
      simp only []
      have h1 := (step_steps_le fx g ctx st).1 st' hs
      have h2 := ih st'
      omega
    | inr r =>
      simp only []
      have h1 := (step_steps_le fx g ctx st).2 r hs
      omega

/-- the work-loop iteration count (what the `verif` hook counts in the Rust code) is at most the fuel -/
theorem machine_steps_le_fuel (fx : Fix) (g : Graph) (ctx : Ctx) (fuel : Nat) (o : Obj) (c : Chk) :
    (checkTypeFuel fx g ctx fuel o c).2 ≤ fuel := by
  unfold checkTypeFuel
  cases resolve ctx c with
  | none => simp
  | some rep =>
    have := run_steps_le fx g ctx fuel (initSt o (rep.norm fx))
    simpa [initSt] using this

/-- `run` is a plain loop around the non-recursive `step` -/
theorem machine_is_a_loop (fx : Fix) (g : Graph) (ctx : Ctx) (n : Nat) (st : St) :
    run fx g ctx (n + 1) st =
      match step fx g ctx st with
      | .inl st' => run fx g ctx n st'
      | .inr r => r := rfl

theorem machine_terminates_partial (fx : Fix) (g : Graph) (ctx : Ctx) (n : Nat) (o : Obj) (c : Chk)
    (h : (checkTypeFuel fx g ctx n o c).1 ≠ .outOfFuel) :
    (∀ m, n ≤ m → checkTypeFuel fx g ctx m o c = checkTypeFuel fx g ctx n o c) ∧
    (checkTypeFuel fx g ctx n o c).2 ≤ n :=
  ⟨fun m hm => machine_fuel_independent fx g ctx n m o c h hm, machine_steps_le_fuel fx g ctx n o c⟩

/-! ### witnesses: cyclic inputs terminate (concrete runs; replayed on the real code by corpus/C09) -/

/-- `5 0 obj 5 0 R` checked against Integer: 3 iterations (null is not an integer) -/
theorem selfref_terminates_witness :
    checkTypeFuel Fix.tree [((5, 0), .ref 5 0)] [] 10 (.ref 5 0) (.prim Attr.dflt .integer)
      = (.reject .typeMismatch, 3) ∧
    checkTypeFuel Fix.orig [((5, 0), .ref 5 0)] [] 10 (.ref 5 0) (.prim Attr.dflt .integer)
      = (.accept, 3) := by decide

def nodeT : Chk := .dict Attr.dflt (.cons [0x4e] .optional (.named "node") .nil)
/-- two dictionaries pointing at each other through /N, against the recursive named type
    node = dict{ N : optional node } -/
theorem parent_cycle_terminates_witness :
    (checkTypeFuel Fix.tree
      [((1, 0), .dict (.cons [0x4e] (.ref 2 0) .nil)), ((2, 0), .dict (.cons [0x4e] (.ref 1 0) .nil))]
      [("node", nodeT)] 40 (.ref 1 0) (.named "node")).1 = .accept := by decide

-- non-vacuity of machine_terminates_partial: a finished run exists
example : (checkTypeFuel Fix.tree [] [] 5 (.int 1) (.prim Attr.dflt .integer)).1 ≠ .outOfFuel := by decide

end Parsley.C09
