/-
  C10 -- the shipped catalog and page-tree specification is enforced.

  Shipped specification : Parsley/Gen/CatalogSpec.lean, REGENERATED on every run from the check graph the real
                          `catalog::catalog_type(&mut tctx)` returns (`c10 extract CatalogSpec`).
  Rules                 : Spec/CatalogRules.lean (documents, `render`, single-rule `Mutation`s).
  Declarative reading   : Spec/Conforms.lean (`conf`, `Conforms`).       Machine: Model/TypeCheck.lean (`Fix.tree`).

  PART 1  structural theorems over the regenerated term (`decide +kernel`; a weakened shipped specification stops
          building): required / forbidden keys of the catalog, the root node, and each kid alternative; the kid check
          requires an indirect reference and offers exactly node | page | template; /Parent is `any` with
          indirect-required; the page-mode, page-layout and tab-order names are exactly the listed ones; rectangles
          are arrays of exactly four int|real; /LastModified is a string with the date predicate; /PageLabels is the
          number-tree predicate READING /Nums (this theorem does not build on a tree without fix C10-01);
          /Names is a dictionary of name trees; every key of the rules' tables has an entry in the shipped type.
  PART 2  for ALL objects: the rules' name-tree / number-tree recogniser equals the model of NameTreePredicate /
          NumberTreePredicate (`tree_rule_eq_model`), hence rule-conforming trees pass and rule-violating ones fail.
  PART 3  for ALL documents (any shape, fan-out, depth, object numbers, counts):
          `conforms_of_invariant` (coinduction principle for `Conforms`) and `rendered_conforms_partial`.
  PART 4  witnesses of the engine findings that remain visible through the shipped specification.
-/
import Parsley.Gen.CatalogSpec
import Parsley.Spec.CatalogRules
import Parsley.Spec.Conforms
namespace Parsley.C10
open Parsley Parsley.TC Parsley.TC.Spec
open Parsley.CatalogRules (Doc Node Nodes PageOpts CatOpts Mutation Where kType kPages kCount kParent kMediaBox
  pageDict nodeDict catalogDict arrOf optEnt
  kCropBox kLastModified kRotate kTabs kUserUnit kID kAnnots kVersion kPageMode kPageLayout kLang kNeedsRendering
  kPageLabels kDests kEmbeddedFiles kOutlines kMetadata kOpenAction nCatalog nPage nTemplate pageModes pageLayouts
  tabOrders)

abbrev shippedCat : Chk := Gen.CatalogSpec.catalog
abbrev shippedCtx : Ctx := Gen.CatalogSpec.ctx

/-! ### navigation in a specification term -/

/-- a named check is replaced by its registration in the shipped context -/
def res (c : Chk) : Chk := (resolve shippedCtx c).getD c

def findEnt : ChkL → Bytes → Option (KeySpec × Chk)
  | .nil, _ => none
  | .cons k o c t, key => if k = key then some (o, c) else findEnt t key

def entsOf : Chk → ChkL
  | .dict _ es | .dictStar _ es _ _ | .stream _ es => es
  | _ => .nil

/-- the check of entry `key` of a dictionary type -/
def ent (c : Chk) (key : Bytes) : Chk :=
  match findEnt (entsOf (res c)) key with
  | some (_, x) => res x
  | none => .named "no such entry"

def optOf (c : Chk) (key : Bytes) : Option KeySpec := (findEnt (entsOf (res c)) key).map (·.1)

def keysWith (o : KeySpec) (c : Chk) : List Bytes :=
  ((entsOf (res c)).toList.filter fun e => e.2.1 == o).map (·.1)

def elemOf (c : Chk) : Chk :=
  match res c with
  | .array _ e _ => res e
  | _ => .named "not an array"

def altsOf (c : Chk) : List Chk :=
  match res c with
  | .disj _ os => os.chks.map res
  | _ => []

/-- predicates without the object-identity tags -/
def untag : Pred → Pred
  | .tagged _ p => untag p
  | p => p

def predOf (c : Chk) : Option Pred := (res c).attr.pred.map untag

/-- dictionary type described by (the names permitted for /Type, required keys, forbidden keys) -/
def dictSummary (c : Chk) : Option Pred × List Bytes × List Bytes :=
  (predOf (ent c kType), keysWith .required c, keysWith .forbidden c)

def names (l : List Bytes) : Pred := .choice (l.map Obj.name)

/-- `any` / primitive check with this indirection requirement and (untagged) predicate -/
def isAny (c : Chk) (ind : Ind) (p : Option Pred) : Bool :=
  match c with
  | .any a => decide (a.ind = ind) && decide (a.pred.map untag = p)
  | _ => false

def isPrim (c : Chk) (t : Prim) (ind : Ind) (p : Option Pred) : Bool :=
  match c with
  | .prim a t' => decide (t' = t) && decide (a.ind = ind) && decide (a.pred.map untag = p)
  | _ => false

/-- attributes and size bound of an array check -/
def arrayInfo : Chk → Option (Attr × Option Nat)
  | .array a _ sz => some (a, sz)
  | _ => none

def rootChk : Chk := ent shippedCat kPages
def rootKid : Chk := elemOf (ent rootChk kKids)
def nodeChk : Chk := (altsOf rootKid).getD 0 (.named "?")
def nodeKid : Chk := elemOf (ent nodeChk kKids)
/-- the page and template types, as they occur below the root and below an inner node -/
def pageChks : List Chk := [(altsOf rootKid).getD 1 (.named "?"), (altsOf nodeKid).getD 0 (.named "?")]
def tmplChks : List Chk := [(altsOf rootKid).getD 2 (.named "?"), (altsOf nodeKid).getD 2 (.named "?")]

/-! ### PART 1: structural theorems over the regenerated specification -/

theorem shipped_catalog_keys :
    dictSummary shippedCat = (some (names [nCatalog]), [kType, kPages], []) := by decide +kernel

theorem shipped_root_keys :
    dictSummary rootChk = (some (names [kPages]), [kType, kCount, kKids], [kParent]) ∧
    ent rootChk kCount = .prim Attr.dflt .integer ∧ (res (ent shippedCat kPages)).attr.ind = .allowed := by
  decide +kernel

/-- the statement's "kids given as indirect references to page-tree nodes, pages or templates", below the root
    and below an inner node: the element check of /Kids has `indirect required`, no size bound, and exactly the
    three alternatives, told apart by /Type, with their required and forbidden keys -/
theorem shipped_kid_requires_indirect :
    (res rootKid).attr = ⟨none, .required⟩ ∧ (res nodeKid).attr = ⟨none, .required⟩ ∧
    (∀ c ∈ [ent rootChk kKids, ent nodeChk kKids], arrayInfo c = some (Attr.dflt, none)) := by
  decide +kernel

theorem shipped_kid_alternatives :
    (altsOf rootKid).map dictSummary =
      [(some (names [kPages]), [kType, kCount, kKids, kParent], []),
       (some (names [nPage]), [kType, kParent], []),
       (some (names [nTemplate]), [kType], [kParent])] ∧
    (altsOf nodeKid).map dictSummary =
      [(some (names [nPage]), [kType, kParent], []),
       (some (names [kPages]), [kType, kCount, kKids, kParent], []),
       (some (names [nTemplate]), [kType], [kParent])] := by
  decide +kernel

/-- an inner node below an inner node is checked by the same type (the recursion goes through the name) -/
theorem shipped_node_recursive : (altsOf nodeKid).getD 1 (.named "?") = nodeChk := by decide +kernel

/-- /Parent, wherever it is required, is `any` + indirect required; where it is forbidden nothing else matters -/
theorem shipped_parent_requires_indirect :
    ∀ c ∈ nodeChk :: pageChks, ent c kParent = .any ⟨none, .required⟩ := by decide +kernel

theorem shipped_name_choices :
    predOf (ent shippedCat kPageMode) = some (names pageModes) ∧
    predOf (ent shippedCat kPageLayout) = some (names pageLayouts) ∧
    isPrim (ent shippedCat kPageMode) .name .allowed (some (names pageModes)) = true ∧
    isPrim (ent shippedCat kPageLayout) .name .allowed (some (names pageLayouts)) = true ∧
    (∀ c ∈ pageChks ++ tmplChks, isPrim (ent c kTabs) .name .allowed (some (names tabOrders)) = true) := by
  decide +kernel

def numberChk : Chk :=
  .disj Attr.dflt (.cons [] .required (.prim Attr.dflt .integer) (.cons [] .required (.prim Attr.dflt .real) .nil))

/-- "rectangles of four numbers" -/
theorem shipped_rectangles :
    ∀ c ∈ pageChks ++ tmplChks, ∀ k ∈ [kMediaBox, kCropBox],
      ent c k = .array Attr.dflt numberChk (some 4) := by decide +kernel

theorem shipped_page_scalars :
    ∀ c ∈ pageChks ++ tmplChks,
      isPrim (ent c kLastModified) .string .allowed (some .date) = true ∧
      ent c kRotate = .prim Attr.dflt .integer ∧ ent c kUserUnit = numberChk ∧
      ent c kID = .prim Attr.dflt .string ∧ ent c kAnnots = .array Attr.dflt (.any Attr.dflt) none := by
  decide +kernel

/-- DESIGN section 4 #24: the number-tree predicate inspects /Nums.  On a tree without fix C10-01 the extraction
    emits `.numTree kNames` (what the probe of the real predicate observes) and this theorem does not build. -/
theorem shipped_page_labels_reads_nums :
    isAny (ent shippedCat kPageLabels) .allowed (some (.numTree TC.kNums)) = true := by decide +kernel

theorem shipped_names_dictionary :
    ∀ k ∈ [kDests, kEmbeddedFiles],
      isAny (ent (ent shippedCat CatalogRules.kNames) k) .allowed (some .nameTree) = true := by decide +kernel

theorem shipped_catalog_scalars :
    ent shippedCat kVersion = .prim Attr.dflt .name ∧ ent shippedCat kLang = .prim Attr.dflt .string ∧
    ent shippedCat kNeedsRendering = .prim Attr.dflt .bool ∧
    ent shippedCat kOutlines = .dict ⟨none, .required⟩ .nil ∧ ent shippedCat kMetadata = .stream ⟨none, .required⟩ .nil ∧
    ent shippedCat kOpenAction =
      .disj Attr.dflt (.cons [] .required (.array Attr.dflt (.any Attr.dflt) none)
                      (.cons [] .required (.dict Attr.dflt .nil) .nil)) := by
  decide +kernel

def kindChk : CatalogRules.DictKind → List Chk
  | .catalog => [shippedCat]
  | .root => [rootChk]
  | .node => [nodeChk]
  | .page => pageChks
  | .tmpl => tmplChks

/-- every key of the rules' tables has an entry in the shipped type of that dictionary, required exactly when
    the rules require it (and the rules' forbidden keys are the shipped forbidden keys) -/
theorem shipped_covers_rule_tables :
    ∀ k ∈ [CatalogRules.DictKind.catalog, .root, .node, .page, .tmpl], ∀ c ∈ kindChk k,
      (∀ e ∈ CatalogRules.keyTable k,
          optOf c e.1 = some (if (CatalogRules.requiredKeys k).contains e.1 then .required else .optional)) ∧
      keysWith .required c = CatalogRules.requiredKeys k ∧ keysWith .forbidden c = CatalogRules.forbiddenKeys k := by
  decide +kernel

/-! ### PART 2: the rules' tree recogniser = the model of the shipped predicates, for every object -/

theorem altKeyRef_eq (isKey : Obj → Bool) : ∀ l : List Obj,
    CatalogRules.altKeyRef isKey l = altPairs isKey l
  | [] => by simp [CatalogRules.altKeyRef, altPairs]
  | [_] => by simp [CatalogRules.altKeyRef, altPairs]
  | a :: b :: t => by simp [CatalogRules.altKeyRef, altPairs, altKeyRef_eq isKey t]

theorem altPairs_even (isKey : Obj → Bool) : ∀ l : List Obj, altPairs isKey l = true → l.length % 2 = 0
  | [], _ => by simp
  | [_], h => by simp [altPairs] at h
  | a :: b :: t, h => by
    simp only [altPairs, Bool.and_eq_true] at h
    have := altPairs_even isKey t h.2
    simp only [List.length_cons]; omega

theorem leaf_guard (isKey : Obj → Bool) (l : List Obj) :
    (if l.length % 2 = 0 then altPairs isKey l else false) = altPairs isKey l := by
  by_cases h : l.length % 2 = 0
  · simp [h]
  · simp only [h, if_false]
    cases hp : altPairs isKey l with
    | false => rfl
    | true => exact absurd (altPairs_even isKey l hp) h

/-- For EVERY object: the rules accept it as a name-tree / number-tree node exactly when the model of
    `NameTreePredicate` / `NumberTreePredicate` (reading its leaf array from the key the combination test
    names) does. -/
theorem tree_rule_eq_model (leafKey : Bytes) (isKey : Obj → Bool) (o : Obj) :
    CatalogRules.isTreeNode leafKey isKey o = treePredOK leafKey leafKey isKey o := by
  cases o with
  | dict kvs =>
    simp only [CatalogRules.isTreeNode, treePredOK, CatalogRules.kKids, CatalogRules.kLimits, kKids, kLimits]
    generalize kvs.get leafKey = a
    generalize kvs.get [0x4B, 0x69, 0x64, 0x73] = b
    generalize kvs.get [0x4C, 0x69, 0x6D, 0x69, 0x74, 0x73] = c
    congr 1
    · congr 1
      · congr 1
        · cases a with
          | none => rfl
          | some v => cases v <;> simp [altKeyRef_eq] <;> exact altPairs_even isKey _
        · cases c with
          | none => rfl
          | some v => cases v <;> rfl
      · cases b with
        | none => rfl
        | some v => cases v <;> rfl
    · cases a <;> cases b <;> cases c <;> rfl
  | _ => simp [CatalogRules.isTreeNode, treePredOK]

/-- the rules' /PageLabels and /Names//Dests value types are decided by the shipped predicates -/
theorem number_tree_rule_eq_shipped (o : Obj) :
    CatalogRules.fitsKind .numTree o = (Pred.numTree TC.kNums).eval o := by
  simp only [CatalogRules.fitsKind, Pred.eval]
  exact tree_rule_eq_model CatalogRules.kNums Obj.isInt o

theorem name_tree_rule_eq_shipped (o : Obj) :
    CatalogRules.isTreeNode CatalogRules.kNamesKey Obj.isStr o = Pred.nameTree.eval o := by
  simp only [Pred.eval]
  exact tree_rule_eq_model CatalogRules.kNamesKey Obj.isStr o

example : CatalogRules.fitsKind .numTree
    (.dict (.cons CatalogRules.kNums (.arr (.cons [] (.int 0) (.cons [] (.ref 9 0) .nil))) .nil)) = true := by decide
example : CatalogRules.fitsKind .numTree (.dict (.cons CatalogRules.kNums (.int 42) .nil)) = false := by decide

/-! ### PART 3: all documents -/

/-- Coinduction principle for the declarative conformance relation: a set of (object, check) pairs that is
    closed under one unfolding (each of its pairs passes `confStep` for every `f` that is true on the set)
    consists of conforming pairs.  Holds for every graph and context. -/
theorem conforms_of_invariant (g : Graph) (ctx : Ctx) (S : Obj → Chk → Prop)
    (closed : ∀ o c, S o c → ∀ f : Obj → Chk → Bool, (∀ o' c', S o' c' → f o' c' = true) →
      confStep g ctx f o c = true) :
    ∀ o c, S o c → Conforms g ctx o c := by
  intro o c h n
  induction n generalizing o c with
  | zero => rfl
  | succ n ih => exact closed o c h (conf g ctx n) (fun o' c' h' => ih o' c' h')

/-- root 1 -> node 2 -> node 3 -> page 4, template 5; page 6 below 2; page 7 below 1 -/
def wDoc3 : Doc :=
  ⟨CatOpts.none, 1, 4, Nodes.ofList
    [.pages 2 3 (Nodes.ofList [.pages 3 2 (Nodes.ofList [.page 4 PageOpts.none, .tmpl 5 PageOpts.none]),
      .page 6 PageOpts.none]), .page 7 PageOpts.none]⟩

/-! generic unfolding lemmas -/

theorem value_nonref (g : Graph) (o : Obj) (h : o.isRef = false) : value g o = o := by
  cases o <;> simp_all [value, deref, Obj.isRef]

theorem value_ref (g : Graph) (a b : Nat) (v : Obj) (hl : g.lookup (a, b) = some v) (hv : v.isRef = false) :
    value g (.ref a b) = v := by
  have hg : g.length = (g.length - 1) + 1 := by
    cases g with
    | nil => simp [Graph.lookup] at hl
    | cons x t => simp
  unfold value
  rw [hg]
  simp only [deref, hl]
  cases v <;> simp_all [deref, Obj.isRef]

theorem confStep_eq (g : Graph) (ctx : Ctx) (f : Obj → Chk → Bool) (o : Obj) (c r : Chk)
    (hres : resolve ctx c = some r) :
    confStep g ctx f o c = (indOK o r.attr.ind && predOK r.attr.pred (value g o) && shapeOK f o (value g o) r) := by
  simp [confStep, hres]

theorem ObjL.get_isSome_keys : ∀ (kvs : ObjL) (k : Bytes), (kvs.get k).isSome = kvs.keys.contains k
  | .nil, k => by simp [ObjL.get, ObjL.keys, ObjL.toList]
  | .cons k' v t, k => by
    have ih := ObjL.get_isSome_keys t k
    simp only [ObjL.keys, ObjL.toList, List.map_cons, List.contains_cons] at ih ⊢
    simp only [ObjL.get]
    by_cases h : k' = k
    · simp [h]
    · have h' : (k == k') = false := by simpa using fun e => h e.symm
      simp only [h, if_false, h', Bool.false_or]
      exact ih

/-- a dictionary type holds of a dictionary when the required keys are present (a statement about keys only)
    and every present value passes the entry found for its key -/
theorem entsOK_of (f : Obj → Chk → Bool) (kvs : ObjL) (ents : ChkL)
    (hreq : (ents.toList.all fun e => e.2.1 != .required || kvs.keys.contains e.1) = true)
    (hval : ∀ e ∈ ents.toList, ∀ v, kvs.get e.1 = some v → e.2.1 ≠ .forbidden ∧ f v e.2.2 = true) :
    ents.toList.all (entOK f kvs) = true := by
  rw [List.all_eq_true] at hreq ⊢
  intro e he
  have h1 := hreq e he
  have h2 := hval e he
  unfold entOK
  cases hg : kvs.get e.1 with
  | none =>
    have : kvs.keys.contains e.1 = false := by rw [← ObjL.get_isSome_keys, hg]; rfl
    cases ho : e.2.1 <;> simp_all
  | some v =>
    have := h2 v hg
    cases ho : e.2.1 <;> simp_all


theorem findEnt_of_mem : ∀ (ents : ChkL) (e : Bytes × KeySpec × Chk), e ∈ ents.toList →
    (ents.toList.map (·.1)).Nodup → findEnt ents e.1 = some (e.2.1, e.2.2)
  | .nil, e, h, _ => by simp [ChkL.toList] at h
  | .cons k o c t, e, h, hnd => by
    simp only [ChkL.toList, List.mem_cons] at h
    simp only [ChkL.toList, List.map_cons, List.nodup_cons] at hnd
    unfold findEnt
    rcases h with h | h
    · subst h; simp
    · have hne : k ≠ e.1 := by
        intro hk; apply hnd.1; rw [hk]; exact List.mem_map_of_mem h
      simp only [hne, if_false]
      exact findEnt_of_mem t e h hnd.2

def keysNodup (ents : ChkL) : Bool :=
  let ks := ents.toList.map (·.1)
  (List.range ks.length).all fun i => (List.range i).all fun j => ks[i]? != ks[j]?

theorem conf_dict (g : Graph) (ctx : Ctx) (f : Obj → Chk → Bool) (o c : Obj) (chk : Chk) (a : Attr) (ents : ChkL)
    (kvs : ObjL)
    (hres : resolve ctx chk = some (.dict a ents)) (hv : value g o = .dict kvs)
    (hi : indOK o a.ind = true) (hp : a.pred = none)
    (hnd : (ents.toList.map (·.1)).Nodup)
    (hreq : (ents.toList.all fun e => e.2.1 != .required || kvs.keys.contains e.1) = true)
    (hval : ∀ k v, kvs.get k = some v →
      ∀ o' c', findEnt ents k = some (o', c') → o' ≠ .forbidden ∧ f v c' = true) :
    confStep g ctx f o chk = true := by
  rw [confStep_eq g ctx f o chk _ hres]
  simp only [Chk.attr, hi, hp, predOK, hv, shapeOK, Bool.true_and]
  apply entsOK_of f kvs ents hreq
  intro e he v hg
  exact hval e.1 v hg e.2.1 e.2.2 (findEnt_of_mem ents e he hnd)

theorem conf_array (g : Graph) (ctx : Ctx) (f : Obj → Chk → Bool) (o : Obj) (chk : Chk) (a : Attr) (e : Chk)
    (xs : ObjL)
    (hres : resolve ctx chk = some (.array a e none)) (hv : value g o = .arr xs)
    (hi : indOK o a.ind = true) (hp : a.pred = none)
    (hall : ∀ x ∈ xs.vals, f x e = true) :
    confStep g ctx f o chk = true := by
  rw [confStep_eq g ctx f o chk _ hres]
  simp only [Chk.attr, hi, hp, predOK, hv, shapeOK, Bool.true_and, List.all_eq_true]
  exact hall

theorem conf_disj (g : Graph) (ctx : Ctx) (f : Obj → Chk → Bool) (o : Obj) (chk : Chk) (a : Attr) (os : ChkL)
    (alt : Chk)
    (hres : resolve ctx chk = some (.disj a os))
    (hi : indOK o a.ind = true) (hp : a.pred = none)
    (hm : alt ∈ os.chks) (hf : f o alt = true) :
    confStep g ctx f o chk = true := by
  rw [confStep_eq g ctx f o chk _ hres]
  simp only [Chk.attr, hi, hp, predOK, shapeOK, Bool.true_and, List.any_eq_true]
  exact ⟨alt, hm, hf⟩

theorem conf_prim (g : Graph) (ctx : Ctx) (f : Obj → Chk → Bool) (o : Obj) (chk : Chk) (a : Attr) (p : Prim)
    (hres : resolve ctx chk = some (.prim a p)) (hnr : o.isRef = false)
    (h : (indOK o a.ind && predOK a.pred o && primOK o p) = true) :
    confStep g ctx f o chk = true := by
  rw [confStep_eq g ctx f o chk _ hres, value_nonref g o hnr]
  simpa [Chk.attr, shapeOK] using h

theorem conf_any_ref (g : Graph) (ctx : Ctx) (f : Obj → Chk → Bool) (a b : Nat) (chk : Chk) (ind : Ind)
    (hres : resolve ctx chk = some (.any ⟨none, ind⟩)) (hi : ind ≠ .forbidden) :
    confStep g ctx f (.ref a b) chk = true := by
  rw [confStep_eq g ctx f _ chk _ hres]
  cases ind <;> simp_all [Chk.attr, indOK, predOK, shapeOK, Obj.isRef]


/-! ### the invariant for rendered documents -/

def rawEnt (c : Chk) (key : Bytes) : Chk :=
  match findEnt (entsOf c) key with
  | some (_, x) => x
  | none => .named "?"
def rawElem : Chk → Chk
  | .array _ e _ => e
  | _ => .named "?"
def rawAlts : Chk → List Chk
  | .disj _ os => os.chks
  | _ => []

def rootR : Chk := rawEnt shippedCat kPages
def kidsRR : Chk := rawEnt rootR kKids
def kidRR : Chk := rawElem kidsRR
def nodeR : Chk := (rawAlts kidRR).getD 0 (.named "?")
def kidsNR : Chk := rawEnt nodeR kKids
def kidNR : Chk := rawElem kidsNR
def kidC (top : Bool) : Chk := if top then kidRR else kidNR
def pageC (top : Bool) : Chk := if top then (rawAlts kidRR).getD 1 (.named "?") else (rawAlts kidNR).getD 0 (.named "?")
def tmplC (top : Bool) : Chk := if top then (rawAlts kidRR).getD 2 (.named "?") else (rawAlts kidNR).getD 2 (.named "?")
def nodeAlt (top : Bool) : Chk := if top then nodeR else (rawAlts kidNR).getD 1 (.named "?")
def altFor (top : Bool) : Node → Chk
  | .page _ _ => pageC top
  | .tmpl _ _ => tmplC top
  | .pages _ _ _ => nodeAlt top

/-- `Sub d top p n`: node `n` occurs in the page tree of `d` as a kid of the object numbered `p`
    (`top`: `p` is the root) -/
inductive Sub (d : Doc) : Bool → Nat → Node → Prop
  | top (n : Node) : n ∈ d.kids.toList → Sub d true d.rootId n
  | deep (b : Bool) (p i : Nat) (c : Int) (kids : Nodes) (n : Node) :
      Sub d b p (.pages i c kids) → n ∈ kids.toList → Sub d false i n

def plainNode : Node → Prop
  | .page _ o => o = PageOpts.none
  | .tmpl _ o => o = PageOpts.none
  | .pages _ _ _ => True

inductive S (d : Doc) : Obj → Chk → Prop
  | cat : S d (catalogDict d) shippedCat
  | catType : S d (.name nCatalog) (rawEnt shippedCat kType)
  | catPages : S d (.ref d.rootId 0) rootR
  | rootType : S d (.name kPages) (rawEnt rootR kType)
  | rootCount : S d (.int d.count) (rawEnt rootR kCount)
  | rootKids : S d (.arr (arrOf d.kids.refs)) kidsRR
  | kid (b : Bool) (p : Nat) (n : Node) : Sub d b p n → S d (.ref n.id 0) (kidC b)
  | alt (b : Bool) (p : Nat) (n : Node) : Sub d b p n → S d (.ref n.id 0) (altFor b n)
  | pageType (b : Bool) : S d (.name nPage) (rawEnt (pageC b) kType)
  | pageParent (b : Bool) (p : Nat) : S d (.ref p 0) (rawEnt (pageC b) kParent)
  | tmplType (b : Bool) : S d (.name nTemplate) (rawEnt (tmplC b) kType)
  | nodeType : S d (.name kPages) (rawEnt nodeR kType)
  | nodeCount (c : Int) : S d (.int c) (rawEnt nodeR kCount)
  | nodeParent (p : Nat) : S d (.ref p 0) (rawEnt nodeR kParent)
  | nodeKids (b : Bool) (p i : Nat) (c : Int) (kids : Nodes) :
      Sub d b p (.pages i c kids) → S d (.arr (arrOf kids.refs)) kidsNR

theorem refs_vals : ∀ (ns : Nodes) (x : Obj), x ∈ (arrOf ns.refs).vals → ∃ n ∈ ns.toList, x = .ref n.id 0
  | .nil, x, h => by simp [Nodes.refs, arrOf, ObjL.vals, ObjL.toList] at h
  | .cons n t, x, h => by
    simp only [Nodes.refs, arrOf, ObjL.vals, ObjL.toList, List.map_cons, List.mem_cons] at h
    rcases h with h | h
    · exact ⟨n, by simp [Nodes.toList], h⟩
    · have := refs_vals t x (by simpa [ObjL.vals] using h)
      rcases this with ⟨m, hm, hx⟩
      exact ⟨m, by simp [Nodes.toList, hm], hx⟩


def dictOfList : List (Bytes × Obj) → ObjL
  | [] => .nil
  | (k, v) :: t => .cons k v (dictOfList t)

theorem get_mem : ∀ (l : List (Bytes × Obj)) (k : Bytes) (v : Obj), (dictOfList l).get k = some v → (k, v) ∈ l
  | [], k, v, h => by simp [dictOfList, ObjL.get] at h
  | (k', v') :: t, k, v, h => by
    simp only [dictOfList, ObjL.get] at h
    split at h
    · next hk => simp only [Option.some.injEq] at h; subst hk; subst h; simp
    · exact List.mem_cons_of_mem _ (get_mem t k v h)

theorem hval_list (f : Obj → Chk → Bool) (ents : ChkL) (l : List (Bytes × Obj))
    (h : ∀ kv ∈ l, ∃ o' c', findEnt ents kv.1 = some (o', c') ∧ o' ≠ .forbidden ∧ f kv.2 c' = true) :
    ∀ k v, (dictOfList l).get k = some v →
      ∀ o' c', findEnt ents k = some (o', c') → o' ≠ .forbidden ∧ f v c' = true := by
  intro k v hg o' c' hf
  rcases h (k, v) (get_mem l k v hg) with ⟨o'', c'', h1, h2, h3⟩
  simp only at h1
  rw [h1] at hf
  simp only [Option.some.injEq, Prod.mk.injEq] at hf
  rcases hf with ⟨rfl, rfl⟩
  exact ⟨h2, h3⟩

def rawAltsL : Chk → ChkL
  | .disj _ os => os
  | _ => .nil

/-- closed facts about the regenerated term (kernel evaluation) -/
theorem F_dicts :
    resolve shippedCtx shippedCat = some (.dict Attr.dflt (entsOf shippedCat)) ∧
    resolve shippedCtx rootR = some (.dict Attr.dflt (entsOf rootR)) ∧
    (∀ b, resolve shippedCtx (nodeAlt b) = some (.dict Attr.dflt (entsOf nodeR))) ∧
    (∀ b, resolve shippedCtx (pageC b) = some (.dict Attr.dflt (entsOf (pageC b)))) ∧
    (∀ b, resolve shippedCtx (tmplC b) = some (.dict Attr.dflt (entsOf (tmplC b)))) := by decide +kernel

theorem F_nodup :
    ((entsOf shippedCat).toList.map (·.1)).Nodup ∧ ((entsOf rootR).toList.map (·.1)).Nodup ∧
    ((entsOf nodeR).toList.map (·.1)).Nodup ∧ (∀ b, ((entsOf (pageC b)).toList.map (·.1)).Nodup) ∧
    (∀ b, ((entsOf (tmplC b)).toList.map (·.1)).Nodup) := by decide +kernel

theorem F_arrays :
    resolve shippedCtx kidsRR = some (.array Attr.dflt kidRR none) ∧
    resolve shippedCtx kidsNR = some (.array Attr.dflt kidNR none) ∧
    (∀ b, resolve shippedCtx (kidC b) = some (.disj ⟨none, .required⟩ (rawAltsL (kidC b)))) ∧
    (∀ b, pageC b ∈ (rawAltsL (kidC b)).chks ∧ tmplC b ∈ (rawAltsL (kidC b)).chks ∧
          nodeAlt b ∈ (rawAltsL (kidC b)).chks) := by decide +kernel

def leafConf (o : Obj) (chk : Chk) : Bool :=
  match resolve shippedCtx chk with
  | some (.prim a p) => indOK o a.ind && predOK a.pred o && primOK o p
  | _ => false

theorem conf_leaf (g : Graph) (f : Obj → Chk → Bool) (o : Obj) (chk : Chk) (h : leafConf o chk = true)
    (hnr : o.isRef = false) : confStep g shippedCtx f o chk = true := by
  unfold leafConf at h
  split at h
  · next a p hres => exact conf_prim g shippedCtx f o chk a p hres hnr h
  · simp at h

def intChk (chk : Chk) : Bool :=
  match resolve shippedCtx chk with
  | some (.prim ⟨none, .allowed⟩ .integer) => true
  | _ => false

theorem conf_int (g : Graph) (f : Obj → Chk → Bool) (i : Int) (chk : Chk) (h : intChk chk = true) :
    confStep g shippedCtx f (.int i) chk = true := by
  unfold intChk at h
  split at h
  · next hres => exact conf_prim g shippedCtx f (.int i) chk _ _ hres rfl rfl
  · simp at h

theorem F_leaves :
    leafConf (.name nCatalog) (rawEnt shippedCat kType) = true ∧
    leafConf (.name kPages) (rawEnt rootR kType) = true ∧ leafConf (.name kPages) (rawEnt nodeR kType) = true ∧
    (∀ b, leafConf (.name nPage) (rawEnt (pageC b) kType) = true) ∧
    (∀ b, leafConf (.name nTemplate) (rawEnt (tmplC b) kType) = true) ∧
    intChk (rawEnt rootR kCount) = true ∧ intChk (rawEnt nodeR kCount) = true ∧
    (∀ b, resolve shippedCtx (rawEnt (pageC b) kParent) = some (.any ⟨none, .required⟩)) ∧
    resolve shippedCtx (rawEnt nodeR kParent) = some (.any ⟨none, .required⟩) := by decide +kernel


theorem F_find :
    findEnt (entsOf shippedCat) kPages = some (.required, rootR) ∧
    findEnt (entsOf shippedCat) kType = some (.required, rawEnt shippedCat kType) ∧
    findEnt (entsOf rootR) kType = some (.required, rawEnt rootR kType) ∧
    findEnt (entsOf rootR) kCount = some (.required, rawEnt rootR kCount) ∧
    findEnt (entsOf rootR) kKids = some (.required, kidsRR) ∧
    findEnt (entsOf nodeR) kType = some (.required, rawEnt nodeR kType) ∧
    findEnt (entsOf nodeR) kCount = some (.required, rawEnt nodeR kCount) ∧
    findEnt (entsOf nodeR) kKids = some (.required, kidsNR) ∧
    findEnt (entsOf nodeR) kParent = some (.required, rawEnt nodeR kParent) ∧
    (∀ b, findEnt (entsOf (pageC b)) kType = some (.required, rawEnt (pageC b) kType) ∧
          findEnt (entsOf (pageC b)) kParent = some (.required, rawEnt (pageC b) kParent) ∧
          findEnt (entsOf (tmplC b)) kType = some (.required, rawEnt (tmplC b) kType)) := by decide +kernel

theorem F_req :
    ((entsOf shippedCat).toList.all fun e => e.2.1 != .required || [kPages, kType].contains e.1) = true ∧
    ((entsOf rootR).toList.all fun e => e.2.1 != .required || [kCount, kKids, kType].contains e.1) = true ∧
    ((entsOf nodeR).toList.all fun e => e.2.1 != .required || [kCount, kKids, kParent, kType].contains e.1) = true ∧
    (∀ b, ((entsOf (pageC b)).toList.all fun e => e.2.1 != .required || [kParent, kType].contains e.1) = true) ∧
    (∀ b, ((entsOf (tmplC b)).toList.all fun e => e.2.1 != .required || [kType].contains e.1) = true) := by
  decide +kernel

theorem isRef_dict (l : ObjL) : (Obj.dict l).isRef = false := rfl

/-- the invariant is closed under one unfolding, for every graph in which the object numbers of the
    document denote the rendered dictionaries -/
theorem S_closed (g : Graph) (d : Doc) (hcat : d.cat = CatOpts.none)
    (hplain : ∀ b p n, Sub d b p n → plainNode n)
    (hroot : g.lookup (d.rootId, 0) = some (nodeDict d.count d.kids none))
    (hlook : ∀ b p n, Sub d b p n → g.lookup (n.id, 0) = some (n.dict p)) :
    ∀ o c, S d o c → ∀ f : Obj → Chk → Bool, (∀ o' c', S d o' c' → f o' c' = true) →
      confStep g shippedCtx f o c = true := by
  intro o c hS f hf
  cases hS with
  | cat =>
    have hd : catalogDict d = .dict (dictOfList [(kPages, .ref d.rootId 0), (kType, .name nCatalog)]) := by
      simp [catalogDict, CatalogRules.catRows, CatalogRules.rowsObjL, hcat, CatOpts.none, CatalogRules.CatExtra.none,
        optEnt, CatalogRules.namesDict, CatalogRules.namesRows, dictOfList]
    rw [hd]
    refine conf_dict g shippedCtx f _ .null shippedCat _ _ _ F_dicts.1 (value_nonref g _ rfl) rfl rfl
      F_nodup.1 F_req.1 (hval_list f _ _ ?_)
    intro kv hkv
    simp only [List.mem_cons, List.not_mem_nil, or_false] at hkv
    rcases hkv with rfl | rfl
    · exact ⟨_, _, F_find.1, by decide, hf _ _ S.catPages⟩
    · exact ⟨_, _, F_find.2.1, by decide, hf _ _ S.catType⟩
  | catType => exact conf_leaf g f _ _ F_leaves.1 rfl
  | catPages =>
    have hv : value g (.ref d.rootId 0) = nodeDict d.count d.kids none := value_ref g _ _ _ hroot rfl
    have hd : nodeDict d.count d.kids none =
        .dict (dictOfList [(kCount, .int d.count), (kKids, .arr (arrOf d.kids.refs)), (kType, .name kPages)]) := rfl
    refine conf_dict g shippedCtx f _ .null rootR _ _ _ F_dicts.2.1 (hv.trans hd) rfl rfl
      F_nodup.2.1 F_req.2.1 (hval_list f _ _ ?_)
    intro kv hkv
    simp only [List.mem_cons, List.not_mem_nil, or_false] at hkv
    rcases hkv with rfl | rfl | rfl
    · exact ⟨_, _, F_find.2.2.2.1, by decide, hf _ _ S.rootCount⟩
    · exact ⟨_, _, F_find.2.2.2.2.1, by decide, hf _ _ S.rootKids⟩
    · exact ⟨_, _, F_find.2.2.1, by decide, hf _ _ S.rootType⟩
  | rootType => exact conf_leaf g f _ _ F_leaves.2.1 rfl
  | rootCount => exact conf_int g f _ _ F_leaves.2.2.2.2.2.1
  | rootKids =>
    refine conf_array g shippedCtx f _ kidsRR _ _ _ F_arrays.1 (value_nonref g _ rfl) rfl rfl ?_
    intro x hx
    rcases refs_vals d.kids x hx with ⟨n, hn, rfl⟩
    exact hf _ _ (S.kid true d.rootId n (Sub.top n hn))
  | kid b p n hsub =>
    have hF := F_arrays.2.2.2 b
    refine conf_disj g shippedCtx f _ (kidC b) _ _ (altFor b n) (F_arrays.2.2.1 b) rfl rfl ?_
      (hf _ _ (S.alt b p n hsub))
    cases n with
    | page i o => exact hF.1
    | tmpl i o => exact hF.2.1
    | pages i c k => exact hF.2.2
  | alt b p n hsub =>
    have hl := hlook b p n hsub
    have hpl := hplain b p n hsub
    cases n with
    | page i o =>
      simp only [plainNode] at hpl
      subst hpl
      have hd : (Node.page i PageOpts.none).dict p =
          .dict (dictOfList [(kParent, .ref p 0), (kType, .name nPage)]) := rfl
      have hv : value g (.ref i 0) = _ := value_ref g _ _ _ hl rfl
      refine conf_dict g shippedCtx f _ .null (pageC b) _ _ _ (F_dicts.2.2.2.1 b) (hv.trans hd) rfl rfl
        (F_nodup.2.2.2.1 b) (F_req.2.2.2.1 b) (hval_list f _ _ ?_)
      intro kv hkv
      simp only [List.mem_cons, List.not_mem_nil, or_false] at hkv
      rcases hkv with rfl | rfl
      · exact ⟨_, _, (F_find.2.2.2.2.2.2.2.2.2 b).2.1, by decide, hf _ _ (S.pageParent b p)⟩
      · exact ⟨_, _, (F_find.2.2.2.2.2.2.2.2.2 b).1, by decide, hf _ _ (S.pageType b)⟩
    | tmpl i o =>
      simp only [plainNode] at hpl
      subst hpl
      have hd : (Node.tmpl i PageOpts.none).dict p = .dict (dictOfList [(kType, .name nTemplate)]) := rfl
      have hv : value g (.ref i 0) = _ := value_ref g _ _ _ hl rfl
      refine conf_dict g shippedCtx f _ .null (tmplC b) _ _ _ (F_dicts.2.2.2.2 b) (hv.trans hd) rfl rfl
        (F_nodup.2.2.2.2 b) (F_req.2.2.2.2 b) (hval_list f _ _ ?_)
      intro kv hkv
      simp only [List.mem_cons, List.not_mem_nil, or_false] at hkv
      subst hkv
      exact ⟨_, _, (F_find.2.2.2.2.2.2.2.2.2 b).2.2, by decide, hf _ _ (S.tmplType b)⟩
    | pages i c k =>
      have hd : (Node.pages i c k).dict p =
          .dict (dictOfList [(kCount, .int c), (kKids, .arr (arrOf k.refs)), (kParent, .ref p 0),
                             (kType, .name kPages)]) := rfl
      have hv : value g (.ref i 0) = _ := value_ref g _ _ _ hl rfl
      refine conf_dict g shippedCtx f _ .null (nodeAlt b) _ _ _ (F_dicts.2.2.1 b) (hv.trans hd) rfl rfl
        F_nodup.2.2.1 F_req.2.2.1 (hval_list f _ _ ?_)
      intro kv hkv
      simp only [List.mem_cons, List.not_mem_nil, or_false] at hkv
      rcases hkv with rfl | rfl | rfl | rfl
      · exact ⟨_, _, F_find.2.2.2.2.2.2.1, by decide, hf _ _ (S.nodeCount c)⟩
      · exact ⟨_, _, F_find.2.2.2.2.2.2.2.1, by decide, hf _ _ (S.nodeKids b p i c k hsub)⟩
      · exact ⟨_, _, F_find.2.2.2.2.2.2.2.2.1, by decide, hf _ _ (S.nodeParent p)⟩
      · exact ⟨_, _, F_find.2.2.2.2.2.1, by decide, hf _ _ S.nodeType⟩
  | pageType b => exact conf_leaf g f _ _ (F_leaves.2.2.2.1 b) rfl
  | pageParent b p => exact conf_any_ref g shippedCtx f _ _ _ _ (F_leaves.2.2.2.2.2.2.2.1 b) (by decide)
  | tmplType b => exact conf_leaf g f _ _ (F_leaves.2.2.2.2.1 b) rfl
  | nodeType => exact conf_leaf g f _ _ F_leaves.2.2.1 rfl
  | nodeCount c => exact conf_int g f _ _ F_leaves.2.2.2.2.2.2.1
  | nodeParent p => exact conf_any_ref g shippedCtx f _ _ _ _ F_leaves.2.2.2.2.2.2.2.2 (by decide)
  | nodeKids b p i c kids hsub =>
    refine conf_array g shippedCtx f _ kidsNR _ _ _ F_arrays.2.1 (value_nonref g _ rfl) rfl rfl ?_
    intro x hx
    rcases refs_vals kids x hx with ⟨n, hn, rfl⟩
    exact hf _ _ (S.kid false i n (Sub.deep b p i c kids n hsub hn))


/-! ### the rendered graph satisfies the lookup hypotheses -/

theorem lookup_append : ∀ (a b : Graph) (k : Nat × Nat),
    Graph.lookup (a ++ b) k = match Graph.lookup a k with | some v => some v | none => Graph.lookup b k
  | [], b, k => by simp [Graph.lookup]
  | (k', v) :: t, b, k => by
    simp only [List.cons_append, Graph.lookup]
    by_cases h : k' = k
    · simp [h]
    · simp only [h, if_false]; exact lookup_append t b k

mutual
theorem defs_notin : ∀ (n : Node) (p id : Nat), id ∉ n.ids → Graph.lookup (n.defs p) (id, 0) = none
  | .page i o, p, id, h => by
    have : i ≠ id := by intro e; apply h; simp [Node.ids, e]
    simp [Node.defs, Graph.lookup, this]
  | .tmpl i o, p, id, h => by
    have : i ≠ id := by intro e; apply h; simp [Node.ids, e]
    simp [Node.defs, Graph.lookup, this]
  | .pages i c kids, p, id, h => by
    have h1 : i ≠ id := by intro e; apply h; simp [Node.ids, e]
    have h2 : id ∉ kids.ids := by intro e; apply h; simp [Node.ids, e]
    simp only [Node.defs, Graph.lookup, Prod.mk.injEq, h1, false_and, if_false]
    exact defss_notin kids i id h2
theorem defss_notin : ∀ (ns : Nodes) (p id : Nat), id ∉ ns.ids → Graph.lookup (ns.defs p) (id, 0) = none
  | .nil, p, id, _ => by simp [Nodes.defs, Graph.lookup]
  | .cons n t, p, id, h => by
    have h1 : id ∉ n.ids := by intro e; apply h; simp [Nodes.ids, e]
    have h2 : id ∉ t.ids := by intro e; apply h; simp [Nodes.ids, e]
    simp only [Nodes.defs, lookup_append, defs_notin n p id h1]
    exact defss_notin t p id h2
end

theorem defs_self (n : Node) (p : Nat) : Graph.lookup (n.defs p) (n.id, 0) = some (n.dict p) := by
  cases n <;> simp [Node.defs, Graph.lookup, Node.id, Node.dict]

theorem id_mem_ids (n : Node) : n.id ∈ n.ids := by
  cases n <;> simp [Node.id, Node.ids]

theorem ids_sub : ∀ (ns : Nodes) (k : Node), k ∈ ns.toList → ∀ id ∈ k.ids, id ∈ ns.ids
  | .nil, k, h, _, _ => by simp [Nodes.toList] at h
  | .cons n t, k, h, id, hid => by
    simp only [Nodes.toList, List.mem_cons] at h
    simp only [Nodes.ids, List.mem_append]
    rcases h with rfl | h
    · exact Or.inl hid
    · exact Or.inr (ids_sub t k h id hid)

/-- below a node, the definitions of a kid are found as if the kid's subtree stood alone -/
theorem kids_agree : ∀ (ns : Nodes) (p : Nat) (k : Node), ns.ids.Nodup → k ∈ ns.toList →
    (∀ id ∈ k.ids, Graph.lookup (ns.defs p) (id, 0) = Graph.lookup (k.defs p) (id, 0)) ∧ k.ids.Nodup
  | .nil, p, k, _, h => by simp [Nodes.toList] at h
  | .cons n t, p, k, hnd, h => by
    simp only [Nodes.ids, List.nodup_append] at hnd
    simp only [Nodes.toList, List.mem_cons] at h
    rcases h with rfl | h
    · refine ⟨?_, hnd.1⟩
      intro id hid
      simp only [Nodes.defs, lookup_append]
      cases hl : Graph.lookup (k.defs p) (id, 0) with
      | some v => rfl
      | none =>
        have : id ∉ t.ids := fun e => hnd.2.2 id hid id e rfl
        exact defss_notin t p id this
    · have ih := kids_agree t p k hnd.2.1 h
      refine ⟨?_, ih.2⟩
      intro id hid
      have hin : id ∈ t.ids := ids_sub t k h id hid
      have : id ∉ n.ids := fun e => hnd.2.2 id e id hin rfl
      simp only [Nodes.defs, lookup_append, defs_notin n p id this]
      exact ih.1 id hid

theorem sub_agree (d : Doc) (hcat : d.cat = CatOpts.none) (hnd : (d.rootId :: d.kids.ids).Nodup) :
    ∀ b p n, Sub d b p n →
      (∀ id ∈ n.ids, Graph.lookup d.graph (id, 0) = Graph.lookup (n.defs p) (id, 0)) ∧ n.ids.Nodup ∧
      (∀ id ∈ n.ids, id ∈ d.kids.ids) := by
  have hg : d.graph = ((d.rootId, 0), nodeDict d.count d.kids none) :: d.kids.defs d.rootId := by
    simp [Doc.graph, hcat, CatOpts.none, CatalogRules.CatExtra.none, CatalogRules.optDef]
  simp only [List.nodup_cons] at hnd
  intro b p n h
  induction h with
  | top n hn =>
    have ka := kids_agree d.kids d.rootId n hnd.2 hn
    refine ⟨?_, ka.2, ids_sub d.kids n hn⟩
    intro id hid
    have hin := ids_sub d.kids n hn id hid
    have hne : d.rootId ≠ id := fun e => hnd.1 (e ▸ hin)
    rw [hg]
    simp only [Graph.lookup, Prod.mk.injEq, hne, false_and, if_false]
    exact ka.1 id hid
  | deep b p i c kids n _ hn ih =>
    simp only [Node.ids, List.nodup_cons] at ih
    have ka := kids_agree kids i n ih.2.1.2 hn
    refine ⟨?_, ka.2, fun id hid => ih.2.2 id (by simp [Node.ids, ids_sub kids n hn id hid])⟩
    intro id hid
    have hin := ids_sub kids n hn id hid
    have hne : i ≠ id := fun e => ih.2.1.1 (e ▸ hin)
    rw [ih.1 id (by simp [Node.ids, hin])]
    simp only [Node.defs, Graph.lookup, Prod.mk.injEq, hne, false_and, if_false]
    exact ka.1 id hid

theorem nodup_of_nodupB : ∀ l : List Nat, CatalogRules.nodupB l = true → l.Nodup
  | [], _ => List.nodup_nil
  | x :: t, h => by
    simp only [CatalogRules.nodupB, Bool.and_eq_true, Bool.not_eq_true', List.contains_eq_mem,
      decide_eq_false_iff_not] at h
    exact List.nodup_cons.mpr ⟨h.1, nodup_of_nodupB t h.2⟩

def PageExtra.isNone (x : CatalogRules.PageExtra) : Bool :=
  x.aa.isNone && x.af.isNone && x.artBox.isNone && x.b.isNone && x.bleedBox.isNone && x.boxColorInfo.isNone &&
    x.contents.isNone && x.dPart.isNone && x.dur.isNone && x.group.isNone && x.metadata.isNone &&
    x.outputIntents.isNone && x.pz.isNone && x.pieceInfo.isNone && x.presSteps.isNone && x.resources.isNone &&
    x.separationInfo.isNone && x.structParents.isNone && x.templateInstantiated.isNone && x.thumb.isNone &&
    x.trans.isNone && x.trimBox.isNone && x.vp.isNone

def CatExtra.isNone (x : CatalogRules.CatExtra) : Bool :=
  x.aa.isNone && x.af.isNone && x.acroForm.isNone && x.collection.isNone && x.dPartRoot.isNone && x.dss.isNone &&
    x.dests.isNone && x.extensions.isNone && x.legal.isNone && x.markInfo.isNone && x.ocProperties.isNone &&
    x.outputIntents.isNone && x.perms.isNone && x.pieceInfo.isNone && x.requirements.isNone && x.spiderInfo.isNone &&
    x.structTreeRoot.isNone && x.threads.isNone && x.uri.isNone && x.viewerPreferences.isNone && x.ap.isNone &&
    x.alternatePresentations.isNone && x.ids.isNone && x.javaScript.isNone && x.pagesTree.isNone &&
    x.renditions.isNone && x.templates.isNone && x.urls.isNone

def PageOpts.isNone (o : PageOpts) : Bool :=
  o.annots.isNone && o.cropBox.isNone && o.id.isNone && o.lastModified.isNone && o.mediaBox.isNone &&
    o.rotate.isNone && o.tabs.isNone && o.userUnit.isNone && PageExtra.isNone o.x

def CatOpts.isNone (c : CatOpts) : Bool :=
  c.lang.isNone && c.metadata.isNone && c.dests.isNone && c.embeddedFiles.isNone && c.needsRendering.isNone &&
    c.openAction.isNone && c.outlines.isNone && c.pageLabels.isNone && c.pageLayout.isNone && c.pageMode.isNone &&
    c.version.isNone && CatExtra.isNone c.x

theorem PageExtra.eq_none (x : CatalogRules.PageExtra) (h : PageExtra.isNone x = true) :
    x = CatalogRules.PageExtra.none := by
  cases x
  simp only [PageExtra.isNone, Bool.and_eq_true, Option.isNone_iff_eq_none] at h
  simp only [CatalogRules.PageExtra.none, CatalogRules.PageExtra.mk.injEq]
  simp [h]

theorem CatExtra.eq_none (x : CatalogRules.CatExtra) (h : CatExtra.isNone x = true) :
    x = CatalogRules.CatExtra.none := by
  cases x
  simp only [CatExtra.isNone, Bool.and_eq_true, Option.isNone_iff_eq_none] at h
  simp only [CatalogRules.CatExtra.none, CatalogRules.CatExtra.mk.injEq]
  simp [h]

theorem PageOpts.eq_none (o : PageOpts) (h : PageOpts.isNone o = true) : o = PageOpts.none := by
  cases o
  simp only [PageOpts.isNone, Bool.and_eq_true, Option.isNone_iff_eq_none] at h
  simp only [PageOpts.none, PageOpts.mk.injEq]
  simp [h, PageExtra.eq_none _ h.2]

theorem CatOpts.eq_none (c : CatOpts) (h : CatOpts.isNone c = true) : c = CatOpts.none := by
  cases c
  simp only [CatOpts.isNone, Bool.and_eq_true, Option.isNone_iff_eq_none] at h
  simp only [CatOpts.none, CatOpts.mk.injEq]
  simp [h, CatExtra.eq_none _ h.2]

mutual
/-- no page or template of the subtree carries an optional entry -/
def plainB : Node → Bool
  | .page _ o => PageOpts.isNone o
  | .tmpl _ o => PageOpts.isNone o
  | .pages _ _ kids => plainsB kids
def plainsB : Nodes → Bool
  | .nil => true
  | .cons n t => plainB n && plainsB t
end

theorem plains_mem : ∀ (ns : Nodes) (n : Node), plainsB ns = true → n ∈ ns.toList → plainB n = true
  | .nil, n, _, h => by simp [Nodes.toList] at h
  | .cons m t, n, hp, h => by
    simp only [plainsB, Bool.and_eq_true] at hp
    simp only [Nodes.toList, List.mem_cons] at h
    rcases h with rfl | h
    · exact hp.1
    · exact plains_mem t n hp.2 h

theorem sub_plain (d : Doc) (hp : plainsB d.kids = true) : ∀ b p n, Sub d b p n → plainNode n := by
  have key : ∀ b p n, Sub d b p n → plainB n = true := by
    intro b p n h
    induction h with
    | top n hn => exact plains_mem d.kids n hp hn
    | deep b p i c kids n _ hn ih => exact plains_mem kids n (by simpa [plainB] using ih) hn
  intro b p n h
  have := key b p n h
  cases n with
  | page i o => exact PageOpts.eq_none o (by simpa [plainB] using this)
  | tmpl i o => exact PageOpts.eq_none o (by simpa [plainB] using this)
  | pages i c k => trivial

/-- For EVERY well-formed document without optional entries -- any shape, fan-out and depth of the page tree,
    any mix of pages, templates and inner nodes, any object numbers and /Count values -- the rendered catalog
    conforms to the REGENERATED shipped specification (declarative reading: every unfolding depth).
    The FULL statement is proved in the follow-up files: `rendered_conforms` (Props/C10Full.lean: the same for
    documents WITH optional entries from the menu of Spec/CatalogRules.lean) and `mutated_rejected`
    (Props/C10Rules.lean: `¬ Conforms` for `mutate m d`, every valid single-rule mutation `m`); this theorem is
    kept as the first step. -/
theorem rendered_conforms_partial (d : Doc) (hok : d.ok = true) (hcat : CatOpts.isNone d.cat = true)
    (hplain : plainsB d.kids = true) :
    Conforms (CatalogRules.render d).1 shippedCtx (CatalogRules.render d).2 shippedCat := by
  have hcat := CatOpts.eq_none d.cat hcat
  have hnd : (d.rootId :: d.kids.ids).Nodup := by
    have := nodup_of_nodupB _ hok
    simpa [Doc.ids, hcat, CatOpts.none, CatalogRules.CatExtra.none, CatalogRules.optId] using this
  have hg : d.graph = ((d.rootId, 0), nodeDict d.count d.kids none) :: d.kids.defs d.rootId := by
    simp [Doc.graph, hcat, CatOpts.none, CatalogRules.CatExtra.none, CatalogRules.optDef]
  refine conforms_of_invariant _ shippedCtx (S d) (S_closed _ d hcat (sub_plain d hplain) ?_ ?_) _ _ S.cat
  · show Graph.lookup d.graph (d.rootId, 0) = _
    rw [hg]; simp [Graph.lookup]
  · intro b p n h
    have sa := sub_agree d hcat hnd b p n h
    show Graph.lookup d.graph (n.id, 0) = _
    rw [sa.1 n.id (id_mem_ids n)]
    exact defs_self n p

/-- non-vacuity: a three-level tree with inner nodes, pages and a template satisfies the hypotheses -/
example : Conforms (CatalogRules.render wDoc3).1 shippedCtx (CatalogRules.render wDoc3).2 shippedCat :=
  rendered_conforms_partial wDoc3 (by decide) (by decide) (by decide)

/-! ### PART 4: witnesses of the engine findings that remain visible through the shipped specification
  (each is a corpus / generated case replayed on the real `check_type`) -/

def wPage (i : Nat) : Node := .page i PageOpts.none
def wDoc1 : Doc := ⟨CatOpts.none, 1, 1, Nodes.ofList [wPage 2]⟩
def wMut1 : Mutation := .directParent (.obj 2) (.int 17)

/-- `/Parent 17` on a page is a valid single-rule violation; the shipped specification read declaratively
    rejects it; the machine in the tree configuration accepts it (an `Any`-typed entry is skipped without
    looking at its indirect requirement); with the single repair `anyInd` it rejects.
    Known finding C08-any-entry-skips-indirect, class `any-entry-skips-indirect`. -/
theorem direct_parent_accepted_witness :
    wMut1.valid wDoc1 = true ∧
    conf (CatalogRules.mutate wMut1 wDoc1).1 shippedCtx 30 (CatalogRules.mutate wMut1 wDoc1).2 shippedCat = false ∧
    (checkTypeFuel Fix.tree (CatalogRules.mutate wMut1 wDoc1).1 shippedCtx 1000
        (CatalogRules.mutate wMut1 wDoc1).2 shippedCat).1 = .accept ∧
    (checkTypeFuel { Fix.tree with anyInd := true } (CatalogRules.mutate wMut1 wDoc1).1 shippedCtx 1000
        (CatalogRules.mutate wMut1 wDoc1).2 shippedCat).1 ≠ .accept := by
  decide +kernel

/-- root 1 -> node 2 -> two empty nodes 3 and 4 -/
def wDoc2 : Doc :=
  ⟨CatOpts.none, 1, 2, Nodes.ofList [.pages 2 1 (Nodes.ofList [.pages 3 0 .nil, .pages 4 0 .nil])]⟩
def wMut2 : Mutation := .wrongType (.obj 4) CatalogRules.kCount .null

/-- A violation two levels down (`/Count null` on node 4, whose sibling 3 has the same /Kids, /Parent and /Type
    values) is a valid single-rule violation, rejected by the shipped specification read declaratively, and
    ACCEPTED by the machine in the tree configuration: sub-checks memoised while an alternative was tried are
    skipped as passed when the enclosing alternatives are retried after the failure.  With the memo restored on backtracking
    (`trail`) it is rejected.  Known finding C08-memo-leak, class `memo-leak`. -/
theorem deep_violation_memo_leak_witness :
    wMut2.valid wDoc2 = true ∧
    conf (CatalogRules.mutate wMut2 wDoc2).1 shippedCtx 40 (CatalogRules.mutate wMut2 wDoc2).2 shippedCat = false ∧
    (checkTypeFuel Fix.tree (CatalogRules.mutate wMut2 wDoc2).1 shippedCtx 4000
        (CatalogRules.mutate wMut2 wDoc2).2 shippedCat).1 = .accept ∧
    (checkTypeFuel { Fix.tree with trail := true } (CatalogRules.mutate wMut2 wDoc2).1 shippedCtx 4000
        (CatalogRules.mutate wMut2 wDoc2).2 shippedCat).1 ≠ .accept := by
  decide +kernel

/-- the same documents without the mutation are accepted by the machine and conform at that depth -/
example :
    (checkTypeFuel Fix.tree (CatalogRules.render wDoc2).1 shippedCtx 4000 (CatalogRules.render wDoc2).2 shippedCat).1
      = .accept ∧
    conf (CatalogRules.render wDoc2).1 shippedCtx 40 (CatalogRules.render wDoc2).2 shippedCat = true := by
  decide +kernel

end Parsley.C10
