/-
  C10 -- the shipped catalog and page-tree specification is enforced.

  Shipped specification : Parsley/Gen/CatalogSpec.lean, REGENERATED on every run from the check graph the real
                          `catalog::catalog_type(&mut tctx)` returns (`c10 extract CatalogSpec`).
  Rules                 : Spec/CatalogRules.lean (documents, `render`, single-rule `Mutation`s).
  Declarative reading   : Spec/Conforms.lean (`conf`, `Conforms`).       Machine: Model/TypeCheck.lean (`Fix.tree`).

  PART 1  structural theorems over the regenerated term (`decide +kernel`; a weakened shipped specification stops
          building): required / forbidden keys of the catalog, the root node, and each kid alternative; the kid check
          requires an indirect reference and offers exactly node | page | template; /Parent is `any` with
          indirect-required; the page-mode, page-layout and tab-order names are exactly the listed ones; rectangles
          are arrays of exactly four int|real; /LastModified is a string with the date predicate; /PageLabels is the
          number-tree predicate READING /Nums (this theorem does not build on a tree without fix C10-01);
          /Names is a dictionary of name trees; every key of the rules' tables has an entry in the shipped type.
  PART 2  for ALL objects: the rules' name-tree / number-tree recogniser equals the model of NameTreePredicate /
          NumberTreePredicate (`tree_rule_eq_model`), hence rule-conforming trees pass and rule-violating ones fail.
  PART 3  for ALL documents (any shape, fan-out, depth, object numbers, counts):
          `conforms_of_invariant` (coinduction principle for `Conforms`) and `rendered_conforms_partial`.
  PART 4  witnesses of the engine findings that remain visible through the shipped specification.
-/
import Parsley.Gen.CatalogSpec
import Parsley.Spec.CatalogRules
import Parsley.Spec.Conforms
namespace Parsley.C10
open Parsley Parsley.TC Parsley.TC.Spec
open Parsley.CatalogRules (Doc Node Nodes PageOpts CatOpts Mutation Where kType kPages kCount kParent kMediaBox
  kCropBox kLastModified kRotate kTabs kUserUnit kID kAnnots kVersion kPageMode kPageLayout kLang kNeedsRendering
  kPageLabels kDests kEmbeddedFiles kOutlines kMetadata kOpenAction nCatalog nPage nTemplate pageModes pageLayouts
  tabOrders)

abbrev shippedCat : Chk := Gen.CatalogSpec.catalog
abbrev shippedCtx : Ctx := Gen.CatalogSpec.ctx

/-! ### navigation in a specification term -/

/-- a named check is replaced by its registration in the shipped context -/
def res (c : Chk) : Chk := (resolve shippedCtx c).getD c

def findEnt : ChkL → Bytes → Option (KeySpec × Chk)
  | .nil, _ => none
  | .cons k o c t, key => if k = key then some (o, c) else findEnt t key

def entsOf : Chk → ChkL
  | .dict _ es | .dictStar _ es _ _ | .stream _ es => es
  | _ => .nil

/-- the check of entry `key` of a dictionary type -/
def ent (c : Chk) (key : Bytes) : Chk :=
  match findEnt (entsOf (res c)) key with
  | some (_, x) => res x
  | none => .named "no such entry"

def optOf (c : Chk) (key : Bytes) : Option KeySpec := (findEnt (entsOf (res c)) key).map (·.1)

def keysWith (o : KeySpec) (c : Chk) : List Bytes :=
  ((entsOf (res c)).toList.filter fun e => e.2.1 == o).map (·.1)

def elemOf (c : Chk) : Chk :=
  match res c with
  | .array _ e _ => res e
  | _ => .named "not an array"

def altsOf (c : Chk) : List Chk :=
  match res c with
  | .disj _ os => os.chks.map res
  | _ => []

/-- predicates without the object-identity tags -/
def untag : Pred → Pred
  | .tagged _ p => untag p
  | p => p

def predOf (c : Chk) : Option Pred := (res c).attr.pred.map untag

/-- dictionary type described by (the names permitted for /Type, required keys, forbidden keys) -/
def dictSummary (c : Chk) : Option Pred × List Bytes × List Bytes :=
  (predOf (ent c kType), keysWith .required c, keysWith .forbidden c)

def names (l : List Bytes) : Pred := .choice (l.map Obj.name)

/-- `any` / primitive check with this indirection requirement and (untagged) predicate -/
def isAny (c : Chk) (ind : Ind) (p : Option Pred) : Bool :=
  match c with
  | .any a => decide (a.ind = ind) && decide (a.pred.map untag = p)
  | _ => false

def isPrim (c : Chk) (t : Prim) (ind : Ind) (p : Option Pred) : Bool :=
  match c with
  | .prim a t' => decide (t' = t) && decide (a.ind = ind) && decide (a.pred.map untag = p)
  | _ => false

/-- attributes and size bound of an array check -/
def arrayInfo : Chk → Option (Attr × Option Nat)
  | .array a _ sz => some (a, sz)
  | _ => none

def rootChk : Chk := ent shippedCat kPages
def rootKid : Chk := elemOf (ent rootChk kKids)
def nodeChk : Chk := (altsOf rootKid).getD 0 (.named "?")
def nodeKid : Chk := elemOf (ent nodeChk kKids)
/-- the page and template types, as they occur below the root and below an inner node -/
def pageChks : List Chk := [(altsOf rootKid).getD 1 (.named "?"), (altsOf nodeKid).getD 0 (.named "?")]
def tmplChks : List Chk := [(altsOf rootKid).getD 2 (.named "?"), (altsOf nodeKid).getD 2 (.named "?")]

/-! ### PART 1: structural theorems over the regenerated specification -/

theorem shipped_catalog_keys :
    dictSummary shippedCat = (some (names [nCatalog]), [kType, kPages], []) := by decide +kernel

theorem shipped_root_keys :
    dictSummary rootChk = (some (names [kPages]), [kType, kCount, kKids], [kParent]) ∧
    ent rootChk kCount = .prim Attr.dflt .integer ∧ (res (ent shippedCat kPages)).attr.ind = .allowed := by
  decide +kernel

/-- the statement's "kids given as indirect references to page-tree nodes, pages or templates", below the root
    and below an inner node: the element check of /Kids has `indirect required`, no size bound, and exactly the
    three alternatives, told apart by /Type, with their required and forbidden keys -/
theorem shipped_kid_requires_indirect :
    (res rootKid).attr = ⟨none, .required⟩ ∧ (res nodeKid).attr = ⟨none, .required⟩ ∧
    (∀ c ∈ [ent rootChk kKids, ent nodeChk kKids], arrayInfo c = some (Attr.dflt, none)) := by
  decide +kernel

theorem shipped_kid_alternatives :
    (altsOf rootKid).map dictSummary =
      [(some (names [kPages]), [kType, kCount, kKids, kParent], []),
       (some (names [nPage]), [kType, kParent], []),
       (some (names [nTemplate]), [kType], [kParent])] ∧
    (altsOf nodeKid).map dictSummary =
      [(some (names [nPage]), [kType, kParent], []),
       (some (names [kPages]), [kType, kCount, kKids, kParent], []),
       (some (names [nTemplate]), [kType], [kParent])] := by
  decide +kernel

/-- an inner node below an inner node is checked by the same type (the recursion goes through the name) -/
theorem shipped_node_recursive : (altsOf nodeKid).getD 1 (.named "?") = nodeChk := by decide +kernel

/-- /Parent, wherever it is required, is `any` + indirect required; where it is forbidden nothing else matters -/
theorem shipped_parent_requires_indirect :
    ∀ c ∈ nodeChk :: pageChks, ent c kParent = .any ⟨none, .required⟩ := by decide +kernel

theorem shipped_name_choices :
    predOf (ent shippedCat kPageMode) = some (names pageModes) ∧
    predOf (ent shippedCat kPageLayout) = some (names pageLayouts) ∧
    isPrim (ent shippedCat kPageMode) .name .allowed (some (names pageModes)) = true ∧
    isPrim (ent shippedCat kPageLayout) .name .allowed (some (names pageLayouts)) = true ∧
    (∀ c ∈ pageChks ++ tmplChks, isPrim (ent c kTabs) .name .allowed (some (names tabOrders)) = true) := by
  decide +kernel

def numberChk : Chk :=
  .disj Attr.dflt (.cons [] .required (.prim Attr.dflt .integer) (.cons [] .required (.prim Attr.dflt .real) .nil))

/-- "rectangles of four numbers" -/
theorem shipped_rectangles :
    ∀ c ∈ pageChks ++ tmplChks, ∀ k ∈ [kMediaBox, kCropBox],
      ent c k = .array Attr.dflt numberChk (some 4) := by decide +kernel

theorem shipped_page_scalars :
    ∀ c ∈ pageChks ++ tmplChks,
      isPrim (ent c kLastModified) .string .allowed (some .date) = true ∧
      ent c kRotate = .prim Attr.dflt .integer ∧ ent c kUserUnit = numberChk ∧
      ent c kID = .prim Attr.dflt .string ∧ ent c kAnnots = .array Attr.dflt (.any Attr.dflt) none := by
  decide +kernel

/-- DESIGN section 4 #24: the number-tree predicate inspects /Nums.  On a tree without fix C10-01 the extraction
    emits `.numTree kNames` (what the probe of the real predicate observes) and this theorem does not build. -/
theorem shipped_page_labels_reads_nums :
    isAny (ent shippedCat kPageLabels) .allowed (some (.numTree TC.kNums)) = true := by decide +kernel

theorem shipped_names_dictionary :
    ∀ k ∈ [kDests, kEmbeddedFiles],
      isAny (ent (ent shippedCat CatalogRules.kNames) k) .allowed (some .nameTree) = true := by decide +kernel

theorem shipped_catalog_scalars :
    ent shippedCat kVersion = .prim Attr.dflt .name ∧ ent shippedCat kLang = .prim Attr.dflt .string ∧
    ent shippedCat kNeedsRendering = .prim Attr.dflt .bool ∧
    ent shippedCat kOutlines = .dict ⟨none, .required⟩ .nil ∧ ent shippedCat kMetadata = .stream ⟨none, .required⟩ .nil ∧
    ent shippedCat kOpenAction =
      .disj Attr.dflt (.cons [] .required (.array Attr.dflt (.any Attr.dflt) none)
                      (.cons [] .required (.dict Attr.dflt .nil) .nil)) := by
  decide +kernel

def kindChk : CatalogRules.DictKind → List Chk
  | .catalog => [shippedCat]
  | .root => [rootChk]
  | .node => [nodeChk]
  | .page => pageChks
  | .tmpl => tmplChks

/-- every key of the rules' tables has an entry in the shipped type of that dictionary, required exactly when
    the rules require it (and the rules' forbidden keys are the shipped forbidden keys) -/
theorem shipped_covers_rule_tables :
    ∀ k ∈ [CatalogRules.DictKind.catalog, .root, .node, .page, .tmpl], ∀ c ∈ kindChk k,
      (∀ e ∈ CatalogRules.keyTable k,
          optOf c e.1 = some (if (CatalogRules.requiredKeys k).contains e.1 then .required else .optional)) ∧
      keysWith .required c = CatalogRules.requiredKeys k ∧ keysWith .forbidden c = CatalogRules.forbiddenKeys k := by
  decide +kernel

/-! ### PART 2: the rules' tree recogniser = the model of the shipped predicates, for every object -/

theorem altKeyRef_eq (isKey : Obj → Bool) : ∀ l : List Obj,
    CatalogRules.altKeyRef isKey l = altPairs isKey l
  | [] => by simp [CatalogRules.altKeyRef, altPairs]
  | [_] => by simp [CatalogRules.altKeyRef, altPairs]
  | a :: b :: t => by simp [CatalogRules.altKeyRef, altPairs, altKeyRef_eq isKey t]

theorem altPairs_even (isKey : Obj → Bool) : ∀ l : List Obj, altPairs isKey l = true → l.length % 2 = 0
  | [], _ => by simp
  | [_], h => by simp [altPairs] at h
  | a :: b :: t, h => by
    simp only [altPairs, Bool.and_eq_true] at h
    have := altPairs_even isKey t h.2
    simp only [List.length_cons]; omega

theorem leaf_guard (isKey : Obj → Bool) (l : List Obj) :
    (if l.length % 2 = 0 then altPairs isKey l else false) = altPairs isKey l := by
  by_cases h : l.length % 2 = 0
  · simp [h]
  · simp only [h, if_false]
    cases hp : altPairs isKey l with
    | false => rfl
    | true => exact absurd (altPairs_even isKey l hp) h

/-- For EVERY object: the rules accept it as a name-tree / number-tree node exactly when the model of
    `NameTreePredicate` / `NumberTreePredicate` (reading its leaf array from the key the combination test
    names) does. -/
theorem tree_rule_eq_model (leafKey : Bytes) (isKey : Obj → Bool) (o : Obj) :
    CatalogRules.isTreeNode leafKey isKey o = treePredOK leafKey leafKey isKey o := by
  cases o with
  | dict kvs =>
    simp only [CatalogRules.isTreeNode, treePredOK, CatalogRules.kKids, CatalogRules.kLimits, kKids, kLimits]
    generalize kvs.get leafKey = a
    generalize kvs.get [0x4B, 0x69, 0x64, 0x73] = b
    generalize kvs.get [0x4C, 0x69, 0x6D, 0x69, 0x74, 0x73] = c
    congr 1
    · congr 1
      · congr 1
        · cases a with
          | none => rfl
          | some v => cases v <;> simp [altKeyRef_eq] <;> exact altPairs_even isKey _
        · cases c with
          | none => rfl
          | some v => cases v <;> rfl
      · cases b with
        | none => rfl
        | some v => cases v <;> rfl
    · cases a <;> cases b <;> cases c <;> rfl
  | _ => simp [CatalogRules.isTreeNode, treePredOK]

/-- the rules' /PageLabels and /Names//Dests value types are decided by the shipped predicates -/
theorem number_tree_rule_eq_shipped (o : Obj) :
    CatalogRules.fitsKind .numTree o = (Pred.numTree TC.kNums).eval o := by
  simp only [CatalogRules.fitsKind, Pred.eval]
  exact tree_rule_eq_model CatalogRules.kNums Obj.isInt o

theorem name_tree_rule_eq_shipped (o : Obj) :
    CatalogRules.isTreeNode CatalogRules.kNamesKey Obj.isStr o = Pred.nameTree.eval o := by
  simp only [Pred.eval]
  exact tree_rule_eq_model CatalogRules.kNamesKey Obj.isStr o

example : CatalogRules.fitsKind .numTree
    (.dict (.cons CatalogRules.kNums (.arr (.cons [] (.int 0) (.cons [] (.ref 9 0) .nil))) .nil)) = true := by decide
example : CatalogRules.fitsKind .numTree (.dict (.cons CatalogRules.kNums (.int 42) .nil)) = false := by decide

/-! ### PART 3: all documents -/

/-- Coinduction principle for the declarative conformance relation: a set of (object, check) pairs that is
    closed under one unfolding (each of its pairs passes `confStep` for every `f` that is true on the set)
    consists of conforming pairs.  Holds for every graph and context. -/
theorem conforms_of_invariant (g : Graph) (ctx : Ctx) (S : Obj → Chk → Prop)
    (closed : ∀ o c, S o c → ∀ f : Obj → Chk → Bool, (∀ o' c', S o' c' → f o' c' = true) →
      confStep g ctx f o c = true) :
    ∀ o c, S o c → Conforms g ctx o c := by
  intro o c h n
  induction n generalizing o c with
  | zero => rfl
  | succ n ih => exact closed o c h (conf g ctx n) (fun o' c' h' => ih o' c' h')

/-! ### PART 4: witnesses of the engine findings that remain visible through the shipped specification
  (each is a corpus / generated case replayed on the real `check_type`) -/

def wPage (i : Nat) : Node := .page i PageOpts.none
def wDoc1 : Doc := ⟨CatOpts.none, 1, 1, Nodes.ofList [wPage 2]⟩
def wMut1 : Mutation := .directParent (.obj 2) (.int 17)

/-- `/Parent 17` on a page is a valid single-rule violation; the shipped specification read declaratively
    rejects it; the machine in the tree configuration accepts it (an `Any`-typed entry is skipped without
    looking at its indirect requirement); with the single repair `anyInd` it rejects.
    Known finding C08-any-entry-skips-indirect, class `any-entry-skips-indirect`. -/
theorem direct_parent_accepted_witness :
    wMut1.valid wDoc1 = true ∧
    conf (CatalogRules.mutate wMut1 wDoc1).1 shippedCtx 30 (CatalogRules.mutate wMut1 wDoc1).2 shippedCat = false ∧
    (checkTypeFuel Fix.tree (CatalogRules.mutate wMut1 wDoc1).1 shippedCtx 1000
        (CatalogRules.mutate wMut1 wDoc1).2 shippedCat).1 = .accept ∧
    (checkTypeFuel { Fix.tree with anyInd := true } (CatalogRules.mutate wMut1 wDoc1).1 shippedCtx 1000
        (CatalogRules.mutate wMut1 wDoc1).2 shippedCat).1 ≠ .accept := by
  decide +kernel

/-- root 1 -> node 2 -> two empty nodes 3 and 4 -/
def wDoc2 : Doc :=
  ⟨CatOpts.none, 1, 2, Nodes.ofList [.pages 2 1 (Nodes.ofList [.pages 3 0 .nil, .pages 4 0 .nil])]⟩
def wMut2 : Mutation := .wrongType (.obj 4) CatalogRules.kCount .null

/-- A violation two levels down (`/Count null` on node 4, whose sibling 3 has the same /Kids, /Parent and /Type
    values) is a valid single-rule violation, rejected by the shipped specification read declaratively, and
    ACCEPTED by the machine in the tree configuration: sub-checks memoised while an alternative was tried are
    skipped as passed when the enclosing alternatives are retried after the failure.  With the memo restored on backtracking
    (`trail`) it is rejected.  Known finding C08-memo-leak, class `memo-leak`. -/
theorem deep_violation_memo_leak_witness :
    wMut2.valid wDoc2 = true ∧
    conf (CatalogRules.mutate wMut2 wDoc2).1 shippedCtx 40 (CatalogRules.mutate wMut2 wDoc2).2 shippedCat = false ∧
    (checkTypeFuel Fix.tree (CatalogRules.mutate wMut2 wDoc2).1 shippedCtx 4000
        (CatalogRules.mutate wMut2 wDoc2).2 shippedCat).1 = .accept ∧
    (checkTypeFuel { Fix.tree with trail := true } (CatalogRules.mutate wMut2 wDoc2).1 shippedCtx 4000
        (CatalogRules.mutate wMut2 wDoc2).2 shippedCat).1 ≠ .accept := by
  decide +kernel

/-- the same documents without the mutation are accepted by the machine and conform at that depth -/
example :
    (checkTypeFuel Fix.tree (CatalogRules.render wDoc2).1 shippedCtx 4000 (CatalogRules.render wDoc2).2 shippedCat).1
      = .accept ∧
    conf (CatalogRules.render wDoc2).1 shippedCtx 40 (CatalogRules.render wDoc2).2 shippedCat = true := by
  decide +kernel

end Parsley.C10
