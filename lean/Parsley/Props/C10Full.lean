/-
  C10, acceptance half for ALL documents: `rendered_conforms` -- for every well-formed document of
  Spec/CatalogRules.lean, WITH any optional entries of the menu -- since the sweep follow-up the menu is EVERY entry the
  shipped catalog, page and template types declare (`rules_tables_complete`, Props/C10Keys.lean), the ten name trees of
  the name dictionary and the eight entries of /Resources -- on the catalog, on every page and on every
  template, the rendered catalog conforms (declarative reading, Spec/Conforms.lean) to the regenerated shipped
  specification.  Generalises `rendered_conforms_partial` of Props/C10.lean (documents without optional entries).

  Method: the invariant `S'` (pairs object / check that occur when the rendered catalog is unfolded against the
  shipped type) is closed under one unfolding (`S'_closed`); `conforms_of_invariant` concludes.  The values of
  the menu enter the invariant through ONE constructor `S'.menu vk v c`: `v` is a rendered value of the rules'
  value kind `vk` (`RV`) and the shipped check `c` has the shape of that kind (`kindMatches`, known for every key
  of the rules' tables by the closed fact `F_kind` about the regenerated term).
-/
import Parsley.Props.C10
import Parsley.Lemmas.CatalogDicts
import Parsley.Lemmas.CatalogValues
import Parsley.Lemmas.CatalogDate
namespace Parsley.C10
open Parsley Parsley.TC Parsley.TC.Spec
open Parsley.CatalogRules (Doc Node Nodes PageOpts CatOpts kType kPages kCount kParent kMediaBox
  pageDict nodeDict catalogDict arrOf optEnt DictKind ValKind keyTable requiredKeys pageMenu
  kCropBox kLastModified kRotate kTabs kUserUnit kID kAnnots kVersion kPageMode kPageLayout kLang kNeedsRendering
  kPageLabels kDests kEmbeddedFiles kOutlines kMetadata kOpenAction nCatalog nPage nTemplate pageModes pageLayouts
  tabOrders nameAt Rect Num Date Tree namesDict kNamesKey strObj pageRows catRows namesRows rowsObjL GDict GStream
  Contents Resources arrObj refsObj afObj refObj kB kProcSet)

/-! ### generic unfolding lemmas (any graph, the shipped context) -/

theorem eval_untag : ∀ (p : Pred) (o : Obj), Pred.eval p o = Pred.eval (untag p) o
  | .tagged _ p, o => by
    have ih := eval_untag p o
    simpa [untag, Pred.eval] using ih
  | .choice _, _ => rfl
  | .refArray, _ => rfl
  | .never, _ => rfl
  | .always, _ => rfl
  | .nameTree, _ => rfl
  | .numTree _, _ => rfl
  | .date, _ => rfl

theorem predOK_of_untag (q : Option Pred) (p : Pred) (o : Obj) (h : q.map untag = some p) (hp : p.eval o = true) :
    predOK q o = true := by
  cases q with
  | none => simp at h
  | some q =>
    simp only [Option.map_some, Option.some.injEq] at h
    simp only [predOK]
    rw [eval_untag, h]; exact hp

/-- a primitive check with an (untagged) predicate `p`, found behind `res` -/
theorem conf_isPrim (g : Graph) (f : Obj → Chk → Bool) (o : Obj) (c : Chk) (t : Prim) (p : Pred)
    (h : isPrim (res c) t .allowed (some p) = true) (hnr : o.isRef = false)
    (hp : p.eval o = true) (ht : primOK o t = true) : confStep g shippedCtx f o c = true := by
  cases hr : res c with
  | prim a t' =>
    rw [hr] at h
    simp only [isPrim, Bool.and_eq_true, decide_eq_true_eq] at h
    obtain ⟨⟨h1, h2⟩, h3⟩ := h
    subst h1
    have hres := resolve_of_res c _ hr (by intro n; simp)
    refine conf_prim g shippedCtx f o c a t' hres hnr ?_
    rw [h2, predOK_of_untag a.pred p o h3 hp, ht]; rfl
  | _ => rw [hr] at h; simp [isPrim] at h

/-- an `any` check with an (untagged) predicate `p`, found behind `res` -/
theorem conf_isAny (g : Graph) (f : Obj → Chk → Bool) (o : Obj) (c : Chk) (p : Pred)
    (h : isAny (res c) .allowed (some p) = true) (hnr : o.isRef = false)
    (hp : p.eval o = true) : confStep g shippedCtx f o c = true := by
  cases hr : res c with
  | any a =>
    rw [hr] at h
    simp only [isAny, Bool.and_eq_true, decide_eq_true_eq] at h
    obtain ⟨h2, h3⟩ := h
    have hres := resolve_of_res c _ hr (by intro n; simp)
    rw [confStep_eq g shippedCtx f o c _ hres, value_nonref g o hnr]
    simp only [Chk.attr, h2, indOK, predOK_of_untag a.pred p o h3 hp, shapeOK, Bool.and_self]
  | _ => rw [hr] at h; simp [isAny] at h

/-- a primitive check without attributes, found behind `res` -/
theorem conf_resPrim (g : Graph) (f : Obj → Chk → Bool) (o : Obj) (c : Chk) (t : Prim)
    (h : res c = .prim Attr.dflt t) (hnr : o.isRef = false) (ht : primOK o t = true) :
    confStep g shippedCtx f o c = true := by
  have hres := resolve_of_res c _ h (by intro n; simp)
  refine conf_prim g shippedCtx f o c _ t hres hnr ?_
  rw [ht]; rfl

theorem conf_array_sized (g : Graph) (ctx : Ctx) (f : Obj → Chk → Bool) (o : Obj) (chk : Chk) (a : Attr) (e : Chk)
    (xs : ObjL) (n : Nat)
    (hres : resolve ctx chk = some (.array a e (some n))) (hv : value g o = .arr xs)
    (hi : indOK o a.ind = true) (hp : a.pred = none) (hlen : xs.vals.length = n)
    (hall : ∀ x ∈ xs.vals, f x e = true) :
    confStep g ctx f o chk = true := by
  rw [confStep_eq g ctx f o chk _ hres]
  simp only [Chk.attr, hi, hp, predOK, hv, shapeOK, hlen, decide_true, Bool.true_and, List.all_eq_true]
  exact hall

theorem conf_stream_nil (g : Graph) (ctx : Ctx) (f : Obj → Chk → Bool) (o : Obj) (chk : Chk) (a : Attr)
    (kvs : ObjL) (s : Nat) (bs : Bytes)
    (hres : resolve ctx chk = some (.stream a .nil)) (hv : value g o = .stream kvs s bs)
    (hi : indOK o a.ind = true) (hp : a.pred = none) :
    confStep g ctx f o chk = true := by
  rw [confStep_eq g ctx f o chk _ hres]
  simp [Chk.attr, hi, hp, predOK, hv, shapeOK, ChkL.toList]

theorem conf_dict_nil (g : Graph) (ctx : Ctx) (f : Obj → Chk → Bool) (o : Obj) (chk : Chk) (a : Attr)
    (kvs : ObjL)
    (hres : resolve ctx chk = some (.dict a .nil)) (hv : value g o = .dict kvs)
    (hi : indOK o a.ind = true) (hp : a.pred = none) :
    confStep g ctx f o chk = true := by
  rw [confStep_eq g ctx f o chk _ hres]
  simp [Chk.attr, hi, hp, predOK, hv, shapeOK, ChkL.toList]

/-- the required keys of a dictionary type are present when each key of a list covering them is -/
theorem req_mono (ents : ChkL) (ks : List Bytes) (kvs : ObjL)
    (h : (ents.toList.all fun e => e.2.1 != .required || ks.contains e.1) = true)
    (hk : ∀ k ∈ ks, (kvs.get k).isSome = true) :
    (ents.toList.all fun e => e.2.1 != .required || kvs.keys.contains e.1) = true := by
  rw [List.all_eq_true] at h ⊢
  intro e he
  have := h e he
  simp only [Bool.or_eq_true] at this ⊢
  rcases this with h1 | h2
  · exact Or.inl h1
  · refine Or.inr ?_
    rw [← ObjL.get_isSome_keys]
    exact hk e.1 (by simpa using h2)

theorem map_some_eq {α : Type} {fn : α → Obj} {x : Option α} {v : Obj} (h : some v = x.map fn) :
    ∃ a, x = some a ∧ v = fn a := by
  cases x with
  | none => simp at h
  | some a => exact ⟨a, rfl, by simpa using h⟩

theorem names_eval (l : List Bytes) (i : Nat) (h : i < l.length) : (names l).eval (nameAt l i) = true := by
  simp only [names, Pred.eval, nameAt, List.any_eq_true, List.mem_map, decide_eq_true_eq]
  refine ⟨_, ⟨l[i], List.getElem_mem h, rfl⟩, ?_⟩
  simp [List.getD, List.getElem?_eq_getElem h]

/-! ### the invariant -/

/-- `RV d vk v`: `v` is a value the renderer writes under a key of value kind `vk` (the structural kinds
    `rootRef` / `kids` have their own constructors in `S'`) -/
def RV (d : Doc) : ValKind → Obj → Prop
  | .nameIs n, v => v = .name n
  | .nameIn l, v => ∃ i, i < l.length ∧ v = nameAt l i
  | .name, v => ∃ s, v = .name s
  | .str, v => ∃ s, v = .str s
  | .bool, v => ∃ b, v = .bool b
  | .int, v => ∃ i, v = .int i
  | .number, v => ∃ n : Num, v = n.obj
  | .rect, v => ∃ r : Rect, v = r.obj
  | .date, v => ∃ t : Date, v = t.obj
  | .array, v => ∃ xs : List Obj, v = .arr (arrOf xs)
  | .dict, v => ∃ kvs, v = .dict kvs
  | .stream, v => ∃ kvs s bs, v = .stream kvs s bs
  | .arrayOfDict, v => ∃ l : List GDict, v = afObj l
  | .contents, v => ∃ c : Contents, v = c.obj
  | .resources, v => ∃ r : Resources, v = r.obj
  | .arrayOrDict, v => v = .arr .nil ∨ v = .dict .nil
  | .numTree, v => ∃ t : Tree Int, v = Tree.obj CatalogRules.kNums Obj.int t
  | .nameDict, v => ∃ c : CatOpts, namesDict c = some v
  | .refDict, v => ∃ i, v = .ref i 0 ∧ (d.cat.outlines = some i ∨ d.cat.x.dests = some i)
  | .refStream, v => ∃ i, v = .ref i 0 ∧ d.cat.metadata = some i
  | .parentRef, v => ∃ p, v = .ref p 0
  | .rootRef, _ => False
  | .kids, _ => False

inductive S' (d : Doc) : Obj → Chk → Prop
  | cat : S' d (catalogDict d) shippedCat
  | catPages : S' d (.ref d.rootId 0) rootR
  | rootKids : S' d (.arr (arrOf d.kids.refs)) kidsRR
  | kid (b : Bool) (p : Nat) (n : Node) : Sub d b p n → S' d (.ref n.id 0) (kidC b)
  | alt (b : Bool) (p : Nat) (n : Node) : Sub d b p n → S' d (.ref n.id 0) (altFor b n)
  | nodeKids (b : Bool) (p i : Nat) (c : Int) (kids : Nodes) :
      Sub d b p (.pages i c kids) → S' d (.arr (arrOf kids.refs)) kidsNR
  /-- a rendered value of kind `vk` against a shipped check of the shape of `vk` -/
  | menu (vk : ValKind) (v : Obj) (c : Chk) : kindMatches vk c = true → RV d vk v → S' d v c
  | real (n m : Int) : S' d (.real n m) (.prim Attr.dflt .real)
  /-- an element of an arbitrary array -/
  | anyElem (x : Obj) : S' d x (.any Attr.dflt)
  | streamArr (l : List GStream) :
      S' d (.arr (arrOf (l.map GStream.obj))) (.array Attr.dflt (.stream Attr.dflt .nil) none)
  | nameTree (t : Tree Bytes) (c : Chk) :
      isAny (res c) .allowed (some .nameTree) = true → S' d (Tree.obj kNamesKey strObj t) c

/-- the shipped entry of a key of the rules' tables accepts (by `f`, true on the invariant) every rendered
    value of the key's kind -/
theorem menu_entry (d : Doc) (f : Obj → Chk → Bool) (hf : ∀ o' c', S' d o' c' → f o' c' = true)
    (k : DictKind) (c : Chk) (hc : c ∈ rawChks k) (key : Bytes) (vk : ValKind) (he : (key, vk) ∈ keyTable k)
    (v : Obj) (hrv : RV d vk v) :
    ∃ o' c', findEnt (entsOf c) key = some (o', c') ∧ o' ≠ .forbidden ∧ f v c' = true := by
  have hk : k ∈ [DictKind.catalog, .root, .node, .page, .tmpl] := by cases k <;> decide
  have h := F_kind k hk c hc (key, vk) he
  unfold entryMatches at h
  cases hfe : findEnt (entsOf c) key with
  | none => rw [hfe] at h; simp at h
  | some oc =>
    obtain ⟨opt, c'⟩ := oc
    rw [hfe] at h
    simp only [Bool.and_eq_true, decide_eq_true_eq] at h
    refine ⟨opt, c', rfl, ?_, hf _ _ (S'.menu vk v c' h.2 hrv)⟩
    rw [h.1]; split <;> decide

theorem tree_isRef {κ : Type} (lk : Bytes) (fn : κ → Obj) (t : Tree κ) : (Tree.obj lk fn t).isRef = false := by
  cases t <;> rfl

theorem namesDict_rows (c : CatOpts) (v : Obj) (h : namesDict c = some v) :
    v = .dict (dictOfList (optPairs (namesRows c))) := by
  unfold namesDict at h
  split at h
  · cases h
  · simp only [Option.some.injEq] at h
    rw [← rowsObjL_eq]; exact h.symm

theorem namesRows_rv (c : CatOpts) (k : Bytes) (v : Obj) (h : (k, some v) ∈ namesRows c) :
    k ∈ CatalogRules.nameTreeKeys ∧ ∃ t : Tree Bytes, v = Tree.obj kNamesKey strObj t := by
  refine ⟨?_, ?_⟩
  · rw [← namesRows_keys c]; exact List.mem_map_of_mem (f := (·.1)) h
  · simp only [namesRows, List.mem_cons, Prod.mk.injEq, List.not_mem_nil, or_false] at h
    rcases h with ⟨_, h⟩ | ⟨_, h⟩ | ⟨_, h⟩ | ⟨_, h⟩ | ⟨_, h⟩ | ⟨_, h⟩ | ⟨_, h⟩ | ⟨_, h⟩ | ⟨_, h⟩ | ⟨_, h⟩ <;>
      (obtain ⟨t, _, rfl⟩ := map_some_eq h; exact ⟨t, rfl⟩)

theorem resRows_rv (r : Resources) (k : Bytes) (v : Obj) (h : (k, some v) ∈ r.rows) :
    (k ∈ CatalogRules.resourceDictKeys ∧ ∃ kvs, v = .dict kvs) ∨ (k = kProcSet ∧ ∃ xs : List Obj, v = .arr (arrOf xs)) := by
  simp only [Resources.rows, List.mem_cons, Prod.mk.injEq, List.not_mem_nil, or_false] at h
  rcases h with ⟨rfl, h⟩ | ⟨rfl, h⟩ | ⟨rfl, h⟩ | ⟨rfl, h⟩ | ⟨rfl, h⟩ | ⟨rfl, h⟩ | ⟨rfl, h⟩ | ⟨rfl, h⟩
  · obtain ⟨a, _, rfl⟩ := map_some_eq h; exact Or.inl ⟨by decide, _, rfl⟩
  · obtain ⟨a, _, rfl⟩ := map_some_eq h; exact Or.inl ⟨by decide, _, rfl⟩
  · obtain ⟨a, _, rfl⟩ := map_some_eq h; exact Or.inl ⟨by decide, _, rfl⟩
  · obtain ⟨a, _, rfl⟩ := map_some_eq h; exact Or.inl ⟨by decide, _, rfl⟩
  · obtain ⟨a, _, rfl⟩ := map_some_eq h; exact Or.inr ⟨rfl, _, rfl⟩
  · obtain ⟨a, _, rfl⟩ := map_some_eq h; exact Or.inl ⟨by decide, _, rfl⟩
  · obtain ⟨a, _, rfl⟩ := map_some_eq h; exact Or.inl ⟨by decide, _, rfl⟩
  · obtain ⟨a, _, rfl⟩ := map_some_eq h; exact Or.inl ⟨by decide, _, rfl⟩

/-- one unfolding of a menu value against a check of its kind -/
theorem menu_closed (g : Graph) (d : Doc) (hdate : ∀ s, CatalogRules.isDate s = PdfDate.dateOK s)
    (houtl : ∀ i, (d.cat.outlines = some i ∨ d.cat.x.dests = some i) → g.lookup (i, 0) = some (.dict .nil))
    (hmeta : ∀ i, d.cat.metadata = some i → g.lookup (i, 0) = some (.stream .nil 0 []))
    (vk : ValKind) (v : Obj) (c : Chk) (hk : kindMatches vk c = true) (hrv : RV d vk v)
    (f : Obj → Chk → Bool) (hf : ∀ o' c', S' d o' c' → f o' c' = true) :
    confStep g shippedCtx f v c = true := by
  cases vk with
  | nameIs n =>
    simp only [RV] at hrv; subst hrv
    exact conf_isPrim g f _ c _ _ hk rfl (by simp [names, Pred.eval]) rfl
  | nameIn l =>
    obtain ⟨i, hi, rfl⟩ := hrv
    exact conf_isPrim g f _ c _ _ hk rfl (names_eval l i hi) rfl
  | name =>
    obtain ⟨s, rfl⟩ := hrv
    exact conf_resPrim g f _ c _ (of_decide_eq_true hk) rfl rfl
  | str =>
    obtain ⟨s, rfl⟩ := hrv
    exact conf_resPrim g f _ c _ (of_decide_eq_true hk) rfl rfl
  | bool =>
    obtain ⟨s, rfl⟩ := hrv
    exact conf_resPrim g f _ c _ (of_decide_eq_true hk) rfl rfl
  | int =>
    obtain ⟨s, rfl⟩ := hrv
    exact conf_resPrim g f _ c _ (of_decide_eq_true hk) rfl rfl
  | number =>
    obtain ⟨n, rfl⟩ := hrv
    have hr : res c = numberChk := of_decide_eq_true hk
    have hres := resolve_of_res c _ hr (by intro n; simp [numberChk])
    cases n with
    | int i =>
      refine conf_disj g shippedCtx f _ c _ _ (.prim Attr.dflt .integer) hres rfl rfl
        (by simp [ChkL.chks, ChkL.toList]) (hf _ _ (S'.menu .int _ _ (by decide +kernel) ⟨i, rfl⟩))
    | real a b =>
      refine conf_disj g shippedCtx f _ c _ _ (.prim Attr.dflt .real) hres rfl rfl
        (by simp [ChkL.chks, ChkL.toList]) (hf _ _ (S'.real a b))
  | rect =>
    obtain ⟨r, rfl⟩ := hrv
    have hr : res c = .array Attr.dflt numberChk (some 4) := of_decide_eq_true hk
    have hres := resolve_of_res c _ hr (by intro n; simp)
    refine conf_array_sized g shippedCtx f _ c _ _ _ 4 hres (value_nonref g _ rfl) rfl rfl ?_ ?_
    · rw [arrOf_vals]; rfl
    · intro x hx
      rw [arrOf_vals] at hx
      have : ∃ n : Num, x = n.obj := by
        simp only [List.mem_cons, List.not_mem_nil, or_false] at hx
        rcases hx with rfl | rfl | rfl | rfl <;> exact ⟨_, rfl⟩
      exact hf _ _ (S'.menu .number x numberChk (by decide +kernel) this)
  | date =>
    obtain ⟨t, rfl⟩ := hrv
    refine conf_isPrim g f _ c _ _ hk rfl ?_ rfl
    show PdfDate.dateOK t.bytes = true
    rw [← hdate]; exact date_bytes_isDate t
  | array =>
    obtain ⟨rs, rfl⟩ := hrv
    have hr : res c = .array Attr.dflt (.any Attr.dflt) none := of_decide_eq_true hk
    have hres := resolve_of_res c _ hr (by intro n; simp)
    refine conf_array g shippedCtx f _ c _ _ _ hres (value_nonref g _ rfl) rfl rfl ?_
    intro x _
    exact hf _ _ (S'.anyElem x)
  | dict =>
    obtain ⟨kvs, rfl⟩ := hrv
    have hr : res c = .dict Attr.dflt .nil := of_decide_eq_true hk
    have hres := resolve_of_res c _ hr (by intro n; simp)
    exact conf_dict_nil g shippedCtx f _ c _ _ hres (value_nonref g _ rfl) rfl rfl
  | stream =>
    obtain ⟨kvs, st, bs, rfl⟩ := hrv
    have hr : res c = .stream Attr.dflt .nil := of_decide_eq_true hk
    have hres := resolve_of_res c _ hr (by intro n; simp)
    exact conf_stream_nil g shippedCtx f _ c _ _ _ _ hres (value_nonref g _ rfl) rfl rfl
  | arrayOfDict =>
    obtain ⟨l, rfl⟩ := hrv
    have hr : res c = .array Attr.dflt (.dict Attr.dflt .nil) none := of_decide_eq_true hk
    have hres := resolve_of_res c _ hr (by intro n; simp)
    refine conf_array g shippedCtx f _ c _ _ _ hres (value_nonref g _ rfl) rfl rfl ?_
    intro x hx
    rw [arrOf_vals] at hx
    obtain ⟨gd, _, rfl⟩ := List.mem_map.mp hx
    exact hf _ _ (S'.menu .dict _ _ (by decide +kernel) ⟨_, rfl⟩)
  | contents =>
    obtain ⟨cv, rfl⟩ := hrv
    have hr : res c = contentsChk := of_decide_eq_true hk
    have hres := resolve_of_res c _ hr (by intro n; simp [contentsChk])
    cases cv with
    | one sv =>
      refine conf_disj g shippedCtx f _ c _ _ (.stream Attr.dflt .nil) hres rfl rfl
        (by simp [ChkL.chks, ChkL.toList]) (hf _ _ (S'.menu .stream _ _ (by decide +kernel) ⟨_, _, _, rfl⟩))
    | many l =>
      refine conf_disj g shippedCtx f _ c _ _ (.array Attr.dflt (.stream Attr.dflt .nil) none) hres rfl rfl
        (by simp [ChkL.chks, ChkL.toList]) (hf _ _ (S'.streamArr l))
  | resources =>
    obtain ⟨r, rfl⟩ := hrv
    simp only [kindMatches, resourcesMatches] at hk
    cases hr : res c with
    | dict a ents =>
      rw [hr] at hk
      simp only [Bool.and_eq_true, decide_eq_true_eq] at hk
      obtain ⟨⟨⟨⟨ha, hnd⟩, hnr⟩, hkeys⟩, hproc⟩ := hk
      subst ha
      have hres := resolve_of_res c _ hr (by intro n; simp)
      have hv : value g r.obj = .dict (dictOfList (optPairs r.rows)) := by
        rw [value_nonref g _ rfl, ← rowsObjL_eq]; rfl
      refine conf_dict g shippedCtx f _ .null c _ _ _ hres hv rfl rfl hnd ?_ (hval_list f _ _ ?_)
      · rw [List.all_eq_true] at hnr ⊢
        intro e he
        rw [hnr e he]; rfl
      · intro kv hkv
        obtain ⟨k, v⟩ := kv
        rw [mem_optPairs] at hkv
        rcases resRows_rv r k v hkv with ⟨hkm, kvs, rfl⟩ | ⟨rfl, xs, rfl⟩
        · rw [List.all_eq_true] at hkeys
          have h1 := hkeys k hkm
          cases hfe : findEnt ents k with
          | none => rw [hfe] at h1; simp at h1
          | some oc =>
            obtain ⟨opt, c''⟩ := oc
            rw [hfe] at h1
            simp only [Bool.and_eq_true, decide_eq_true_eq] at h1
            exact ⟨opt, c'', rfl, by rw [h1.1]; decide,
              hf _ _ (S'.menu .dict _ c'' (by simpa [kindMatches] using h1.2) ⟨_, rfl⟩)⟩
        · cases hfe : findEnt ents kProcSet with
          | none => rw [hfe] at hproc; simp at hproc
          | some oc =>
            obtain ⟨opt, c''⟩ := oc
            rw [hfe] at hproc
            simp only [Bool.and_eq_true, decide_eq_true_eq] at hproc
            exact ⟨opt, c'', rfl, by rw [hproc.1]; decide,
              hf _ _ (S'.menu .array _ c'' (by simpa [kindMatches] using hproc.2) ⟨_, rfl⟩)⟩
    | _ => rw [hr] at hk; simp at hk
  | arrayOrDict =>
    have hr : res c = arrayOrDictChk := of_decide_eq_true hk
    have hres := resolve_of_res c _ hr (by intro n; simp [arrayOrDictChk])
    rcases hrv with rfl | rfl
    · refine conf_disj g shippedCtx f _ c _ _ (.array Attr.dflt (.any Attr.dflt) none) hres rfl rfl
        (by simp [ChkL.chks, ChkL.toList]) (hf _ _ (S'.menu .array _ _ (by decide +kernel) ⟨[], rfl⟩))
    · refine conf_disj g shippedCtx f _ c _ _ (.dict Attr.dflt .nil) hres rfl rfl
        (by simp [ChkL.chks, ChkL.toList]) (hf _ _ (S'.menu .dict _ _ (by decide +kernel) ⟨_, rfl⟩))
  | numTree =>
    obtain ⟨t, rfl⟩ := hrv
    refine conf_isAny g f _ c _ hk (tree_isRef _ _ t) ?_
    rw [← number_tree_rule_eq_shipped]
    exact numtree_fits t
  | nameDict =>
    obtain ⟨cc, hv⟩ := hrv
    have hv := namesDict_rows cc v hv
    subst hv
    simp only [kindMatches, nameDictMatches] at hk
    cases hr : res c with
    | dict a ents =>
      rw [hr] at hk
      simp only [Bool.and_eq_true, decide_eq_true_eq] at hk
      obtain ⟨⟨⟨ha, hnd⟩, hnr⟩, hkeys⟩ := hk
      subst ha
      have hres := resolve_of_res c _ hr (by intro n; simp)
      refine conf_dict g shippedCtx f _ .null c _ _ _ hres (value_nonref g _ rfl) rfl rfl hnd ?_
        (hval_list f _ _ ?_)
      · rw [List.all_eq_true] at hnr ⊢
        intro e he
        rw [hnr e he]; rfl
      · intro kv hkv
        obtain ⟨k, v⟩ := kv
        rw [mem_optPairs] at hkv
        obtain ⟨hkm, t, rfl⟩ := namesRows_rv cc k v hkv
        rw [List.all_eq_true] at hkeys
        have h1 := hkeys k hkm
        cases hfe : findEnt ents k with
        | none => rw [hfe] at h1; simp at h1
        | some oc =>
          obtain ⟨opt, c''⟩ := oc
          rw [hfe] at h1
          simp only [Bool.and_eq_true, decide_eq_true_eq] at h1
          exact ⟨opt, c'', rfl, by rw [h1.1]; decide, hf _ _ (S'.nameTree t c'' h1.2)⟩
    | _ => rw [hr] at hk; simp at hk
  | refDict =>
    obtain ⟨i, rfl, hi⟩ := hrv
    have hr : res c = .dict ⟨none, .required⟩ .nil := of_decide_eq_true hk
    have hres := resolve_of_res c _ hr (by intro n; simp)
    exact conf_dict_nil g shippedCtx f _ c _ _ hres (value_ref g _ _ _ (houtl i hi) rfl) rfl rfl
  | refStream =>
    obtain ⟨i, rfl, hi⟩ := hrv
    have hr : res c = .stream ⟨none, .required⟩ .nil := of_decide_eq_true hk
    have hres := resolve_of_res c _ hr (by intro n; simp)
    exact conf_stream_nil g shippedCtx f _ c _ _ _ _ hres (value_ref g _ _ _ (hmeta i hi) rfl) rfl rfl
  | parentRef =>
    obtain ⟨p, rfl⟩ := hrv
    have hr : res c = .any ⟨none, .required⟩ := of_decide_eq_true hk
    have hres := resolve_of_res c _ hr (by intro n; simp)
    exact conf_any_ref g shippedCtx f _ _ c _ hres (by decide)
  | rootRef => exact absurd hrv (by simp [RV])
  | kids => exact absurd hrv (by simp [RV])

/-! ### rows of the rendered dictionaries, as rendered values of the rules' kinds -/

theorem pageRows_rv (d : Doc) (o : PageOpts) (parent : Option Obj) (typ k : Bytes) (v : Obj)
    (h : (k, some v) ∈ pageRows o parent typ) :
    (k = kParent ∧ parent = some v) ∨ (k = kType ∧ v = .name typ) ∨ (k = kB ∧ typ = nPage ∧ RV d .array v) ∨
      ∃ vk, (k, vk) ∈ pageMenu ∧ RV d vk v := by
  simp only [pageRows, List.mem_cons, Prod.mk.injEq, List.not_mem_nil, or_false] at h
  rcases h with ⟨rfl, h⟩ | ⟨rfl, h⟩ | ⟨rfl, h⟩ | ⟨rfl, h⟩ | ⟨rfl, h⟩ | ⟨rfl, h⟩ | ⟨rfl, h⟩ | ⟨rfl, h⟩ | ⟨rfl, h⟩ | ⟨rfl, h⟩ | ⟨rfl, h⟩ | ⟨rfl, h⟩ | ⟨rfl, h⟩ | ⟨rfl, h⟩ | ⟨rfl, h⟩ | ⟨rfl, h⟩ | ⟨rfl, h⟩ | ⟨rfl, h⟩ | ⟨rfl, h⟩ | ⟨rfl, h⟩ | ⟨rfl, h⟩ | ⟨rfl, h⟩ | ⟨rfl, h⟩ | ⟨rfl, h⟩ | ⟨rfl, h⟩ | ⟨rfl, h⟩ | ⟨rfl, h⟩ | ⟨rfl, h⟩ | ⟨rfl, h⟩ | ⟨rfl, h⟩ | ⟨rfl, h⟩ | ⟨rfl, h⟩ | ⟨rfl, h⟩
  · obtain ⟨a, _, rfl⟩ := map_some_eq h
    exact Or.inr (Or.inr (Or.inr ⟨.dict, by decide, ⟨_, rfl⟩⟩))
  · obtain ⟨a, _, rfl⟩ := map_some_eq h
    exact Or.inr (Or.inr (Or.inr ⟨.arrayOfDict, by decide, ⟨a, rfl⟩⟩))
  · obtain ⟨a, _, rfl⟩ := map_some_eq h
    exact Or.inr (Or.inr (Or.inr ⟨.array, by decide, ⟨_, rfl⟩⟩))
  · obtain ⟨a, _, rfl⟩ := map_some_eq h
    exact Or.inr (Or.inr (Or.inr ⟨.rect, by decide, ⟨a, rfl⟩⟩))
  · by_cases ht : typ = nPage
    · rw [if_pos ht] at h
      obtain ⟨a, _, rfl⟩ := map_some_eq h
      exact Or.inr (Or.inr (Or.inl ⟨rfl, ht, ⟨_, rfl⟩⟩))
    · rw [if_neg ht] at h; cases h
  · obtain ⟨a, _, rfl⟩ := map_some_eq h
    exact Or.inr (Or.inr (Or.inr ⟨.rect, by decide, ⟨a, rfl⟩⟩))
  · obtain ⟨a, _, rfl⟩ := map_some_eq h
    exact Or.inr (Or.inr (Or.inr ⟨.dict, by decide, ⟨_, rfl⟩⟩))
  · obtain ⟨a, _, rfl⟩ := map_some_eq h
    exact Or.inr (Or.inr (Or.inr ⟨.contents, by decide, ⟨a, rfl⟩⟩))
  · obtain ⟨a, _, rfl⟩ := map_some_eq h
    exact Or.inr (Or.inr (Or.inr ⟨.rect, by decide, ⟨a, rfl⟩⟩))
  · obtain ⟨a, _, rfl⟩ := map_some_eq h
    exact Or.inr (Or.inr (Or.inr ⟨.dict, by decide, ⟨_, rfl⟩⟩))
  · obtain ⟨a, _, rfl⟩ := map_some_eq h
    exact Or.inr (Or.inr (Or.inr ⟨.number, by decide, ⟨a, rfl⟩⟩))
  · obtain ⟨a, _, rfl⟩ := map_some_eq h
    exact Or.inr (Or.inr (Or.inr ⟨.dict, by decide, ⟨_, rfl⟩⟩))
  · obtain ⟨a, _, rfl⟩ := map_some_eq h
    exact Or.inr (Or.inr (Or.inr ⟨.str, by decide, ⟨a, rfl⟩⟩))
  · obtain ⟨a, _, rfl⟩ := map_some_eq h
    exact Or.inr (Or.inr (Or.inr ⟨.date, by decide, ⟨a, rfl⟩⟩))
  · obtain ⟨a, _, rfl⟩ := map_some_eq h
    exact Or.inr (Or.inr (Or.inr ⟨.rect, by decide, ⟨a, rfl⟩⟩))
  · obtain ⟨a, _, rfl⟩ := map_some_eq h
    exact Or.inr (Or.inr (Or.inr ⟨.stream, by decide, ⟨_, _, _, rfl⟩⟩))
  · obtain ⟨a, _, rfl⟩ := map_some_eq h
    exact Or.inr (Or.inr (Or.inr ⟨.array, by decide, ⟨_, rfl⟩⟩))
  · obtain ⟨a, _, rfl⟩ := map_some_eq h
    exact Or.inr (Or.inr (Or.inr ⟨.number, by decide, ⟨a, rfl⟩⟩))
  · exact Or.inl ⟨rfl, h.symm⟩
  · obtain ⟨a, _, rfl⟩ := map_some_eq h
    exact Or.inr (Or.inr (Or.inr ⟨.dict, by decide, ⟨_, rfl⟩⟩))
  · obtain ⟨a, _, rfl⟩ := map_some_eq h
    exact Or.inr (Or.inr (Or.inr ⟨.dict, by decide, ⟨_, rfl⟩⟩))
  · obtain ⟨a, _, rfl⟩ := map_some_eq h
    exact Or.inr (Or.inr (Or.inr ⟨.resources, by decide, ⟨a, rfl⟩⟩))
  · obtain ⟨a, _, rfl⟩ := map_some_eq h
    exact Or.inr (Or.inr (Or.inr ⟨.int, by decide, ⟨a, rfl⟩⟩))
  · obtain ⟨a, _, rfl⟩ := map_some_eq h
    exact Or.inr (Or.inr (Or.inr ⟨.dict, by decide, ⟨_, rfl⟩⟩))
  · obtain ⟨a, _, rfl⟩ := map_some_eq h
    exact Or.inr (Or.inr (Or.inr ⟨.int, by decide, ⟨a, rfl⟩⟩))
  · obtain ⟨a, _, rfl⟩ := map_some_eq h
    exact Or.inr (Or.inr (Or.inr ⟨(.nameIn tabOrders), by decide, ⟨a.val, a.isLt, rfl⟩⟩))
  · obtain ⟨a, _, rfl⟩ := map_some_eq h
    exact Or.inr (Or.inr (Or.inr ⟨.name, by decide, ⟨a, rfl⟩⟩))
  · obtain ⟨a, _, rfl⟩ := map_some_eq h
    exact Or.inr (Or.inr (Or.inr ⟨.stream, by decide, ⟨_, _, _, rfl⟩⟩))
  · obtain ⟨a, _, rfl⟩ := map_some_eq h
    exact Or.inr (Or.inr (Or.inr ⟨.dict, by decide, ⟨_, rfl⟩⟩))
  · obtain ⟨a, _, rfl⟩ := map_some_eq h
    exact Or.inr (Or.inr (Or.inr ⟨.rect, by decide, ⟨a, rfl⟩⟩))
  · exact Or.inr (Or.inl ⟨rfl, by simpa using h⟩)
  · obtain ⟨a, _, rfl⟩ := map_some_eq h
    exact Or.inr (Or.inr (Or.inr ⟨.number, by decide, ⟨a, rfl⟩⟩))
  · obtain ⟨a, _, rfl⟩ := map_some_eq h
    exact Or.inr (Or.inr (Or.inr ⟨.array, by decide, ⟨_, rfl⟩⟩))

theorem catRows_rv (d : Doc) (k : Bytes) (v : Obj) (h : (k, some v) ∈ catRows d) :
    (k = kPages ∧ v = .ref d.rootId 0) ∨ ∃ vk, (k, vk) ∈ keyTable .catalog ∧ RV d vk v := by
  simp only [catRows, List.mem_cons, Prod.mk.injEq, List.not_mem_nil, or_false] at h
  rcases h with ⟨rfl, h⟩ | ⟨rfl, h⟩ | ⟨rfl, h⟩ | ⟨rfl, h⟩ | ⟨rfl, h⟩ | ⟨rfl, h⟩ | ⟨rfl, h⟩ | ⟨rfl, h⟩ | ⟨rfl, h⟩ | ⟨rfl, h⟩ | ⟨rfl, h⟩ | ⟨rfl, h⟩ | ⟨rfl, h⟩ | ⟨rfl, h⟩ | ⟨rfl, h⟩ | ⟨rfl, h⟩ | ⟨rfl, h⟩ | ⟨rfl, h⟩ | ⟨rfl, h⟩ | ⟨rfl, h⟩ | ⟨rfl, h⟩ | ⟨rfl, h⟩ | ⟨rfl, h⟩ | ⟨rfl, h⟩ | ⟨rfl, h⟩ | ⟨rfl, h⟩ | ⟨rfl, h⟩ | ⟨rfl, h⟩ | ⟨rfl, h⟩ | ⟨rfl, h⟩ | ⟨rfl, h⟩ | ⟨rfl, h⟩
  · obtain ⟨a, _, rfl⟩ := map_some_eq h
    exact Or.inr ⟨.dict, by decide, ⟨_, rfl⟩⟩
  · obtain ⟨a, _, rfl⟩ := map_some_eq h
    exact Or.inr ⟨.arrayOfDict, by decide, ⟨a, rfl⟩⟩
  · obtain ⟨a, _, rfl⟩ := map_some_eq h
    exact Or.inr ⟨.dict, by decide, ⟨_, rfl⟩⟩
  · obtain ⟨a, _, rfl⟩ := map_some_eq h
    exact Or.inr ⟨.dict, by decide, ⟨_, rfl⟩⟩
  · obtain ⟨a, _, rfl⟩ := map_some_eq h
    exact Or.inr ⟨.dict, by decide, ⟨_, rfl⟩⟩
  · obtain ⟨a, _, rfl⟩ := map_some_eq h
    exact Or.inr ⟨.dict, by decide, ⟨_, rfl⟩⟩
  · obtain ⟨a, ha, rfl⟩ := map_some_eq h
    exact Or.inr ⟨.refDict, by decide, ⟨a, rfl, Or.inr ha⟩⟩
  · obtain ⟨a, _, rfl⟩ := map_some_eq h
    exact Or.inr ⟨.dict, by decide, ⟨_, rfl⟩⟩
  · obtain ⟨a, _, rfl⟩ := map_some_eq h
    exact Or.inr ⟨.str, by decide, ⟨a, rfl⟩⟩
  · obtain ⟨a, _, rfl⟩ := map_some_eq h
    exact Or.inr ⟨.dict, by decide, ⟨_, rfl⟩⟩
  · obtain ⟨a, _, rfl⟩ := map_some_eq h
    exact Or.inr ⟨.dict, by decide, ⟨_, rfl⟩⟩
  · obtain ⟨a, ha, rfl⟩ := map_some_eq h
    exact Or.inr ⟨.refStream, by decide, ⟨a, rfl, ha⟩⟩
  · exact Or.inr ⟨.nameDict, by decide, ⟨d.cat, h.symm⟩⟩
  · obtain ⟨a, _, rfl⟩ := map_some_eq h
    exact Or.inr ⟨.bool, by decide, ⟨a, rfl⟩⟩
  · obtain ⟨a, _, rfl⟩ := map_some_eq h
    exact Or.inr ⟨.dict, by decide, ⟨_, rfl⟩⟩
  · obtain ⟨a, _, rfl⟩ := map_some_eq h
    refine Or.inr ⟨.arrayOrDict, by decide, ?_⟩
    cases a
    · exact Or.inr rfl
    · exact Or.inl rfl
  · obtain ⟨a, ha, rfl⟩ := map_some_eq h
    exact Or.inr ⟨.refDict, by decide, ⟨a, rfl, Or.inl ha⟩⟩
  · obtain ⟨a, _, rfl⟩ := map_some_eq h
    exact Or.inr ⟨.array, by decide, ⟨_, rfl⟩⟩
  · obtain ⟨a, _, rfl⟩ := map_some_eq h
    exact Or.inr ⟨.numTree, by decide, ⟨a, rfl⟩⟩
  · obtain ⟨a, _, rfl⟩ := map_some_eq h
    exact Or.inr ⟨(.nameIn pageLayouts), by decide, ⟨a.val, a.isLt, rfl⟩⟩
  · obtain ⟨a, _, rfl⟩ := map_some_eq h
    exact Or.inr ⟨(.nameIn pageModes), by decide, ⟨a.val, a.isLt, rfl⟩⟩
  · exact Or.inl ⟨rfl, by simpa using h⟩
  · obtain ⟨a, _, rfl⟩ := map_some_eq h
    exact Or.inr ⟨.dict, by decide, ⟨_, rfl⟩⟩
  · obtain ⟨a, _, rfl⟩ := map_some_eq h
    exact Or.inr ⟨.dict, by decide, ⟨_, rfl⟩⟩
  · obtain ⟨a, _, rfl⟩ := map_some_eq h
    exact Or.inr ⟨.array, by decide, ⟨_, rfl⟩⟩
  · obtain ⟨a, _, rfl⟩ := map_some_eq h
    exact Or.inr ⟨.dict, by decide, ⟨_, rfl⟩⟩
  · obtain ⟨a, _, rfl⟩ := map_some_eq h
    exact Or.inr ⟨.dict, by decide, ⟨_, rfl⟩⟩
  · obtain ⟨a, _, rfl⟩ := map_some_eq h
    exact Or.inr ⟨.array, by decide, ⟨_, rfl⟩⟩
  · exact Or.inr ⟨.nameIs nCatalog, by decide, by simpa [RV] using h⟩
  · obtain ⟨a, _, rfl⟩ := map_some_eq h
    exact Or.inr ⟨.dict, by decide, ⟨_, rfl⟩⟩
  · obtain ⟨a, _, rfl⟩ := map_some_eq h
    exact Or.inr ⟨.name, by decide, ⟨a, rfl⟩⟩
  · obtain ⟨a, _, rfl⟩ := map_some_eq h
    exact Or.inr ⟨.dict, by decide, ⟨_, rfl⟩⟩

/-! ### the invariant is closed under one unfolding -/

theorem mem_rawChks_page (b : Bool) : pageC b ∈ rawChks .page := by
  cases b
  · exact List.mem_cons_of_mem _ List.mem_cons_self
  · exact List.mem_cons_self

theorem mem_rawChks_tmpl (b : Bool) : tmplC b ∈ rawChks .tmpl := by
  cases b
  · exact List.mem_cons_of_mem _ List.mem_cons_self
  · exact List.mem_cons_self

theorem get_row_isSome (L : List (Bytes × Option Obj)) (hnd : (L.map (·.1)).Nodup) (k : Bytes) (v : Obj)
    (h : (k, some v) ∈ L) : ((dictOfList (optPairs L)).get k).isSome = true := by
  rw [get_rows L hnd k (some v) h]; rfl

theorem S'_closed (g : Graph) (d : Doc) (hdate : ∀ s, CatalogRules.isDate s = PdfDate.dateOK s)
    (hroot : g.lookup (d.rootId, 0) = some (nodeDict d.count d.kids none))
    (hlook : ∀ b p n, Sub d b p n → g.lookup (n.id, 0) = some (n.dict p))
    (houtl : ∀ i, (d.cat.outlines = some i ∨ d.cat.x.dests = some i) → g.lookup (i, 0) = some (.dict .nil))
    (hmeta : ∀ i, d.cat.metadata = some i → g.lookup (i, 0) = some (.stream .nil 0 [])) :
    ∀ o c, S' d o c → ∀ f : Obj → Chk → Bool, (∀ o' c', S' d o' c' → f o' c' = true) →
      confStep g shippedCtx f o c = true := by
  intro o c hS f hf
  cases hS with
  | cat =>
    rw [catalogDict_eq]
    refine conf_dict g shippedCtx f _ .null shippedCat _ _ _ F_dicts.1 (value_nonref g _ rfl) rfl rfl
      F_nodup.1 (req_mono _ _ _ F_req.1 ?_) (hval_list f _ _ ?_)
    · intro k hk
      simp only [List.mem_cons, List.not_mem_nil, or_false] at hk
      rcases hk with rfl | rfl
      · exact get_row_isSome _ (catRows_nodup d) _ (.ref d.rootId 0) (by simp [catRows])
      · exact get_row_isSome _ (catRows_nodup d) _ (.name nCatalog) (by simp [catRows])
    · intro kv hkv
      obtain ⟨k, v⟩ := kv
      rw [mem_optPairs] at hkv
      rcases catRows_rv d k v hkv with ⟨rfl, rfl⟩ | ⟨vk, hvk, hrv⟩
      · exact ⟨_, _, F_find.1, by decide, hf _ _ S'.catPages⟩
      · exact menu_entry d f hf .catalog shippedCat List.mem_cons_self k vk hvk v hrv
  | catPages =>
    have hv : value g (.ref d.rootId 0) = nodeDict d.count d.kids none := value_ref g _ _ _ hroot rfl
    rw [nodeDict_eq] at hv
    refine conf_dict g shippedCtx f _ .null rootR _ _ _ F_dicts.2.1 hv rfl rfl
      F_nodup.2.1 (req_mono _ _ _ F_req.2.1 ?_) (hval_list f _ _ ?_)
    · intro k hk
      simp only [List.mem_cons, List.not_mem_nil, or_false] at hk
      rcases hk with rfl | rfl | rfl
      · exact get_row_isSome _ (nodeRows_nodup _ _ _) _ (.int d.count) (by simp [nodeRows])
      · exact get_row_isSome _ (nodeRows_nodup _ _ _) _ (.arr (arrOf d.kids.refs))
          (by simp [nodeRows, show TC.kKids = CatalogRules.kKids from rfl])
      · exact get_row_isSome _ (nodeRows_nodup _ _ _) _ (.name kPages) (by simp [nodeRows])
    · intro kv hkv
      obtain ⟨k, v⟩ := kv
      rw [mem_optPairs] at hkv
      simp only [nodeRows, List.mem_cons, Prod.mk.injEq, List.not_mem_nil, or_false] at hkv
      rcases hkv with ⟨rfl, h⟩ | ⟨rfl, h⟩ | ⟨rfl, h⟩ | ⟨rfl, h⟩
      · exact menu_entry d f hf .root rootR List.mem_cons_self _ .int (by simp [keyTable]) v
          ⟨d.count, by simpa using h⟩
      · have h : v = .arr (arrOf d.kids.refs) := by simpa using h
        subst h
        exact ⟨_, _, F_find.2.2.2.2.1, by decide, hf _ _ S'.rootKids⟩
      · simp at h
      · exact menu_entry d f hf .root rootR List.mem_cons_self _ (.nameIs kPages) (by simp [keyTable]) v
          (by simpa [RV] using h)
  | rootKids =>
    refine conf_array g shippedCtx f _ kidsRR _ _ _ F_arrays.1 (value_nonref g _ rfl) rfl rfl ?_
    intro x hx
    rcases refs_vals d.kids x hx with ⟨n, hn, rfl⟩
    exact hf _ _ (S'.kid true d.rootId n (Sub.top n hn))
  | kid b p n hsub =>
    have hF := F_arrays.2.2.2 b
    refine conf_disj g shippedCtx f _ (kidC b) _ _ (altFor b n) (F_arrays.2.2.1 b) rfl rfl ?_
      (hf _ _ (S'.alt b p n hsub))
    cases n with
    | page i o => exact hF.1
    | tmpl i o => exact hF.2.1
    | pages i c k => exact hF.2.2
  | alt b p n hsub =>
    have hl := hlook b p n hsub
    cases n with
    | page i o =>
      have hv : value g (.ref i 0) = _ := value_ref g _ _ _ hl rfl
      simp only [Node.dict] at hv
      rw [pageDict_eq] at hv
      refine conf_dict g shippedCtx f _ .null (pageC b) _ _ _ (F_dicts.2.2.2.1 b) hv rfl rfl
        (F_nodup.2.2.2.1 b) (req_mono _ _ _ (F_req.2.2.2.1 b) ?_) (hval_list f _ _ ?_)
      · intro k hk
        simp only [List.mem_cons, List.not_mem_nil, or_false] at hk
        rcases hk with rfl | rfl
        · exact get_row_isSome _ (pageRows_nodup _ _ _) _ (.ref p 0) (by simp [pageRows])
        · exact get_row_isSome _ (pageRows_nodup _ _ _) _ (.name nPage) (by simp [pageRows])
      · intro kv hkv
        obtain ⟨k, v⟩ := kv
        rw [mem_optPairs] at hkv
        rcases pageRows_rv d o _ _ k v hkv with ⟨rfl, h⟩ | ⟨rfl, rfl⟩ | ⟨rfl, _, hrv⟩ | ⟨vk, hvk, hrv⟩
        · exact menu_entry d f hf .page (pageC b) (mem_rawChks_page b) _ .parentRef (by simp [keyTable]) v
            ⟨p, by simpa using h.symm⟩
        · exact menu_entry d f hf .page (pageC b) (mem_rawChks_page b) _ (.nameIs nPage) (by simp [keyTable]) _ rfl
        · exact menu_entry d f hf .page (pageC b) (mem_rawChks_page b) _ .array (by simp [keyTable]) v hrv
        · exact menu_entry d f hf .page (pageC b) (mem_rawChks_page b) k vk
            (by simp only [keyTable]; exact List.mem_append_right _ hvk) v hrv
    | tmpl i o =>
      have hv : value g (.ref i 0) = _ := value_ref g _ _ _ hl rfl
      simp only [Node.dict] at hv
      rw [pageDict_eq] at hv
      refine conf_dict g shippedCtx f _ .null (tmplC b) _ _ _ (F_dicts.2.2.2.2 b) hv rfl rfl
        (F_nodup.2.2.2.2 b) (req_mono _ _ _ (F_req.2.2.2.2 b) ?_) (hval_list f _ _ ?_)
      · intro k hk
        simp only [List.mem_cons, List.not_mem_nil, or_false] at hk
        subst hk
        exact get_row_isSome _ (pageRows_nodup _ _ _) _ (.name nTemplate) (by simp [pageRows])
      · intro kv hkv
        obtain ⟨k, v⟩ := kv
        rw [mem_optPairs] at hkv
        rcases pageRows_rv d o _ _ k v hkv with ⟨rfl, h⟩ | ⟨rfl, rfl⟩ | ⟨_, ht, _⟩ | ⟨vk, hvk, hrv⟩
        · simp at h
        · exact menu_entry d f hf .tmpl (tmplC b) (mem_rawChks_tmpl b) _ (.nameIs nTemplate) (by simp [keyTable]) _
            rfl
        · exact absurd ht (by decide)
        · exact menu_entry d f hf .tmpl (tmplC b) (mem_rawChks_tmpl b) k vk
            (by simp only [keyTable]; exact List.mem_append_right _ hvk) v hrv
    | pages i c k =>
      have hv : value g (.ref i 0) = _ := value_ref g _ _ _ hl rfl
      simp only [Node.dict] at hv
      rw [nodeDict_eq] at hv
      refine conf_dict g shippedCtx f _ .null (nodeAlt b) _ _ _ (F_dicts.2.2.1 b) hv rfl rfl
        F_nodup.2.2.1 (req_mono _ _ _ F_req.2.2.1 ?_) (hval_list f _ _ ?_)
      · intro k' hk
        simp only [List.mem_cons, List.not_mem_nil, or_false] at hk
        rcases hk with rfl | rfl | rfl | rfl
        · exact get_row_isSome _ (nodeRows_nodup _ _ _) _ (.int c) (by simp [nodeRows])
        · exact get_row_isSome _ (nodeRows_nodup _ _ _) _ (.arr (arrOf k.refs))
            (by simp [nodeRows, show TC.kKids = CatalogRules.kKids from rfl])
        · exact get_row_isSome _ (nodeRows_nodup _ _ _) _ (.ref p 0) (by simp [nodeRows])
        · exact get_row_isSome _ (nodeRows_nodup _ _ _) _ (.name kPages) (by simp [nodeRows])
      · intro kv hkv
        obtain ⟨k', v⟩ := kv
        rw [mem_optPairs] at hkv
        simp only [nodeRows, List.mem_cons, Prod.mk.injEq, List.not_mem_nil, or_false] at hkv
        rcases hkv with ⟨rfl, h⟩ | ⟨rfl, h⟩ | ⟨rfl, h⟩ | ⟨rfl, h⟩
        · exact menu_entry d f hf .node nodeR List.mem_cons_self _ .int (by simp [keyTable]) v
            ⟨c, by simpa using h⟩
        · have h : v = .arr (arrOf k.refs) := by simpa using h
          subst h
          exact ⟨_, _, F_find.2.2.2.2.2.2.2.1, by decide, hf _ _ (S'.nodeKids b p i c k hsub)⟩
        · exact menu_entry d f hf .node nodeR List.mem_cons_self _ .parentRef (by simp [keyTable]) v
            ⟨p, by simpa using h⟩
        · exact menu_entry d f hf .node nodeR List.mem_cons_self _ (.nameIs kPages) (by simp [keyTable]) v
            (by simpa [RV] using h)
  | nodeKids b p i c kids hsub =>
    refine conf_array g shippedCtx f _ kidsNR _ _ _ F_arrays.2.1 (value_nonref g _ rfl) rfl rfl ?_
    intro x hx
    rcases refs_vals kids x hx with ⟨n, hn, rfl⟩
    exact hf _ _ (S'.kid false i n (Sub.deep b p i c kids n hsub hn))
  | menu vk v' c' hk hrv => exact menu_closed g d hdate houtl hmeta vk _ _ hk hrv f hf
  | real n m => exact conf_prim g shippedCtx f _ _ Attr.dflt .real rfl rfl rfl
  | anyElem =>
    rw [confStep_eq g shippedCtx f _ (.any Attr.dflt) _ rfl]
    rfl
  | streamArr l =>
    refine conf_array g shippedCtx f _ _ _ _ _ rfl (value_nonref g _ rfl) rfl rfl ?_
    intro x hx
    rw [arrOf_vals] at hx
    obtain ⟨sv, _, rfl⟩ := List.mem_map.mp hx
    exact hf _ _ (S'.menu .stream _ _ (by decide +kernel) ⟨_, _, _, rfl⟩)
  | nameTree t c' h =>
    refine conf_isAny g f _ _ _ h (tree_isRef _ _ t) ?_
    rw [← name_tree_rule_eq_shipped]
    exact tree_obj_str t

/-! ### the theorem -/

/-- the statement relative to the one fact it needs about dates: the rules' date grammar (in which every rendered
    date lies, `date_bytes_isDate`) is contained in the model of the shipped `DateStringPredicate` -/
theorem rendered_conforms_of_date (hdate : ∀ s, CatalogRules.isDate s = PdfDate.dateOK s) (d : Doc)
    (hok : d.ok = true) :
    Conforms (CatalogRules.render d).1 shippedCtx (CatalogRules.render d).2 shippedCat :=
  conforms_of_invariant _ shippedCtx (S' d)
    (S'_closed d.graph d hdate (graph_lookup_root d) (graph_lookup_sub d hok)
      (fun i hi => hi.elim (graph_lookup_outlines d hok i) (graph_lookup_dests d hok i))
      (graph_lookup_metadata d hok)) _ _ S'.cat

/-- For EVERY well-formed document -- any shape, fan-out and depth of the page tree, any object numbers and /Count
    values, and ANY optional entries from the menu of Spec/CatalogRules.lean on the catalog, on every page and on
    every template -- the rendered catalog conforms to the regenerated shipped specification. -/
theorem rendered_conforms (d : Doc) (hok : d.ok = true) :
    Conforms (CatalogRules.render d).1 shippedCtx (CatalogRules.render d).2 shippedCat :=
  rendered_conforms_of_date date_recogniser_eq_regex_shape d hok

/-! ### non-vacuity: a document with ALL optional entries on the catalog, on a page and on a template
  (`exDocFull` of Spec/CatalogRules.lean = the third document of `fixedDocs` in Driver/C10.lean): EVERY entry of the
  shipped catalog, page and template types, the ten name trees, the eight /Resources entries -/

def wDocFull : Doc := CatalogRules.exDocFull

example : Conforms (CatalogRules.render wDocFull).1 shippedCtx (CatalogRules.render wDocFull).2 shippedCat :=
  rendered_conforms wDocFull (by decide)

/-- the witness really carries the optional entries, and the executable reading agrees at a finite depth -/
example :
    (match (CatalogRules.render wDocFull).2 with | .dict kvs => kvs.keys.length | _ => 0) = 32 ∧
    (match Graph.lookup (CatalogRules.render wDocFull).1 (2, 0) with
      | some (.dict kvs) => kvs.keys.length | _ => 0) = 33 ∧
    (match Graph.lookup (CatalogRules.render wDocFull).1 (3, 0) with
      | some (.dict kvs) => kvs.keys.length | _ => 0) = 31 ∧
    conf (CatalogRules.render wDocFull).1 shippedCtx 30 (CatalogRules.render wDocFull).2 shippedCat = true := by
  decide +kernel

/-- the rendered dictionaries list their keys in byte order (the order of the crate's BTreeMap): catalog, its /Names,
    the page and the template with every entry, the page's /Resources -/
def sortedB : List Bytes → Bool
  | a :: b :: t => CatalogRules.bytesLt a b && sortedB (b :: t)
  | _ => true

def keysSorted : Option Obj → Bool
  | some (.dict kvs) => sortedB kvs.keys
  | _ => false

def entryOf (o : Option Obj) (k : Bytes) : Option Obj :=
  match o with
  | some (.dict kvs) => kvs.get k
  | _ => none

example :
    keysSorted (some (CatalogRules.render wDocFull).2) = true ∧
    keysSorted (entryOf (some (CatalogRules.render wDocFull).2) CatalogRules.kNames) = true ∧
    keysSorted (Graph.lookup (CatalogRules.render wDocFull).1 (2, 0)) = true ∧
    keysSorted (Graph.lookup (CatalogRules.render wDocFull).1 (3, 0)) = true ∧
    keysSorted (entryOf (Graph.lookup (CatalogRules.render wDocFull).1 (2, 0)) CatalogRules.kResources) = true ∧
    (match entryOf (some (CatalogRules.render wDocFull).2) CatalogRules.kNames with
      | some (.dict kvs) => kvs.keys.length | _ => 0) = 10 ∧
    (match entryOf (Graph.lookup (CatalogRules.render wDocFull).1 (2, 0)) CatalogRules.kResources with
      | some (.dict kvs) => kvs.keys.length | _ => 0) = 8 := by
  decide +kernel

end Parsley.C10
