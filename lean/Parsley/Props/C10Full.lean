/-
  C10, acceptance half for ALL documents: `rendered_conforms` -- for every well-formed document of
  Spec/CatalogRules.lean, WITH any optional entries of the menu on the catalog, on every page and on every
  template, the rendered catalog conforms (declarative reading, Spec/Conforms.lean) to the regenerated shipped
  specification.  Generalises `rendered_conforms_partial` of Props/C10.lean (documents without optional entries).

  Method: the invariant `S'` (pairs object / check that occur when the rendered catalog is unfolded against the
  shipped type) is closed under one unfolding (`S'_closed`); `conforms_of_invariant` concludes.  The values of
  the menu enter the invariant through ONE constructor `S'.menu vk v c`: `v` is a rendered value of the rules'
  value kind `vk` (`RV`) and the shipped check `c` has the shape of that kind (`kindMatches`, known for every key
  of the rules' tables by the closed fact `F_kind` about the regenerated term).
-/
import Parsley.Props.C10
import Parsley.Lemmas.CatalogDicts
import Parsley.Lemmas.CatalogValues
namespace Parsley.C10
open Parsley Parsley.TC Parsley.TC.Spec
open Parsley.CatalogRules (Doc Node Nodes PageOpts CatOpts kType kPages kCount kParent kMediaBox
  pageDict nodeDict catalogDict arrOf optEnt DictKind ValKind keyTable requiredKeys pageMenu
  kCropBox kLastModified kRotate kTabs kUserUnit kID kAnnots kVersion kPageMode kPageLayout kLang kNeedsRendering
  kPageLabels kDests kEmbeddedFiles kOutlines kMetadata kOpenAction nCatalog nPage nTemplate pageModes pageLayouts
  tabOrders nameAt Rect Num Date Tree namesDict kNamesKey strObj)

/-! ### generic unfolding lemmas (any graph, the shipped context) -/

theorem eval_untag : ∀ (p : Pred) (o : Obj), Pred.eval p o = Pred.eval (untag p) o
  | .tagged _ p, o => by
    have ih := eval_untag p o
    simpa [untag, Pred.eval] using ih
  | .choice _, _ => rfl
  | .refArray, _ => rfl
  | .never, _ => rfl
  | .always, _ => rfl
  | .nameTree, _ => rfl
  | .numTree _, _ => rfl
  | .date, _ => rfl

theorem predOK_of_untag (q : Option Pred) (p : Pred) (o : Obj) (h : q.map untag = some p) (hp : p.eval o = true) :
    predOK q o = true := by
  cases q with
  | none => simp at h
  | some q =>
    simp only [Option.map_some, Option.some.injEq] at h
    simp only [predOK]
    rw [eval_untag, h]; exact hp

/-- a primitive check with an (untagged) predicate `p`, found behind `res` -/
theorem conf_isPrim (g : Graph) (f : Obj → Chk → Bool) (o : Obj) (c : Chk) (t : Prim) (p : Pred)
    (h : isPrim (res c) t .allowed (some p) = true) (hnr : o.isRef = false)
    (hp : p.eval o = true) (ht : primOK o t = true) : confStep g shippedCtx f o c = true := by
  cases hr : res c with
  | prim a t' =>
    rw [hr] at h
    simp only [isPrim, Bool.and_eq_true, decide_eq_true_eq] at h
    obtain ⟨⟨h1, h2⟩, h3⟩ := h
    subst h1
    have hres := resolve_of_res c _ hr (by intro n; simp)
    refine conf_prim g shippedCtx f o c a t' hres hnr ?_
    rw [h2, predOK_of_untag a.pred p o h3 hp, ht]; rfl
  | _ => rw [hr] at h; simp [isPrim] at h

/-- an `any` check with an (untagged) predicate `p`, found behind `res` -/
theorem conf_isAny (g : Graph) (f : Obj → Chk → Bool) (o : Obj) (c : Chk) (p : Pred)
    (h : isAny (res c) .allowed (some p) = true) (hnr : o.isRef = false)
    (hp : p.eval o = true) : confStep g shippedCtx f o c = true := by
  cases hr : res c with
  | any a =>
    rw [hr] at h
    simp only [isAny, Bool.and_eq_true, decide_eq_true_eq] at h
    obtain ⟨h2, h3⟩ := h
    have hres := resolve_of_res c _ hr (by intro n; simp)
    rw [confStep_eq g shippedCtx f o c _ hres, value_nonref g o hnr]
    simp only [Chk.attr, h2, indOK, predOK_of_untag a.pred p o h3 hp, shapeOK, Bool.and_self]
  | _ => rw [hr] at h; simp [isAny] at h

/-- a primitive check without attributes, found behind `res` -/
theorem conf_resPrim (g : Graph) (f : Obj → Chk → Bool) (o : Obj) (c : Chk) (t : Prim)
    (h : res c = .prim Attr.dflt t) (hnr : o.isRef = false) (ht : primOK o t = true) :
    confStep g shippedCtx f o c = true := by
  have hres := resolve_of_res c _ h (by intro n; simp)
  refine conf_prim g shippedCtx f o c _ t hres hnr ?_
  rw [ht]; rfl

theorem conf_array_sized (g : Graph) (ctx : Ctx) (f : Obj → Chk → Bool) (o : Obj) (chk : Chk) (a : Attr) (e : Chk)
    (xs : ObjL) (n : Nat)
    (hres : resolve ctx chk = some (.array a e (some n))) (hv : value g o = .arr xs)
    (hi : indOK o a.ind = true) (hp : a.pred = none) (hlen : xs.vals.length = n)
    (hall : ∀ x ∈ xs.vals, f x e = true) :
    confStep g ctx f o chk = true := by
  rw [confStep_eq g ctx f o chk _ hres]
  simp only [Chk.attr, hi, hp, predOK, hv, shapeOK, hlen, decide_true, Bool.true_and, List.all_eq_true]
  exact hall

theorem conf_stream_nil (g : Graph) (ctx : Ctx) (f : Obj → Chk → Bool) (o : Obj) (chk : Chk) (a : Attr)
    (kvs : ObjL) (s : Nat) (bs : Bytes)
    (hres : resolve ctx chk = some (.stream a .nil)) (hv : value g o = .stream kvs s bs)
    (hi : indOK o a.ind = true) (hp : a.pred = none) :
    confStep g ctx f o chk = true := by
  rw [confStep_eq g ctx f o chk _ hres]
  simp [Chk.attr, hi, hp, predOK, hv, shapeOK, ChkL.toList]

theorem conf_dict_nil (g : Graph) (ctx : Ctx) (f : Obj → Chk → Bool) (o : Obj) (chk : Chk) (a : Attr)
    (kvs : ObjL)
    (hres : resolve ctx chk = some (.dict a .nil)) (hv : value g o = .dict kvs)
    (hi : indOK o a.ind = true) (hp : a.pred = none) :
    confStep g ctx f o chk = true := by
  rw [confStep_eq g ctx f o chk _ hres]
  simp [Chk.attr, hi, hp, predOK, hv, shapeOK, ChkL.toList]

/-- the required keys of a dictionary type are present when each key of a list covering them is -/
theorem req_mono (ents : ChkL) (ks : List Bytes) (kvs : ObjL)
    (h : (ents.toList.all fun e => e.2.1 != .required || ks.contains e.1) = true)
    (hk : ∀ k ∈ ks, (kvs.get k).isSome = true) :
    (ents.toList.all fun e => e.2.1 != .required || kvs.keys.contains e.1) = true := by
  rw [List.all_eq_true] at h ⊢
  intro e he
  have := h e he
  simp only [Bool.or_eq_true] at this ⊢
  rcases this with h1 | h2
  · exact Or.inl h1
  · refine Or.inr ?_
    rw [← ObjL.get_isSome_keys]
    exact hk e.1 (by simpa using h2)

theorem map_some_eq {α : Type} {fn : α → Obj} {x : Option α} {v : Obj} (h : some v = x.map fn) :
    ∃ a, x = some a ∧ v = fn a := by
  cases x with
  | none => simp at h
  | some a => exact ⟨a, rfl, by simpa using h⟩

theorem names_eval (l : List Bytes) (i : Nat) (h : i < l.length) : (names l).eval (nameAt l i) = true := by
  simp only [names, Pred.eval, nameAt, List.any_eq_true, List.mem_map, decide_eq_true_eq]
  refine ⟨_, ⟨l[i], List.getElem_mem h, rfl⟩, ?_⟩
  simp [List.getD, List.getElem?_eq_getElem h]

end Parsley.C10
