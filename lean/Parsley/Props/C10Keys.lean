/-
  C10 -- the EXACT entry tables of every dictionary type of the regenerated shipped specification.

  Parsley/Gen/CatalogSpec.lean is rewritten from the real `catalog_type(&mut tctx)` on every run, so a change of
  the Rust constructors reaches these theorems: for each dictionary type (catalog, root of the page tree, inner
  page-tree node, page, template, resources, name dictionary) `shipped_<type>_entries` states the exact list of
      (key, required | optional | forbidden, kind of check)
  in the order of the Rust `vec![..]`, and is proved by kernel evaluation of the structural summary `entries` on the
  regenerated term.  An entry that is removed, added, moved to another key, made required/optional/forbidden, or
  given another check breaks the proof obligation (`./check C10` reports the broken obligation; the generator of
  Driver/C10.lean supplies the failing input for the page, node, root, template and catalog types).

  `Kind` is the check with (a) the identity tags of predicate objects removed, (b) every NESTED dictionary or stream
  type reduced to its list of keys (its own `_entries` theorem pins its entries; a generic dictionary has no keys),
  (c) a name resolved one step in the shipped context when it denotes a dictionary type (the recursion of the page
  tree goes through the name "root-non-page-tree").  Everything else -- primitive type, predicate, indirection
  requirement, array element, array size, alternatives of a disjunction -- is kept.

  `shipped_dict_types` closes the list: EVERY dictionary / stream type that occurs anywhere in the regenerated
  catalog term or in a check registered in the context has one of the entry tables stated here.
-/
import Parsley.Props.C10
namespace Parsley.C10
open Parsley Parsley.TC

/-! ### the summary -/

mutual
inductive Kind where
  | named (n : String)
  | any (a : Attr)
  | prim (a : Attr) (p : Prim)
  | array (a : Attr) (elem : Kind) (size : Option Nat)
  | het (a : Attr) (elems : KindL)
  | dict (a : Attr) (keys : List Bytes)
  | dictStar (a : Attr) (keys : List Bytes) (sopt : KeySpec) (schk : Kind)
  | stream (a : Attr) (keys : List Bytes)
  | disj (a : Attr) (alts : KindL)
inductive KindL where
  | nil
  | cons (k : Kind) (t : KindL)
end
deriving instance DecidableEq for Kind, KindL
deriving instance Repr for Kind, KindL

def untagA (a : Attr) : Attr := ⟨a.pred.map untag, a.ind⟩

def keysOf : ChkL → List Bytes
  | .nil => []
  | .cons k _ _ t => k :: keysOf t

mutual
def kindOf : Chk → Kind
  | .named n =>
    match shippedCtx.lookup n with
    | some (.dict a es) => .dict (untagA a) (keysOf es)
    | some (.stream a es) => .stream (untagA a) (keysOf es)
    | _ => .named n
  | .any a => .any (untagA a)
  | .prim a p => .prim (untagA a) p
  | .array a e sz => .array (untagA a) (kindOf e) sz
  | .het a es => .het (untagA a) (kindsOf es)
  | .dict a es => .dict (untagA a) (keysOf es)
  | .dictStar a es so sc => .dictStar (untagA a) (keysOf es) so (kindOf sc)
  | .stream a es => .stream (untagA a) (keysOf es)
  | .disj a os => .disj (untagA a) (kindsOf os)
def kindsOf : ChkL → KindL
  | .nil => .nil
  | .cons _ _ c t => .cons (kindOf c) (kindsOf t)
end

abbrev Entry := Bytes × KeySpec × Kind

def entriesL : ChkL → List Entry
  | .nil => []
  | .cons k o c t => (k, o, kindOf c) :: entriesL t

/-- the entry table of a dictionary (or stream) type -/
def entries (c : Chk) : List Entry := entriesL (entsOf (res c))

/-! ### the kinds that occur, by name -/

/-- ASCII key -/
def asc (s : String) : Bytes := s.toList.map fun c => UInt8.ofNat c.toNat

def altsK : List Kind → KindL
  | [] => .nil
  | k :: t => .cons k (altsK t)

def kAnyK : Kind := .any Attr.dflt
/-- a name out of a list (ChoicePred) -/
def kNameOf (l : List Bytes) : Kind := .prim ⟨some (names l), .allowed⟩ .name
def kNameK : Kind := .prim Attr.dflt .name
def kStrK : Kind := .prim Attr.dflt .string
def kBoolK : Kind := .prim Attr.dflt .bool
def kIntK : Kind := .prim Attr.dflt .integer
def kRealK : Kind := .prim Attr.dflt .real
/-- integer | real -/
def kNumberK : Kind := .disj Attr.dflt (altsK [kIntK, kRealK])
/-- array of exactly four numbers -/
def kRectK : Kind := .array Attr.dflt kNumberK (some 4)
/-- string + DateStringPredicate -/
def kDateK : Kind := .prim ⟨some .date, .allowed⟩ .string
/-- any array -/
def kArrayK : Kind := .array Attr.dflt kAnyK none
/-- any dictionary (no entries declared), direct or by reference -/
def kDictK : Kind := .dict Attr.dflt []
/-- any dictionary, by reference only -/
def kRefDictK : Kind := .dict ⟨none, .required⟩ []
def kStreamK : Kind := .stream Attr.dflt []
def kRefStreamK : Kind := .stream ⟨none, .required⟩ []
def kArrayOfDictK : Kind := .array Attr.dflt kDictK none
/-- a stream | an array of streams -/
def kContentsK : Kind := .disj Attr.dflt (altsK [kStreamK, .array Attr.dflt kStreamK none])
/-- array | dictionary -/
def kArrayOrDictK : Kind := .disj Attr.dflt (altsK [kArrayK, kDictK])
/-- anything, by reference only (/Parent) -/
def kParentK : Kind := .any ⟨none, .required⟩
/-- NameTreePredicate / NumberTreePredicate (reading /Nums) on any object -/
def kNameTreeK : Kind := .any ⟨some .nameTree, .allowed⟩
def kNumTreeK : Kind := .any ⟨some (.numTree TC.kNums), .allowed⟩

def resourcesKeys : List Bytes :=
  [asc "ExtGState", asc "ColorSpace", asc "Pattern", asc "Shading", asc "XObject", asc "Font", asc "ProcSet",
   asc "Properties"]

def nameDictKeys : List Bytes :=
  [asc "Dests", asc "AP", asc "JavaScript", asc "Pages", asc "Templates", asc "IDS", asc "URLS",
   asc "AlternatePresentations", asc "EmbeddedFiles", asc "Renditions"]

/-- the thirty entries shared by pages and templates (`mk_generic_page_entries`) -/
def genericPageEntries : List Entry :=
  [(asc "LastModified", .optional, kDateK),
   (asc "Resources", .optional, .dict Attr.dflt resourcesKeys),
   (asc "MediaBox", .optional, kRectK), (asc "CropBox", .optional, kRectK), (asc "BleedBox", .optional, kRectK),
   (asc "TrimBox", .optional, kRectK), (asc "ArtBox", .optional, kRectK),
   (asc "BoxColorInfo", .optional, kDictK),
   (asc "Contents", .optional, kContentsK),
   (asc "Rotate", .optional, kIntK),
   (asc "Group", .optional, kDictK),
   (asc "Thumb", .optional, kStreamK),
   (asc "Dur", .optional, kNumberK),
   (asc "Trans", .optional, kDictK),
   (asc "Annots", .optional, kArrayK),
   (asc "AA", .optional, kDictK),
   (asc "Metadata", .optional, kStreamK),
   (asc "PieceInfo", .optional, kDictK),
   (asc "StructParents", .optional, kIntK),
   (asc "ID", .optional, kStrK),
   (asc "PZ", .optional, kNumberK),
   (asc "SeparationInfo", .optional, kDictK),
   (asc "Tabs", .optional, kNameOf CatalogRules.tabOrders),
   (asc "TemplateInstantiated", .optional, kNameK),
   (asc "PresSteps", .optional, kDictK),
   (asc "UserUnit", .optional, kNumberK),
   (asc "VP", .optional, kArrayK),
   (asc "AF", .optional, kArrayOfDictK),
   (asc "OutputIntents", .optional, kArrayK),
   (asc "DPart", .optional, kDictK)]

def pageEntries : List Entry :=
  [(asc "Type", .required, kNameOf [asc "Page"]), (asc "Parent", .required, kParentK), (asc "B", .optional, kArrayK)]
    ++ genericPageEntries

def templateEntries : List Entry :=
  [(asc "Type", .required, kNameOf [asc "Template"]), (asc "Parent", .forbidden, kParentK)] ++ genericPageEntries

def pageKeys : List Bytes := pageEntries.map (·.1)
def templateKeys : List Bytes := templateEntries.map (·.1)
def nodeKeys : List Bytes := [asc "Type", asc "Count", asc "Kids", asc "Parent"]

/-- below the root: page | node | template; below an inner node: page | node | template in the order of
    `non_root_page_tree` (node second there as well) -/
def kidKindTop : Kind :=
  .disj ⟨none, .required⟩ (altsK [.dict Attr.dflt nodeKeys, .dict Attr.dflt pageKeys, .dict Attr.dflt templateKeys])
def kidKindInner : Kind :=
  .disj ⟨none, .required⟩ (altsK [.dict Attr.dflt pageKeys, .dict Attr.dflt nodeKeys, .dict Attr.dflt templateKeys])

def rootEntries : List Entry :=
  [(asc "Type", .required, kNameOf [asc "Pages"]), (asc "Count", .required, kIntK),
   (asc "Kids", .required, .array Attr.dflt kidKindTop none), (asc "Parent", .forbidden, kParentK)]

def nodeEntries : List Entry :=
  [(asc "Type", .required, kNameOf [asc "Pages"]), (asc "Count", .required, kIntK),
   (asc "Kids", .required, .array Attr.dflt kidKindInner none), (asc "Parent", .required, kParentK)]

def resourcesEntries : List Entry :=
  [(asc "ExtGState", .optional, kDictK), (asc "ColorSpace", .optional, kDictK), (asc "Pattern", .optional, kDictK),
   (asc "Shading", .optional, kDictK), (asc "XObject", .optional, kDictK), (asc "Font", .optional, kDictK),
   (asc "ProcSet", .optional, kArrayK), (asc "Properties", .optional, kDictK)]

def nameDictEntries : List Entry := nameDictKeys.map fun k => (k, .optional, kNameTreeK)

def catalogEntries : List Entry :=
  [(asc "Type", .required, kNameOf [asc "Catalog"]),
   (asc "Version", .optional, kNameK),
   (asc "Extensions", .optional, kDictK),
   (asc "Pages", .required, .dict Attr.dflt nodeKeys),
   (asc "PageLabels", .optional, kNumTreeK),
   (asc "Names", .optional, .dict Attr.dflt nameDictKeys),
   (asc "Dests", .optional, kRefDictK),
   (asc "ViewerPreferences", .optional, kDictK),
   (asc "PageLayout", .optional, kNameOf CatalogRules.pageLayouts),
   (asc "PageMode", .optional, kNameOf CatalogRules.pageModes),
   (asc "Outlines", .optional, kRefDictK),
   (asc "Threads", .optional, kArrayK),
   (asc "OpenAction", .optional, kArrayOrDictK),
   (asc "AA", .optional, kDictK),
   (asc "URI", .optional, kDictK),
   (asc "AcroForm", .optional, kDictK),
   (asc "Metadata", .optional, kRefStreamK),
   (asc "StructTreeRoot", .optional, kDictK),
   (asc "MarkInfo", .optional, kDictK),
   (asc "Lang", .optional, kStrK),
   (asc "SpiderInfo", .optional, kDictK),
   (asc "OutputIntents", .optional, kArrayK),
   (asc "PieceInfo", .optional, kDictK),
   (asc "OCProperties", .optional, kDictK),
   (asc "Perms", .optional, kDictK),
   (asc "Legal", .optional, kDictK),
   (asc "Requirements", .optional, kArrayK),
   (asc "Collection", .optional, kDictK),
   (asc "NeedsRendering", .optional, kBoolK),
   (asc "DSS", .optional, kDictK),
   (asc "AF", .optional, kArrayOfDictK),
   (asc "DPartRoot", .optional, kDictK)]

/-! ### the theorems: one per dictionary type -/

/-- `catalog_type` (src/pdf_lib/catalog.rs): thirty-two entries -/
theorem shipped_catalog_entries : entries shippedCat = catalogEntries := by decide +kernel

/-- `root_page_tree` (src/pdf_lib/page_tree.rs), the value of /Pages -/
theorem shipped_root_entries : entries rootChk = rootEntries := by decide +kernel

/-- `non_root_page_tree`: an inner node, as the alternative below the root AND as what the name
    "root-non-page-tree" (the recursion) denotes in the shipped context -/
theorem shipped_node_entries :
    entries nodeChk = nodeEntries ∧ entries (.named "root-non-page-tree") = nodeEntries ∧
    entries ((altsOf nodeKid).getD 1 (.named "?")) = nodeEntries := by decide +kernel

/-- `page_type` (src/pdf_lib/page.rs), every occurrence (below the root, below an inner node, and the check
    registered as "page"): /Type /Page, /Parent by reference, /B, and the thirty generic entries -/
theorem shipped_page_entries :
    (∀ c ∈ pageChks, entries c = pageEntries) ∧ entries (.named "page") = pageEntries := by decide +kernel

/-- `template_type`, every occurrence: /Type /Template, /Parent FORBIDDEN, no /B, the thirty generic entries -/
theorem shipped_template_entries :
    (∀ c ∈ tmplChks, entries c = templateEntries) ∧ entries (.named "template") = templateEntries := by
  decide +kernel

/-- `resources` (src/pdf_lib/common_data_structures.rs), on every page and template type -/
theorem shipped_resources_entries :
    (∀ c ∈ pageChks ++ tmplChks, entries (ent c (asc "Resources")) = resourcesEntries) ∧
    entries (.named "resources") = resourcesEntries := by decide +kernel

/-- `name_dictionary`: ten optional name trees -/
theorem shipped_name_dictionary_entries :
    entries (ent shippedCat (asc "Names")) = nameDictEntries ∧
    entries (.named "namedictionary") = nameDictEntries := by decide +kernel

/-! ### the list is complete: every dictionary / stream type of the regenerated specification -/

def insertNew (e : List Entry) (acc : List (List Entry)) : List (List Entry) :=
  if acc.contains e then acc else acc ++ [e]

mutual
/-- the entry tables of all dictionary / stream types that occur in a check (names are not followed: every
    registered check is visited through the context), without repetitions, in order of first occurrence -/
def tablesIn : Chk → List (List Entry) → List (List Entry)
  | .named _, acc => acc
  | .any _, acc => acc
  | .prim _ _, acc => acc
  | .array _ e _, acc => tablesIn e acc
  | .het _ es, acc => tablesInL es acc
  | .dict _ es, acc => tablesInL es (insertNew (entriesL es) acc)
  | .dictStar _ es _ sc, acc => tablesIn sc (tablesInL es (insertNew (entriesL es) acc))
  | .stream _ es, acc => tablesInL es (insertNew (entriesL es) acc)
  | .disj _ os, acc => tablesInL os acc
def tablesInL : ChkL → List (List Entry) → List (List Entry)
  | .nil, acc => acc
  | .cons _ _ c t, acc => tablesInL t (tablesIn c acc)
end

def tablesCtx : Ctx → List (List Entry) → List (List Entry)
  | [], acc => acc
  | (_, c) :: t, acc => tablesCtx t (tablesIn c acc)

/-- EVERY dictionary / stream type anywhere in the regenerated specification (the catalog term and all checks
    registered in the context) has one of these eight entry tables: catalog, generic (no entries), root, inner
    node, page, resources, template, name dictionary.  (No stream type with declared entries, no dictionary type
    with a star entry.) -/
theorem shipped_dict_types :
    tablesCtx shippedCtx (tablesIn shippedCat []) =
      [catalogEntries, [], rootEntries, nodeEntries, pageEntries, resourcesEntries, templateEntries,
       nameDictEntries] := by decide +kernel

/-! ### the rules' tables (Spec/CatalogRules.lean) are COMPLETE: every entry the shipped types declare is an entry of
  the rules (so it occurs, well-typed, in rendered documents and, ill-typed, in single-rule mutations) -/

def subsetB (a b : List Bytes) : Bool := a.all fun k => b.contains k

/-- For each dictionary kind of the rules: the keys of the shipped type (every occurrence) are exactly the keys of the
    rules' table plus the rules' forbidden keys; the ten name trees of the shipped name dictionary are the rules'
    `nameTreeKeys`, the eight entries of the shipped resources type the rules' `resourceKeys`.  Together with
    `shipped_covers_rule_tables` / `F_kind` (each key of the rules has a shipped entry of the rules' kind) this makes
    the menu of the generator track the Rust constructors: a new entry in the crate breaks this theorem until the
    rules (documents, mutations, proofs) are extended. -/
theorem rules_tables_complete :
    (∀ k ∈ [CatalogRules.DictKind.catalog, .root, .node, .page, .tmpl], ∀ c ∈ kindChk k,
      subsetB ((entries c).map (·.1)) ((CatalogRules.keyTable k).map (·.1) ++ CatalogRules.forbiddenKeys k) = true ∧
      subsetB ((CatalogRules.keyTable k).map (·.1) ++ CatalogRules.forbiddenKeys k) ((entries c).map (·.1)) = true) ∧
    subsetB nameDictKeys CatalogRules.nameTreeKeys = true ∧ subsetB CatalogRules.nameTreeKeys nameDictKeys = true ∧
    subsetB resourcesKeys CatalogRules.resourceKeys = true ∧ subsetB CatalogRules.resourceKeys resourcesKeys = true ∧
    subsetB CatalogRules.pageKeys pageKeys = true ∧ subsetB CatalogRules.catKeys (catalogEntries.map (·.1)) = true := by
  decide +kernel

/-- the element / value kinds used by the tables are what their names say (rectangle = exactly four numbers, a
    number = integer | real, the trees are predicates on any object, ...): definitional, stated for the reader -/
example : kRectK = .array Attr.dflt (.disj Attr.dflt (.cons (.prim Attr.dflt .integer) (.cons (.prim Attr.dflt .real) .nil)))
    (some 4) := rfl

/-! non-vacuity: the summary distinguishes what the mutation sweep changed -- a page type without /B, an entry made
    required, a retyped entry -/
example : pageEntries.length = 33 ∧ templateEntries.length = 32 ∧ catalogEntries.length = 32 := by decide
example : entriesL (.cons (asc "B") .optional (.prim Attr.dflt .integer) .nil) ≠
          entriesL (.cons (asc "B") .optional (.array Attr.dflt (.any Attr.dflt) none) .nil) := by decide
example : entriesL (.cons (asc "B") .required (.prim Attr.dflt .integer) .nil) ≠
          entriesL (.cons (asc "B") .optional (.prim Attr.dflt .integer) .nil) := by decide

end Parsley.C10
