/-
  C10, the acceptance half for the MACHINE itself, for ALL documents: `machine_accepts_rendered` -- the model of the
  real `check_type` (Model/TypeCheck.lean, the code as it is: `Fix.tree`) run with the work bound of C09 on the
  regenerated shipped specification ACCEPTS the rendered catalog of every well-formed document of
  Spec/CatalogRules.lean with arbitrary optional entries of the menu on the catalog, on every page and on every
  template.

  From `rendered_conforms` (Props/C10Full.lean: the rendered catalog conforms under the declarative reading) and C08's
  completeness theorem `machine_complete` (Props/C08.lean / Lemmas/TypeCheckComplete.lean: the machine never rejects a
  conforming object of a well-formed specification, disjunctions included -- the shipped specification has the
  recursive disjunction node | page | template below /Kids and /Parent entries typed Any with an indirect
  requirement, i.e. it lies outside the fragment on which machine = specification holds).  The one closed fact
  about the regenerated term: it is well formed (`shipped_wf`: every name is registered and bound to a
  representation, no empty disjunction; `decide +kernel` on the term the code builds NOW).

  The rejection half is NOT a theorem for the machine and cannot be: the machine accepts some mutated documents the
  declarative reading rejects (known engine findings memo-leak / any-entry-skips-indirect, C10 witnesses).

  What C08's fragment theorem `machine_eq_conforms_F2` gives for the shipped specification
  (`machine_eq_rules_shipped_partial`): the shipped CATALOG type is NOT in fragment F2 (its /Kids alternatives page |
  node | template are compound dictionary types, /Parent is an Any entry with a bare indirect requirement:
  `shipped_catalog_not_F2`), so machine = rules does not follow for whole documents; it does follow, for ALL graphs and
  objects, for the twelve registered component types inside F2 -- rectangle (MediaBox, CropBox, BleedBox, TrimBox,
  ArtBox: array of four Integer|Real, the one shipped disjunction of leaves), resources, namedictionary, nametree,
  numbertree, date, rotate, count, pages, parent, structparents and the empty dictionary: on these the machine REJECTS
  exactly the objects the declarative reading (hence the Conforms-based rules about these entries) rejects.
-/
import Parsley.Props.C10Full
import Parsley.Props.C08
import Parsley.Props.C08F2
namespace Parsley.C10
open Parsley Parsley.TC Parsley.TC.Spec
open Parsley.CatalogRules (Doc)

/-- the regenerated shipped specification is well formed (hypothesis of C08's completeness theorem) -/
theorem shipped_wf : Frag.wfSpec shippedCtx shippedCat = true := by decide +kernel

/-- For EVERY well-formed document -- any shape, fan-out and depth of the page tree, any object numbers and /Count
    values, ANY optional entries from the menu on the catalog, on every page and on every template -- the type
    checker (the code as it is) ACCEPTS the rendered catalog against the shipped specification. -/
theorem machine_accepts_rendered (d : Doc) (hok : d.ok = true) :
    (checkTypeFuel Fix.tree (CatalogRules.render d).1 shippedCtx
      (Term.workBound Fix.tree (CatalogRules.render d).1 shippedCtx (CatalogRules.render d).2 shippedCat)
      (CatalogRules.render d).2 shippedCat).1 = .accept :=
  Parsley.C08.machine_complete _ shippedCtx _ shippedCat shipped_wf (rendered_conforms d hok)

/-- the same for any fuel: the run never ends with a rejection or a panic -/
theorem machine_accepts_rendered_fuel (d : Doc) (hok : d.ok = true) (fuel : Nat) :
    (checkTypeFuel Fix.tree (CatalogRules.render d).1 shippedCtx fuel (CatalogRules.render d).2 shippedCat).1 = .accept ∨
    (checkTypeFuel Fix.tree (CatalogRules.render d).1 shippedCtx fuel (CatalogRules.render d).2 shippedCat).1
      = .outOfFuel :=
  Parsley.C08.machine_complete_fuel Fix.tree TC.Complete.fixC_tree _ shippedCtx _ shippedCat shipped_wf
    (rendered_conforms d hok) fuel

/-- the registered component types of the shipped specification inside fragment F2 -/
def shippedF2Names : List String :=
  ["", "count", "date", "namedictionary", "nametree", "numbertree", "pages", "parent", "rectangle", "resources",
   "rotate", "structparents"]

theorem shipped_F2_names : shippedF2Names.all (fun n => Frag.inF2 shippedCtx (.named n)) = true := by decide +kernel

/-- the shipped catalog type lies outside the fragment on which machine = specification holds -/
theorem shipped_catalog_not_F2 : Frag.inF2 shippedCtx shippedCat = false := by decide +kernel

/-- PARTIAL machine = rules for the shipped specification.
    FULL STATEMENT (false for the code as it is: C10 witnesses of memo-leak / any-entry-skips-indirect): for every graph
    and object the machine run on `shippedCat` accepts iff `Conforms g shippedCtx o shippedCat`.
    PROVED: the same for every registered component type `n` of `shippedF2Names` in place of the catalog type -- every
    graph (chains, cycles, undefined references), every object.  Missing: the types that contain the disjunction
    page | node | template or a /Parent entry (catalog, root-page-tree, root-non-page-tree, kids, kid, page, template);
    for them only the acceptance half holds (`machine_accepts_rendered`). -/
theorem machine_eq_rules_shipped_partial (n : String) (hn : n ∈ shippedF2Names) (g : Graph) (o : Obj) :
    Parsley.C08.verdict (checkTypeFuel Fix.tree g shippedCtx (Term.workBound Fix.tree g shippedCtx o (.named n)) o
      (.named n)) = true ↔ Conforms g shippedCtx o (.named n) := by
  have h := shipped_F2_names
  simp only [List.all_eq_true] at h
  exact Parsley.C08.machine_eq_conforms_F2 g shippedCtx o _ (h n hn)

-- non-vacuity: a rectangle with a real and three integers is accepted by the machine on the shipped "rectangle" type,
-- one with a string is rejected (decided by running the model: a test of the instance, the theorem is above)
example : "rectangle" ∈ shippedF2Names := by decide

-- non-vacuity: the document with ALL optional entries of Props/C10Full.lean is well formed
example : wDocFull.ok = true := by decide

end Parsley.C10
