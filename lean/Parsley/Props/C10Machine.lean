/-
  C10, the acceptance half for the MACHINE itself, for ALL documents: `machine_accepts_rendered` -- the model of the
  real `check_type` (Model/TypeCheck.lean, the code as it is: `Fix.tree`) run with the work bound of C09 on the
  regenerated shipped specification ACCEPTS the rendered catalog of every well-formed document of
  Spec/CatalogRules.lean with arbitrary optional entries of the menu on the catalog, on every page and on every
  template.

  From `rendered_conforms` (Props/C10Full.lean: the rendered catalog conforms under the declarative reading) and C08's
  completeness theorem `machine_complete` (Props/C08.lean / Lemmas/TypeCheckComplete.lean: the machine never rejects a
  conforming object of a well-formed specification, disjunctions included -- the shipped specification has the
  recursive disjunction node | page | template below /Kids and /Parent entries typed Any with an indirect
  requirement, i.e. it lies outside the fragment on which machine = specification holds).  The one closed fact
  about the regenerated term: it is well formed (`shipped_wf`: every name is registered and bound to a
  representation, no empty disjunction; `decide +kernel` on the term the code builds NOW).

  The rejection half is NOT a theorem for the machine and cannot be: the machine accepts some mutated documents the
  declarative reading rejects (known engine findings memo-leak / any-entry-skips-indirect, C10 witnesses).
-/
import Parsley.Props.C10Full
import Parsley.Props.C08
namespace Parsley.C10
open Parsley Parsley.TC Parsley.TC.Spec
open Parsley.CatalogRules (Doc)

/-- the regenerated shipped specification is well formed (hypothesis of C08's completeness theorem) -/
theorem shipped_wf : Frag.wfSpec shippedCtx shippedCat = true := by decide +kernel

/-- For EVERY well-formed document -- any shape, fan-out and depth of the page tree, any object numbers and /Count
    values, ANY optional entries from the menu on the catalog, on every page and on every template -- the type
    checker (the code as it is) ACCEPTS the rendered catalog against the shipped specification. -/
theorem machine_accepts_rendered (d : Doc) (hok : d.ok = true) :
    (checkTypeFuel Fix.tree (CatalogRules.render d).1 shippedCtx
      (Term.workBound Fix.tree (CatalogRules.render d).1 shippedCtx (CatalogRules.render d).2 shippedCat)
      (CatalogRules.render d).2 shippedCat).1 = .accept :=
  Parsley.C08.machine_complete _ shippedCtx _ shippedCat shipped_wf (rendered_conforms d hok)

/-- the same for any fuel: the run never ends with a rejection or a panic -/
theorem machine_accepts_rendered_fuel (d : Doc) (hok : d.ok = true) (fuel : Nat) :
    (checkTypeFuel Fix.tree (CatalogRules.render d).1 shippedCtx fuel (CatalogRules.render d).2 shippedCat).1 = .accept ∨
    (checkTypeFuel Fix.tree (CatalogRules.render d).1 shippedCtx fuel (CatalogRules.render d).2 shippedCat).1
      = .outOfFuel :=
  Parsley.C08.machine_complete_fuel Fix.tree TC.Complete.fixC_tree _ shippedCtx _ shippedCat shipped_wf
    (rendered_conforms d hok) fuel

-- non-vacuity: the document with ALL optional entries of Props/C10Full.lean is well formed
example : wDocFull.ok = true := by decide

end Parsley.C10
