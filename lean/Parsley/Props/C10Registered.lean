/-
  C10 -- every named type of the SHIPPED specification is registered, whichever constructor built it.

  `catalog_type` builds its named types through all four constructors of pdf_type_check.rs: `TypeCheck::new`
  (no predicate, indirect objects allowed), `new_refined` (a predicate: "date", "pages", "nametree",
  "numbertree"), `new_indirect` (an indirect requirement: "kid", "parent") and `new_all`.  A type can be reached
  through `TypeCheck::Named` only if its constructor registered it in the TypeCheckContext.  The shipped
  specification itself contains ONE reference by name ("root-non-page-tree", a `TypeCheck::new` type), so a
  constructor that forgets to register (mutation sweep: `tctx.register(&tc)` deleted in new_refined /
  new_indirect) does not change any verdict of check_type on the shipped specification -- but it breaks the
  contract client specifications rely on.  The table below is a closed fact about the REGENERATED context
  (Gen/CatalogSpec.lean = `TypeCheckContext::verif_entries()` after the real `catalog_type`): the registered
  names, and for each name whether the check found under it carries a predicate and which indirect requirement.
  The general behaviour (a reference by name to a type of each kind resolves) is exercised against the real
  constructors by C08's family `genNamedKinds`.
-/
import Parsley.Model.TypeCheck
import Parsley.Gen.CatalogSpec
namespace Parsley.C10
open Parsley Parsley.TC

/-- (name, the check registered under it has a predicate, its indirect requirement) for every registered name -/
def registeredKinds (ctx : Ctx) : List (String × Option (Bool × Ind)) :=
  ctx.map fun e => (e.1, (Ctx.lookup ctx e.1).map fun c => (c.attr.pred.isSome, c.attr.ind))

theorem shipped_registered_kinds :
    registeredKinds Gen.CatalogSpec.ctx =
      [("", some (false, .allowed)), ("catalog", some (false, .allowed)), ("count", some (false, .allowed)),
       ("date", some (true, .allowed)), ("kid", some (false, .required)), ("kids", some (false, .allowed)),
       ("namedictionary", some (false, .allowed)), ("nametree", some (true, .allowed)),
       ("numbertree", some (true, .allowed)), ("page", some (false, .allowed)), ("pages", some (true, .allowed)),
       ("parent", some (false, .required)), ("rectangle", some (false, .allowed)),
       ("resources", some (false, .allowed)), ("root-non-page-tree", some (false, .allowed)),
       ("root-page-tree", some (false, .allowed)), ("rotate", some (false, .allowed)),
       ("structparents", some (false, .allowed)), ("template", some (false, .allowed))] := by
  decide +kernel

/-- the kinds the three other constructors build do occur among the registered names -/
example : (registeredKinds Gen.CatalogSpec.ctx).any (fun e => e.2 == some (true, .allowed)) = true ∧
          (registeredKinds Gen.CatalogSpec.ctx).any (fun e => e.2 == some (false, .required)) = true := by
  decide +kernel

end Parsley.C10
