/-
  C10, the rejection half: every valid single-rule mutation of every well-formed document is rejected by the
  regenerated shipped specification read declaratively (`mutated_rejected`), all six mutation classes.

  PART A  inversion of `Conforms` (dictionary, array, disjunction, leaf) -- generic in graph and context.
  PART B  `kind_sound`: a direct value that conforms to the shipped entry of a key has the kind the rules give that
          key ("each declared constraint bites"), for every value kind of the rules' tables; dates through
          `date_recogniser_eq_regex_shape`, trees through `tree_rule_eq_model`.
  PART C  the mutated graph; the path from the catalog to the mutated object conforms only if every object on it does.
  PART D  the local violation, one lemma per mutation class; `mutated_rejected`.
  PART E  witnesses: what the shipped specification accepts although a reading of the rules could call it a violation.
-/
import Parsley.Props.C10Full
import Parsley.Lemmas.CatalogDicts
import Parsley.Lemmas.CatalogDate
import Parsley.Lemmas.CatalogValues
import Parsley.Props.C08
namespace Parsley.C10
open Parsley Parsley.TC Parsley.TC.Spec
open Parsley.CatalogRules (Doc Node Nodes PageOpts CatOpts Mutation Where kType kPages kCount kParent
  pageDict nodeDict catalogDict arrOf optEnt DictKind ValKind keyTable requiredKeys forbiddenKeys
  nCatalog nPage nTemplate nameAt fitsKind structural kindChange refEntry lookupKey locate mutate editAt editDict
  pageRows catRows isDictO isArrO isStreamO)

/-! ### PART A: inversion of `Conforms` -/

theorem conf_le' (g : Graph) (ctx : Ctx) (o : Obj) (c : Chk) (m : Nat) :
    ∀ k, conf g ctx (m + k) o c = true → conf g ctx m o c = true := by
  intro k
  induction k with
  | zero => exact id
  | succ k ih => exact fun h => ih (C08.conforms_antitone g ctx (m + k) o c h)

theorem conf_of_le (g : Graph) (ctx : Ctx) (o : Obj) (c : Chk) (m n : Nat) (h : m ≤ n)
    (hc : conf g ctx n o c = true) : conf g ctx m o c = true := by
  obtain ⟨k, rfl⟩ := Nat.exists_eq_add_of_le h
  exact conf_le' g ctx o c m k hc

/-- one unfolding of `Conforms` at a resolved check -/
theorem Conforms_unfold {g : Graph} {ctx : Ctx} {o : Obj} {c r : Chk} (h : Conforms g ctx o c)
    (hres : resolve ctx c = some r) :
    indOK o r.attr.ind = true ∧ predOK r.attr.pred (value g o) = true ∧
      ∀ n, shapeOK (conf g ctx n) o (value g o) r = true := by
  have h0 := h 1
  simp only [conf] at h0
  rw [confStep_eq g ctx _ o c r hres] at h0
  simp only [Bool.and_eq_true] at h0
  refine ⟨h0.1.1, h0.1.2, fun n => ?_⟩
  have hn := h (n + 1)
  simp only [conf] at hn
  rw [confStep_eq g ctx _ o c r hres] at hn
  simp only [Bool.and_eq_true] at hn
  exact hn.2

theorem mem_of_findEnt : ∀ (ents : ChkL) (k : Bytes) (o : KeySpec) (c : Chk),
    findEnt ents k = some (o, c) → (k, o, c) ∈ ents.toList
  | .nil, k, o, c, h => by simp [findEnt] at h
  | .cons k' o' c' t, k, o, c, h => by
    unfold findEnt at h
    simp only [ChkL.toList, List.mem_cons]
    by_cases hk : k' = k
    · simp only [hk, if_true, Option.some.injEq, Prod.mk.injEq] at h
      left; rw [← hk, h.1, h.2]
    · simp only [hk, if_false] at h
      exact Or.inr (mem_of_findEnt t k o c h)

/-- what conformance to a dictionary type says about the entries of the dictionary -/
def DictConf (g : Graph) (ctx : Ctx) (kvs : ObjL) (ents : ChkL) : Prop :=
  ∀ key opt c', findEnt ents key = some (opt, c') →
    (opt = .required → ∃ x, kvs.get key = some x) ∧ (opt = .forbidden → kvs.get key = none) ∧
    (∀ x, kvs.get key = some x → Conforms g ctx x c')

theorem inv_dict {g : Graph} {ctx : Ctx} {o : Obj} {c : Chk} {a : Attr} {ents : ChkL}
    (h : Conforms g ctx o c) (hres : resolve ctx c = some (.dict a ents)) :
    ∃ kvs, value g o = .dict kvs ∧ DictConf g ctx kvs ents := by
  have hu := Conforms_unfold h hres
  cases hv : value g o with
  | dict kvs =>
    refine ⟨kvs, rfl, ?_⟩
    intro key opt c' hf
    have hm := mem_of_findEnt ents key opt c' hf
    have hent : ∀ n, entOK (conf g ctx n) kvs (key, opt, c') = true := by
      intro n
      have := hu.2.2 n
      rw [hv] at this
      simp only [shapeOK, List.all_eq_true] at this
      exact this _ hm
    refine ⟨?_, ?_, ?_⟩
    · intro ho
      cases hg : kvs.get key with
      | some x => exact ⟨x, rfl⟩
      | none => have := hent 0; simp [entOK, hg, ho] at this
    · intro ho
      cases hg : kvs.get key with
      | none => rfl
      | some x => have := hent 0; simp [entOK, hg, ho] at this
    · intro x hg n
      cases n with
      | zero => rfl
      | succ n =>
        have := hent (n + 1)
        cases ho : opt <;> simp [entOK, hg, ho] at this
        · exact this
        · exact this
  | _ =>
    have := hu.2.2 0
    rw [hv] at this
    simp [shapeOK] at this

theorem inv_array {g : Graph} {ctx : Ctx} {o : Obj} {c : Chk} {a : Attr} {e : Chk} {sz : Option Nat}
    (h : Conforms g ctx o c) (hres : resolve ctx c = some (.array a e sz)) :
    ∃ xs, value g o = .arr xs ∧ (∀ n, sz = some n → xs.vals.length = n) ∧ ∀ x ∈ xs.vals, Conforms g ctx x e := by
  have hu := Conforms_unfold h hres
  cases hv : value g o with
  | arr xs =>
    refine ⟨xs, rfl, ?_, ?_⟩
    · intro n hn
      have := hu.2.2 0
      rw [hv] at this
      subst hn
      simp only [shapeOK, Bool.and_eq_true, decide_eq_true_eq] at this
      exact this.1
    · intro x hx n
      cases n with
      | zero => rfl
      | succ n =>
        have := hu.2.2 (n + 1)
        rw [hv] at this
        simp only [shapeOK, Bool.and_eq_true, List.all_eq_true] at this
        exact this.2 x hx
  | _ =>
    have := hu.2.2 0
    rw [hv] at this
    simp [shapeOK] at this

theorem inv_stream {g : Graph} {ctx : Ctx} {o : Obj} {c : Chk} {a : Attr} {ents : ChkL}
    (h : Conforms g ctx o c) (hres : resolve ctx c = some (.stream a ents)) :
    ∃ kvs s bs, value g o = .stream kvs s bs := by
  have hu := Conforms_unfold h hres
  cases hv : value g o with
  | stream kvs s bs => exact ⟨kvs, s, bs, rfl⟩
  | _ =>
    have := hu.2.2 0
    rw [hv] at this
    simp [shapeOK] at this

theorem any_alt_conforms (g : Graph) (ctx : Ctx) (o : Obj) : ∀ l : List Chk,
    (∀ n, l.any (fun alt => conf g ctx n o alt) = true) → ∃ alt ∈ l, Conforms g ctx o alt
  | [], h => by simpa using h 0
  | a :: t, h => by
    by_cases ha : Conforms g ctx o a
    · exact ⟨a, by simp, ha⟩
    · have : ∃ n0, conf g ctx n0 o a = false := by
        apply Classical.byContradiction
        intro hne
        apply ha
        intro n
        cases hc : conf g ctx n o a with
        | true => rfl
        | false => exact absurd ⟨n, hc⟩ hne
      obtain ⟨n0, hn0⟩ := this
      have ht : ∀ n, t.any (fun alt => conf g ctx n o alt) = true := by
        intro n
        have hm := h (n + n0)
        simp only [List.any_cons, Bool.or_eq_true] at hm
        rcases hm with hm | hm
        · have := conf_of_le g ctx o a n0 (n + n0) (by omega) hm
          rw [hn0] at this; cases this
        · rw [List.any_eq_true] at hm ⊢
          obtain ⟨x, hx, hc⟩ := hm
          exact ⟨x, hx, conf_of_le g ctx o x n (n + n0) (by omega) hc⟩
      obtain ⟨alt, hm, hc⟩ := any_alt_conforms g ctx o t ht
      exact ⟨alt, by simp [hm], hc⟩

theorem inv_disj {g : Graph} {ctx : Ctx} {o : Obj} {c : Chk} {a : Attr} {os : ChkL}
    (h : Conforms g ctx o c) (hres : resolve ctx c = some (.disj a os)) :
    indOK o a.ind = true ∧ ∃ alt ∈ os.chks, Conforms g ctx o alt := by
  have hu := Conforms_unfold h hres
  refine ⟨hu.1, any_alt_conforms g ctx o os.chks ?_⟩
  intro n
  have := hu.2.2 n
  simpa [shapeOK] using this

/-! ### PART B: a direct value conforming to the shipped entry of a key has the kind of the rules -/

theorem isPrim_elim {c : Chk} {t : Prim} {ind : Ind} {p : Option Pred} (h : isPrim c t ind p = true) :
    ∃ a, c = .prim a t ∧ a.ind = ind ∧ a.pred.map untag = p := by
  cases c <;> simp [isPrim] at h
  case prim a t' => exact ⟨a, by rw [h.1.1], h.1.2, h.2⟩

theorem isAny_elim {c : Chk} {ind : Ind} {p : Option Pred} (h : isAny c ind p = true) :
    ∃ a, c = .any a ∧ a.ind = ind ∧ a.pred.map untag = p := by
  cases c <;> simp [isAny] at h
  case any a => exact ⟨a, rfl, h.1, h.2⟩

/-- every value of the graph is a dictionary or a stream (rendered and mutated graphs are) -/
def isDS : Obj → Bool
  | .dict _ => true
  | .stream _ _ _ => true
  | _ => false

def DS (g : Graph) : Prop := ∀ k v, g.lookup k = some v → isDS v = true

theorem value_ref_DS (g : Graph) (hg : DS g) (a b : Nat) :
    value g (.ref a b) = .null ∨ isDS (value g (.ref a b)) = true := by
  unfold value
  simp only [deref]
  cases hl : g.lookup (a, b) with
  | none => exact Or.inl rfl
  | some t =>
    have ht := hg _ _ hl
    cases hlen : g.length with
    | zero => left; simp [deref]
    | succ n =>
      right
      cases t <;> simp_all [deref, isDS]

theorem num_of_conf (g : Graph) (hg : DS g) (x : Obj) (h : Conforms g shippedCtx x numberChk) :
    CatalogRules.isNum x = true := by
  have hd := inv_disj (a := Attr.dflt) h (by rfl)
  obtain ⟨alt, hm, hc⟩ := hd.2
  have hx : primOK (value g x) .integer = true ∨ primOK (value g x) .real = true := by
    simp only [ChkL.chks, ChkL.toList, List.map_cons, List.map_nil, List.mem_cons, List.not_mem_nil, or_false] at hm
    rcases hm with rfl | rfl
    · left
      have := (Conforms_unfold hc (r := .prim Attr.dflt .integer) rfl).2.2 0
      simpa [shapeOK] using this
    · right
      have := (Conforms_unfold hc (r := .prim Attr.dflt .real) rfl).2.2 0
      simpa [shapeOK] using this
  cases hr : x.isRef with
  | true =>
    cases x <;> simp [Obj.isRef] at hr
    case ref a b =>
      rcases value_ref_DS g hg a b with hv | hv
      · rw [hv] at hx; simp [primOK] at hx
      · cases hvv : value g (.ref a b) <;> rw [hvv] at hx hv <;> simp [primOK, isDS] at hx hv
  | false =>
    rw [value_nonref g x hr] at hx
    cases x <;> simp [primOK, CatalogRules.isNum] at hx ⊢

theorem choice_names_eval (l : List Bytes) (v : Obj) (h : (names l).eval v = true) : ∃ s ∈ l, v = .name s := by
  simp only [names, Pred.eval, List.any_eq_true, List.mem_map, decide_eq_true_eq] at h
  obtain ⟨x, ⟨s, hs, rfl⟩, rfl⟩ := h
  exact ⟨s, hs, rfl⟩

/-- "Each declared constraint bites": a direct value that conforms to the shipped check found under a key has
    the kind the rules' table gives the key. -/
theorem kind_sound (g : Graph) (hg : DS g) (vk : ValKind) (c' : Chk) (hm : kindMatches vk c' = true)
    (hs : structural vk = false) (v : Obj) (hv : v.isRef = false) (hre : refEntry vk v = false)
    (hc : Conforms g shippedCtx v c') : fitsKind vk v = true := by
  have hval : value g v = v := value_nonref g v hv
  cases vk with
  | nameIs n =>
    obtain ⟨a, hr, _, hp⟩ := isPrim_elim (by simpa [kindMatches] using hm)
    have hu := Conforms_unfold hc (resolve_of_res c' _ hr (by simp))
    rw [hval] at hu
    cases hpa : a.pred with
    | none => simp [hpa] at hp
    | some p =>
      simp only [hpa, Option.map_some, Option.some.injEq] at hp
      have he : (names [n]).eval v = true := by
        rw [← hp, ← eval_untag]
        simpa [Chk.attr, predOK, hpa] using hu.2.1
      obtain ⟨s, hs', rfl⟩ := choice_names_eval _ _ he
      simp only [List.mem_cons, List.not_mem_nil, or_false] at hs'
      simp [fitsKind, hs']
  | nameIn l =>
    obtain ⟨a, hr, _, hp⟩ := isPrim_elim (by simpa [kindMatches] using hm)
    have hu := Conforms_unfold hc (resolve_of_res c' _ hr (by simp))
    rw [hval] at hu
    cases hpa : a.pred with
    | none => simp [hpa] at hp
    | some p =>
      simp only [hpa, Option.map_some, Option.some.injEq] at hp
      have he : (names l).eval v = true := by
        rw [← hp, ← eval_untag]
        simpa [Chk.attr, predOK, hpa] using hu.2.1
      obtain ⟨s, hs', rfl⟩ := choice_names_eval _ _ he
      simpa [fitsKind] using hs'
  | name =>
    have hr : res c' = .prim Attr.dflt .name := by simpa [kindMatches] using hm
    have hu := Conforms_unfold hc (resolve_of_res c' _ hr (by simp))
    rw [hval] at hu
    have := hu.2.2 0
    cases v <;> simp [shapeOK, primOK, fitsKind] at this ⊢
  | str =>
    have hr : res c' = .prim Attr.dflt .string := by simpa [kindMatches] using hm
    have hu := Conforms_unfold hc (resolve_of_res c' _ hr (by simp))
    rw [hval] at hu
    have := hu.2.2 0
    cases v <;> simp [shapeOK, primOK, fitsKind] at this ⊢
  | bool =>
    have hr : res c' = .prim Attr.dflt .bool := by simpa [kindMatches] using hm
    have hu := Conforms_unfold hc (resolve_of_res c' _ hr (by simp))
    rw [hval] at hu
    have := hu.2.2 0
    cases v <;> simp [shapeOK, primOK, fitsKind] at this ⊢
  | int =>
    have hr : res c' = .prim Attr.dflt .integer := by simpa [kindMatches] using hm
    have hu := Conforms_unfold hc (resolve_of_res c' _ hr (by simp))
    rw [hval] at hu
    have := hu.2.2 0
    cases v <;> simp [shapeOK, primOK, fitsKind] at this ⊢
  | number =>
    have hr : res c' = numberChk := by simpa [kindMatches] using hm
    have hres := resolve_of_res c' _ hr (by simp [numberChk])
    have hcn : Conforms g shippedCtx v numberChk := by
      intro n
      cases n with
      | zero => rfl
      | succ n =>
        have := hc (n + 1)
        simp only [conf] at this ⊢
        rw [confStep_eq g shippedCtx _ v c' _ hres] at this
        rw [confStep_eq g shippedCtx _ v numberChk numberChk rfl]
        exact this
    simpa [fitsKind] using num_of_conf g hg v hcn
  | rect =>
    have hr : res c' = .array Attr.dflt numberChk (some 4) := by simpa [kindMatches] using hm
    obtain ⟨xs, hxs, hlen, hall⟩ := inv_array hc (resolve_of_res c' _ hr (by simp))
    rw [hval] at hxs
    subst hxs
    simp only [fitsKind, Bool.and_eq_true, decide_eq_true_eq, List.all_eq_true]
    exact ⟨hlen 4 rfl, fun x hx => num_of_conf g hg x (hall x hx)⟩
  | date =>
    obtain ⟨a, hr, _, hp⟩ := isPrim_elim (by simpa [kindMatches] using hm)
    have hu := Conforms_unfold hc (resolve_of_res c' _ hr (by simp))
    rw [hval] at hu
    cases hpa : a.pred with
    | none => simp [hpa] at hp
    | some p =>
      simp only [hpa, Option.map_some, Option.some.injEq] at hp
      have he : Pred.date.eval v = true := by
        rw [← hp, ← eval_untag]
        simpa [Chk.attr, predOK, hpa] using hu.2.1
      cases v <;> simp [Pred.eval] at he
      case str s => simpa [fitsKind, date_recogniser_eq_regex_shape] using he
  | array =>
    have hr : res c' = .array Attr.dflt (.any Attr.dflt) none := by simpa [kindMatches] using hm
    obtain ⟨xs, hxs, _, _⟩ := inv_array hc (resolve_of_res c' _ hr (by simp))
    rw [hval] at hxs
    subst hxs
    rfl
  | dict =>
    have hr : res c' = .dict Attr.dflt .nil := by simpa [kindMatches] using hm
    obtain ⟨kvs, hk, _⟩ := inv_dict hc (resolve_of_res c' _ hr (by simp))
    rw [hval] at hk
    subst hk
    rfl
  | stream =>
    have hr : res c' = .stream Attr.dflt .nil := by simpa [kindMatches] using hm
    obtain ⟨kvs, st, bs, hk⟩ := inv_stream hc (resolve_of_res c' _ hr (by simp))
    rw [hval] at hk
    subst hk
    rfl
  | arrayOfDict =>
    have hr : res c' = .array Attr.dflt (.dict Attr.dflt .nil) none := by simpa [kindMatches] using hm
    obtain ⟨xs, hxs, _, hall⟩ := inv_array hc (resolve_of_res c' _ hr (by simp))
    rw [hval] at hxs
    subst hxs
    simp only [refEntry, List.any_eq_false] at hre
    simp only [fitsKind, List.all_eq_true]
    intro x hx
    have hxr : x.isRef = false := by simpa using hre x hx
    obtain ⟨kvs, hk, _⟩ := inv_dict (a := Attr.dflt) (hall x hx) rfl
    rw [value_nonref g x hxr] at hk
    subst hk
    rfl
  | contents =>
    have hr : res c' = contentsChk := by simpa [kindMatches] using hm
    have hd := inv_disj hc (resolve_of_res c' _ hr (by simp [contentsChk]))
    obtain ⟨alt, hmem, hca⟩ := hd.2
    simp only [ChkL.chks, ChkL.toList, List.map_cons, List.map_nil, List.mem_cons, List.not_mem_nil, or_false] at hmem
    rcases hmem with rfl | rfl
    · obtain ⟨kvs, st, bs, hk⟩ := inv_stream (a := Attr.dflt) hca rfl
      rw [hval] at hk
      subst hk
      rfl
    · obtain ⟨xs, hxs, _, hall⟩ := inv_array (a := Attr.dflt) hca rfl
      rw [hval] at hxs
      subst hxs
      simp only [refEntry, List.any_eq_false] at hre
      simp only [fitsKind, List.all_eq_true]
      intro x hx
      have hxr : x.isRef = false := by simpa using hre x hx
      obtain ⟨kvs, st, bs, hk⟩ := inv_stream (a := Attr.dflt) (hall x hx) rfl
      rw [value_nonref g x hxr] at hk
      subst hk
      rfl
  | resources =>
    simp only [kindMatches, resourcesMatches] at hm
    split at hm
    · next a ents hr =>
      simp only [Bool.and_eq_true, decide_eq_true_eq, List.all_eq_true] at hm
      obtain ⟨⟨⟨_, _⟩, hkeys⟩, hproc⟩ := hm
      obtain ⟨kvs, hk, hdc⟩ := inv_dict hc (resolve_of_res c' _ hr (by simp))
      rw [hval] at hk
      subst hk
      have hnoref : ∀ k ∈ CatalogRules.kProcSet :: CatalogRules.resourceDictKeys, ∀ t, kvs.get k = some t →
          t.isRef = false := by
        intro k hk t ht
        simp only [refEntry, List.any_eq_false] at hre
        have := hre k hk
        simpa [ht] using this
      simp only [fitsKind, Bool.and_eq_true, List.all_eq_true]
      refine ⟨?_, ?_⟩
      · intro k hk
        have hkm := hkeys k hk
        cases hf : findEnt ents k with
        | none => simp [hf] at hkm
        | some oc =>
          obtain ⟨opt, c''⟩ := oc
          simp only [hf, Bool.and_eq_true, decide_eq_true_eq] at hkm
          cases hg' : kvs.get k with
          | none => rfl
          | some t =>
            have hct := (hdc k opt c'' hf).2.2 t hg'
            have htr := hnoref k (List.mem_cons_of_mem _ hk) t hg'
            obtain ⟨kvs', hk', _⟩ := inv_dict hct (resolve_of_res c'' _ hkm.2 (by simp))
            rw [value_nonref g t htr] at hk'
            subst hk'
            rfl
      · cases hf : findEnt ents CatalogRules.kProcSet with
        | none => simp [hf] at hproc
        | some oc =>
          obtain ⟨opt, c''⟩ := oc
          simp only [hf, Bool.and_eq_true, decide_eq_true_eq] at hproc
          cases hg' : kvs.get CatalogRules.kProcSet with
          | none => rfl
          | some t =>
            have hct := (hdc _ opt c'' hf).2.2 t hg'
            have htr := hnoref _ List.mem_cons_self t hg'
            obtain ⟨xs, hxs, _, _⟩ := inv_array hct (resolve_of_res c'' _ hproc.2 (by simp))
            rw [value_nonref g t htr] at hxs
            subst hxs
            rfl
    · simp at hm
  | arrayOrDict =>
    have hr : res c' = arrayOrDictChk := by simpa [kindMatches] using hm
    have hd := inv_disj hc (resolve_of_res c' _ hr (by simp [arrayOrDictChk]))
    obtain ⟨alt, hmem, hca⟩ := hd.2
    simp only [ChkL.chks, ChkL.toList, List.map_cons, List.map_nil, List.mem_cons, List.not_mem_nil, or_false] at hmem
    rcases hmem with rfl | rfl
    · obtain ⟨xs, hxs, _, _⟩ := inv_array (a := Attr.dflt) hca rfl
      rw [hval] at hxs
      subst hxs
      rfl
    · obtain ⟨kvs, hk, _⟩ := inv_dict (a := Attr.dflt) hca rfl
      rw [hval] at hk
      subst hk
      rfl
  | numTree =>
    obtain ⟨a, hr, _, hp⟩ := isAny_elim (by simpa [kindMatches] using hm)
    have hu := Conforms_unfold hc (resolve_of_res c' _ hr (by simp))
    rw [hval] at hu
    cases hpa : a.pred with
    | none => simp [hpa] at hp
    | some p =>
      simp only [hpa, Option.map_some, Option.some.injEq] at hp
      have he : (Pred.numTree TC.kNums).eval v = true := by
        rw [← hp, ← eval_untag]
        simpa [Chk.attr, predOK, hpa] using hu.2.1
      rw [number_tree_rule_eq_shipped]
      exact he
  | nameDict =>
    simp only [kindMatches, nameDictMatches] at hm
    split at hm
    · next a ents hr =>
      simp only [Bool.and_eq_true, decide_eq_true_eq, List.all_eq_true] at hm
      obtain ⟨kvs, hk, hdc⟩ := inv_dict hc (resolve_of_res c' _ hr (by simp))
      rw [hval] at hk
      subst hk
      simp only [fitsKind, List.all_eq_true]
      intro k hk
      have hkm := hm.2 k hk
      cases hf : findEnt ents k with
      | none => simp [hf] at hkm
      | some oc =>
        obtain ⟨opt, c''⟩ := oc
        simp only [hf, Bool.and_eq_true, decide_eq_true_eq] at hkm
        cases hg' : kvs.get k with
        | none => rfl
        | some t =>
          have hct := (hdc k opt c'' hf).2.2 t hg'
          have htr : t.isRef = false := by
            simp only [refEntry, List.any_eq_false] at hre
            have := hre k hk
            simpa [hg'] using this
          obtain ⟨a', hr', _, hp'⟩ := isAny_elim hkm.2
          have hu := Conforms_unfold hct (resolve_of_res c'' _ hr' (by simp))
          rw [value_nonref g t htr] at hu
          cases hpa : a'.pred with
          | none => simp [hpa] at hp'
          | some p =>
            simp only [hpa, Option.map_some, Option.some.injEq] at hp'
            have he : Pred.nameTree.eval t = true := by
              rw [← hp', ← eval_untag]
              simpa [Chk.attr, predOK, hpa] using hu.2.1
            show CatalogRules.isTreeNode CatalogRules.kNamesKey Obj.isStr t = true
            rw [name_tree_rule_eq_shipped]
            exact he
    · simp at hm
  | rootRef => simp [structural] at hs
  | kids => simp [structural] at hs
  | parentRef => simp [structural] at hs
  | refDict => simp [structural] at hs
  | refStream => simp [structural] at hs


/-! ### PART C: the mutated graph and the path to the mutated object -/

theorem lookup_edit (id : Nat) (F : Obj → Obj) : ∀ (g : Graph) (k : Nat × Nat),
    Graph.lookup (CatalogRules.Graph.edit id F g) k =
      if k = (id, 0) then (Graph.lookup g k).map F else Graph.lookup g k
  | [], k => by simp [CatalogRules.Graph.edit, Graph.lookup]
  | (k', v) :: t, k => by
    unfold CatalogRules.Graph.edit
    by_cases h : k' = (id, 0)
    · simp only [h, if_true, Graph.lookup]
      by_cases h2 : (id, 0) = k
      · simp [h2]
      · have : ¬ k = (id, 0) := fun e => h2 e.symm
        simp [h2, this]
    · simp only [h, if_false, Graph.lookup]
      by_cases h2 : k' = k
      · have : ¬ k = (id, 0) := by rw [← h2]; exact h
        simp [h2, this]
      · simp only [h2, if_false]
        exact lookup_edit id F t k

def allDS (g : Graph) : Bool := g.all fun e => isDS e.2

theorem DS_of_allDS : ∀ (g : Graph), allDS g = true → DS g
  | [], _, k, v, h => by simp [Graph.lookup] at h
  | (k', v') :: t, hall, k, v, h => by
    simp only [allDS, List.all_cons, Bool.and_eq_true] at hall
    simp only [Graph.lookup] at h
    by_cases hk : k' = k
    · simp only [hk, if_true, Option.some.injEq] at h
      rw [← h]; exact hall.1
    · simp only [hk, if_false] at h
      exact DS_of_allDS t hall.2 k v h

theorem allDS_append (a b : Graph) : allDS (a ++ b) = (allDS a && allDS b) := by
  simp [allDS, List.all_append]

mutual
theorem defs_allDS : ∀ (n : Node) (p : Nat), allDS (n.defs p) = true
  | .page _ _, _ => rfl
  | .tmpl _ _, _ => rfl
  | .pages i c kids, p => by
    simp only [Node.defs, allDS, List.all_cons, Bool.and_eq_true]
    exact ⟨rfl, defss_allDS kids i⟩
theorem defss_allDS : ∀ (ns : Nodes) (p : Nat), allDS (ns.defs p) = true
  | .nil, _ => rfl
  | .cons n t, p => by
    simp only [Nodes.defs, allDS_append, Bool.and_eq_true]
    exact ⟨defs_allDS n p, defss_allDS t p⟩
end

theorem graph_DS (d : Doc) : DS d.graph := by
  apply DS_of_allDS
  rw [graph_split, allDS_append, allDS_append, allDS_append]
  simp only [Bool.and_eq_true]
  refine ⟨?_, ?_, ?_, ?_⟩
  · simp only [treeGraph, allDS, List.all_cons, Bool.and_eq_true]
    exact ⟨rfl, defss_allDS d.kids d.rootId⟩
  · cases d.cat.outlines <;> rfl
  · cases d.cat.metadata <;> rfl
  · cases d.cat.x.dests <;> rfl

theorem editDict_DS (f : ObjL → ObjL) (v : Obj) (h : isDS v = true) : isDS (editDict f v) = true := by
  cases v <;> simp_all [isDS, editDict]

theorem edit_DS (g : Graph) (hg : DS g) (id : Nat) (f : ObjL → ObjL) :
    DS (CatalogRules.Graph.edit id (editDict f) g) := by
  intro k v h
  rw [lookup_edit] at h
  by_cases hk : k = (id, 0)
  · simp only [hk, if_true] at h
    cases hl : Graph.lookup g (id, 0) with
    | none => simp [hl] at h
    | some v0 =>
      simp only [hl, Option.map_some, Option.some.injEq] at h
      rw [← h]
      exact editDict_DS f v0 (hg _ _ hl)
  · simp only [hk, if_false] at h
    exact hg _ _ h

/-! kinds, their /Type names, closed facts -/

def typeName : DictKind → Bytes
  | .catalog => nCatalog
  | .root => kPages
  | .node => kPages
  | .page => nPage
  | .tmpl => nTemplate

def kidKind (K : DictKind) : Prop := K = .node ∨ K = .page ∨ K = .tmpl

/-- the alternative `K'` may be tried for an object rendered as kind `K` -/
def allowed (K K' : DictKind) : Prop := K' = K ∨ (kidKind K ∧ kidKind K')

theorem allKinds (K : DictKind) : K ∈ [DictKind.catalog, .root, .node, .page, .tmpl] := by
  cases K <;> simp

theorem T_table (K : DictKind) : lookupKey (keyTable K) kType = some (.nameIs (typeName K)) := by
  cases K <;> rfl

theorem type_required (K : DictKind) : (requiredKeys K).contains kType = true := by
  cases K <;> decide

theorem lookupKey_mem {α : Type} : ∀ (l : List (Bytes × α)) (k : Bytes) (v : α), lookupKey l k = some v → (k, v) ∈ l
  | [], _, _, h => by simp [lookupKey] at h
  | (k', v') :: t, k, v, h => by
    unfold lookupKey at h
    by_cases hk : k' = k
    · simp only [hk, if_true, Option.some.injEq] at h
      simp [← hk, h]
    · simp only [hk, if_false] at h
      exact List.mem_cons_of_mem _ (lookupKey_mem t k v h)

theorem F_required :
    ∀ k ∈ [DictKind.catalog, .root, .node, .page, .tmpl], ∀ c ∈ rawChks k, ∀ key ∈ requiredKeys k,
      (findEnt (entsOf c) key).map (·.1) = some .required := by
  decide +kernel

theorem F_alts : ∀ b, ∀ alt ∈ (rawAltsL (kidC b)).chks, alt = pageC b ∨ alt = nodeAlt b ∨ alt = tmplC b := by
  decide +kernel

theorem entry_of_table (K : DictKind) (A : Chk) (hA : A ∈ rawChks K) (key : Bytes) (vk : ValKind)
    (h : lookupKey (keyTable K) key = some vk) :
    ∃ opt c', findEnt (entsOf A) key = some (opt, c') ∧
      opt = (if (requiredKeys K).contains key then KeySpec.required else .optional) ∧ kindMatches vk c' = true := by
  have hF := F_kind K (allKinds K) A hA (key, vk) (lookupKey_mem _ _ _ h)
  unfold entryMatches at hF
  cases hf : findEnt (entsOf A) key with
  | none => simp [hf] at hF
  | some oc =>
    obtain ⟨opt, c'⟩ := oc
    simp only [hf, Bool.and_eq_true, decide_eq_true_eq] at hF
    exact ⟨opt, c', rfl, hF.1, hF.2⟩

/-- a dictionary that conforms to a shipped dictionary type of kind `K'` has a /Type entry, and when that is a
    direct value it is the name of the kind -/
theorem type_of_conf (g : Graph) (hg : DS g) (K' : DictKind) (A : Chk) (hA : A ∈ rawChks K') (kvs : ObjL)
    (h : DictConf g shippedCtx kvs (entsOf A)) :
    ∃ x, kvs.get kType = some x ∧ (x.isRef = false → x = .name (typeName K')) := by
  obtain ⟨opt, c', hf, ho, hkm⟩ := entry_of_table K' A hA kType _ (T_table K')
  rw [type_required K'] at ho
  simp only [if_true] at ho
  obtain ⟨x, hx⟩ := (h kType opt c' hf).1 ho
  refine ⟨x, hx, fun hr => ?_⟩
  have hc := (h kType opt c' hf).2.2 x hx
  have := kind_sound g hg _ c' hkm rfl x hr (by simp [refEntry]) hc
  simpa [fitsKind] using this

theorem typeName_kid {K K' : DictKind} (hK : kidKind K) (hK' : kidKind K') (h : typeName K = typeName K') :
    K' = K := by
  rcases hK with rfl | rfl | rfl <;> rcases hK' with rfl | rfl | rfl <;> first | rfl | (revert h; decide)

theorem own_kind (g : Graph) (hg : DS g) (K K' : DictKind) (hK : allowed K K') (A : Chk) (hA : A ∈ rawChks K')
    (kvs : ObjL) (hdc : DictConf g shippedCtx kvs (entsOf A))
    (ht : kvs.get kType = some (.name (typeName K))) : K' = K := by
  obtain ⟨x, hx, hn⟩ := type_of_conf g hg K' A hA kvs hdc
  rw [ht] at hx
  simp only [Option.some.injEq] at hx
  subst hx
  have := hn rfl
  simp only [Obj.name.injEq] at this
  rcases hK with h | ⟨h1, h2⟩
  · exact h
  · exact typeName_kid h1 h2 this

/-! the path from the catalog to an object of the page tree -/

theorem refs_eq_map : ∀ ns : Nodes, ns.refs = ns.toList.map fun n => Obj.ref n.id 0
  | .nil => rfl
  | .cons n t => by simp [Nodes.refs, Nodes.toList, refs_eq_map t]

theorem mem_refs (ns : Nodes) (n : Node) (h : n ∈ ns.toList) : Obj.ref n.id 0 ∈ (arrOf ns.refs).vals := by
  rw [arrOf_vals, refs_eq_map]
  exact List.mem_map_of_mem h

theorem kKids_eq : TC.kKids = CatalogRules.kKids := rfl

theorem isRef_catalog (d : Doc) : (catalogDict d).isRef = false := rfl

/-- catalog conforms ⟹ the reference to the root conforms to the root type -/
theorem cat_step (d : Doc) (g : Graph) (h : Conforms g shippedCtx (catalogDict d) shippedCat) :
    Conforms g shippedCtx (.ref d.rootId 0) rootR := by
  obtain ⟨kvs, hk, hdc⟩ := inv_dict h F_dicts.1
  rw [value_nonref g _ (isRef_catalog d), catalogDict_eq] at hk
  simp only [Obj.dict.injEq] at hk
  subst hk
  have hg : (dictOfList (optPairs (catRows d))).get kPages = some (.ref d.rootId 0) :=
    get_rows (catRows d) (catRows_nodup d) kPages _ (by simp [catRows])
  exact (hdc kPages .required rootR F_find.1).2.2 _ hg

theorem node_get_kids (c : Int) (kids : Nodes) (parent : Option Obj) :
    (dictOfList (optPairs (nodeRows c kids parent))).get CatalogRules.kKids = some (.arr (arrOf kids.refs)) :=
  get_rows _ (nodeRows_nodup c kids parent) _ _ (by simp [nodeRows])

theorem node_get_type (c : Int) (kids : Nodes) (parent : Option Obj) :
    (dictOfList (optPairs (nodeRows c kids parent))).get kType = some (.name kPages) :=
  get_rows _ (nodeRows_nodup c kids parent) _ _ (by simp [nodeRows])

theorem page_get_type (o : PageOpts) (parent : Option Obj) (typ : Bytes) :
    (dictOfList (optPairs (pageRows o parent typ))).get kType = some (.name typ) :=
  get_rows _ (pageRows_nodup o parent typ) _ _ (by simp [pageRows])

theorem cat_get_type (d : Doc) : (dictOfList (optPairs (catRows d))).get kType = some (.name nCatalog) :=
  get_rows _ (catRows_nodup d) _ _ (by simp [catRows])

theorem isRef_arr (xs : ObjL) : (Obj.arr xs).isRef = false := rfl

/-- the root conforms (and is unmutated) ⟹ every kid reference conforms to the kid type -/
theorem root_step (d : Doc) (g : Graph) (hl : g.lookup (d.rootId, 0) = some (nodeDict d.count d.kids none))
    (h : Conforms g shippedCtx (.ref d.rootId 0) rootR) :
    ∀ n ∈ d.kids.toList, Conforms g shippedCtx (.ref n.id 0) kidRR := by
  obtain ⟨kvs, hk, hdc⟩ := inv_dict h F_dicts.2.1
  rw [value_ref g _ _ _ hl rfl, nodeDict_eq] at hk
  simp only [Obj.dict.injEq] at hk
  subst hk
  have hc := (hdc _ _ _ F_find.2.2.2.2.1).2.2 _ (kKids_eq ▸ node_get_kids d.count d.kids none)
  obtain ⟨xs, hxs, _, hall⟩ := inv_array hc F_arrays.1
  rw [value_nonref g _ (isRef_arr _)] at hxs
  simp only [Obj.arr.injEq] at hxs
  subst hxs
  intro n hn
  exact hall _ (mem_refs d.kids n hn)

/-- the alternatives of the kid disjunction: a kid reference that conforms denotes a dictionary conforming to
    the node, the page or the template type -/
theorem kid_alts (g : Graph) (b : Bool) (id : Nat) (kvs : ObjL) (hl : g.lookup (id, 0) = some (.dict kvs))
    (h : Conforms g shippedCtx (.ref id 0) (kidC b)) :
    ∃ K', kidKind K' ∧ ∃ A ∈ rawChks K', DictConf g shippedCtx kvs (entsOf A) := by
  obtain ⟨_, alt, hm, hc⟩ := inv_disj h (F_arrays.2.2.1 b)
  have hval : value g (.ref id 0) = .dict kvs := value_ref g _ _ _ hl rfl
  rcases F_alts b alt hm with rfl | rfl | rfl
  · obtain ⟨kvs', hk, hdc⟩ := inv_dict hc (F_dicts.2.2.2.1 b)
    rw [hval] at hk; simp only [Obj.dict.injEq] at hk; subst hk
    exact ⟨.page, Or.inr (Or.inl rfl), pageC b, by cases b <;> simp [rawChks], hdc⟩
  · obtain ⟨kvs', hk, hdc⟩ := inv_dict hc (F_dicts.2.2.1 b)
    rw [hval] at hk; simp only [Obj.dict.injEq] at hk; subst hk
    exact ⟨.node, Or.inl rfl, nodeR, by simp [rawChks], hdc⟩
  · obtain ⟨kvs', hk, hdc⟩ := inv_dict hc (F_dicts.2.2.2.2 b)
    rw [hval] at hk; simp only [Obj.dict.injEq] at hk; subst hk
    exact ⟨.tmpl, Or.inr (Or.inr rfl), tmplC b, by cases b <;> simp [rawChks], hdc⟩

/-- an (unmutated) inner node conforms ⟹ every kid reference conforms to the kid type -/
theorem node_step (g : Graph) (hg : DS g) (b : Bool) (i : Nat) (c : Int) (kids : Nodes) (p : Nat)
    (hl : g.lookup (i, 0) = some (nodeDict c kids (some (.ref p 0))))
    (h : Conforms g shippedCtx (.ref i 0) (kidC b)) :
    ∀ n ∈ kids.toList, Conforms g shippedCtx (.ref n.id 0) kidNR := by
  rw [nodeDict_eq] at hl
  obtain ⟨K', hK', A, hA, hdc⟩ := kid_alts g b i _ hl h
  have hown := own_kind g hg .node K' (Or.inr ⟨Or.inl rfl, hK'⟩) A hA _ hdc (node_get_type c kids _)
  subst hown
  simp only [rawChks, List.mem_cons, List.not_mem_nil, or_false] at hA
  subst hA
  have hc := (hdc _ _ _ F_find.2.2.2.2.2.2.2.1).2.2 _ (kKids_eq ▸ node_get_kids c kids _)
  obtain ⟨xs, hxs, _, hall⟩ := inv_array hc F_arrays.2.1
  rw [value_nonref g _ (isRef_arr _)] at hxs
  simp only [Obj.arr.injEq] at hxs
  subst hxs
  intro n hn
  exact hall _ (mem_refs kids n hn)

/-- In a graph that agrees with the rendered graph except at object `id`: if the catalog conforms, then so does
    the reference to every page-tree object whose subtree contains `id` (its proper ancestors are unmutated). -/
theorem reach (d : Doc) (hok : d.ok = true) (id : Nat) (hid : id ≠ d.rootId) (g : Graph) (hg : DS g)
    (hsame : ∀ k, k ≠ id → g.lookup (k, 0) = Graph.lookup d.graph (k, 0))
    (hcat : Conforms g shippedCtx (catalogDict d) shippedCat) :
    ∀ b p n, Sub d b p n → id ∈ n.ids → Conforms g shippedCtx (.ref n.id 0) (kidC b) := by
  intro b p n hsub
  induction hsub with
  | top n hn =>
    intro _
    have hl : g.lookup (d.rootId, 0) = some (nodeDict d.count d.kids none) := by
      rw [hsame _ (fun e => hid e.symm), graph_lookup_root]
    exact root_step d g hl (cat_step d g hcat) n hn
  | deep b p i c kids n hpar hn ih =>
    intro hidn
    have hin : id ∈ kids.ids := ids_sub kids n hn id hidn
    have hp := ih (by simp [Node.ids, hin])
    have hnd := (sub_ids d hok b p _ hpar).1
    simp only [Node.ids, List.nodup_cons] at hnd
    have hne : i ≠ id := fun e => hnd.1 (e ▸ hin)
    have hl : g.lookup (i, 0) = some (nodeDict c kids (some (.ref p 0))) := by
      rw [hsame _ hne]; exact graph_lookup_sub d hok b p _ hpar
    exact node_step g hg b i c kids p hl hp n hn

mutual
theorem find_sub_node (d : Doc) (id : Nat) : ∀ (n : Node) (b : Bool) (p : Nat), Sub d b p n →
    ∀ r q, n.find p id = some (r, q) → ∃ b', Sub d b' q r ∧ r.id = id
  | .page i o, b, p, hs, r, q, h => by
    simp only [Node.find] at h
    by_cases hi : i = id
    · simp only [hi, if_true, Option.some.injEq, Prod.mk.injEq] at h
      obtain ⟨rfl, rfl⟩ := h
      exact ⟨b, hi ▸ hs, rfl⟩
    · simp [hi] at h
  | .tmpl i o, b, p, hs, r, q, h => by
    simp only [Node.find] at h
    by_cases hi : i = id
    · simp only [hi, if_true, Option.some.injEq, Prod.mk.injEq] at h
      obtain ⟨rfl, rfl⟩ := h
      exact ⟨b, hi ▸ hs, rfl⟩
    · simp [hi] at h
  | .pages i c kids, b, p, hs, r, q, h => by
    simp only [Node.find] at h
    by_cases hi : i = id
    · simp only [hi, if_true, Option.some.injEq, Prod.mk.injEq] at h
      obtain ⟨rfl, rfl⟩ := h
      exact ⟨b, hi ▸ hs, rfl⟩
    · simp only [hi, if_false] at h
      exact find_sub_nodes d id kids false i (fun k hk => Sub.deep b p i c kids k hs hk) r q h
theorem find_sub_nodes (d : Doc) (id : Nat) : ∀ (ns : Nodes) (b : Bool) (p : Nat),
    (∀ k ∈ ns.toList, Sub d b p k) → ∀ r q, ns.find p id = some (r, q) → ∃ b', Sub d b' q r ∧ r.id = id
  | .nil, _, _, _, r, q, h => by simp [Nodes.find] at h
  | .cons n t, b, p, hs, r, q, h => by
    simp only [Nodes.find] at h
    cases hf : n.find p id with
    | some rq =>
      simp only [hf, Option.some.injEq] at h
      subst h
      exact find_sub_node d id n b p (hs n (by simp [Nodes.toList])) r q hf
    | none =>
      simp only [hf] at h
      exact find_sub_nodes d id t b p (fun k hk => hs k (by simp [Nodes.toList, hk])) r q h
end


/-! ### PART D: the local violation of each mutation class, and the theorem -/

/-- what the local lemmas need to know about the rendered dictionary of a position of kind `K` -/
structure Rendered (K : DictKind) (kvs : ObjL) (kids : List Node) : Prop where
  nodup : kvs.keys.Nodup
  typ : kvs.get kType = some (.name (typeName K))
  kidsEnt : kids ≠ [] → (K = .root ∨ K = .node) ∧
    ∃ ns : Nodes, kids = ns.toList ∧ kvs.get CatalogRules.kKids = some (.arr (arrOf ns.refs))

theorem rows_keys_nodup (L : List (Bytes × Option Obj)) (h : (L.map (·.1)).Nodup) :
    (dictOfList (optPairs L)).keys.Nodup := by
  rw [keys_dictOfList]; exact optPairs_nodup L h

theorem kType_ne_kParent : kParent ≠ kType := by decide
theorem kType_ne_kKids : CatalogRules.kKids ≠ kType := by decide

/-- dropping a required key -/
theorem L_drop (K : DictKind) (kids : List Node) (key : Bytes) (hkey : key ∈ requiredKeys K)
    (kvs : ObjL) (hr : Rendered K kvs kids) (g : Graph) (hg : DS g) (K' : DictKind) (hK : allowed K K')
    (A : Chk) (hA : A ∈ rawChks K') (hdc : DictConf g shippedCtx (CatalogRules.ObjL.erase key kvs) (entsOf A)) :
    False := by
  by_cases hk : key = kType
  · subst hk
    obtain ⟨x, hx, _⟩ := type_of_conf g hg K' A hA _ hdc
    rw [get_erase_eq kType kvs hr.nodup] at hx
    cases hx
  · have ht : (CatalogRules.ObjL.erase key kvs).get kType = some (.name (typeName K)) := by
      rw [get_erase_ne key kType (fun e => hk e.symm)]; exact hr.typ
    have := own_kind g hg K K' hK A hA _ hdc ht
    subst this
    have hF := F_required K' (allKinds K') A hA key hkey
    cases hf : findEnt (entsOf A) key with
    | none => simp [hf] at hF
    | some oc =>
      obtain ⟨opt, c'⟩ := oc
      simp only [hf, Option.map_some, Option.some.injEq] at hF
      obtain ⟨x, hx⟩ := (hdc key opt c' hf).1 hF
      rw [get_erase_eq key kvs hr.nodup] at hx
      cases hx

/-- adding a forbidden key -/
theorem L_add (K : DictKind) (kids : List Node) (key : Bytes) (v : Obj) (hkey : key ∈ forbiddenKeys K)
    (kvs : ObjL) (hr : Rendered K kvs kids) (g : Graph) (hg : DS g) (K' : DictKind) (hK : allowed K K')
    (A : Chk) (hA : A ∈ rawChks K') (hdc : DictConf g shippedCtx (CatalogRules.ObjL.set key v kvs) (entsOf A)) :
    False := by
  have hk : kType ≠ key := by
    cases K <;> simp [forbiddenKeys] at hkey <;> subst hkey <;> decide
  have ht : (CatalogRules.ObjL.set key v kvs).get kType = some (.name (typeName K)) := by
    rw [get_set_ne key v kType hk]; exact hr.typ
  have := own_kind g hg K K' hK A hA _ hdc ht
  subst this
  have hF := F_forbidden K' (allKinds K') A hA key hkey
  cases hf : findEnt (entsOf A) key with
  | none => simp [hf] at hF
  | some oc =>
    obtain ⟨opt, c'⟩ := oc
    simp only [hf, Option.map_some, Option.some.injEq] at hF
    have := (hdc key opt c' hf).2.1 hF
    rw [get_set_eq] at this
    cases this

theorem kindChange_kid {K K' : DictKind} (hK : kidKind K) (hK' : kidKind K') :
    kindChange K kType (.name (typeName K')) = true := by
  rcases hK with rfl | rfl | rfl <;> rcases hK' with rfl | rfl | rfl <;> decide

/-- a direct value of the wrong type (or an unlisted name) under a key of the rules' table -/
theorem L_wrong (K : DictKind) (kids : List Node) (key : Bytes) (v : Obj) (vk : ValKind)
    (hl : lookupKey (keyTable K) key = some vk) (hs : structural vk = false) (hvr : v.isRef = false)
    (hfit : fitsKind vk v = false) (hkc : kindChange K key v = false) (hre : refEntry vk v = false)
    (kvs : ObjL) (hr : Rendered K kvs kids) (g : Graph) (hg : DS g) (K' : DictKind) (hK : allowed K K')
    (A : Chk) (hA : A ∈ rawChks K') (hdc : DictConf g shippedCtx (CatalogRules.ObjL.set key v kvs) (entsOf A)) :
    False := by
  by_cases hk : key = kType
  · subst hk
    obtain ⟨x, hx, hn⟩ := type_of_conf g hg K' A hA _ hdc
    rw [get_set_eq] at hx
    simp only [Option.some.injEq] at hx
    subst hx
    have hv := hn hvr
    rcases hK with h | ⟨h1, h2⟩
    · subst h
      rw [T_table K'] at hl
      simp only [Option.some.injEq] at hl
      subst hl
      rw [hv] at hfit
      simp [fitsKind] at hfit
    · rw [hv, kindChange_kid h1 h2] at hkc
      cases hkc
  · have ht : (CatalogRules.ObjL.set key v kvs).get kType = some (.name (typeName K)) := by
      rw [get_set_ne key v kType (fun e => hk e.symm)]; exact hr.typ
    have := own_kind g hg K K' hK A hA _ hdc ht
    subst this
    obtain ⟨opt, c', hf, _, hkm⟩ := entry_of_table K' A hA key vk hl
    have hc := (hdc key opt c' hf).2.2 v (get_set_eq key v kvs)
    have := kind_sound g hg vk c' hkm hs v hvr hre hc
    rw [hfit] at this
    cases this

/-- /Parent given as a direct object -/
theorem L_parent (K : DictKind) (kids : List Node) (v : Obj) (hreq : kParent ∈ requiredKeys K)
    (hvr : v.isRef = false)
    (kvs : ObjL) (hr : Rendered K kvs kids) (g : Graph) (hg : DS g) (K' : DictKind) (hK : allowed K K')
    (A : Chk) (hA : A ∈ rawChks K') (hdc : DictConf g shippedCtx (CatalogRules.ObjL.set kParent v kvs) (entsOf A)) :
    False := by
  have ht : (CatalogRules.ObjL.set kParent v kvs).get kType = some (.name (typeName K)) := by
    rw [get_set_ne kParent v kType (fun e => kType_ne_kParent e.symm)]; exact hr.typ
  have := own_kind g hg K K' hK A hA _ hdc ht
  subst this
  have hl : lookupKey (keyTable K') kParent = some .parentRef := by
    cases K' <;> first | rfl | (revert hreq; decide)
  obtain ⟨opt, c', hf, _, hkm⟩ := entry_of_table K' A hA kParent _ hl
  have hc := (hdc kParent opt c' hf).2.2 v (get_set_eq kParent v kvs)
  have hres : res c' = .any ⟨none, .required⟩ := by simpa [kindMatches] using hkm
  have hu := Conforms_unfold hc (resolve_of_res c' _ hres (by simp))
  have := hu.1
  simp only [Chk.attr, indOK] at this
  rw [hvr] at this
  cases this

theorem setNth_mem (v : Obj) : ∀ (i : Nat) (xs : ObjL), i < xs.vals.length → v ∈ (CatalogRules.ObjL.setNth v i xs).vals
  | _, .nil, h => by simp [ObjL.vals, ObjL.toList] at h
  | 0, .cons k x t, _ => by simp [CatalogRules.ObjL.setNth, ObjL.vals, ObjL.toList]
  | i+1, .cons k x t, h => by
    have h' : i < t.vals.length := by
      simp only [ObjL.vals, ObjL.toList, List.map_cons, List.length_cons] at h
      simpa [ObjL.vals] using Nat.lt_of_succ_lt_succ h
    have := setNth_mem v i t h'
    simp only [CatalogRules.ObjL.setNth, ObjL.vals, ObjL.toList, List.map_cons, List.mem_cons]
    exact Or.inr (by simpa [ObjL.vals] using this)

theorem refs_length (ns : Nodes) : (arrOf ns.refs).vals.length = ns.toList.length := by
  rw [arrOf_vals, refs_eq_map, List.length_map]

/-- the body of the `directKid` edit -/
def kidEdit (kd : Obj) (i : Nat) (kvs : ObjL) : ObjL :=
  match kvs.get CatalogRules.kKids with
  | some (.arr xs) => CatalogRules.ObjL.set CatalogRules.kKids (.arr (CatalogRules.ObjL.setNth kd i xs)) kvs
  | _ => kvs

/-- a kid embedded directly -/
theorem L_kid (K : DictKind) (kids : List Node) (i : Nat) (hi : i < kids.length) (kd : Obj) (hkd : kd.isRef = false)
    (kvs : ObjL) (hr : Rendered K kvs kids) (g : Graph) (hg : DS g) (K' : DictKind) (hK : allowed K K')
    (A : Chk) (hA : A ∈ rawChks K') (hdc : DictConf g shippedCtx (kidEdit kd i kvs) (entsOf A)) :
    False := by
  have hne : kids ≠ [] := by intro e; rw [e] at hi; simp at hi
  obtain ⟨hKr, ns, hkids, hget⟩ := hr.kidsEnt hne
  simp only [kidEdit, hget] at hdc
  have ht : (CatalogRules.ObjL.set CatalogRules.kKids (.arr (CatalogRules.ObjL.setNth kd i (arrOf ns.refs))) kvs).get kType
      = some (.name (typeName K)) := by
    rw [get_set_ne _ _ kType (fun e => kType_ne_kKids e.symm)]; exact hr.typ
  have := own_kind g hg K K' hK A hA _ hdc ht
  subst this
  have hmem : kd ∈ (CatalogRules.ObjL.setNth kd i (arrOf ns.refs)).vals := by
    apply setNth_mem
    rw [refs_length, ← hkids]; exact hi
  have hgk := get_set_eq CatalogRules.kKids (.arr (CatalogRules.ObjL.setNth kd i (arrOf ns.refs))) kvs
  -- the array check and its element check, for the root and for an inner node
  have key : ∀ (kidsC : Chk) (b : Bool), findEnt (entsOf A) TC.kKids = some (.required, kidsC) →
      resolve shippedCtx kidsC = some (.array Attr.dflt (kidC b) none) → False := by
    intro kidsC b hf hres
    have hc := (hdc _ _ _ hf).2.2 _ (kKids_eq ▸ hgk)
    obtain ⟨xs, hxs, _, hall⟩ := inv_array hc hres
    rw [value_nonref g _ (isRef_arr _)] at hxs
    simp only [Obj.arr.injEq] at hxs
    subst hxs
    have hck := hall kd hmem
    have := (inv_disj hck (F_arrays.2.2.1 b)).1
    simp only [indOK] at this
    rw [hkd] at this
    cases this
  rcases hKr with rfl | rfl
  · simp only [rawChks, List.mem_cons, List.not_mem_nil, or_false] at hA
    subst hA
    exact key kidsRR true F_find.2.2.2.2.1 F_arrays.1
  · simp only [rawChks, List.mem_cons, List.not_mem_nil, or_false] at hA
    subst hA
    exact key kidsNR false F_find.2.2.2.2.2.2.2.1 F_arrays.2.1

/-! the frame: a dictionary edit at a position is rejected when the edited dictionary violates every
    alternative that can be tried for it -/

theorem rendered_cat (d : Doc) : Rendered .catalog (dictOfList (optPairs (catRows d))) [] :=
  ⟨rows_keys_nodup _ (catRows_nodup d), cat_get_type d, fun h => absurd rfl h⟩

theorem rendered_node (K : DictKind) (hK : K = .root ∨ K = .node) (c : Int) (kids : Nodes) (parent : Option Obj) :
    Rendered K (dictOfList (optPairs (nodeRows c kids parent))) kids.toList := by
  refine ⟨rows_keys_nodup _ (nodeRows_nodup c kids parent), ?_, fun _ => ⟨hK, kids, rfl, node_get_kids c kids parent⟩⟩
  rcases hK with rfl | rfl <;> exact node_get_type c kids parent

theorem rendered_page (K : DictKind) (typ : Bytes) (hK : typeName K = typ) (o : PageOpts) (parent : Option Obj) :
    Rendered K (dictOfList (optPairs (pageRows o parent typ))) [] :=
  ⟨rows_keys_nodup _ (pageRows_nodup o parent typ), hK ▸ page_get_type o parent typ, fun h => absurd rfl h⟩

theorem frame (d : Doc) (hok : d.ok = true) (w : Where) (f : ObjL → ObjL) (K : DictKind) (dict : Obj)
    (kids : List Node) (parent : Nat) (hloc : locate d w = some (K, dict, kids, parent))
    (hlocal : ∀ kvs, Rendered K kvs kids → ∀ g, DS g → ∀ K', allowed K K' → ∀ A ∈ rawChks K',
      DictConf g shippedCtx (f kvs) (entsOf A) → False) :
    ¬ Conforms (editAt w f (CatalogRules.render d)).1 shippedCtx (editAt w f (CatalogRules.render d)).2 shippedCat := by
  intro hconf
  cases w with
  | catalog =>
    simp only [locate, Option.some.injEq, Prod.mk.injEq] at hloc
    obtain ⟨rfl, _, rfl, _⟩ := hloc
    simp only [editAt, CatalogRules.render] at hconf
    rw [catalogDict_eq] at hconf
    simp only [editDict] at hconf
    obtain ⟨kvs, hk, hdc⟩ := inv_dict hconf F_dicts.1
    rw [value_nonref _ _ rfl] at hk
    simp only [Obj.dict.injEq] at hk
    subst hk
    exact hlocal _ (rendered_cat d) _ (graph_DS d) .catalog (Or.inl rfl) shippedCat (by simp [rawChks]) hdc
  | obj id =>
    simp only [editAt, CatalogRules.render] at hconf
    have hg := edit_DS d.graph (graph_DS d) id f
    have hroot := cat_step d _ hconf
    by_cases hid : id = d.rootId
    · subst hid
      simp only [locate, if_true, Option.some.injEq, Prod.mk.injEq] at hloc
      obtain ⟨rfl, _, rfl, _⟩ := hloc
      have hl : Graph.lookup (CatalogRules.Graph.edit d.rootId (editDict f) d.graph) (d.rootId, 0)
          = some (.dict (f (dictOfList (optPairs (nodeRows d.count d.kids none))))) := by
        rw [lookup_edit, graph_lookup_root, nodeDict_eq]; simp [editDict]
      obtain ⟨kvs, hk, hdc⟩ := inv_dict hroot F_dicts.2.1
      rw [value_ref _ _ _ _ hl rfl] at hk
      simp only [Obj.dict.injEq] at hk
      subst hk
      exact hlocal _ (rendered_node .root (Or.inl rfl) _ _ _) _ hg .root (Or.inl rfl) rootR (by simp [rawChks]) hdc
    · simp only [locate, hid, if_false] at hloc
      have hsame : ∀ k, k ≠ id → Graph.lookup (CatalogRules.Graph.edit id (editDict f) d.graph) (k, 0)
          = Graph.lookup d.graph (k, 0) := by
        intro k hk
        rw [lookup_edit]
        have : ¬ (k, 0) = (id, 0) := by simpa using hk
        simp [this]
      cases hf : d.kids.find d.rootId id with
      | none => simp [hf] at hloc
      | some rq =>
        obtain ⟨n, p⟩ := rq
        obtain ⟨b, hsub, hnid⟩ := find_sub_nodes d id d.kids true d.rootId (fun k hk => Sub.top k hk) n p hf
        have hreach := reach d hok id hid _ hg hsame hconf b p n hsub (hnid ▸ id_mem_ids n)
        rw [hnid] at hreach
        have hlk : Graph.lookup (CatalogRules.Graph.edit id (editDict f) d.graph) (id, 0)
            = some (editDict f (n.dict p)) := by
          rw [lookup_edit, ← hnid, graph_lookup_sub d hok b p n hsub]; simp
        -- the three shapes of the located object
        have fin : ∀ (K0 : DictKind) (kvs0 : ObjL), kidKind K0 → n.dict p = .dict kvs0 → Rendered K0 kvs0 kids →
            K = K0 → False := by
          intro K0 kvs0 hK0 hd hr hKK
          subst hKK
          rw [hd] at hlk
          simp only [editDict] at hlk
          obtain ⟨K', hK', A, hA, hdc⟩ := kid_alts _ b id _ hlk hreach
          exact hlocal kvs0 hr _ hg K' (Or.inr ⟨hK0, hK'⟩) A hA hdc
        cases n with
        | page i o =>
          simp only [hf, Option.some.injEq, Prod.mk.injEq] at hloc
          obtain ⟨hK, _, hkids, _⟩ := hloc
          subst hkids
          exact fin .page _ (Or.inr (Or.inl rfl)) (by simp only [Node.dict]; exact pageDict_eq _ _ _)
            (rendered_page .page nPage rfl o _) hK.symm
        | tmpl i o =>
          simp only [hf, Option.some.injEq, Prod.mk.injEq] at hloc
          obtain ⟨hK, _, hkids, _⟩ := hloc
          subst hkids
          exact fin .tmpl _ (Or.inr (Or.inr rfl)) (by simp only [Node.dict]; exact pageDict_eq _ _ _)
            (rendered_page .tmpl nTemplate rfl o _) hK.symm
        | pages i c k =>
          simp only [hf, Option.some.injEq, Prod.mk.injEq] at hloc
          obtain ⟨hK, _, hkids, _⟩ := hloc
          subst hkids
          exact fin .node _ (Or.inl rfl) (by simp only [Node.dict]; exact nodeDict_eq _ _ _)
            (rendered_node .node (Or.inr rfl) c k _) hK.symm

theorem isRef_node_dict (n : Node) (p : Nat) : (n.dict p).isRef = false := by
  cases n <;> rfl

/-- THE REJECTION HALF.  For every well-formed document `d` (any shape, any optional entries) and EVERY valid
    single-rule mutation `m` of it -- dropping a required key, adding a forbidden one, a direct value of the
    wrong type, an unlisted name, a kid embedded directly, /Parent given directly; at the catalog, the root, or
    any object of the page tree at any depth -- the mutated catalog does NOT conform to the regenerated shipped
    specification (declarative reading). -/
theorem mutated_rejected (d : Doc) (hok : d.ok = true) (m : Mutation) (hv : m.valid d = true) :
    ¬ Conforms (mutate m d).1 shippedCtx (mutate m d).2 shippedCat := by
  cases m with
  | dropRequired w key =>
    simp only [Mutation.valid] at hv
    cases hloc : locate d w with
    | none => simp [hloc] at hv
    | some r =>
      obtain ⟨K, dict, kids, parent⟩ := r
      simp only [hloc, List.contains_eq_mem, decide_eq_true_eq] at hv
      exact frame d hok w _ K dict kids parent hloc
        (fun kvs hr g hg K' hK A hA hdc => L_drop K kids key hv kvs hr g hg K' hK A hA hdc)
  | addForbidden w key v =>
    simp only [Mutation.valid] at hv
    cases hloc : locate d w with
    | none => simp [hloc] at hv
    | some r =>
      obtain ⟨K, dict, kids, parent⟩ := r
      simp only [hloc, List.contains_eq_mem, decide_eq_true_eq] at hv
      exact frame d hok w _ K dict kids parent hloc
        (fun kvs hr g hg K' hK A hA hdc => L_add K kids key v hv kvs hr g hg K' hK A hA hdc)
  | wrongType w key v =>
    simp only [Mutation.valid] at hv
    cases hloc : locate d w with
    | none => simp [hloc] at hv
    | some r =>
      obtain ⟨K, dict, kids, parent⟩ := r
      simp only [hloc] at hv
      cases hl : lookupKey (keyTable K) key with
      | none => simp [hl] at hv
      | some vk =>
        simp only [hl, Bool.and_eq_true, Bool.not_eq_true'] at hv
        exact frame d hok w _ K dict kids parent hloc
          (fun kvs hr g hg K' hK A hA hdc =>
            L_wrong K kids key v vk hl hv.1.1.1.1 hv.1.1.1.2 hv.1.1.2 hv.1.2 hv.2 kvs hr g hg K' hK A hA hdc)
  | unlistedName w key n =>
    simp only [Mutation.valid] at hv
    cases hloc : locate d w with
    | none => simp [hloc] at hv
    | some r =>
      obtain ⟨K, dict, kids, parent⟩ := r
      simp only [hloc] at hv
      cases hl : lookupKey (keyTable K) key with
      | none => simp [hl] at hv
      | some vk =>
        have hne : ∀ vk', vk = vk' → (∀ x, vk' ≠ .nameIs x) → (∀ l, vk' ≠ .nameIn l) → False := by
          intro vk' e h1 h2
          subst e
          cases vk <;> simp [hl] at hv <;> first | exact h1 _ rfl | exact h2 _ rfl
        cases vk with
        | nameIs x =>
          simp only [hl, Bool.and_eq_true, Bool.not_eq_true', decide_eq_true_eq] at hv
          exact frame d hok w _ K dict kids parent hloc
            (fun kvs hr g hg K' hK A hA hdc =>
              L_wrong K kids key (.name n) _ hl rfl rfl (by simp [fitsKind, hv.1]) hv.2 rfl
                kvs hr g hg K' hK A hA hdc)
        | nameIn l =>
          simp only [hl, Bool.not_eq_true'] at hv
          have hkt : key ≠ kType := by
            intro e
            rw [e, T_table K] at hl
            cases hl
          have hkc : kindChange K key (.name n) = false := by
            simp [kindChange, hkt]
          exact frame d hok w _ K dict kids parent hloc
            (fun kvs hr g hg K' hK A hA hdc =>
              L_wrong K kids key (.name n) _ hl rfl rfl (by simpa [fitsKind] using hv) hkc rfl
                kvs hr g hg K' hK A hA hdc)
        | _ => exact (hne _ rfl (by intro x; simp) (by intro l; simp)).elim
  | directParent w v =>
    simp only [Mutation.valid] at hv
    cases hloc : locate d w with
    | none => simp [hloc] at hv
    | some r =>
      obtain ⟨K, dict, kids, parent⟩ := r
      simp only [hloc, Bool.and_eq_true, Bool.not_eq_true', List.contains_eq_mem, decide_eq_true_eq] at hv
      exact frame d hok w _ K dict kids parent hloc
        (fun kvs hr g hg K' hK A hA hdc => L_parent K kids v hv.1 hv.2 kvs hr g hg K' hK A hA hdc)
  | directKid w i =>
    simp only [Mutation.valid] at hv
    cases hloc : locate d w with
    | none => simp [hloc] at hv
    | some r =>
      obtain ⟨K, dict, kids, parent⟩ := r
      simp only [hloc, decide_eq_true_eq] at hv
      cases w with
      | catalog =>
        simp only [locate, Option.some.injEq, Prod.mk.injEq] at hloc
        obtain ⟨_, _, rfl, _⟩ := hloc
        simp at hv
      | obj id =>
        have hkid : kids[i]? = some (kids[i]'hv) := List.getElem?_eq_getElem hv
        have hm : mutate (.directKid (.obj id) i) d =
            editAt (.obj id) (kidEdit ((kids[i]'hv).dict id) i) (CatalogRules.render d) := by
          simp only [mutate, hloc, hkid]
          rfl
        rw [hm]
        exact frame d hok (.obj id) _ K dict kids parent hloc
          (fun kvs hr g hg K' hK A hA hdc =>
            L_kid K kids i hv _ (isRef_node_dict _ _) kvs hr g hg K' hK A hA hdc)


/-! non-vacuity: one valid mutation of each class, at the catalog, the root and two / three levels down
    (`wDoc3`: root 1 -> node 2 -> node 3 -> page 4, template 5; `wDoc2`/`wMut2`: the memo-leak witness, which the
    MACHINE accepts -- declaratively it is rejected) -/
example : ¬ Conforms (mutate (.dropRequired (.obj 4) kParent) wDoc3).1 shippedCtx
    (mutate (.dropRequired (.obj 4) kParent) wDoc3).2 shippedCat :=
  mutated_rejected wDoc3 (by decide) _ (by decide)
example : ¬ Conforms (mutate (.addForbidden (.obj 5) kParent (.ref 3 0)) wDoc3).1 shippedCtx
    (mutate (.addForbidden (.obj 5) kParent (.ref 3 0)) wDoc3).2 shippedCat :=
  mutated_rejected wDoc3 (by decide) _ (by decide)
example : ¬ Conforms (mutate wMut2 wDoc2).1 shippedCtx (mutate wMut2 wDoc2).2 shippedCat :=
  mutated_rejected wDoc2 (by decide) _ (by decide)
example : ¬ Conforms (mutate (.unlistedName .catalog CatalogRules.kPageMode CatalogRules.nFoo) wDoc3).1 shippedCtx
    (mutate (.unlistedName .catalog CatalogRules.kPageMode CatalogRules.nFoo) wDoc3).2 shippedCat :=
  mutated_rejected wDoc3 (by decide) _ (by decide)
example : ¬ Conforms (mutate (.directKid (.obj 3) 1) wDoc3).1 shippedCtx (mutate (.directKid (.obj 3) 1) wDoc3).2 shippedCat :=
  mutated_rejected wDoc3 (by decide) _ (by decide)
example : ¬ Conforms (mutate wMut1 wDoc1).1 shippedCtx (mutate wMut1 wDoc1).2 shippedCat :=
  mutated_rejected wDoc1 (by decide) _ (by decide)
example : ¬ Conforms (mutate (.wrongType (.obj 1) kCount (.str [0x31])) wDoc3).1 shippedCtx
    (mutate (.wrongType (.obj 1) kCount (.str [0x31])) wDoc3).2 shippedCat :=
  mutated_rejected wDoc3 (by decide) _ (by decide)

/-! the entries added by the extended menu (`exDocFull`: page 2 and template 3 carry every entry): /B of the wrong
    type on a page (the surviving mutant of the mutation sweep deleted this entry from `page_type`), an ill-typed
    /Resources sub-entry, /Contents as an array with a non-stream element, /AF with a non-dictionary element, a
    dictionary-typed catalog entry given as an array, a name tree of the name dictionary that is ill-formed -/
example : ¬ Conforms (mutate (.wrongType (.obj 2) CatalogRules.kB (.int 5)) CatalogRules.exDocFull).1 shippedCtx
    (mutate (.wrongType (.obj 2) CatalogRules.kB (.int 5)) CatalogRules.exDocFull).2 shippedCat :=
  mutated_rejected CatalogRules.exDocFull (by decide) _ (by decide)
example : ¬ Conforms (mutate (.wrongType (.obj 5) CatalogRules.kB (.name [0x58])) CatalogRules.exDocFull).1 shippedCtx
    (mutate (.wrongType (.obj 5) CatalogRules.kB (.name [0x58])) CatalogRules.exDocFull).2 shippedCat :=
  mutated_rejected CatalogRules.exDocFull (by decide) _ (by decide)
def wBadResources : Obj := .dict (.cons CatalogRules.kFont (.int 3) .nil)
example : ¬ Conforms (mutate (.wrongType (.obj 3) CatalogRules.kResources wBadResources) CatalogRules.exDocFull).1 shippedCtx
    (mutate (.wrongType (.obj 3) CatalogRules.kResources wBadResources) CatalogRules.exDocFull).2 shippedCat :=
  mutated_rejected CatalogRules.exDocFull (by decide) _ (by decide)
def wBadContents : Obj := .arr (.cons [] (.stream .nil 0 []) (.cons [] (.dict .nil) .nil))
example : ¬ Conforms (mutate (.wrongType (.obj 2) CatalogRules.kContents wBadContents) CatalogRules.exDocFull).1 shippedCtx
    (mutate (.wrongType (.obj 2) CatalogRules.kContents wBadContents) CatalogRules.exDocFull).2 shippedCat :=
  mutated_rejected CatalogRules.exDocFull (by decide) _ (by decide)
example : ¬ Conforms (mutate (.wrongType (.obj 2) CatalogRules.kAF (.arr (.cons [] (.int 1) .nil))) CatalogRules.exDocFull).1
    shippedCtx (mutate (.wrongType (.obj 2) CatalogRules.kAF (.arr (.cons [] (.int 1) .nil))) CatalogRules.exDocFull).2
    shippedCat :=
  mutated_rejected CatalogRules.exDocFull (by decide) _ (by decide)
example : ¬ Conforms (mutate (.wrongType .catalog CatalogRules.kAcroForm (.arr .nil)) CatalogRules.exDocFull).1 shippedCtx
    (mutate (.wrongType .catalog CatalogRules.kAcroForm (.arr .nil)) CatalogRules.exDocFull).2 shippedCat :=
  mutated_rejected CatalogRules.exDocFull (by decide) _ (by decide)
def wBadNames : Obj := .dict (.cons CatalogRules.kJavaScript (.dict (.cons CatalogRules.kNamesKey (.int 42) .nil)) .nil)
example : ¬ Conforms (mutate (.wrongType .catalog CatalogRules.kNames wBadNames) wDoc3).1 shippedCtx
    (mutate (.wrongType .catalog CatalogRules.kNames wBadNames) wDoc3).2 shippedCat :=
  mutated_rejected wDoc3 (by decide) _ (by decide)

/-- templates do not declare /B: an ill-typed /B on a template is NOT a violation of the rules (not a valid
    mutation), and the shipped specification accepts it (unknown keys are not examined) -/
example :
    (Mutation.wrongType (.obj 3) CatalogRules.kB (.int 5)).valid CatalogRules.exDocFull = false ∧
    conf (mutate (.wrongType (.obj 3) CatalogRules.kB (.int 5)) CatalogRules.exDocFull).1 shippedCtx 30
      (mutate (.wrongType (.obj 3) CatalogRules.kB (.int 5)) CatalogRules.exDocFull).2 shippedCat = true := by
  decide +kernel

/-! ### PART E: the boundary of the rules -/

/-- root 1 -> node 2 -> page 3 -/
def wDocN : Doc := ⟨CatOpts.none, 1, 1, Nodes.ofList [.pages 2 1 (Nodes.ofList [.page 3 PageOpts.none])]⟩
/-- `/Names << /Dests 2 0 R >>`: the destination name tree given BY REFERENCE, to the page-tree node 2 -/
def wValN : Obj := .dict (.cons CatalogRules.kDests (.ref 2 0) .nil)
def wMutN : Mutation := .wrongType .catalog CatalogRules.kNames wValN

/-- The one place where "a value of the wrong type" needs the qualification DIRECT value: an entry of the name
    dictionary given by reference is judged by the shipped specification on the TARGET of the reference (the
    name-tree predicate sees `value g t`), and a page-tree node `<< /Type /Pages /Kids [refs] /Count .. >>` passes
    the name-tree predicate as an intermediate node (it has /Kids, an array of references, and neither /Names nor
    /Limits).  The rules do not follow references (`fitsKind` = false), so `Mutation.valid` excludes such
    replacement values (`refEntry`); the shipped specification read declaratively (and the machine) accept the
    catalog.  Not a defect of the code: ISO 32000 permits the indirection, and telling a name-tree node from a
    page-tree node would need a /Type the name tree does not have. -/
theorem names_entry_by_reference_witness :
    fitsKind .nameDict wValN = false ∧ refEntry .nameDict wValN = true ∧ wMutN.valid wDocN = false ∧
    conf (mutate wMutN wDocN).1 shippedCtx 40 (mutate wMutN wDocN).2 shippedCat = true ∧
    (checkTypeFuel Fix.tree (mutate wMutN wDocN).1 shippedCtx 4000 (mutate wMutN wDocN).2 shippedCat).1 = .accept := by
  decide +kernel

end Parsley.C10
