import Parsley.Model.PageDom
import Parsley.Spec.PageTree
namespace Parsley.C11
open Parsley Parsley.Obj Parsley.PageDom

theorem resolve_fuel_sufficient : True := trivial
end Parsley.C11
