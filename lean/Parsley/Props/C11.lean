/-
  Property C11: the page DOM lists every page once with correctly inherited resources.
  Theorems about the model `Parsley.PageDom` (Model/PageDom.lean) of the FIXED to_page_dom.
-/
import Parsley.Model.PageDom
import Parsley.Spec.PageTree
namespace Parsley.C11
open Parsley Parsley.Obj Parsley.PageDom

/-! ## A. measure: definitions not yet in a followed / examined set -/

def defIds (defs : Defs) : List ObjId := defs.map (·.1)

/-- number of bindings of `defs` whose identifier is not in `S` -/
def unseen (defs : Defs) (S : List ObjId) : Nat :=
  ((defIds defs).filter fun i => !S.contains i).length

theorem lookup_some_mem {defs : Defs} {id : ObjId} {o : Obj} (h : lookup defs id = some o) :
    id ∈ defIds defs := by
  induction defs with
  | nil => simp [lookup] at h
  | cons e t ih =>
    obtain ⟨k, v⟩ := e
    simp only [lookup] at h
    by_cases hk : (k == id) = true
    · have : k = id := by simpa using hk
      simp [defIds, this]
    · simp [hk] at h
      have := ih h
      simp [defIds] at this ⊢
      exact Or.inr this

theorem filter_len_mono {α} (p q : α → Bool) (hpq : ∀ x, p x = true → q x = true) (l : List α) :
    (l.filter p).length ≤ (l.filter q).length := by
  induction l with
  | nil => simp
  | cons x t ih =>
    simp only [List.filter_cons]
    by_cases hp : p x = true
    · have := hpq x hp
      simp [hp, this]; exact ih
    · by_cases hq : q x = true
      · simp [hp, hq]; omega
      · simp [hp, hq]; exact ih

theorem filter_len_lt {α} (p q : α → Bool) (hpq : ∀ x, p x = true → q x = true) (l : List α)
    (a : α) (ha : a ∈ l) (hqa : q a = true) (hpa : p a = false) :
    (l.filter p).length < (l.filter q).length := by
  induction l with
  | nil => simp at ha
  | cons x t ih =>
    simp only [List.filter_cons]
    have hm := filter_len_mono p q hpq t
    by_cases hxa : x = a
    · subst hxa
      simp [hpa, hqa]; omega
    · have ha' : a ∈ t := by
        cases ha with
        | head => exact absurd rfl hxa
        | tail _ h => exact h
      have := ih ha'
      by_cases hp : p x = true
      · have := hpq x hp
        simp [hp, this]; omega
      · by_cases hq : q x = true
        · simp [hp, hq]; omega
        · simp [hp, hq]; omega

theorem unseen_cons_lt {defs : Defs} {id : ObjId} {S : List ObjId} (hm : id ∈ defIds defs)
    (hs : S.contains id = false) : unseen defs (id :: S) < unseen defs S := by
  unfold unseen
  refine filter_len_lt _ _ ?_ _ id hm ?_ ?_
  · intro x hx
    simp only [List.contains_cons, Bool.not_eq_true', Bool.or_eq_false_iff, Bool.not_eq_eq_eq_not, Bool.not_true] at hx ⊢
    simp_all
  · have : id ∉ S := by simpa using hs
    simp [this]
  · simp

theorem unseen_le (defs : Defs) (S : List ObjId) : unseen defs S ≤ defs.length := by
  unfold unseen defIds
  calc _ ≤ (defs.map (·.1)).length := List.length_filter_le _ _
    _ = defs.length := by simp

/-! ## B. resolve_chain terminates within |defs| hops -/

theorem resolveLoop_ne_panic (defs : Defs) : ∀ (fuel : Nat) (followed : List ObjId) (src : Src) (o : Obj) (p : String),
    unseen defs followed < fuel → resolveLoop defs fuel followed src o ≠ .panic p := by
  intro fuel
  induction fuel with
  | zero => intro _ _ _ _ h; omega
  | succ f ih =>
    intro followed src o p h
    unfold resolveLoop
    split
    · rename_i n g
      split
      · simp
      · rename_i hc
        split
        · simp
        · rename_i o' hl
          have hc' : followed.contains (n, g) = false := by simpa using hc
          have := unseen_cons_lt (lookup_some_mem hl) hc'
          exact ih _ _ _ _ (by omega)
    · simp

theorem resolveLoop_ne_err (defs : Defs) : ∀ (fuel : Nat) (followed : List ObjId) (src : Src) (o : Obj) (e : DomErr),
    resolveLoop defs fuel followed src o ≠ .err e := by
  intro fuel
  induction fuel with
  | zero => intro _ _ _ _; simp [resolveLoop]
  | succ f ih =>
    intro followed src o e
    unfold resolveLoop
    split
    · split
      · simp
      · split
        · simp
        · exact ih _ _ _ _
    · simp

/-- the result does not depend on the fuel once it exceeds the number of unfollowed definitions -/
theorem resolveLoop_fuel_indep (defs : Defs) : ∀ (f1 f2 : Nat) (followed : List ObjId) (src : Src) (o : Obj),
    unseen defs followed < f1 → unseen defs followed < f2 →
    resolveLoop defs f1 followed src o = resolveLoop defs f2 followed src o := by
  intro f1
  induction f1 with
  | zero => intro _ _ _ _ h; omega
  | succ f ih =>
    intro f2 followed src o h1 h2
    cases f2 with
    | zero => omega
    | succ g2 =>
      unfold resolveLoop
      split
      · rename_i n g
        split
        · rfl
        · rename_i hc
          split
          · rfl
          · rename_i o' hl
            have hc' : followed.contains (n, g) = false := by simpa using hc
            have := unseen_cons_lt (lookup_some_mem hl) hc'
            exact ih _ _ _ _ (by omega) (by omega)
      · rfl

/-- **dom_terminates, part 1** (`resolve_chain`): the loop body runs at most `|defs| + 1` times
    (at most `|defs|` links are followed): with any budget of at least `|defs| + 1` iterations the
    result is the one `resolveChain` computes, and it is never the out-of-fuel outcome. -/
theorem resolve_fuel_sufficient (defs : Defs) (o : Obj) (fuel : Nat) (h : defs.length + 1 ≤ fuel) :
    resolveLoop defs fuel [] .inline o = resolveChain defs o ∧
    (∀ p, resolveChain defs o ≠ .panic p) ∧ (∀ e, resolveChain defs o ≠ .err e) := by
  have hu := unseen_le defs []
  refine ⟨?_, ?_, ?_⟩
  · exact resolveLoop_fuel_indep defs _ _ _ _ _ (by omega) (by omega)
  · intro p; exact resolveLoop_ne_panic defs _ _ _ _ _ (by omega)
  · intro e; exact resolveLoop_ne_err defs _ _ _ _ _

example : resolveChain [((5, 0), .ref 5 0)] (.ref 5 0) = .ok none := by rfl
example : resolveChain [((5, 0), .ref 6 0), ((6, 0), .int 3)] (.ref 5 0) = .ok (some (.byId (6, 0), .int 3)) := by
  rfl

theorem resolveChain_ne_panic (defs : Defs) (o : Obj) (p : String) : resolveChain defs o ≠ .panic p :=
  (resolve_fuel_sufficient defs o _ (Nat.le_refl _)).2.1 p

/-- what `resolve_chain` returns is never itself a reference -/
theorem resolveLoop_not_ref (defs : Defs) : ∀ (fuel : Nat) (followed : List ObjId) (src s : Src) (o v : Obj),
    resolveLoop defs fuel followed src o = .ok (some (s, v)) → ∀ n g, v ≠ .ref n g := by
  intro fuel
  induction fuel with
  | zero => intro _ _ _ _ _ h; simp [resolveLoop] at h
  | succ f ih =>
    intro followed src s o v h
    unfold resolveLoop at h
    split at h
    · split at h
      · simp at h
      · split at h
        · simp at h
        · exact ih _ _ _ _ _ h
    · rename_i hnr
      simp at h
      intro n g hv
      exact hnr n g (by rw [← hv]; exact h.2)

/-! ## C. no converter panics -/

theorem getChainResolvedDict_np (defs : Defs) (d : Kvs) (k : Bytes) (p : String) :
    getChainResolvedDict defs d k ≠ .panic p := by
  unfold getChainResolvedDict
  split
  · simp
  · split <;> simp_all [resolveChain_ne_panic]

theorem toEncoding_np (defs : Defs) (o : Obj) (p : String) : toEncoding defs o ≠ .panic p := by
  unfold toEncoding
  split <;> (try split) <;> (try split) <;> (try split) <;> (try split) <;> simp_all [resolveChain_ne_panic]

theorem toFontDescrEntry_np (defs : Defs) (dom : Dom) (d : Kvs) (p : String) :
    toFontDescrEntry defs dom d ≠ .panic p := by
  unfold toFontDescrEntry
  split <;> (try split) <;> (try split) <;> (try split) <;> simp_all

theorem toFontDict_np (defs : Defs) (dom : Dom) (d : Kvs) (p : String) :
    toFontDict defs dom d ≠ .panic p := by
  unfold toFontDict
  split
  · simp
  · split
    · simp
    · split
      · simp_all [toFontDescrEntry_np]
      · simp
      · split
        · simp
        · split <;> simp_all [toEncoding_np]

theorem objToFontDict_np (defs : Defs) (dom : Dom) (o : Obj) (p : String) :
    objToFontDict defs dom o ≠ .panic p := by
  unfold objToFontDict
  split <;> simp_all [toFontDict_np]

theorem fontLoop_np (defs : Defs) : ∀ (kvs : Kvs) (dom : Dom) (fonts : List (Bytes × FontDict)) (p : String),
    fontLoop defs kvs dom fonts ≠ .panic p := by
  intro kvs
  induction kvs with
  | nil => intro _ _ _; simp [fontLoop]
  | cons e t ih =>
    intro dom fonts p
    obtain ⟨frn, fr⟩ := e
    unfold fontLoop
    split
    · split
      · simp
      · split
        · simp_all [objToFontDict_np]
        · simp
        · exact ih _ _ _
    · split
      · simp_all [toFontDict_np]
      · simp
      · exact ih _ _ _
    · simp

theorem toResourceFontValue_np (defs : Defs) (dom : Dom) (o : Obj) (p : String) :
    toResourceFontValue defs dom o ≠ .panic p := by
  unfold toResourceFontValue
  split
  · simp_all [resolveChain_ne_panic]
  · simp
  · split <;> simp
  · exact fontLoop_np _ _ _ _ _
  · simp

theorem resLoop_np (defs : Defs) : ∀ (kvs : Kvs) (dom : Dom) (f : Option (List (Bytes × FontDict))) (p : String),
    resLoop defs kvs dom f ≠ .panic p := by
  intro kvs
  induction kvs with
  | nil => intro _ _ _; simp [resLoop]
  | cons e t ih =>
    intro dom f p
    obtain ⟨k, v⟩ := e
    unfold resLoop
    split
    · split
      · simp_all [toResourceFontValue_np]
      · simp
      · exact ih _ _ _
    · exact ih _ _ _

theorem toResources_np (defs : Defs) (dom : Dom) (rd : Kvs) (p : String) :
    toResources defs dom rd ≠ .panic p := by
  unfold toResources
  split <;> simp_all [resLoop_np]

theorem ownResources_np (defs : Defs) (dom : Dom) (d : Kvs) (p : String) :
    ownResources defs dom d ≠ .panic p := by
  unfold ownResources
  split
  · simp_all [getChainResolvedDict_np]
  · simp
  · simp
  · split <;> simp_all [toResources_np]

theorem toPageKids_np (defs : Defs) (q : ConvQ) (r : Option Resources) (o : Obj) (p : String) :
    toPageKids defs q r o ≠ .panic p := by
  unfold toPageKids
  split <;> simp_all [resolveChain_ne_panic]

theorem toRootPageTreeNode_np (defs : Defs) (q : ConvQ) (dom : Dom) (o : Obj) (p : String) :
    toRootPageTreeNode defs q dom o ≠ .panic p := by
  unfold toRootPageTreeNode
  split
  · split
    · simp_all [ownResources_np]
    · simp
    · split
      · simp
      · split
        · simp
        · split <;> simp_all [toPageKids_np]
  · simp

theorem toPageTreeNode_np (defs : Defs) (q : ConvQ) (dom : Dom) (r : Option Resources) (o : Obj) (p : String) :
    toPageTreeNode defs q dom r o ≠ .panic p := by
  unfold toPageTreeNode
  split
  · split
    · simp
    · split
      · simp_all [ownResources_np]
      · simp
      · simp only []
        split
        · simp
        · split
          · simp
          · split <;> simp_all [toPageKids_np]
  · simp

theorem toPageContent_np (defs : Defs) (o : Obj) (p : String) : toPageContent defs o ≠ .panic p := by
  unfold toPageContent
  split <;> simp_all [resolveChain_ne_panic]

theorem contentsLoop_np (defs : Defs) : ∀ (xs : List Obj) (v : List (Src × Obj)) (p : String),
    contentsLoop defs xs v ≠ .panic p := by
  intro xs
  induction xs with
  | nil => intro _ _; simp [contentsLoop]
  | cons x t ih =>
    intro v p
    unfold contentsLoop
    split
    · simp_all [toPageContent_np]
    · simp
    · simp
    · exact ih _ _

theorem toPageContents_np (defs : Defs) (o : Obj) (p : String) : toPageContents defs o ≠ .panic p := by
  unfold toPageContents
  split
  · simp_all [resolveChain_ne_panic]
  · simp
  · simp
  · simp
  · exact contentsLoop_np _ _ _ _
  · simp

theorem toPage_np (defs : Defs) (dom : Dom) (r : Option Resources) (o : Obj) (p : String) :
    toPage defs dom r o ≠ .panic p := by
  unfold toPage
  split
  · split
    · simp
    · split
      · simp_all [ownResources_np]
      · simp
      · simp only []
        split
        · simp
        · split <;> simp_all [toPageContents_np]
  · simp

theorem toCatalog_np (defs : Defs) (q : ConvQ) (dom : Dom) (o : Obj) (p : String) :
    toCatalog defs q dom o ≠ .panic p := by
  unfold toCatalog
  split
  · split
    · split
      · exact toRootPageTreeNode_np _ _ _ _ _
      · simp
    · simp
  · simp

theorem domStep_np (defs : Defs) (q : ConvQ) (dom : Dom) (id : ObjId) (r : Option Resources) (o : Obj)
    (p : String) : domStep defs q dom id r o ≠ .panic p := by
  unfold domStep
  split
  · split
    · split
      · split <;> simp_all [toPageTreeNode_np]
      · split
        · split <;> simp_all [toPage_np]
        · simp
    · simp
  · simp

/-! ## D. the work loop terminates: every identifier is queued at most once -/

/-- queue length + definitions not yet examined -/
def qMeasure (defs : Defs) (q : ConvQ) : Nat := q.nodes.length + unseen defs q.examined

theorem add_measure {defs : Defs} {id : ObjId} {o : Obj} (q : ConvQ) (r : Option Resources)
    (h : lookup defs id = some o) : qMeasure defs (q.add id r o) ≤ qMeasure defs q := by
  unfold ConvQ.add
  split
  · exact Nat.le_refl _
  · rename_i hc
    have hc' : q.examined.contains id = false := by simpa using hc
    have := unseen_cons_lt (lookup_some_mem h) hc'
    simp only [qMeasure, List.length_append, List.length_cons, List.length_nil]
    omega

theorem kidsLoop_measure (defs : Defs) (r : Option Resources) : ∀ (xs : List Obj) (q : ConvQ) (kids : List ObjId),
    qMeasure defs (kidsLoop defs r xs q kids).1 ≤ qMeasure defs q := by
  intro xs
  induction xs with
  | nil => intro q kids; simp [kidsLoop]
  | cons x t ih =>
    intro q kids
    cases x with
    | ref n g =>
      simp only [kidsLoop]
      split
      · rename_i o hl
        exact Nat.le_trans (ih _ _) (add_measure q r hl)
      · exact ih _ _
    | _ => simp only [kidsLoop]; exact ih _ _

theorem toPageKids_measure {defs : Defs} {q q' : ConvQ} {r : Option Resources} {o : Obj}
    {k : Option (List ObjId)} (h : toPageKids defs q r o = .ok (q', k)) :
    qMeasure defs q' ≤ qMeasure defs q := by
  unfold toPageKids at h
  split at h
  · simp at h
  · simp at h
  · simp at h; rw [← h.1]; exact Nat.le_refl _
  · rename_i xs _
    simp at h
    rw [← h.1]
    exact kidsLoop_measure defs r xs q []
  · simp at h; rw [← h.1]; exact Nat.le_refl _

theorem toRootPageTreeNode_measure {defs : Defs} {q q' : ConvQ} {dom dom' : Dom} {o : Obj} {n : RootNode}
    (h : toRootPageTreeNode defs q dom o = .ok (q', dom', n)) : qMeasure defs q' ≤ qMeasure defs q := by
  unfold toRootPageTreeNode at h
  split at h
  · split at h
    · simp at h
    · simp at h
    · split at h
      · simp at h
      · split at h
        · simp at h
        · split at h
          · simp at h
          · simp at h
          · simp at h
          · rename_i hk
            simp at h
            rw [← h.1]
            exact toPageKids_measure hk
  · simp at h

theorem toPageTreeNode_measure {defs : Defs} {q q' : ConvQ} {dom dom' : Dom} {r : Option Resources} {o : Obj}
    {n : TreeNode} (h : toPageTreeNode defs q dom r o = .ok (q', dom', n)) :
    qMeasure defs q' ≤ qMeasure defs q := by
  unfold toPageTreeNode at h
  split at h
  · split at h
    · simp at h
    · split at h
      · simp at h
      · simp at h
      · simp only [] at h
        split at h
        · simp at h
        · split at h
          · simp at h
          · split at h
            · simp at h
            · simp at h
            · simp at h
            · rename_i hk
              simp at h
              rw [← h.1]
              exact toPageKids_measure hk
  · simp at h

theorem toCatalog_measure {defs : Defs} {q q' : ConvQ} {dom dom' : Dom} {o : Obj} {n : RootNode}
    (h : toCatalog defs q dom o = .ok (q', dom', n)) : qMeasure defs q' ≤ qMeasure defs q := by
  unfold toCatalog at h
  split at h
  · split at h
    · split at h
      · exact toRootPageTreeNode_measure h
      · simp at h
    · simp at h
  · simp at h

theorem domStep_measure {defs : Defs} {q q' : ConvQ} {dom dom' : Dom} {id : ObjId} {r : Option Resources}
    {o : Obj} (h : domStep defs q dom id r o = .ok (q', dom')) : qMeasure defs q' ≤ qMeasure defs q := by
  unfold domStep at h
  split at h
  · split at h
    · split at h
      · split at h
        · simp at h
        · simp at h
        · rename_i hn
          simp at h
          rw [← h.1]
          exact toPageTreeNode_measure hn
      · split at h
        · split at h
          · simp at h
          · simp at h
          · simp at h; rw [← h.1]; exact Nat.le_refl _
        · simp at h
    · simp at h
  · simp at h

theorem domLoop_ne_panic (defs : Defs) : ∀ (fuel : Nat) (q : ConvQ) (dom : Dom) (p : String),
    qMeasure defs q < fuel → domLoop defs fuel q dom ≠ .panic p := by
  intro fuel
  induction fuel with
  | zero => intro _ _ _ h; omega
  | succ f ih =>
    intro q dom p h
    unfold domLoop
    split
    · simp
    · rename_i hne
      split
      · rename_i hnil
        simp [hnil] at hne
      · rename_i id r o rest hq
        split
        · rename_i hs
          exact absurd hs (domStep_np _ _ _ _ _ _ _)
        · simp
        · rename_i q' dom' hs
          have hm := domStep_measure hs
          apply ih
          simp only [qMeasure, hq, List.length_cons] at h hm ⊢
          omega

theorem domLoop_fuel_indep (defs : Defs) : ∀ (f1 f2 : Nat) (q : ConvQ) (dom : Dom),
    qMeasure defs q < f1 → qMeasure defs q < f2 → domLoop defs f1 q dom = domLoop defs f2 q dom := by
  intro f1
  induction f1 with
  | zero => intro _ _ _ h; omega
  | succ f ih =>
    intro f2 q dom h1 h2
    cases f2 with
    | zero => omega
    | succ g2 =>
      unfold domLoop
      split
      · rfl
      · split
        · rfl
        · rename_i id r o rest hq
          split
          · rfl
          · rfl
          · rename_i q' dom' hs
            have hm := domStep_measure hs
            apply ih
            · simp only [qMeasure, hq, List.length_cons] at h1 hm ⊢; omega
            · simp only [qMeasure, hq, List.length_cons] at h2 hm ⊢; omega

theorem catalog_measure_le {defs : Defs} {q : ConvQ} {dom : Dom} {o : Obj} {n : RootNode}
    (h : toCatalog defs {} {} o = .ok (q, dom, n)) : qMeasure defs q ≤ defs.length := by
  have := toCatalog_measure h
  have hu := unseen_le defs []
  simp only [qMeasure, List.length_nil] at this ⊢
  omega

/-- **dom_never_panics**: `to_page_dom` never reaches `q.next().unwrap()` on an empty queue and
    never runs out of the loop budgets `|defs| + 1` (resolve_chain, work loop). -/
theorem dom_never_panics (defs : Defs) (cat : Obj) (p : String) : toPageDom defs cat ≠ .panic p := by
  unfold toPageDom toPageDomFuel
  split
  · rename_i h; exact absurd h (toCatalog_np _ _ _ _ _)
  · simp
  · rename_i q dom root h
    have hm := catalog_measure_le h
    split
    · rename_i hl
      exact absurd hl (domLoop_ne_panic defs _ _ _ _ (by omega))
    · simp
    · simp

/-- **dom_terminates**: the work loop runs at most `|defs| + 1` times (each identifier is queued at
    most once, and only defined identifiers are queued): any budget of at least `|defs| + 1`
    iterations gives the result of `to_page_dom`, which is not the out-of-fuel outcome.
    (Reference chains: `resolve_fuel_sufficient`.) -/
theorem dom_terminates (defs : Defs) (cat : Obj) (fuel : Nat) (h : defs.length + 1 ≤ fuel) :
    toPageDomFuel defs fuel cat = toPageDom defs cat ∧ ∀ p, toPageDom defs cat ≠ .panic p := by
  refine ⟨?_, dom_never_panics defs cat⟩
  unfold toPageDom toPageDomFuel
  split
  · rfl
  · rfl
  · rename_i q dom root hc
    have hm := catalog_measure_le hc
    rw [domLoop_fuel_indep defs fuel (defs.length + 1) q dom (by omega) (by omega)]

end Parsley.C11
